(** C36 radix tree — [Insert]: the walk after [ins_node] is [smap_insert] of the walk before,
    [wf] is preserved, and the returned (value, inserted) pair is determined by [Get]. *)
From Verif Require Import Base.Prelude Model.C36_rhh Model.C36_radix
  Proofs.C36_radix_ord Proofs.C36_radix_wf.
From Coq Require Import Sorted.

(** normalise nested [++] / [::] to the right *)
Ltac nap := repeat (first [rewrite <- app_assoc | rewrite <- app_comm_cons]).

Lemma elabels_add_edge (Q : N -> Prop) es c n :
  Q c -> Forall Q (elabels es) -> Forall Q (elabels (add_edge es c n)).
Proof.
  intros Hc. induction es as [|l ch rest IH]; simpl; intro F.
  - constructor; auto.
  - destruct (N.ltb l c); simpl.
    + inversion F; subst. constructor; auto.
    + constructor; auto.
Qed.

Lemma ins_edges_some_in es c search s v x :
  ins_edges es c search s v = Some x -> In c (elabels es).
Proof.
  revert x. induction es as [|l ch rest IH]; intros x; simpl; [discriminate|].
  destruct (N.eqb_spec l c) as [->|NE]; [left; reflexivity|].
  intros H. right.
  destruct (ins_edges rest c search s v) as [y|] eqn:E; [|discriminate].
  eapply IH; reflexivity.
Qed.

(** keys below the old child, seen from the split point *)
Lemma under_split pi c q x b' k :
  under (pi ++ c :: q ++ x :: b') k -> ekey (pi ++ c :: q) (eq x) k.
Proof.
  intros [r ->]. exists x, (b' ++ r). split; [reflexivity|]. nap. reflexivity.
Qed.

Lemma ins_both :
  (forall n pi search v, wf pi n ->
     forall n' ins r, ins_node n search (pi ++ search) v = (n', ins, r) ->
       walk n' = smap_insert (pi ++ search) v (walk n) /\ wf pi n' /\ r_prefix n' = r_prefix n) /\
  (forall es pi c tl v, wfe pi es ->
     match ins_edges es c (c :: tl) (pi ++ c :: tl) v with
     | Some (es', ins, r) =>
         walk_edges es' = smap_insert (pi ++ c :: tl) v (walk_edges es)
         /\ wfe pi es' /\ elabels es' = elabels es
     | None =>
         forall es', es' = add_edge es c (RNode (Some (pi ++ c :: tl, v)) (c :: tl) ENil) ->
         walk_edges es' = smap_insert (pi ++ c :: tl) v (walk_edges es)
         /\ wfe pi es'
     end).
Proof.
  apply rnode_redges_ind.
  - (* node *)
    intros leaf p es IH pi search v [Hl He] n' ins r E.
    destruct search as [|c tl].
    + rewrite app_nil_r in *. simpl in E.
      destruct leaf as [[k old]|]; injection E as <- <- <-.
      * subst k. simpl. rewrite bytes_eqb_refl. repeat split; auto.
      * simpl. split; [|repeat split; auto].
        symmetry. apply smap_insert_front.
        eapply kall_impl; [|apply walk_edges_any, He]. intros k. apply ekey_gt_path.
    + cbn [ins_node] in E. specialize (IH pi c tl v He).
      assert (SK : forall L, smap_insert (pi ++ c :: tl) v
                   ((match leaf with Some kv => [kv] | None => [] end) ++ L) =
                 (match leaf with Some kv => [kv] | None => [] end)
                   ++ smap_insert (pi ++ c :: tl) v L).
      { intro L. apply smap_insert_skip. destruct leaf as [[k old]|]; [|constructor].
        subst k. apply kall_cons; [apply bytes_ltb_prefix | constructor]. }
      destruct (ins_edges es c (c :: tl) (pi ++ c :: tl) v) as [[[es' ins'] r']|].
      * injection E as <- <- <-. destruct IH as (Hw & Hwf & _).
        cbn [walk]. rewrite SK. split; [f_equal; exact Hw|]. repeat split; auto.
      * injection E as <- <- <-. destruct (IH _ eq_refl) as (Hw & Hwf).
        cbn [walk]. rewrite SK. split; [f_equal; exact Hw|]. repeat split; auto.
  - (* ENil *)
    intros pi c tl v _. simpl. intros es' ->. simpl. repeat split; auto.
    exists tl; reflexivity.
  - (* ECons *)
    intros l ch IHc rest IHr pi c tl v W.
    pose proof (walk_child_keys _ _ _ _ W) as Kc.
    pose proof (walk_rest_keys _ _ _ _ W) as Kr.
    destruct W as ([tl0 Hp] & Hc & Hlt & Hr).
    cbn [ins_edges].
    destruct (N.eqb_spec l c) as [->|NE].
    + (* the edge exists *)
      destruct ch as [cl cp ces]. simpl in Hp. subst cp. simpl r_prefix in Hc.
      assert (KW : kall (fun k' => bytes_ltb (pi ++ c :: tl) k' = true) (walk_edges rest)).
      { eapply kall_impl; [|exact Kr]. intros k. apply ekey_gt. }
      destruct (Nat.eqb (lcp (c :: tl) (c :: tl0)) (length (c :: tl0))) eqn:HK.
      * (* descend *)
        pose proof HK as HK2. apply Nat.eqb_eq in HK2. rewrite HK2.
        rewrite lcp_full in HK. apply has_prefix_spec in HK as [r HK].
        injection HK as ->.
        change (skipn (length (c :: tl0)) (c :: tl0 ++ r)) with
          (skipn (length (c :: tl0)) ((c :: tl0) ++ r)).
        rewrite skipn_app_exact.
        assert (ES : pi ++ c :: tl0 ++ r = (pi ++ c :: tl0) ++ r) by (nap; reflexivity).
        destruct (ins_node (RNode cl (c :: tl0) ces) r (pi ++ c :: tl0 ++ r) v)
          as [[ch' ins] rv] eqn:EI.
        pose proof EI as EI'. rewrite ES in EI'.
        apply (IHc (pi ++ c :: tl0) r v Hc) in EI' as (Hw & Hwf & Hpre).
        rewrite <- ES in Hw.
        cbn [walk_edges]. rewrite smap_insert_app_l by exact KW. rewrite Hw.
        split; [reflexivity|]. split; [|reflexivity].
        cbn [wfe]. rewrite Hpre. simpl r_prefix. repeat split; eauto.
      * (* split *)
        cbn [lcp] in *. rewrite N.eqb_refl in *. cbn [length] in HK.
        change (Nat.eqb (S (lcp tl tl0)) (S (length tl0)))
          with (Nat.eqb (lcp tl tl0) (length tl0)) in HK.
        destruct (lcp_split tl tl0 HK) as (q & x & b' & H1 & H2 & H3 & H4 & H5 & H6).
        cbn [firstn skipn nth]. rewrite H1, H3, H4. cbn [add_edge].
        remember (skipn (lcp tl tl0) tl) as sk eqn:Esk. clear Esk H1 H3 H4 HK.
        subst tl tl0.
        assert (ES : pi ++ c :: q ++ sk = (pi ++ c :: q) ++ sk) by (nap; reflexivity).
        assert (EP : (pi ++ c :: q) ++ x :: b' = pi ++ c :: q ++ x :: b') by (nap; reflexivity).
        assert (Kc2 : kall (ekey (pi ++ c :: q) (eq x)) (walk (RNode cl (c :: q ++ x :: b') ces))).
        { eapply kall_impl; [|apply walk_under, Hc]. intros k. apply under_split. }
        assert (Wold : wf ((pi ++ c :: q) ++ x :: b') (RNode cl (x :: b') ces)).
        { rewrite EP. exact Hc. }
        assert (Wlow : wfe (pi ++ c :: q) (ECons x (RNode cl (x :: b') ces) ENil)).
        { cbn [wfe r_prefix]. split; [eauto|]. split; [exact Wold|]. split; [constructor | exact I]. }
        split; [|split; [|reflexivity]].
        -- (* walk *)
           cbn [walk_edges].
           change (walk (RNode cl (c :: q ++ x :: b') ces)) with (walk (RNode cl (x :: b') ces)) in *.
           clear IHc IHr Wold Wlow Hc.
           remember (RNode cl (x :: b') ces) as old eqn:Eold. clear Eold.
           remember (walk_edges rest) as Wr eqn:EWr. clear EWr.
           destruct sk as [|c' sr].
           ++ simpl. rewrite (app_nil_r (walk old)).
              symmetry. apply smap_insert_front. apply kall_app; [|exact KW].
              eapply kall_impl; [|exact Kc2]. intros k Hk.
              rewrite ES, app_nil_r. eapply ekey_gt_path, Hk.
           ++ specialize (H6 c' sr eq_refl).
              cbn [add_edge]. destruct (N.ltb_spec x c') as [LT|GE].
              ** simpl.
                 rewrite smap_insert_skip.
                 { rewrite smap_insert_front by exact KW. rewrite <- app_assoc. reflexivity. }
                 eapply kall_impl; [|exact Kc2]. intros k Hk.
                 rewrite ES. apply ekey_lt. revert Hk. apply ekey_impl. intros; subst; lia.
              ** simpl. rewrite (app_nil_r (walk old)).
                 symmetry. apply smap_insert_front. apply kall_app; [|exact KW].
                 eapply kall_impl; [|exact Kc2]. intros k Hk.
                 rewrite ES. apply ekey_gt. revert Hk. apply ekey_impl. intros; subst; lia.
        -- (* wf *)
           cbn [wfe]. split; [|split; [|split; [exact Hlt | exact Hr]]].
           ++ destruct sk; simpl; eauto.
           ++ destruct sk as [|c' sr]; cbn [r_prefix].
              ** cbn [wf]. split; [rewrite app_nil_r; reflexivity | exact Wlow].
              ** specialize (H6 c' sr eq_refl).
                 cbn [wf]. split; [exact I|].
                 cbn [add_edge]. destruct (N.ltb_spec x c') as [LT|GE].
                 --- destruct Wlow as (A1 & A2 & _ & _).
                     cbn [wfe]. split; [exact A1|]. split; [exact A2|].
                     split; [constructor; [exact LT | constructor]|].
                     cbn [wfe r_prefix]. split; [eauto|].
                     split; [cbn [wf]; split; [exact ES | exact I]|].
                     split; [constructor | exact I].
                 --- cbn [wfe]. cbn [r_prefix]. split; [eauto|].
                     split; [cbn [wf]; split; [exact ES | exact I]|].
                     split; [constructor; [lia | constructor] | exact Wlow].
    + (* another label *)
      specialize (IHr pi c tl v Hr).
      destruct (ins_edges rest c (c :: tl) (pi ++ c :: tl) v) as [[[rest' ins] rv]|] eqn:ER.
      * destruct IHr as (Hw & Hwf & Hlab).
        assert (LT : (l < c)%N).
        { apply ins_edges_some_in in ER. rewrite Forall_forall in Hlt. auto. }
        cbn [walk_edges]. rewrite smap_insert_skip, Hw.
        -- split; [reflexivity|]. split; [|cbn [elabels]; rewrite Hlab; reflexivity].
           cbn [wfe]. rewrite Hlab. repeat split; eauto.
        -- eapply kall_impl; [|exact Kc]. intros k Hk.
           apply ekey_lt. revert Hk. apply ekey_impl. intros; subst; lia.
      * intros es' ->. cbn [add_edge]. destruct (N.ltb_spec l c) as [LT|GE].
        -- destruct (IHr _ eq_refl) as (Hw & Hwf).
           cbn [walk_edges]. rewrite smap_insert_skip.
           ++ split; [f_equal; exact Hw|].
              cbn [wfe]. repeat split; eauto.
              apply elabels_add_edge; auto.
           ++ eapply kall_impl; [|exact Kc]. intros k Hk.
              apply ekey_lt. revert Hk. apply ekey_impl. intros; subst; lia.
        -- assert (LT : (c < l)%N) by lia.
           split.
           ++ simpl. symmetry. apply smap_insert_front. apply kall_app.
              ** eapply kall_impl; [|exact Kc]. intros k Hk.
                 apply ekey_gt. revert Hk. apply ekey_impl. intros; subst; lia.
              ** eapply kall_impl; [|exact Kr]. intros k Hk.
                 apply ekey_gt. revert Hk. apply ekey_impl. intros; lia.
           ++ cbn [wfe r_prefix]. split; [eauto|].
              split; [cbn [wf]; split; [reflexivity | exact I]|].
              split.
              ** cbn [elabels]. constructor; [exact LT|].
                 eapply Forall_impl; [|exact Hlt]. intros a Ha; cbv beta in *; lia.
              ** repeat split; eauto.
Qed.

(** ** the returned pair is determined by [Get] (no invariant needed) *)
Lemma ins_result_both :
  (forall n search s v n' ins r, ins_node n search s v = (n', ins, r) ->
     (ins, r) = match get_node n search with Some old => (false, old) | None => (true, v) end) /\
  (forall es c search s v,
     match ins_edges es c search s v with
     | Some (_, ins, r) =>
         (ins, r) = match get_edges es c search with Some old => (false, old) | None => (true, v) end
     | None => get_edges es c search = None
     end).
Proof.
  apply rnode_redges_ind.
  - intros leaf p es IH search s v n' ins r E.
    destruct search as [|c tl]; cbn [ins_node get_node] in *.
    + destruct leaf as [[k old]|]; injection E as <- <- <-; reflexivity.
    + specialize (IH c (c :: tl) s v).
      destruct (ins_edges es c (c :: tl) s v) as [[[es' ins'] r']|].
      * injection E as <- <- <-. exact IH.
      * injection E as <- <- <-. rewrite IH. reflexivity.
  - intros; reflexivity.
  - intros l ch IHc rest IHr c search s v. cbn [ins_edges get_edges].
    destruct (N.eqb l c).
    + destruct ch as [cl cp ces]. rewrite <- lcp_full.
      destruct (Nat.eqb (lcp search cp) (length cp)) eqn:HK.
      * apply Nat.eqb_eq in HK. rewrite HK.
        destruct (ins_node (RNode cl cp ces) (skipn (length cp) search) s v)
          as [[ch' ins] r] eqn:EI.
        apply IHc in EI. exact EI.
      * reflexivity.
    + specialize (IHr c search s v).
      destruct (ins_edges rest c search s v) as [[[rest' ins] r]|]; exact IHr.
Qed.

(** ** tree level *)
Definition tree_inv (t : rtree) (a : list (bytes * Z)) : Prop :=
  wf [] (r_root t) /\ walk (r_root t) = a /\ r_size t = Z.of_nat (length a).

Lemma tree_inv_get t a k : tree_inv t a -> r_get t k = smap_get k a.
Proof. intros (W & <- & _). unfold r_get. apply (get_walk _ [] k W). Qed.

Lemma tree_inv_sorted t a : tree_inv t a -> keys_sorted a.
Proof. intros (W & <- & _). eapply walk_sorted, W. Qed.

Lemma r_insert_spec t a s v t' ins r :
  tree_inv t a -> r_insert t s v = (t', ins, r) ->
  tree_inv t' (smap_insert s v a)
  /\ (ins, r) = match smap_get s a with Some old => (false, old) | None => (true, v) end.
Proof.
  intros I E. pose proof (tree_inv_sorted _ _ I) as SS.
  pose proof (tree_inv_get _ _ s I) as G.
  destruct I as (W & Hw & Hs). unfold r_insert in E.
  destruct (ins_node (r_root t) s s v) as [[root' ins0] r0] eqn:EI.
  injection E as <- <- <-.
  pose proof (proj1 ins_result_both _ _ _ _ _ _ _ EI) as R.
  fold (r_get t s) in R. rewrite G in R.
  apply (proj1 ins_both (r_root t) [] s v W) in EI as (Hw' & Hwf' & _). simpl in Hw'.
  split; [|exact R].
  split; [exact Hwf'|]. cbn [r_root r_size]. split; [rewrite Hw', Hw; reflexivity|].
  rewrite smap_insert_length by exact SS.
  destruct (smap_get s a); injection R as -> _; lia.
Qed.
