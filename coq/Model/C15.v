(** C15 — Tag WHERE clauses select exactly the matching series.

    Mirror of /repo/tsdb/index.go:
      [IndexSet.seriesByExprIterator]            -> [series_by_expr]
      [IndexSet.seriesByBinaryExprIterator]      -> the atom cases of [series_by_expr]
      [IndexSet.seriesByBinaryExprStringIterator]-> [by_string]
      [IndexSet.seriesByBinaryExprRegexIterator] -> [by_regex]
      [IndexSet.matchTagValue{Equal,NotEqual}{Empty,NotEmpty}SeriesIDIterator] -> the four
                                                    branches of [match_tag_value]
      [IndexSet.seriesByBinaryExprVarRefIterator]-> [EqRef]/[NeqRef] cases
      [IntersectSeriesIDIterators], [UnionSeriesIDIterators], [DifferenceSeriesIDIterators],
      [MergeSeriesIDIterators] (with their nil-iterator rules) -> [isect] [union] [diff] [merge_sets].

    An index is what the code reads: four lookup functions (measurement series, tag-key series,
    tag-value series, listed tag values).  A set of series ids is a SUBLIST of the index's
    series list [l], kept in id order (position in [l] = series-file id order); [None] is Go's
    nil iterator.  Regular expressions are external: [rmatch : R -> string -> bool] is a
    Section variable (Go's regexp.Regexp.Match / MatchString). *)
From Coq Require Import String Ascii.
From Verif Require Import Base.Prelude.
Open Scope string_scope.

Definition tags := list (string * string).
Record series := { s_name : string; s_tags : tags }.

Fixpoint tag_get (ts : tags) (k : string) : option string :=
  match ts with
  | [] => None
  | (k', v) :: r => if String.eqb k' k then Some v else tag_get r k
  end.

(** InfluxQL semantics: an absent tag compares as the empty string. *)
Definition tagval (s : series) (k : string) : string :=
  match tag_get (s_tags s) k with Some v => v | None => "" end.

Definition tag_eqb (a b : string * string) : bool :=
  String.eqb (fst a) (fst b) && String.eqb (snd a) (snd b).
Definition series_eqb (a b : series) : bool :=
  String.eqb (s_name a) (s_name b) && list_eqb tag_eqb (s_tags a) (s_tags b).

Definition sset := list series.
Definition mem (s : series) (a : sset) : bool := existsb (series_eqb s) a.
Definition norm (a : option sset) : sset := match a with Some x => x | None => [] end.

(** What the code reads from the (merged) index. *)
Record index := {
  ix_meas : string -> option sset;                      (* measurementSeriesIDIterator *)
  ix_key  : string -> string -> option sset;            (* tagKeySeriesIDIterator *)
  ix_val  : string -> string -> string -> option sset;  (* tagValueSeriesIDIterator *)
  ix_vals : string -> string -> option (list string)    (* tagValueIterator; None = nil *)
}.

Definition is_meas (n : string) (s : series) : bool := String.eqb (s_name s) n.
Definition has_key (k : string) (s : series) : bool :=
  match tag_get (s_tags s) k with Some _ => true | None => false end.
Definition has_val (k v : string) (s : series) : bool :=
  match tag_get (s_tags s) k with Some v' => String.eqb v' v | None => false end.

Fixpoint dedup (l : list string) : list string :=
  match l with
  | [] => []
  | x :: r => if existsb (String.eqb x) r then dedup r else x :: dedup r
  end.

(** The index of a series list (no stale entries). *)
Definition values_of (l : list series) (n k : string) : list string :=
  dedup (flat_map (fun s => if is_meas n s then
                              match tag_get (s_tags s) k with Some v => [v] | None => [] end
                            else []) l).
Definition index_of (l : list series) : index := {|
  ix_meas := fun n => Some (filter (is_meas n) l);
  ix_key  := fun n k => Some (filter (fun s => is_meas n s && has_key k s) l);
  ix_val  := fun n k v => Some (filter (fun s => is_meas n s && has_val k v s) l);
  ix_vals := fun n k => match values_of l n k with [] => None | vs => Some vs end
|}.

Section WithRegex.
Variable R : Type.
Variable rmatch : R -> string -> bool.

Inductive expr :=
| Eq (k v : string) | Neq (k v : string)        (* k = 'v', k != 'v' *)
| Re (k : string) (r : R) | NRe (k : string) (r : R)   (* k =~ /r/, k !~ /r/ *)
| And (a b : expr) | Or (a b : expr) | Paren (a : expr) | BoolLit (b : bool)
| EqRef (k k2 : string) | NeqRef (k k2 : string)  (* tag = tag, tag != tag: outside the property's grammar *)
| FieldCmp (f : string).                          (* comparison on a field: residual filter, outside the grammar *)

Fixpoint tag_only (e : expr) : bool :=
  match e with
  | Eq _ _ | Neq _ _ | Re _ _ | NRe _ _ | BoolLit _ => true
  | And a b | Or a b => tag_only a && tag_only b
  | Paren a => tag_only a
  | EqRef _ _ | NeqRef _ _ | FieldCmp _ => false
  end.

(** InfluxQL semantics of a tag expression on one series of measurement [n]
    ([_name] denotes the measurement name).  For [EqRef]/[NeqRef] this is VALUE comparison
    (what the expression says), which the index does not implement; [FieldCmp] is [true]
    (the index keeps every series and attaches the comparison as a residual filter). *)
Fixpoint eval (n : string) (e : expr) (s : series) : bool :=
  match e with
  | Eq k v => if String.eqb k "_name" then String.eqb v n else String.eqb (tagval s k) v
  | Neq k v => if String.eqb k "_name" then negb (String.eqb v n) else negb (String.eqb (tagval s k) v)
  | Re k r => if String.eqb k "_name" then rmatch r n else rmatch r (tagval s k)
  | NRe k r => if String.eqb k "_name" then negb (rmatch r n) else negb (rmatch r (tagval s k))
  | And a b => eval n a s && eval n b s
  | Or a b => eval n a s || eval n b s
  | Paren a => eval n a s
  | BoolLit b => b
  | EqRef k k2 => String.eqb (tagval s k) (tagval s k2)
  | NeqRef k k2 => negb (String.eqb (tagval s k) (tagval s k2))
  | FieldCmp _ => true
  end.

Section WithIndex.
Variable l : list series.   (* the universe, in id order *)
Variable ix : index.

(** IntersectSeriesIDIterators: nil if either is nil. *)
Definition isect (a b : option sset) : option sset :=
  match a, b with
  | Some x, Some y => Some (filter (fun s => mem s y) x)
  | _, _ => None
  end.
(** UnionSeriesIDIterators: the other one if either is nil; else merge in id order. *)
Definition union (a b : option sset) : option sset :=
  match a, b with
  | None, _ => b
  | _, None => a
  | Some x, Some y => Some (filter (fun s => mem s x || mem s y) l)
  end.
(** DifferenceSeriesIDIterators. *)
Definition diff (a b : option sset) : option sset :=
  match a, b with
  | None, _ => None
  | _, None => a
  | Some x, Some y => Some (filter (fun s => negb (mem s y)) x)
  end.
(** MergeSeriesIDIterators(itrs...) on non-nil iterators. *)
Definition merge_sets (its : list sset) : option sset :=
  match its with
  | [] => None
  | [x] => Some x
  | _ => Some (filter (fun s => existsb (mem s) its) l)
  end.

(** The loop shared by the four matchTagValue* functions: collect the series iterators of
    the listed values [v] with [rmatch r v = want] (only non-nil ones are appended). *)
Definition collect (n k : string) (r : R) (want : bool) (vals : list string) : list sset :=
  flat_map (fun v => if Bool.eqb (rmatch r v) want
                     then match ix_val ix n k v with Some x => [x] | None => [] end
                     else []) vals.

(** matchTagValueSeriesIDIterator. *)
Definition match_tag_value (n k : string) (r : R) (matches : bool) : option sset :=
  let match_empty := rmatch r "" in
  if matches then
    if match_empty then
      (* matchTagValueEqualEmptySeriesIDIterator *)
      match ix_vals ix n k with
      | None => ix_meas ix n
      | Some vals => diff (ix_meas ix n) (merge_sets (collect n k r false vals))
      end
    else
      (* matchTagValueEqualNotEmptySeriesIDIterator *)
      match ix_vals ix n k with
      | None => None
      | Some vals => merge_sets (collect n k r true vals)
      end
  else
    if match_empty then
      (* matchTagValueNotEqualEmptySeriesIDIterator *)
      match ix_vals ix n k with
      | None => None
      | Some vals => merge_sets (collect n k r false vals)
      end
    else
      (* matchTagValueNotEqualNotEmptySeriesIDIterator *)
      match ix_vals ix n k with
      | None => ix_meas ix n
      | Some vals => diff (ix_meas ix n) (merge_sets (collect n k r true vals))
      end.

(** seriesByBinaryExprStringIterator; [eq] = (op == EQ). *)
Definition by_string (n k v : string) (eq : bool) : option sset :=
  if String.eqb k "_name" then
    if Bool.eqb (String.eqb v n) eq then ix_meas ix n else None
  else if eq then
    if negb (String.eqb v "") then ix_val ix n k v
    else diff (ix_meas ix n) (ix_key ix n k)
  else
    if negb (String.eqb v "") then diff (ix_meas ix n) (ix_val ix n k v)
    else ix_key ix n k.

(** seriesByBinaryExprRegexIterator; [eq] = (op == EQREGEX). *)
Definition by_regex (n k : string) (r : R) (eq : bool) : option sset :=
  if String.eqb k "_name" then
    if Bool.eqb (rmatch r n) eq then ix_meas ix n else None
  else match_tag_value n k r eq.

(** seriesByExprIterator (+ seriesByBinaryExprIterator for the atoms). *)
Fixpoint series_by_expr (n : string) (e : expr) : option sset :=
  match e with
  | And a b => isect (series_by_expr n a) (series_by_expr n b)
  | Or a b => union (series_by_expr n a) (series_by_expr n b)
  | Paren a => series_by_expr n a
  | BoolLit true => ix_meas ix n
  | BoolLit false => None
  | Eq k v => by_string n k v true
  | Neq k v => by_string n k v false
  | Re k r => by_regex n k r true
  | NRe k r => by_regex n k r false
  | EqRef k k2 => isect (ix_key ix n k) (ix_key ix n k2)
  | NeqRef k k2 => diff (ix_key ix n k) (ix_key ix n k2)
  | FieldCmp _ => ix_meas ix n
  end.

End WithIndex.

(** MeasurementSeriesByExprIterator on the index of [l] (every series of [l] is live:
    FilterUndeletedSeriesIDIterator removes nothing). *)
Definition select (l : list series) (n : string) (e : expr) : sset :=
  norm (series_by_expr l (index_of l) n e).

(** The property's right-hand side: the series of the measurement whose tags satisfy [e]. *)
Definition spec (l : list series) (n : string) (e : expr) : sset :=
  filter (fun s => is_meas n s && eval n e s) l.

End WithRegex.

Arguments Eq {R}. Arguments Neq {R}. Arguments Re {R}. Arguments NRe {R}.
Arguments And {R}. Arguments Or {R}. Arguments Paren {R}. Arguments BoolLit {R}.
Arguments EqRef {R}. Arguments NeqRef {R}. Arguments FieldCmp {R}.

(** ---- correspondence judge ---- *)

(** Go's regexp answers recorded by the driver: (pattern number, subject, answer). *)
Definition rtable := list (N * string * bool).
Fixpoint tbl_match (t : rtable) (r : N) (s : string) : bool :=
  match t with
  | [] => false
  | (r', s', b) :: t' => if N.eqb r r' && String.eqb s s' then b else tbl_match t' r s
  end.

(** Positions (in [l]) of the members of [a]. *)
Fixpoint positions_from (i : N) (l : list series) (a : sset) : list N :=
  match l with
  | [] => []
  | s :: r => if mem s a then i :: positions_from (N.succ i) r a else positions_from (N.succ i) r a
  end.
Definition positions := positions_from 0%N.

(** One query on one index: the live series in creation (= id) order, the regexp table, the
    measurement, the expression, and the ascending positions of the series that the real
    [IndexSet.MeasurementSeriesByExprIterator] returned. *)
Record case := { c_series : list series; c_tbl : rtable; c_name : string; c_expr : expr N;
                 c_out : list N }.

Definition model_out (c : case) : list N :=
  positions (c_series c) (select N (tbl_match (c_tbl c)) (c_series c) (c_name c) (c_expr c)).
Definition oracle_out (c : case) : list N :=
  positions (c_series c) (spec N (tbl_match (c_tbl c)) (c_series c) (c_name c) (c_expr c)).

(** The oracle is the property's statement itself; it is silent on expressions outside the
    property's grammar (tag-vs-tag and field comparisons), where only the mirror is compared. *)
Definition check (c : case) : verdict :=
  judge (list_eqb N.eqb (c_out c) (model_out c))
        (if tag_only N (c_expr c) then list_eqb N.eqb (c_out c) (oracle_out c) else true).
