#!/usr/bin/env python3
"""Rewrite the findings table of DESIGN.md (between the FINDINGS markers) from known_findings.json."""
import json, os, re
V = os.path.dirname(os.path.dirname(os.path.abspath(__file__)))
F = json.load(open(os.path.join(V, 'known_findings.json')))
rows = []
for f in sorted(F, key=lambda f: (f['property'], f['status'] != 'fixed', f['signature'])):
    st = f['status']
    if st == 'fixed' and f.get('commit'): st = 'fixed `%s`' % f['commit'][:10]
    what = re.sub(r'\s+', ' ', f['what']).replace('|', '/')
    if len(what) > 330: what = what[:327] + '…'
    rows.append('| %s | `%s` | %s | %s |' % (f['property'], f['signature'], st, what))
n_open = sum(f['status'] == 'open' for f in F); n_fixed = len(F) - n_open
tbl = ('<!-- FINDINGS-BEGIN -->\n%d findings confirmed on the real code: %d open (each check prints a `KNOWN-FINDING` line for the ones it '
       'reproduces and exits 0), %d repaired by a `fix:` commit in /repo (recorded as fixed; they suppress nothing).\n\n'
       '| property | signature | status | what fails (abridged; full text, demo and replay recipe in `known_findings.json`) |\n|---|---|---|---|\n'
       % (len(F), n_open, n_fixed) + '\n'.join(rows) + '\n<!-- FINDINGS-END -->')
p = os.path.join(V, 'DESIGN.md'); s = open(p).read()
assert '<!-- FINDINGS-BEGIN -->' in s
s = re.sub(r'<!-- FINDINGS-BEGIN -->.*?<!-- FINDINGS-END -->', lambda _: tbl, s, flags=re.S)
open(p, 'w').write(s)
print(len(rows), 'findings;', n_open, 'open;', n_fixed, 'fixed')
# plain-text rendering in the format the interface names
with open(os.path.join(V, 'known_findings.txt'), 'w') as o:
    o.write('# generated from findings.d/*.json by scripts/mkfindingstable.py; the checks read known_findings.json\n')
    for f in sorted(F, key=lambda f: (f['property'], f['signature'])):
        what = re.sub(r'\s+', ' ', f['what'])
        if f['status'] == 'fixed':
            o.write('fixed: property=%s %s %s [signature=%s]\n' % (f['property'], f.get('commit', '?'), what, f['signature']))
        else:
            o.write('open: property=%s signature=%s %s\n' % (f['property'], f['signature'], what))
