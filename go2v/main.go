// go2v: a translator from a loop-free fragment of Go to Gallina.
//
// It reads named functions/methods from Go source files of the repository under
// verification and writes Gallina definitions, so that theorems about them are re-checked
// against what the source says now.  Supported fragment (anything else is an error, and
// an error is a broken proof obligation, never a pass):
//
//	statements : if/else-if/else, return <expr>, x := <expr>, expression statements that
//	             are calls to an effect-only allow-list (fmt.Printf, ...), blocks
//	expressions: ==  !=  <  <=  >  >=  &&  ||  !  + - (on integers), parentheses, identifiers,
//	             selector chains, pointer dereference *e, comparison with nil,
//	             integer literals, true/false, calls to other translated functions
//
// The mapping of Go selector chains / identifiers / constants to Gallina terms is given
// per function in a spec file (JSON), together with the kind of each term:
//
//	"int"   : Z or N valued           (== becomes the given eqb)
//	"ptr"   : option valued; `x == nil` / `x != nil` become matches, `*x` becomes
//	          (deref x) = match x with Some v => v | None => <default> end
//
// Dereferences are only meaningful under a nil guard; the equivalence lemma between the
// generated definition and the hand-written mirror (proved in Coq) is what validates them.
package main

import (
	"encoding/json"
	"fmt"
	"go/ast"
	"go/parser"
	"go/token"
	"os"
	"path/filepath"
	"strings"
)

type Term struct {
	Coq  string `json:"coq"`
	Kind string `json:"kind"` // int | ptr | bool
}
type FuncSpec struct {
	File     string          `json:"file"`     // relative to the repo root
	Recv     string          `json:"recv"`     // receiver type name ("" for plain functions)
	Name     string          `json:"name"`     // Go name
	CoqName  string          `json:"coq_name"` // Gallina name
	Params   string          `json:"params"`   // Gallina binder text, e.g. "(p perm : perm)"
	Ret      string          `json:"ret"`      // Gallina return type
	Terms    map[string]Term `json:"terms"`    // Go expression text -> Gallina term
	Eqb      string          `json:"eqb"`      // equality on ints, e.g. N.eqb
	Ltb      string          `json:"ltb"`
	Leb      string          `json:"leb"`
	Default  string          `json:"default"`  // default for deref of None
	Ignore   []string        `json:"ignore_calls"`
}
type Spec struct {
	Out     string     `json:"out"`
	Header  string     `json:"header"`
	Funcs   []FuncSpec `json:"funcs"`
}

type tr struct {
	fs   *token.FileSet
	spec *FuncSpec
	src  []byte
	lets map[string]Term
	nk   int
}

func (t *tr) fail(n ast.Node, msg string) {
	p := t.fs.Position(n.Pos())
	fmt.Fprintf(os.Stderr, "go2v: unsupported construct at %s:%d: %s\n", p.Filename, p.Line, msg)
	os.Exit(1)
}

func (t *tr) text(n ast.Node) string {
	return string(t.src[t.fs.Position(n.Pos()).Offset:t.fs.Position(n.End()).Offset])
}

func (t *tr) lookup(e ast.Expr) (Term, bool) {
	s := strings.ReplaceAll(t.text(e), " ", "")
	if v, ok := t.lets[s]; ok {
		return v, true
	}
	v, ok := t.spec.Terms[s]
	return v, ok
}

func isNil(e ast.Expr) bool {
	id, ok := e.(*ast.Ident)
	return ok && id.Name == "nil"
}

// expr translates an expression; returns Gallina text and kind.
func (t *tr) expr(e ast.Expr) (string, string) {
	if v, ok := t.lookup(e); ok {
		return v.Coq, v.Kind
	}
	switch x := e.(type) {
	case *ast.ParenExpr:
		s, k := t.expr(x.X)
		return "(" + s + ")", k
	case *ast.Ident:
		switch x.Name {
		case "true", "false":
			return x.Name, "bool"
		}
		t.fail(e, "unknown identifier "+x.Name)
	case *ast.BasicLit:
		if x.Kind == token.INT {
			return "(" + x.Value + ")", "int"
		}
		t.fail(e, "literal "+x.Value)
	case *ast.StarExpr:
		s, k := t.expr(x.X)
		if k != "ptr" {
			t.fail(e, "dereference of a non-pointer term")
		}
		return fmt.Sprintf("(match %s with Some v_ => v_ | None => %s end)", s, t.spec.Default), "int"
	case *ast.UnaryExpr:
		if x.Op == token.NOT {
			s, _ := t.expr(x.X)
			return "(negb " + s + ")", "bool"
		}
		t.fail(e, "unary operator "+x.Op.String())
	case *ast.BinaryExpr:
		switch x.Op {
		case token.LAND, token.LOR:
			a, _ := t.expr(x.X)
			b, _ := t.expr(x.Y)
			op := map[token.Token]string{token.LAND: "andb", token.LOR: "orb"}[x.Op]
			return fmt.Sprintf("(%s %s %s)", op, a, b), "bool"
		case token.EQL, token.NEQ:
			var s string
			if isNil(x.Y) || isNil(x.X) {
				o := x.X
				if isNil(x.X) {
					o = x.Y
				}
				a, k := t.expr(o)
				if k != "ptr" {
					t.fail(e, "nil comparison of a non-pointer term")
				}
				s = fmt.Sprintf("(match %s with Some _ => false | None => true end)", a)
			} else {
				a, ka := t.expr(x.X)
				b, kb := t.expr(x.Y)
				if ka != "int" || kb != "int" {
					t.fail(e, "equality on non-integer terms ("+ka+","+kb+")")
				}
				s = fmt.Sprintf("(%s %s %s)", t.spec.Eqb, a, b)
			}
			if x.Op == token.NEQ {
				s = "(negb " + s + ")"
			}
			return s, "bool"
		case token.LSS, token.LEQ, token.GTR, token.GEQ:
			a, _ := t.expr(x.X)
			b, _ := t.expr(x.Y)
			switch x.Op {
			case token.LSS:
				return fmt.Sprintf("(%s %s %s)", t.spec.Ltb, a, b), "bool"
			case token.LEQ:
				return fmt.Sprintf("(%s %s %s)", t.spec.Leb, a, b), "bool"
			case token.GTR:
				return fmt.Sprintf("(%s %s %s)", t.spec.Ltb, b, a), "bool"
			default:
				return fmt.Sprintf("(%s %s %s)", t.spec.Leb, b, a), "bool"
			}
		}
		t.fail(e, "binary operator "+x.Op.String())
	}
	t.fail(e, "expression "+t.text(e))
	return "", ""
}

// stmts translates a statement list followed by the continuation `rest` (Gallina text of what
// happens if control falls off the end; "" means falling off is an error).
func (t *tr) stmts(ss []ast.Stmt, rest string) string {
	if len(ss) == 0 {
		if rest == "" {
			fmt.Fprintln(os.Stderr, "go2v: control may fall off the end of the function")
			os.Exit(1)
		}
		return rest
	}
	s, tail := ss[0], ss[1:]
	switch x := s.(type) {
	case *ast.ReturnStmt:
		if len(x.Results) != 1 {
			t.fail(s, "return with != 1 results")
		}
		e, _ := t.expr(x.Results[0])
		return e
	case *ast.BlockStmt:
		return t.stmts(append(append([]ast.Stmt{}, x.List...), tail...), rest)
	case *ast.ExprStmt:
		if c, ok := x.X.(*ast.CallExpr); ok {
			fn := t.text(c.Fun)
			for _, ig := range t.spec.Ignore {
				if ig == fn {
					return t.stmts(tail, rest)
				}
			}
		}
		t.fail(s, "expression statement "+t.text(s))
	case *ast.AssignStmt:
		if x.Tok != token.DEFINE || len(x.Lhs) != 1 || len(x.Rhs) != 1 {
			t.fail(s, "assignment form")
		}
		id, ok := x.Lhs[0].(*ast.Ident)
		if !ok {
			t.fail(s, "assignment target")
		}
		e, k := t.expr(x.Rhs[0])
		old, had := t.lets[id.Name]
		t.lets[id.Name] = Term{Coq: id.Name + "_", Kind: k}
		body := t.stmts(tail, rest)
		if had {
			t.lets[id.Name] = old
		} else {
			delete(t.lets, id.Name)
		}
		return fmt.Sprintf("(let %s_ := %s in %s)", id.Name, e, body)
	case *ast.IfStmt:
		if x.Init != nil {
			t.fail(s, "if with init statement")
		}
		c, _ := t.expr(x.Cond)
		// what follows the if statement is bound once as a thunk (keeps the output linear)
		t.nk++
		k := fmt.Sprintf("k%d_", t.nk)
		after := t.stmts(tail, rest)
		thenS := t.stmts(x.Body.List, k+" tt")
		elseS := k + " tt"
		if x.Else != nil {
			elseS = t.stmts([]ast.Stmt{x.Else}, k+" tt")
		}
		return fmt.Sprintf("(let %s := fun _ : unit => %s in\n if %s then %s else %s)", k, after, c, thenS, elseS)
	}
	t.fail(s, "statement "+t.text(s))
	return ""
}

func main() {
	if len(os.Args) != 3 {
		fmt.Fprintln(os.Stderr, "usage: go2v <repo-root> <spec.json>")
		os.Exit(2)
	}
	root := os.Args[1]
	b, err := os.ReadFile(os.Args[2])
	if err != nil {
		panic(err)
	}
	var spec Spec
	if err := json.Unmarshal(b, &spec); err != nil {
		panic(err)
	}
	var out strings.Builder
	out.WriteString("(* GENERATED by /verif/go2v from the Go source on every check run. Do not edit. *)\n")
	out.WriteString(spec.Header + "\n\n")
	for i := range spec.Funcs {
		f := &spec.Funcs[i]
		path := filepath.Join(root, f.File)
		src, err := os.ReadFile(path)
		if err != nil {
			fmt.Fprintln(os.Stderr, "go2v:", err)
			os.Exit(1)
		}
		fs := token.NewFileSet()
		af, err := parser.ParseFile(fs, path, src, 0)
		if err != nil {
			fmt.Fprintln(os.Stderr, "go2v:", err)
			os.Exit(1)
		}
		var fd *ast.FuncDecl
		for _, d := range af.Decls {
			g, ok := d.(*ast.FuncDecl)
			if !ok || g.Name.Name != f.Name {
				continue
			}
			recv := ""
			if g.Recv != nil && len(g.Recv.List) == 1 {
				switch r := g.Recv.List[0].Type.(type) {
				case *ast.Ident:
					recv = r.Name
				case *ast.StarExpr:
					if id, ok := r.X.(*ast.Ident); ok {
						recv = id.Name
					}
				}
			}
			if recv == f.Recv {
				fd = g
			}
		}
		if fd == nil {
			fmt.Fprintf(os.Stderr, "go2v: function %s.%s not found in %s\n", f.Recv, f.Name, path)
			os.Exit(1)
		}
		t := &tr{fs: fs, spec: f, src: src, lets: map[string]Term{}}
		body := t.stmts(fd.Body.List, "")
		p := fs.Position(fd.Pos())
		fmt.Fprintf(&out, "(* %s:%d  func %s.%s *)\nDefinition %s %s : %s :=\n %s.\n\n", f.File, p.Line, f.Recv, f.Name, f.CoqName, f.Params, f.Ret, body)
	}
	if err := os.WriteFile(spec.Out, []byte(out.String()), 0o644); err != nil {
		panic(err)
	}
}
