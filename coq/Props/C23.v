(** C23 — InfluxQL transformation functions follow their definitions.  Property theorems only.

    [*_run] is the mirror of the Go reducer (Aggregate point by point, Emit); [*_def] the
    list-level definition.  Theorems quantified over [fo : fops F] hold for every
    implementation of the float operations, in particular for IEEE binary64 ([SF64], what
    the Go code computes, bit for bit) and for exact rationals ([QX], the textbook value). *)
From Coq Require Import QArith Floats.SpecFloat Sorting.Permutation Sorting.Sorted.
From Verif Require Import Base.Prelude Model.C23 Proofs.C23 Proofs.C23_agg Proofs.C23_mavg Proofs.C23_mode.
Open Scope Z_scope.

(** derivative / non_negative_derivative (any unit, ascending or descending): one output per
    consecutive pair of the series with repeated timestamps dropped (first kept), at the later
    time, value diff / (elapsed / unit); negative diffs dropped when non-negative. *)
Theorem C23_derivative_eq_definition :
  forall F (fo : fops F) unit nonneg asc ps,
    derivative_run fo unit nonneg asc ps = derivative_def fo unit nonneg asc ps.
Proof. intros; apply derivative_eq_def. Qed.
Print Assumptions C23_derivative_eq_definition.

(** difference / non_negative_difference, with int64 wrap-around of the subtraction *)
Theorem C23_difference_eq_definition :
  forall nonneg ps, difference_run nonneg ps = difference_def nonneg ps.
Proof. exact difference_eq_def. Qed.
Print Assumptions C23_difference_eq_definition.

Theorem C23_non_negative_difference_is_nonneg :
  forall ps t v, In (t, v) (difference_run true ps) -> 0 <= v.
Proof. intros ps t v. rewrite difference_eq_def. apply difference_def_nonneg. Qed.
Print Assumptions C23_non_negative_difference_is_nonneg.

(** elapsed(unit): (t2 - t1) / unit, truncated, for EVERY consecutive pair (no de-duplication) *)
Theorem C23_elapsed_eq_definition :
  forall unit ps, elapsed_run unit ps = elapsed_def unit ps.
Proof. exact elapsed_eq_def. Qed.
Print Assumptions C23_elapsed_eq_definition.

(** cumulative_sum: k-th output = (t_k, int64 image of v_0+...+v_k) although the reducer wraps
    at every step *)
Theorem C23_cumulative_sum_eq_definition :
  forall ps, cumsum_run ps = cumsum_def ps.
Proof. exact cumsum_eq_def. Qed.
Print Assumptions C23_cumulative_sum_eq_definition.

(** moving_average(n), n >= 1: the ring buffer + running sum equals the sliding window of the
    last n values (sum of the window as int64, divided by n, at the time of the newest point;
    nothing until n points were seen).  The index-based formulation [movavg_def] used by the
    oracle is tied by the correspondence check only. *)
Theorem C23_moving_average_eq_window_definition :
  forall F (fo : fops F) n ps, (1 <= n)%nat -> movavg_run fo n ps = movavg_win fo n [] ps.
Proof. intros; apply movavg_eq_win; assumption. Qed.
Print Assumptions C23_moving_average_eq_window_definition.

(** integral(unit).
    Full statement (REFUTED for integer fields, see below):
      forall o ps, integral_run QX o ps "=" for each GROUP BY time window that holds a point,
      the exact area under the linear interpolation of the series inside that window / unit.
    Proved: without GROUP BY time (and all points inside the query's time range) the reducer
    returns the trapezoid sum over all consecutive pairs with different timestamps. *)
Theorem C23_integral_eq_definition_partial :
  forall F (fo : fops F) o ps, no_cross o ps -> integral_run fo o ps = integral_def fo o ps.
Proof. intros; apply integral_eq_def; assumption. Qed.
Print Assumptions C23_integral_eq_definition_partial.

Definition qpts_eqb (a b : list (Z * Q)) : bool :=
  list_rel (fun x y => Z.eqb (fst x) (fst y) && Qeq_bool (snd x) (snd y)) a b.

(** With GROUP BY time(10), unit 1, points (5,0),(15,10): even in exact arithmetic the mirror of
    IntegerIntegralReducer reports 25/2 for the window starting at 10; the area is 75/2.
    Replayed on the real code (findings.d/C23.json). *)
Theorem C23_integral_windows_refuted :
  exists o ps, io_interval o <> 0 /\
    qpts_eqb (integral_run QX o ps) (integral_windows_def o ps) = false.
Proof.
  exists {| io_unit := 1; io_asc := true; io_interval := 10; io_start := MinTime; io_end := MaxTime |},
         [P 5 0; P 15 10].
  split; [discriminate | vm_compute; reflexivity].
Qed.
Print Assumptions C23_integral_windows_refuted.

(** spread = max - min (as int64) *)
Theorem C23_spread_eq_definition :
  forall ps, Forall (fun p => in_i64 (pt_v p)) ps -> spread_run ps = spread_def ps.
Proof. exact spread_eq_def. Qed.
Print Assumptions C23_spread_eq_definition.

(** mean = (int64 image of the sum) / count *)
Theorem C23_mean_eq_definition :
  forall F (fo : fops F) ps,
    mean_run fo ps =
    [(ZeroTime, f_div fo (f_ofZ fo (wrap64 (sumZ (map pt_v ps)))) (f_ofZ fo (Z.of_nat (length ps))))].
Proof. intros; apply mean_eq_def. Qed.
Print Assumptions C23_mean_eq_definition.

(** the sort used by percentile / median / mode yields a sorted permutation *)
Theorem C23_sort_is_sorted_permutation :
  forall ps, Permutation (isort ps) ps /\ StronglySorted (fun a b => pt_v a <= pt_v b) (isort ps).
Proof. intro ps. split; [apply isort_perm | apply isort_sorted]. Qed.
Print Assumptions C23_sort_is_sorted_permutation.

(** percentile: for rank index i (see [pidx_sf]/[pidx_q]) inside the series the result is the
    input point at rank i of the sorted series, with that point's time; outside: nothing *)
Theorem C23_percentile_is_order_statistic :
  forall i ps,
    (0 <= i < Z.of_nat (length ps) ->
       exists p, pctl_at i ps = [(pt_t p, pt_v p)] /\ In p ps /\ p = nth (Z.to_nat i) (isort ps) pt0) /\
    (~ (0 <= i < Z.of_nat (length ps)) -> pctl_at i ps = []).
Proof. intros i ps. split; [apply pctl_at_spec | apply pctl_at_out]. Qed.
Print Assumptions C23_percentile_is_order_statistic.

(** median of an even number of points: lo + (hi - lo)/2 is the mean of the two middle values
    in exact arithmetic whenever hi - lo does not overflow int64 *)
Theorem C23_median_even_exact :
  forall lo hi, in_i64 (hi - lo) ->
    (inject_Z lo + inject_Z (wrap64 (hi - lo)) / inject_Z 2 == (inject_Z lo + inject_Z hi) / inject_Z 2)%Q.
Proof. exact median_exact_even. Qed.
Print Assumptions C23_median_even_exact.

(** mode: the reported value occurs, and no value occurs more often.
    (Which of several most frequent values is reported follows the Go loop exactly in the
    mirror; it is NOT always the one with the earliest timestamp, see the report.) *)
Theorem C23_mode_is_most_frequent :
  forall ps, ps <> [] ->
    exists t v, mode_run ps = [(t, v)] /\ 0 < count_v v ps /\ forall w, count_v w ps <= count_v v ps.
Proof. intros ps H. destruct (mode_run_is_mode ps H) as [t [v [E [A B]]]]. eauto. Qed.
Print Assumptions C23_mode_is_most_frequent.

(** top(n) / bottom(n), n >= 1: the n best points of the whole series, best first, where
    "better" = larger (top) / smaller (bottom) value, ties by earlier time *)
Theorem C23_top_bottom_eq_definition :
  forall top n ps, (1 <= n)%nat -> topbottom_run top n ps = topbottom_def top n ps.
Proof. exact topbottom_eq_def. Qed.
Print Assumptions C23_top_bottom_eq_definition.

Theorem C23_top_bottom_order_is_sorted_permutation :
  forall top ps, Permutation (sort_best top ps) ps /\
                 StronglySorted (fun a b => better top b a = false) (sort_best top ps).
Proof. intros top ps. split; [apply sort_best_perm | apply sort_best_sorted]. Qed.
Print Assumptions C23_top_bottom_order_is_sorted_permutation.

(** Non-vacuity: concrete series on which the binary64 mirrors produce non-trivial output, and
    the refuting integral case with its two values. *)
Example C23_nonvacuous :
  derivative_run SF64 1 false true [P 0 1; P 0 9; P 2 5; P 2 7; P 3 5]
    = [(2, S754_finite false 4503599627370496 (-51)); (3, S754_zero false)] /\
  difference_run true [P 0 5; P 1 3; P 1 9; P 2 4; P 3 4] = [(2, 1); (3, 0)] /\
  cumsum_run [P 0 MaxI64; P 1 1] = [(0, MaxI64); (1, MinI64)] /\
  topbottom_run true 2 [P 3 5; P 1 5; P 2 5; P 0 1] = [(1, 5); (2, 5)] /\
  integral_run QX {| io_unit := 1; io_asc := true; io_interval := 10; io_start := MinTime; io_end := MaxTime |}
               [P 5 0; P 15 10] = [(0, (250 # 20)%Q); (10, (250 # 20)%Q)].
Proof. vm_compute. repeat split; reflexivity. Qed.
