(** C39 — what acceptance of a linearised history by the judge of Model/C01.v means. *)
From Verif Require Import Base.Prelude Model.C01 Proofs.C01.

(** Every read of the sequential history [c] returns exactly the last-write-wins content of
    the operations that precede it in [c]. *)
Fixpoint reads_explained (c : list cstep) (h : list op) : Prop :=
  match c with
  | [] => True
  | COp o _ :: r => reads_explained r (h ++ [o])
  | CRead k lo hi asc res :: r =>
      res = spec_read (spec_log h []) k lo hi asc /\ reads_explained r h
  end.

Lemma zz_eqb_eq a b : zz_eqb a b = true <-> a = b.
Proof.
  unfold zz_eqb. apply list_eqb_spec. intros [x1 y1] [x2 y2]. unfold pair_eqb. cbn.
  rewrite andb_true_iff, !Z.eqb_eq. split; [intros [-> ->]; reflexivity|intros E; inversion E; auto].
Qed.

Lemma check_steps_ok c : forall s h same ok,
  snd (check_steps c s h same ok) = true -> ok = true /\ reads_explained c h.
Proof.
  induction c as [|st c IH]; intros s h same ok H; cbn in *; [auto|].
  destruct st as [o b|k lo hi asc res].
  - destruct (step s o) as [s' b']. apply IH in H. exact H.
  - apply IH in H as [H1 H2]. apply andb_true_iff in H1 as [H1 H3]. apply zz_eqb_eq in H3. auto.
Qed.

Lemma check_ok_explained c : check c = V_OK -> reads_explained c [].
Proof.
  unfold check. destruct (check_steps c init [] true true) as [same ok] eqn:E. intros H.
  assert (ok = true) as ->. { unfold judge in H. destruct ok; [reflexivity|]. destruct same; discriminate. }
  pose proof (check_steps_ok c init [] true true) as K. rewrite E in K. apply K. reflexivity.
Qed.
