(** C15 — proofs: the index's series-set recursion computes exactly the filter of the
    series list by the InfluxQL semantics of the expression. *)
From Coq Require Import String Ascii.
From Verif Require Import Base.Prelude Model.C15.
Open Scope string_scope.

(** ---- equality on series ---- *)
Lemma tag_eqb_spec a b : tag_eqb a b = true <-> a = b.
Proof.
  destruct a as [a1 a2], b as [b1 b2]; unfold tag_eqb; cbn.
  rewrite andb_true_iff, !String.eqb_eq. split; [intros [? ?]; congruence | intro E; inversion E; auto].
Qed.

Lemma series_eqb_spec a b : series_eqb a b = true <-> a = b.
Proof.
  destruct a as [an at_], b as [bn bt]; unfold series_eqb; cbn.
  rewrite andb_true_iff, String.eqb_eq, (list_eqb_spec tag_eqb tag_eqb_spec).
  split; [intros [? ?]; congruence | intro E; inversion E; auto].
Qed.

Lemma mem_In s a : mem s a = true <-> In s a.
Proof.
  unfold mem. rewrite existsb_exists. split.
  - intros [x [Hin E]]. apply series_eqb_spec in E. subst. exact Hin.
  - intro Hin. exists s. split; [exact Hin | apply series_eqb_spec; reflexivity].
Qed.

Lemma mem_filter p l s : In s l -> mem s (filter p l) = p s.
Proof.
  intro Hin. destruct (p s) eqn:E.
  - apply mem_In. apply filter_In. auto.
  - destruct (mem s (filter p l)) eqn:M; [|reflexivity].
    apply mem_In in M. apply filter_In in M. destruct M; congruence.
Qed.

Lemma mem_filter_out p l s : ~ In s l -> mem s (filter p l) = false.
Proof.
  intro H. destruct (mem s (filter p l)) eqn:M; [|reflexivity].
  apply mem_In in M. apply filter_In in M. tauto.
Qed.

(** ---- list lemmas ---- *)
Lemma filter_filter {A} (f g : A -> bool) l :
  filter f (filter g l) = filter (fun x => g x && f x) l.
Proof.
  induction l as [|x l IH]; cbn; [reflexivity|].
  destruct (g x); cbn; [destruct (f x)|]; rewrite IH; reflexivity.
Qed.

Lemma filter_nil_iff {A} (f : A -> bool) l :
  filter f l = [] <-> (forall x, In x l -> f x = false).
Proof.
  induction l as [|x l IH]; cbn; [tauto|].
  destruct (f x) eqn:E; split; intro H.
  - discriminate.
  - specialize (H x (or_introl eq_refl)). congruence.
  - intros y [<-|Hy]; [exact E | apply IH; assumption].
  - apply IH. intros y Hy. apply H. auto.
Qed.

Lemma nil_filter {A} (f : A -> bool) l : [] = filter f l -> forall x, In x l -> f x = false.
Proof. intro H. apply filter_nil_iff. symmetry. exact H. Qed.

(** ---- denotation of sets: [norm a = filter p l] ---- *)
Section Den.
Variable l : list series.

Definition den (a : option sset) (p : series -> bool) : Prop := norm a = filter p l.

Lemma den_ext a p q : (forall s, In s l -> p s = q s) -> den a p -> den a q.
Proof. unfold den. intros H ->. apply filter_ext_in. exact H. Qed.

Lemma isect_den a b p q : den a p -> den b q -> den (isect a b) (fun s => p s && q s).
Proof.
  unfold den. destruct a as [x|], b as [y|]; cbn; intros Ha Hb; subst.
  - rewrite filter_filter. apply filter_ext_in. intros s Hs. rewrite mem_filter by exact Hs. reflexivity.
  - symmetry. apply filter_nil_iff. intros s Hs.
    rewrite (nil_filter _ _ Hb s Hs). apply andb_false_r.
  - symmetry. apply filter_nil_iff. intros s Hs.
    rewrite (nil_filter _ _ Ha s Hs). reflexivity.
  - symmetry. apply filter_nil_iff. intros s Hs.
    rewrite (nil_filter _ _ Ha s Hs). reflexivity.
Qed.

Lemma union_den a b p q : den a p -> den b q -> den (union l a b) (fun s => p s || q s).
Proof.
  unfold den. destruct a as [x|], b as [y|]; cbn; intros Ha Hb; subst.
  - apply filter_ext_in. intros s Hs. rewrite !mem_filter by exact Hs. reflexivity.
  - apply filter_ext_in. intros s Hs.
    rewrite (nil_filter _ _ Hb s Hs). symmetry. apply orb_false_r.
  - apply filter_ext_in. intros s Hs.
    rewrite (nil_filter _ _ Ha s Hs). reflexivity.
  - symmetry. apply filter_nil_iff. intros s Hs.
    rewrite (nil_filter _ _ Ha s Hs), (nil_filter _ _ Hb s Hs). reflexivity.
Qed.

Lemma diff_den a b p q : den a p -> den b q -> den (diff a b) (fun s => p s && negb (q s)).
Proof.
  unfold den. destruct a as [x|], b as [y|]; cbn; intros Ha Hb; subst.
  - rewrite filter_filter. apply filter_ext_in. intros s Hs. rewrite mem_filter by exact Hs. reflexivity.
  - apply filter_ext_in. intros s Hs.
    rewrite (nil_filter _ _ Hb s Hs). symmetry. apply andb_true_r.
  - symmetry. apply filter_nil_iff. intros s Hs.
    rewrite (nil_filter _ _ Ha s Hs). reflexivity.
  - symmetry. apply filter_nil_iff. intros s Hs.
    rewrite (nil_filter _ _ Ha s Hs). reflexivity.
Qed.

Lemma den_none p : (forall s, In s l -> p s = false) -> den None p.
Proof. intro H. unfold den; cbn. symmetry. apply filter_nil_iff. exact H. Qed.

(** Every member of [its] is a filter of [l]. *)
Definition canonical (x : sset) : Prop := exists p, x = filter p l.

Lemma canonical_self x : canonical x -> x = filter (fun s => mem s x) l.
Proof.
  intros [p ->]. apply filter_ext_in. intros s Hs. rewrite mem_filter by exact Hs. reflexivity.
Qed.

Lemma merge_sets_den its :
  Forall canonical its -> den (merge_sets l its) (fun s => existsb (mem s) its).
Proof.
  intro HF. unfold den, merge_sets. destruct its as [|x [|y r]]; cbn.
  - symmetry. apply filter_nil_iff. reflexivity.
  - inversion HF as [|? ? Hx _]; subst. rewrite (canonical_self x Hx) at 1.
    apply filter_ext_in. intros s _. symmetry. apply orb_false_r.
  - reflexivity.
Qed.
End Den.

(** ---- index consistency ---- *)
(** [ix] answers the four lookups correctly for the series list [l]; the listed values may be
    a SUPERSET of the live values (tsi1 keeps listing values whose series were all dropped),
    a nil value iterator means that no series of the measurement has the key. *)
Record index_ok (l : list series) (ix : index) : Prop := {
  ok_meas : forall n, den l (ix_meas ix n) (is_meas n);
  ok_key  : forall n k, den l (ix_key ix n k) (fun s => is_meas n s && has_key k s);
  ok_val  : forall n k v, den l (ix_val ix n k v) (fun s => is_meas n s && has_val k v s);
  ok_vals_none : forall n k, ix_vals ix n k = None ->
                   forall s, In s l -> is_meas n s = true -> tag_get (s_tags s) k = None;
  ok_vals_some : forall n k vs, ix_vals ix n k = Some vs ->
                   forall s v, In s l -> is_meas n s = true -> tag_get (s_tags s) k = Some v -> In v vs
}.

(** No stored tag has an empty value (models.Tags never carry one: the line-protocol parser
    and NewTags drop them), so "absent" and "empty" coincide. *)
Definition wf (l : list series) : Prop :=
  forall s k, In s l -> tag_get (s_tags s) k <> Some "".

(** Executable sufficient check of [wf]. *)
Definition wf_b (l : list series) : bool :=
  forallb (fun s => forallb (fun kv => negb (String.eqb (snd kv) "")) (s_tags s)) l.

Lemma tag_get_in ts k v : tag_get ts k = Some v -> In (k, v) ts.
Proof.
  induction ts as [|[k' v'] ts IH]; cbn; [discriminate|].
  destruct (String.eqb k' k) eqn:E.
  - intro H. inversion H; subst. apply String.eqb_eq in E. subst. left; reflexivity.
  - intro H. right. apply IH, H.
Qed.

Lemma wf_b_sound l : wf_b l = true -> wf l.
Proof.
  unfold wf_b, wf. intros H s k Hs T.
  rewrite forallb_forall in H. specialize (H s Hs). rewrite forallb_forall in H.
  specialize (H _ (tag_get_in _ _ _ T)). cbn in H. discriminate.
Qed.

Lemma dedup_In x l : In x (dedup l) <-> In x l.
Proof.
  induction l as [|y l IH]; cbn; [tauto|].
  destruct (existsb (String.eqb y) l) eqn:E.
  - rewrite IH. split; [auto|]. intros [<-|H]; [|exact H].
    apply existsb_exists in E as [z [Hz Ez]]. apply String.eqb_eq in Ez. subst. exact Hz.
  - cbn. rewrite IH. tauto.
Qed.

Lemma index_of_ok l : index_ok l (index_of l).
Proof.
  split; cbn.
  - intros n. reflexivity.
  - intros n k. reflexivity.
  - intros n k v. reflexivity.
  - intros n k H s Hs Hm. destruct (values_of l n k) eqn:E; [|discriminate].
    destruct (tag_get (s_tags s) k) as [v|] eqn:T; [|reflexivity]. exfalso.
    assert (Hin : In v (values_of l n k)).
    { unfold values_of. apply dedup_In. apply in_flat_map. exists s. split; [exact Hs|].
      rewrite Hm, T. left; reflexivity. }
    rewrite E in Hin. exact Hin.
  - intros n k vs H s v Hs Hm T. destruct (values_of l n k) eqn:E; [discriminate|].
    inversion H; subst vs. rewrite <- E. unfold values_of. apply dedup_In. apply in_flat_map.
    exists s. split; [exact Hs|]. rewrite Hm, T. left; reflexivity.
Qed.

Section Main.
Variable R : Type.
Variable rmatch : R -> string -> bool.
Variable l : list series.
Variable ix : index.
Hypothesis Hok : index_ok l ix.
Hypothesis Hwf : wf l.

Lemma ix_val_canonical n k v x : ix_val ix n k v = Some x -> canonical l x.
Proof.
  intro E. pose proof (ok_val l ix Hok n k v) as H. unfold den in H. rewrite E in H. cbn in H.
  eexists. exact H.
Qed.

Lemma collect_canonical n k r want vals : Forall (canonical l) (collect R rmatch ix n k r want vals).
Proof.
  unfold collect. apply Forall_forall. intros x Hx. apply in_flat_map in Hx as [v [_ Hx]].
  destruct (Bool.eqb (rmatch r v) want); [|destruct Hx].
  destruct (ix_val ix n k v) eqn:E; [|destruct Hx].
  destruct Hx as [<-|[]]. eapply ix_val_canonical. exact E.
Qed.

(** Membership in the collected value iterators, for a series of the measurement. *)
Lemma collect_mem n k r want vals s :
  In s l ->
  existsb (mem s) (collect R rmatch ix n k r want vals) =
  is_meas n s && existsb (fun v => Bool.eqb (rmatch r v) want && has_val k v s) vals.
Proof.
  intro Hs. unfold collect. induction vals as [|v vals IH]; cbn.
  - symmetry. apply andb_false_r.
  - rewrite existsb_app, IH. clear IH.
    destruct (Bool.eqb (rmatch r v) want); cbn.
    + pose proof (ok_val l ix Hok n k v) as H. unfold den in H.
      destruct (ix_val ix n k v) as [x|] eqn:E; cbn in *.
      * rewrite H, mem_filter by exact Hs. rewrite orb_false_r.
        destruct (is_meas n s); cbn; reflexivity.
      * pose proof (nil_filter _ _ H s Hs) as H'. clear H. rename H' into H. cbn beta in H.
        destruct (is_meas n s); cbn in *; [rewrite H|]; reflexivity.
    + reflexivity.
Qed.

(** For a series that carries the key, the listed values contain its value. *)
Lemma exists_listed_value n k r want vals s :
  In s l -> is_meas n s = true -> ix_vals ix n k = Some vals ->
  existsb (fun v => Bool.eqb (rmatch r v) want && has_val k v s) vals =
  match tag_get (s_tags s) k with
  | Some v => Bool.eqb (rmatch r v) want
  | None => false
  end.
Proof.
  intros Hs Hm Hv. destruct (tag_get (s_tags s) k) as [v|] eqn:T.
  - pose proof (ok_vals_some l ix Hok n k vals Hv s v Hs Hm T) as Hin.
    destruct (Bool.eqb (rmatch r v) want) eqn:E.
    + apply existsb_exists. exists v. split; [exact Hin|]. rewrite E. unfold has_val. rewrite T.
      cbn. apply String.eqb_refl.
    + destruct (existsb _ vals) eqn:X; [|reflexivity].
      apply existsb_exists in X as [v' [_ X]]. apply andb_true_iff in X as [X1 X2].
      unfold has_val in X2. rewrite T in X2. apply String.eqb_eq in X2. subst. congruence.
  - destruct (existsb _ vals) eqn:X; [|reflexivity].
    apply existsb_exists in X as [v' [_ X]]. apply andb_true_iff in X as [_ X2].
    unfold has_val in X2. rewrite T in X2. discriminate.
Qed.

Lemma tagval_cases s k :
  In s l ->
  (tag_get (s_tags s) k = None /\ tagval s k = "") \/
  (exists v, tag_get (s_tags s) k = Some v /\ tagval s k = v /\ v <> "").
Proof.
  intro Hs. unfold tagval. destruct (tag_get (s_tags s) k) as [v|] eqn:T.
  - right. exists v. repeat split. intro E. subst. exact (Hwf s k Hs T).
  - left. auto.
Qed.

Lemma by_string_den n k v eq :
  den l (by_string ix n k v eq)
      (fun s => is_meas n s && eval R rmatch n (if eq then Eq k v else Neq k v) s).
Proof.
  unfold by_string. destruct (String.eqb k "_name") eqn:Ek.
  - destruct (Bool.eqb (String.eqb v n) eq) eqn:Em.
    + eapply den_ext; [|apply (ok_meas l ix Hok)]. intros s _.
      destruct eq; cbn [eval]; rewrite Ek; destruct (String.eqb v n); cbn in *; try discriminate;
        rewrite ?andb_true_r; reflexivity.
    + apply den_none. intros s _.
      destruct eq; cbn [eval]; rewrite Ek; destruct (String.eqb v n); cbn in *; try discriminate;
        apply andb_false_r.
  - destruct eq; destruct (String.eqb v "") eqn:Ev; cbn [negb].
    + (* k = '' *)
      apply String.eqb_eq in Ev. subst v.
      eapply den_ext; [|apply diff_den; [apply (ok_meas l ix Hok) | apply (ok_key l ix Hok)]].
      intros s Hs. cbn [eval]. rewrite Ek. unfold has_key.
      destruct (tagval_cases s k Hs) as [[T V]|[v [T [V Hne]]]]; rewrite T, V.
      * destruct (is_meas n s); reflexivity.
      * apply String.eqb_neq in Hne. rewrite Hne. destruct (is_meas n s); reflexivity.
    + (* k = 'v' *)
      eapply den_ext; [|apply (ok_val l ix Hok)].
      intros s Hs. cbn [eval]. rewrite Ek. unfold has_val.
      destruct (tagval_cases s k Hs) as [[T V]|[v' [T [V Hne]]]]; rewrite T, V.
      * rewrite (String.eqb_sym "" v), Ev. reflexivity.
      * reflexivity.
    + (* k != '' *)
      apply String.eqb_eq in Ev. subst v.
      eapply den_ext; [|apply (ok_key l ix Hok)].
      intros s Hs. cbn [eval]. rewrite Ek. unfold has_key.
      destruct (tagval_cases s k Hs) as [[T V]|[v [T [V Hne]]]]; rewrite T, V.
      * destruct (is_meas n s); reflexivity.
      * apply String.eqb_neq in Hne. rewrite Hne. reflexivity.
    + (* k != 'v' *)
      eapply den_ext; [|apply diff_den; [apply (ok_meas l ix Hok) | apply (ok_val l ix Hok)]].
      intros s Hs. cbn [eval]. rewrite Ek. unfold has_val.
      destruct (tagval_cases s k Hs) as [[T V]|[v' [T [V Hne]]]]; rewrite T, V.
      * rewrite (String.eqb_sym "" v), Ev. destruct (is_meas n s); reflexivity.
      * destruct (is_meas n s); reflexivity.
Qed.

Lemma match_tag_value_den n k r matches :
  den l (match_tag_value R rmatch l ix n k r matches)
      (fun s => is_meas n s && Bool.eqb (rmatch r (tagval s k)) matches).
Proof.
  unfold match_tag_value.
  destruct matches; destruct (rmatch r "") eqn:E0; destruct (ix_vals ix n k) as [vals|] eqn:Ev.
  - (* =~, matches "" , listed values *)
    eapply den_ext; [|apply diff_den; [apply (ok_meas l ix Hok) |
                                        apply merge_sets_den, collect_canonical]].
    intros s Hs. cbn beta. rewrite collect_mem by exact Hs.
    destruct (is_meas n s) eqn:Hm; cbn; [|reflexivity].
    rewrite (exists_listed_value n k r false vals s Hs Hm Ev).
    destruct (tagval_cases s k Hs) as [[T V]|[v [T [V _]]]]; rewrite T, V.
    + rewrite E0. reflexivity.
    + destruct (rmatch r v); reflexivity.
  - (* =~, matches "", nil value iterator *)
    eapply den_ext; [|apply (ok_meas l ix Hok)].
    intros s Hs. cbn beta. destruct (is_meas n s) eqn:Hm; cbn; [|reflexivity].
    unfold tagval. rewrite (ok_vals_none l ix Hok n k Ev s Hs Hm), E0. reflexivity.
  - (* =~, does not match "" *)
    eapply den_ext; [|apply merge_sets_den, collect_canonical].
    intros s Hs. cbn beta. rewrite collect_mem by exact Hs.
    destruct (is_meas n s) eqn:Hm; cbn; [|reflexivity].
    rewrite (exists_listed_value n k r true vals s Hs Hm Ev).
    destruct (tagval_cases s k Hs) as [[T V]|[v [T [V _]]]]; rewrite T, V.
    + rewrite E0. reflexivity.
    + reflexivity.
  - apply den_none. intros s Hs. destruct (is_meas n s) eqn:Hm; cbn; [|reflexivity].
    unfold tagval. rewrite (ok_vals_none l ix Hok n k Ev s Hs Hm), E0. reflexivity.
  - (* !~, matches "" *)
    eapply den_ext; [|apply merge_sets_den, collect_canonical].
    intros s Hs. cbn beta. rewrite collect_mem by exact Hs.
    destruct (is_meas n s) eqn:Hm; cbn; [|reflexivity].
    rewrite (exists_listed_value n k r false vals s Hs Hm Ev).
    destruct (tagval_cases s k Hs) as [[T V]|[v [T [V _]]]]; rewrite T, V.
    + rewrite E0. reflexivity.
    + reflexivity.
  - apply den_none. intros s Hs. destruct (is_meas n s) eqn:Hm; cbn; [|reflexivity].
    unfold tagval. rewrite (ok_vals_none l ix Hok n k Ev s Hs Hm), E0. reflexivity.
  - (* !~, does not match "" *)
    eapply den_ext; [|apply diff_den; [apply (ok_meas l ix Hok) |
                                        apply merge_sets_den, collect_canonical]].
    intros s Hs. cbn beta. rewrite collect_mem by exact Hs.
    destruct (is_meas n s) eqn:Hm; cbn; [|reflexivity].
    rewrite (exists_listed_value n k r true vals s Hs Hm Ev).
    destruct (tagval_cases s k Hs) as [[T V]|[v [T [V _]]]]; rewrite T, V.
    + rewrite E0. reflexivity.
    + destruct (rmatch r v); reflexivity.
  - eapply den_ext; [|apply (ok_meas l ix Hok)].
    intros s Hs. cbn beta. destruct (is_meas n s) eqn:Hm; cbn; [|reflexivity].
    unfold tagval. rewrite (ok_vals_none l ix Hok n k Ev s Hs Hm), E0. reflexivity.
Qed.

Lemma by_regex_den n k r eq :
  den l (by_regex R rmatch l ix n k r eq)
      (fun s => is_meas n s && eval R rmatch n (if eq then Re k r else NRe k r) s).
Proof.
  unfold by_regex. destruct (String.eqb k "_name") eqn:Ek.
  - destruct (Bool.eqb (rmatch r n) eq) eqn:Em.
    + eapply den_ext; [|apply (ok_meas l ix Hok)]. intros s _.
      destruct eq; cbn; rewrite Ek; destruct (rmatch r n); cbn in *; try discriminate;
        rewrite ?andb_true_r; reflexivity.
    + apply den_none. intros s _.
      destruct eq; cbn; rewrite Ek; destruct (rmatch r n); cbn in *; try discriminate;
        apply andb_false_r.
  - eapply den_ext; [|apply match_tag_value_den].
    intros s _. destruct eq; cbn; rewrite Ek; destruct (rmatch r (tagval s k)); reflexivity.
Qed.

Theorem series_by_expr_den n e :
  tag_only R e = true ->
  den l (series_by_expr R rmatch l ix n e) (fun s => is_meas n s && eval R rmatch n e s).
Proof.
  induction e as [k v|k v|k r|k r|a IHa b IHb|a IHa b IHb|a IHa|b|k k2|k k2|f]; cbn [tag_only series_by_expr];
    intro Ht; try discriminate.
  - apply (by_string_den n k v true).
  - apply (by_string_den n k v false).
  - apply (by_regex_den n k r true).
  - apply (by_regex_den n k r false).
  - apply andb_true_iff in Ht as [Ha Hb].
    eapply den_ext; [|apply isect_den; [apply IHa, Ha | apply IHb, Hb]].
    intros s _. cbn. destruct (is_meas n s); cbn; [reflexivity|reflexivity].
  - apply andb_true_iff in Ht as [Ha Hb].
    eapply den_ext; [|apply union_den; [apply IHa, Ha | apply IHb, Hb]].
    intros s _. cbn. destruct (is_meas n s); cbn; reflexivity.
  - apply IHa, Ht.
  - destruct b.
    + eapply den_ext; [|apply (ok_meas l ix Hok)]. intros s _. cbn. symmetry. apply andb_true_r.
    + apply den_none. intros s _. cbn. apply andb_false_r.
Qed.

End Main.

(** The headline statement on the concrete index of a series list. *)
Theorem where_selects_exactly R (rmatch : R -> string -> bool) l n e :
  wf l -> tag_only R e = true -> select R rmatch l n e = spec R rmatch l n e.
Proof.
  intros Hwf Ht. unfold select, spec.
  exact (series_by_expr_den R rmatch l (index_of l) (index_of_ok l) Hwf n e Ht).
Qed.

(** Consequences. *)
Lemma selected_iff R (rmatch : R -> string -> bool) l n e s :
  wf l -> tag_only R e = true ->
  (In s (select R rmatch l n e) <-> In s l /\ s_name s = n /\ eval R rmatch n e s = true).
Proof.
  intros Hwf Ht. rewrite (where_selects_exactly R rmatch l n e Hwf Ht). unfold spec.
  rewrite filter_In, andb_true_iff. unfold is_meas. rewrite String.eqb_eq. tauto.
Qed.

(** The judge's two outputs coincide on the property's grammar (well-formed series). *)
Lemma check_model_is_oracle c :
  wf (c_series c) -> tag_only N (c_expr c) = true -> model_out c = oracle_out c.
Proof.
  intros Hwf Ht. unfold model_out, oracle_out. rewrite where_selects_exactly by assumption. reflexivity.
Qed.

(** Tag-vs-tag comparison (outside the property's grammar): the index intersects / subtracts
    KEY series sets.  A series with k1=a, k2=b is selected by [k1 = k2] although the values
    differ, and a series carrying neither key is not selected although both compare as ''. *)
Definition obs_l : list series :=
  [ {| s_name := "m"; s_tags := [("k1","a"); ("k2","b")] |};
    {| s_name := "m"; s_tags := [] |};
    {| s_name := "m"; s_tags := [("k1","a"); ("k2","a")] |} ].
Lemma varref_is_key_set_algebra :
  select unit (fun _ _ => false) obs_l "m" (EqRef "k1" "k2")
    = [ {| s_name := "m"; s_tags := [("k1","a"); ("k2","b")] |};
        {| s_name := "m"; s_tags := [("k1","a"); ("k2","a")] |} ]
  /\ spec unit (fun _ _ => false) obs_l "m" (EqRef "k1" "k2")
    = [ {| s_name := "m"; s_tags := [] |};
        {| s_name := "m"; s_tags := [("k1","a"); ("k2","a")] |} ].
Proof. split; vm_compute; reflexivity. Qed.
