(** C42 — Metadata queries list exactly the live names, sorted and authorized.

    Mirror of
      /repo/tsdb/store.go   [Store.MeasurementNames] [Store.TagKeys] [Store.TagValues]
      /repo/tsdb/index.go   [IndexSet.MeasurementNamesByExpr] [measurementNamesByExpr]
                            [measurementNamesByNameFilter] [measurementNamesByTagFilter]
                            [measurementAuthorizedSeries] [TagKeyHasAuthorizedSeries]
                            [MeasurementTagKeysByExpr] [MeasurementTagKeyValuesByExpr]
                            [tagValuesByKeyAndExpr]
                            [measurementMergeIterator] / [tagKeyMergeIterator] /
                            [tagValueMergeIterator] (the k-way merge of the sorted per-shard
                            lists, [kmerge])
    on top of the C15 mirror of [seriesByExprIterator].

    A shard's tsi1 index is abstracted to (series ever created, series deleted): it lists a
    measurement while it has a live series, and for a listed measurement it lists every tag key
    and tag value of every series EVER created in it (tsi1 never un-lists a key/value while the
    measurement lives — C14 findings; no index compaction happens at these sizes).
    Engine.deleteSeriesRange -> Index.DropSeries also removes the id from the cached tag-value
    series sets (fixed finding tsi-tagvalue-cache-stale-after-series-delete), so a shard answers
    series lookups with its live series only. *)
From Coq Require Import String Ascii.
From Verif Require Import Base.Prelude Model.C15.
Open Scope string_scope.

(** ---- strictly sorted string lists ---- *)
Fixpoint sinsert (x : string) (l : list string) : list string :=
  match l with
  | [] => [x]
  | y :: r => if String.ltb x y then x :: l else if String.ltb y x then y :: sinsert x r else l
  end.
Definition ssort (l : list string) : list string := fold_right sinsert [] l.

Fixpoint ssorted (l : list string) : bool :=
  match l with
  | [] => true
  | x :: r => match r with [] => true | y :: _ => String.ltb x y && ssorted r end
  end.

(** ---- the k-way merge of measurementMergeIterator / tagKeyMergeIterator /
    tagValueMergeIterator: buffers = heads of the remaining lists; Next() takes the lowest
    buffered element and clears every buffer equal to it. *)
Fixpoint min_head (ls : list (list string)) : option string :=
  match ls with
  | [] => None
  | l :: r =>
      match l, min_head r with
      | [], m => m
      | x :: _, None => Some x
      | x :: _, Some y => if String.ltb y x then Some y else Some x
      end
  end.
Definition pop (x : string) (l : list string) : list string :=
  match l with
  | y :: r => if String.eqb y x then r else l
  | [] => []
  end.
Fixpoint kmerge (fuel : nat) (ls : list (list string)) : list string :=
  match fuel with
  | O => []
  | S f => match min_head ls with
           | None => []
           | Some x => x :: kmerge f (map (pop x) ls)
           end
  end.
Definition kmerge_all (ls : list (list string)) : list string :=
  kmerge (S (length (concat ls))) ls.

(** bytesutil.Union / Intersect on sorted name lists. *)
Definition sunion (a b : list string) : list string := ssort (a ++ b).
Definition sinter (a b : list string) : list string :=
  filter (fun x => existsb (String.eqb x) b) a.

(** ---- shards ---- *)
Record shard := { sh_all : list series; sh_dead : list series }.
Definition live (sh : shard) : list series :=
  filter (fun s => negb (mem s (sh_dead sh))) (sh_all sh).
Definition has_live (sh : shard) (m : string) : bool := existsb (is_meas m) (live sh).
Definition shard_names (sh : shard) : list string := ssort (map s_name (live sh)).
Definition shard_keys (sh : shard) (m : string) : list string :=
  if has_live sh m
  then ssort (flat_map (fun s => if is_meas m s then map fst (s_tags s) else []) (sh_all sh))
  else [].
Definition shard_vals (sh : shard) (m k : string) : list string :=
  if has_live sh m
  then ssort (flat_map (fun s => if is_meas m s then
                                   match tag_get (s_tags s) k with Some v => [v] | None => [] end
                                 else []) (sh_all sh))
  else [].

Fixpoint nodup_series (l : list series) : list series :=
  match l with
  | [] => []
  | s :: r => if mem s r then nodup_series r else s :: nodup_series r
  end.

(** ---- the IndexSet over the selected shards ---- *)
Section IndexSet.
Variable shs : list shard.

Definition is_live : list series := nodup_series (flat_map live shs).

Definition is_names : list string := kmerge_all (map shard_names shs).
Definition is_keys (m : string) : list string := kmerge_all (map (fun sh => shard_keys sh m) shs).
Definition is_vals (m k : string) : list string := kmerge_all (map (fun sh => shard_vals sh m k) shs).
Definition has_tag_key (m k : string) : bool :=
  existsb (fun sh => existsb (String.eqb k) (shard_keys sh m)) shs.

Definition is_index : index := {|
  ix_meas := fun n => Some (filter (is_meas n) is_live);
  ix_key  := fun n k => Some (filter (fun s => is_meas n s && has_key k s) is_live);
  ix_val  := fun n k v => Some (filter (fun s => is_meas n s && has_val k v s) is_live);
  ix_vals := fun n k => match is_vals n k with [] => None | vs => Some vs end
|}.

(** [auth = None]: query.AuthorizerIsOpen; [Some f]: a fine-grained authorizer. *)
Definition authz := option (series -> bool).
Definition auth_ok (a : authz) (s : series) : bool :=
  match a with None => true | Some f => f s end.

(** measurementAuthorizedSeries(auth, name, nil). *)
Definition meas_authorized (a : authz) (m : string) : bool :=
  match a with
  | None => true
  | Some f => existsb (fun s => is_meas m s && f s) is_live
  end.

Section WithRegex.
Variable rmatch : N -> string -> bool.

(** measurementNamesByNameFilter. *)
Definition names_by_name_filter (a : authz) (matched : string -> bool) : list string :=
  ssort (filter (fun m => matched m && meas_authorized a m) is_names).

(** The value loop of measurementNamesByTagFilter: returns (tagMatch, authorized). *)
Fixpoint tag_filter_loop (a : authz) (m k : string) (val_equal : string -> bool)
         (vals : list string) (tag_match authorized : bool) : bool * bool :=
  match vals with
  | [] => (tag_match, authorized)
  | ve :: r =>
      if negb (val_equal ve) then tag_filter_loop a m k val_equal r tag_match authorized
      else match a with
           | None => (true, authorized)                       (* break *)
           | Some f =>
               let authorized' :=
                 authorized || existsb (fun s => is_meas m s && has_val k ve s && f s) is_live in
               if authorized' then (true, authorized')         (* tagMatch && authorized: break *)
               else tag_filter_loop a m k val_equal r true authorized'
           end
  end.

(** measurementNamesByTagFilter; [is_eq] = op is EQ / EQREGEX. *)
Definition names_by_tag_filter (a : authz) (is_eq : bool) (k : string)
           (val_equal : string -> bool) : list string :=
  ssort (filter (fun m =>
    if negb (has_tag_key m k) then false
    else
      let open := match a with None => true | Some _ => false end in
      let '(tag_match, authorized) := tag_filter_loop a m k val_equal (is_vals m k) false open in
      let authorized := if negb is_eq && negb tag_match then meas_authorized a m else authorized in
      Bool.eqb tag_match is_eq && authorized) is_names).

(** measurementNamesByExpr; [None] = error. *)
Fixpoint names_by_expr (a : authz) (e : expr N) : option (list string) :=
  match e with
  | Eq k v => Some (if String.eqb k "_name" then names_by_name_filter a (fun m => String.eqb m v)
                    else names_by_tag_filter a true k (fun x => String.eqb x v))
  | Neq k v => Some (if String.eqb k "_name" then names_by_name_filter a (fun m => negb (String.eqb m v))
                     else names_by_tag_filter a false k (fun x => String.eqb x v))
  | Re k r => Some (if String.eqb k "_name" then names_by_name_filter a (rmatch r)
                    else names_by_tag_filter a true k (rmatch r))
  | NRe k r => Some (if String.eqb k "_name" then names_by_name_filter a (fun m => negb (rmatch r m))
                     else names_by_tag_filter a false k (rmatch r))
  | And x y => match names_by_expr a x, names_by_expr a y with
               | Some p, Some q => Some (sinter p q) | _, _ => None end
  | Or x y => match names_by_expr a x, names_by_expr a y with
              | Some p, Some q => Some (sunion p q) | _, _ => None end
  | Paren x => names_by_expr a x
  | _ => None
  end.

(** IndexSet.MeasurementNamesByExpr. *)
Definition measurement_names (a : authz) (cond : option (expr N)) : option (list string) :=
  match cond with
  | Some e => names_by_expr a e
  | None => Some (filter (meas_authorized a) is_names)
  end.

(** The [_tagKey] clause (WITH KEY ...), evaluated by MeasurementTagKeysByExpr on the listed keys. *)
Inductive keyfilter := KAll | KEq (k : string) | KNeq (k : string) | KRe (r : N) | KNRe (r : N)
                     | KIn (ks : list string).
Definition key_match (kf : keyfilter) (k : string) : bool :=
  match kf with
  | KAll => true
  | KEq k' => String.eqb k k'
  | KNeq k' => negb (String.eqb k k')
  | KRe r => rmatch r k
  | KNRe r => negb (rmatch r k)
  | KIn ks => existsb (String.eqb k) ks
  end.
Definition keys_by_filter (m : string) (kf : keyfilter) : list string :=
  filter (key_match kf) (is_keys m).

(** TagKeyHasAuthorizedSeries. *)
Definition key_authorized (a : authz) (m k : string) : bool :=
  match a with
  | None => true
  | Some f => existsb (fun s => is_meas m s && has_key k s && f s) is_live
  end.

(** MeasurementTagKeyValuesByExpr(auth, name, keys, expr, keysSorted = true). *)
Definition key_values (a : authz) (m : string) (keys : list string) (filt : option (expr N))
  : list (list string) :=
  match filt with
  | None =>
      map (fun k =>
             match a with
             | None => is_vals m k
             | Some f => filter (fun v => existsb (fun s => is_meas m s && has_val k v s && f s) is_live)
                                (is_vals m k)
             end) keys
  | Some e =>
      (* tagValuesByKeyAndExpr *)
      match series_by_expr N rmatch is_live is_index m e with
      | None => map (fun _ => []) keys
      | Some ss =>
          let ss := filter (auth_ok a) ss in
          map (fun k => ssort (flat_map (fun s => match tag_get (s_tags s) k with
                                                  | Some v => [v] | None => [] end) ss)) keys
      end
  end.

Definition keep_nonempty {A B} (l : list (A * list B)) : list (A * list B) :=
  filter (fun p => match snd p with [] => false | _ => true end) l.

(** Store.TagKeys after the condition has been split by PartitionExpr into the [_name] part
    [mexpr], the [_tagKey] part [kf] and the remaining tag filter [filt]. *)
Definition tag_keys (a : authz) (mexpr : option (expr N)) (kf : keyfilter) (filt : option (expr N))
  : option (list (string * list string)) :=
  match measurement_names None mexpr with
  | None => None
  | Some names =>
      Some (flat_map (fun m =>
        match keys_by_filter m kf with
        | [] => []                                             (* len(tagKeySet) == 0: continue *)
        | keys =>
            match filt with
            | None => [(m, filter (key_authorized a m) keys)]
            | Some _ =>
                let vals := key_values a m keys filt in
                [(m, map fst (keep_nonempty (combine keys vals)))]
            end
        end) names)
  end.

(** Store.TagValues, same split. *)
Definition tag_values (a : authz) (mexpr : option (expr N)) (kf : keyfilter) (filt : option (expr N))
  : option (list (string * list (string * string))) :=
  match measurement_names None mexpr with
  | None => None
  | Some names =>
      Some (flat_map (fun m =>
        match keys_by_filter m kf with
        | [] => []
        | keys =>
            let kvs := keep_nonempty (combine keys (key_values a m keys filt)) in
            match kvs with
            | [] => []
            | _ => [(m, flat_map (fun kv => map (fun v => (fst kv, v)) (snd kv)) kvs)]
            end
        end) names)
  end.

(** ---- the property's right-hand side (independent of the index listings) ---- *)
Definition eval_opt (e : option (expr N)) (s : series) : bool :=
  match e with None => true | Some e => eval N rmatch (s_name s) e s end.

(** The live, authorized series that satisfy the conditions. *)
Definition visible (a : authz) (mexpr filt : option (expr N)) : list series :=
  filter (fun s => auth_ok a s && eval_opt mexpr s && eval_opt filt s) is_live.

Definition spec_names (a : authz) (cond : option (expr N)) : list string :=
  ssort (map s_name (visible a cond None)).

Definition spec_keys (a : authz) (mexpr : option (expr N)) (kf : keyfilter) (filt : option (expr N))
  : list (string * list string) :=
  let vis := visible a mexpr filt in
  keep_nonempty
    (map (fun m => (m, ssort (filter (key_match kf)
                       (flat_map (fun s => if is_meas m s then map fst (s_tags s) else []) vis))))
         (ssort (map s_name vis))).

Fixpoint pinsert (x : string * string) (l : list (string * string)) : list (string * string) :=
  match l with
  | [] => [x]
  | y :: r =>
      let lt a b := String.ltb (fst a) (fst b) || (String.eqb (fst a) (fst b) && String.ltb (snd a) (snd b)) in
      if lt x y then x :: l else if lt y x then y :: pinsert x r else l
  end.
Definition psort (l : list (string * string)) := fold_right pinsert [] l.

Definition spec_values (a : authz) (mexpr : option (expr N)) (kf : keyfilter) (filt : option (expr N))
  : list (string * list (string * string)) :=
  let vis := visible a mexpr filt in
  keep_nonempty
    (map (fun m => (m, psort (filter (fun kv => key_match kf (fst kv))
                       (flat_map (fun s => if is_meas m s then s_tags s else []) vis))))
         (ssort (map s_name vis))).

(** Conditions on which SHOW MEASUREMENTS WHERE means "has a matching series": disjunctions of
    positive comparisons that the empty string does not satisfy. *)
Fixpoint positive (e : expr N) : bool :=
  match e with
  | Eq k v => negb (String.eqb v "")
  | Re k r => negb (rmatch r "")
  | Or x y => positive x && positive y
  | Paren x => positive x
  | _ => false
  end.

(** The grammar of measurementNamesByExpr (anything else is answered with an error). *)
Fixpoint names_grammar (e : expr N) : bool :=
  match e with
  | Eq _ _ | Neq _ _ | Re _ _ | NRe _ _ => true
  | And x y | Or x y => names_grammar x && names_grammar y
  | Paren x => names_grammar x
  | _ => false
  end.

(** Every listed name has a live authorized series. *)
Definition names_sound (a : authz) (ns : list string) : bool :=
  ssorted ns && forallb (fun m => existsb (fun s => is_meas m s && auth_ok a s) is_live) ns.

End WithRegex.
End IndexSet.

(** ---- correspondence judge ---- *)
Inductive query :=
| QNames (cond : option (expr N))
| QKeys (mexpr : option (expr N)) (kf : keyfilter) (filt : option (expr N))
| QValues (mexpr : option (expr N)) (kf : keyfilter) (filt : option (expr N)).

Inductive output :=
| ONames (r : option (list string))
| OKeys (r : option (list (string * list string)))
| OValues (r : option (list (string * list (string * string)))).

Definition names_eqb := list_eqb String.eqb.
Definition keys_eqb := list_eqb (pair_eqb String.eqb names_eqb).
Definition values_eqb := list_eqb (pair_eqb String.eqb (list_eqb (pair_eqb String.eqb String.eqb))).

Definition output_eqb (x y : output) : bool :=
  match x, y with
  | ONames a, ONames b => option_eqb names_eqb a b
  | OKeys a, OKeys b => option_eqb keys_eqb a b
  | OValues a, OValues b => option_eqb values_eqb a b
  | _, _ => false
  end.

(** [c_shards]: the shards the query ranges over (all shards of the database for
    MeasurementNames, the selected ones for TagKeys / TagValues); [c_auth]: [None] = open
    authorizer, [Some l] = exactly the series of [l] are readable. *)
Record case := { c_shards : list shard; c_tbl : rtable; c_auth : option (list series);
                 c_q : query; c_out : output }.

Definition case_auth (c : case) : authz :=
  match c_auth c with None => None | Some l => Some (fun s => mem s l) end.

Definition model_out (c : case) : output :=
  let rm := tbl_match (c_tbl c) in
  match c_q c with
  | QNames cond => ONames (measurement_names (c_shards c) rm (case_auth c) cond)
  | QKeys me kf f => OKeys (tag_keys (c_shards c) rm (case_auth c) me kf f)
  | QValues me kf f => OValues (tag_values (c_shards c) rm (case_auth c) me kf f)
  end.

(** The oracle: the answer is exactly the sorted, duplicate-free list of the names / keys /
    values of the live, authorized, condition-matching series (entries with an empty key list,
    which the statement executor drops, are ignored).  For SHOW MEASUREMENTS with a condition
    outside the [positive] fragment InfluxQL's meaning is measurement-level (AND intersects
    name sets, != and = '' talk about the listed values), so only "sorted, every name has a
    live authorized series" is demanded there. *)
Definition oracle_ok (c : case) : bool :=
  let rm := tbl_match (c_tbl c) in
  let a := case_auth c in
  match c_q c, c_out c with
  | QNames (Some e), ONames None => negb (names_grammar e)   (* an error is only right outside the grammar *)
  | QNames cond, ONames (Some ns) =>
      match cond with
      | None => names_eqb ns (spec_names (c_shards c) rm a None)
      | Some e => if positive rm e then names_eqb ns (spec_names (c_shards c) rm a cond)
                  else names_sound (c_shards c) a ns
      end
  | QKeys me kf f, OKeys (Some r) => keys_eqb (keep_nonempty r) (spec_keys (c_shards c) rm a me kf f)
  | QValues me kf f, OValues (Some r) => values_eqb r (spec_values (c_shards c) rm a me kf f)
  | _, _ => false
  end.

Definition check (c : case) : verdict :=
  judge (output_eqb (c_out c) (model_out c)) (oracle_ok c).
