#!/bin/bash
# applyfix.sh <Cxx> <signature>: commit build/fixes/<Cxx>-<signature>.diff in /repo as its own "fix:" commit and record the hash
c=$1; sig=$2; f=/verif/build/fixes/$c-$sig
cd /repo && git apply --check $f.diff && git apply $f.diff && git commit -qam "$(head -1 $f.msg)" && h=$(git rev-parse --short=10 HEAD) && echo "$c $sig $h" && /verif/scripts/setfixed.py $c $sig $h
