(** C07 — proofs about the string codec and the block framing (Model/C07_str.v). *)
From Coq Require Import ZifyN ZifyNat ZifyBool.
From Verif Require Import Base.Prelude Model.C07_s8b Model.C07_int Model.C07_str Proofs.C07_int.
Local Open Scope N_scope.

Lemma put_uvarint_f_cons fuel x : exists c r, put_uvarint_f fuel x = c :: r.
Proof. destruct fuel; cbn [put_uvarint_f]; [eauto|]. destruct (x <? 128); eauto. Qed.

Lemma put_uvarint_cons x : exists c r, put_uvarint x = c :: r.
Proof. apply put_uvarint_f_cons. Qed.

Lemma firstn_app_exact {A} (l r : list A) : firstn (length l) (l ++ r) = l.
Proof. induction l; cbn; [reflexivity|f_equal; assumption]. Qed.

Lemma skipn_app_exact {A} (l r : list A) : skipn (length l) (l ++ r) = r.
Proof. induction l; cbn; [reflexivity|assumption]. Qed.

Definition short (s : list N) : Prop := N.of_nat (length s) < 2 ^ 64.

Lemma str_parse_payload ss : forall fuel,
  Forall short ss -> (length (str_payload ss) <= fuel)%nat ->
  str_parse fuel (str_payload ss) = Some ss.
Proof.
  induction ss as [|s ss IH]; intros fuel Hs Hf.
  - destruct fuel; reflexivity.
  - inversion Hs as [|? ? Hshort Hss]; subst.
    unfold str_payload in *. cbn [flat_map] in *. fold (str_payload ss) in *.
    destruct (put_uvarint_cons (N.of_nat (length s))) as (c & r & Ep).
    rewrite <- !app_assoc in *. 
    destruct fuel as [|f].
    { rewrite Ep in Hf. cbn in Hf. lia. }
    assert (Hne : exists c' r', put_uvarint (N.of_nat (length s)) ++ s ++ str_payload ss = c' :: r').
    { rewrite Ep. cbn. eauto. }
    destruct Hne as (c' & r' & Ene). 
    cbn [str_parse]. rewrite Ene. rewrite <- Ene.
    rewrite get_put_uvarint by exact Hshort.
    rewrite Nat2N.id.
    destruct (Nat.ltb_spec (length (s ++ str_payload ss)) (length s)) as [Hlt|_].
    { rewrite app_length in Hlt. lia. }
    rewrite firstn_app_exact, skipn_app_exact.
    rewrite IH; [reflexivity|exact Hss|].
    rewrite !app_length, Ep in Hf. cbn [length] in Hf. lia.
Qed.

Section Snappy.
  Variable compress : list N -> list N.
  Variable decompress : list N -> option (list N).
  Hypothesis snappy_roundtrip : forall b, decompress (compress b) = Some b.

  Lemma str_roundtrip ss :
    Forall short ss -> str_decode decompress (str_encode compress ss) = Some ss.
  Proof.
    intro Hs. unfold str_decode, str_encode. rewrite snappy_roundtrip.
    apply str_parse_payload; [exact Hs|lia].
  Qed.
End Snappy.

Lemma block_roundtrip typ ts vals :
  N.of_nat (length ts) < 2 ^ 64 -> unpack_block (pack_block typ ts vals) = Some (typ, ts, vals).
Proof.
  intro H. unfold unpack_block, pack_block.
  rewrite get_put_uvarint by exact H. rewrite Nat2N.id.
  destruct (Nat.ltb_spec (length (ts ++ vals)) (length ts)) as [Hlt|_].
  { rewrite app_length in Hlt. lia. }
  rewrite firstn_app_exact, skipn_app_exact. reflexivity.
Qed.
