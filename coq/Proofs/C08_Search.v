(** C08 proofs: the binary search of [indirectIndex] and the lookups built on it agree with
    linear-scan specifications over the key list. *)
From Verif Require Import Base.Prelude Base.C08_BE Model.C08_File Model.C08_Index Model.C08.
From Coq Require Import ZifyBool ZifyNat.
Ltac Zify.zify_post_hook ::= Z.div_mod_to_equations.

(** strictly increasing keys *)
Fixpoint ksorted (l : list ikey) : Prop :=
  match l with
  | [] => True
  | x :: r => (forall y, In y r -> kltb (ik_key x) (ik_key y) = true) /\ ksorted r
  end.

Definition dk : ikey := IK [] 0 [].

Lemma nth_key_cons x l i : nth_key (x :: l) (S i) = nth_key l i.
Proof. reflexivity. Qed.

Lemma ksorted_nth l : ksorted l -> forall i j, (i < j < length l)%nat ->
  kltb (nth_key l i) (nth_key l j) = true.
Proof.
  induction l as [|x l IH]; intros Hs i j Hij; [cbn in Hij; lia|].
  destruct Hs as [Hx Hs]. destruct j as [|j]; [lia|]. rewrite nth_key_cons.
  destruct i as [|i].
  - unfold nth_key at 1; cbn [nth]. apply Hx. apply nth_In. cbn in Hij; lia.
  - rewrite nth_key_cons. apply IH; [exact Hs|cbn in Hij; lia].
Qed.

Lemma ksorted_app_inv a b : ksorted (a ++ b) -> ksorted a /\ ksorted b /\
  (forall x y, In x a -> In y b -> kltb (ik_key x) (ik_key y) = true).
Proof.
  induction a as [|x a IH]; cbn [app ksorted]; intro H.
  - repeat split; auto. all: try (intros ? ? []). 
  - destruct H as [Hx Hs]. destruct (IH Hs) as [Ha [Hb Hab]]. repeat split; auto.
    + intros y Hy. apply Hx. apply in_or_app; auto.
    + intros u v [<-|Hu] Hv; [apply Hx; apply in_or_app; auto | apply Hab; auto].
Qed.

(** the characterisation of the result of SearchBytesFixed: everything left of [r] is smaller
    than the key, everything from [r] up to (but NOT including) the last slot is >= the key. *)
Definition seek_pos (l : list ikey) (k : key) (r : nat) : Prop :=
  (r <= length l - 1)%nat /\
  (forall p, (p < r)%nat -> kltb (nth_key l p) k = true) /\
  (forall p, (r <= p < length l - 1)%nat -> kleb k (nth_key l p) = true).

Lemma seek_pos_unique l k r1 r2 : seek_pos l k r1 -> seek_pos l k r2 -> r1 = r2.
Proof.
  intros [B1 [L1 G1]] [B2 [L2 G2]].
  destruct (Nat.lt_trichotomy r1 r2) as [H|[H|H]]; [|exact H|]; exfalso.
  - specialize (G1 r1 ltac:(lia)). specialize (L2 r1 H). rewrite kleb_nlt, L2 in G1. discriminate.
  - specialize (G2 r2 ltac:(lia)). specialize (L1 r2 H). rewrite kleb_nlt, L1 in G2. discriminate.
Qed.

Lemma bsearch_pos l k : ksorted l -> forall fuel i j,
  (i <= j <= length l - 1)%nat -> (j - i <= fuel)%nat ->
  (forall p, (p < i)%nat -> kltb (nth_key l p) k = true) ->
  (forall p, (j <= p < length l - 1)%nat -> kleb k (nth_key l p) = true) ->
  seek_pos l k (bsearch fuel l k i j).
Proof.
  intros Hs. induction fuel as [|f IH]; intros i j Hij Hf HL HG.
  - cbn. assert (i = j) by lia. subst. repeat split; auto. lia.
  - cbn [bsearch]. destruct (Nat.ltb_spec i j) as [Hlt|Hge].
    + set (h := ((i + j) / 2)%nat). assert (Hh : (i <= h < j)%nat) by (unfold h; lia).
      destruct (kleb k (nth_key l h)) eqn:Ek.
      * apply IH; auto; try lia. intros p Hp.
        destruct (Nat.eq_dec p h) as [->|Hne]; [exact Ek|].
        destruct (Nat.lt_ge_cases p j) as [Hpj|Hpj]; [|apply HG; lia].
        (* h < p : k <= key_h < key_p *)
        assert (Hlt2 : kltb (nth_key l h) (nth_key l p) = true) by (apply ksorted_nth; auto; lia).
        rewrite kleb_nlt. apply negb_true_iff. apply kltb_asym.
        eapply kleb_kltb_trans; eauto.
      * apply IH; auto; try lia. intros p Hp.
        rewrite kleb_nlt in Ek. apply negb_false_iff in Ek.
        destruct (Nat.eq_dec p h) as [->|Hne]; [exact Ek|].
        destruct (Nat.lt_ge_cases p i) as [Hpi|Hpi]; [apply HL; lia|].
        assert (Hlt2 : kltb (nth_key l p) (nth_key l h) = true) by (apply ksorted_nth; auto; lia).
        eapply kltb_trans; eauto.
    + assert (i = j) by lia. subst. repeat split; auto. lia.
Qed.

Lemma search_offset_pos l k : ksorted l -> l <> [] -> seek_pos l k (search_offset l k).
Proof.
  intros Hs Hne. unfold search_offset. destruct l as [|x l']; [congruence|].
  apply bsearch_pos; auto; try lia; intros; lia.
Qed.

(** linear-scan specification of Seek: the first position (not counting the last) whose key
    is >= k, else the last position *)
Fixpoint seek_spec (l : list ikey) (k : key) : nat :=
  match l with
  | [] => 0%nat
  | x :: r => match r with [] => 0%nat | _ => if kleb k (ik_key x) then 0%nat else S (seek_spec r k) end
  end.

Lemma seek_spec_cons2 x y l k :
  seek_spec (x :: y :: l) k = if kleb k (ik_key x) then 0%nat else S (seek_spec (y :: l) k).
Proof. reflexivity. Qed.

Lemma seek_spec_pos l k : ksorted l -> l <> [] -> seek_pos l k (seek_spec l k).
Proof.
  induction l as [|x l IH]; intros Hs Hne; [congruence|].
  destruct l as [|y l'].
  - unfold seek_pos; cbn. repeat split; auto; intros; lia.
  - destruct Hs as [Hx Hs]. rewrite seek_spec_cons2. destruct (kleb k (ik_key x)) eqn:Ek.
    + repeat split; [cbn; lia|intros; lia|]. intros p Hp.
      destruct p as [|p]; [exact Ek|].
      assert (Hlt : kltb (ik_key x) (nth_key (x :: y :: l') (S p)) = true).
      { rewrite nth_key_cons. unfold nth_key. apply Hx. apply nth_In. cbn in Hp |- *; lia. }
      rewrite kleb_nlt. apply negb_true_iff, kltb_asym. eapply kleb_kltb_trans; eauto.
    + destruct (IH Hs ltac:(discriminate)) as [B [L G]].
      repeat split.
      * cbn [length] in *. lia.
      * intros p Hp. destruct p as [|p].
        -- rewrite kleb_nlt in Ek. apply negb_false_iff in Ek. exact Ek.
        -- rewrite nth_key_cons. apply L. lia.
      * intros p Hp. destruct p as [|p]; [lia|]. rewrite nth_key_cons. apply G. cbn [length] in *. lia.
Qed.

Lemma search_offset_spec l k : ksorted l -> search_offset l k = seek_spec l k.
Proof.
  intro Hs. destruct l as [|x l'] eqn:E; [reflexivity|]. rewrite <- E in *.
  assert (Hne : l <> []) by (subst; discriminate).
  eapply seek_pos_unique; [apply search_offset_pos|apply seek_spec_pos]; auto.
Qed.

(** relation with the number of keys smaller than k *)
Definition count_lt (l : list ikey) (k : key) : nat := length (filter (fun ik => kltb (ik_key ik) k) l).

Lemma count_lt_all_ge l k : ksorted l -> (forall x, In x l -> kleb k (ik_key x) = true) -> count_lt l k = 0%nat.
Proof.
  intros _ H. unfold count_lt. induction l as [|x l IH]; [reflexivity|]. cbn [filter].
  pose proof (H x (or_introl eq_refl)) as Hx. rewrite kleb_nlt in Hx. apply negb_true_iff in Hx. rewrite Hx.
  apply IH. intros; apply H; right; auto.
Qed.

Lemma seek_spec_count l k : ksorted l -> l <> [] ->
  seek_spec l k = Nat.min (count_lt l k) (length l - 1).
Proof.
  induction l as [|x l IH]; intros Hs Hne; [congruence|].
  destruct Hs as [Hx Hs]. destruct l as [|y l'].
  - cbn. lia.
  - remember (y :: l') as r eqn:Er. assert (Hr : r <> []) by (subst; discriminate).
    assert (E2 : seek_spec (x :: r) k = if kleb k (ik_key x) then 0%nat else S (seek_spec r k)) by (subst; reflexivity).
    rewrite E2. unfold count_lt in *. cbn [filter]. rewrite kleb_nlt.
    destruct (kltb (ik_key x) k) eqn:Ek; cbn [negb].
    + rewrite IH by auto. assert (1 <= length r)%nat by (destruct r; [congruence|cbn; lia]).
      cbn [length]. lia.
    + assert (H0 : count_lt r k = 0%nat).
      { apply count_lt_all_ge; auto. intros z Hz. specialize (Hx z Hz).
        rewrite kleb_nlt. apply negb_true_iff.
        destruct (kltb (ik_key z) k) eqn:Ez; [|reflexivity].
        rewrite (kltb_trans _ _ _ Hx Ez) in Ek. discriminate. }
      unfold count_lt in H0. rewrite H0. reflexivity.
Qed.

(** Seek when the key is not beyond the last key: exactly the number of smaller keys. *)
Lemma search_offset_count_le l k : ksorted l -> l <> [] ->
  kleb k (ik_key (last l dk)) = true -> search_offset l k = count_lt l k.
Proof.
  intros Hs Hne Hlast. rewrite search_offset_spec, seek_spec_count by auto.
  assert (count_lt l k <= length l - 1)%nat; [|lia].
  clear Hne. induction l as [|x l IH]; [cbn; lia|].
  destruct l as [|y l'].
  - cbn in Hlast. unfold count_lt. cbn [filter]. rewrite kleb_nlt in Hlast. apply negb_true_iff in Hlast.
    rewrite Hlast. cbn. lia.
  - remember (y :: l') as r eqn:Er. destruct Hs as [Hx Hs].
    assert (Hl : last (x :: r) dk = last r dk) by (subst; reflexivity). rewrite Hl in Hlast.
    specialize (IH Hs Hlast). unfold count_lt in *. cbn [filter].
    assert (1 <= length r)%nat by (subst; cbn; lia).
    destruct (kltb (ik_key x) k); cbn [length]; lia.
Qed.

(** ... and beyond the last key it is the LAST position, not the key count. *)
Lemma search_offset_past_end l k : ksorted l -> l <> [] ->
  kltb (ik_key (last l dk)) k = true -> search_offset l k = (length l - 1)%nat /\ count_lt l k = length l.
Proof.
  intros Hs Hne Hlast. rewrite search_offset_spec, seek_spec_count by auto.
  assert (count_lt l k = length l); [|lia].
  clear Hne. unfold count_lt. induction l as [|x l IH]; [reflexivity|].
  destruct Hs as [Hx Hs]. cbn [filter].
  assert (Hxk : kltb (ik_key x) k = true).
  { destruct l as [|y l']; [exact Hlast|]. eapply kltb_trans; [|exact Hlast].
    apply Hx. destruct (@exists_last _ (y :: l') ltac:(discriminate)) as [l0 [a E]].
    change (last (x :: y :: l') dk) with (last (y :: l') dk).
    rewrite E, last_last. apply in_or_app; right; left; reflexivity. }
  rewrite Hxk. cbn [length]. f_equal. destruct l as [|y l']; [reflexivity|]. apply IH; auto.
Qed.

(** ** search / Entries / Contains / Type / ContainsValue *)
Definition keys_in_range (ix : index) : Prop :=
  forall ik, In ik (ix_keys ix) -> kleb (ix_minkey ix) (ik_key ik) = true /\ kleb (ik_key ik) (ix_maxkey ix) = true.
Definition wf_index (ix : index) : Prop := ksorted (ix_keys ix) /\ keys_in_range ix.

Lemma sp_find_in l k ik : sp_find l k = Some ik -> In ik l /\ ik_key ik = k.
Proof.
  unfold sp_find. intro H. apply find_some in H as [H1 H2]. apply keqb_eq in H2. auto.
Qed.

Lemma sp_find_sorted l k ik : ksorted l -> In ik l -> ik_key ik = k -> sp_find l k = Some ik.
Proof.
  unfold sp_find. induction l as [|x l IH]; intros Hs Hin Hk; [destruct Hin|].
  destruct Hs as [Hx Hs]. cbn [find]. destruct Hin as [->|Hin].
  - rewrite Hk, keqb_refl. reflexivity.
  - specialize (Hx ik Hin). rewrite Hk in Hx. rewrite (kltb_neq _ _ Hx). apply IH; auto.
Qed.

Lemma nth_key_eq l p : nth_key l p = ik_key (nth p l dk).
Proof. reflexivity. Qed.

Lemma search_spec ix k : wf_index ix -> search ix k = sp_find (ix_keys ix) k.
Proof.
  intros [Hs Hr]. unfold search.
  destruct (sp_find (ix_keys ix) k) as [ik|] eqn:Ef.
  - apply sp_find_in in Ef as [Hin Hk].
    destruct (Hr ik Hin) as [H1 H2]. unfold contains_key. rewrite Hk in H1, H2. rewrite H1, H2. cbn [andb negb].
    destruct (ix_keys ix) as [|x l'] eqn:El; [destruct Hin|]. rewrite <- El in *.
    assert (Hne : ix_keys ix <> []) by (rewrite El; discriminate).
    destruct (In_nth _ _ dk Hin) as [p [Hp Hnth]].
    assert (Hpos : seek_pos (ix_keys ix) k p).
    { repeat split; [lia| |].
      - intros q Hq. rewrite <- Hk, <- Hnth. apply ksorted_nth; auto.
      - intros q Hq. destruct (Nat.eq_dec q p) as [->|Hne2].
        + rewrite nth_key_eq, Hnth, Hk. unfold kleb. rewrite kcmp_refl. reflexivity.
        + rewrite kleb_nlt. apply negb_true_iff, kltb_asym. rewrite <- Hk, <- Hnth. apply ksorted_nth; auto. lia. }
    rewrite (seek_pos_unique _ _ _ _ (search_offset_pos _ k Hs Hne) Hpos).
    fold dk. rewrite Hnth, Hk, keqb_refl. reflexivity.
  - destruct (negb (contains_key ix k)); [reflexivity|].
    destruct (ix_keys ix) as [|x l'] eqn:El; [reflexivity|]. rewrite <- El in *. fold dk.
    destruct (keqb k (ik_key (nth (search_offset (ix_keys ix) k) (ix_keys ix) dk))) eqn:Ek; [|reflexivity].
    exfalso. apply keqb_eq in Ek.
    assert (Hin : In (nth (search_offset (ix_keys ix) k) (ix_keys ix) dk) (ix_keys ix)).
    { apply nth_In. destruct (search_offset_pos (ix_keys ix) k Hs ltac:(rewrite El; discriminate)) as [B _].
      rewrite El in *. cbn [length] in *. lia. }
    rewrite (sp_find_sorted _ k _ Hs Hin (eq_sym Ek)) in Ef. discriminate.
Qed.

Lemma entries_spec ix k : wf_index ix -> entries ix k = sp_entries (ix_keys ix) k.
Proof. intro H. unfold entries, sp_entries. rewrite search_spec by exact H. reflexivity. Qed.

Lemma type_of_spec ix k : wf_index ix ->
  type_of ix k = match sp_find (ix_keys ix) k with Some ik => Some (ik_typ ik) | None => None end.
Proof. intro H. unfold type_of. rewrite search_spec by exact H. reflexivity. Qed.

Lemma contains_spec ix k : wf_index ix ->
  contains ix k = match sp_entries (ix_keys ix) k with [] => false | _ => true end.
Proof. intro H. unfold contains. rewrite entries_spec by exact H. reflexivity. Qed.

Lemma find_existsb {A} (f : A -> bool) l : (match find f l with Some _ => true | None => false end) = existsb f l.
Proof. induction l as [|x l IH]; cbn; [reflexivity|]. destruct (f x); auto. Qed.

Lemma entry_at_spec ix k t : wf_index ix ->
  match entry_at ix k t with
  | Some e => In e (sp_entries (ix_keys ix) k) /\ e_contains e t = true
  | None => forall e, In e (sp_entries (ix_keys ix) k) -> e_contains e t = false
  end.
Proof.
  intro H. unfold entry_at. rewrite entries_spec by exact H.
  destruct (find _ _) eqn:E.
  - apply find_some in E. exact E.
  - intros e He. exact (find_none _ _ E e He).
Qed.

(** ContainsValue: some block of the key spans t and no tombstone range of the key covers t *)
Lemma contains_value_spec ix k t : wf_index ix ->
  contains_value ix k t =
    existsb (fun e => e_contains e t) (sp_entries (ix_keys ix) k)
    && negb (existsb (in_range t) (tomb_get k (ix_tombs ix))).
Proof.
  intro H. unfold contains_value, entry_at. rewrite entries_spec by exact H.
  rewrite <- (find_existsb (fun e => e_contains e t)). destruct (find _ _); reflexivity.
Qed.

Lemma key_at_spec ix i :
  key_at ix i = if (i <? 0)%Z then None else
                match nth_error (ix_keys ix) (Z.to_nat i) with Some ik => Some (ik_key ik, ik_typ ik) | None => None end.
Proof.
  unfold key_at. destruct (Z.ltb_spec i 0) as [Hn|Hn]; [reflexivity|]. cbn [orb].
  destruct (Z.leb_spec (Z.of_nat (length (ix_keys ix))) i) as [Hl|Hl].
  - assert (E : nth_error (ix_keys ix) (Z.to_nat i) = None) by (apply nth_error_None; lia). rewrite E. reflexivity.
  - assert (Hlt : (Z.to_nat i < length (ix_keys ix))%nat) by lia.
    rewrite (nth_error_nth' _ dk Hlt). reflexivity.
Qed.

(** ** TimeRange / KeyRange of a freshly opened index *)
(** per key, the first entry has the least min time and the last entry the greatest max time
    (true of time-ordered, non-overlapping blocks) *)
Definition wf_ents (ik : ikey) : Prop :=
  ik_ents ik <> [] /\
  forall e, In e (ik_ents ik) -> (first_min ik <= emin e)%Z /\ (emax e <= last_max ik)%Z.

Lemma fold_min_spec {A} (f : A -> Z) l : forall a,
  let r := fold_left (fun m x => Z.min m (f x)) l a in
  (r <= a)%Z /\ (forall x, In x l -> (r <= f x)%Z) /\ (r = a \/ exists x, In x l /\ r = f x).
Proof.
  induction l as [|y l IH]; intro a; cbv zeta; cbn [fold_left].
  - repeat split; [lia|intros ? []|auto].
  - destruct (IH (Z.min a (f y))) as [H1 [H2 H3]]. cbv zeta in *.
    pose proof (Z.le_min_l a (f y)); pose proof (Z.le_min_r a (f y)).
    repeat split.
    + lia.
    + intros x [<-|Hx]; [lia|auto].
    + destruct H3 as [H3|[x [Hx H3]]]; [|right; exists x; split; [right|]; auto].
      destruct (Z.min_spec a (f y)) as [[_ E]|[_ E]].
      * left. rewrite H3. exact E.
      * right. exists y. split; [left; reflexivity|]. rewrite H3; exact E.
Qed.

Lemma fold_max_spec {A} (f : A -> Z) l : forall a,
  let r := fold_left (fun m x => Z.max m (f x)) l a in
  (a <= r)%Z /\ (forall x, In x l -> (f x <= r)%Z) /\ (r = a \/ exists x, In x l /\ r = f x).
Proof.
  induction l as [|y l IH]; intro a; cbv zeta; cbn [fold_left].
  - repeat split; [lia|intros ? []|auto].
  - destruct (IH (Z.max a (f y))) as [H1 [H2 H3]]. cbv zeta in *.
    pose proof (Z.le_max_l a (f y)); pose proof (Z.le_max_r a (f y)).
    repeat split.
    + lia.
    + intros x [<-|Hx]; [lia|auto].
    + destruct H3 as [H3|[x [Hx H3]]]; [|right; exists x; split; [right|]; auto].
      destruct (Z.max_spec a (f y)) as [[_ E]|[_ E]].
      * right. exists y. split; [left; reflexivity|]. rewrite H3; exact E.
      * left. rewrite H3. exact E.
Qed.

Lemma in_all_entries all e : In e (all_entries all) <-> exists ik, In ik all /\ In e (ik_ents ik).
Proof. unfold all_entries. rewrite in_flat_map. reflexivity. Qed.

Lemma first_min_in ik : ik_ents ik <> [] -> exists e, In e (ik_ents ik) /\ first_min ik = emin e.
Proof. unfold first_min. destruct (ik_ents ik) as [|e r]; [congruence|]. exists e; split; [left|]; reflexivity. Qed.
Lemma last_max_in ik : ik_ents ik <> [] -> exists e, In e (ik_ents ik) /\ last_max ik = emax e.
Proof.
  unfold last_max. intro H. destruct (exists_last H) as [l [e E]]. rewrite E, last_last.
  exists e; split; [apply in_or_app; right; left|]; reflexivity.
Qed.

Lemma min_time_spec all : Forall wf_ents all -> ix_mintime (index_of all) = sp_min_time all.
Proof.
  intro Hwf. rewrite Forall_forall in Hwf. cbn [index_of ix_mintime]. unfold sp_min_time.
  destruct (fold_min_spec first_min all MaxInt64) as [A1 [A2 A3]].
  destruct (fold_min_spec emin (all_entries all) MaxInt64) as [B1 [B2 B3]].
  cbv zeta in *. apply Z.le_antisymm.
  - destruct B3 as [->|[e [He ->]]]; [exact A1|].
    apply in_all_entries in He as [ik [Hik He]]. specialize (A2 ik Hik).
    destruct (Hwf ik Hik) as [_ Hb]. specialize (Hb e He). lia.
  - destruct A3 as [->|[ik [Hik ->]]]; [exact B1|].
    destruct (Hwf ik Hik) as [Hne _]. destruct (first_min_in ik Hne) as [e [He ->]].
    apply B2. apply in_all_entries. eauto.
Qed.

(** the reported max time is the real max (maxTime starts at MinInt64 in UnmarshalBinary) *)
Lemma max_time_spec all : Forall wf_ents all -> ix_maxtime (index_of all) = sp_max_time all.
Proof.
  intro Hwf. rewrite Forall_forall in Hwf. cbn [index_of ix_maxtime]. unfold sp_max_time.
  destruct (fold_max_spec last_max all MinInt64) as [A1 [A2 A3]].
  destruct (fold_max_spec emax (all_entries all) MinInt64) as [B1 [B2 B3]].
  cbv zeta in *. apply Z.le_antisymm.
  - destruct A3 as [->|[ik [Hik ->]]]; [exact B1|].
    destruct (Hwf ik Hik) as [Hne _]. destruct (last_max_in ik Hne) as [e [He ->]].
    apply B2. apply in_all_entries. eauto.
  - destruct B3 as [->|[e [He ->]]]; [exact A1|].
    apply in_all_entries in He as [ik [Hik He]]. specialize (A2 ik Hik).
    destruct (Hwf ik Hik) as [_ Hb]. specialize (Hb e He). lia.
Qed.

Lemma index_of_wf all : ksorted all -> wf_index (index_of all).
Proof.
  intro Hs. split; [exact Hs|]. intros ik Hin. cbn [index_of ix_keys ix_minkey ix_maxkey] in *.
  destruct all as [|x l]; [destruct Hin|]. split.
  - destruct Hin as [<-|Hin]; [unfold kleb; rewrite kcmp_refl; reflexivity|].
    destruct Hs as [Hx _]. specialize (Hx ik Hin). unfold kleb, kltb in *. destruct (kcmp (ik_key x) (ik_key ik)); congruence.
  - destruct (@exists_last _ (x :: l) ltac:(discriminate)) as [l0 [a E]]. rewrite E in *. rewrite last_last.
    apply in_app_or in Hin as [Hin|[<-|[]]]; [|unfold kleb; rewrite kcmp_refl; reflexivity].
    apply ksorted_app_inv in Hs as [_ [_ Hab]]. specialize (Hab ik a Hin (or_introl eq_refl)).
    unfold kleb, kltb in *. destruct (kcmp (ik_key ik) (ik_key a)); congruence.
Qed.
