// C35 driver: small programs over four REAL hll.Plus sketches (Add of known hashes, Merge in
// every aliasing/order, Clone, MarshalBinary+UnmarshalBinary, Count) with full state dumps
// through the add-only hook; each program with everything the real code returned is one
// Gallina `case` judged by Model/C35.v.  In addition (Go only, reported in the evidence) the
// observed relative error of Count() on large random sets against 1.04/sqrt(m).
package main

import (
	"encoding/binary"
	"fmt"
	"math"
	"sort"
	"strings"

	"github.com/cespare/xxhash/v2"
	"github.com/influxdata/influxdb/v2/pkg/estimator/hll"
	"verifh/vh"
)

const nvars = 4

// known finding: beta() is fitted for precision 16 only
const sigBeta = "hll-beta-bias-at-non-default-precision"

type op struct {
	Op     string   `json:"op"` // new add stream merge clone roundtrip count observe
	I      int      `json:"i"`
	J      int      `json:"j,omitempty"`
	P      int      `json:"p,omitempty"`
	Keys   []string `json:"keys,omitempty"`   // real mode: the items added (hash = xxhash.Sum64)
	Hashes []uint64 `json:"hashes,omitempty"` // raw mode: the hash values added
	Seed   uint64   `json:"seed,omitempty"`
	N      int      `json:"n,omitempty"`
}
type obs struct {
	Kind   string   `json:"kind"` // state bytes count err
	Err    bool     `json:"err,omitempty"`
	Sparse bool     `json:"sparse,omitempty"`
	P      int      `json:"p,omitempty"`
	Tmp    []uint32 `json:"tmp,omitempty"`
	ClC    uint32   `json:"list_count,omitempty"`
	ClL    uint32   `json:"list_last,omitempty"`
	ClB    int      `json:"list_bytes,omitempty"`
	Keys   []uint32 `json:"list_keys,omitempty"`
	NZ     [][2]int `json:"nonzero_regs,omitempty"`
	Bytes  []byte   `json:"bytes,omitempty"`
	Count  uint64   `json:"count,omitempty"`
}
type jcase struct {
	Raw  bool  `json:"raw_hash"` // sketches hash with "8 bytes big-endian" (hook) instead of xxhash
	Ops  []op  `json:"ops"`
	Impl []obs `json:"impl_obs"`
}

func be8(b []byte) uint64 { return binary.BigEndian.Uint64(b) }

func nat(i int) string { return fmt.Sprint(i) }
func n32s(v []uint32) string {
	xs := make([]string, len(v))
	for i, c := range v {
		xs[i] = vh.N(uint64(c))
	}
	return vh.List(xs)
}
func nzOf(regs []uint8) [][2]int {
	var nz [][2]int
	for i, v := range regs {
		if v != 0 {
			nz = append(nz, [2]int{i, int(v)})
		}
	}
	return nz
}
func nzTerm(nz [][2]int) string {
	xs := make([]string, len(nz))
	for i, e := range nz {
		xs[i] = fmt.Sprintf("(%d,%d)", e[0], e[1])
	}
	return "[" + strings.Join(xs, ";") + "]%N"
}

// splitmix64, the same stream as Model/C35.v [stream]
func stream(n int, state uint64) []uint64 {
	out := make([]uint64, n)
	for i := range out {
		state += 0x9E3779B97F4A7C15
		z := state
		z = (z ^ (z >> 30)) * 0xBF58476D1CE4E5B9
		z = (z ^ (z >> 27)) * 0x94D049BB133111EB
		out[i] = z ^ (z >> 31)
	}
	return out
}

type stats struct {
	selfMergeTotal, selfMergeCountChanged int
	selfMergeMaxRel                       float64
}

var st stats

func run(w *vh.W, c *jcase) {
	var vars [nvars]*hll.Plus
	c.Impl = nil
	var ops, obsT []string
	adds := 0
	merges := 0
	addHashes := func(h *hll.Plus, hs []uint64) {
		var b [8]byte
		for _, x := range hs {
			binary.BigEndian.PutUint64(b[:], x)
			h.Add(b[:])
		}
	}
	for k := range c.Ops {
		o := &c.Ops[k]
		ob := obs{Kind: "err"}
		switch o.Op {
		case "new":
			h, err := hll.NewPlus(uint8(o.P))
			if err != nil {
				vars[o.I] = nil
				ob.Err = true
			} else {
				if c.Raw {
					h.SetHashVerif(be8)
				}
				vars[o.I] = h
			}
			ops = append(ops, fmt.Sprintf("KNew %d %d", o.I, o.P))
		case "add":
			h := vars[o.I]
			if !c.Raw { // real items, real xxhash; the model gets the hash values
				o.Hashes = nil
				for _, key := range o.Keys {
					o.Hashes = append(o.Hashes, xxhash.Sum64([]byte(key)))
				}
			}
			if h == nil {
				ob.Err = true
			} else if c.Raw {
				addHashes(h, o.Hashes)
			} else {
				for _, key := range o.Keys {
					h.Add([]byte(key))
				}
			}
			adds += len(o.Hashes)
			ops = append(ops, fmt.Sprintf("KAdd %d %s", o.I, vh.Ns(o.Hashes)))
		case "stream":
			h := vars[o.I]
			if h == nil {
				ob.Err = true
			} else {
				addHashes(h, stream(o.N, o.Seed))
			}
			adds += o.N
			ops = append(ops, fmt.Sprintf("KAddStream %d %s %d", o.I, vh.N(o.Seed), o.N))
		case "merge":
			a, b := vars[o.I], vars[o.J]
			if a == nil || b == nil {
				ob.Err = true
			} else {
				var before uint64
				self := o.I == o.J && a.StateVerif().Sparse
				if self {
					before = a.Clone().(*hll.Plus).Count()
				}
				ob.Err = a.Merge(b) != nil
				if self { // DESIGN candidate F14: estimate before / after a self-merge
					after := a.Clone().(*hll.Plus).Count()
					st.selfMergeTotal++
					if after != before {
						st.selfMergeCountChanged++
						if before > 0 {
							rel := math.Abs(float64(after)-float64(before)) / float64(before)
							if rel > st.selfMergeMaxRel {
								st.selfMergeMaxRel = rel
							}
						}
					}
				}
				merges++
			}
			ops = append(ops, fmt.Sprintf("KMerge %d %d", o.I, o.J))
		case "clone":
			if vars[o.I] == nil {
				ob.Err = true
			} else {
				vars[o.J] = vars[o.I].Clone().(*hll.Plus)
			}
			ops = append(ops, fmt.Sprintf("KClone %d %d", o.I, o.J))
		case "roundtrip":
			if vars[o.I] == nil {
				ob.Err = true
			} else {
				data, err := vars[o.I].MarshalBinary()
				if err != nil {
					w.Fail(w.Len(), "MarshalBinary: "+err.Error(), "")
				}
				n := new(hll.Plus)
				if err := n.UnmarshalBinary(data); err != nil {
					vars[o.J] = nil
				} else {
					if c.Raw {
						n.SetHashVerif(be8)
					}
					vars[o.J] = n
				}
				ob = obs{Kind: "bytes", Bytes: data}
			}
			ops = append(ops, fmt.Sprintf("KRoundTrip %d %d", o.I, o.J))
		case "count":
			if vars[o.I] == nil {
				ob.Err = true
			} else {
				cnt := vars[o.I].Count()
				// implementation-independent oracle (the marshal clause): the estimate is a function of
				// the marshalled state, so Count() == Count() of Unmarshal(Marshal(clone of it))
				if data, err := vars[o.I].Clone().(*hll.Plus).MarshalBinary(); err == nil {
					fresh := new(hll.Plus)
					if err := fresh.UnmarshalBinary(data); err == nil {
						if c2 := fresh.Count(); c2 != cnt {
							w.Fail(w.Len(), fmt.Sprintf("step %d: Count() of sketch variable %d returned %d, but Count() of Unmarshal(Marshal(the same sketch)) returns %d (same registers): the estimate is not a function of the sketch state", k, o.I, cnt, c2), "")
						}
					}
				}
				s := vars[o.I].StateVerif()
				ob = obs{Kind: "count", Count: cnt, P: int(s.P), Sparse: s.Sparse}
				if s.Sparse {
					ob.ClC = s.ListCount
				} else {
					ob.NZ = nzOf(s.Regs)
				}
			}
			ops = append(ops, fmt.Sprintf("KCount %d", o.I))
		case "observe":
			if vars[o.I] == nil {
				ob.Err = true
			} else {
				s := vars[o.I].StateVerif()
				ob = obs{Kind: "state", Sparse: s.Sparse, P: int(s.P), Tmp: s.Tmp, ClC: s.ListCount, ClL: s.ListLast, ClB: s.ListBytes, Keys: s.Keys, NZ: nzOf(s.Regs)}
			}
			ops = append(ops, fmt.Sprintf("KObserve %d", o.I))
		}
		c.Impl = append(c.Impl, ob)
		switch ob.Kind {
		case "err":
			obsT = append(obsT, "OErr "+vh.Bool(ob.Err))
		case "bytes":
			var nzb [][2]int
			for i, v := range ob.Bytes {
				if v != 0 {
					nzb = append(nzb, [2]int{i, int(v)})
				}
			}
			obsT = append(obsT, fmt.Sprintf("OBytes %d %s", len(ob.Bytes), nzTerm(nzb)))
		case "count":
			obsT = append(obsT, fmt.Sprintf("OCount %s %d %s %s %s", vh.N(ob.Count), ob.P, vh.Bool(ob.Sparse), vh.N(uint64(ob.ClC)), nzTerm(ob.NZ)))
		case "state":
			obsT = append(obsT, fmt.Sprintf("OState %s %s %s %s %d %s %s", vh.Bool(ob.Sparse), n32s(ob.Tmp), vh.N(uint64(ob.ClC)), vh.N(uint64(ob.ClL)), ob.ClB, n32s(ob.Keys), nzTerm(ob.NZ)))
		}
	}
	t := fmt.Sprintf("{| c_ops := %s; c_obs := %s |}", vh.List(ops), vh.List(obsT))
	w.Add(t, c, adds >= 3 && merges >= 1, "")
	w.Count("hash", map[bool]string{true: "raw", false: "xxhash"}[c.Raw])
	w.Count("adds", bucket(adds))
	w.Count("merges", fmt.Sprint(min(merges, 6)))
}

func bucket(n int) string {
	switch {
	case n == 0:
		return "0"
	case n < 10:
		return "1-9"
	case n < 100:
		return "10-99"
	case n < 1000:
		return "100-999"
	default:
		return ">=1000"
	}
}

// ---------------------------------------------------------------- generation

var keyCounter int

func genKeys(w *vh.W, n int, pool *[]string) []string {
	r := w.Rng
	ks := make([]string, n)
	for i := range ks {
		if len(*pool) > 0 && r.IntN(4) == 0 { // re-add an item (multisets)
			ks[i] = (*pool)[r.IntN(len(*pool))]
		} else {
			keyCounter++
			ks[i] = fmt.Sprintf("cpu,host=h%d,region=r%d", keyCounter, r.IntN(5))
			*pool = append(*pool, ks[i])
		}
	}
	return ks
}

// crafted hash values: extremes, zero middle bits (the sparse "zeros" encoding), equal 25-bit
// prefixes with different tails, neighbours of register index boundaries
func craft(w *vh.W, p int, pool *[]uint64) uint64 {
	r := w.Rng
	if len(*pool) > 0 && r.IntN(5) == 0 {
		return (*pool)[r.IntN(len(*pool))]
	}
	var x uint64
	switch r.IntN(8) {
	case 0:
		x = []uint64{0, 1, math.MaxUint64, 1 << 63, 1<<63 - 1, 1 << 39, 1<<39 - 1, 1 << 38}[r.IntN(8)]
	case 1: // zero middle bits, short tail
		idx := uint64(r.IntN(1 << p))
		x = idx<<(64-p) | uint64(r.Uint64())>>(25+uint(r.IntN(39)))
	case 2: // zero everything below the index, or a single low bit
		idx := uint64(r.IntN(1 << p))
		x = idx << (64 - p)
		if r.IntN(2) == 0 {
			x |= 1 << uint(r.IntN(64-p))
		}
	case 3: // same 25-bit prefix as a previous value, other tail
		if len(*pool) > 0 {
			x = (*pool)[r.IntN(len(*pool))]&^(1<<39-1) | r.Uint64()>>(25+uint(r.IntN(30)))
		} else {
			x = r.Uint64()
		}
	case 4: // few registers: index in a small set
		x = uint64(r.IntN(3))<<(64-p) | r.Uint64()>>uint(p)
	default:
		x = r.Uint64()
	}
	*pool = append(*pool, x)
	return x
}

func genCase(w *vh.W) *jcase {
	r := w.Rng
	c := &jcase{Raw: r.IntN(3) != 0}
	ps := []int{4, 4, 5, 5, 6, 7, 8, 8, 10, 14, 16}
	p := ps[r.IntN(len(ps))]
	big := p >= 10
	var kpool []string
	var hpool []uint64
	live := map[int]int{} // var -> p
	newVar := func(i, pv int) {
		c.Ops = append(c.Ops, op{Op: "new", I: i, P: pv})
		if pv >= 4 && pv <= 18 {
			live[i] = pv
		} else {
			delete(live, i)
		}
	}
	newVar(0, p)
	newVar(1, p)
	budget := 2500 // total adds per case (Coq side cost)
	if big {
		budget = 400
	}
	add := func(i int) {
		pv, ok := live[i]
		if !ok {
			pv = p
		}
		if c.Raw && r.IntN(3) == 0 && budget > 0 {
			n := 1 + r.IntN(40)
			switch r.IntN(4) {
			case 0: // enough to leave the sparse representation at small p
				n = (1 << pv) / 2 * (1 + r.IntN(4))
			case 1:
				n = 1 + r.IntN(300)
			}
			if n > budget {
				n = budget
			}
			budget -= n
			c.Ops = append(c.Ops, op{Op: "stream", I: i, Seed: r.Uint64() >> uint(r.IntN(60)), N: n})
			return
		}
		n := 1 + r.IntN(12)
		if n > budget {
			n = budget
		}
		budget -= n
		if c.Raw {
			hs := make([]uint64, n)
			for k := range hs {
				hs[k] = craft(w, pv, &hpool)
			}
			c.Ops = append(c.Ops, op{Op: "add", I: i, Hashes: hs})
		} else {
			c.Ops = append(c.Ops, op{Op: "add", I: i, Keys: genKeys(w, n, &kpool)})
		}
	}
	v := func() int { return r.IntN(nvars) }
	nops := 6 + r.IntN(22)
	observes := 0
	for k := 0; k < nops; k++ {
		switch x := r.IntN(100); {
		case x < 35:
			add(v())
		case x < 40:
			pv := p
			if r.IntN(4) == 0 {
				pv = []int{3, 19, 4, 18, p + 1, 0}[r.IntN(6)]
				if pv > 10 {
					pv = 19
				}
			}
			newVar(v(), pv)
		case x < 58:
			i, j := v(), v()
			if r.IntN(6) == 0 {
				j = i // self-merge
			}
			c.Ops = append(c.Ops, op{Op: "merge", I: i, J: j})
		case x < 66:
			i, j := v(), v()
			if i != j {
				c.Ops = append(c.Ops, op{Op: "clone", I: i, J: j})
				if pv, ok := live[i]; ok {
					live[j] = pv
				}
			}
		case x < 76:
			i, j := v(), v()
			if i != j && (!big || observes < 3) {
				observes++
				c.Ops = append(c.Ops, op{Op: "roundtrip", I: i, J: j})
				if pv, ok := live[i]; ok {
					live[j] = pv
				}
				c.Ops = append(c.Ops, op{Op: "count", I: i}, op{Op: "count", I: j})
			}
		case x < 86:
			c.Ops = append(c.Ops, op{Op: "count", I: v()})
		default:
			if !big || observes < 3 {
				observes++
				c.Ops = append(c.Ops, op{Op: "observe", I: v()})
			}
		}
	}
	// closing scenario: union of 0 and 1 in both orders, self-merge, round trip; observe + count all
	c.Ops = append(c.Ops,
		op{Op: "clone", I: 0, J: 2}, op{Op: "merge", I: 2, J: 1},
		op{Op: "clone", I: 1, J: 3}, op{Op: "merge", I: 3, J: 0},
		op{Op: "count", I: 2}, op{Op: "count", I: 3}, op{Op: "observe", I: 2}, op{Op: "observe", I: 3},
		op{Op: "count", I: 0}, op{Op: "merge", I: 0, J: 0}, op{Op: "count", I: 0}, op{Op: "observe", I: 0},
		op{Op: "roundtrip", I: 1, J: 2}, op{Op: "count", I: 1}, op{Op: "count", I: 2}, op{Op: "observe", I: 2})
	return c
}

// count-heavy programs: Count() is read after (almost) every step, each time followed by a
// round trip into the scratch variable 3 and a Count() of the copy (the judge requires equal
// counts for equal (precision, mode, registers / sparse count)); precisions >= 7 so that Added
// keys can stay PENDING in tmpSet; receivers become dense through merges while holding few
// registers, so dumps stay small. Shapes: Count-Count, Count-Merge-Count, Count-Add-Count, and
// dense counted receiver <- merge of a sparse sketch whose keys are all still pending.
func genCountHeavy(w *vh.W) *jcase {
	r := w.Rng
	c := &jcase{Raw: r.IntN(2) == 0}
	p := []int{7, 8, 8, 10, 10, 14, 16}[r.IntN(7)]
	var kpool []string
	var hpool []uint64
	count := func(i int) {
		c.Ops = append(c.Ops, op{Op: "count", I: i}, op{Op: "roundtrip", I: i, J: 3}, op{Op: "count", I: 3})
	}
	add := func(i, n int) {
		if c.Raw {
			hs := make([]uint64, n)
			for k := range hs {
				hs[k] = craft(w, p, &hpool)
			}
			c.Ops = append(c.Ops, op{Op: "add", I: i, Hashes: hs})
		} else {
			c.Ops = append(c.Ops, op{Op: "add", I: i, Keys: genKeys(w, n, &kpool)})
		}
	}
	for i := 0; i < 3; i++ {
		c.Ops = append(c.Ops, op{Op: "new", I: i, P: p})
	}
	pend := 1 // how many keys stay pending in tmpSet at this precision: len*100 <= 2^p
	if m := (1 << p) / 100; m > 1 {
		pend = m
	}
	if pend > 4 {
		pend = 4
	}
	shape := func() { // dense counted receiver <- sparse argument with only pending keys
		a, b := r.IntN(3), r.IntN(3)
		if a == b {
			b = (a + 1) % 3
		}
		if r.IntN(2) == 0 {
			add(a, 1+r.IntN(3))
		}
		c.Ops = append(c.Ops, op{Op: "merge", I: a, J: a}) // self-merge: a is dense now
		count(a)
		c.Ops = append(c.Ops, op{Op: "new", I: b, P: p})
		add(b, 1+r.IntN(pend))
		c.Ops = append(c.Ops, op{Op: "merge", I: a, J: b})
		count(a)
		if r.IntN(2) == 0 {
			c.Ops = append(c.Ops, op{Op: "count", I: a})
		}
	}
	shape()
	nsteps := 6 + r.IntN(14)
	for k := 0; k < nsteps; k++ {
		i, j := r.IntN(3), r.IntN(3)
		switch x := r.IntN(100); {
		case x < 30:
			add(i, 1+r.IntN(3))
			if r.IntN(5) < 2 { // not always: a Count would flush the pending keys
				count(i)
			}
		case x < 36:
			if c.Raw { // the splitmix stream feeds raw hash values: only with the hash hook installed
				c.Ops = append(c.Ops, op{Op: "stream", I: i, Seed: r.Uint64() >> uint(r.IntN(60)), N: 1 + r.IntN(8)})
			} else {
				add(i, 1+r.IntN(8))
			}
			count(i)
		case x < 62:
			if r.IntN(2) == 0 {
				count(i) // Count - Merge - Count
			}
			c.Ops = append(c.Ops, op{Op: "merge", I: i, J: j})
			count(i)
		case x < 70:
			if i != j {
				c.Ops = append(c.Ops, op{Op: "clone", I: i, J: j})
				count(j)
			}
		case x < 76:
			c.Ops = append(c.Ops, op{Op: "new", I: i, P: p})
			count(i)
		case x < 88:
			count(i)
			c.Ops = append(c.Ops, op{Op: "count", I: i}) // twice in a row
		default:
			shape()
		}
	}
	for i := 0; i < 3; i++ {
		count(i)
		c.Ops = append(c.Ops, op{Op: "observe", I: i})
	}
	return c
}

func handPicked() []*jcase {
	H := func(hs ...uint64) []uint64 { return hs }
	return []*jcase{
		// associativity in both groupings at p=4 with values that hit both sparse encodings
		{Raw: true, Ops: []op{{Op: "new", I: 0, P: 4}, {Op: "new", I: 1, P: 4}, {Op: "new", I: 2, P: 4},
			{Op: "add", I: 0, Hashes: H(0, 1<<63, 0x1234567890abcdef)}, {Op: "add", I: 1, Hashes: H(math.MaxUint64, 1<<39, 1<<38)}, {Op: "add", I: 2, Hashes: H(0xF000000000000001, 0xF000008000000000)},
			{Op: "clone", I: 0, J: 3}, {Op: "merge", I: 3, J: 1}, {Op: "merge", I: 3, J: 2}, {Op: "observe", I: 3}, {Op: "count", I: 3},
			{Op: "merge", I: 1, J: 2}, {Op: "merge", I: 0, J: 1}, {Op: "observe", I: 0}, {Op: "count", I: 0}}},
		// sparse -> dense by Add alone (p=4: more than 16 bytes of sparse list), then round trip of both modes
		{Raw: true, Ops: []op{{Op: "new", I: 0, P: 4}, {Op: "observe", I: 0}, {Op: "roundtrip", I: 0, J: 1}, {Op: "observe", I: 1}, {Op: "stream", I: 0, Seed: 7, N: 3}, {Op: "observe", I: 0}, {Op: "roundtrip", I: 0, J: 1}, {Op: "observe", I: 1}, {Op: "count", I: 0}, {Op: "count", I: 1},
			{Op: "stream", I: 0, Seed: 9, N: 40}, {Op: "observe", I: 0}, {Op: "roundtrip", I: 0, J: 2}, {Op: "observe", I: 2}, {Op: "count", I: 0}, {Op: "count", I: 2}, {Op: "merge", I: 1, J: 2}, {Op: "observe", I: 1}}},
		// precision errors
		{Raw: false, Ops: []op{{Op: "new", I: 0, P: 3}, {Op: "new", I: 1, P: 19}, {Op: "new", I: 0, P: 4}, {Op: "new", I: 1, P: 5}, {Op: "add", I: 0, Keys: []string{"a", "b"}}, {Op: "merge", I: 0, J: 1}, {Op: "merge", I: 1, J: 0}, {Op: "observe", I: 0}, {Op: "observe", I: 2}}},
		// dense, counted receiver merges a sparse sketch whose keys are still pending in tmpSet; Count again
		{Raw: false, Ops: []op{{Op: "new", I: 0, P: 16}, {Op: "new", I: 1, P: 16}, {Op: "add", I: 0, Keys: []string{"a", "b", "c"}}, {Op: "merge", I: 0, J: 0}, {Op: "count", I: 0}, {Op: "add", I: 1, Keys: []string{"d", "e", "f", "g"}}, {Op: "merge", I: 0, J: 1}, {Op: "count", I: 0}, {Op: "roundtrip", I: 0, J: 3}, {Op: "count", I: 3}, {Op: "observe", I: 0}}},
		// real xxhash, default precision
		{Raw: false, Ops: []op{{Op: "new", I: 0, P: 16}, {Op: "new", I: 1, P: 16}, {Op: "add", I: 0, Keys: []string{"cpu,host=a", "cpu,host=b", "cpu,host=a"}}, {Op: "add", I: 1, Keys: []string{"cpu,host=b", "cpu,host=c"}}, {Op: "count", I: 0}, {Op: "merge", I: 0, J: 1}, {Op: "count", I: 0}, {Op: "observe", I: 0}, {Op: "roundtrip", I: 0, J: 2}, {Op: "count", I: 2}}},
	}
}

// ---------------------------------------------------------------- error bound (Go only)

func errorBound(w *vh.W) {
	r := w.Rng
	type row struct {
		P      int     `json:"p"`
		N      int     `json:"n"`
		Trials int     `json:"trials"`
		Bound  float64 `json:"bound_1.04_over_sqrt_m"`
		MaxRel float64 `json:"max_rel_err"`
		Mean   float64 `json:"mean_rel_err"`
		Over1  int     `json:"trials_over_1x_bound"`
		Over3  int     `json:"trials_over_3x_bound"`
		Over10 int     `json:"trials_over_10x_bound"`
	}
	var rows []row
	sizes := []int{0, 1, 100, 1000, 10000, 50000}
	trials := 3
	if w.N >= 1000 { // thorough tier
		sizes = append(sizes, 200000, 1000000)
		trials = 12
	}
	salt := r.Uint64()
	for _, p := range []int{10, 14, 16} {
		bound := 1.04 / math.Sqrt(float64(uint64(1)<<uint(p)))
		for _, n := range sizes {
			ro := row{P: p, N: n, Trials: trials, Bound: bound}
			for t := 0; t < trials; t++ {
				// the union of 4 partial sketches with overlapping multisets
				parts := make([]*hll.Plus, 4)
				for i := range parts {
					parts[i], _ = hll.NewPlus(uint8(p))
				}
				salt++
				for i := 0; i < n; i++ {
					key := []byte(fmt.Sprintf("m,tag=%x-%d", salt, i))
					parts[i%4].Add(key)
					if i%3 == 0 {
						parts[(i+1)%4].Add(key) // duplicates across parts
					}
				}
				u, _ := hll.NewPlus(uint8(p))
				for _, q := range parts {
					if err := u.Merge(q); err != nil {
						w.Fail(0, "Merge: "+err.Error(), "")
					}
				}
				est := float64(u.Count())
				rel := 0.0
				if n > 0 {
					rel = math.Abs(est-float64(n)) / float64(n)
				} else if est != 0 {
					rel = math.Inf(1)
				}
				ro.Mean += rel / float64(trials)
				if rel > ro.MaxRel {
					ro.MaxRel = rel
				}
				if rel > bound {
					ro.Over1++
				}
				if rel > 3*bound {
					ro.Over3++
				}
				if rel > 10*bound {
					ro.Over10++
				}
			}
			rows = append(rows, ro)
			if p == hll.DefaultPrecision && ro.Over10 > 0 { // gross deviation only: cannot flake (10 sigma)
				w.Fail(0, fmt.Sprintf("Count() of a merged sketch (p=%d, %d distinct items) is off by %.4f relative, more than 10 x 1.04/sqrt(m)=%.4f", p, n, ro.MaxRel, bound), "")
			}
			if p != hll.DefaultPrecision && n >= 100 && ro.Over3 == trials { // systematic: every trial beyond 3 sigma (known finding)
				w.Fail(0, fmt.Sprintf("Count() of a merged sketch with precision %d (%d distinct items) is off by %.4f relative on average, every trial beyond 3 x 1.04/sqrt(m)=%.4f", p, n, ro.Mean, 3*bound), sigBeta)
			}
		}
	}
	w.Extra["error_bound_measurement"] = rows
	w.Extra["error_bound_note"] = "NOT a theorem (probabilistic over the hash): observed |Count-n|/n of the union of 4 overlapping partial sketches (real xxhash); at the default precision 16 (the only one influxdb uses) the check fails beyond 10 x 1.04/sqrt(m) only; at other precisions a systematic bias (every trial beyond 3 x the bound) is reported under the known-finding signature"
}

func main() {
	w := vh.New("C35", "From Verif Require Import Base.Prelude Model.C35.", "case", "check")
	w.Rule = "programs over 4 sketch variables: NewPlus(p) with p from {4,4,5,5,6,7,8,8,10,14,16} (occasionally invalid 0/3/19 or a second precision), Add of items (1 case in 3: real items hashed by xxhash.Sum64, multiset with repeats; otherwise raw hash values through the hash hook: extremes, zero-middle-bit values that take the sparse `zeros` encoding, equal 25-bit prefixes, few-register clusters, splitmix64 streams long enough to leave the sparse representation), Merge i<-j incl. self-merge and mismatched precision, Clone, MarshalBinary+UnmarshalBinary, Count, state dump; every case ends with the union of variables 0 and 1 in both orders, a self-merge and a round trip, each followed by Count and a state dump. One program in three is count-heavy: precision from {7,8,10,14,16}, few keys, Count() after almost every step (also twice in a row, Count-Merge-Count, Count-Add-Count), every Count followed by MarshalBinary+UnmarshalBinary into a scratch variable and a Count of the copy, and repeatedly the shape 'dense, already counted receiver merges a sparse sketch whose keys are all still pending in tmpSet, Count again'. Independently of Coq, EVERY Count() in every program is compared in Go with Count() of Unmarshal(Marshal(clone)). Non-trivial: >= 3 additions and >= 1 merge. Distinct: distinct Gallina terms."
	var rc jcase
	if w.ReplayCase(&rc) {
		run(w, &rc)
		w.Finish()
		return
	}
	for _, c := range handPicked() {
		run(w, c)
	}
	for i := 0; w.Len() < w.N; i++ {
		if i%3 == 2 {
			run(w, genCountHeavy(w))
		} else {
			run(w, genCase(w))
		}
	}
	errorBound(w)
	w.Extra["self_merge_of_sparse_sketch"] = map[string]interface{}{
		"total": st.selfMergeTotal, "count_changed": st.selfMergeCountChanged, "max_relative_change": st.selfMergeMaxRel,
		"note": "DESIGN candidate F14: h.Merge(h) switches a sparse sketch to the dense representation; registers are unchanged (proved) but Count() moves from linear counting at p'=25 to the dense estimate",
	}
	_ = sort.Ints
	w.Finish()
}
