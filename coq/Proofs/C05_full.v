(** C05 proofs, part 4: exact characterisation of when the full-compaction branch of [Plan]
    returns a contiguous group: iff the generations it keeps (not in use, not skipped as
    maxed-out) form one run of the generation list. *)
From Verif Require Import Base.Prelude Model.C05 Proofs.C05 Proofs.C05_contig Proofs.C05_oracle.
From Coq Require Import Permutation.
Local Open Scope N_scope.

(** keep-flag of every generation in the loop of the full branch (true = kept) *)
Fixpoint full_flags (iu : list N) (n : N) (gens : list gen) : list bool :=
  match gens with
  | [] => []
  | g :: rest =>
      (if is_in_use iu g then false
       else
         let skip0 := (2 <? n) && (MaxTSMFileSize <? g_size g)
                      && (DefaultMaxPointsPerBlock <=? g_fbc0 g) && negb (g_tomb g) in
         let skip := match rest with
                     | g' :: _ => if g_level g' <=? 3 then false else skip0
                     | [] => skip0
                     end in
         negb skip) :: full_flags iu n rest
  end.

Fixpoint select {A} (fl : list bool) (l : list A) : list A :=
  match fl, l with
  | b :: fl', x :: l' => if b then x :: select fl' l' else select fl' l'
  | _, _ => []
  end.

Lemma full_kept_select iu n gens : full_kept iu n gens = select (full_flags iu n gens) gens.
Proof.
  induction gens as [|g rest IH]; simpl; [reflexivity|].
  destruct (is_in_use iu g); [exact IH|].
  match goal with |- context [if ?b then full_kept _ _ _ else _] => destruct b end; simpl;
    rewrite IH; reflexivity.
Qed.

Lemma full_flags_length iu n gens : length (full_flags iu n gens) = length gens.
Proof. induction gens as [|g rest IH]; simpl; [reflexivity|]. rewrite IH. reflexivity. Qed.

Lemma select_in {A} (fl : list bool) : forall (l : list A) x, In x (select fl l) -> In x l.
Proof.
  induction fl as [|b fl IH]; intros [|y l] x; simpl; try tauto.
  destruct b; simpl; intros H; [destruct H as [H|H]; [left; exact H|]|]; right; apply IH, H.
Qed.

Lemma select_incl_paths fl gens : incl (gs_paths (select fl gens)) (gs_paths gens).
Proof.
  intros p Hp. apply in_gs_paths_inv in Hp as (g & f & Hg & Hf & <-).
  eapply in_gs_paths; [eapply select_in; eauto | exact Hf].
Qed.

(** a path identifies its generation *)
Lemma gen_unique gens : NoDup (gs_paths gens) ->
  forall g g' p, In g gens -> In g' gens -> In p (g_paths g) -> In p (g_paths g') -> g = g'.
Proof.
  induction gens as [|x rest IH]; simpl; intros Hn g g' p Hg Hg' Hp Hp'; [destruct Hg|].
  assert (Hx : forall h, In h rest -> In p (g_paths x) -> In p (g_paths h) -> False).
  { intros h Hh H1 H2. eapply (NoDup_app_disj _ _ p Hn); [exact H1|].
    unfold gs_paths. apply in_flat_map. eauto. }
  destruct Hg as [<- | Hg], Hg' as [<- | Hg']; auto.
  - exfalso. eapply Hx; eauto.
  - exfalso. eapply Hx; eauto.
  - eapply IH; eauto. eapply NoDup_app_r; eauto.
Qed.

(** the touched-flags of a set that agrees with the selected generations are the flags *)
Lemma flags_touched S : forall gens fl,
  length fl = length gens -> NoDup (gs_paths gens) ->
  Forall (fun g => g_files g <> []) gens ->
  (forall p, In p (gs_paths gens) -> (In p S <-> In p (gs_paths (select fl gens)))) ->
  map (touched S) gens = fl.
Proof.
  induction gens as [|g rest IH]; intros [|b fl] Hl Hn Hne HS; simpl in *; try discriminate;
    [reflexivity|].
  inversion Hne as [|? ? Hg Hne']; subst.
  assert (Hdis : forall p, In p (g_paths g) -> In p (gs_paths rest) -> False)
    by (intros p; apply NoDup_app_disj; exact Hn).
  f_equal.
  - destruct b.
    + destruct (g_files g) as [|f fs] eqn:Ef; [congruence|].
      apply touched_spec. exists f. rewrite Ef. split; [left; reflexivity|].
      assert (Hp : In (f_path f) (g_paths g)) by (unfold g_paths; rewrite Ef; left; reflexivity).
      apply HS; simpl; apply in_or_app; left; exact Hp.
    + destruct (touched S g) eqn:Et; [|reflexivity]. exfalso.
      apply touched_spec in Et as [f [Hf Hp]].
      assert (Hpg : In (f_path f) (g_paths g)) by (unfold g_paths; apply in_map, Hf).
      apply HS in Hp; [|apply in_or_app; left; exact Hpg].
      apply select_incl_paths in Hp. eapply Hdis; eauto.
  - apply IH; auto.
    + eapply NoDup_app_r; eauto.
    + intros p Hp. rewrite (HS p) by (apply in_or_app; right; exact Hp).
      destruct b; simpl; [|tauto]. rewrite in_app_iff. split; [|tauto].
      intros [H|H]; [exfalso; eapply Hdis; eauto | exact H].
Qed.

Theorem full_contiguous_iff iu n gens :
  wf_gens gens ->
  (contiguous gens (sort_paths (gs_paths (full_kept iu n gens)))
   <-> one_run (full_flags iu n gens) = true).
Proof.
  intros [Hn Hne].
  set (S := sort_paths (gs_paths (full_kept iu n gens))).
  assert (HS : forall p, In p S <-> In p (gs_paths (select (full_flags iu n gens) gens))).
  { intro p. rewrite <- full_kept_select. unfold S. split; intro H.
    - eapply Permutation_in; [apply sort_paths_perm | exact H].
    - eapply Permutation_in; [symmetry; apply sort_paths_perm | exact H]. }
  assert (Hnd : NoDup S).
  { unfold S. eapply Permutation_NoDup; [symmetry; apply sort_paths_perm|].
    apply full_kept_nodup, Hn. }
  assert (Hfl : map (touched S) gens = full_flags iu n gens).
  { apply flags_touched; [apply full_flags_length | exact Hn | exact Hne | intros p _; apply HS]. }
  split.
  - intro Hc. apply contiguous_b_complete in Hc; [|split; assumption].
    unfold contiguous_b in Hc. rewrite !andb_true_iff in Hc. destruct Hc as [_ Hr].
    rewrite Hfl in Hr. exact Hr.
  - intro Hr. apply contiguous_b_sound; auto.
    unfold contiguous_b. rewrite !andb_true_iff. repeat split.
    + apply forallb_forall. intros p Hp. apply mem_spec. apply HS in Hp.
      eapply select_incl_paths; eauto.
    + apply forallb_forall. intros g Hg. destruct (touched S g) eqn:Et; [|reflexivity]. simpl.
      apply touched_spec in Et as [f [Hf Hp]]. apply HS in Hp.
      apply in_gs_paths_inv in Hp as (g' & f' & Hg' & Hf' & E).
      assert (g' = g).
      { eapply (gen_unique gens Hn g' g (f_path f)); auto.
        - eapply select_in; eauto.
        - rewrite <- E. unfold g_paths. apply in_map, Hf'.
        - unfold g_paths. apply in_map, Hf. }
      subst g'. apply whole_spec. intros f2 Hf2. apply HS. eapply in_gs_paths; eauto.
    + rewrite Hfl. exact Hr.
Qed.

(** lifted to the response of [Plan] in its full branch *)
Lemma plan_full_out st gens cold recent :
  plan_is_full st gens cold = true ->
  snd (plan st gens cold recent) = [] \/
  snd (plan st gens cold recent)
    = [sort_paths (gs_paths (full_kept (in_use st) (len gens) gens))].
Proof.
  intro Hf. unfold plan. rewrite Hf.
  match goal with |- context [finish ?s ?g] => destruct (finish_out_cases s g) as [-> | ->] end;
    [|left; reflexivity].
  unfold plan_full_gens. simpl in_use. destruct (_ || _); simpl; [left | right]; reflexivity.
Qed.

Lemma plan_full_contiguous_iff st gens cold recent :
  wf_gens gens -> plan_is_full st gens cold = true ->
  snd (plan st gens cold recent) <> [] ->
  (Forall (contiguous gens) (snd (plan st gens cold recent))
   <-> one_run (full_flags (in_use st) (len gens) gens) = true).
Proof.
  intros Hw Hf Hne. destruct (plan_full_out st gens cold recent Hf) as [E|E]; [congruence|].
  rewrite E. rewrite <- (full_contiguous_iff (in_use st) (len gens) gens Hw). split.
  - intro H. inversion H; subst. assumption.
  - intro H. constructor; [exact H | constructor].
Qed.
