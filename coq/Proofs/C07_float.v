(** C07 (part 3) — round trip of the Gorilla-XOR float codec model (Model/C07_float.v,
    mirror of tsdb/engine/tsm1/float.go).

    Main results (no primitive floats involved; closed under the global context):
      - [uvnan_is_nan]      the end-of-stream sentinel is a NaN pattern;
      - [float_roundtrip]   for every list of non-NaN 64-bit patterns (any length), the
                            scalar encoder accepts, and both decoders return the input
                            bit-identically;
      - [float_rejects_nan] any NaN input makes the scalar encoder fail.

    Structure: (1) bits <-> numbers ([take_bits_of]); (2) window arithmetic ([good],
    [sig_roundtrip], [window_good]); (3) one encoder step has one of three shapes
    ([float_step_shape]) and one decoder iteration undoes each of them ([dec_step]);
    (4) loop invariant ([dec_loop_steps]); (5) bytes <-> bits ([pack_bits_flat]);
    (6) the theorems. *)
From Coq Require Import List NArith Bool Lia ZifyN ZifyNat ZifyBool.
From Verif Require Import Base.Prelude Model.C07_int Model.C07_float.
Import ListNotations.
Local Open Scope N_scope.

Lemma uvnan_is_nan : is_nan uvnan = true.
Proof. vm_compute. reflexivity. Qed.

Lemma bits_of_S x n : bits_of x (S n) = N.testbit x (N.of_nat n) :: bits_of x n.
Proof. unfold bits_of. rewrite seq_S, rev_app_distr. reflexivity. Qed.

Lemma bits_of_length x n : length (bits_of x n) = n.
Proof. unfold bits_of. rewrite map_length, rev_length, seq_length. reflexivity. Qed.

Lemma pow2_nz n : 2 ^ n <> 0.
Proof. apply N.pow_nonzero. discriminate. Qed.

Lemma mod_pow2_succ x n :
  x mod 2 ^ (N.succ n) = (if N.testbit x n then 2 ^ n else 0) + x mod 2 ^ n.
Proof.
  rewrite N.pow_succ_r', (N.mul_comm 2), N.mod_mul_r by (try apply pow2_nz; discriminate).
  rewrite <- N.testbit_spec'. destruct (N.testbit x n); cbn [N.b2n]; lia.
Qed.

Lemma take_bits_of : forall n x rest acc,
  take_bits n (bits_of x n ++ rest) acc
  = Some (acc * 2 ^ (N.of_nat n) + x mod 2 ^ (N.of_nat n), rest).
Proof.
  induction n as [|n IH]; intros x rest acc.
  - cbn [take_bits bits_of app]. change (N.of_nat 0) with 0. rewrite N.pow_0_r, N.mod_1_r.
    f_equal. f_equal. lia.
  - rewrite bits_of_S. cbn [take_bits app]. rewrite IH. f_equal. f_equal.
    rewrite Nat2N.inj_succ, mod_pow2_succ, N.pow_succ_r'.
    destruct (N.testbit x (N.of_nat n)); lia.
Qed.

Lemma take_bits_of0 n x rest :
  take_bits n (bits_of x n ++ rest) 0 = Some (x mod 2 ^ (N.of_nat n), rest).
Proof. rewrite take_bits_of. reflexivity. Qed.

Definition good (l t d : N) : Prop :=
  l + t <= 63 /\ d < 2 ^ (64 - l) /\ d mod 2 ^ t = 0.

Lemma sig_roundtrip l t d : good l t d ->
  N.shiftl ((N.shiftr d t) mod 2 ^ (N.of_nat (N.to_nat (64 - l - t)))) t = d.
Proof.
  intros (Hlt & Hd & Hm). rewrite N2Nat.id, N.shiftr_div_pow2, N.shiftl_mul_pow2.
  rewrite N.mod_small.
  - pose proof (N.div_mod d (2 ^ t) (pow2_nz t)) as H. rewrite Hm in H. lia.
  - apply N.div_lt_upper_bound; [apply pow2_nz|]. rewrite <- N.pow_add_r.
    replace (t + (64 - l - t)) with (64 - l) by lia. exact Hd.
Qed.

Lemma mod_pow2_weaken d t pt : pt <= t -> d mod 2 ^ t = 0 -> d mod 2 ^ pt = 0.
Proof.
  intros Hle Hm. apply N.mod_divide in Hm; [|apply pow2_nz]. destruct Hm as [q Hq].
  apply N.mod_divide; [apply pow2_nz|]. exists (q * 2 ^ (t - pt)).
  rewrite <- N.mul_assoc, <- N.pow_add_r. replace (t - pt + pt) with t by lia. exact Hq.
Qed.

Lemma good_weaken l t pl pt d : pl <= l -> pt <= t -> good l t d -> good pl pt d.
Proof.
  intros Hl Ht (H1 & H2 & H3). split; [lia|]. split.
  - eapply N.lt_le_trans; [exact H2|]. apply N.pow_le_mono_r; [discriminate|lia].
  - eapply mod_pow2_weaken; eauto.
Qed.

Lemma clz_bound d : d <> 0 -> d < 2 ^ 64 ->
  N.land (clz64 d) 31 < 32 /\ N.land (clz64 d) 31 + N.log2 d <= 63
  /\ d < 2 ^ (64 - N.land (clz64 d) 31).
Proof.
  intros Hnz Hlt.
  assert (Hlog : N.log2 d < 64) by (apply N.log2_lt_pow2; lia).
  change 31 with (N.ones 5). rewrite N.land_ones. unfold clz64.
  assert (Hm : (63 - N.log2 d) mod 2 ^ 5 <= 63 - N.log2 d) by (apply N.mod_le; apply pow2_nz).
  assert (Hm2 : (63 - N.log2 d) mod 2 ^ 5 < 2 ^ 5) by (apply N.mod_lt; apply pow2_nz).
  change (2 ^ 5) with 32 in *.
  split; [lia|]. split; [lia|].
  destruct (N.log2_spec d) as [_ Hub]; [lia|].
  eapply N.lt_le_trans; [exact Hub|]. apply N.pow_le_mono_r; [discriminate|lia].
Qed.

Lemma ctz_f_div : forall fuel v, v mod 2 ^ (ctz_f fuel v) = 0.
Proof.
  induction fuel as [|f IH]; intro v; cbn [ctz_f].
  - rewrite N.pow_0_r. apply N.mod_1_r.
  - destruct (N.even v) eqn:E.
    + apply N.even_spec in E. destruct E as [k ->].
      assert (Hk : 2 * k / 2 = k) by (rewrite N.mul_comm; apply N.div_mul; discriminate).
      rewrite Hk. specialize (IH k). apply N.mod_divide in IH; [|apply pow2_nz].
      destruct IH as [q Hq]. apply N.mod_divide; [apply pow2_nz|]. exists q.
      rewrite N.add_1_l, N.pow_succ_r'. lia.
    + rewrite N.pow_0_r. apply N.mod_1_r.
Qed.

Lemma pow2_div_le d t : d <> 0 -> d mod 2 ^ t = 0 -> 2 ^ t <= d.
Proof.
  intros Hnz Hm. pose proof (N.div_mod d (2 ^ t) (pow2_nz t)) as H. rewrite Hm in H.
  destruct (d / 2 ^ t) as [|p] eqn:E; [lia|]. nia.
Qed.

Lemma window_good d : d <> 0 -> d < 2 ^ 64 ->
  N.land (clz64 d) 31 < 32 /\ good (N.land (clz64 d) 31) (ctz64 d) d.
Proof.
  intros Hnz Hlt. destruct (clz_bound d Hnz Hlt) as (H1 & H2 & H3).
  pose proof (ctz_f_div 64 d) as Hdiv. fold (ctz64 d) in Hdiv.
  split; [exact H1|]. split; [|split; assumption].
  assert (Hle : 2 ^ ctz64 d <= d) by (apply pow2_div_le; assumption).
  destruct (N.log2_spec d) as [_ Hub]; [lia|].
  assert (Ht : ctz64 d < N.succ (N.log2 d)).
  { apply (N.pow_lt_mono_r_iff 2); [reflexivity|]. lia. }
  lia.
Qed.

Lemma lxor_lt a b n : a < 2 ^ n -> b < 2 ^ n -> N.lxor a b < 2 ^ n.
Proof.
  intros Ha Hb. destruct (N.eq_dec (N.lxor a b) 0) as [E|Hnz].
  - rewrite E. pose proof (pow2_nz n). lia.
  - destruct (N.eq_dec n 0) as [->|Hn].
    + rewrite N.pow_0_r in *. assert (a = 0) by lia. assert (b = 0) by lia. subst.
      exfalso. apply Hnz. reflexivity.
    + assert (La : N.log2 a < n).
      { destruct (N.eq_dec a 0) as [->|]; [change (N.log2 0) with 0; lia|].
        apply N.log2_lt_pow2; lia. }
      assert (Lb : N.log2 b < n).
      { destruct (N.eq_dec b 0) as [->|]; [change (N.log2 0) with 0; lia|].
        apply N.log2_lt_pow2; lia. }
      apply N.log2_lt_pow2; [lia|]. eapply N.le_lt_trans; [apply N.log2_lxor|]. lia.
Qed.

Lemma lxor_cancel prev v : N.lxor prev (N.lxor v prev) = v.
Proof.
  rewrite (N.lxor_comm v prev), <- N.lxor_assoc, N.lxor_nilpotent. apply N.lxor_0_l.
Qed.

Inductive step_shape (prev v : N) (win : option (N * N)) :
  list bool -> option (N * N) -> Prop :=
| SS_same : v = prev -> step_shape prev v win [false] win
| SS_reuse l t : v <> prev -> win = Some (l, t) -> good l t (N.lxor v prev) ->
    step_shape prev v win
      ([true; false] ++ bits_of (N.shiftr (N.lxor v prev) t) (N.to_nat (64 - l - t))) win
| SS_fresh l t : v <> prev -> l < 32 -> good l t (N.lxor v prev) ->
    step_shape prev v win
      ([true; true] ++ bits_of l 5 ++ bits_of (64 - l - t) 6
         ++ bits_of (N.shiftr (N.lxor v prev) t) (N.to_nat (64 - l - t)))
      (Some (l, t)).

Lemma float_step_shape prev v win : prev < 2 ^ 64 -> v < 2 ^ 64 ->
  exists bits win', float_step (prev, win) v = (bits, (v, win'))
                    /\ step_shape prev v win bits win'.
Proof.
  intros Hp Hv. unfold float_step.
  destruct (N.eqb_spec (N.lxor v prev) 0) as [E|E].
  - apply N.lxor_eq in E. do 2 eexists. split; [reflexivity|]. constructor. exact E.
  - assert (Hne : v <> prev) by (intro; apply E; apply N.lxor_eq_0_iff; assumption).
    assert (Hd : N.lxor v prev < 2 ^ 64) by (apply lxor_lt; assumption).
    destruct (window_good _ E Hd) as (Hl & Hg).
    assert (Hfresh : exists bits win',
      ([true; true] ++ bits_of (N.land (clz64 (N.lxor v prev)) 31) 5
         ++ bits_of (64 - N.land (clz64 (N.lxor v prev)) 31 - ctz64 (N.lxor v prev)) 6
         ++ bits_of (N.shiftr (N.lxor v prev) (ctz64 (N.lxor v prev)))
              (N.to_nat (64 - N.land (clz64 (N.lxor v prev)) 31 - ctz64 (N.lxor v prev))),
       (v, Some (N.land (clz64 (N.lxor v prev)) 31, ctz64 (N.lxor v prev))))
      = (bits, (v, win')) /\ step_shape prev v win bits win').
    { do 2 eexists. split; [reflexivity|]. apply SS_fresh; assumption. }
    destruct win as [[pl pt]|]; [|exact Hfresh].
    destruct ((pl <=? N.land (clz64 (N.lxor v prev)) 31) && (pt <=? ctz64 (N.lxor v prev))) eqn:C;
      [|exact Hfresh].
    apply andb_true_iff in C. destruct C as [C1 C2].
    apply N.leb_le in C1. apply N.leb_le in C2.
    do 2 eexists. split; [reflexivity|]. eapply SS_reuse; [assumption|reflexivity|].
    eapply good_weaken; eassumption.
Qed.

Lemma sb_decode l t : l + t <= 63 ->
  64 - l - (if (64 - l - t) mod 2 ^ N.of_nat 6 =? 0 then 64 else (64 - l - t) mod 2 ^ N.of_nat 6)
  = t.
Proof.
  intro H. change (2 ^ N.of_nat 6) with 64.
  destruct (N.eq_dec (64 - l - t) 64) as [E|E].
  - rewrite E. change (64 mod 64) with 0. change (0 =? 0) with true. cbv iota. lia.
  - rewrite N.mod_small by lia. destruct (N.eqb_spec (64 - l - t) 0); lia.
Qed.

Definition dec_cont (f : nat) (rest : list bool) (v l t : N) : option (list N) :=
  if v =? uvnan then Some []
  else match float_dec_loop f rest v l t with
       | Some vs => Some (v :: vs)
       | None => None
       end.

Lemma dec_step f prev v win l0 t0 bits win' rest :
  prev <> uvnan ->
  step_shape prev v win bits win' -> (win = None \/ win = Some (l0, t0)) ->
  exists l1 t1, (win' = None \/ win' = Some (l1, t1)) /\
    float_dec_loop (S f) (bits ++ rest) prev l0 t0 = dec_cont f rest v l1 t1.
Proof.
  intros Hpn Hs Hw. destruct Hs as [Heq | l t Hne Hwin Hg | l t Hne Hl Hg].
  - subst v. exists l0, t0. split; [exact Hw|]. unfold dec_cont.
    destruct (N.eqb_spec prev uvnan) as [|_]; [contradiction|]. reflexivity.
  - exists l0, t0. split; [exact Hw|].
    assert (l0 = l /\ t0 = t) as [-> ->].
    { destruct Hw as [Hw|Hw]; rewrite Hw in Hwin; [discriminate|]. inversion Hwin. auto. }
    rewrite <- app_assoc. cbn [app float_dec_loop].
    rewrite take_bits_of0, sig_roundtrip by exact Hg. rewrite lxor_cancel. reflexivity.
  - exists l, t. split; [right; reflexivity|].
    rewrite <- !app_assoc. cbn [app float_dec_loop].
    rewrite take_bits_of0. cbv beta iota zeta. rewrite take_bits_of0. cbv beta iota zeta.
    rewrite (N.mod_small l) by (change (2 ^ N.of_nat 5) with 32; exact Hl).
    rewrite sb_decode by (apply Hg).
    rewrite take_bits_of0, sig_roundtrip by exact Hg. rewrite lxor_cancel. reflexivity.
Qed.

Lemma uvnan_lt : uvnan < 2 ^ 64.
Proof. reflexivity. Qed.

Lemma not_nan_ne_uvnan v : is_nan v = false -> v <> uvnan.
Proof. intros H E. rewrite E, uvnan_is_nan in H. discriminate. Qed.

Lemma dec_loop_steps : forall vs fuel prev win l t rest,
  prev < 2 ^ 64 -> prev <> uvnan ->
  Forall (fun v => v < 2 ^ 64 /\ is_nan v = false) vs ->
  (win = None \/ win = Some (l, t)) ->
  (length vs < fuel)%nat ->
  float_dec_loop fuel (float_steps (prev, win) (vs ++ [uvnan]) ++ rest) prev l t = Some vs.
Proof.
  induction vs as [|v vs IH]; intros fuel prev win l t rest Hp Hpn Hall Hw Hf.
  - destruct fuel as [|f]; [inversion Hf|].
    cbn [app float_steps].
    destruct (float_step_shape prev uvnan win Hp uvnan_lt) as (bits & win' & E & Hs).
    rewrite E. rewrite app_nil_r.
    destruct (dec_step f prev uvnan win l t bits win' rest Hpn Hs Hw) as (l1 & t1 & _ & ->).
    unfold dec_cont. rewrite N.eqb_refl. reflexivity.
  - destruct fuel as [|f]; [inversion Hf|].
    inversion Hall as [|? ? [Hv Hnn] Hall']; subst.
    cbn [app float_steps].
    destruct (float_step_shape prev v win Hp Hv) as (bits & win' & E & Hs).
    rewrite E. rewrite <- app_assoc.
    destruct (dec_step f prev v win l t bits win'
                (float_steps (v, win') (vs ++ [uvnan]) ++ rest) Hpn Hs Hw)
      as (l1 & t1 & Hw' & ->).
    unfold dec_cont. pose proof (not_nan_ne_uvnan v Hnn) as Hvn.
    destruct (N.eqb_spec v uvnan) as [|_]; [contradiction|].
    rewrite IH; auto. cbn [length] in Hf. lia.
Qed.

Lemma float_step_nonempty st v : (1 <= length (fst (float_step st v)))%nat.
Proof.
  destruct st as [prev win]. unfold float_step.
  destruct (N.lxor v prev =? 0); [cbn; lia|].
  destruct win as [[pl pt]|];
    [destruct ((pl <=? N.land (clz64 (N.lxor v prev)) 31) && (pt <=? ctz64 (N.lxor v prev)))|];
    cbn [fst app length]; lia.
Qed.

Lemma float_steps_length : forall ws st, (length ws <= length (float_steps st ws))%nat.
Proof.
  induction ws as [|w ws IH]; intro st; cbn [float_steps length]; [lia|].
  pose proof (float_step_nonempty st w) as H1.
  destruct (float_step st w) as [bits st']. cbn [fst] in H1.
  rewrite app_length. specialize (IH st'). lia.
Qed.


Lemma float_bits_length vs : (64 <= length (float_bits vs))%nat.
Proof.
  unfold float_bits. destruct (vs ++ [uvnan]) as [|first r] eqn:E.
  - destruct vs; discriminate.
  - rewrite app_length, bits_of_length. lia.
Qed.

Lemma byte_roundtrip l : (length l <= 8)%nat ->
  byte_bits (byte_of_bits l) = l ++ repeat false (8 - length l).
Proof.
  intro H.
  do 8 (destruct l as [|[|] l]; [vm_compute; reflexivity|..]).
  all: destruct l; [vm_compute; reflexivity | cbn [length] in H; lia].
Qed.

Lemma byte_bits_length c : length (byte_bits c) = 8%nat.
Proof. reflexivity. Qed.

Lemma flat_map_byte_bits_length l : length (flat_map byte_bits l) = (8 * length l)%nat.
Proof.
  induction l as [|c l IH]; [reflexivity|].
  cbn [flat_map length]. rewrite app_length, byte_bits_length, IH. lia.
Qed.

Lemma bits_bytes_flat : forall fuel bs, (length bs <= fuel)%nat ->
  exists pad, flat_map byte_bits (bits_bytes fuel bs) = bs ++ pad.
Proof.
  induction fuel as [|f IH]; intros bs H.
  - destruct bs; [|cbn [length] in H; lia]. exists []. reflexivity.
  - destruct bs as [|b bs']. { exists []. reflexivity. }
    remember (b :: bs') as bs eqn:Ebs.
    assert (E : bits_bytes (S f) bs = byte_of_bits (firstn 8 bs) :: bits_bytes f (skipn 8 bs))
      by (subst; reflexivity).
    assert (Hlen : (1 <= length bs)%nat) by (subst; cbn [length]; lia).
    rewrite E. cbn [flat_map]. rewrite byte_roundtrip by (rewrite firstn_length; lia).
    destruct (IH (skipn 8 bs)) as [pad Hpad]. { rewrite skipn_length. lia. }
    rewrite Hpad.
    destruct (le_lt_dec 8 (length bs)) as [L|L].
    + rewrite firstn_length, Nat.min_l by lia. cbn [Nat.sub repeat]. rewrite app_nil_r.
      exists pad. rewrite app_assoc, firstn_skipn. reflexivity.
    + rewrite firstn_all2, skipn_all2 by lia. exists (repeat false (8 - length bs) ++ pad).
      rewrite <- app_assoc. reflexivity.
Qed.

Lemma pack_bits_flat bs : exists pad, flat_map byte_bits (pack_bits bs) = bs ++ pad.
Proof. apply bits_bytes_flat. lia. Qed.

Lemma existsb_nan_false vs :
  Forall (fun v => v < 2 ^ 64 /\ is_nan v = false) vs -> existsb is_nan vs = false.
Proof.
  induction 1 as [|v vs [_ Hn] _ IH]; [reflexivity|]. cbn [existsb]. rewrite Hn, IH. reflexivity.
Qed.

Lemma float_dec_bits_ok vs pad :
  Forall (fun v => v < 2 ^ 64 /\ is_nan v = false) vs ->
  float_dec_bits (float_bits vs ++ pad) = Some vs.
Proof.
  intro Hall. unfold float_bits, float_dec_bits. destruct vs as [|v r].
  - cbn [app float_steps]. rewrite <- app_assoc, take_bits_of0.
    change (N.of_nat 64) with 64. rewrite N.mod_small by exact uvnan_lt.
    rewrite N.eqb_refl. reflexivity.
  - inversion Hall as [|? ? [Hv Hnn] Hall']; subst.
    cbn [app]. rewrite <- app_assoc, take_bits_of0.
    change (N.of_nat 64) with 64. rewrite N.mod_small by exact Hv.
    pose proof (not_nan_ne_uvnan v Hnn) as Hvn.
    destruct (N.eqb_spec v uvnan) as [|_]; [contradiction|].
    rewrite dec_loop_steps; auto.
    rewrite app_length. pose proof (float_steps_length (r ++ [uvnan]) (v, None)) as HL.
    rewrite app_length in HL. cbn [length] in HL. lia.
Qed.

Theorem float_roundtrip : forall vs,
  Forall (fun v => v < 2 ^ 64 /\ is_nan v = false) vs ->
  float_encode_scalar vs = Some (float_bytes vs)
  /\ float_decode_scalar (float_bytes vs) = Some vs
  /\ float_decode_batch (float_bytes vs) = Some vs.
Proof.
  intros vs Hall.
  destruct (pack_bits_flat (float_bits vs)) as [pad Hpad].
  assert (Hdec : float_dec_bits (flat_map byte_bits (pack_bits (float_bits vs))) = Some vs).
  { rewrite Hpad. apply float_dec_bits_ok. exact Hall. }
  split; [|split].
  - unfold float_encode_scalar. rewrite existsb_nan_false by exact Hall. reflexivity.
  - unfold float_bytes, float_decode_scalar. exact Hdec.
  - unfold float_decode_batch.
    assert (Hlen : (9 <= length (float_bytes vs))%nat).
    { unfold float_bytes. cbn [length].
      pose proof (flat_map_byte_bits_length (pack_bits (float_bits vs))) as HL.
      rewrite Hpad, app_length in HL. pose proof (float_bits_length vs). lia. }
    destruct (Nat.ltb_spec (length (float_bytes vs)) 9) as [|_]; [lia|].
    unfold float_bytes. exact Hdec.
Qed.

Theorem float_rejects_nan : forall vs,
  Exists (fun v => is_nan v = true) vs -> float_encode_scalar vs = None.
Proof.
  intros vs H. unfold float_encode_scalar.
  assert (E : existsb is_nan vs = true).
  { apply existsb_exists. apply Exists_exists in H. exact H. }
  rewrite E. reflexivity.
Qed.

