(** C41 — proofs about the flux window tables built on the storage window cursors. *)
From Coq Require Import ZifyBool.
From Verif Require Import Base.Prelude Model.C20 Model.C41 Proofs.C20_ref.
Open Scope Z_scope.

Lemma clip_start_max bs s : clip_start bs s = Z.max bs s.
Proof. unfold clip_start. destruct (s <? bs) eqn:E; lia. Qed.
Lemma clip_stop_min be e : clip_stop be e = Z.min be e.
Proof. unfold clip_stop. destruct (be <? e) eqn:E; lia. Qed.

(** nanosecond window arithmetic *)
Lemma ns_start_le every off t : 0 < every -> ns_start every off t <= t < ns_start every off t + every.
Proof.
  intro He. unfold ns_start. pose proof (Z.mod_pos_bound (t - off) every He).
  pose proof (Z.div_mod (t - off) every). nia.
Qed.

Lemma ns_start_unique every off t s :
  0 < every -> (s - off) mod every = 0 -> s <= t < s + every -> ns_start every off t = s.
Proof.
  intros He Hg Ht. unfold ns_start.
  assert (Es : s - off = every * ((s - off) / every)).
  { pose proof (Z.div_mod (s - off) every). lia. }
  assert (E : (t - off) / every = (s - off) / every).
  { symmetry. apply Z.div_unique with (r := t - s); lia. }
  rewrite E. lia.
Qed.

Lemma ns_start_grid every off t : 0 < every -> (ns_start every off t - off) mod every = 0.
Proof. intro He. unfold ns_start. replace ((t - off) / every * every + off - off) with ((t - off) / every * every) by lia.
  apply Z.mod_mul. lia. Qed.

Lemma ns_stop_grid every off t : 0 < every -> (ns_stop every off t - off) mod every = 0.
Proof. intro He. unfold ns_stop. replace (((t - off) / every + 1) * every + off - off) with (((t - off) / every + 1) * every) by lia.
  apply Z.mod_mul. lia. Qed.

Lemma grid_shift every off s : 0 < every -> (s - off) mod every = 0 -> (s - every - off) mod every = 0.
Proof.
  intros He H. replace (s - every - off) with ((s - off) + (-1) * every) by lia.
  rewrite Z.mod_add by lia. exact H.
Qed.

Section Tables.
Variables (bs be every off : Z).
Hypothesis He : 0 < every.

(** a storage aggregate output: a window stop on the grid whose window reaches below the query stop *)
Definition agg_out (p : Z * val) : Prop := (fst p - off) mod every = 0 /\ fst p - every < be.

Lemma in_window_agg (ts : Z) : (ts - off) mod every = 0 -> ts - every < be ->
  is_in_window every off true (clip_stop be (ts - every + every)) ts = true.
Proof.
  intros Hg Hb. unfold is_in_window, wstart.
  replace (ts - every + every) with ts by lia. rewrite clip_stop_min.
  assert (E : ns_start every off (Z.min be ts - 1) = ts - every).
  { apply ns_start_unique; [exact He|apply grid_shift; assumption|lia]. }
  rewrite E. lia.
Qed.

(** *WindowTable without createEmpty, fed with aggregate outputs: one row per output, the
    window is (ts - every, ts] clipped, the value is the output's value, every array is
    consumed completely (the table ends). *)
Lemma wt_arr_agg tc fillv (a : list (Z * val)) :
  Forall agg_out a ->
  wt_arr bs be every off tc true fillv (map fst a) a
  = (map (fun p => mk_row bs be every tc (fst p - every) None (Some (snd p))) a, length a).
Proof.
  induction a as [|p a IH]; intro H; [reflexivity|].
  inversion H as [|? ? [Hg Hb] Ha]; subst. cbn [map wt_arr length].
  unfold wstart. rewrite (ns_start_unique every off (fst p) (fst p)) by (auto; lia).
  rewrite in_window_agg by assumption. rewrite IH by exact Ha. reflexivity.
Qed.

Lemma wt_nce_agg tc fillv (arrs : list (list (Z * val))) :
  Forall (Forall agg_out) arrs ->
  wt_nce bs be every off tc true fillv arrs
  = Some (map (fun p => mk_row bs be every tc (fst p - every) None (Some (snd p))) (concat arrs)).
Proof.
  induction arrs as [|a arrs IH]; intro H; [reflexivity|].
  inversion H as [|? ? Ha Hr]; subst. cbn [wt_nce concat].
  rewrite wt_arr_agg by exact Ha. rewrite Nat.eqb_refl, IH by exact Hr.
  rewrite map_app. reflexivity.
Qed.

(** *WindowSelectorTable: one row per selected point; _start/_stop are the point's window
    clipped to the bounds, _time and _value are the point's. *)
Lemma ws_rows_spec (pts : list (Z * val)) :
  ws_rows bs be every off TNone pts
  = map (fun p => R (Z.max bs (ns_start every off (fst p))) (Z.min be (ns_stop every off (fst p)))
                    (Some (fst p)) (Some (snd p))) pts.
Proof.
  unfold ws_rows. apply map_ext. intro p. unfold wstart.
  rewrite clip_start_max, clip_stop_min, ns_start_stop. reflexivity.
Qed.

(** *WindowTable with createEmpty: the windows of the rows do not depend on the data: one row
    per window of the grid from the window containing bounds.Start while it starts below
    bounds.Stop, clipped to the bounds. *)
Fixpoint grid_rows (n : nat) (s : Z) : list (Z * Z) :=
  match n with
  | O => []
  | S n' => (Z.max bs s, Z.min be (s + every)) :: grid_rows n' (s + every)
  end.

Lemma wt_ce_windows is_agg fillv : forall fuel s pts,
  bs < be -> (Z.to_nat ((be - s + every - 1) / every) <= fuel)%nat ->
  map (fun r => (r_start r, r_stop r)) (wt_ce bs be every off TNone fuel is_agg fillv s pts)
  = grid_rows (Z.to_nat ((be - s + every - 1) / every)) s.
Proof.
  induction fuel as [|f IH]; intros s pts Hb Hf.
  - cbn [wt_ce map]. replace (Z.to_nat ((be - s + every - 1) / every)) with O by lia. reflexivity.
  - cbn [wt_ce]. rewrite clip_start_max.
    destruct (be <=? Z.max bs s) eqn:E.
    + assert (be <= s) by lia.
      assert ((be - s + every - 1) / every < 1).
      { apply Z.div_lt_upper_bound; lia. }
      replace (Z.to_nat ((be - s + every - 1) / every)) with O by lia. reflexivity.
    + assert (Hs : s < be) by lia.
      assert (Ed : (be - s + every - 1) / every = 1 + (be - (s + every) + every - 1) / every).
      { replace (be - s + every - 1) with ((be - (s + every) + every - 1) + 1 * every) by lia.
        rewrite Z.div_add by lia. lia. }
      assert (Hp : 0 <= (be - (s + every) + every - 1) / every).
      { apply Z.div_pos; lia. }
      assert (En : Z.to_nat ((be - s + every - 1) / every)
                   = S (Z.to_nat ((be - (s + every) + every - 1) / every))) by lia.
      rewrite En. cbn [grid_rows].
      assert (IH' : forall pts', map (fun r => (r_start r, r_stop r))
                 (wt_ce bs be every off TNone f is_agg fillv (s + every) pts')
               = grid_rows (Z.to_nat ((be - (s + every) + every - 1) / every)) (s + every)).
      { intro pts'. apply IH; [exact Hb|lia]. }
      destruct pts as [|p pts'].
      * cbn [map mk_row r_start r_stop]. rewrite IH', clip_start_max, clip_stop_min. reflexivity.
      * destruct (is_in_window every off is_agg (clip_stop be (s + every)) (fst p));
          cbn [map mk_row r_start r_stop]; rewrite IH', clip_start_max, clip_stop_min; reflexivity.
Qed.
End Tables.

(** ---- composition with the storage cursors (C20): count / sum / mean without createEmpty *)
From Verif Require Import Proofs.C20 Proofs.C20_inst.

Definition is_stop_agg (k : aggk) : bool := match k with Count | Sum | Mean => true | _ => false end.

Lemma ref_groups_window {V} (stop_of : Z -> Z) (l : list (Z * V)) wg :
  In wg (ref_groups stop_of l) -> exists q, In q l /\ fst wg = stop_of (fst q).
Proof.
  rewrite ref_groups_alt. intro H. apply in_map_iff in H as [w [<- Hw]]. cbn [fst].
  unfold windows_of, keyed in Hw. apply dedupZ_In in Hw. rewrite map_map in Hw.
  apply in_map_iff in Hw as [q [Eq Hq]]. exists q. split; [exact Hq|]. symmetry. exact Eq.
Qed.

Lemma oracle_agg_out be every off t k (flat : list (Z * val)) :
  0 < every -> is_stop_agg k = true -> (forall p, In p flat -> fst p < be) ->
  Forall (agg_out be every off) (oracle (ns_stop every off) false t k flat).
Proof.
  intros He Hk Hb. unfold oracle, reference. apply Forall_forall. intros x Hx.
  apply in_concat in Hx as [l [Hl Hx]]. apply in_map_iff in Hl as [wg [<- Hwg]].
  apply ref_groups_window in Hwg as [q [Hq Ew]].
  assert (Ex : fst x = fst wg).
  { destruct (snd wg) as [|p0 g']; [destruct Hx|].
    destruct k; try discriminate; cbn [agg_spec] in Hx; destruct Hx as [<-|[]]; reflexivity. }
  unfold agg_out. rewrite Ex, Ew. split; [apply ns_stop_grid; exact He|].
  rewrite ns_start_stop. pose proof (ns_start_le every off (fst q) He). specialize (Hb q Hq). lia.
Qed.

Lemma Forall_concat_inv {X} (P : X -> Prop) (ls : list (list X)) :
  Forall P (concat ls) -> Forall (Forall P) ls.
Proof.
  induction ls as [|l ls IH]; intro H; [constructor|]. cbn [concat] in H.
  apply Forall_app in H as [H1 H2]. constructor; [exact H1|apply IH; exact H2].
Qed.

Lemma aggregate_rows_nce bs be every off tc t k fa (chunks : list (list (Z * val))) :
  0 < every -> is_stop_agg k = true ->
  Forall nonempty chunks -> time_sorted (concat chunks) ->
  (forall p, In p (concat chunks) -> fst p < be) ->
  exists arrs,
    run_model (ns_stop every off) false Bblock t k chunks = Some arrs
    /\ flux_rows bs be every off false tc k fa arrs
       = Some (map (fun p => mk_row bs be every tc (fst p - every) None (Some (snd p)))
                   (oracle (ns_stop every off) false t k (concat chunks))).
Proof.
  intros He Hk Hne Hs Hb.
  assert (Hacc : is_acc k = true) by (destruct k; try discriminate; reflexivity).
  destruct (pushdown_acc (ns_stop every off) (fun x => ns_stop_gt every off x He)
              (fun x y => ns_stop_same every off x y He) Bblock t k chunks Hacc Hne Hs)
    as (arrs & Er & Ec & Ea).
  exists arrs. split; [exact Er|]. rewrite <- Ec.
  assert (Hsel : is_sel k = false) by (destruct k; try discriminate; reflexivity).
  unfold flux_rows. rewrite Hsel. cbn [negb orb].
  destruct arrs as [|a arrs']; [reflexivity|].
  apply (wt_nce_agg bs be every off He). apply Forall_concat_inv. rewrite Ec.
  apply oracle_agg_out; assumption.
Qed.

(** ---- *WindowTable without createEmpty fed with SELECTED POINTS (a selector that table.fill()
    forces to be treated as an aggregate): one row per point, the point's own window clipped,
    every array consumed (the table ends). *)
Section ForcedSelector.
Variables (bs be every off : Z).
Hypothesis He : 0 < every.

Lemma in_window_sel (ts : Z) : ts < be ->
  is_in_window every off false (clip_stop be (wstart every off ts + every)) ts = true.
Proof.
  intro Hb. unfold is_in_window, wstart. rewrite clip_stop_min.
  pose proof (ns_start_le every off ts He) as Hs.
  assert (E : ns_start every off (Z.min be (ns_start every off ts + every) - 1) = ns_start every off ts).
  { apply ns_start_unique; [exact He|apply ns_start_grid; exact He|lia]. }
  rewrite E. lia.
Qed.

Lemma wt_arr_sel tc fillv (a : list (Z * val)) :
  Forall (fun p => fst p < be) a ->
  wt_arr bs be every off tc false fillv (map fst a) a
  = (map (fun p => mk_row bs be every tc (ns_start every off (fst p)) None (Some (snd p))) a, length a).
Proof.
  induction a as [|p a IH]; intro H; [reflexivity|].
  inversion H as [|? ? Hb Ha]; subst. cbn [map wt_arr length].
  rewrite in_window_sel by exact Hb. rewrite IH by exact Ha. reflexivity.
Qed.

Lemma wt_nce_sel tc fillv (arrs : list (list (Z * val))) :
  Forall (Forall (fun p => fst p < be)) arrs ->
  wt_nce bs be every off tc false fillv arrs
  = Some (map (fun p => mk_row bs be every tc (ns_start every off (fst p)) None (Some (snd p))) (concat arrs)).
Proof.
  induction arrs as [|a arrs IH]; intro H; [reflexivity|].
  inversion H as [|? ? Ha Hr]; subst. cbn [wt_nce concat].
  rewrite wt_arr_sel by exact Ha. rewrite Nat.eqb_refl, IH by exact Hr.
  rewrite map_app. reflexivity.
Qed.
End ForcedSelector.
