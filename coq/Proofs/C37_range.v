(** C37 — part 2: [FindRange], [Exclude], [Include], [Contains] against their filter specs. *)
From Coq Require Import ZifyBool.
From Verif Require Import Base.Prelude Model.C37 Proofs.C37_search.
Local Open Scope Z_scope.

Section Proofs.
  Context {V : Type}.
  Notation arr := (arr V).
  Implicit Types (a b l : arr) (p q : Z * V).

  Lemma max_lt_forallb a mn : wsorted a -> a <> [] ->
    (max_time a <? mn) = forallb (fun p => tm p <? mn) a.
  Proof.
    intros Hs Hne. apply Bool.eq_iff_eq_true. rewrite Z.ltb_lt, forallb_forall. split.
    - intros H x Hx. pose proof (max_time_ge a Hs) as Hf. rewrite Forall_forall in Hf.
      specialize (Hf x Hx). lia.
    - intros H. destruct (max_time_in a Hne) as [p [Hp1 Hp2]]. specialize (H p Hp1). lia.
  Qed.

  Lemma min_gt_forallb a mx : wsorted a -> a <> [] ->
    (min_time a >? mx) = forallb (fun p => mx <? tm p) a.
  Proof.
    intros Hs Hne. apply Bool.eq_iff_eq_true. rewrite Z.gtb_lt, forallb_forall. split.
    - intros H x Hx. pose proof (min_time_le a Hs) as Hf. rewrite Forall_forall in Hf.
      specialize (Hf x Hx). lia.
    - intros H. destruct (min_time_in a Hne) as [p [Hp1 Hp2]]. specialize (H p Hp1). lia.
  Qed.

  (** [FindRange] returns exactly what [find_range_spec_f] says. *)
  Lemma find_range_spec a mn mx : wsorted a ->
    find_range a mn mx = find_range_spec_f a mn mx.
  Proof.
    intro Hs. unfold find_range, find_range_spec_f.
    destruct a as [|p0 r0] eqn:Ea.
    - cbn. rewrite orb_true_r. reflexivity.
    - rewrite <- Ea in *. assert (Hne : a <> []) by (rewrite Ea; discriminate).
      replace (Nat.eqb (length a) 0) with false by (rewrite Ea; reflexivity).
      cbn [orb]. destruct (mn >? mx) eqn:E1; cbn [orb]; [reflexivity|].
      rewrite (max_lt_forallb a mn Hs Hne), (min_gt_forallb a mx Hs Hne).
      destruct (forallb _ a || forallb _ a); [reflexivity|].
      rewrite !search_is_count by auto. reflexivity.
  Qed.

  (** *** the "no overlap" situations *)
  Definition none_cond (a : arr) (mn mx : Z) : bool :=
    (mn >? mx) || forallb (fun p => tm p <? mn) a || forallb (fun p => mx <? tm p) a.

  Lemma none_cond_no_in_range a mn mx :
    none_cond a mn mx = true -> Forall (fun p => in_range mn mx p = false) a.
  Proof.
    unfold none_cond. rewrite !orb_true_iff, !forallb_forall. intro H.
    apply Forall_forall. intros x Hx. unfold in_range.
    destruct H as [[H | H] | H]; [|specialize (H x Hx)|specialize (H x Hx)]; lia.
  Qed.

  (** *** index facts for the overlap case *)
  Lemma count_lt_cons v p l :
    count_lt v (p :: l) = ((if (tm p <? v)%Z then 1 else 0) + count_lt v l)%nat.
  Proof. unfold count_lt. cbn. destruct (tm p <? v); reflexivity. Qed.

  Lemma count_lt_mono l v w : v <= w -> (count_lt v l <= count_lt w l)%nat.
  Proof.
    intro H. induction l as [|p r IH]; [cbn; lia|]. rewrite !count_lt_cons.
    destruct (tm p <? v) eqn:E1, (tm p <? w) eqn:E2; lia.
  Qed.

  Lemma count_lt_zero l v : Forall (fun q => v <= tm q) l -> count_lt v l = 0%nat.
  Proof.
    intro H. unfold count_lt. rewrite filter_all_false; auto.
    eapply Forall_impl; [|exact H]. cbn; intros; lia.
  Qed.

  Lemma ts_at_cons_S p l i : ts_at (p :: l) (S i) = ts_at l i.
  Proof. reflexivity. Qed.

  Lemma ssorted_ts_at_lt a : ssorted a -> forall i j,
    (i < j)%nat -> (j < length a)%nat -> ts_at a i < ts_at a j.
  Proof.
    induction a as [|p r IH]; intros Hs i j Hij Hj; [cbn in Hj; lia|].
    destruct Hs as [H1 H2]. destruct j as [|j]; [lia|]. cbn in Hj.
    rewrite ts_at_cons_S. destruct i as [|i].
    - change (ts_at (p :: r) 0) with (tm p).
      rewrite (ts_at_nth r j p) by lia. rewrite Forall_forall in H1. apply H1. apply nth_In. lia.
    - rewrite ts_at_cons_S. apply IH; auto; lia.
  Qed.

  (** The [rmax++] adjustment turns "number of elements < max" into "number of elements <= max". *)
  Lemma rmax_adjust a mx : ssorted a ->
    (if (count_lt mx a <? length a)%nat && (ts_at a (count_lt mx a) =? mx)
     then S (count_lt mx a) else count_lt mx a) = count_lt (mx + 1) a.
  Proof.
    intro Hss. pose proof (ssorted_wsorted a Hss) as Hs.
    set (c2 := count_lt mx a). set (c3 := count_lt (mx + 1) a).
    assert (Hmono : (c2 <= c3)%nat) by (apply count_lt_mono; lia).
    assert (Hc3 : (c3 <= length a)%nat) by apply count_lt_le.
    destruct (c2 <? length a)%nat eqn:E1; cbn [andb].
    - apply Nat.ltb_lt in E1.
      pose proof (ts_at_lt_iff a mx c2 Hs E1) as I2.
      pose proof (ts_at_lt_iff a (mx + 1) c2 Hs E1) as I3.
      fold c2 in I2. fold c3 in I3.
      assert (Hge : mx <= ts_at a c2) by (destruct (Z_lt_le_dec (ts_at a c2) mx) as [Hc|]; [apply I2 in Hc; lia|auto]).
      destruct (ts_at a c2 =? mx) eqn:E2.
      + assert (Hlt : (c2 < c3)%nat) by (apply I3; lia).
        destruct (Nat.eq_dec c3 (S c2)) as [|Hne]; [auto|]. exfalso.
        assert (Hs2 : (S c2 < c3)%nat) by lia.
        assert (Hl2 : (S c2 < length a)%nat) by lia.
        pose proof (ts_at_lt_iff a (mx + 1) (S c2) Hs Hl2) as I4. fold c3 in I4.
        apply I4 in Hs2. pose proof (ssorted_ts_at_lt a Hss c2 (S c2)). lia.
      + assert (~ (c2 < c3)%nat) by (intro Hc; apply I3 in Hc; lia). lia.
    - apply Nat.ltb_ge in E1. lia.
  Qed.

  (** *** the arrays cut out by the index arithmetic, as filters *)
  Lemma exclude_cut a mn mx : wsorted a -> mn <= mx ->
    firstn (count_lt mn a) a ++ skipn (count_lt (mx + 1) a) a
    = filter (fun p => negb (in_range mn mx p)) a.
  Proof.
    intros Hs Hle. rewrite firstn_count_lt, skipn_count_lt by auto.
    induction a as [|p r IH]; [reflexivity|]. destruct Hs as [H1 H2]. specialize (IH H2).
    cbn [filter]. unfold below at 1, notbelow at 1, in_range at 1.
    destruct (tm p <? mn) eqn:E1; destruct (tm p <? mx + 1) eqn:E2;
      destruct (mn <=? tm p) eqn:E3; destruct (tm p <=? mx) eqn:E4; try lia; cbn.
    - f_equal. exact IH.
    - exact IH.
    - rewrite <- IH. rewrite (filter_all_false (below mn) r); [reflexivity|].
      eapply Forall_impl; [|exact H1]. unfold below; cbn; intros; lia.
  Qed.

  Lemma include_cut a mn mx : wsorted a -> mn <= mx ->
    firstn (count_lt (mx + 1) a - count_lt mn a) (skipn (count_lt mn a) a)
    = filter (in_range mn mx) a.
  Proof.
    intros Hs Hle. induction a as [|p r IH]; [reflexivity|].
    destruct (tm p <? mn) eqn:E1.
    - destruct Hs as [H1 H2]. specialize (IH H2).
      rewrite !count_lt_cons, E1. replace (tm p <? mx + 1) with true by lia.
      cbn [Nat.add Nat.sub skipn filter]. unfold in_range at 1.
      replace (mn <=? tm p) with false by lia. cbn. exact IH.
    - assert (Hall : Forall (fun q => mn <= tm q) (p :: r)).
      { constructor; [lia|]. destruct Hs as [H1 _]. eapply Forall_impl; [|exact H1]. cbn; intros; lia. }
      rewrite (count_lt_zero (p :: r) mn Hall). rewrite Nat.sub_0_r. cbn [skipn].
      rewrite firstn_count_lt by auto. apply filter_ext_in. intros x Hx.
      rewrite Forall_forall in Hall. specialize (Hall x Hx). unfold below, in_range. lia.
  Qed.

  (** ** [Exclude] removes exactly the points of the closed range [mn, mx]. *)
  Lemma exclude_spec a mn mx : ssorted a ->
    arr_exclude a mn mx = exclude_spec_f a mn mx.
  Proof.
    intro Hss. pose proof (ssorted_wsorted a Hss) as Hs.
    unfold arr_exclude, exclude_spec_f. rewrite find_range_spec by auto.
    unfold find_range_spec_f. fold (none_cond a mn mx).
    destruct (none_cond a mn mx) eqn:En.
    - cbn. symmetry. apply filter_all_true.
      eapply Forall_impl; [|apply none_cond_no_in_range; exact En]. cbn. intros x Hx. rewrite Hx. reflexivity.
    - assert (Hle : mn <= mx) by (unfold none_cond in En; lia).
      replace (is_none_range _) with false by (unfold is_none_range; cbn [fst snd]; lia).
      cbn [fst snd]. rewrite !Nat2Z.id.
      pose proof (rmax_adjust a mx Hss) as Hadj.
      pose proof (count_lt_le (mx + 1) a) as Hc3.
      rewrite <- (exclude_cut a mn mx Hs Hle).
      destruct (count_lt mx a <? length a)%nat eqn:E1; cbn [andb] in Hadj.
      + rewrite Hadj.
        destruct (0 <? length a - count_lt (mx + 1) a)%nat eqn:E2.
        * f_equal. apply firstn_all2. rewrite skipn_length. lia.
        * rewrite (skipn_all2 a) by lia. rewrite app_nil_r. reflexivity.
      + rewrite <- Hadj. rewrite (skipn_all2 a) by lia. rewrite app_nil_r. reflexivity.
  Qed.

  (** ** [Include] keeps exactly the points of the closed range. *)
  Lemma include_spec a mn mx : ssorted a ->
    arr_include a mn mx = include_spec_f a mn mx.
  Proof.
    intro Hss. pose proof (ssorted_wsorted a Hss) as Hs.
    unfold arr_include, include_spec_f. rewrite find_range_spec by auto.
    unfold find_range_spec_f. fold (none_cond a mn mx).
    destruct (none_cond a mn mx) eqn:En.
    - cbn. symmetry. apply filter_all_false. apply none_cond_no_in_range; exact En.
    - assert (Hle : mn <= mx) by (unfold none_cond in En; lia).
      replace (is_none_range _) with false by (unfold is_none_range; cbn [fst snd]; lia).
      cbn [fst snd]. rewrite !Nat2Z.id.
      pose proof (rmax_adjust a mx Hss) as Hadj.
      pose proof (count_lt_mono a mn (mx + 1)) as Hm.
      rewrite <- (include_cut a mn mx Hs Hle).
      replace (Z.of_nat (count_lt mn a) >? -1) with true by lia.
      destruct ((count_lt mx a <? length a)%nat && (ts_at a (count_lt mx a) =? mx)).
      + rewrite <- Hadj. f_equal. lia.
      + rewrite <- Hadj. f_equal. lia.
  Qed.

  (** ** [TimestampArray.Contains] = some point lies in the closed range. *)
  Lemma existsb_filter_length (f : Z * V -> bool) l :
    existsb f l = (0 <? length (filter f l))%nat.
  Proof. induction l as [|x r IH]; [reflexivity|]. cbn. destruct (f x); cbn; auto. Qed.

  Lemma contains_spec a mn mx : ssorted a ->
    arr_contains a mn mx = contains_spec_f a mn mx.
  Proof.
    intro Hss. pose proof (ssorted_wsorted a Hss) as Hs.
    unfold arr_contains, contains_spec_f. rewrite find_range_spec by auto.
    unfold find_range_spec_f. fold (none_cond a mn mx).
    destruct (none_cond a mn mx) eqn:En.
    - cbn. rewrite existsb_filter_length, filter_all_false; [reflexivity|].
      apply none_cond_no_in_range; exact En.
    - assert (Hle : mn <= mx) by (unfold none_cond in En; lia).
      replace (is_none_range _) with false by (unfold is_none_range; cbn [fst snd]; lia).
      cbn [fst snd]. rewrite !Nat2Z.id.
      rewrite existsb_filter_length, <- (include_cut a mn mx Hs Hle).
      rewrite firstn_length, skipn_length.
      pose proof (rmax_adjust a mx Hss) as Hadj.
      pose proof (count_lt_mono a mn mx Hle) as Hm12.
      pose proof (count_lt_le (mx + 1) a) as Hc3.
      set (c1 := count_lt mn a) in *. set (c2 := count_lt mx a) in *.
      set (c3 := count_lt (mx + 1) a) in *.
      assert (Hm23 : (c2 <= c3)%nat) by (apply count_lt_mono; lia).
      destruct (ts_at a c1 =? mn) eqn:E0.
      + (* a[rmin] = min: that point is in range *)
        assert (Hc1 : (c1 < length a)%nat).
        { destruct (Nat.lt_ge_cases c1 (length a)) as [|Hge]; auto. exfalso.
          unfold none_cond in En. apply orb_false_iff in En as [En _]. apply orb_false_iff in En as [_ En].
          assert (Hf : forallb (fun p => tm p <? mn) a = true); [|congruence].
          apply forallb_forall. intros x Hx.
          assert (Hall : filter (below mn) a = a).
          { rewrite <- (firstn_count_lt a mn Hs). apply firstn_all2. fold c1. lia. }
          rewrite <- Hall in Hx. apply In_below in Hx. lia. }
        pose proof (ts_at_lt_iff a (mn + 1) c1 Hs Hc1) as I1.
        assert (Hlt : (c1 < count_lt (mn + 1) a)%nat) by (apply I1; lia).
        assert ((count_lt (mn + 1) a <= c3)%nat) by (apply count_lt_mono; lia).
        symmetry. apply Nat.ltb_lt. lia.
      + destruct ((c2 <? length a)%nat && (ts_at a c2 =? mx)) eqn:E1.
        * symmetry. apply Nat.ltb_lt. lia.
        * apply Bool.eq_iff_eq_true. rewrite Z.gtb_lt, Nat.ltb_lt. lia.
  Qed.
End Proofs.
