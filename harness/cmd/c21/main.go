// C21 driver: the REAL v1/services/storage.Store (ReadFilter / ReadGroup) over a REAL
// tsdb.Store (tsi1 index + tsm1 engine, 1-3 shards on disk) and a REAL meta.Client (in-memory
// kv) holding the shard groups.  Datasets: 2 measurements x tag keys {t0,t1} x {absent,a,b}
// x fields {f0 int, f1 float}, points over a small time domain straddling the shard-group
// boundaries (groups of 10ns at 0,10,20).  Each case = dataset + one request; the result set is
// iterated exactly like a client does (Next/Tags/Cursor, typed array cursors drained batch by
// batch) and flattened to rows (tags, points) / groups (partition values, keys, rows).
package main

import (
	"context"
	"fmt"
	"math"
	"os"
	"path/filepath"
	"sort"
	"strings"
	"time"

	"github.com/influxdata/influxdb/v2/inmem"
	"github.com/influxdata/influxdb/v2/kit/platform"
	"github.com/influxdata/influxdb/v2/models"
	"github.com/influxdata/influxdb/v2/storage/reads/datatypes"
	"github.com/influxdata/influxdb/v2/tsdb"
	"github.com/influxdata/influxdb/v2/tsdb/cursors"
	_ "github.com/influxdata/influxdb/v2/tsdb/engine"
	"github.com/influxdata/influxdb/v2/tsdb/engine/tsm1"
	_ "github.com/influxdata/influxdb/v2/tsdb/index"
	"github.com/influxdata/influxdb/v2/v1/services/meta"
	"github.com/influxdata/influxdb/v2/v1/services/storage"
	"google.golang.org/protobuf/types/known/anypb"
	"verifh/vh"
)

// ---- case data ----

type jfield struct {
	Name string     `json:"name"`
	Pts  [][2]int64 `json:"pts"` // (time, value), time-sorted, distinct times
}
type jsd struct {
	M      string      `json:"m"`
	Tags   [][2]string `json:"tags"` // key-sorted
	Fields []jfield    `json:"fields"`
}
type jshard struct {
	Start int64 `json:"start"`
	End   int64 `json:"end"`
	Flush bool  `json:"flush"` // snapshot the cache to a TSM file after the first half of the writes
	Data  []jsd `json:"data"`
}
type jpred struct {
	Op    string `json:"op"`            // cmp | val | and | or
	Vop   string `json:"vop,omitempty"` // val: eq ne lt le gt ge  (field value  vop  N)
	N     int64  `json:"n,omitempty"`
	Neq   bool   `json:"neq,omitempty"`
	K     string `json:"k,omitempty"`
	V     string `json:"v,omitempty"`
	Spell int    `json:"spell,omitempty"` // 1: _measurement/_field spelled as the \x00 / \xff tag keys
	Paren bool   `json:"paren,omitempty"`
	A     *jpred `json:"a,omitempty"`
	B     *jpred `json:"b,omitempty"`
}
type jrow struct {
	Tags [][2]string `json:"tags"`
	Pts  [][2]int64  `json:"pts"`
	Err  string      `json:"err,omitempty"`
}
type jgroup struct {
	Vals []*string `json:"vals"`
	Keys []string  `json:"keys"`
	Rows []jrow    `json:"rows"`
}
type jcase struct {
	Shards  []jshard `json:"shards"` // in creation order (shard ids increase)
	Start   int64    `json:"start"`
	End     int64    `json:"end"`
	Pred    *jpred   `json:"pred,omitempty"`
	Req     string   `json:"req"` // filter | groupby | groupnone
	Keys    []string `json:"keys,omitempty"`
	AllTime bool     `json:"all_time,omitempty"`
	Rows    []jrow   `json:"impl_rows,omitempty"`
	Groups  []jgroup `json:"impl_groups,omitempty"`
	Nil     bool     `json:"impl_nil_result,omitempty"`
}

// ---- environment: real meta client + real tsdb store + real storage.Store ----

const bucketID = 0x1234
const orgID = 0x77
const groupDur = 10

type env struct {
	root   string
	ts     *tsdb.Store
	mc     *meta.Client
	st     *storage.Store
	db     string
	shards []jshard
}

func must(err error) {
	if err != nil {
		panic(err)
	}
}

func newEnv(shards []jshard) *env {
	e := &env{shards: shards}
	var err error
	e.root, err = os.MkdirTemp("", "c21-")
	must(err)
	e.db = platform.ID(bucketID).String()

	kv := inmem.NewKVStore()
	must(kv.CreateBucket(context.Background(), meta.BucketName))
	cfg := meta.NewConfig()
	cfg.RetentionAutoCreate = true
	e.mc = meta.NewClient(cfg, kv)
	must(e.mc.Open())
	_, err = e.mc.CreateDatabase(e.db)
	must(err)
	data := e.mc.Data()
	dur := int64(groupDur)
	if len(shards) > 0 && shards[0].End-shards[0].Start > dur {
		dur = shards[0].End - shards[0].Start // wide shard groups (long series)
	}
	data.Databases[0].RetentionPolicies[0].ShardGroupDuration = time.Duration(dur)
	must(e.mc.SetData(&data))

	e.ts = tsdb.NewStore(filepath.Join(e.root, "data"))
	e.ts.EngineOptions.IndexVersion = tsdb.TSI1IndexName
	e.ts.EngineOptions.Config.WALDir = filepath.Join(e.root, "wal")
	e.ts.EngineOptions.MonitorDisabled = true
	e.ts.EngineOptions.CompactionDisabled = true
	must(e.ts.Open(context.Background()))

	ctx := context.Background()
	for _, sh := range shards {
		g, err := e.mc.CreateShardGroup(e.db, meta.DefaultRetentionPolicyName, time.Unix(0, sh.Start))
		must(err)
		if g.StartTime.UnixNano() != sh.Start || g.EndTime.UnixNano() != sh.End || len(g.Shards) != 1 {
			panic(fmt.Sprintf("unexpected shard group %v for %d", g, sh.Start))
		}
		id := g.Shards[0].ID
		must(e.ts.CreateShard(ctx, e.db, meta.DefaultRetentionPolicyName, id, true))
		var pts []models.Point
		for _, sd := range sh.Data {
			tags := models.Tags{}
			for _, kv := range sd.Tags {
				tags = append(tags, models.NewTag([]byte(kv[0]), []byte(kv[1])))
			}
			for _, f := range sd.Fields {
				for _, p := range f.Pts {
					var fields models.Fields
					if f.Name == "f1" {
						fields = models.Fields{f.Name: float64(p[1])}
					} else {
						fields = models.Fields{f.Name: p[1]}
					}
					pt, err := models.NewPoint(sd.M, tags, fields, time.Unix(0, p[0]))
					must(err)
					pts = append(pts, pt)
				}
			}
		}
		half := len(pts)
		if sh.Flush {
			half = len(pts) / 2
		}
		if half > 0 {
			must(e.ts.WriteToShard(ctx, id, pts[:half]))
		}
		if sh.Flush {
			eng, err := e.ts.Shard(id).Engine()
			must(err)
			must(eng.(*tsm1.Engine).WriteSnapshot())
			if half < len(pts) {
				must(e.ts.WriteToShard(ctx, id, pts[half:]))
			}
		}
	}
	e.st = storage.NewStore(e.ts, e.mc)
	return e
}

func (e *env) close() {
	e.ts.Close()
	e.mc.Close()
	os.RemoveAll(e.root)
}

// ---- predicate -> datatypes.Node ----

func node(p *jpred) *datatypes.Node {
	var n *datatypes.Node
	switch p.Op {
	case "cmp":
		k := p.K
		if p.Spell == 1 {
			if k == "_measurement" {
				k = models.MeasurementTagKey
			} else if k == "_field" {
				k = models.FieldKeyTagKey
			}
		}
		cmp := datatypes.Node_ComparisonEqual
		if p.Neq {
			cmp = datatypes.Node_ComparisonNotEqual
		}
		n = &datatypes.Node{
			NodeType: datatypes.Node_TypeComparisonExpression,
			Value:    &datatypes.Node_Comparison_{Comparison: cmp},
			Children: []*datatypes.Node{
				{NodeType: datatypes.Node_TypeTagRef, Value: &datatypes.Node_TagRefValue{TagRefValue: k}},
				{NodeType: datatypes.Node_TypeLiteral, Value: &datatypes.Node_StringValue{StringValue: p.V}},
			},
		}
	case "val":
		cmp := map[string]datatypes.Node_Comparison{
			"eq": datatypes.Node_ComparisonEqual, "ne": datatypes.Node_ComparisonNotEqual,
			"lt": datatypes.Node_ComparisonLess, "le": datatypes.Node_ComparisonLessEqual,
			"gt": datatypes.Node_ComparisonGreater, "ge": datatypes.Node_ComparisonGreaterEqual}[p.Vop]
		n = &datatypes.Node{
			NodeType: datatypes.Node_TypeComparisonExpression,
			Value:    &datatypes.Node_Comparison_{Comparison: cmp},
			Children: []*datatypes.Node{
				{NodeType: datatypes.Node_TypeFieldRef, Value: &datatypes.Node_FieldRefValue{FieldRefValue: "$"}},
				{NodeType: datatypes.Node_TypeLiteral, Value: &datatypes.Node_IntegerValue{IntegerValue: p.N}},
			},
		}
	case "and", "or":
		l := datatypes.Node_LogicalAnd
		if p.Op == "or" {
			l = datatypes.Node_LogicalOr
		}
		n = &datatypes.Node{
			NodeType: datatypes.Node_TypeLogicalExpression,
			Value:    &datatypes.Node_Logical_{Logical: l},
			Children: []*datatypes.Node{node(p.A), node(p.B)},
		}
	default:
		panic("bad pred op " + p.Op)
	}
	if p.Paren {
		n = &datatypes.Node{NodeType: datatypes.Node_TypeParenExpression, Children: []*datatypes.Node{n}}
	}
	return n
}

// ---- draining cursors ----

func copyTags(t models.Tags) [][2]string {
	out := make([][2]string, len(t))
	for i, kv := range t {
		out[i] = [2]string{string(kv.Key), string(kv.Value)}
	}
	return out
}

func drain(cur cursors.Cursor) (pts [][2]int64, errs string) {
	pts = [][2]int64{}
	if cur == nil {
		return
	}
	defer cur.Close()
	switch c := cur.(type) {
	case cursors.IntegerArrayCursor:
		for {
			a := c.Next()
			if a.Len() == 0 {
				break
			}
			for i := range a.Timestamps {
				pts = append(pts, [2]int64{a.Timestamps[i], a.Values[i]})
			}
		}
	case cursors.FloatArrayCursor:
		for {
			a := c.Next()
			if a.Len() == 0 {
				break
			}
			for i := range a.Timestamps {
				v := a.Values[i]
				if v != math.Trunc(v) || math.Abs(v) > 1e15 {
					errs = "non-integral float value"
				}
				pts = append(pts, [2]int64{a.Timestamps[i], int64(v)})
			}
		}
	default:
		errs = fmt.Sprintf("unexpected cursor type %T", cur)
	}
	if err := cur.Err(); err != nil {
		errs = "cursor error: " + err.Error()
	}
	return
}

func readSource() *anypb.Any {
	a, err := anypb.New(&storage.ReadSource{BucketID: bucketID, OrgID: orgID})
	must(err)
	return a
}

func (e *env) exec(c *jcase) (fail string) {
	ctx := context.Background()
	var pred *datatypes.Predicate
	if c.Pred != nil {
		pred = &datatypes.Predicate{Root: node(c.Pred)}
	}
	c.Rows, c.Groups, c.Nil = nil, nil, false
	switch c.Req {
	case "filter":
		rs, err := e.st.ReadFilter(ctx, &datatypes.ReadFilterRequest{
			ReadSource: readSource(),
			Range:      &datatypes.TimestampRange{Start: c.Start, End: c.End},
			Predicate:  pred,
		})
		if err != nil {
			return "ReadFilter error: " + err.Error()
		}
		c.Rows = []jrow{}
		if rs == nil {
			c.Nil = true
			return ""
		}
		for rs.Next() {
			r := jrow{Tags: copyTags(rs.Tags())}
			r.Pts, r.Err = drain(rs.Cursor())
			if r.Err != "" && fail == "" {
				fail = r.Err
			}
			c.Rows = append(c.Rows, r)
		}
		if err := rs.Err(); err != nil && fail == "" {
			fail = "result set error: " + err.Error()
		}
		rs.Close()
	case "groupby", "groupnone":
		req := &datatypes.ReadGroupRequest{
			ReadSource: readSource(),
			Range:      &datatypes.TimestampRange{Start: c.Start, End: c.End},
			Predicate:  pred,
			GroupKeys:  c.Keys,
			Group:      datatypes.ReadGroupRequest_GroupBy,
		}
		if c.Req == "groupnone" {
			req.Group = datatypes.ReadGroupRequest_GroupNone
		}
		if c.AllTime {
			req.Hints = uint32(datatypes.ReadGroupRequest_HintSchemaAllTime)
		}
		grs, err := e.st.ReadGroup(ctx, req)
		if err != nil {
			return "ReadGroup error: " + err.Error()
		}
		c.Groups = []jgroup{}
		if grs == nil {
			c.Nil = true
			return ""
		}
		for gc := grs.Next(); gc != nil; gc = grs.Next() {
			g := jgroup{Vals: []*string{}, Keys: []string{}, Rows: []jrow{}}
			for _, v := range gc.PartitionKeyVals() {
				if v == nil {
					g.Vals = append(g.Vals, nil)
				} else {
					s := string(v)
					g.Vals = append(g.Vals, &s)
				}
			}
			for _, k := range gc.Keys() {
				g.Keys = append(g.Keys, string(k))
			}
			for gc.Next() {
				r := jrow{Tags: copyTags(gc.Tags())}
				r.Pts, r.Err = drain(gc.Cursor())
				if r.Err != "" && fail == "" {
					fail = r.Err
				}
				g.Rows = append(g.Rows, r)
			}
			if err := gc.Err(); err != nil && fail == "" {
				fail = "group cursor error: " + err.Error()
			}
			gc.Close()
			c.Groups = append(c.Groups, g)
		}
		if err := grs.Err(); err != nil && fail == "" {
			fail = "group result set error: " + err.Error()
		}
		grs.Close()
	default:
		panic("bad req " + c.Req)
	}
	return fail
}

// ---- Gallina rendering ----

// frequent strings are defined once in the shard header (a constant reference elaborates far
// faster than a string literal, which matters for the large group reads)
var internNames = map[string]string{}
var internHeader string

func init() {
	strs := []string{"_field", "_measurement", "m0", "m1", "m2", "f0", "f1", "f2", "t0", "t1", "t2", "t3", "t4", "tx",
		"a", "b", "c", "d", "e", "f", "g", "x", "cpu"}
	var b strings.Builder
	for i, s := range strs {
		name := fmt.Sprintf("Q%d", i)
		internNames[s] = name
		fmt.Fprintf(&b, "Definition %s : string := \"%s\".\n", name, s)
	}
	internHeader = b.String()
}

func cstr(s string) string {
	if n, ok := internNames[s]; ok {
		return n
	}
	plain := true
	for i := 0; i < len(s); i++ {
		if s[i] < 0x20 || s[i] > 0x7e || s[i] == '"' {
			plain = false
		}
	}
	if plain {
		return `"` + s + `"`
	}
	var b strings.Builder
	for i := 0; i < len(s); i++ {
		fmt.Fprintf(&b, "(String (ascii_of_N %d) ", s[i])
	}
	b.WriteString(`""`)
	b.WriteString(strings.Repeat(")", len(s)))
	return b.String()
}
func zz(v int64) string {
	if v > -1000000 && v < 1000000 {
		return vh.Z(v)
	}
	// explicit binary constructors: far cheaper to elaborate than a 19-digit literal
	neg := v < 0
	var a uint64
	if neg {
		a = uint64(-(v + 1)) + 1
	} else {
		a = uint64(v)
	}
	bits := fmt.Sprintf("%b", a)
	var b strings.Builder
	if neg {
		b.WriteString("(Zneg ")
	} else {
		b.WriteString("(Zpos ")
	}
	for i := len(bits) - 1; i >= 1; i-- {
		if bits[i] == '1' {
			b.WriteString("(xI ")
		} else {
			b.WriteString("(xO ")
		}
	}
	b.WriteString("xH")
	b.WriteString(strings.Repeat(")", len(bits)))
	return b.String()
}
func tagsTerm(t [][2]string) string {
	xs := make([]string, len(t))
	for i, kv := range t {
		xs[i] = vh.Pair(cstr(kv[0]), cstr(kv[1]))
	}
	return vh.List(xs)
}

// ptsTerm renders a point list; runs of >= 8 points in which time and value both advance by 1
// are written as (rampn n t v) (defined in the shard header), segments are joined with app.
func ptsTerm(p [][2]int64) string {
	var segs []string
	for i := 0; i < len(p); {
		j := i + 1
		for j < len(p) && p[j][0] == p[j-1][0]+1 && p[j][1] == p[j-1][1]+1 {
			j++
		}
		if j-i >= 8 {
			segs = append(segs, fmt.Sprintf("(rampn (N.to_nat %d%%N) %s %s)", j-i, zz(p[i][0]), zz(p[i][1])))
			i = j
			continue
		}
		// a plain segment up to the next long run
		k := i
		for k < len(p) {
			j = k + 1
			for j < len(p) && p[j][0] == p[j-1][0]+1 && p[j][1] == p[j-1][1]+1 {
				j++
			}
			if j-k >= 8 {
				break
			}
			k = j
		}
		segs = append(segs, ptsPlain(p[i:k]))
		i = k
	}
	if len(segs) == 0 {
		return "[]"
	}
	t := segs[len(segs)-1]
	for i := len(segs) - 2; i >= 0; i-- {
		t = "(app " + segs[i] + " " + t + ")"
	}
	return t
}
func ptsPlain(p [][2]int64) string {
	xs := make([]string, len(p))
	for i, tv := range p {
		xs[i] = vh.Pair(zz(tv[0]), zz(tv[1]))
	}
	return vh.List(xs)
}
func shardTerm(sh jshard) string {
	sds := make([]string, len(sh.Data))
	for i, sd := range sh.Data {
		fs := make([]string, len(sd.Fields))
		for j, f := range sd.Fields {
			fs[j] = vh.Pair(cstr(f.Name), ptsTerm(f.Pts))
		}
		sds[i] = fmt.Sprintf("(mkSD (mkS %s %s) %s)", cstr(sd.M), tagsTerm(sd.Tags), vh.List(fs))
	}
	return fmt.Sprintf("(mkSh %s %s %s)", zz(sh.Start), zz(sh.End), vh.List(sds))
}
func predTerm(p *jpred) string {
	switch p.Op {
	case "cmp":
		return fmt.Sprintf("(PCmp %s %s %s)", vh.Bool(p.Neq), cstr(p.K), cstr(p.V))
	case "val":
		op := map[string]string{"eq": "VEq", "ne": "VNe", "lt": "VLt", "le": "VLe", "gt": "VGt", "ge": "VGe"}[p.Vop]
		return fmt.Sprintf("(PVal %s %s)", op, zz(p.N))
	case "and":
		return fmt.Sprintf("(PAnd %s %s)", predTerm(p.A), predTerm(p.B))
	default:
		return fmt.Sprintf("(POr %s %s)", predTerm(p.A), predTerm(p.B))
	}
}
func rowsTerm(rows []jrow) string {
	xs := make([]string, len(rows))
	for i, r := range rows {
		xs[i] = vh.Pair(tagsTerm(r.Tags), ptsTerm(r.Pts))
	}
	return vh.List(xs)
}
func strsTerm(ss []string) string {
	xs := make([]string, len(ss))
	for i, s := range ss {
		xs[i] = cstr(s)
	}
	return vh.List(xs)
}
func caseTerm(c *jcase) string {
	shs := make([]string, len(c.Shards))
	for i, sh := range c.Shards {
		shs[i] = shardTerm(sh)
	}
	pred := "None"
	if c.Pred != nil {
		pred = vh.Some(predTerm(c.Pred))
	}
	req := "RFilter"
	if c.Req != "filter" {
		mode := "GroupBy"
		if c.Req == "groupnone" {
			mode = "GroupNone"
		}
		req = fmt.Sprintf("(RGroup %s %s %s)", mode, strsTerm(c.Keys), vh.Bool(c.AllTime))
	}
	gs := make([]string, len(c.Groups))
	for i, g := range c.Groups {
		vals := make([]string, len(g.Vals))
		for j, v := range g.Vals {
			if v == nil {
				vals[j] = "None"
			} else {
				vals[j] = vh.Some(cstr(*v))
			}
		}
		gs[i] = fmt.Sprintf("(mkG %s %s %s)", vh.List(vals), strsTerm(g.Keys), rowsTerm(g.Rows))
	}
	return fmt.Sprintf("(mkCase [(\"f1\", 1%%N)] %s %s %s %s %s %s %s)", vh.List(shs), zz(c.Start), zz(c.End), pred, req,
		rowsTerm(c.Rows), vh.List(gs))
}

// ---- generation ----

var tagVals = []string{"", "a", "b"}

func genDataset(w *vh.W) []jshard {
	r := w.Rng
	// which of the three shard groups exist, in a random creation order
	var starts []int64
	for len(starts) == 0 {
		starts = starts[:0]
		for g := int64(0); g < 3; g++ {
			if r.IntN(4) != 0 {
				starts = append(starts, g*groupDur)
			}
		}
	}
	r.Shuffle(len(starts), func(i, j int) { starts[i], starts[j] = starts[j], starts[i] })
	// the series of this dataset: a random subset of 2 measurements x 3 x 3 tag values
	type ser struct {
		m    string
		tags [][2]string
	}
	var all []ser
	for _, m := range []string{"m0", "m1"} {
		for _, v0 := range tagVals {
			for _, v1 := range tagVals {
				var tags [][2]string
				if v0 != "" {
					tags = append(tags, [2]string{"t0", v0})
				}
				if v1 != "" {
					tags = append(tags, [2]string{"t1", v1})
				}
				all = append(all, ser{m, tags})
			}
		}
	}
	r.Shuffle(len(all), func(i, j int) { all[i], all[j] = all[j], all[i] })
	nser := 1 + r.IntN(7)
	if r.IntN(8) == 0 {
		nser = 10 + r.IntN(9) // occasionally many series (beyond sort.Slice's insertion-sort cutoff)
	}
	sers := all[:nser]
	val := int64(0)
	shards := make([]jshard, len(starts))
	for i, st := range starts {
		sh := jshard{Start: st, End: st + groupDur, Flush: r.IntN(3) == 0, Data: []jsd{}}
		for _, s := range sers {
			if r.IntN(10) < 4 {
				continue // series absent from this shard
			}
			sd := jsd{M: s.m, Tags: s.tags, Fields: []jfield{}}
			if sd.Tags == nil {
				sd.Tags = [][2]string{}
			}
			for _, f := range []string{"f0", "f1", "f2"} { // f0, f2 integer; f1 float
				if r.IntN(10) < 3 || (f == "f2" && r.IntN(2) == 0) {
					continue
				}
				n := 1 + r.IntN(3)
				if r.IntN(6) == 0 {
					n = 4 + r.IntN(3)
				}
				seen := map[int64]bool{}
				var ts []int64
				for len(ts) < n {
					var t int64
					switch r.IntN(4) {
					case 0:
						t = st // first instant of the shard
					case 1:
						t = st + groupDur - 1 // last instant of the shard
					default:
						t = st + r.Int64N(groupDur)
					}
					if !seen[t] {
						seen[t] = true
						ts = append(ts, t)
					}
				}
				sort.Slice(ts, func(a, b int) bool { return ts[a] < ts[b] })
				jf := jfield{Name: f}
				for _, t := range ts {
					val++
					jf.Pts = append(jf.Pts, [2]int64{t, val})
				}
				sd.Fields = append(sd.Fields, jf)
			}
			if len(sd.Fields) > 0 {
				sh.Data = append(sh.Data, sd)
			}
		}
		shards[i] = sh
	}
	return shards
}

// genLarge: a data set with enough series that a GroupBy read copies more than 4096 tag entries
// (len(SeriesTags)+len(Tags) per row, Tags = SeriesTags + _measurement + _field):
// kind 0: 1030-1100 series with one tag (unique value), grouped by that tag or by _field;
// kind 1: 700-780 series with two tags (t0 from a small set, t1 unique), grouped by t0;
// kind 2: 350-400 series with five tags (t4 unique), grouped by two of the small ones.
// One point per series per shard; 1 shard, sometimes 2.
func genLarge(w *vh.W, kind int) ([]jshard, *jcase) {
	r := w.Rng
	// the smallest sizes that cross the 4096-entry slab (4, 6, 12 entries per row): the Coq judge
	// is quadratic in the number of rows (1380 rows: ~80 s; 750 rows: ~20 s; 380 rows: ~8 s)
	n := 1030 + r.IntN(71)
	switch kind {
	case 1:
		n = 700 + r.IntN(81)
	case 2:
		n = 350 + r.IntN(51)
	}
	nsh := 1
	if r.IntN(3) == 0 {
		nsh = 2
	}
	small := func(i, m int) string { return string(rune('a' + (i*7+i/m)%m)) }
	shards := make([]jshard, nsh)
	val := int64(0)
	for si := range shards {
		st := int64(si) * groupDur
		sh := jshard{Start: st, End: st + groupDur, Data: make([]jsd, 0, n)}
		for i := 0; i < n; i++ {
			if nsh == 2 && r.IntN(4) == 0 {
				continue // series absent from this shard
			}
			id := fmt.Sprintf("s%04d", i)
			var tags [][2]string
			switch kind {
			case 0:
				tags = [][2]string{{"t0", id}}
			case 1:
				tags = [][2]string{{"t0", small(i, 7)}, {"t1", id}}
			default:
				tags = [][2]string{{"t0", small(i, 5)}, {"t1", small(i/5, 3)}, {"t2", small(i, 2)}, {"t3", "x"}, {"t4", id}}
			}
			f := "f0"
			if kind == 0 && i%2 == 1 {
				f = "f2"
			}
			val++
			sh.Data = append(sh.Data, jsd{M: "m0", Tags: tags, Fields: []jfield{{Name: f, Pts: [][2]int64{{st + int64(i%groupDur), val}}}}})
		}
		// listed (and written) in series-key order: the model's sorted-set insertions are then linear
		sort.SliceStable(sh.Data, func(a, b int) bool {
			ta, tb := sh.Data[a].Tags, sh.Data[b].Tags
			for k := range ta {
				if ta[k][1] != tb[k][1] {
					return ta[k][1] < tb[k][1]
				}
			}
			return false
		})
		shards[si] = sh
	}
	c := &jcase{Shards: shards, Start: 0, End: 30, Req: "groupby"}
	switch kind {
	case 0:
		c.Keys = [][]string{{"t0"}, {"_field"}, {"_field", "t0"}}[r.IntN(3)]
	case 1:
		c.Keys = [][]string{{"t0"}, {"t0", "_field"}}[r.IntN(2)]
	default:
		c.Keys = [][]string{{"t0", "t1"}, {"t1", "t2"}, {"t2", "t0", "tx"}}[r.IntN(3)]
	}
	w.Count("large_group_read", fmt.Sprintf("kind%d", kind))
	return shards, c
}

// genLong: a group read with a field-value predicate over 2-4 series of which one has
// 1500-2600 points (value = time, so the cursors deliver arrays of 1000) whose first array matches
// the predicate only partially: the filter cursor's 1000-point result array then fills in the
// middle of a source array and the rest is buffered (tmp) inside the SHARED filter object.
func genLong(w *vh.W, pick bool) ([]jshard, *jcase) {
	r := w.Rng
	const width = 10000
	nser := 2 + r.IntN(3)
	big := r.IntN(nser)
	if pick || r.IntN(2) == 0 {
		big = nser - 1 // the last series probed by seriesHasPoints
	}
	npts := 1500 + r.Int64N(1101)
	thr := 100 + r.Int64N(800)
	sh := jshard{Start: 0, End: width, Flush: r.IntN(2) == 0, Data: []jsd{}}
	for i := 0; i < nser; i++ {
		sd := jsd{M: "m0", Tags: [][2]string{{"t0", string(rune('a' + i))}}}
		jf := jfield{Name: "f0"}
		if i == big {
			for t := int64(0); t < npts; t++ {
				jf.Pts = append(jf.Pts, [2]int64{t, t})
			}
		} else {
			t := r.Int64N(50)
			for k := 0; k < 2+r.IntN(4); k++ {
				jf.Pts = append(jf.Pts, [2]int64{t, r.Int64N(3000)})
				t += 1 + r.Int64N(500)
			}
		}
		sd.Fields = []jfield{jf}
		sh.Data = append(sh.Data, sd)
	}
	c := &jcase{Shards: []jshard{sh}, Start: 0, End: width, Req: "groupby", Keys: []string{"t0"},
		Pred: &jpred{Op: "val", Vop: "gt", N: thr}}
	if !pick {
		switch r.IntN(4) {
		case 0:
			c.Req, c.Keys = "groupnone", []string{}
		case 1:
			c.Keys = []string{"_field"}
		case 2:
			c.Pred = &jpred{Op: "val", Vop: "ge", N: thr}
		}
	}
	w.Count("long_series_group_read", fmt.Sprintf("big=%d/%d", big+1, nser))
	return []jshard{sh}, c
}

func genCmp(w *vh.W) *jpred {
	r := w.Rng
	p := &jpred{Op: "cmp", Neq: r.IntN(3) == 0, Spell: r.IntN(2), Paren: r.IntN(5) == 0}
	switch r.IntN(8) {
	case 0, 1:
		p.K, p.V = "_measurement", []string{"m0", "m1", "m2"}[r.IntN(3)]
	case 2, 3:
		p.K, p.V = "_field", []string{"f0", "f1", "f2"}[r.IntN(3)]
	case 4, 5:
		p.K, p.V = "t0", []string{"a", "b", "c", ""}[r.IntN(4)]
	case 6:
		p.K, p.V = "t1", []string{"a", "b", "c", ""}[r.IntN(4)]
	default:
		p.K, p.V = "tx", []string{"a", ""}[r.IntN(2)] // a tag key no series has
	}
	return p
}

// value comparisons are generated only while genVal is set; literals in [0, genMaxVal+1]
var genVal bool
var genMaxVal int64

func genPred(w *vh.W, depth int) *jpred {
	r := w.Rng
	if depth == 0 || r.IntN(3) == 0 {
		if genVal && r.IntN(3) == 0 {
			return &jpred{Op: "val", Vop: []string{"eq", "ne", "lt", "le", "gt", "ge"}[r.IntN(6)],
				N: r.Int64N(genMaxVal + 2), Paren: r.IntN(5) == 0}
		}
		return genCmp(w)
	}
	op := "and"
	if r.IntN(2) == 0 {
		op = "or"
	}
	return &jpred{Op: op, Paren: r.IntN(3) == 0, A: genPred(w, depth-1), B: genPred(w, depth-1)}
}

var bounds = []int64{-1, 0, 1, 9, 10, 11, 19, 20, 21, 29, 30, 31}

func genTime(w *vh.W, isEnd bool) int64 {
	r := w.Rng
	switch r.IntN(10) {
	case 0:
		if isEnd {
			return math.MaxInt64
		}
		return math.MinInt64
	case 1:
		if isEnd {
			return models.MaxNanoTime
		}
		return models.MinNanoTime
	case 2, 3, 4, 5:
		return bounds[r.IntN(len(bounds))]
	default:
		return -2 + r.Int64N(35)
	}
}

func genQuery(w *vh.W, c *jcase) {
	r := w.Rng
	c.Start, c.End = genTime(w, false), genTime(w, true)
	if r.IntN(3) == 0 { // whole data set
		c.Start, c.End = math.MinInt64, math.MaxInt64
	}
	if c.End < c.Start && r.IntN(4) != 0 {
		c.Start, c.End = c.End, c.Start
	}
	switch r.IntN(5) {
	case 0, 1:
		c.Req = "filter"
	case 2, 3:
		c.Req = "groupby"
	default:
		c.Req = "groupnone"
	}
	// field-value comparisons in a third of the predicates
	genVal = r.IntN(3) == 0
	genMaxVal = 0
	for _, sh := range c.Shards {
		for _, sd := range sh.Data {
			for _, f := range sd.Fields {
				for _, p := range f.Pts {
					if p[1] > genMaxVal {
						genMaxVal = p[1]
					}
				}
			}
		}
	}
	if r.IntN(4) != 0 {
		c.Pred = genPred(w, 2)
	}
	if c.Req != "filter" {
		c.AllTime = r.IntN(5) == 0
		pool := []string{"t0", "t1", "_measurement", "_field", "tx"}
		n := r.IntN(4)
		c.Keys = []string{}
		for i := 0; i < n; i++ {
			c.Keys = append(c.Keys, pool[r.IntN(len(pool))])
		}
	}
}

// non-trivial: the request returns at least two series rows with points, and (for multi-shard
// data sets) some returned row takes points from more than one shard.
func nontrivial(c *jcase) bool {
	rows := c.Rows
	for _, g := range c.Groups {
		rows = append(rows, g.Rows...)
	}
	n, multi := 0, false
	for _, r := range rows {
		if len(r.Pts) > 0 {
			n++
			if r.Pts[0][0]/groupDur != r.Pts[len(r.Pts)-1][0]/groupDur {
				multi = true
			}
		}
	}
	return n >= 2 && (multi || len(c.Shards) == 1)
}

// ---- the rows of a request as far as they can be told from the inputs ----

type srow struct {
	m     string
	tags  [][2]string
	field string
}

// storedRows: every series of the data set paired with every field of its measurement, in
// (measurement, tags, field) order = the order of the index series cursor.
func storedRows(shards []jshard) []srow {
	fields := map[string]map[string]bool{}
	type ser struct {
		m    string
		tags [][2]string
	}
	seen := map[string]ser{}
	for _, sh := range shards {
		for _, sd := range sh.Data {
			if fields[sd.M] == nil {
				fields[sd.M] = map[string]bool{}
			}
			for _, f := range sd.Fields {
				fields[sd.M][f.Name] = true
			}
			seen[sd.M+"|"+fmt.Sprint(sd.Tags)] = ser{sd.M, sd.Tags}
		}
	}
	var sers []ser
	for _, s := range seen {
		sers = append(sers, s)
	}
	sort.Slice(sers, func(i, j int) bool {
		a, b := sers[i], sers[j]
		if a.m != b.m {
			return a.m < b.m
		}
		for k := 0; k < len(a.tags) && k < len(b.tags); k++ {
			if a.tags[k] != b.tags[k] {
				if a.tags[k][0] != b.tags[k][0] {
					return a.tags[k][0] < b.tags[k][0]
				}
				return a.tags[k][1] < b.tags[k][1]
			}
		}
		return len(a.tags) < len(b.tags)
	})
	var out []srow
	for _, s := range sers {
		for _, f := range vh.SortedKeys(fields[s.m]) {
			out = append(out, srow{s.m, s.tags, f})
		}
	}
	return out
}

// reduceLit partially evaluates the predicate on a row like influxql.Reduce does:
// 1 = literal true, 0 = literal false, -1 = an expression on the field value remains.
func reduceLit(p *jpred, r srow) int {
	switch p.Op {
	case "cmp":
		v := ""
		switch p.K {
		case "_measurement":
			v = r.m
		case "_field":
			v = r.field
		default:
			for _, kv := range r.tags {
				if kv[0] == p.K {
					v = kv[1]
				}
			}
		}
		if (v == p.V) != p.Neq {
			return 1
		}
		return 0
	case "val":
		return -1
	}
	x, y := reduceLit(p.A, r), reduceLit(p.B, r)
	unit, zero := 1, 0 // and
	if p.Op == "or" {
		unit, zero = 0, 1
	}
	switch {
	case x == zero || y == zero:
		return zero
	case x == unit:
		return y
	case y == unit:
		return x
	}
	return -1
}

// rowOK: the row condition (value comparisons count as true)
func rowOK(p *jpred, r srow) bool {
	switch p.Op {
	case "val":
		return true
	case "and":
		return rowOK(p.A, r) && rowOK(p.B, r)
	case "or":
		return rowOK(p.A, r) || rowOK(p.B, r)
	}
	return reduceLit(p, r) == 1
}

// staleShape: over >= 2 shards, a row WITH a value condition and a row of the same field type
// WITHOUT one are both part of the request; for ReadFilter the former must come first in row
// order (a group read probes every row on the shared cursors before it returns the first group).
func staleShape(c *jcase) bool {
	if c.Pred == nil || len(c.Shards) < 2 {
		return false
	}
	armed := map[bool]bool{} // field type (float?) -> a row with a condition was seen
	plain := map[bool]bool{} // field type -> a row without condition was seen
	for _, r := range storedRows(c.Shards) {
		if !rowOK(c.Pred, r) {
			continue
		}
		ty := r.field == "f1"
		if reduceLit(c.Pred, r) == 1 {
			if armed[ty] {
				return true
			}
			plain[ty] = true
		} else {
			armed[ty] = true
			if plain[ty] && c.Req != "filter" {
				return true
			}
		}
	}
	return false
}

// known-finding signatures, decided from the INPUT shape only
const sigMaxTime = "point-at-max-nano-time-unreadable"
const sigNulKey = "group-key-nul-collision"

func signature(c *jcase) string {
	hasMax, hasNul := false, false
	for _, sh := range c.Shards {
		for _, sd := range sh.Data {
			for _, kv := range sd.Tags {
				if strings.Contains(kv[1], "\x00") {
					hasNul = true
				}
			}
			for _, f := range sd.Fields {
				for _, p := range f.Pts {
					if p[0] == models.MaxNanoTime {
						hasMax = true
					}
				}
			}
		}
	}
	if hasMax && c.End > models.MaxNanoTime && c.Start <= models.MaxNanoTime {
		return sigMaxTime
	}
	if hasNul && c.Req == "groupby" && len(c.Keys) >= 2 {
		return sigNulKey
	}

	return ""
}

func record(w *vh.W, c *jcase, fail string) {
	sig := signature(c)
	idx := w.Add(caseTerm(c), c, nontrivial(c), sig)
	if sig != "" {
		w.Count("known_finding_shape", sig)
	}
	if staleShape(c) { // the shape of the defect repaired by fix e5cbc6eccf: no longer tolerated
		w.Count("shape", "rows with and without value condition, same field type, >= 2 shards")
	}
	if fail != "" {
		w.Fail(idx, fail, sig)
	}
	w.Count("request", c.Req)
	w.Count("shards", fmt.Sprint(len(c.Shards)))
	w.Count("predicate", fmt.Sprint(c.Pred != nil))
	nrows := len(c.Rows)
	for _, g := range c.Groups {
		nrows += len(g.Rows)
	}
	switch {
	case nrows == 0:
		w.Count("rows", "0")
	case nrows < 4:
		w.Count("rows", "1-3")
	case nrows < 12:
		w.Count("rows", "4-11")
	default:
		w.Count("rows", "12+")
	}
	if c.Req != "filter" {
		w.Count("groups", fmt.Sprint(len(c.Groups)))
	}
}

func runCase(w *vh.W, e *env, c *jcase) {
	var fail string
	if p := vh.Guard(func() { fail = e.exec(c) }); p != "" {
		fail = "panic: " + p
	}
	record(w, c, fail)
}

func main() {
	w := vh.New("C21", "From Coq Require Import String Ascii.\nFrom Verif Require Import Base.Prelude Model.C21.\nOpen Scope string_scope.\nFixpoint rampn (n : nat) (t v : Z) : list (Z * Z) := match n with O => [] | S k => (t, v) :: rampn k (t + 1)%Z (v + 1)%Z end.\n"+internHeader, "case", "check")
	w.Rule = "dataset: 1-3 shard groups of 10ns (at 0,10,20; random creation order; a third flushed to TSM half-way), 1-7 (sometimes 10-18) series out of 2 measurements x {t0,t1} x {absent,a,b}, fields f0(int)/f1(float)/f2(int), 1-6 points per series-field-shard biased to the first/last instant of the shard, all values distinct; 6 (12 when n >= 2000) requests per dataset: ReadFilter / ReadGroup(GroupBy|GroupNone, 0-3 keys of t0,t1,_measurement,_field,tx, HintSchemaAllTime 1/5) with range ends from {MinInt64, MinNanoTime, shard boundaries +-1, random in [-2,33), MaxNanoTime, MaxInt64} and a predicate (3/4) of depth <= 2 over = / != on _measurement,_field,t0,t1,tx with AND/OR/parentheses; in a third of the requests leaves are also field-value comparisons ($ = != < <= > >= integer literal within the data set's value range). Additionally 2 hand-picked and about 1 in 200 (1 in 400 when n >= 2000) LARGE GroupBy reads: 700-780 series with two tags or 350-400 series with five tags (n >= 2000: also 1030-1100 series with one tag), one point per series and shard, 1-2 shards, several groups (more than 4096 copied tag entries, i.e. beyond one tagsBuffer slab). Also 1 hand-picked and about 1 in 150 group reads with a value predicate over 2-4 series of which one has 1500-2600 points (value = time, arrays of 1000) whose first array matches only partially. Non-trivial: >= 2 returned rows have points and (when there are >= 2 shards) some row has points of more than one shard. Distinct: distinct Gallina terms."
	var rc jcase
	if w.ReplayCase(&rc) {
		e := newEnv(rc.Shards)
		runCase(w, e, &rc)
		e.close()
		w.Finish()
		return
	}
	// hand-picked cases first
	{
		shards := []jshard{
			{Start: 10, End: 20, Data: []jsd{
				{M: "m0", Tags: [][2]string{{"t0", "a"}}, Fields: []jfield{{Name: "f0", Pts: [][2]int64{{10, 3}, {19, 4}}}}},
				{M: "m0", Tags: [][2]string{}, Fields: []jfield{{Name: "f1", Pts: [][2]int64{{15, 7}}}}},
			}},
			{Start: 0, End: 10, Flush: true, Data: []jsd{
				{M: "m0", Tags: [][2]string{{"t0", "a"}}, Fields: []jfield{{Name: "f0", Pts: [][2]int64{{0, 1}, {9, 2}}}}},
				{M: "m1", Tags: [][2]string{{"t0", "b"}, {"t1", "a"}}, Fields: []jfield{{Name: "f0", Pts: [][2]int64{{5, 5}}}, {Name: "f1", Pts: [][2]int64{{5, 6}}}}},
			}},
		}
		e := newEnv(shards)
		for _, q := range []jcase{
			{Start: math.MinInt64, End: math.MaxInt64, Req: "filter"},
			{Start: 9, End: 11, Req: "filter"},
			{Start: 10, End: 10, Req: "filter"},
			{Start: 0, End: 10, Req: "filter", Pred: &jpred{Op: "cmp", K: "_field", V: "f0"}},
			{Start: 0, End: 20, Req: "filter", Pred: &jpred{Op: "or", A: &jpred{Op: "cmp", K: "t0", V: ""}, B: &jpred{Op: "cmp", K: "_field", V: "f1", Neq: true}}},
			{Start: 0, End: 30, Req: "groupby", Keys: []string{"t0"}},
			{Start: 0, End: 30, Req: "groupby", Keys: []string{"t1", "_field"}},
			{Start: 0, End: 30, Req: "groupby", Keys: []string{}},
			{Start: 0, End: 30, Req: "groupnone", Keys: []string{"t0"}},
			{Start: 0, End: 30, Req: "groupby", Keys: []string{"t0"}, AllTime: true},
			{Start: 20, End: 30, Req: "groupnone", Keys: []string{}},
		} {
			c := q
			c.Shards = shards
			runCase(w, e, &c)
		}
		e.close()
	}
	{ // field-value conditions; the exact shape (_field = "a" AND $ > 5) OR _field = "b" over 2 and 3 shards
		mk := func(t int64, v int64) jsd {
			return jsd{M: "cpu", Tags: [][2]string{}, Fields: []jfield{
				{Name: "a", Pts: [][2]int64{{t, v}, {t + 5, v * 10}}}, {Name: "b", Pts: [][2]int64{{t, v}, {t + 5, v * 10}}}}}
		}
		shards := []jshard{
			{Start: 0, End: 10, Data: []jsd{mk(1, 1)}},
			{Start: 10, End: 20, Data: []jsd{mk(11, 2)}},
			{Start: 20, End: 30, Flush: true, Data: []jsd{mk(21, 3)}},
		}
		val := func(op string, n int64) *jpred { return &jpred{Op: "val", Vop: op, N: n} }
		fld := func(f string) *jpred { return &jpred{Op: "cmp", K: "_field", V: f} }
		exact := &jpred{Op: "or", A: &jpred{Op: "and", Paren: true, A: fld("a"), B: val("gt", 5)}, B: fld("b")}
		for _, n := range []int{1, 2, 3} {
			e := newEnv(shards[:n])
			for _, q := range []jcase{
				{Start: 0, End: 30, Req: "filter", Pred: exact},
				{Start: 0, End: 30, Req: "filter", Pred: val("gt", 5)},
				{Start: 0, End: 30, Req: "filter", Pred: &jpred{Op: "or", A: &jpred{Op: "and", A: fld("b"), B: val("le", 20)}, B: fld("a")}},
				{Start: 0, End: 30, Req: "filter", Pred: &jpred{Op: "or", A: &jpred{Op: "and", A: fld("a"), B: val("gt", 5)}, B: &jpred{Op: "and", A: fld("b"), B: val("lt", 25)}}},
				{Start: 0, End: 30, Req: "groupby", Keys: []string{"_field"}, Pred: exact},
				{Start: 0, End: 30, Req: "groupnone", Keys: []string{}, Pred: exact},
				{Start: 0, End: 30, Req: "filter", Pred: &jpred{Op: "and", A: fld("a"), B: val("ne", 2)}},
			} {
				c := q
				c.Shards = shards[:n]
				runCase(w, e, &c)
			}
			e.close()
		}
	}
	{ // the last writable instant: the shard group [MaxNanoTime-6, MaxNanoTime+1)
		const mx = models.MaxNanoTime
		shards := []jshard{{Start: mx - 6, End: mx + 1, Data: []jsd{
			{M: "m0", Tags: [][2]string{}, Fields: []jfield{{Name: "f0", Pts: [][2]int64{{mx - 1, 1}, {mx, 2}}}}},
		}}}
		e := newEnv(shards)
		for _, q := range []jcase{
			{Start: 0, End: math.MaxInt64, Req: "filter"},
			{Start: 0, End: mx, Req: "filter"},
			{Start: mx, End: math.MaxInt64, Req: "groupby", Keys: []string{}},
		} {
			c := q
			c.Shards = shards
			runCase(w, e, &c)
		}
		e.close()
	}
	{ // NUL bytes inside tag values: ambiguous group sort key
		shards := []jshard{{Start: 0, End: 10, Data: []jsd{
			{M: "m0", Tags: [][2]string{{"t0", "a\x00b"}, {"t1", "c"}}, Fields: []jfield{{Name: "f0", Pts: [][2]int64{{1, 1}}}}},
			{M: "m0", Tags: [][2]string{{"t0", "a"}, {"t1", "b\x00c"}}, Fields: []jfield{{Name: "f0", Pts: [][2]int64{{2, 2}}}}},
		}}}
		e := newEnv(shards)
		for _, q := range []jcase{
			{Start: 0, End: 10, Req: "filter"},
			{Start: 0, End: 10, Req: "groupby", Keys: []string{"t0", "t1"}},
			{Start: 0, End: 10, Req: "groupby", Keys: []string{"t0"}},
		} {
			c := q
			c.Shards = shards
			runCase(w, e, &c)
		}
		e.close()
	}
	// LARGE group reads: groupBySort copies every row's SeriesTags and Tags into 4096-entry slabs
	// (tagsBuffer); only a request over more than 4096 tag entries crosses a slab boundary.
	for kind := 0; kind < 2; kind++ {
		shards, c := genLarge(w, []int{1, 2}[kind])
		e := newEnv(shards)
		runCase(w, e, c)
		e.close()
	}
	{ // a series with > 1000 matching points read through the shared filter cursor
		shards, c := genLong(w, true)
		e := newEnv(shards)
		runCase(w, e, c)
		e.close()
	}
	largeEvery := 200
	if w.N >= 2000 {
		largeEvery = 400
	}
	perDataset := 6
	if w.N >= 2000 {
		perDataset = 12 // thorough tier: amortise the cost of building a store
	}
	for w.Len() < w.N {
		if w.Rng.IntN(150) == 0 {
			shards, c := genLong(w, false)
			e := newEnv(shards)
			runCase(w, e, c)
			e.close()
			continue
		}
		if w.Rng.IntN(largeEvery) == 0 {
			kind := 1 + w.Rng.IntN(2)
			if w.N >= 2000 && w.Rng.IntN(3) == 0 {
				kind = 0 // 1030-1100 series with a single tag: thorough tier only (judge ~45 s)
			}
			shards, c := genLarge(w, kind)
			e := newEnv(shards)
			runCase(w, e, c)
			e.close()
			continue
		}
		shards := genDataset(w)
		e := newEnv(shards)
		for q := 0; q < perDataset && w.Len() < w.N; q++ {
			c := jcase{Shards: shards}
			genQuery(w, &c)
			runCase(w, e, &c)
		}
		e.close()
	}
	w.Finish()
}
