(** C06 — Multi-file block reads return the exact newest-wins merge.  Property theorems only. *)
From Verif Require Import Base.Prelude Model.C37 Model.C06 Proofs.C06.

Theorem C06_mark_whole_block_is_read : forall (l : loc Z), is_read (mark_read (l_min l) (l_max l) l) = true.
Proof. exact is_read_mark_self. Qed.
Print Assumptions C06_mark_whole_block_is_read.
