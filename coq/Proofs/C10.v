(** C10 — proofs about the schema map, the validator and racing creators. *)
From Verif Require Import Base.Prelude Model.C10.
From Coq Require Import Permutation.

Lemma name_eqb_eq a b : name_eqb a b = true <-> a = b.
Proof. unfold name_eqb. apply list_eqb_spec. intros; apply N.eqb_eq. Qed.

Lemma name_eqb_refl a : name_eqb a a = true.
Proof. apply name_eqb_eq; reflexivity. Qed.

Lemma name_eqb_neq a b : name_eqb a b = false <-> a <> b.
Proof.
  split; intro H.
  - intro E. apply name_eqb_eq in E. congruence.
  - destruct (name_eqb a b) eqn:E; [|reflexivity]. apply name_eqb_eq in E. contradiction.
Qed.

Section Alist.
  Context {A : Type}.
  Implicit Types (l : list (name * A)).

  Lemma alookup_aset_same k v l : alookup k (aset k v l) = Some v.
  Proof.
    induction l as [|[k' v'] l IH]; cbn.
    - rewrite name_eqb_refl. reflexivity.
    - destruct (name_eqb k' k) eqn:E; cbn.
      + rewrite name_eqb_refl. reflexivity.
      + rewrite E. exact IH.
  Qed.

  Lemma alookup_aset_other k k' v l : k <> k' -> alookup k' (aset k v l) = alookup k' l.
  Proof.
    intro Hne. induction l as [|[k0 v0] l IH]; cbn.
    - apply name_eqb_neq in Hne. rewrite Hne. reflexivity.
    - destruct (name_eqb k0 k) eqn:E; cbn.
      + apply name_eqb_eq in E; subst k0.
        apply name_eqb_neq in Hne. rewrite Hne. reflexivity.
      + destruct (name_eqb k0 k'); [reflexivity | exact IH].
  Qed.

  Lemma alookup_aremove_same k l : alookup k (aremove k l) = None.
  Proof.
    induction l as [|[k0 v0] l IH]; cbn; [reflexivity|].
    destruct (name_eqb k0 k) eqn:E; cbn; [exact IH|]. rewrite E. exact IH.
  Qed.

  Lemma alookup_aremove_other k k' l : k <> k' -> alookup k' (aremove k l) = alookup k' l.
  Proof.
    intro Hne. induction l as [|[k0 v0] l IH]; cbn; [reflexivity|].
    destruct (name_eqb k0 k) eqn:E; cbn.
    - apply name_eqb_eq in E; subst k0. apply name_eqb_neq in Hne. rewrite Hne. exact IH.
    - destruct (name_eqb k0 k'); [reflexivity | exact IH].
  Qed.
End Alist.

(** * create_field / drop_meas as operations on the finite map (m, f) -> type *)

Lemma ftype_create_other s m f t m' f' :
  (m', f') <> (m, f) -> ftype (fst (create_field s m f t)) m' f' = ftype s m' f'.
Proof.
  intro Hne. unfold create_field, mf_create, ftype, meas_fields.
  destruct (list_eq_dec N.eq_dec m m') as [->|Hm].
  - assert (Hf : f <> f') by congruence.
    destruct (alookup m' s) as [fs|] eqn:Em; cbn.
    + destruct (alookup f fs) as [t0|] eqn:Ef.
      * destruct (N.eqb t0 t); cbn; rewrite alookup_aset_same; reflexivity.
      * cbn. rewrite alookup_aset_same. apply alookup_aset_other; exact Hf.
    + cbn. rewrite alookup_aset_same. cbn.
      apply name_eqb_neq in Hf. rewrite Hf. reflexivity.
  - destruct (alookup m s) as [fs|] eqn:Em; cbn.
    + destruct (alookup f fs) as [t0|]; [destruct (N.eqb t0 t)|]; cbn;
        rewrite alookup_aset_other by exact Hm; reflexivity.
    + rewrite alookup_aset_other by exact Hm. reflexivity.
Qed.

Lemma create_conflict s m f t t0 :
  ftype s m f = Some t0 -> t0 <> t ->
  snd (create_field s m f t) = Conflict t0 /\
  forall m' f', ftype (fst (create_field s m f t)) m' f' = ftype s m' f'.
Proof.
  intros H Hne. unfold create_field, mf_create, ftype, meas_fields in *.
  destruct (alookup m s) as [fs|] eqn:Em; [|discriminate].
  rewrite H. apply N.eqb_neq in Hne. rewrite Hne. cbn. split; [reflexivity|].
  intros m' f'. destruct (list_eq_dec N.eq_dec m m') as [->|Hm].
  - rewrite alookup_aset_same, Em. reflexivity.
  - rewrite alookup_aset_other by exact Hm. reflexivity.
Qed.

Lemma create_existed s m f t :
  ftype s m f = Some t ->
  snd (create_field s m f t) = Existed /\
  forall m' f', ftype (fst (create_field s m f t)) m' f' = ftype s m' f'.
Proof.
  intros H. unfold create_field, mf_create, ftype, meas_fields in *.
  destruct (alookup m s) as [fs|] eqn:Em; [|discriminate].
  rewrite H, N.eqb_refl. cbn. split; [reflexivity|].
  intros m' f'. destruct (list_eq_dec N.eq_dec m m') as [->|Hm].
  - rewrite alookup_aset_same, Em. reflexivity.
  - rewrite alookup_aset_other by exact Hm. reflexivity.
Qed.

Lemma create_created s m f t :
  ftype s m f = None ->
  snd (create_field s m f t) = Created /\ ftype (fst (create_field s m f t)) m f = Some t.
Proof.
  intros H. unfold create_field, mf_create, ftype, meas_fields in *.
  destruct (alookup m s) as [fs|] eqn:Em.
  - rewrite H. cbn. split; [reflexivity|]. rewrite alookup_aset_same. apply alookup_aset_same.
  - cbn. split; [reflexivity|]. rewrite alookup_aset_same. cbn. rewrite name_eqb_refl. reflexivity.
Qed.

(** The three cases together. *)
Lemma create_cases s m f t :
  match ftype s m f with
  | Some t0 => if N.eqb t0 t then snd (create_field s m f t) = Existed
               else snd (create_field s m f t) = Conflict t0
  | None => snd (create_field s m f t) = Created
  end.
Proof.
  destruct (ftype s m f) as [t0|] eqn:E.
  - destruct (N.eqb t0 t) eqn:Et.
    + apply N.eqb_eq in Et; subst. apply create_existed; exact E.
    + apply N.eqb_neq in Et. apply create_conflict; assumption.
  - apply create_created; exact E.
Qed.

(** A stored type is never changed by a create. *)
Lemma create_keeps s m f t m' f' t' :
  ftype s m' f' = Some t' -> ftype (fst (create_field s m f t)) m' f' = Some t'.
Proof.
  intro H. destruct (list_eq_dec N.eq_dec m m') as [->|Hm].
  2:{ rewrite ftype_create_other; [exact H | congruence]. }
  destruct (list_eq_dec N.eq_dec f f') as [->|Hf].
  2:{ rewrite ftype_create_other; [exact H | congruence]. }
  destruct (N.eq_dec t' t) as [->|Hne].
  - rewrite (proj2 (create_existed _ _ _ _ H)). exact H.
  - rewrite (proj2 (create_conflict _ _ _ _ _ H Hne)). exact H.
Qed.

Lemma ftype_ensure s m m' f' : ftype (ensure_meas s m) m' f' = ftype s m' f'.
Proof.
  unfold ensure_meas, ftype. destruct (alookup m s) eqn:E; [reflexivity|].
  destruct (list_eq_dec N.eq_dec m m') as [->|Hm].
  - rewrite alookup_aset_same, E. reflexivity.
  - rewrite alookup_aset_other by exact Hm. reflexivity.
Qed.

Lemma ftype_drop_same s m f : ftype (drop_meas s m) m f = None.
Proof. unfold ftype, drop_meas. rewrite alookup_aremove_same. reflexivity. Qed.

Lemma ftype_drop_other s m m' f : m <> m' -> ftype (drop_meas s m) m' f = ftype s m' f.
Proof. intro H. unfold ftype, drop_meas. rewrite alookup_aremove_other by exact H. reflexivity. Qed.

(** * Histories of creates and drops *)
Inductive sop := SCreate (m f : name) (t : N) | SDrop (m : name).
Definition sstep (s : schema) (o : sop) : schema :=
  match o with SCreate m f t => fst (create_field s m f t) | SDrop m => drop_meas s m end.

Lemma single_type_history ops : forall s m f t,
  ftype s m f = Some t -> (forall o, In o ops -> o <> SDrop m) ->
  ftype (fold_left sstep ops s) m f = Some t.
Proof.
  induction ops as [|o ops IH]; intros s m f t H Hnd; cbn; [exact H|].
  apply IH.
  - destruct o as [m0 f0 t0 | m0]; cbn.
    + apply create_keeps; exact H.
    + rewrite ftype_drop_other; [exact H|]. intro E; subst. apply (Hnd (SDrop m)); [left|]; reflexivity.
  - intros o' Hin. apply Hnd. right; exact Hin.
Qed.

(** * The validator *)
Definition ext (s s' : schema) : Prop := forall m f t, ftype s m f = Some t -> ftype s' m f = Some t.

Lemma ext_refl s : ext s s. Proof. intros m f t H; exact H. Qed.
Lemma ext_trans a b c : ext a b -> ext b c -> ext a c.
Proof. intros H1 H2 m f t H. apply H2, H1, H. Qed.

Lemma field_fits_ext s s' m f : ext s s' -> field_fits s m f = true -> field_fits s' m f = true.
Proof.
  intros He H. unfold field_fits in *. apply andb_true_iff in H as [H1 H2]. rewrite H1. cbn.
  destruct (name_eqb (f_key f) TIME); [reflexivity|]. cbn in *.
  destruct (ftype s m (f_key f)) as [t0|] eqn:E; [|discriminate]. cbn in H2. apply N.eqb_eq in H2; subst.
  rewrite (He _ _ _ E). cbn. apply N.eqb_refl.
Qed.

(** a definite misfit: oversize string, or a stored type that differs *)
Definition field_clash (s : schema) (m : name) (f : pfield) : Prop :=
  f_big f && N.eqb (f_type f) T_STRING = true \/
  (name_eqb (f_key f) TIME = false /\ exists t0, ftype s m (f_key f) = Some t0 /\ t0 <> f_type f).

Lemma field_clash_ext s s' m f : ext s s' -> field_clash s m f -> field_clash s' m f.
Proof.
  intros He [H2 | [H1 [t0 [H2 H3]]]]; [left; exact H2|]. right. split; auto. exists t0; split; auto.
Qed.

Lemma field_clash_not_fits s m f : field_clash s m f -> field_fits s m f = false.
Proof.
  intros [H2 | [H1 [t0 [H2 H3]]]]; unfold field_fits.
  - rewrite H2. reflexivity.
  - rewrite H1, H2. cbn. apply N.eqb_neq in H3. rewrite H3. apply andb_false_r.
Qed.

Lemma vcf_spec fl : forall s m cr st s1 cr1 res,
  vcf s m fl cr st = (s1, cr1, res) ->
  ext s s1 /\
  (res <> VDropped -> forall f, In f fl -> field_fits s1 m f = true) /\
  (res = VDropped -> exists f, In f fl /\ field_clash s1 m f).
Proof.
  induction fl as [|f fl IH]; intros s m cr st s1 cr1 res H; cbn in H.
  - inversion H; subst. split; [apply ext_refl|]. split.
    + intros _ f [].
    + destruct st; discriminate.
  - destruct (f_big f && N.eqb (f_type f) T_STRING) eqn:Eb.
    { inversion H; subst. split; [apply ext_refl|]. split; [congruence|].
      intros _. exists f. split; [left; reflexivity|]. left; exact Eb. }
    destruct (name_eqb (f_key f) TIME) eqn:Et.
    { apply IH in H as [He [Hok Hbad]]. split; [exact He|]. split.
      - intros Hr g [<-|Hin]; [|apply Hok; assumption].
        unfold field_fits. rewrite Eb, Et. reflexivity.
      - intros Hr. destruct (Hbad Hr) as [g [Hin Hc]]. exists g; split; [right; exact Hin | exact Hc]. }
    pose proof (create_cases s m (f_key f) (f_type f)) as Hc.
    destruct (create_field s m (f_key f) (f_type f)) as [s' r] eqn:Ec. cbn in Hc.
    destruct (ftype s m (f_key f)) as [t0|] eqn:Ef.
    + destruct (N.eqb t0 (f_type f)) eqn:Ett; subst r.
      * apply N.eqb_eq in Ett; subst t0.
        apply IH in H as [He [Hok Hbad]]. split; [exact He|]. split.
        -- intros Hr g [<-|Hin]; [|apply Hok; assumption].
           unfold field_fits. rewrite Eb, Et, (He _ _ _ Ef). cbn. apply N.eqb_refl.
        -- intros Hr. destruct (Hbad Hr) as [g [Hin Hcl]]. exists g; split; [right; exact Hin | exact Hcl].
      * inversion H; subst. split; [apply ext_refl|]. split; [congruence|].
        intros _. exists f. split; [left; reflexivity|]. right. split; [exact Et|].
        exists t0. split; [exact Ef|]. apply N.eqb_neq; exact Ett.
    + subst r.
      assert (Hs' : s' = fst (create_field s m (f_key f) (f_type f))) by (rewrite Ec; reflexivity).
      assert (Hext : ext s s').
      { intros m' f' t' Hx. rewrite Hs'. apply create_keeps; exact Hx. }
      assert (Hnew : ftype s' m (f_key f) = Some (f_type f)).
      { rewrite Hs'. apply create_created; exact Ef. }
      apply IH in H as [He [Hok Hbad]]. split; [eapply ext_trans; eassumption|]. split.
      * intros Hr g [<-|Hin]; [|apply Hok; assumption].
        unfold field_fits. rewrite Eb, Et, (He _ _ _ Hnew). cbn. apply N.eqb_refl.
      * intros Hr. destruct (Hbad Hr) as [g [Hin Hcl]]. exists g; split; [right; exact Hin | exact Hcl].
Qed.

Lemma validate_point_spec s m fl s1 cr1 res :
  validate_point s m fl = (s1, cr1, res) ->
  ext s s1 /\
  (res <> VDropped -> forallb (field_fits s1 m) fl = true) /\
  (res = VDropped -> exists g, In g fl /\ field_clash s1 m g).
Proof.
  unfold validate_point. intro H. apply vcf_spec in H as [He [Hok Hbad]]. split.
  - intros m' f' t' Hx. apply He. rewrite ftype_ensure. exact Hx.
  - split; [|exact Hbad]. intro Hr. apply forallb_forall. apply Hok; exact Hr.
Qed.

Lemma forallb_fits_ext s s' m fl :
  ext s s' -> forallb (field_fits s m) fl = true -> forallb (field_fits s' m) fl = true.
Proof.
  intros He H. rewrite forallb_forall in *. intros g Hin. eapply field_fits_ext; eauto.
Qed.

Lemma clash_forallb s m fl g : In g fl -> field_clash s m g -> forallb (field_fits s m) fl = false.
Proof.
  intros Hin Hc. destruct (forallb (field_fits s m) fl) eqn:E; [|reflexivity].
  rewrite forallb_forall in E. specialize (E g Hin). rewrite (field_clash_not_fits _ _ _ Hc) in E. discriminate.
Qed.

(** Types never change during a write; the reported count is the number of points that do not
    fit the schema after the write; the points handed to the engine are exactly those that fit. *)
Lemma validate_points_spec pts : forall s s' cr acc dr st,
  validate_points s pts = (s', cr, acc, dr, st) ->
  ext s s' /\ dr = count_rejected s' pts /\ acc = filter (point_fits s') pts.
Proof.
  induction pts as [|p pts IH]; intros s s' cr acc dr st H; cbn in H.
  - inversion H; subst. split; [apply ext_refl|]. split; reflexivity.
  - destruct (only_time (w_fields p)) eqn:Eo.
    + destruct (validate_points s pts) as [[[[s2 cr2] acc2] dr2] st2] eqn:Ev.
      inversion H; subst. destruct (IH _ _ _ _ _ _ Ev) as [He [Hd Ha]]. split; [exact He|].
      assert (Hpf : point_fits s' p = false) by (unfold point_fits; rewrite Eo; reflexivity).
      unfold count_rejected in *. cbn [filter]. rewrite Hpf. cbn [negb length]. split; [lia | exact Ha].
    + destruct (validate_point s (w_meas p) (w_fields p)) as [[s1 cr1] res] eqn:Ep.
      destruct (validate_points s1 pts) as [[[[s2 cr2] acc2] dr2] st2] eqn:Ev.
      destruct (IH _ _ _ _ _ _ Ev) as [He [Hd Ha]].
      apply validate_point_spec in Ep as [He1 [Hok Hbad]].
      assert (Es : s2 = s') by (inversion H; reflexivity). subst s2.
      assert (Hpf : point_fits s' p = match res with VDropped => false | _ => true end).
      { unfold point_fits. rewrite Eo. cbn [negb andb]. destruct res.
        - eapply forallb_fits_ext; [exact He|]. apply Hok. discriminate.
        - eapply forallb_fits_ext; [exact He|]. apply Hok. discriminate.
        - destruct (Hbad eq_refl) as [g [Hin Hc]].
          eapply clash_forallb; [exact Hin|]. eapply field_clash_ext; eassumption. }
      unfold count_rejected in *. cbn [filter]. rewrite Hpf.
      destruct res; inversion H; subst; (split; [eapply ext_trans; eassumption|]);
        cbn [negb length]; (split; [lia | reflexivity]).
Qed.

(** * Racing creators: the atomic LoadOrStore steps of several writers, in schedule order *)
Fixpoint run_creates (s : schema) (m f : name) (sched : list N) : schema * list cres :=
  match sched with
  | [] => (s, [])
  | t :: r => let '(s1, c) := create_field s m f t in
              let '(s2, cs) := run_creates s1 m f r in (s2, c :: cs)
  end.

Lemma run_creates_fixed sched : forall s m f w,
  ftype s m f = Some w ->
  ftype (fst (run_creates s m f sched)) m f = Some w /\
  snd (run_creates s m f sched) = map (fun t => if N.eqb w t then Existed else Conflict w) sched.
Proof.
  induction sched as [|t r IH]; intros s m f w H; cbn; [split; [exact H | reflexivity]|].
  pose proof (create_cases s m f t) as Hc. rewrite H in Hc.
  pose proof (create_keeps s m f t m f w H) as Hk.
  destruct (create_field s m f t) as [s1 c] eqn:Ec. cbn in Hc, Hk.
  destruct (IH s1 m f w Hk) as [H1 H2].
  destruct (run_creates s1 m f r) as [s2 cs] eqn:Er. cbn in *. split; [exact H1|].
  rewrite H2. destruct (N.eqb w t); rewrite Hc; reflexivity.
Qed.

Lemma racing_creators ts sched s m f :
  Permutation sched ts -> ts <> [] -> ftype s m f = None ->
  exists w, In w ts /\ ftype (fst (run_creates s m f sched)) m f = Some w /\
    length (snd (run_creates s m f sched)) = length sched /\
    (forall t c, In (t, c) (combine sched (snd (run_creates s m f sched))) ->
       (t = w -> c = Created \/ c = Existed) /\ (t <> w -> c = Conflict w)).
Proof.
  intros Hp Hne Hn. destruct sched as [|w r].
  { apply Permutation_nil in Hp. congruence. }
  exists w. split; [eapply Permutation_in; [exact Hp | left; reflexivity]|].
  cbn. pose proof (create_created s m f w Hn) as [Hc Hk].
  destruct (create_field s m f w) as [s1 c] eqn:Ec. cbn in Hc, Hk. subst c.
  destruct (run_creates_fixed r s1 m f w Hk) as [H1 H2].
  destruct (run_creates s1 m f r) as [s2 cs] eqn:Er. cbn in *. split; [exact H1|]. subst cs. split.
  - cbn. rewrite map_length. reflexivity.
  - intros t c [E|Hin].
    + inversion E; subst. split; [intros _; left; reflexivity | congruence].
    + clear -Hin. induction r as [|t0 r IH]; cbn in Hin; [contradiction|]. destruct Hin as [E|Hin]; [|apply IH; exact Hin].
      inversion E; subst. split; intro Hx.
      * subst. rewrite N.eqb_refl. right; reflexivity.
      * destruct (N.eqb w t) eqn:Et; [apply N.eqb_eq in Et; congruence | reflexivity].
Qed.
