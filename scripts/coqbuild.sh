#!/bin/bash
# (Re)generate _CoqProject from the files present and run a full .vo build (never -vos/-vok).
# usage: coqbuild.sh [make-target...]   (default: all)
set -e
# serialise builds of the shared tree (re-exec under the lock once); never wrap this script in flock
if [ -z "$COQBUILD_LOCKED" ]; then mkdir -p /verif/build; export COQBUILD_LOCKED=1; exec flock /verif/build/coqbuild.lock "$0" "$@"; fi
ulimit -v ${COQ_MEM_KB:-16000000} 2>/dev/null || true   # a runaway proof must not take the machine down
cd /verif/coq
mkdir -p Gen
regen() {
  { cat _CoqProject.head; find Base Gen Model Proofs Props -name '*.v' 2>/dev/null | sort; } > _CoqProject.new.$$
  if ! cmp -s _CoqProject.new.$$ _CoqProject 2>/dev/null || [ ! -f Makefile ]; then mv _CoqProject.new.$$ _CoqProject; coq_makefile -f _CoqProject -o Makefile >/dev/null; rm -f .Makefile.d; else rm -f _CoqProject.new.$$; fi
}
regen
timeout ${COQ_TIMEOUT:-1800} make -j${COQ_JOBS:-16} "$@" && exit 0
# one retry: a file that appeared/disappeared during the first dependency scan, or a freshly generated directory
rm -f .Makefile.d; regen
exec timeout ${COQ_TIMEOUT:-1800} make -j${COQ_JOBS:-16} "$@"
