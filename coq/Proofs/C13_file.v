(** C13 — the series file (partitions selected by a hash of the key): invariant over all
    crash-free histories and the file-level property lemmas. *)
From Verif Require Import Base.Prelude Model.C13 Proofs.C13_bytes Proofs.C13_inv.
From Coq Require Import ZifyBool ZifyNat ZifyN.
Ltac Zify.zify_post_hook ::= Z.div_mod_to_equations.
Open Scope N_scope.

Lemma upd_same s p st : upd s p st p = st.
Proof. unfold upd. now rewrite N.eqb_refl. Qed.
Lemma upd_other s p st q : q <> p -> upd s p st q = s q.
Proof. intro H. unfold upd. destruct (q =? p) eqn:E; [apply N.eqb_eq in E; contradiction | reflexivity]. Qed.

(** ids ever issued by one of the 8 partitions of the file (deleted ones included) *)
Definition f_issued (s : fstate) (id : N) : Prop := exists p, p < 8 /\ In id (issued (s p)).
Definition FInv (s : fstate) : Prop := forall p, PInv p (s p).

Lemma create1_seq st k : seq st <= seq (fst (create1 st k)) <= seq st + 8.
Proof. unfold create1. destruct (negb (find_id (ix st) k =? 0)); cbn; lia. Qed.

Section File.
Variable hashp : key -> N.                   (* xxhash.Sum64(key) % SeriesFilePartitionN *)
Hypothesis hashp_lt : forall k, hashp k < 8.

Definition kp (k : key) : N * key := (hashp k, k).
Definition key_ok (pk : N * key) : Prop := fst pk = hashp (snd pk) /\ framed (snd pk).

(** Crash-free operations on well-formed keys routed by the hash. *)
Definition op_ok (o : op) : Prop :=
  match o with
  | OCreate ks => Forall key_ok ks
  | ODelete _ | OReopen | OCompact => True
  | OCrashCreate _ _ _ | OCrashDelete _ _ => False
  end.
Definition op_size (o : op) : N := match o with OCreate ks => N.of_nat (length ks) | _ => 0 end.
(** No partition's id sequence overflows uint64 during the operation. *)
Definition bounded (s : fstate) (o : op) : Prop := forall p, p < 8 -> seq (s p) + 8 * op_size o < 2 ^ 64.

Inductive reach : fstate -> Prop :=
| reach_init : reach init_file
| reach_step s o : reach s -> op_ok o -> bounded s o -> reach (fst (step s o)).

Lemma create_list_cons s p k r :
  create_list s ((p, k) :: r) =
  (fst (create_list (upd s p (fst (create1 (s p) k))) r),
   snd (create1 (s p) k) :: snd (create_list (upd s p (fst (create1 (s p) k))) r)).
Proof.
  cbn [create_list]. destruct (create1 (s p) k) as [st id]. cbn [fst snd].
  destruct (create_list (upd s p st) r). reflexivity.
Qed.

Lemma create_list_props ks : forall s, FInv s ->
  (forall p, p < 8 -> seq (s p) + 8 * N.of_nat (length ks) < 2 ^ 64) -> Forall key_ok ks ->
  FInv (fst (create_list s ks)) /\
  (forall k0 id0, id0 <> 0 -> f_find s (kp k0) = id0 -> f_find (fst (create_list s ks)) (kp k0) = id0) /\
  (forall id, f_issued s id -> f_issued (fst (create_list s ks)) id).
Proof.
  induction ks as [|[p k] r IH]; intros s I Hb Hok; [cbn; auto|].
  inversion Hok as [|? ? [Hp Hf] Hok']; subst. cbn [fst snd] in Hp, Hf.
  assert (Hp8 : p < 8) by (rewrite Hp; apply hashp_lt).
  rewrite create_list_cons. cbn [fst].
  set (st := fst (create1 (s p) k)). set (s1 := upd s p st).
  assert (I1 : FInv s1).
  { intro q. unfold s1. destruct (N.eq_dec q p) as [->|Hq].
    - rewrite upd_same. apply create1_inv; auto. specialize (Hb p Hp8). cbn [length] in Hb. lia.
    - rewrite upd_other by assumption. apply I. }
  assert (Hb1 : forall q, q < 8 -> seq (s1 q) + 8 * N.of_nat (length r) < 2 ^ 64).
  { intros q Hq8. unfold s1. destruct (N.eq_dec q p) as [->|Hq].
    - rewrite upd_same. pose proof (create1_seq (s p) k). specialize (Hb p Hp8). cbn [length] in Hb. fold st in H. lia.
    - rewrite upd_other by assumption. specialize (Hb q Hq8). cbn [length] in Hb. lia. }
  destruct (IH s1 I1 Hb1 Hok') as (IA & IB & IC). split; [assumption|]. split.
  - intros k0 id0 Hnz H0. apply IB; [assumption|]. unfold f_find, kp, s1 in *. cbn [fst snd] in *.
    destruct (N.eq_dec (hashp k0) p) as [E|E].
    + rewrite E, upd_same. rewrite E in H0. eapply create1_stable; eauto.
    + now rewrite upd_other.
  - intros id [q [Hq8 Hq]]. apply IC. exists q. split; [assumption|]. unfold s1.
    destruct (N.eq_dec q p) as [->|E].
    + rewrite upd_same. now apply create1_issued_mono.
    + now rewrite upd_other.
Qed.

Lemma step_inv s o : FInv s -> op_ok o -> bounded s o -> FInv (fst (step s o)).
Proof.
  intros I Hok Hb. destruct o as [ks|id| | |? ? ?|? ?]; cbn [step fst]; try contradiction.
  - apply create_list_props; auto.
  - intro q. destruct (N.eq_dec q (id_part id)) as [->|E].
    + rewrite upd_same. apply delete1_inv; auto.
      assert (H8 : id_part id < 8) by (unfold id_part, PARTN; destruct (id =? 0); lia).
      specialize (Hb _ H8). cbn in Hb. lia.
    + now rewrite upd_other.
  - intro q. now rewrite (reopen_id _ _ (I q)).
  - intro q. now rewrite (compact_id _ _ (I q)).
Qed.

Lemma reach_inv s : reach s -> FInv s.
Proof. induction 1; [intro p; apply init_inv | now apply step_inv]. Qed.

(** *** Stability *)
Lemma step_stable s o k id : FInv s -> op_ok o -> bounded s o ->
  f_find s (kp k) = id -> id <> 0 -> o <> ODelete id ->
  f_find (fst (step s o)) (kp k) = id.
Proof.
  intros I Hok Hb H Hnz Hne. destruct o as [ks|id'| | |? ? ?|? ?]; cbn [step fst]; try contradiction.
  - now apply create_list_props.
  - unfold f_find, kp in *. cbn [fst snd] in *.
    destruct (N.eq_dec (hashp k) (id_part id')) as [E|E].
    + rewrite E, upd_same, delete1_find. rewrite <- E, H.
      destruct (id =? id') eqn:E2; [apply N.eqb_eq in E2; congruence | reflexivity].
    + now rewrite upd_other.
  - unfold f_find. now rewrite (reopen_id _ _ (I _)).
  - unfold f_find. now rewrite (compact_id _ _ (I _)).
Qed.

Lemma find_part s k id : FInv s -> f_find s (kp k) = id -> id <> 0 -> id_part id = hashp k.
Proof.
  intros I H Hnz. unfold f_find, kp in H. cbn [fst snd] in H.
  pose proof (find_id_issued _ _ _ H Hnz) as Hin.
  destruct (issued_lt _ _ _ (I (hashp k)) Hin) as [_ Hc].
  now apply cls_part.
Qed.

Lemma step_delete s k id : FInv s -> f_find s (kp k) = id -> id <> 0 ->
  f_find (fst (step s (ODelete id))) (kp k) = 0.
Proof.
  intros I H Hnz. cbn [step fst]. rewrite (find_part _ _ _ I H Hnz).
  unfold f_find, kp in *. cbn [fst snd] in *. rewrite upd_same, delete1_find, H, N.eqb_refl. reflexivity.
Qed.

(** *** Injectivity *)
Lemma file_inj s k1 k2 id : FInv s ->
  f_find s (kp k1) = id -> f_find s (kp k2) = id -> id <> 0 -> k1 = k2.
Proof.
  intros I H1 H2 Hnz.
  pose proof (find_part _ _ _ I H1 Hnz) as P1. pose proof (find_part _ _ _ I H2 Hnz) as P2.
  unfold f_find, kp in *. cbn [fst snd] in *. rewrite <- P2, P1 in H2 at 1.
  eapply find_id_inj; eauto.
Qed.

(** *** No reuse *)
Lemma step_issued_mono s o id : FInv s -> op_ok o -> bounded s o ->
  f_issued s id -> f_issued (fst (step s o)) id.
Proof.
  intros I Hok Hb H. destruct o as [ks|id'| | |? ? ?|? ?]; cbn [step fst]; try contradiction.
  - now apply create_list_props.
  - destruct H as [q [Hq8 Hq]]. exists q. split; [assumption|]. destruct (N.eq_dec q (id_part id')) as [->|E].
    + now rewrite upd_same, delete1_issued.
    + now rewrite upd_other.
  - destruct H as [q [Hq8 Hq]]. exists q. split; [assumption|]. now rewrite (reopen_id _ _ (I q)).
  - destruct H as [q [Hq8 Hq]]. exists q. split; [assumption|]. now rewrite (compact_id _ _ (I q)).
Qed.

Lemma find_issued s k id : f_find s (kp k) = id -> id <> 0 -> f_issued s id.
Proof. intros H Hnz. exists (hashp k). split; [apply hashp_lt|]. eapply find_id_issued; eauto. Qed.

Lemma create_single s k : step s (OCreate [kp k]) =
  (upd s (hashp k) (fst (create1 (s (hashp k)) k)), [snd (create1 (s (hashp k)) k)]).
Proof. cbn [step]. unfold kp. rewrite create_list_cons. reflexivity. Qed.

Lemma create_fresh s k : FInv s -> framed k -> f_find s (kp k) = 0 ->
  exists id, snd (step s (OCreate [kp k])) = [id] /\ id <> 0 /\ ~ f_issued s id /\
             f_find (fst (step s (OCreate [kp k]))) (kp k) = id.
Proof.
  intros I Hf H0. rewrite create_single. cbn [fst snd].
  unfold f_find, kp in H0. cbn [fst snd] in H0.
  destruct (create1_fresh _ _ _ (I (hashp k)) Hf H0) as (Hr & Hni & Hc).
  exists (seq (s (hashp k))). rewrite Hr. split; [reflexivity|].
  destruct (cls_part _ _ (hashp_lt k) Hc) as [Hnz Hp]. split; [assumption|]. split.
  - intros [q [Hq8 Hq]]. destruct (N.eq_dec q (hashp k)) as [->|E]; [contradiction|].
    destruct (issued_lt _ _ _ (I q) Hq) as [_ Hcq].
    destruct Hc as [j Hj]. destruct Hcq as [j' Hj']. pose proof (hashp_lt k). lia.
  - unfold f_find, kp. cbn [fst snd]. rewrite upd_same.
    pose proof (create1_result _ _ _ (I (hashp k)) Hf) as R.
    destruct (create1 (s (hashp k)) k) as [st' id']. cbn [fst snd] in *. destruct R as [R _].
    now rewrite R, Hr.
Qed.

(** *** Keys *)
Lemma file_key s k id : FInv s -> f_find s (kp k) = id -> id <> 0 ->
  f_key s id = k /\ f_deleted s id = false.
Proof.
  intros I H Hnz. unfold f_key, f_deleted. rewrite (find_part _ _ _ I H Hnz).
  unfold f_find, kp in H. cbn [fst snd] in H. split.
  - eapply key_of_live; eauto.
  - now destruct (find_id_spec _ _ _ H Hnz).
Qed.

End File.
