(** C02 — Acknowledged writes and deletes survive a crash at any point.

    Two layers.
    (A) WAL segment framing at byte level (wal.go: WALSegmentWriter.Write / WALSegmentReader.Next
        and CacheLoader.Load): record = type(1) | len(4, big endian) | payload(len); the reader
        stops at the first short or undecodable record and the loader truncates there.
    (B) The engine of Model/C01.v extended with its WAL (closed segments + the open segment)
        and the three durable sub-steps of a snapshot commit (writeSnapshotAndCommit):
        FileStore.Replace  ->  Cache.ClearSnapshot(true)  ->  WAL.Remove(closed segments).
        [recover] is what Engine.Open does after a crash: keep the TSM files (with their
        tombstones), replay every WAL entry still on disk into an empty cache.
    (C) The hole left by a torn tail (finding "torn-wal-tail-hole-loses-later-writes"):
        Engine.Open runs WAL.Open BEFORE reloadCache.  WAL.Open re-opens the last segment
        (os.O_RDWR, no O_APPEND), Seek(0, SeekEnd) and size := stat.Size(); only afterwards
        CacheLoader.Load reaches the torn record and f.Truncate(r.Count())s the file to the end
        of the last good record.  The writer's file offset stays at the OLD end, so the next
        append lands beyond the new end of file and the gap reads as zero bytes.  On the next
        replay WALSegmentReader.Next reads type byte 0 at the truncation point (a short read,
        snappy.DecodedLen of an empty block or "unknown wal entry type"): the loader stops
        there and truncates again — every entry appended after the hole is unreachable.
        The hole exists iff the torn record left >= 1 byte; the segment is re-used for appends
        iff its size (before truncation) is <= WAL.SegmentSize (10 MiB; rollSegment), and until
        it is closed (CloseSegment at the start of the next snapshot: size > 0).  A restart
        with nothing appended after the hole removes it (file size = truncation point); a
        restart with entries after the hole re-creates it (seek to the old end, truncate).
        [hole d = Some g]: the open segment has a hole followed by the entries [g]. *)
From Verif Require Import Base.Prelude Model.C01.

(** * (A) WAL framing *)
Definition be32 (n : N) : list N :=
  [ (n / 16777216) mod 256; (n / 65536) mod 256; (n / 256) mod 256; n mod 256 ]%N.

Definition rd32 (b3 b2 b1 b0 : N) : N := (((b3 * 256 + b2) * 256 + b1) * 256 + b0)%N.

Definition rec := (N * list N)%type.              (* entry type byte, compressed payload *)

Definition frame (r : rec) : list N := fst r :: be32 (N.of_nat (length (snd r))) ++ snd r.
Definition frames (rs : list rec) : list N := flat_map frame rs.

Section Wal.
  (** [decodable]: snappy.Decode + UnmarshalBinary succeed and the type byte is known. *)
  Variable decodable : rec -> bool.

  (** Returns the records read and the number of bytes of the good prefix (the offset the
      loader truncates the segment to). *)
  Fixpoint wal_parse (fuel : nat) (b : list N) : list rec * nat :=
    match fuel with
    | O => ([], 0)
    | S fuel' =>
        match b with
        | ty :: b3 :: b2 :: b1 :: b0 :: rest =>
            let len := N.to_nat (rd32 b3 b2 b1 b0) in
            if Nat.leb len (length rest) then
              let r := (ty, firstn len rest) in
              if decodable r then
                let (rs, n) := wal_parse fuel' (skipn len rest) in (r :: rs, 5 + len + n)
              else ([], 0)
            else ([], 0)
        | _ => ([], 0)
        end
    end.

  Definition wal_read (b : list N) : list rec * nat := wal_parse (S (length b)) b.
End Wal.

(** * (B) Engine + WAL + crash/recovery *)
Inductive wentry := WWrite (b : log) | WDelete (ks : list key) (lo hi : Z).

Fixpoint replay_from (B : log) (es : list wentry) : log :=
  match es with
  | [] => B
  | WWrite b :: r => replay_from (B ++ b) r
  | WDelete ks lo hi :: r => replay_from (log_delete B ks lo hi) r
  end.

(** phase of the snapshot commit: 0 idle, 1 snapshot taken (Cache.Snapshot done),
    2 new TSM file installed (Replace done), 3 snapshot cleared (WAL segments not yet removed) *)
Record dstate := { mem : state; closed : list wentry; opn : list wentry; phase : N;
                   hole : option (list wentry) }.

Definition dinit : dstate := {| mem := init; closed := []; opn := []; phase := 0; hole := None |}.

(** the entries behind the hole of the open segment (on disk, unreachable for replay) *)
Definition gh (d : dstate) : list wentry := match hole d with Some g => g | None => [] end.

(** WALSegmentWriter.Write at the writer's file offset: behind the hole if there is one *)
Definition wal_append (d : dstate) (e : wentry) : list wentry * option (list wentry) :=
  match hole d with
  | None => (opn d ++ [e], None)
  | Some g => (opn d, Some (g ++ [e]))
  end.

Inductive dop :=
| DWrite (b : log)
| DDelete (ks : list key) (lo hi : Z)
| DSnapBegin | DCommitReplace | DCommitClear | DCommitWalRemove | DSnapFail
| DCompact (i n : nat)
| DCrash                        (* crash + reopen: [recover] *)
| DCrashTorn.                   (* crash while the WAL record of an in-flight (unacknowledged) write
                                   was torn after >= 1 byte, + reopen: [recover_torn].  The in-flight
                                   write itself is not part of the history. *)

Definition has_key (l : log) (k : key) : bool := existsb (fun e => N.eqb (fst (fst e)) k) l.

Definition recover (d : dstate) : dstate :=
  {| mem := {| hot := replay_from [] (closed d ++ opn d); snap := []; snapshotting := false;
               files := files (mem d) |};
     closed := closed d ++ opn d; opn := []; phase := 0;
     (* the loader truncates at the hole; WAL.Open had already seeked to the old end: a hole
        followed by entries is re-created (empty again), a hole followed by nothing is gone *)
     hole := match hole d with Some (_ :: _) => Some [] | _ => None end |}.

(** recovery from an image whose last segment ends in a torn record: as [recover], but the
    writer is left positioned beyond the truncation point *)
Definition recover_torn (d : dstate) : dstate :=
  let r := recover d in
  {| mem := mem r; closed := closed r; opn := opn r; phase := phase r; hole := Some [] |}.

Definition with_mem (d : dstate) (s : state) : dstate :=
  {| mem := s; closed := closed d; opn := opn d; phase := phase d; hole := hole d |}.

Definition dstep (d : dstate) (o : dop) : dstate * bool :=
  let s := mem d in
  match o with
  | DWrite b =>
      let (o', h') := wal_append d (WWrite b) in
      ({| mem := fst (step s (Write b)); closed := closed d; opn := o'; phase := phase d; hole := h' |}, true)
  | DDelete ks lo hi =>
      (* the WAL entry lists only the keys found in the HOT store (deleteKeys) *)
      let dk := filter (has_key (hot s)) ks in
      (* WAL.DeleteRange returns without writing anything when no key is listed *)
      let (o', h') := match dk with [] => (opn d, hole d) | _ :: _ => wal_append d (WDelete dk lo hi) end in
      ({| mem := fst (step s (Delete ks lo hi)); closed := closed d;
          opn := o'; phase := phase d; hole := h' |}, true)
  | DSnapBegin =>
      (* WAL.CloseSegment happens before Cache.Snapshot(), whether or not the latter succeeds;
         it ends the holed segment: later appends go to a fresh file and are replayable, the
         entries behind the hole stay unreachable (they are dropped here) *)
      if N.eqb (phase d) 0 then
        let (s', ok) := step s SnapBegin in
        ({| mem := s'; closed := closed d ++ opn d; opn := []; phase := if ok then 1 else 0; hole := None |}, ok)
      else ({| mem := s; closed := closed d ++ opn d; opn := []; phase := phase d; hole := None |}, false)
  | DCommitReplace =>
      if N.eqb (phase d) 1 then
        match snap s with
        | [] => (* empty snapshot: ClearSnapshot(true) and return; closed segments stay *)
            ({| mem := {| hot := hot s; snap := []; snapshotting := false; files := files s |};
                closed := closed d; opn := opn d; phase := 0; hole := hole d |}, true)
        | _ :: _ =>
            ({| mem := {| hot := hot s; snap := snap s; snapshotting := true;
                          files := files s ++ [ {| fpts := snap s; ftomb := [] |} ] |};
                closed := closed d; opn := opn d; phase := 2; hole := hole d |}, true)
        end
      else (d, false)
  | DCommitClear =>
      if N.eqb (phase d) 2 then
        ({| mem := {| hot := hot s; snap := []; snapshotting := false; files := files s |};
            closed := closed d; opn := opn d; phase := 3; hole := hole d |}, true)
      else (d, false)
  | DCommitWalRemove =>
      if N.eqb (phase d) 3 then
        ({| mem := s; closed := []; opn := opn d; phase := 0; hole := hole d |}, true)
      else (d, false)
  | DSnapFail =>
      if N.eqb (phase d) 1 then
        ({| mem := fst (step s SnapFail); closed := closed d; opn := opn d; phase := 0; hole := hole d |}, true)
      else (d, false)
  | DCompact i n =>
      let (s', ok) := step s (Compact i n) in (with_mem d s', ok)
  | DCrash => (recover d, true)
  | DCrashTorn => (recover_torn d, true)
  end.

Definition drun (h : list dop) (d : dstate) : dstate := fold_left (fun d o => fst (dstep d o)) h d.

(** The oracle: acknowledged writes and deletes only (crashes, snapshots, compactions ignored). *)
Fixpoint dspec_log (h : list dop) (acc : log) : log :=
  match h with
  | [] => acc
  | DWrite b :: r => dspec_log r (acc ++ b)
  | DDelete ks lo hi :: r => dspec_log r (log_delete acc ks lo hi)
  | _ :: r => dspec_log r acc
  end.

(** ** Correspondence cases *)
Inductive dcstep :=
| DOp (o : dop) (ok : bool)
| DRead (k : key) (lo hi : Z) (asc : bool) (res : list (Z * Z))
  (** a crash image taken here (directory copy, reopened by a second engine): the full
      ascending read of keys 0,1,2,... in order; the running engine is NOT affected *)
| DImage (res : list (list (Z * Z)))
  (** crash images with the WAL record of the last (write) operation torn at several byte
      offsets: each must read like the state BEFORE that operation *)
| DTorn (imgs : list (list (list (Z * Z))))
  (** a crash image that LIVES ON: the image (plain: taken here; torn: the WAL record of the
      last operation cut after >= 1 byte) is reopened by a second engine, which performs the
      acknowledged operations [ops] (with their observed success flags), is crashed again
      (second directory copy) and a third engine reads every key.  The running engine is NOT
      affected. *)
| DBranch (torn : bool) (ops : list (dop * bool)) (res : list (list (Z * Z))).

Definition dcase := list dcstep.

Definition full_lo : Z := (-9223372036854775806)%Z.
Definition full_hi : Z := 9223372036854775806%Z.

Fixpoint keys_upto (n : nat) (k : N) : list N :=
  match n with O => [] | S n' => k :: keys_upto n' (N.succ k) end.

Definition zzs_eqb := list_eqb zz_eqb.

Definition all_reads (s : state) (n : nat) : list (list (Z * Z)) :=
  map (fun k => read s k full_lo full_hi true) (keys_upto n 0%N).
Definition all_spec (l : log) (n : nat) : list (list (Z * Z)) :=
  map (fun k => spec_read l k full_lo full_hi true) (keys_upto n 0%N).

Fixpoint drun_ok (ops : list (dop * bool)) (d : dstate) (same : bool) : dstate * bool :=
  match ops with
  | [] => (d, same)
  | (o, b) :: r => let (d', b') := dstep d o in drun_ok r d' (same && Bool.eqb b b')
  end.

Fixpoint dcheck_steps (c : list dcstep) (d prev : dstate) (h hprev : list dop) (same ok : bool) : bool * bool :=
  match c with
  | [] => (same, ok)
  | DOp o b :: r =>
      let (d', b') := dstep d o in
      dcheck_steps r d' d (h ++ [o]) h (same && Bool.eqb b b') ok
  | DRead k lo hi asc res :: r =>
      dcheck_steps r d prev h hprev
        (same && zz_eqb res (read (mem d) k lo hi asc))
        (ok && zz_eqb res (spec_read (dspec_log h []) k lo hi asc))
  | DImage res :: r =>
      dcheck_steps r d prev h hprev
        (same && zzs_eqb res (all_reads (mem (recover d)) (length res)))
        (ok && zzs_eqb res (all_spec (dspec_log h []) (length res)))
  | DTorn imgs :: r =>
      (* the in-flight (unacknowledged) operation is the last one; a torn record = not applied *)
      let n := match imgs with [] => O | i :: _ => length i end in
      let m := all_reads (mem (recover prev)) n in
      let sp := all_spec (dspec_log hprev []) n in
      dcheck_steps r d prev h hprev
        (same && forallb (fun res => zzs_eqb res m) imgs)
        (ok && forallb (fun res => zzs_eqb res sp) imgs)
  | DBranch torn ops res :: r =>
      let d0 := if torn then recover_torn prev else recover d in
      let h0 := if torn then hprev else h in
      let (d1, sm) := drun_ok ops d0 true in
      dcheck_steps r d prev h hprev
        (same && sm && zzs_eqb res (all_reads (mem (recover d1)) (length res)))
        (ok && zzs_eqb res (all_spec (dspec_log (h0 ++ map fst ops) []) (length res)))
  end.

Definition check (c : dcase) : verdict :=
  let (same, ok) := dcheck_steps c dinit dinit [] [] true true in judge same ok.
