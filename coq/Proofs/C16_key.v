(** C16 — Part 3/4: the bytes of keys built by [make_key], the two pop-tag variants on them,
    and the main theorem [matches p (make_key name env) = holds p env]. *)
From Verif Require Import Base.Prelude Model.C16 Proofs.C16.
Local Open Scope N_scope.

(** * Escaping as a per-byte map *)
Definition escf (sp : N -> bool) (s : bytes) : bytes :=
  flat_map (fun c => if sp c then [BSL; c] else [c]) s.
Definition spm (c : N) : bool := (c =? COMMA) || (c =? SP).

Lemma esc_tag_cons x t : esc_tag (x :: t) = (if special x then [BSL; x] else [x]) ++ esc_tag t.
Proof.
  unfold esc_tag, special. cbn [ins_bsl].
  destruct (x =? COMMA) eqn:E1.
  - apply N.eqb_eq in E1. subst. reflexivity.
  - cbn [ins_bsl]. destruct (x =? SP) eqn:E2.
    + apply N.eqb_eq in E2. subst. reflexivity.
    + cbn [ins_bsl]. destruct (x =? EQ) eqn:E3; reflexivity.
Qed.

Lemma esc_tag_escf s : esc_tag s = escf special s.
Proof.
  induction s as [|x t IH]; [reflexivity|].
  rewrite esc_tag_cons, IH. reflexivity.
Qed.

Lemma esc_meas_cons x t : esc_meas (x :: t) = (if spm x then [BSL; x] else [x]) ++ esc_meas t.
Proof.
  unfold esc_meas, spm. cbn [ins_bsl].
  destruct (x =? COMMA) eqn:E1.
  - apply N.eqb_eq in E1. subst. reflexivity.
  - cbn [ins_bsl]. destruct (x =? SP) eqn:E2; reflexivity.
Qed.

Lemma esc_meas_escf s : esc_meas s = escf spm s.
Proof.
  induction s as [|x t IH]; [reflexivity|].
  rewrite esc_meas_cons, IH. reflexivity.
Qed.

Lemma special_bsl : special BSL = false. Proof. reflexivity. Qed.
Lemma spm_bsl : spm BSL = false. Proof. reflexivity. Qed.

Lemma escf_cons sp x t : escf sp (x :: t) = (if sp x then [BSL; x] else [x]) ++ escf sp t.
Proof. reflexivity. Qed.

Lemma escf_app sp a b : escf sp (a ++ b) = escf sp a ++ escf sp b.
Proof. unfold escf. apply flat_map_app. Qed.

Lemma escf_nil sp s : escf sp s = [] -> s = [].
Proof. destruct s as [|x t]; auto. rewrite escf_cons. destruct (sp x); discriminate. Qed.

(** * ends_bsl *)
Lemma ends_bsl_cons x t : t <> [] -> ends_bsl (x :: t) = ends_bsl t.
Proof. destruct t; [congruence | reflexivity]. Qed.

Lemma ends_bsl_app a b : b <> [] -> ends_bsl (a ++ b) = ends_bsl b.
Proof.
  intros Hb. induction a as [|x a IH]; [reflexivity|].
  simpl app. rewrite ends_bsl_cons; auto.
  destruct a; simpl; [auto | discriminate].
Qed.

Lemma ends_bsl_escf sp s : ends_bsl (escf sp s) = ends_bsl s.
Proof.
  induction s as [|x t _] using rev_ind; [reflexivity|].
  rewrite escf_app. rewrite !ends_bsl_app; try discriminate.
  - rewrite escf_cons. simpl. destruct (sp x); reflexivity.
  - rewrite escf_cons. destruct (sp x); discriminate.
Qed.

Definition lastb (pb : bool) (s : bytes) : bool := match s with [] => pb | _ => ends_bsl s end.

Lemma lastb_escf sp s : lastb false (escf sp s) = ends_bsl s.
Proof.
  destruct s as [|x t]; [reflexivity|].
  unfold lastb. destruct (escf sp (x :: t)) eqn:E.
  - apply escf_nil in E. discriminate.
  - rewrite <- E. apply ends_bsl_escf.
Qed.

(** * cut_esc *)
Lemma cut_esc_app c : forall s1 pb s2, cut_esc c pb s1 = None ->
  cut_esc c pb (s1 ++ s2) =
  match cut_esc c (lastb pb s1) s2 with Some (a, b) => Some (s1 ++ a, b) | None => None end.
Proof.
  induction s1 as [|x t IH]; intros pb s2 H.
  - simpl. destruct (cut_esc c pb s2) as [[a b]|]; reflexivity.
  - simpl in H. simpl app. cbn [cut_esc].
    destruct ((x =? c) && negb pb); [discriminate|].
    destruct (cut_esc c (x =? BSL) t) as [[a b]|] eqn:E; [discriminate|].
    rewrite (IH _ s2 E).
    replace (lastb pb (x :: t)) with (lastb (x =? BSL) t) by (destruct t; reflexivity).
    destruct (cut_esc c (lastb (x =? BSL) t) s2) as [[a b]|]; reflexivity.
Qed.

Lemma cut_esc_escf_none sp c : sp BSL = false -> sp c = true ->
  forall s pb, cut_esc c pb (escf sp s) = None.
Proof.
  intros Hb Hc. induction s as [|x t IH]; intros pb; [reflexivity|].
  rewrite escf_cons. destruct (sp x) eqn:Ex.
  - assert (E1 : (BSL =? c) = false).
    { apply N.eqb_neq. intros E. rewrite <- E in Hc. congruence. }
    simpl app. cbn [cut_esc]. rewrite E1. simpl andb. rewrite ?N.eqb_refl.
    rewrite andb_false_r. rewrite IH. reflexivity.
  - assert (E1 : (x =? c) = false).
    { apply N.eqb_neq. intros E. subst. congruence. }
    simpl app. cbn [cut_esc]. rewrite E1. simpl andb. rewrite IH. reflexivity.
Qed.

Lemma cut_esc_notin c : forall s pb, ~ In c s -> cut_esc c pb s = None.
Proof.
  induction s as [|x t IH]; intros pb H; [reflexivity|].
  cbn [cut_esc]. assert (E : (x =? c) = false).
  { apply N.eqb_neq. intros E. subst. apply H. simpl; auto. }
  rewrite E. simpl andb. rewrite IH; auto. intros Hin. apply H. simpl; auto.
Qed.

(** * unesc *)
Lemma unesc_escf s : unesc (escf special s) = s.
Proof.
  induction s as [|x t IH]; [reflexivity|].
  rewrite escf_cons. destruct (special x) eqn:Ex.
  - simpl app. cbn [unesc]. rewrite N.eqb_refl, Ex. simpl andb. cbv iota.
    assert (E : (x =? BSL) = false).
    { apply N.eqb_neq. intros E. subst. discriminate. }
    cbn [unesc]. rewrite E. simpl andb. cbv iota. rewrite IH. reflexivity.
  - simpl app. cbn [unesc].
    assert (H : (match escf special t with n :: _ => special n | [] => false end) = false).
    { destruct t as [|y t']; [reflexivity|]. rewrite escf_cons.
      destruct (special y) eqn:Ey; simpl; auto. }
    rewrite H. rewrite andb_false_r. rewrite IH. reflexivity.
Qed.

(** * no backslash: escaping is the identity and there are no special bytes *)
Lemma has_bsl_app a b : has_bsl (a ++ b) = has_bsl a || has_bsl b.
Proof. unfold has_bsl. apply existsb_app. Qed.

Lemma has_bsl_escf sp s : has_bsl (escf sp s) = false ->
  escf sp s = s /\ forall c, In c s -> sp c = false.
Proof.
  induction s as [|x t IH]; intros H.
  - split; [reflexivity | intros c []].
  - rewrite escf_cons in H. rewrite has_bsl_app in H. apply orb_false_iff in H as [H1 H2].
    destruct (IH H2) as [I1 I2].
    destruct (sp x) eqn:Ex.
    + simpl in H1. discriminate.
    + split.
      * rewrite escf_cons, Ex, I1. reflexivity.
      * intros c [->|Hc]; auto.
Qed.

Lemma cut_notin c : forall s, ~ In c s -> cut c s = (s, None).
Proof.
  induction s as [|x t IH]; intros H; [reflexivity|].
  cbn [cut]. assert (E : (x =? c) = false).
  { apply N.eqb_neq. intros E. subst. apply H. simpl; auto. }
  rewrite E, IH; auto. intros Hin. apply H. simpl; auto.
Qed.

Lemma cut_found c : forall s rest, ~ In c s -> cut c (s ++ c :: rest) = (s, Some rest).
Proof.
  induction s as [|x t IH]; intros rest H.
  - simpl. rewrite N.eqb_refl. reflexivity.
  - simpl app. cbn [cut]. assert (E : (x =? c) = false).
    { apply N.eqb_neq. intros E. subst. apply H. simpl; auto. }
    rewrite E, IH; auto. intros Hin. apply H. simpl; auto.
Qed.

(** * the measurement segment *)
Lemma In_ins_bsl x c : forall s, In x (ins_bsl c s) -> x = BSL \/ In x s.
Proof.
  induction s as [|y t IH]; simpl; auto.
  destruct (y =? c); simpl; intros H.
  - destruct H as [H|[H|H]]; auto. destruct (IH H); auto.
  - destruct H as [H|H]; auto. destruct (IH H); auto.
Qed.

Lemma list_ind2 {A} (P : list A -> Prop) :
  P [] -> (forall x, P [x]) -> (forall x y t, P t -> P (y :: t) -> P (x :: y :: t)) ->
  forall l, P l.
Proof.
  intros H0 H1 H2 l.
  assert (H : P l /\ forall x, P (x :: l)).
  { induction l as [|y t [IH1 IH2]]; split; auto. }
  apply H.
Qed.

Lemma In_del_bsl x c : forall s, In x (del_bsl c s) -> In x s.
Proof.
  induction s as [| y | y z t IH1 IH2] using list_ind2; auto.
  cbn [del_bsl]. destruct ((y =? BSL) && (z =? c)) eqn:E.
  - apply andb_true_iff in E as [_ E2]. apply N.eqb_eq in E2. subst.
    intros [H|H]; simpl; auto.
  - intros [H|H]; [simpl; auto|]. right. apply IH2. exact H.
Qed.

Lemma del_bsl_ends c : c <> BSL -> forall s,
  ends_bsl (del_bsl c s) = ends_bsl s /\ (del_bsl c s = [] -> s = []).
Proof.
  intros Hc. induction s as [| y | y z t IH1 IH2] using list_ind2.
  - split; auto.
  - split; auto.
  - cbn [del_bsl]. destruct ((y =? BSL) && (z =? c)) eqn:E.
    + apply andb_true_iff in E as [E1 E2]. apply N.eqb_eq in E2. subst z.
      destruct IH1 as [I1 I2]. split; [|discriminate].
      rewrite (ends_bsl_cons y (c :: t)); [|discriminate].
      destruct (del_bsl c t) as [|u w] eqn:D.
      * rewrite (I2 eq_refl). reflexivity.
      * rewrite ends_bsl_cons; [|discriminate]. rewrite I1.
        destruct t as [|t0 t1]; [simpl in D; discriminate|].
        symmetry. apply ends_bsl_cons. discriminate.
    + destruct IH2 as [I1 I2]. split; [|discriminate].
      assert (Hne : del_bsl c (z :: t) <> []) by (intros H; apply I2 in H; discriminate).
      rewrite ends_bsl_cons; auto.
Qed.

Definition seg0 (name : bytes) : bytes := esc_meas (unesc_meas name).

Lemma seg0_no_eq name : has_eq name = false -> ~ In EQ (seg0 name).
Proof.
  intros H Hin. unfold seg0, esc_meas, unesc_meas in Hin.
  apply In_ins_bsl in Hin as [Hin|Hin]; [discriminate|].
  apply In_ins_bsl in Hin as [Hin|Hin]; [discriminate|].
  apply In_del_bsl in Hin. apply In_del_bsl in Hin.
  unfold has_eq in H. assert (T : existsb (N.eqb EQ) name = true).
  { apply existsb_exists. exists EQ. split; auto. }
  congruence.
Qed.

Lemma seg0_lastb name : ends_bsl name = false -> lastb false (seg0 name) = false.
Proof.
  intros H. unfold seg0. rewrite esc_meas_escf, lastb_escf. unfold unesc_meas.
  rewrite (proj1 (del_bsl_ends SP ltac:(discriminate) _)).
  rewrite (proj1 (del_bsl_ends COMMA ltac:(discriminate) _)). exact H.
Qed.

(** * the tag part of the key *)
Definition tseg (kv : bytes * bytes) : bytes := esc_tag (fst kv) ++ EQ :: esc_tag (snd kv).
Definition body (env : tagset) : bytes :=
  match env with [] => [] | kv :: r => tseg kv ++ hash_key r end.
Definition goodv (kv : bytes * bytes) : Prop := snd kv <> [].

Lemma hash_key_cons kv r : goodv kv -> hash_key (kv :: r) = COMMA :: body (kv :: r).
Proof.
  destruct kv as [k v]. unfold goodv. simpl. intros H.
  destruct v as [|x v']; [congruence|].
  unfold tseg. simpl fst. simpl snd. rewrite <- app_assoc. reflexivity.
Qed.

Lemma body_shrinks kv r : Forall goodv r -> (length (body r) < length (body (kv :: r)))%nat.
Proof.
  intros Hr. unfold body at 2. unfold tseg. rewrite !app_length. simpl length.
  destruct r as [|kv' r']; [simpl; lia|].
  inversion Hr; subst. rewrite hash_key_cons; auto. simpl length. lia.
Qed.

Definition good_esc (kv : bytes * bytes) : Prop :=
  ends_bsl (fst kv) = false /\ snd kv <> [] /\ ends_bsl (snd kv) = false.

Lemma tseg_cut_comma kv : good_esc kv ->
  cut_esc COMMA false (tseg kv) = None /\ lastb false (tseg kv) = false.
Proof.
  destruct kv as [k v]. intros (Hk & Hv & Hve). simpl in *. unfold tseg. simpl fst; simpl snd.
  rewrite !esc_tag_escf. split.
  - rewrite cut_esc_app by (apply cut_esc_escf_none; reflexivity).
    cbn [cut_esc]. replace (EQ =? COMMA) with false by reflexivity. simpl andb.
    rewrite cut_esc_escf_none; reflexivity.
  - unfold lastb. destruct (escf special k ++ EQ :: escf special v) eqn:E.
    + destruct (escf special k); discriminate.
    + rewrite <- E. rewrite ends_bsl_app by discriminate.
      rewrite ends_bsl_cons.
      * rewrite ends_bsl_escf. exact Hve.
      * intros H. apply escf_nil in H. contradiction.
Qed.

Lemma pop_esc_body kv r : good_esc kv -> Forall goodv r ->
  pop_esc (body (kv :: r)) = (Some (fst kv), Some (snd kv), body r).
Proof.
  intros Hg Hr. destruct (tseg_cut_comma kv Hg) as [C1 C2].
  unfold pop_esc. unfold body at 1.
  assert (Hcut : cut_esc COMMA false (tseg kv ++ hash_key r) =
                 match r with [] => None | _ => Some (tseg kv, body r) end).
  { destruct r as [|kv' r'].
    - simpl hash_key. rewrite app_nil_r. exact C1.
    - inversion Hr; subst. rewrite hash_key_cons; auto.
      rewrite cut_esc_app; auto. rewrite C2. cbn [cut_esc]. rewrite N.eqb_refl. simpl andb. cbv iota.
      rewrite app_nil_r. reflexivity. }
  assert (Heq : cut_esc EQ false (tseg kv) = Some (esc_tag (fst kv), esc_tag (snd kv))).
  { destruct kv as [k v]. destruct Hg as (Hk & Hv & Hve). simpl in *.
    unfold tseg. simpl fst; simpl snd. rewrite !esc_tag_escf.
    rewrite cut_esc_app by (apply cut_esc_escf_none; reflexivity).
    rewrite lastb_escf, Hk. cbn [cut_esc]. rewrite N.eqb_refl. simpl andb. cbv iota.
    rewrite app_nil_r. reflexivity. }
  rewrite Hcut.
  destruct r as [|kv' r'].
  - unfold body. simpl hash_key. rewrite app_nil_r. rewrite Heq. rewrite !esc_tag_escf, !unesc_escf. reflexivity.
  - rewrite Heq. rewrite !esc_tag_escf, !unesc_escf. reflexivity.
Qed.

Lemma In_tseg_plain kv c :
  has_bsl (tseg kv) = false -> special c = true -> In c (tseg kv) -> c = EQ.
Proof.
  destruct kv as [k v]. unfold tseg. simpl fst; simpl snd. rewrite !esc_tag_escf.
  rewrite has_bsl_app. intros H Hc Hin. apply orb_false_iff in H as [H1 H2].
  simpl in H2. destruct (has_bsl_escf _ _ H1) as [E1 N1].
  destruct (has_bsl_escf special v) as [E2 N2]; [exact H2|].
  rewrite E1, E2 in Hin. apply in_app_or in Hin as [Hin|[Hin|Hin]]; auto.
  - rewrite (N1 _ Hin) in Hc. discriminate.
  - rewrite (N2 _ Hin) in Hc. discriminate.
Qed.

Lemma pop_plain_body kv r : has_bsl (body (kv :: r)) = false -> goodv kv -> Forall goodv r ->
  pop_plain (body (kv :: r)) = (Some (fst kv), Some (snd kv), body r).
Proof.
  intros Hb Hv Hr. unfold body in Hb. rewrite has_bsl_app in Hb.
  apply orb_false_iff in Hb as [Hb1 Hb2].
  assert (Hnc : ~ In COMMA (tseg kv)).
  { intros Hin. apply In_tseg_plain in Hin; auto. discriminate. }
  unfold pop_plain. unfold body at 1.
  assert (Hcut : cut COMMA (tseg kv ++ hash_key r) =
                 (tseg kv, match r with [] => None | _ => Some (body r) end)).
  { destruct r as [|kv' r'].
    - simpl hash_key. rewrite app_nil_r. apply cut_notin; auto.
    - inversion Hr; subst. rewrite hash_key_cons; auto. apply cut_found; auto. }
  rewrite Hcut.
  destruct kv as [k v]. unfold tseg in *. simpl fst in *; simpl snd in *.
  rewrite !esc_tag_escf in *. rewrite has_bsl_app in Hb1.
  apply orb_false_iff in Hb1 as [H1 H2]. simpl in H2.
  destruct (has_bsl_escf _ _ H1) as [E1 N1].
  destruct (has_bsl_escf special v) as [E2 N2]; [exact H2|].
  rewrite E1, E2. rewrite cut_found.
  - destruct r; reflexivity.
  - intros Hin. apply N1 in Hin. discriminate.
Qed.

(** * the walk over the tag part equals [feed] *)
Lemma walk_S rm fuel pop p g root key : key <> [] ->
  walk rm (S fuel) pop p g root key =
  let '(tag, value, rest) := pop key in
  match tag with
  | None => walk rm fuel pop p g root rest
  | Some t =>
      if tracked p t then
        let g' := upd g t value in
        let '(r, root') := update rm g' root in
        match r with
        | Some b => b
        | None => walk rm fuel pop p g' root' rest
        end
      else walk rm fuel pop p g root rest
  end.
Proof. destruct key; [congruence | reflexivity]. Qed.

Lemma tseg_nonempty kv r : tseg kv ++ r <> [].
Proof. unfold tseg. destruct (esc_tag (fst kv)); discriminate. Qed.

Section Walk.
Variable rm : N -> bytes -> bool.
Variable pop : bytes -> option bytes * option bytes * bytes.
Variable P : tagset -> Prop.
Hypothesis P_tail : forall kv r, P (kv :: r) -> P r.
Hypothesis P_good : forall kv r, P (kv :: r) -> Forall goodv r.
Hypothesis P_pop : forall kv r, P (kv :: r) ->
  pop (body (kv :: r)) = (Some (fst kv), Some (snd kv), body r).

Lemma walk_body p : forall env g root fuel,
  P env -> (length (body env) < fuel)%nat ->
  walk rm fuel pop p g root (body env) = feed rm p g root env.
Proof.
  induction env as [|kv r IH]; intros g root fuel HP Hf.
  - destruct fuel; reflexivity.
  - destruct fuel as [|fuel]; [lia|].
    rewrite walk_S by (apply tseg_nonempty).
    rewrite (P_pop _ _ HP). destruct kv as [k v]. simpl fst; simpl snd.
    assert (Hlt : (length (body r) < fuel)%nat).
    { pose proof (body_shrinks (k, v) r (P_good _ _ HP)). lia. }
    cbn [feed]. destruct (tracked p k).
    + cbv zeta. destruct (update rm (upd g k (Some v)) root) as [[b|] root'].
      * reflexivity.
      * apply IH; eauto.
    + apply IH; eauto.
Qed.
End Walk.

(** * Main theorem *)
Lemma wf_env_props env : wf_env env = true ->
  NoDup (map fst env) /\ Forall good_esc env.
Proof.
  unfold wf_env. intros H. apply andb_true_iff in H as [H1 H2]. split.
  - clear H2. induction (map fst env) as [|x t IH]; [constructor|].
    simpl in H1. apply andb_true_iff in H1 as [Hx Ht]. constructor; auto.
    intros Hin. apply existsb_bytes_In in Hin. rewrite Hin in Hx. discriminate.
  - apply Forall_forall. intros kv Hin. rewrite forallb_forall in H2.
    specialize (H2 _ Hin). apply andb_true_iff in H2 as [H2 H3].
    apply andb_true_iff in H2 as [H2 H4]. unfold good_esc.
    apply negb_true_iff in H2, H3. repeat split; auto.
    intros E. rewrite E in H4. discriminate.
Qed.

Lemma good_esc_goodv env : Forall good_esc env -> Forall goodv env.
Proof. apply Forall_impl. intros kv (_ & H & _). exact H. Qed.

Lemma cut_sep_id s : has_sep s = false -> cut_sep s = s.
Proof.
  induction s as [|x t IH]; [reflexivity|].
  cbn [has_sep cut_sep]. intros H. apply orb_false_iff in H as [H1 H2].
  rewrite H1, IH; auto.
Qed.

Lemma key_shape name env : Forall goodv env ->
  make_key name env = seg0 name ++ match env with [] => [] | _ => COMMA :: body env end.
Proof.
  intros H. unfold make_key, seg0. f_equal.
  destruct env as [|kv r]; [reflexivity|].
  inversion H; subst. apply hash_key_cons; auto.
Qed.

Section Main.
Variable rm : N -> bytes -> bool.

Lemma tail_correct pop (P : tagset -> Prop) p env g1 root1 fuel :
  (forall kv r, P (kv :: r) -> P r) ->
  (forall kv r, P (kv :: r) -> Forall goodv r) ->
  (forall kv r, P (kv :: r) -> pop (body (kv :: r)) = (Some (fst kv), Some (snd kv), body r)) ->
  P env -> NoDup (map fst env) -> wf_pred p = true ->
  (forall k, g1 k = None) -> cv rm g1 root1 -> erase root1 = p ->
  (length (body env) < fuel)%nat ->
  walk rm fuel pop p g1 root1 (body env) = holds rm p env.
Proof.
  intros Pt Pg Pp HP Hnd Hw Hg Hcv He Hf.
  rewrite (walk_body rm pop P Pt Pg Pp); auto.
  rewrite (feed_correct rm p env g1 root1); auto.
  - rewrite final_mresp. unfold holds.
    replace (eval3 rm (ovr g1 env) p) with (eval3 rm (lookup env) p); [reflexivity|].
    assert (E : mresp rm (lookup env) p = mresp rm (ovr g1 env) p).
    { apply mresp_ext. intros k _. unfold ovr. destruct (lookup env k); auto. }
    clear - Hg. induction p as [op l r | a IHa b IHb | a IHa b IHb]; simpl.
    + apply cmp_val_ext. intros k _. unfold ovr. destruct (lookup env k); auto.
    + rewrite IHa, IHb. reflexivity.
    + rewrite IHa, IHb. reflexivity.
  - apply mresp_none_initial; auto.
Qed.

Theorem matcher_correct p name env :
  wf_pred p = true -> wf_key name env = true ->
  matches rm p (make_key name env) = holds rm p env.
Proof.
  intros Hw Hk. unfold wf_key in Hk.
  apply andb_true_iff in Hk as [Hk Hsep]. apply andb_true_iff in Hk as [Hn He].
  apply negb_true_iff in Hsep.
  unfold wf_name in Hn. apply negb_true_iff in Hn. rename Hn into Hn2.
  destruct (wf_env_props env He) as [Hnd Hge].
  pose proof (good_esc_goodv env Hge) as Hgv.
  unfold matches. rewrite (cut_sep_id _ Hsep).
  set (key := make_key name env).
  assert (Hshape : key = seg0 name ++ match env with [] => [] | _ => COMMA :: body env end)
    by (apply key_shape; auto).
  destruct (has_bsl key) eqn:Hbsl.
  - (* escaped variant: the measurement segment is popped and dropped *)
    assert (Hpop : snd (pop_esc key) = body env).
    { unfold pop_esc. rewrite Hshape.
      assert (C1 : cut_esc COMMA false (seg0 name) = None).
      { unfold seg0. rewrite esc_meas_escf. apply cut_esc_escf_none; reflexivity. }
      destruct env as [|kv r].
      - rewrite app_nil_r, C1. destruct (cut_esc EQ false (seg0 name)) as [[t v]|]; reflexivity.
      - rewrite cut_esc_app by exact C1. rewrite seg0_lastb by exact Hn2.
        cbn [cut_esc]. rewrite N.eqb_refl. simpl andb. cbv iota. rewrite app_nil_r.
        destruct (cut_esc EQ false (seg0 name)) as [[t v]|]; reflexivity. }
    rewrite Hpop.
    apply (tail_correct pop_esc (Forall good_esc)); auto.
    + intros kv r H; inversion H; auto.
    + intros kv r H; inversion H; subst. apply good_esc_goodv; auto.
    + intros kv r H; inversion H; subst. apply pop_esc_body; auto. apply good_esc_goodv; auto.
    + apply cv_compile.
    + apply erase_compile.
  - (* plain variant *)
    assert (Hb0 : has_bsl (seg0 name) = false /\ has_bsl (body env) = false).
    { rewrite Hshape in Hbsl. rewrite has_bsl_app in Hbsl.
      apply orb_false_iff in Hbsl as [H1 H2]. split; auto.
      destruct env; [reflexivity | simpl in H2; exact H2]. }
    destruct Hb0 as [Hb0 Hb1].
    assert (Hnc : ~ In COMMA (seg0 name)).
    { unfold seg0 in *. rewrite esc_meas_escf in *.
      destruct (has_bsl_escf _ _ Hb0) as [E1 N1]. rewrite E1. intros Hin.
      apply N1 in Hin. discriminate. }
    assert (Hpop : snd (pop_plain key) = body env).
    { unfold pop_plain. rewrite Hshape.
      destruct env as [|kv r].
      - rewrite app_nil_r, (cut_notin COMMA) by exact Hnc.
        destruct (cut EQ (seg0 name)) as [t v]. reflexivity.
      - rewrite cut_found by exact Hnc.
        destruct (cut EQ (seg0 name)) as [t v]. reflexivity. }
    rewrite Hpop.
    set (PP := fun e : tagset => Forall goodv e /\ has_bsl (body e) = false).
    assert (Pt : forall kv r, PP (kv :: r) -> PP r).
    { intros kv r [H1 H2]. inversion H1; subst. split; auto.
      unfold body in H2. rewrite has_bsl_app in H2. apply orb_false_iff in H2 as [_ H2].
      destruct r as [|kv' r']; [reflexivity|].
      inversion H4; subst. rewrite hash_key_cons in H2; auto. }
    assert (Pg : forall kv r, PP (kv :: r) -> Forall goodv r).
    { intros kv r [H1 _]. inversion H1; auto. }
    assert (Pp : forall kv r, PP (kv :: r) ->
                 pop_plain (body (kv :: r)) = (Some (fst kv), Some (snd kv), body r)).
    { intros kv r [H1 H2]. inversion H1; subst. apply pop_plain_body; auto. }
    assert (HPP : PP env) by (split; auto).
    apply (tail_correct pop_plain PP); auto.
    + apply cv_compile.
    + apply erase_compile.
Qed.

End Main.
