(** C13 — index lemmas, the partition invariant and its preservation by create / delete /
    reopen / compact; the partition-level forms of the property theorems. *)
From Verif Require Import Base.Prelude Model.C13 Proofs.C13_bytes.
From Coq Require Import ZifyBool ZifyNat ZifyN.
Ltac Zify.zify_post_hook ::= Z.div_mod_to_equations.
Open Scope N_scope.

(** ** Association lists *)
Lemma assoc_key_in l k id : assoc_key l k = Some id -> In (k, id) l.
Proof.
  induction l as [|[k' v] l IH]; cbn; [discriminate|].
  destruct (key_eqb k' k) eqn:E.
  - intro H; inversion H; subst. apply key_eqb_spec in E; subst. now left.
  - intro; right; auto.
Qed.

Lemma assoc_id_in l i v : assoc_id l i = Some v -> In (i, v) l.
Proof.
  induction l as [|[i' v'] l IH]; cbn; [discriminate|].
  destruct (i' =? i) eqn:E.
  - intro H; inversion H; subst. apply N.eqb_eq in E; subst. now left.
  - intro; right; auto.
Qed.

Lemma memN_in x l : memN x l = true <-> In x l.
Proof.
  unfold memN. rewrite existsb_exists. split.
  - intros [y [Hy E]]. apply N.eqb_eq in E. now subst.
  - intro H. exists x. split; auto. apply N.eqb_refl.
Qed.

(** ** Effect of [exec] *)
Definition ins_ix (ix : index) (k : key) (id off : N) : index :=
  {| keyid := (k, id) :: keyid ix; idoff := (id, off) :: idoff ix; tombs := tombs ix |}.
Definition tomb_ix (ix : index) (id : N) : index :=
  {| keyid := keyid ix; idoff := idoff ix; tombs := id :: tombs ix |}.

Lemma exec_ins ix id off k : id <> 0 ->
  exec ix {| se_flag := FLAG_INS; se_id := id; se_off := off; se_key := k |} = ins_ix ix k id off.
Proof.
  intro H. unfold exec. cbn [se_flag se_id se_off se_key]. change (FLAG_INS =? FLAG_INS) with true. cbv iota.
  destruct (id =? 0) eqn:E; [apply N.eqb_eq in E; contradiction | reflexivity].
Qed.
(** An insert entry with id 0 (remains of a torn append) is not indexed. *)
Lemma exec_ins_zero ix off k :
  exec ix {| se_flag := FLAG_INS; se_id := 0; se_off := off; se_key := k |} = ix.
Proof. reflexivity. Qed.
Lemma exec_tomb ix id off k :
  exec ix {| se_flag := FLAG_TOMB; se_id := id; se_off := off; se_key := k |} = tomb_ix ix id.
Proof. reflexivity. Qed.

Lemma find_off_ins ix k id off id0 :
  find_off (ins_ix ix k id off) id0 = if id =? id0 then off else find_off ix id0.
Proof. unfold find_off. cbn [ins_ix idoff assoc_id]. now destruct (id =? id0). Qed.

Lemma is_deleted_ins_other ix k id off id0 :
  id0 <> id -> is_deleted (ins_ix ix k id off) id0 = is_deleted ix id0.
Proof.
  intro H. unfold is_deleted. rewrite find_off_ins. cbn [ins_ix tombs].
  destruct (id =? id0) eqn:E; [apply N.eqb_eq in E; congruence | reflexivity].
Qed.

Lemma find_id_ins_other ix k id off k0 :
  k0 <> k ->
  (forall id0, assoc_key (keyid ix) k0 = Some id0 -> id0 = 0 \/ id0 <> id) ->
  find_id (ins_ix ix k id off) k0 = find_id ix k0.
Proof.
  intros Hk H. unfold find_id. cbn [ins_ix keyid assoc_key].
  rewrite key_eqb_neq by congruence. fold (ins_ix ix k id off).
  destruct (assoc_key (keyid ix) k0) as [id0|] eqn:E; [|reflexivity].
  destruct (H id0 eq_refl) as [Hz|Hne].
  - subst. reflexivity.
  - change {| keyid := (k, id) :: keyid ix; idoff := (id, off) :: idoff ix; tombs := tombs ix |}
      with (ins_ix ix k id off).
    now rewrite is_deleted_ins_other.
Qed.

Lemma find_id_ins_same ix k id off :
  id <> 0 -> off <> 0 -> ~ In id (tombs ix) -> find_id (ins_ix ix k id off) k = id.
Proof.
  intros Hid Hoff Ht. unfold find_id. cbn [ins_ix keyid assoc_key]. rewrite key_eqb_refl.
  change {| keyid := (k, id) :: keyid ix; idoff := (id, off) :: idoff ix; tombs := tombs ix |}
    with (ins_ix ix k id off).
  unfold is_deleted. rewrite find_off_ins, N.eqb_refl. cbn [ins_ix tombs].
  destruct (memN id (tombs ix)) eqn:M; [apply memN_in in M; contradiction|].
  destruct (id =? 0) eqn:E1; [apply N.eqb_eq in E1; contradiction|].
  destruct (off =? 0) eqn:E2; [apply N.eqb_eq in E2; contradiction|]. reflexivity.
Qed.

Lemma is_deleted_tomb ix id id0 :
  is_deleted (tomb_ix ix id) id0 = (id0 =? id) || is_deleted ix id0.
Proof. unfold is_deleted, find_off. cbn [tomb_ix tombs idoff memN existsb]. now rewrite orb_assoc. Qed.

Lemma find_id_tomb ix id k :
  find_id (tomb_ix ix id) k = if find_id ix k =? id then 0 else find_id ix k.
Proof.
  unfold find_id. cbn [tomb_ix keyid].
  change {| keyid := keyid ix; idoff := idoff ix; tombs := id :: tombs ix |} with (tomb_ix ix id).
  destruct (assoc_key (keyid ix) k) as [id0|]; [|now destruct (0 =? id)].
  rewrite is_deleted_tomb.
  destruct (id0 =? 0) eqn:Z; cbn [negb andb]; [now destruct (0 =? id)|].
  destruct (is_deleted ix id0); cbn [negb orb]; rewrite ?orb_true_r; cbn [negb]; [now destruct (0 =? id)|].
  rewrite orb_false_r. destruct (id0 =? id); reflexivity.
Qed.

Lemma find_id_spec ix k id :
  find_id ix k = id -> id <> 0 ->
  assoc_key (keyid ix) k = Some id /\ is_deleted ix id = false.
Proof.
  unfold find_id. destruct (assoc_key (keyid ix) k) as [id0|]; [|intros; subst; contradiction].
  destruct (id0 =? 0); cbn [negb andb]; [intros; subst; contradiction|].
  destruct (is_deleted ix id0) eqn:D; cbn [negb]; [intros; subst; contradiction|].
  intros; subst; auto.
Qed.

(** ** The partition invariant *)
Definition cls (p id : N) : Prop := exists j, id = p + 1 + 8 * j.

Definition next_seq (p : N) (L : list entry) : N :=
  let m := max_ins (with_offsets L HDR) in if p + 1 <=? m then m + 8 else p + 1.

Record PInv (p : N) (st : part) : Prop := {
  pi_log : exists L, seg st = bytes_of L /\ Forall wf_entry L /\
                     ix st = replay (with_offsets L HDR) /\ seq st = next_seq p L;
  pi_cls : cls p (seq st);
  pi_lt : forall k id, In (k, id) (keyid (ix st)) -> id < seq st /\ cls p id;
  pi_fun : forall k k' id, In (k, id) (keyid (ix st)) -> In (k', id) (keyid (ix st)) -> k = k';
  pi_off : forall k id, In (k, id) (keyid (ix st)) ->
           framed k /\ exists off, assoc_id (idoff (ix st)) id = Some off /\ HDR <= off /\
                         exists rest, skipn (N.to_nat (off - HDR) + 9) (seg st) = k ++ rest;
  pi_idoff : forall id off, In (id, off) (idoff (ix st)) -> id < seq st;
  pi_tomb : forall id, In id (tombs (ix st)) -> id < seq st
}.

Lemma cls_part p id : p < 8 -> cls p id -> id <> 0 /\ id_part id = p.
Proof.
  intros Hp [j ->]. split; [lia|]. unfold id_part, PARTN.
  destruct (p + 1 + 8 * j =? 0) eqn:E; lia.
Qed.

Lemma init_inv p : PInv p (init_part p).
Proof.
  constructor; cbn; try (intros; contradiction).
  - exists []. repeat split; auto. unfold next_seq. cbn. destruct (p + 1 <=? 0) eqn:E; lia.
  - exists 0. lia.
Qed.

(** ** reopen / compact are the identity on states satisfying the invariant *)
Lemma take0_all l : take0 (length l) l = l.
Proof. rewrite <- (app_nil_r l) at 2. apply take0_app_exact. Qed.

Lemma reopen_id p st : PInv p st -> reopen1 p st = st.
Proof.
  intros [[L (Hs & Hw & Hi & Hq)] _ _ _ _ _ _].
  unfold reopen1, open_part. rewrite Hs, scan_bytes_of by assumption.
  rewrite scan_end_bytes_of.
  replace (N.to_nat (HDR + N.of_nat (length (bytes_of L)) - HDR)) with (length (bytes_of L)) by lia.
  rewrite take0_all. destruct st as [sg sq i]; cbn in *. subst. reflexivity.
Qed.

Lemma compact_id p st : PInv p st -> compact1 st = st.
Proof.
  intros [[L (Hs & Hw & Hi & Hq)] _ _ _ _ _ _].
  unfold compact1. rewrite Hs, scan_bytes_of by assumption.
  destruct st as [sg sq i]; cbn in *. subst. reflexivity.
Qed.

(** ** create *)
Lemma max_ins_snoc ents e :
  max_ins (ents ++ [e]) =
  if (se_flag e =? FLAG_INS) && (max_ins ents <? se_id e) then se_id e else max_ins ents.
Proof. unfold max_ins. now rewrite fold_left_app. Qed.

Lemma next_seq_gt p L : max_ins (with_offsets L HDR) < next_seq p L /\ p + 1 <= next_seq p L.
Proof. unfold next_seq. destruct (p + 1 <=? max_ins (with_offsets L HDR)) eqn:E; lia. Qed.

Lemma skipn_app_le {A} n (a b : list A) : (n <= length a)%nat -> skipn n (a ++ b) = skipn n a ++ b.
Proof.
  intro H. rewrite skipn_app. replace (n - length a)%nat with 0%nat by lia. reflexivity.
Qed.

Lemma skipn_some_le {A} n (a x r : list A) : skipn n a = x ++ r -> x <> [] -> (n <= length a)%nat.
Proof.
  intros H Hx. destruct (Nat.le_gt_cases n (length a)); auto.
  rewrite skipn_all2 in H by lia. destruct x; [contradiction | discriminate].
Qed.

Lemma key_at_end sg id k : framed k ->
  key_at (sg ++ enc (Ins id k)) (HDR + N.of_nat (length sg)) = k.
Proof.
  intro Hk. unfold key_at.
  replace (N.to_nat (HDR + N.of_nat (length sg) - HDR) + 9)%nat with (length (sg ++ FLAG_INS :: be64 id)).
  - change (enc (Ins id k)) with ((FLAG_INS :: be64 id) ++ k). rewrite app_assoc.
    rewrite skipn_app_exact. rewrite <- (app_nil_r k) at 1. apply Hk.
  - rewrite app_length. cbn [length]. rewrite be64_length. lia.
Qed.

Definition fresh_state (st : part) (k : key) : part :=
  {| seg := seg st ++ enc (Ins (seq st) k); seq := seq st + 8;
     ix := ins_ix (ix st) k (seq st) (end_off st) |}.

Lemma pinv_seq_nz p st : PInv p st -> seq st <> 0.
Proof. intros I. destruct (pi_cls _ _ I) as [j Hj]. lia. Qed.

Lemma create1_unfold p st k : PInv p st -> framed k ->
  create1 st k = if negb (find_id (ix st) k =? 0) then (st, find_id (ix st) k)
                 else (fresh_state st k, seq st).
Proof.
  intros I Hk. unfold create1. destruct (negb (find_id (ix st) k =? 0)); [reflexivity|].
  unfold fresh_state, end_off. rewrite key_at_end by assumption.
  rewrite exec_ins by (eapply pinv_seq_nz; eauto). reflexivity.
Qed.

Lemma fresh_inv p st k : PInv p st -> framed k -> seq st < 2 ^ 64 -> PInv p (fresh_state st k).
Proof.
  intros I Hk Hb. destruct I as [[L (Hs & Hw & Hi & Hq)] Hc Hlt Hfun Hoff Hio Htb].
  pose proof (next_seq_gt p L) as [Hm Hp1]. rewrite <- Hq in Hm, Hp1.
  constructor; unfold fresh_state; cbn [seg seq ix ins_ix keyid idoff tombs].
  - exists (L ++ [Ins (seq st) k]). repeat split.
    + rewrite bytes_of_app, Hs. f_equal. unfold bytes_of. cbn [flat_map]. now rewrite app_nil_r.
    + apply Forall_app. split; auto. constructor; [split; assumption | constructor].
    + rewrite with_offsets_app. cbn [with_offsets]. unfold replay. rewrite fold_left_app.
      cbn [fold_left]. fold (replay (with_offsets L HDR)). rewrite <- Hi, exec_ins by (destruct Hc as [j Hj]; lia).
      unfold end_off. now rewrite Hs.
    + unfold next_seq. rewrite with_offsets_app. cbn [with_offsets]. rewrite max_ins_snoc.
      cbn [se_flag se_id]. change (FLAG_INS =? FLAG_INS) with true. cbn [andb].
      destruct (max_ins (with_offsets L HDR) <? seq st) eqn:E; [|lia].
      destruct (p + 1 <=? seq st) eqn:E2; lia.
  - destruct Hc as [j Hj]. exists (j + 1). lia.
  - intros k0 id [E|Hin].
    + inversion E; subst. split; [lia | assumption].
    + destruct (Hlt _ _ Hin). split; [lia | assumption].
  - intros k1 k2 id [E1|H1] [E2|H2].
    + congruence.
    + inversion E1; subst. destruct (Hlt _ _ H2). lia.
    + inversion E2; subst. destruct (Hlt _ _ H1). lia.
    + eauto.
  - intros k0 id [E|Hin].
    + inversion E; subst. split; [assumption|]. exists (end_off st).
      cbn [assoc_id]. rewrite N.eqb_refl. split; [reflexivity|]. split; [unfold end_off; lia|].
      exists []. unfold end_off.
      replace (N.to_nat (HDR + N.of_nat (length (seg st)) - HDR) + 9)%nat
        with (length (seg st ++ FLAG_INS :: be64 (seq st))).
      * change (enc (Ins (seq st) k0)) with ((FLAG_INS :: be64 (seq st)) ++ k0). rewrite app_assoc.
        rewrite skipn_app_exact. now rewrite app_nil_r.
      * rewrite app_length. cbn [length]. rewrite be64_length. lia.
    + destruct (Hoff _ _ Hin) as [Hf [off (Ha & Hge & rest & Hr)]]. split; [assumption|].
      exists off. cbn [assoc_id].
      destruct (seq st =? id) eqn:E; [apply N.eqb_eq in E; destruct (Hlt _ _ Hin); lia|].
      split; [assumption|]. split; [assumption|].
      exists (rest ++ enc (Ins (seq st) k)).
      rewrite skipn_app_le, Hr, app_assoc; [reflexivity|].
      eapply skipn_some_le; [exact Hr | now apply framed_nonnil].
  - intros id off [E|Hin]; [inversion E; subst; lia | apply Hio in Hin; lia].
  - intros id Hin. apply Htb in Hin. lia.
Qed.

Lemma create1_inv p st k : PInv p st -> framed k -> seq st < 2 ^ 64 -> PInv p (fst (create1 st k)).
Proof.
  intros I Hk Hb. rewrite (create1_unfold p) by assumption.
  destruct (negb (find_id (ix st) k =? 0)); cbn [fst]; [assumption | now apply fresh_inv].
Qed.

(** The id a create returns is the id the key has afterwards; it is never 0. *)
Lemma create1_result p st k : PInv p st -> framed k ->
  let '(st', id) := create1 st k in find_id (ix st') k = id /\ id <> 0.
Proof.
  intros I Hk. rewrite (create1_unfold p) by assumption.
  destruct (find_id (ix st) k =? 0) eqn:E; cbn [negb].
  - unfold fresh_state; cbn [ix].
    destruct (pi_cls _ _ I) as [j Hj]. split; [|lia].
    apply find_id_ins_same; [lia | unfold end_off, HDR; lia |].
    intro Hin. apply (pi_tomb _ _ I) in Hin. lia.
  - apply N.eqb_neq in E. auto.
Qed.

(** ** delete *)
Definition tomb_state (st : part) (id : N) : part :=
  {| seg := seg st ++ enc (Tomb id); seq := seq st; ix := tomb_ix (ix st) id |}.

Lemma delete1_unfold st id :
  delete1 st id = if is_deleted (ix st) id then st else tomb_state st id.
Proof. reflexivity. Qed.

Lemma is_deleted_false_in ix id : is_deleted ix id = false -> exists off, In (id, off) (idoff ix).
Proof.
  unfold is_deleted, find_off. intro H. apply orb_false_iff in H as [_ H].
  destruct (assoc_id (idoff ix) id) as [o|] eqn:E; [|discriminate].
  exists o. now apply assoc_id_in.
Qed.

Lemma tomb_inv p st id : PInv p st -> is_deleted (ix st) id = false -> seq st <= 2 ^ 64 ->
  PInv p (tomb_state st id).
Proof.
  intros I Hd Hb. destruct (is_deleted_false_in _ _ Hd) as [o Ho].
  destruct I as [[L (Hs & Hw & Hi & Hq)] Hc Hlt Hfun Hoff Hio Htb].
  pose proof (Hio _ _ Ho) as Hid.
  constructor; unfold tomb_state; cbn [seg seq ix tomb_ix keyid idoff tombs]; auto.
  - exists (L ++ [Tomb id]). repeat split.
    + rewrite bytes_of_app, Hs. f_equal.
    + apply Forall_app. split; auto. constructor; [cbn; lia | constructor].
    + rewrite with_offsets_app. cbn [with_offsets]. unfold replay. rewrite fold_left_app.
      cbn [fold_left]. fold (replay (with_offsets L HDR)). rewrite <- Hi, exec_tomb. reflexivity.
    + unfold next_seq. rewrite with_offsets_app. cbn [with_offsets]. rewrite max_ins_snoc.
      cbn [se_flag]. change (FLAG_TOMB =? FLAG_INS) with false. cbn [andb]. exact Hq.
  - intros k0 id0 Hin. destruct (Hoff _ _ Hin) as [Hf [off (Ha & Hge & rest & Hr)]].
    split; [assumption|]. exists off. split; [assumption|]. split; [assumption|].
    exists (rest ++ enc (Tomb id)).
    rewrite skipn_app_le, Hr, app_assoc; [reflexivity|].
    eapply skipn_some_le; [exact Hr | now apply framed_nonnil].
  - intros id0 [E|Hin]; [subst; assumption | auto].
Qed.

Lemma delete1_inv p st id : PInv p st -> seq st <= 2 ^ 64 -> PInv p (delete1 st id).
Proof.
  intros I Hb. rewrite delete1_unfold. destruct (is_deleted (ix st) id) eqn:E; [assumption|].
  now apply tomb_inv.
Qed.

(** ** Partition-level property lemmas *)

(** Stability under the creation of another (or the same) key. *)
Lemma create1_stable p st k k0 id0 : PInv p st -> framed k ->
  find_id (ix st) k0 = id0 -> id0 <> 0 -> find_id (ix (fst (create1 st k))) k0 = id0.
Proof.
  intros I Hk H0 Hnz. rewrite (create1_unfold p) by assumption.
  destruct (find_id (ix st) k =? 0) eqn:E; cbn [negb fst]; [|assumption].
  unfold fresh_state; cbn [ix]. rewrite find_id_ins_other; [assumption | |].
  - intro; subst k0. apply N.eqb_eq in E. congruence.
  - intros id1 Ha. right. apply assoc_key_in in Ha. destruct (pi_lt _ _ I _ _ Ha). lia.
Qed.

(** Deleting another id leaves the mapping alone; deleting this id removes it. *)
Lemma delete1_find st id k :
  find_id (ix (delete1 st id)) k = if find_id (ix st) k =? id then 0 else find_id (ix st) k.
Proof.
  rewrite delete1_unfold. destruct (is_deleted (ix st) id) eqn:D.
  - destruct (find_id (ix st) k =? id) eqn:E; [|reflexivity].
    apply N.eqb_eq in E. destruct (N.eq_dec (find_id (ix st) k) 0) as [Z|NZ]; [congruence|].
    destruct (find_id_spec _ _ _ eq_refl NZ) as [_ Hd]. congruence.
  - unfold tomb_state; cbn [ix]. apply find_id_tomb.
Qed.

Lemma find_id_inj p st k1 k2 id : PInv p st ->
  find_id (ix st) k1 = id -> find_id (ix st) k2 = id -> id <> 0 -> k1 = k2.
Proof.
  intros I H1 H2 Hnz.
  destruct (find_id_spec _ _ _ H1 Hnz) as [A1 _]. destruct (find_id_spec _ _ _ H2 Hnz) as [A2 _].
  apply assoc_key_in in A1, A2. exact (pi_fun _ _ I _ _ _ A1 A2).
Qed.

Definition issued (st : part) : list N := map snd (keyid (ix st)).

Lemma issued_lt p st id : PInv p st -> In id (issued st) -> id < seq st /\ cls p id.
Proof.
  intros I Hin. unfold issued in Hin. apply in_map_iff in Hin as [[k id'] [E Hin]]. cbn in E; subst.
  exact (pi_lt _ _ I _ _ Hin).
Qed.

Lemma find_id_issued st k id : find_id (ix st) k = id -> id <> 0 -> In id (issued st).
Proof.
  intros H Hnz. destruct (find_id_spec _ _ _ H Hnz) as [A _]. apply assoc_key_in in A.
  unfold issued. apply in_map_iff. exists (k, id). auto.
Qed.

Lemma create1_issued_mono st k id : In id (issued st) -> In id (issued (fst (create1 st k))).
Proof.
  unfold create1. destruct (negb (find_id (ix st) k =? 0)); cbn [fst]; [auto|].
  unfold issued; cbn [ix]. unfold exec. cbn [se_flag se_id]. change (FLAG_INS =? FLAG_INS) with true. cbv iota.
  destruct (seq st =? 0); cbn; auto.
Qed.

Lemma delete1_issued st id' : issued (delete1 st id') = issued st.
Proof. rewrite delete1_unfold. destruct (is_deleted (ix st) id'); reflexivity. Qed.

(** A create of a key that has no id returns the partition's [seq]: larger than every id
    ever issued by the partition (deleted ones included). *)
Lemma create1_fresh p st k : PInv p st -> framed k -> find_id (ix st) k = 0 ->
  snd (create1 st k) = seq st /\ ~ In (seq st) (issued st) /\ cls p (seq st).
Proof.
  intros I Hk H0. rewrite (create1_unfold p) by assumption. rewrite H0. cbn [N.eqb negb snd].
  split; [reflexivity|]. split; [|exact (pi_cls _ _ I)].
  intro Hin. destruct (issued_lt _ _ _ I Hin). lia.
Qed.

(** [SeriesKey] of a live id is its key. *)
Lemma key_of_live p st k id : PInv p st -> find_id (ix st) k = id -> id <> 0 -> key_of st id = k.
Proof.
  intros I H Hnz. destruct (find_id_spec _ _ _ H Hnz) as [A D]. apply assoc_key_in in A.
  destruct (pi_off _ _ I _ _ A) as [Hf [off (Ha & Hge & rest & Hr)]].
  unfold key_of. destruct (id =? 0) eqn:Z; [apply N.eqb_eq in Z; contradiction|].
  unfold find_off. rewrite Ha.
  destruct (off =? 0) eqn:Z2; [apply N.eqb_eq in Z2; unfold HDR in Hge; lia|].
  unfold key_at. rewrite Hr. apply Hf.
Qed.
