(** C04 — part 4: block-level facts for the content proof: the unread part of a block, the
    block invariant relative to a watermark [L] (everything consumed so far is <= L, everything
    unread is > L), and what one dedup pass does to one block. *)
From Coq Require Import ZifyBool.
From Verif Require Import Base.Prelude Model.C37 Proofs.C37 Model.C04 Proofs.C04.
Local Open Scope Z_scope.

Section Blocks.
  Context {V : Type}.
  Notation arr := (arr V).
  Notation blk := (blk V).

  (** the points of a block not yet handed on: [v.Exclude(readMin, readMax)] *)
  Definition unr (b : blk) : arr :=
    filter (fun p => negb (in_range (b_rmin b) (b_rmax b) p)) (b_vals b).
  Definition ntomb (ts : list (Z * Z)) (p : Z * V) : bool := negb (tombstoned ts p).
  Definition live (b : blk) : arr := filter (ntomb (b_tombs b)) (unr b).

  Definition isfresh (b : blk) : Prop := b_rmin b = MaxInt64 /\ b_rmax b = MinInt64.

  Record bwf (b : blk) : Prop := {
    wf_ne : b_vals b <> [];
    wf_sorted : ssorted (b_vals b);
    wf_min : b_min b = min_time (b_vals b);
    wf_max : b_max b = max_time (b_vals b);
    wf_range : forall p, In p (b_vals b) -> MinInt64 <= tm p <= MaxInt64 }.

  Definition bst (b : blk) : Prop := isfresh b \/ (b_rmin b = b_min b /\ b_min b <= b_rmax b).

  Record bok (L : Z) (b : blk) : Prop := {
    ok_wf : bwf b;
    ok_st : bst b;
    ok_unr : forall p, In p (unr b) -> L < tm p;
    ok_cons : forall p, In p (b_vals b) -> ~ In p (unr b) -> tm p <= L }.

  Lemma filter_filter {A} (f g : A -> bool) l :
    filter f (filter g l) = filter (fun x => g x && f x) l.
  Proof.
    induction l as [|x r IH]; [reflexivity|]. cbn. destruct (g x); cbn; [destruct (f x)|]; rewrite IH; reflexivity.
  Qed.

  Lemma filter_comm {A} (f g : A -> bool) l : filter f (filter g l) = filter g (filter f l).
  Proof. rewrite !filter_filter. apply filter_ext. intro x. apply andb_comm. Qed.

  Lemma bwf_bounds b : bwf b -> forall p, In p (b_vals b) -> b_min b <= tm p <= b_max b.
  Proof.
    intros W p Hp. pose proof (ssorted_wsorted _ (wf_sorted b W)) as Hw.
    pose proof (min_time_le _ Hw) as H1. pose proof (max_time_ge _ Hw) as H2.
    rewrite Forall_forall in H1, H2. rewrite (wf_min b W), (wf_max b W).
    specialize (H1 p Hp). specialize (H2 p Hp). cbn beta in *. lia.
  Qed.

  Lemma bwf_first b : bwf b -> exists p, In p (b_vals b) /\ tm p = b_min b.
  Proof. intro W. rewrite (wf_min b W). apply min_time_in, (wf_ne b W). Qed.

  Lemma bwf_last b : bwf b -> exists p, In p (b_vals b) /\ tm p = b_max b.
  Proof. intro W. rewrite (wf_max b W). apply max_time_in, (wf_ne b W). Qed.

  Lemma bwf_minmax b : bwf b -> b_min b <= b_max b.
  Proof. intro W. destruct (bwf_first b W) as [p [Hp Ht]]. pose proof (bwf_bounds b W p Hp). lia. Qed.

  Lemma unr_In b p : In p (unr b) <-> In p (b_vals b) /\ ~ (b_rmin b <= tm p <= b_rmax b).
  Proof. unfold unr. rewrite filter_In. unfold in_range. split; intros [H1 H2]; split; auto; lia. Qed.

  Lemma live_In b p : In p (live b) -> In p (unr b).
  Proof. unfold live. rewrite filter_In. tauto. Qed.

  Lemma ssorted_unr b : bwf b -> ssorted (unr b).
  Proof. intro W. apply ssorted_filter, (wf_sorted b W). Qed.

  Lemma ssorted_live b : bwf b -> ssorted (live b).
  Proof. intro W. apply ssorted_filter, ssorted_unr, W. Qed.

  Lemma unr_exclude b : bwf b -> arr_exclude (b_vals b) (b_rmin b) (b_rmax b) = unr b.
  Proof. intro W. rewrite exclude_spec by apply (wf_sorted b W). reflexivity. Qed.

  Lemma fresh_unr b : bwf b -> isfresh b -> unr b = b_vals b.
  Proof.
    intros W [H1 H2]. unfold unr. apply filter_all_true. apply Forall_forall. intros p Hp.
    pose proof (wf_range b W p Hp). unfold in_range. rewrite H1, H2. unfold MaxInt64, MinInt64 in *. lia.
  Qed.

  Lemma read_unr b : bwf b -> bst b -> is_read b = true -> unr b = [].
  Proof.
    intros W S R. unfold is_read in R. destruct S as [[F1 F2]|[S1 S2]].
    - exfalso. pose proof (bwf_minmax b W). destruct (bwf_first b W) as [p [Hp Ht]].
      pose proof (wf_range b W p Hp). rewrite F1, F2 in R. unfold MaxInt64, MinInt64 in *. lia.
    - unfold unr. apply filter_all_false. apply Forall_forall. intros p Hp.
      pose proof (bwf_bounds b W p Hp). unfold in_range. lia.
  Qed.

  Lemma unread_has b : bwf b -> bst b -> is_read b = false -> exists p, In p (unr b) /\ tm p <= b_max b.
  Proof.
    intros W S R. unfold is_read in R. destruct S as [F|[S1 S2]].
    - rewrite fresh_unr by auto. destruct (bwf_first b W) as [p [Hp Ht]]. exists p. split; auto.
      pose proof (bwf_bounds b W p Hp). lia.
    - destruct (bwf_last b W) as [p [Hp Ht]]. exists p. split; [|lia]. apply unr_In. split; auto. lia.
  Qed.

  Lemma read_max L b : bok L b -> is_read b = true -> b_max b <= L.
  Proof.
    intros [W S _ C] R. destruct (bwf_last b W) as [p [Hp Ht]]. rewrite <- Ht. apply C; auto.
    rewrite read_unr by auto. intros [].
  Qed.

  Lemma unread_gt L b : bok L b -> is_read b = false -> L < b_max b.
  Proof.
    intros [W S U _] R. destruct (unread_has b W S R) as [p [Hp Ht]]. specialize (U p Hp). lia.
  Qed.

  Lemma live_bounds b : bwf b -> forall p, In p (live b) -> b_min b <= tm p <= b_max b.
  Proof. intros W p Hp. apply live_In, unr_In in Hp as [Hp _]. apply bwf_bounds; auto. Qed.

  (** tombstones: a fold of [Exclude] is a filter *)
  Lemma apply_tombs_spec ts : forall v : arr, ssorted v -> apply_tombs v ts = filter (ntomb ts) v.
  Proof.
    unfold apply_tombs. induction ts as [|t r IH]; intros v Hv; cbn [fold_left].
    - symmetry. apply filter_all_true. apply Forall_forall. intros; reflexivity.
    - rewrite IH by (apply exclude_sorted; exact Hv). rewrite exclude_spec by exact Hv.
      unfold exclude_spec_f. rewrite filter_filter. apply filter_ext. intro p.
      unfold ntomb, tombstoned, in_range. cbn [existsb]. rewrite negb_orb. reflexivity.
  Qed.

  (** a fresh block of the initial state *)
  Lemma fresh_bok mn mx vs ts L :
    bwf (fresh mn mx vs ts) -> (forall p, In p vs -> L < tm p) -> bok L (fresh mn mx vs ts).
  Proof.
    intros W H. assert (F : isfresh (fresh mn mx vs ts)) by (split; reflexivity).
    split; [exact W|left; exact F| |].
    - rewrite fresh_unr by auto. exact H.
    - rewrite fresh_unr by auto. tauto.
  Qed.

  Lemma bok_mono L L' b : bok L b -> L <= L' -> (forall p, In p (unr b) -> L' < tm p) -> bok L' b.
  Proof.
    intros [W S U C] Hle H. split; auto. intros p Hp Hn. specialize (C p Hp Hn). lia.
  Qed.

  (** *** what one dedup pass does to one block *)

  (** [b'] is [b] after a pass with window maximum [mx] *)
  Record stepped (mx : Z) (b b' : blk) : Prop := {
    st_vals : b_vals b' = b_vals b;
    st_tombs : b_tombs b' = b_tombs b;
    st_min : b_min b' = b_min b;
    st_max : b_max b' = b_max b;
    st_unr : unr b' = filter (fun p => mx <? tm p) (unr b);
    st_ok : bok mx b' }.

  Lemma stepped_live mx b b' : stepped mx b b' -> live b' = filter (fun p => mx <? tm p) (live b).
  Proof.
    intros S. unfold live. rewrite (st_tombs _ _ _ S), (st_unr _ _ _ S). apply filter_comm.
  Qed.

  (** a block the pass does not touch (already read, or outside the window) *)
  Lemma skip_block L mn mx b :
    bok L b -> L <= mx -> (forall p, In p (unr b) -> mn <= tm p) ->
    is_read b = true \/ overlaps b mn mx = false ->
    stepped mx b b /\ filter (fun p => tm p <=? mx) (live b) = [].
  Proof.
    intros B HL Hmn Hs. pose proof (ok_wf L b B) as W.
    assert (Hall : forall p, In p (unr b) -> mx < tm p).
    { intros p Hp. destruct Hs as [R|O].
      - rewrite read_unr in Hp; [destruct Hp|auto|apply (ok_st L b B)|auto].
      - pose proof (Hmn p Hp). apply unr_In in Hp as [Hp _]. pose proof (bwf_bounds b W p Hp).
        unfold overlaps in O. lia. }
    split.
    - split; auto.
      + symmetry. apply filter_all_true. apply Forall_forall. intros p Hp. specialize (Hall p Hp). lia.
      + eapply bok_mono; eauto.
    - apply filter_all_false. apply Forall_forall. intros p Hp. apply live_In in Hp.
      specialize (Hall p Hp). lia.
  Qed.

  (** an unread block overlapping the window: the body of the second loop of the dedup path *)
  Lemma pass_block L mn mx b :
    bok L b -> L <= mx -> (forall p, In p (unr b) -> mn <= tm p) ->
    is_read b = false ->
    let v := b_vals b in
    let v2 := arr_include (arr_exclude v (b_rmin b) (b_rmax b)) mn mx in
    let b2 := if (0 <? length v2)%nat then mark_read b (min_time v2) (max_time v2) else b in
    b_max b = max_time v /\
    stepped mx b b2 /\
    apply_tombs v2 (b_tombs b2) = filter (fun p => tm p <=? mx) (live b).
  Proof.
    intros B HL Hmn R v v2 b2. pose proof (ok_wf L b B) as W. pose proof (ok_st L b B) as S.
    split; [apply (wf_max b W)|].
    assert (Ev2 : v2 = filter (fun p => tm p <=? mx) (unr b)).
    { subst v2 v. rewrite unr_exclude by auto. rewrite include_spec by (apply ssorted_unr; auto).
      unfold include_spec_f. apply filter_ext_in. intros p Hp. specialize (Hmn p Hp).
      unfold in_range. lia. }
    assert (Hs2 : ssorted v2) by (rewrite Ev2; apply ssorted_filter, ssorted_unr; auto).
    assert (Hin2 : forall p, In p v2 <-> In p (unr b) /\ tm p <= mx).
    { intro p. rewrite Ev2, filter_In. split; intros [H1 H2]; split; auto; lia. }
    assert (Htomb : b_tombs b2 = b_tombs b) by (subst b2; destruct (0 <? length v2)%nat; reflexivity).
    assert (Hlast : apply_tombs v2 (b_tombs b2) = filter (fun p => tm p <=? mx) (live b)).
    { rewrite apply_tombs_spec by exact Hs2. rewrite Htomb, Ev2. unfold live. apply filter_comm. }
    split; [|exact Hlast].
    destruct (0 <? length v2)%nat eqn:Elen; subst b2.
    - (* some points taken: mark_read *)
      assert (Hne : v2 <> []) by (destruct v2; [discriminate|congruence]).
      destruct (min_time_in v2 Hne) as [pa [Hpa Ha]]. destruct (max_time_in v2 Hne) as [pc [Hpc Hc]].
      pose proof (min_time_le v2 (ssorted_wsorted _ Hs2)) as Hmin.
      pose proof (max_time_ge v2 (ssorted_wsorted _ Hs2)) as Hmax.
      rewrite Forall_forall in Hmin, Hmax.
      set (a := min_time v2) in *. set (c := max_time v2) in *.
      apply Hin2 in Hpa as [Hpa1 Hpa2]. apply Hin2 in Hpc as [Hpc1 Hpc2].
      assert (Hac : a <= c) by (specialize (Hmax pa); rewrite Hin2 in Hmax; specialize (Hmax (conj Hpa1 Hpa2)); cbn beta in Hmax; lia).
      (* the new read range *)
      assert (Hr : b_rmin (mark_read b a c) = b_min b /\ b_rmax (mark_read b a c) = c
                   /\ (forall p, In p (b_vals b) ->
                         (b_rmin (mark_read b a c) <= tm p <= c <-> (b_rmin b <= tm p <= b_rmax b) \/ tm p <= mx))).
      { unfold mark_read, set_read. cbn [b_rmin b_rmax b_vals].
        destruct S as [[F1 F2]|[S1 S2]].
        - (* fresh: all points are unread; a is the first point *)
          rewrite F1, F2.
          pose proof (wf_range b W pa (proj1 (proj1 (unr_In b pa) Hpa1))) as Ra.
          pose proof (wf_range b W pc (proj1 (proj1 (unr_In b pc) Hpc1))) as Rc.
          destruct (bwf_first b W) as [p0 [Hp0 Ht0]].
          assert (Ea : a = b_min b).
          { pose proof (bwf_bounds b W pa (proj1 (proj1 (unr_In b pa) Hpa1))) as Hb.
            assert (In p0 v2) as Hp02.
            { apply Hin2. split; [rewrite fresh_unr by (auto; split; auto); exact Hp0|lia]. }
            specialize (Hmin p0 Hp02). cbn beta in Hmin. lia. }
          replace (a <? MaxInt64) with (negb (a =? MaxInt64)) by (unfold MaxInt64 in *; lia).
          replace (c >? MinInt64) with (negb (c =? MinInt64)) by (unfold MinInt64 in *; lia).
          assert (E1 : (if negb (a =? MaxInt64) then a else MaxInt64) = a) by (destruct (a =? MaxInt64) eqn:E; cbn; lia).
          assert (E2 : (if negb (c =? MinInt64) then c else MinInt64) = c) by (destruct (c =? MinInt64) eqn:E; cbn; lia).
          rewrite E1, E2. split; [exact Ea|]. split; [reflexivity|]. intros p H. split.
          + intros [H1 H2]. right.
            destruct (Z_le_gt_dec (tm p) mx) as [|Hgt]; [auto|].
            assert (Hpu : In p (unr b)) by (rewrite fresh_unr by (auto; split; auto); exact H).
            pose proof (Hmn p Hpu). exfalso.
            (* p is unread, above mx, but <= c where c <= mx *)
            lia.
          + intros [Hx|Hx]; [unfold MaxInt64, MinInt64 in *; pose proof (wf_range b W p H); lia|].
            assert (In p v2) as Hp2.
            { apply Hin2. split; [rewrite fresh_unr by (auto; split; auto); exact H|exact Hx]. }
            specialize (Hmax p Hp2). cbn beta in Hmax. pose proof (bwf_bounds b W p H). lia.
        - (* partially read before: the unread points are those above rmax *)
          assert (Hagt : b_rmax b < a).
          { destruct (proj1 (unr_In b pa) Hpa1) as [Hpa1' Hn]. pose proof (bwf_bounds b W pa Hpa1'). lia. }
          replace (a <? b_rmin b) with false by lia. replace (c >? b_rmax b) with true by lia.
          split; [exact S1|]. split; [reflexivity|]. intros p H. split.
          + intros [H1 H2]. destruct (Z_le_gt_dec (tm p) (b_rmax b)) as [Hle|Hgt].
            * left. pose proof (bwf_bounds b W p H). lia.
            * right. destruct (Z_le_gt_dec (tm p) mx) as [|Hgt2]; [auto|]. lia.
          + pose proof (bwf_bounds b W p H) as Hbp. intros [Hx|Hx]; [lia|]. destruct (Z_le_gt_dec (tm p) (b_rmax b)) as [Hle|Hgt]; [lia|].
            assert (In p v2) as Hp2.
            { apply Hin2. split; [|exact Hx]. apply unr_In. split; auto. pose proof (bwf_bounds b W p H). lia. }
            specialize (Hmax p Hp2). cbn beta in Hmax. pose proof (bwf_bounds b W p H). lia. }
      destruct Hr as [Hr1 [Hr2 Hr3]].
      assert (Hunr : unr (mark_read b a c) = filter (fun p => mx <? tm p) (unr b)).
      { unfold unr at 1 2. change (b_vals (mark_read b a c)) with (b_vals b).
        rewrite filter_filter. apply filter_ext_in. intros p Hp. specialize (Hr3 p Hp).
        rewrite Hr2. unfold in_range. destruct Hr3 as [Hx Hy].
        destruct ((b_rmin (mark_read b a c) <=? tm p) && (tm p <=? c)) eqn:E1.
        - assert (Hz : b_rmin b <= tm p <= b_rmax b \/ tm p <= mx) by (apply Hx; lia).
          destruct ((b_rmin b <=? tm p) && (tm p <=? b_rmax b)) eqn:E2; cbn; [reflexivity|lia].
        - assert (Hz : ~ (b_rmin b <= tm p <= b_rmax b \/ tm p <= mx)) by (intro Hz; apply Hy in Hz; lia).
          destruct ((b_rmin b <=? tm p) && (tm p <=? b_rmax b)) eqn:E2; cbn; lia. }
      assert (W2 : bwf (mark_read b a c)) by (destruct W; split; assumption).
      split; try reflexivity; [exact Hunr|].
      split; [exact W2| | |].
      + right. rewrite Hr1, Hr2. change (b_min (mark_read b a c)) with (b_min b). split; [reflexivity|].
        pose proof (bwf_bounds b W pa (proj1 (proj1 (unr_In b pa) Hpa1))). lia.
      + intros p. rewrite Hunr, filter_In. lia.
      + intros p Hp Hn. rewrite Hunr, filter_In in Hn.
        destruct (Z_le_gt_dec (tm p) mx) as [|Hgt]; [auto|].
        assert (Hnu : ~ In p (unr b)) by (intro Hu; apply Hn; split; [exact Hu|lia]).
        pose proof (ok_cons L b B p Hp Hnu). lia.
    - (* nothing to take *)
      assert (Hnil : v2 = []) by (destruct v2; [reflexivity|discriminate]).
      assert (Hall : forall p, In p (unr b) -> mx < tm p).
      { intros p Hp. destruct (Z_le_gt_dec (tm p) mx) as [Hle|]; [|lia].
        assert (In p v2) as Hc by (apply Hin2; auto). rewrite Hnil in Hc. destruct Hc. }
      split; auto.
      + symmetry. apply filter_all_true. apply Forall_forall. intros p Hp. specialize (Hall p Hp). lia.
      + eapply bok_mono; eauto.
  Qed.
End Blocks.
