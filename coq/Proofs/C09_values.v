(** C09 — [Values.Deduplicate] (stable sort + keep the last of equal timestamps) is
    the time-sorted newest-wins view, and [Cache.Values] returns that view of
    (snapshot values ++ hot values) whatever in-place deduplication happened before. *)
From Verif Require Import Base.Prelude Model.C09 Proofs.C09.
Local Open Scope Z_scope.

Definition has (t : Z) (p : point) : bool := tsof p =? t.

Lemma find_app {A} f (a b : list A) :
  find f (a ++ b) = match find f a with Some x => Some x | None => find f b end.
Proof. induction a as [|x a IH]; cbn; [reflexivity|]. destruct (f x); [reflexivity|exact IH]. Qed.

Lemma last_at_nil t : last_at t [] = None.
Proof. reflexivity. Qed.

Lemma last_at_cons t x l :
  last_at t (x :: l) =
  match last_at t l with Some p => Some p | None => if has t x then Some x else None end.
Proof. unfold last_at, has. cbn [rev]. rewrite find_app. cbn [find]. reflexivity. Qed.

Lemma last_at_app t a b :
  last_at t (a ++ b) = match last_at t b with Some p => Some p | None => last_at t a end.
Proof. unfold last_at. rewrite rev_app_distr, find_app. reflexivity. Qed.

Lemma last_at_some t l p : last_at t l = Some p -> In p l /\ tsof p = t.
Proof.
  unfold last_at. intro H. apply find_some in H as [H1 H2]. split.
  - apply in_rev. exact H1.
  - apply Z.eqb_eq. exact H2.
Qed.

Lemma last_at_none t l : last_at t l = None <-> (forall p, In p l -> tsof p <> t).
Proof.
  induction l as [|x r IH].
  - split; [intros _ p []|reflexivity].
  - rewrite last_at_cons. unfold has. split.
    + intros H p [<-|Hp].
      * destruct (last_at t r); [discriminate|]. destruct (tsof x =? t) eqn:E; [discriminate|].
        apply Z.eqb_neq. exact E.
      * destruct (last_at t r) eqn:L; [discriminate|]. apply (proj1 IH eq_refl). exact Hp.
    + intro H. rewrite (proj2 IH) by (intros p Hp; apply H; right; exact Hp).
      destruct (tsof x =? t) eqn:E; [|reflexivity]. apply Z.eqb_eq in E. exfalso.
      apply (H x); [left; reflexivity|exact E].
Qed.

(** * Sortedness *)
Fixpoint sorted_le (l : list point) : Prop :=
  match l with [] => True | x :: r => (forall q, In q r -> tsof x <= tsof q) /\ sorted_le r end.
Fixpoint ssorted (l : list point) : Prop :=
  match l with [] => True | x :: r => (forall q, In q r -> tsof x < tsof q) /\ ssorted r end.

Lemma insert_in x l q : In q (insert x l) <-> q = x \/ In q l.
Proof.
  induction l as [|y r IH]; cbn.
  - intuition.
  - destruct (tsof x <=? tsof y); cbn; [intuition|]. rewrite IH. intuition.
Qed.

Lemma insert_sorted x l : sorted_le l -> sorted_le (insert x l).
Proof.
  induction l as [|y r IH]; cbn; intro H.
  - split; [intros q []|exact I].
  - destruct H as [Hy Hr]. destruct (tsof x <=? tsof y) eqn:E; cbn.
    + apply Z.leb_le in E. split; [|split; assumption].
      intros q [<-|Hq]; [exact E|]. specialize (Hy q Hq). lia.
    + apply Z.leb_gt in E. split; [|apply IH; exact Hr].
      intros q Hq. apply insert_in in Hq as [->|Hq]; [lia|apply Hy; exact Hq].
Qed.

Lemma isort_sorted l : sorted_le (isort l).
Proof. induction l as [|x r IH]; cbn; [exact I|]. apply insert_sorted. exact IH. Qed.

(** stability: sorting does not reorder the points of one timestamp *)
Lemma filter_insert t x l : filter (has t) (insert x l) = filter (has t) (x :: l).
Proof.
  induction l as [|y r IH]; [reflexivity|].
  cbn [insert]. destruct (tsof x <=? tsof y) eqn:E; [reflexivity|].
  apply Z.leb_gt in E. cbn [filter]. rewrite IH. cbn [filter].
  destruct (has t y) eqn:Hy; destruct (has t x) eqn:Hx; try reflexivity.
  unfold has in *. apply Z.eqb_eq in Hy, Hx. lia.
Qed.

Lemma filter_isort t l : filter (has t) (isort l) = filter (has t) l.
Proof.
  induction l as [|x r IH]; [reflexivity|].
  cbn [isort]. rewrite filter_insert. cbn [filter]. rewrite IH. reflexivity.
Qed.

Fixpoint last_opt (l : list point) : option point :=
  match l with
  | [] => None
  | x :: r => match last_opt r with Some p => Some p | None => Some x end
  end.

Lemma last_at_filter t l : last_at t l = last_opt (filter (has t) l).
Proof.
  induction l as [|x r IH]; [reflexivity|].
  rewrite last_at_cons, IH. cbn [filter]. destruct (has t x); cbn [last_opt]; [reflexivity|].
  destruct (last_opt (filter (has t) r)); reflexivity.
Qed.

Lemma last_at_isort t l : last_at t (isort l) = last_at t l.
Proof. rewrite !last_at_filter, filter_isort. reflexivity. Qed.

(** * keep_last on a sorted list *)
Lemma keep_last_subset l p : In p (keep_last l) -> In p l.
Proof.
  induction l as [|x r IH]; [tauto|].
  cbn [keep_last]. destruct r as [|y r'].
  - tauto.
  - destruct (tsof x =? tsof y).
    + intro H. right. apply IH. exact H.
    + intros [<-|H]; [left; reflexivity|right; apply IH; exact H].
Qed.

Lemma sorted_head_lt x y r :
  (forall q, In q (y :: r) -> tsof x <= tsof q) -> sorted_le (y :: r) -> tsof x <> tsof y ->
  forall q, In q (y :: r) -> tsof x < tsof q.
Proof.
  intros Hx [Hy _] Hne q [<-|Hq].
  - specialize (Hx y (or_introl eq_refl)). lia.
  - specialize (Hx y (or_introl eq_refl)). specialize (Hy q Hq). lia.
Qed.

Lemma keep_last_in_spec l :
  sorted_le l -> forall p, In p (keep_last l) <-> last_at (tsof p) l = Some p.
Proof.
  induction l as [|x r IH]; intros Hs p.
  - cbn. split; [tauto|discriminate].
  - destruct r as [|y r'].
    + cbn [keep_last]. rewrite last_at_cons, last_at_nil. unfold has. split.
      * intros [<-|[]]. rewrite Z.eqb_refl. reflexivity.
      * destruct (tsof x =? tsof p); intro H; inversion H. left. reflexivity.
    + destruct Hs as [Hx Hs]. cbn [keep_last]. rewrite last_at_cons.
      destruct (tsof x =? tsof y) eqn:E.
      * apply Z.eqb_eq in E. rewrite (IH Hs p).
        destruct (last_at (tsof p) (y :: r')) eqn:L; [tauto|].
        split; [discriminate|]. unfold has. destruct (tsof x =? tsof p) eqn:E2; [|discriminate].
        apply Z.eqb_eq in E2. exfalso.
        apply (proj1 (last_at_none _ _) L y); [left; reflexivity|lia].
      * apply Z.eqb_neq in E. pose proof (sorted_head_lt x y r' Hx Hs E) as Hlt.
        cbn [In]. rewrite (IH Hs p).
        destruct (last_at (tsof p) (y :: r')) eqn:L.
        -- split; [|tauto]. intros [<-|H]; [|exact H].
           apply last_at_some in L as [Lin Lts]. specialize (Hlt _ Lin). lia.
        -- unfold has. split.
           ++ intros [<-|H]; [|discriminate]. rewrite Z.eqb_refl. reflexivity.
           ++ destruct (tsof x =? tsof p); intro H; inversion H. left. reflexivity.
Qed.

Lemma keep_last_ssorted l : sorted_le l -> ssorted (keep_last l).
Proof.
  induction l as [|x r IH]; intro Hs; [exact I|].
  destruct r as [|y r'].
  - cbn. split; [intros q []|exact I].
  - destruct Hs as [Hx Hs]. cbn [keep_last]. destruct (tsof x =? tsof y) eqn:E.
    + apply IH. exact Hs.
    + apply Z.eqb_neq in E. pose proof (sorted_head_lt x y r' Hx Hs E) as Hlt.
      split; [|apply IH; exact Hs].
      intros q Hq. apply Hlt. apply keep_last_subset. exact Hq.
Qed.

(** * the already-sorted shortcut of Deduplicate is not a special case *)
Lemma isort_strict l : strict_sorted_b l = true -> isort l = l.
Proof.
  induction l as [|x r IH]; [reflexivity|].
  destruct r as [|y r']; [reflexivity|].
  intro H. cbn [strict_sorted_b] in H. apply andb_true_iff in H as [H1 H2].
  cbn [isort]. cbn [isort] in IH. rewrite (IH H2). cbn [insert].
  apply Z.ltb_lt in H1. destruct (tsof x <=? tsof y) eqn:E; [reflexivity|].
  apply Z.leb_gt in E. lia.
Qed.

Lemma keep_last_strict l : strict_sorted_b l = true -> keep_last l = l.
Proof.
  induction l as [|x r IH]; [reflexivity|].
  destruct r as [|y r']; [reflexivity|].
  intro H. cbn [strict_sorted_b] in H. apply andb_true_iff in H as [H1 H2].
  cbn [keep_last]. apply Z.ltb_lt in H1.
  destruct (tsof x =? tsof y) eqn:E; [apply Z.eqb_eq in E; lia|].
  f_equal. apply IH. exact H2.
Qed.

Lemma dedup_eq l : dedup l = keep_last (isort l).
Proof.
  unfold dedup. destruct (strict_sorted_b l) eqn:E; [|reflexivity].
  rewrite (isort_strict _ E), (keep_last_strict _ E). reflexivity.
Qed.

Lemma ssorted_strict_b l : ssorted l -> strict_sorted_b l = true.
Proof.
  induction l as [|x r IH]; [reflexivity|].
  destruct r as [|y r']; [reflexivity|].
  intros [Hx Hs]. cbn [strict_sorted_b]. apply andb_true_iff. split; [|apply IH; exact Hs].
  apply Z.ltb_lt. apply Hx. left. reflexivity.
Qed.

Lemma strict_b_ssorted l : strict_sorted_b l = true -> ssorted l.
Proof.
  induction l as [|x r IH]; [intros; exact I|].
  destruct r as [|y r'].
  - intros _. split; [intros q []|exact I].
  - intro H. cbn [strict_sorted_b] in H. apply andb_true_iff in H as [H1 H2].
    apply Z.ltb_lt in H1. specialize (IH H2). split; [|exact IH].
    destruct IH as [Hy _]. intros q [<-|Hq]; [exact H1|]. specialize (Hy q Hq). lia.
Qed.

(** * The specification: [r] is the newest-wins view of the raw sequence [l] *)
Definition is_lastwins (l r : list point) : Prop :=
  ssorted r /\ forall p, In p r <-> last_at (tsof p) l = Some p.

Lemma dedup_lastwins l : is_lastwins l (dedup l).
Proof.
  rewrite dedup_eq. split.
  - apply keep_last_ssorted, isort_sorted.
  - intro p. rewrite (keep_last_in_spec _ (isort_sorted l)), last_at_isort. tauto.
Qed.

Lemma ssorted_ext a : forall b,
  ssorted a -> ssorted b -> (forall p, In p a <-> In p b) -> a = b.
Proof.
  induction a as [|x a IH]; intros [|y b] Ha Hb H.
  - reflexivity.
  - exfalso. apply (proj2 (H y)). left. reflexivity.
  - exfalso. apply (proj1 (H x)). left. reflexivity.
  - destruct Ha as [Hxa Ha]. destruct Hb as [Hyb Hb].
    assert (E : x = y).
    { destruct (proj1 (H x) (or_introl eq_refl)) as [E|Hx]; [congruence|].
      destruct (proj2 (H y) (or_introl eq_refl)) as [E|Hy]; [congruence|].
      specialize (Hxa _ Hy). specialize (Hyb _ Hx). lia. }
    subst y. f_equal. apply IH; try assumption.
    intro p. split; intro Hp.
    + destruct (proj1 (H p) (or_intror Hp)) as [E|Hp']; [|exact Hp'].
      subst p. specialize (Hxa _ Hp). lia.
    + destruct (proj2 (H p) (or_intror Hp)) as [E|Hp']; [|exact Hp'].
      subst p. specialize (Hyb _ Hp). lia.
Qed.

Lemma lastwins_unique l r1 r2 : is_lastwins l r1 -> is_lastwins l r2 -> r1 = r2.
Proof.
  intros [S1 I1] [S2 I2]. apply ssorted_ext; try assumption.
  intro p. rewrite I1, I2. tauto.
Qed.

Lemma last_at_ssorted d p : ssorted d -> In p d -> last_at (tsof p) d = Some p.
Proof.
  intros Hs Hp. pose proof (dedup_lastwins d) as [_ Hin].
  assert (E : dedup d = d) by (unfold dedup; rewrite (ssorted_strict_b _ Hs); reflexivity).
  rewrite E in Hin. apply Hin. exact Hp.
Qed.

Lemma last_at_dedup t l : last_at t (dedup l) = last_at t l.
Proof.
  destruct (dedup_lastwins l) as [Hs Hin]. destruct (last_at t l) as [p|] eqn:L.
  - pose proof (last_at_some _ _ _ L) as [_ Ht]. subst t.
    apply last_at_ssorted; [exact Hs|]. apply Hin. exact L.
  - apply last_at_none. intros q Hq. apply Hin in Hq. apply last_at_some in Hq as [Hq _].
    exact (proj1 (last_at_none _ _) L q Hq).
Qed.

(** * Cache.Values *)
Lemma values_spec s k :
  is_lastwins (raw k (snap s) ++ raw k (hot s)) (snd (values k s)).
Proof.
  unfold values. cbn [snd].
  destruct (dedup_lastwins (dedup (raw k (snap s)) ++ dedup (raw k (hot s)))) as [A B].
  split; [exact A|]. intro p. rewrite B, !last_at_app, !last_at_dedup. tauto.
Qed.

(** what a read returns does not depend on the in-place deduplication done by earlier
    reads: [Values k] leaves the newest-wins view of EVERY key unchanged *)
Lemma raw_dedup_in k k' st :
  raw k' (dedup_in k st) = if key_eqb k' k then dedup (raw k st) else raw k' st.
Proof.
  unfold dedup_in, raw. destruct (key_eqb k' k) eqn:E.
  - apply key_eqb_eq in E. subst k'. destruct (find_e k st) as [e|] eqn:F.
    + rewrite find_upd_same. reflexivity.
    + rewrite F. reflexivity.
  - assert (k' <> k) by (intro; subst; rewrite key_eqb_refl in E; discriminate).
    destruct (find_e k st) as [e|] eqn:F; [|reflexivity].
    rewrite find_upd_other by assumption. reflexivity.
Qed.

Lemma values_preserves_views s k k' t :
  let s' := fst (values k s) in
  last_at t (raw k' (snap s') ++ raw k' (hot s')) = last_at t (raw k' (snap s) ++ raw k' (hot s)).
Proof.
  cbn. rewrite !raw_dedup_in. destruct (key_eqb k' k) eqn:E; [|reflexivity].
  apply key_eqb_eq in E. subst k'. rewrite !last_at_app, !last_at_dedup. reflexivity.
Qed.

Lemma values_read_stable s k k' :
  snd (values k' (fst (values k s))) = snd (values k' s).
Proof.
  apply (lastwins_unique (raw k' (snap s) ++ raw k' (hot s))); [|apply values_spec].
  destruct (values_spec (fst (values k s)) k') as [A B]. split; [exact A|].
  intro p. rewrite B. rewrite values_preserves_views. tauto.
Qed.

(** * newest wins across writes: an accepted batch entry is appended to the raw hot values *)
Lemma key_write_appends oe vs e' :
  key_write oe vs = Some e' ->
  evals e' = match oe with Some e => evals e | None => [] end ++ vs.
Proof.
  unfold key_write. destruct oe as [e|].
  - unfold entry_add. destruct vs as [|p r].
    + intro H. inversion H; subst. rewrite app_nil_r. reflexivity.
    + destruct (negb (N.eqb (evtype e) 0) && negb (all_type (evtype e) (p :: r))); [discriminate|].
      destruct (evals e) as [|q l] eqn:El; intro H.
      * destruct (all_type (ptype p) (p :: r)); [|discriminate]. inversion H; subst. reflexivity.
      * inversion H; subst. reflexivity.
  - unfold new_entry. destruct vs as [|p r].
    + intro H. inversion H; subst. reflexivity.
    + destruct (all_type (ptype p) (p :: r)); [|discriminate]. intro H. inversion H; subst. reflexivity.
Qed.

Lemma write_then_read s b k vs :
  over_limit s b = false -> NoDup (map fst b) -> assoc k b = Some vs ->
  rejected (hot s) (k, vs) = false ->
  let s' := fst (write_multi b s) in
  is_lastwins ((raw k (snap s) ++ raw k (hot s)) ++ vs) (snd (values k s')).
Proof.
  intros Hl Hnd Ha Hr s'.
  destruct (write_multi_spec s b Hl Hnd) as (Hf & _ & Hsn & _).
  fold s' in Hf, Hsn. specialize (Hf k). rewrite Ha in Hf. unfold key_result in Hf.
  unfold rejected in Hr. cbn [fst snd] in Hr.
  destruct (key_write (find_e k (hot s)) vs) as [e'|] eqn:KW; [|discriminate].
  apply key_write_appends in KW.
  assert (E : raw k (hot s') = raw k (hot s) ++ vs).
  { unfold raw. rewrite Hf, KW. reflexivity. }
  pose proof (values_spec s' k) as V. rewrite E, Hsn, app_assoc in V. exact V.
Qed.

(** a rejected batch entry (type conflict) leaves the key's stored values untouched *)
Lemma rejected_key_untouched s b k vs :
  over_limit s b = false -> NoDup (map fst b) -> assoc k b = Some vs ->
  rejected (hot s) (k, vs) = true ->
  find_e k (hot (fst (write_multi b s))) = find_e k (hot s).
Proof.
  intros Hl Hnd Ha Hr.
  destruct (write_multi_spec s b Hl Hnd) as (Hf & _). specialize (Hf k). rewrite Ha in Hf.
  unfold key_result in Hf. unfold rejected in Hr. cbn [fst snd] in Hr.
  destruct (key_write (find_e k (hot s)) vs); [discriminate|]. exact Hf.
Qed.

(** the boolean oracle of the judge agrees with the specification *)
Lemma lastwins_b_complete l r : is_lastwins l r -> lastwins_b l r = true.
Proof.
  intros [Hs Hin]. unfold lastwins_b. rewrite (ssorted_strict_b _ Hs). cbn [andb].
  apply andb_true_iff. split.
  - apply forallb_forall. intros p Hp. rewrite (proj1 (Hin p) Hp). cbn.
    unfold point_eqb. rewrite Z.eqb_refl. cbn.
    destruct p as [t v]. cbn. destruct v; cbn;
      try apply N.eqb_refl; try apply Z.eqb_refl; try (destruct b; reflexivity).
    apply (proj2 (list_eqb_spec N.eqb N.eqb_eq s s)). reflexivity.
  - apply forallb_forall. intros p Hp. apply existsb_exists.
    destruct (last_at (tsof p) l) as [q|] eqn:L.
    + exists q. pose proof (last_at_some _ _ _ L) as [_ Ht]. split.
      * apply Hin. rewrite Ht. exact L.
      * apply Z.eqb_eq. exact Ht.
    + exfalso. exact (proj1 (last_at_none _ _) L p Hp eq_refl).
Qed.
