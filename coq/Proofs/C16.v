(** C16 — proofs about the delete-predicate matcher model (Model/C16.v).

    Part 1: the memoised three-valued evaluation ([update]) computes the pure response
            [mresp]; responses are monotone in the state; definite responses are sound for
            the Kleene semantics and complete for "true".
    Part 2: the abstract walk [feed] over a list of (tag, value) pairs.
    Part 3: bytes: escaping, the two pop-tag variants on keys built by [make_key].
    Part 4: [matches p (make_key name env) = holds p env]. *)
From Verif Require Import Base.Prelude Model.C16.
Local Open Scope N_scope.

(** * Bytes equality *)
Lemma bytes_eqb_eq a b : bytes_eqb a b = true <-> a = b.
Proof. apply list_eqb_spec. intros; apply N.eqb_eq. Qed.
Lemma bytes_eqb_refl a : bytes_eqb a a = true.
Proof. apply bytes_eqb_eq; reflexivity. Qed.
Lemma bytes_eqb_neq a b : bytes_eqb a b = false <-> a <> b.
Proof.
  split.
  - intros H E. apply bytes_eqb_eq in E. congruence.
  - intros H. destruct (bytes_eqb a b) eqn:E; auto. apply bytes_eqb_eq in E. contradiction.
Qed.

Lemma existsb_bytes_In k l : existsb (bytes_eqb k) l = true <-> In k l.
Proof.
  rewrite existsb_exists. split.
  - intros (x & Hin & E). apply bytes_eqb_eq in E. subst; auto.
  - intros H. exists k. split; auto. apply bytes_eqb_refl.
Qed.

(** * Part 1: states, responses *)
Definition gle (g g' : getter) := forall k v, g k = Some v -> g' k = Some v.
Definition geq_on (l : list bytes) (g g' : getter) := forall k, In k l -> g k = g' k.

Lemma gle_refl g : gle g g. Proof. intros k v H; exact H. Qed.

Section Sem.
Variable rm : N -> bytes -> bool.

Lemma cmp_val_mono g g' op l r b :
  gle g g' -> cmp_val rm g op l r = Some b -> cmp_val rm g' op l r = Some b.
Proof.
  intros H. unfold cmp_val.
  destruct (lhs_val g l) as [a|] eqn:El; [|discriminate].
  assert (El' : lhs_val g' l = Some a).
  { destruct l; simpl in *; auto. }
  rewrite El'.
  destruct (rhs_val g r) as [rv|] eqn:Er; [|discriminate].
  assert (Er' : rhs_val g' r = Some rv).
  { destruct r as [k| |]; simpl in *; auto.
    destruct (g k) as [x|] eqn:Ek; [|discriminate]. rewrite (H _ _ Ek). exact Er. }
  rewrite Er'. auto.
Qed.

Lemma cmp_val_ext g g' op l r :
  geq_on (refs (PCmp op l r)) g g' -> cmp_val rm g op l r = cmp_val rm g' op l r.
Proof.
  intros H. unfold cmp_val.
  assert (El : lhs_val g l = lhs_val g' l).
  { destruct l; simpl; auto. apply H. simpl. auto. }
  assert (Er : rhs_val g r = rhs_val g' r).
  { destruct r as [k| |]; simpl; auto. rewrite (H k); auto.
    simpl. apply in_or_app. right. simpl; auto. }
  rewrite El, Er. reflexivity.
Qed.

Lemma mresp_mono g g' : gle g g' -> forall p b, mresp rm g p = Some b -> mresp rm g' p = Some b.
Proof.
  intros H. induction p as [op l r | a IHa b IHb | a IHa b IHb]; intros x; simpl.
  - apply cmp_val_mono; auto.
  - destruct (mresp rm g a) as [[|]|] eqn:Ea; try discriminate.
    + intros Hb. rewrite (IHa _ eq_refl). apply IHb; auto.
    + intros Hx. rewrite (IHa _ eq_refl). exact Hx.
  - destruct (mresp rm g a) as [[|]|] eqn:Ea.
    + intros Hx. rewrite (IHa _ eq_refl). exact Hx.
    + rewrite (IHa _ eq_refl).
      destruct (mresp rm g b) as [[|]|] eqn:Eb; try discriminate;
        intros Hx; rewrite (IHb _ eq_refl); exact Hx.
    + destruct (mresp rm g b) as [[|]|] eqn:Eb; try discriminate.
      intros Hx. rewrite (IHb _ eq_refl).
      destruct (mresp rm g' a) as [[|]|]; exact Hx.
Qed.

Lemma mresp_ext p : forall g g', geq_on (refs p) g g' -> mresp rm g p = mresp rm g' p.
Proof.
  induction p as [op l r | a IHa b IHb | a IHa b IHb]; intros g g' H; simpl.
  - apply cmp_val_ext; auto.
  - rewrite (IHa g g'), (IHb g g'); auto; intros k Hk; apply H; simpl; apply in_or_app; auto.
  - rewrite (IHa g g'), (IHb g g'); auto; intros k Hk; apply H; simpl; apply in_or_app; auto.
Qed.

(** ** cache validity and memoisation soundness *)
Fixpoint cv (g : getter) (n : node) : Prop :=
  match n with
  | NCmp c op l r => forall x, c = Some x -> cmp_val rm g op l r = Some x
  | NAnd c a b =>
      (forall x, c = Some x -> mresp rm g (PAnd (erase a) (erase b)) = Some x) /\ cv g a /\ cv g b
  | NOr c a b =>
      (forall x, c = Some x -> mresp rm g (POr (erase a) (erase b)) = Some x) /\ cv g a /\ cv g b
  end.

Lemma cv_mono g g' : gle g g' -> forall n, cv g n -> cv g' n.
Proof.
  intros H. induction n as [c op l r | c a IHa b IHb | c a IHa b IHb]; simpl.
  - intros Hc x Hx. eapply cmp_val_mono; eauto.
  - intros (Hc & Ha & Hb). repeat split; auto.
    intros x Hx. apply (mresp_mono g g' H (PAnd (erase a) (erase b))). auto.
  - intros (Hc & Ha & Hb). repeat split; auto.
    intros x Hx. apply (mresp_mono g g' H (POr (erase a) (erase b))). auto.
Qed.

Lemma erase_compile p : erase (compile p) = p.
Proof. induction p; simpl; congruence. Qed.

Lemma cv_compile g p : cv g (compile p).
Proof. induction p; simpl; repeat split; auto; intros; discriminate. Qed.

Lemma update_spec g : forall n, cv g n ->
  fst (update rm g n) = mresp rm g (erase n) /\
  cv g (snd (update rm g n)) /\
  erase (snd (update rm g n)) = erase n.
Proof.
  induction n as [c op l r | c a IHa b IHb | c a IHa b IHb]; intros Hcv.
  - simpl in *. destruct c as [x|].
    + simpl. repeat split; auto. symmetry. auto.
    + destruct (cmp_val rm g op l r) as [x|] eqn:E; simpl; rewrite ?E; repeat split; auto;
        intros y Hy; congruence.
  - simpl in Hcv. destruct Hcv as (Hc & Ha & Hb).
    specialize (IHa Ha). specialize (IHb Hb).
    simpl. destruct c as [x|].
    + simpl. repeat split; auto. symmetry. apply Hc; auto.
    + destruct (update rm g a) as [la a'] eqn:Ua. simpl in IHa. destruct IHa as (Ea & Ca & Ra).
      destruct la as [[|]|].
      * destruct (update rm g b) as [rb b'] eqn:Ub. simpl in IHb. destruct IHb as (Eb & Cb & Rb).
        rewrite <- Ea.
        destruct rb as [[|]|]; simpl; rewrite ?Ra, ?Rb; repeat split; auto;
          try (intros y Hy; inversion Hy; subst; rewrite <- Ea, <- Eb; reflexivity);
          try (intros y Hy; discriminate).
      * rewrite <- Ea. simpl. rewrite ?Ra. repeat split; auto;
        try (intros y Hy; inversion Hy; subst; rewrite <- Ea; reflexivity).
      * rewrite <- Ea. simpl. rewrite ?Ra. repeat split; auto;
        try (intros y Hy; discriminate).
  - simpl in Hcv. destruct Hcv as (Hc & Ha & Hb).
    specialize (IHa Ha). specialize (IHb Hb).
    simpl. destruct c as [x|].
    + simpl. repeat split; auto. symmetry. apply Hc; auto.
    + destruct (update rm g a) as [la a'] eqn:Ua. simpl in IHa. destruct IHa as (Ea & Ca & Ra).
      destruct (update rm g b) as [rb b'] eqn:Ub. simpl in IHb. destruct IHb as (Eb & Cb & Rb).
      rewrite <- Ea, <- Eb.
      destruct la as [[|]|]; [| destruct rb as [[|]|] | destruct rb as [[|]|]];
        simpl; rewrite ?Ra, ?Rb; repeat split; auto;
        try (intros y Hy; inversion Hy; subst; rewrite <- Ea, <- ?Eb; reflexivity);
        try (intros y Hy; discriminate).
Qed.

(** ** definite responses vs. the Kleene semantics *)
Lemma mresp_sound g : forall p b, mresp rm g p = Some b -> eval3 rm g p = Some b.
Proof.
  induction p as [op l r | a IHa b IHb | a IHa b IHb]; intros x; simpl; auto.
  - destruct (mresp rm g a) as [[|]|] eqn:Ea; try discriminate.
    + intros Hb. rewrite (IHa _ eq_refl), (IHb _ Hb). destruct x; reflexivity.
    + intros Hx; inversion Hx; subst. rewrite (IHa _ eq_refl). reflexivity.
  - destruct (mresp rm g a) as [[|]|] eqn:Ea.
    + intros Hx; inversion Hx; subst. rewrite (IHa _ eq_refl). reflexivity.
    + rewrite (IHa _ eq_refl).
      destruct (mresp rm g b) as [[|]|] eqn:Eb; try discriminate;
        intros Hx; inversion Hx; subst; rewrite (IHb _ eq_refl); reflexivity.
    + destruct (mresp rm g b) as [[|]|] eqn:Eb; try discriminate.
      intros Hx; inversion Hx; subst. rewrite (IHb _ eq_refl).
      destruct (eval3 rm g a) as [[|]|]; reflexivity.
Qed.

Lemma mresp_complete_true g : forall p, eval3 rm g p = Some true -> mresp rm g p = Some true.
Proof.
  induction p as [op l r | a IHa b IHb | a IHa b IHb]; simpl; auto.
  - destruct (eval3 rm g a) as [[|]|]; destruct (eval3 rm g b) as [[|]|]; simpl; try discriminate.
    intros _. rewrite IHa, IHb; auto.
  - intros H.
    destruct (mresp rm g a) as [[|]|] eqn:Ea; auto.
    + assert (Eb : eval3 rm g b = Some true).
      { apply mresp_sound in Ea. rewrite Ea in H.
        destruct (eval3 rm g b) as [[|]|]; simpl in H; try discriminate; auto. }
      rewrite (IHb Eb). reflexivity.
    + assert (Eb : eval3 rm g b = Some true).
      { destruct (eval3 rm g a) as [[|]|] eqn:E3.
        - discriminate (IHa eq_refl).
        - destruct (eval3 rm g b) as [[|]|]; simpl in H; try discriminate; auto.
        - destruct (eval3 rm g b) as [[|]|]; simpl in H; try discriminate; auto. }
      rewrite (IHb Eb). reflexivity.
Qed.

Definition final (r : resp) : bool := match r with Some true => true | _ => false end.

Lemma final_some b : final (Some b) = b.
Proof. destruct b; reflexivity. Qed.

Lemma final_mresp g p :
  final (mresp rm g p) = match eval3 rm g p with Some true => true | _ => false end.
Proof.
  destruct (mresp rm g p) as [[|]|] eqn:E; simpl.
  - rewrite (mresp_sound _ _ _ E). reflexivity.
  - rewrite (mresp_sound _ _ _ E). reflexivity.
  - destruct (eval3 rm g p) as [[|]|] eqn:E3; auto.
    rewrite (mresp_complete_true _ _ E3) in E. discriminate.
Qed.

(** Kleene evaluation with "final unknown = no match" is the two-valued evaluation in which a
    comparison on an absent tag is false (there is no negation in the language). *)
Lemma eval3_eval2 g : forall p b, eval3 rm g p = Some b -> eval2 rm g p = b.
Proof.
  induction p as [op l r | a IHa b IHb | a IHa b IHb]; intros x; simpl.
  - intros ->. reflexivity.
  - destruct (eval3 rm g a) as [[|]|] eqn:Ea; destruct (eval3 rm g b) as [[|]|] eqn:Eb;
      simpl; intros Hx; inversion Hx; subst;
      rewrite ?(IHa _ eq_refl), ?(IHb _ eq_refl); auto using andb_false_r.
  - destruct (eval3 rm g a) as [[|]|] eqn:Ea; destruct (eval3 rm g b) as [[|]|] eqn:Eb;
      simpl; intros Hx; inversion Hx; subst;
      rewrite ?(IHa _ eq_refl), ?(IHb _ eq_refl); auto using orb_true_r.
Qed.

Lemma eval2_eval3 g : forall p, eval2 rm g p = true -> eval3 rm g p = Some true.
Proof.
  induction p as [op l r | a IHa b IHb | a IHa b IHb]; simpl.
  - destruct (cmp_val rm g op l r) as [[|]|]; auto; discriminate.
  - intros H. apply andb_true_iff in H as [H1 H2]. rewrite IHa, IHb; auto.
  - intros H. apply orb_true_iff in H as [H1|H1].
    + rewrite IHa; auto.
    + rewrite IHb; auto. destruct (eval3 rm g a) as [[|]|]; reflexivity.
Qed.

Lemma holds_eval2 p env : holds rm p env = eval2 rm (lookup env) p.
Proof.
  unfold holds. destruct (eval3 rm (lookup env) p) as [[|]|] eqn:E.
  - symmetry. apply (eval3_eval2 _ _ _ E).
  - symmetry. apply (eval3_eval2 _ _ _ E).
  - destruct (eval2 rm (lookup env) p) eqn:E2; auto.
    rewrite (eval2_eval3 _ _ E2) in E. discriminate.
Qed.

(** nothing is decided while no referenced tag is set *)
Lemma mresp_none_initial g p :
  wf_pred p = true -> (forall k, In k (refs p) -> g k = None) -> mresp rm g p = None.
Proof.
  induction p as [op l r | a IHa b IHb | a IHa b IHb]; simpl; intros Hw Hg.
  - unfold cmp_val. destruct l as [k|lb]; simpl in *.
    + rewrite Hg; auto.
    + destruct r as [k|rb|i]; simpl in *; try discriminate.
      rewrite Hg; auto.
  - apply andb_true_iff in Hw as [Ha Hb].
    rewrite IHa; auto. intros k Hk. apply Hg. apply in_or_app; auto.
  - apply andb_true_iff in Hw as [Ha Hb].
    rewrite IHa, IHb; auto; intros k Hk; apply Hg; apply in_or_app; auto.
Qed.

(** * Part 2: the abstract walk over (tag, value) pairs *)
Fixpoint feed (p : pred) (g : getter) (root : node) (pairs : tagset) : bool :=
  match pairs with
  | [] => false
  | (t, v) :: r =>
      if tracked p t then
        let g' := upd g t (Some v) in
        let '(rs, root') := update rm g' root in
        match rs with
        | Some b => b
        | None => feed p g' root' r
        end
      else feed p g root r
  end.

Definition ovr (g : getter) (env : tagset) : getter :=
  fun k => match lookup env k with Some v => Some v | None => g k end.

Lemma lookup_notin env k : ~ In k (map fst env) -> lookup env k = None.
Proof.
  induction env as [|[k' v] r IH]; simpl; auto.
  intros H. destruct (bytes_eqb k' k) eqn:E.
  - apply bytes_eqb_eq in E. subst. exfalso; auto.
  - apply IH. auto.
Qed.

Lemma feed_correct p : forall env g root,
  erase root = p -> cv g root -> NoDup (map fst env) ->
  (forall k, In k (map fst env) -> g k = None) ->
  mresp rm g p = None ->
  feed p g root env = final (mresp rm (ovr g env) p).
Proof.
  induction env as [|[k v] r IH]; intros g root He Hcv Hnd Hg Hm.
  - simpl. replace (mresp rm (ovr g []) p) with (mresp rm g p).
    + rewrite Hm. reflexivity.
    + apply mresp_ext. intros k _. reflexivity.
  - simpl in Hnd. apply NoDup_cons_iff in Hnd as [Hnotin Hnd'].
    simpl. destruct (tracked p k) eqn:Tk.
    + set (g' := upd g k (Some v)).
      assert (Hle : gle g g').
      { intros k' v' Hk'. unfold g', upd. destruct (bytes_eqb k k') eqn:E; auto.
        apply bytes_eqb_eq in E. subst. rewrite Hg in Hk'; [discriminate | simpl; auto]. }
      assert (Hcv' : cv g' root) by (eapply cv_mono; eauto).
      destruct (update_spec g' root Hcv') as (E1 & E2 & E3).
      destruct (update rm g' root) as [rs root'] eqn:U. simpl in E1, E2, E3.
      rewrite (He) in E1.
      assert (Hext : forall k', ovr g' r k' = ovr g ((k, v) :: r) k').
      { intros k'. unfold ovr, g', upd. simpl. destruct (bytes_eqb k k') eqn:E.
        - apply bytes_eqb_eq in E. subst. rewrite lookup_notin; auto.
        - reflexivity. }
      destruct rs as [b|].
      * symmetry. rewrite <- (final_some b). f_equal.
        apply (mresp_mono g' (ovr g ((k, v) :: r))); auto.
        intros k' v' Hk'. rewrite <- Hext. unfold ovr.
        destruct (lookup r k') as [w|] eqn:El; auto.
        exfalso. unfold g', upd in Hk'. destruct (bytes_eqb k k') eqn:E.
        -- apply bytes_eqb_eq in E. subst. rewrite lookup_notin in El; auto. discriminate.
        -- assert (Hin : In k' (map fst r)).
           { destruct (in_dec (list_eq_dec N.eq_dec) k' (map fst r)) as [i|ni]; auto.
             rewrite lookup_notin in El; auto. discriminate. }
           rewrite Hg in Hk'; [discriminate | simpl; auto].
      * rewrite (IH g' root'); auto.
        -- f_equal. apply mresp_ext. intros k' _. apply Hext.
        -- congruence.
        -- intros k' Hk'. unfold g', upd. destruct (bytes_eqb k k') eqn:E.
           ++ apply bytes_eqb_eq in E. subst. contradiction.
           ++ apply Hg. simpl; auto.
    + rewrite (IH g root); auto.
      * f_equal. apply mresp_ext. intros k' Hk'. unfold ovr. simpl.
        destruct (bytes_eqb k k') eqn:E; auto.
        apply bytes_eqb_eq in E. subst.
        apply existsb_bytes_In in Hk'. unfold tracked in Tk. congruence.
      * intros k' Hk'. apply Hg. simpl; auto.
Qed.

End Sem.
