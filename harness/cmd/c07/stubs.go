package main

import (
	"math/rand/v2"

	"verifh/vh"
)

type fltCase struct{}
type strCase struct{}
type blkCase struct{}

func runFloat(w *vh.W, c *jcase) {}
func runStr(w *vh.W, c *jcase)   {}
func runBlock(w *vh.W, c *jcase) {}

func fixedCases() []jcase {
	cs := fixedS8b()
	cs = append(cs, fixedInt()...)
	cs = append(cs, fixedBool()...)
	return cs
}
func genCase(r *rand.Rand, big bool) jcase {
	switch x := r.IntN(100); {
	case x < 25:
		return genS8b(r, big)
	case x < 55:
		return genInt(r, big)
	case x < 85:
		return genTime(r, big)
	default:
		return genBool(r, big)
	}
}
