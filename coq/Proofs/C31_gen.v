(** C31 — proofs about the snowflake generator small-step machine. *)
From Verif Require Import Base.Prelude Model.C31.
From Coq Require Import ZifyBool ZifyNat ZifyN Sorted.
Ltac Zify.zify_post_hook ::= Z.div_mod_to_equations.
Local Open Scope N_scope.

(** ** Bit operations as arithmetic *)
Lemma land_seq x : N.land x sequenceMask = x mod 4096.
Proof. change sequenceMask with (N.ones 12). rewrite N.land_ones. reflexivity. Qed.

Lemma land_time x : N.land x timeMask = x mod 4398046511104.
Proof. change timeMask with (N.ones 42). rewrite N.land_ones. reflexivity. Qed.

Lemma shr_time x : N.shiftr x timeShift = x / 4194304.
Proof. unfold timeShift. rewrite N.shiftr_div_pow2. reflexivity. Qed.

Lemma shl_time x : N.shiftl x timeShift = x * 4194304.
Proof. unfold timeShift. rewrite N.shiftl_mul_pow2. reflexivity. Qed.

Lemma W64_val : W64 = 18446744073709551616. Proof. reflexivity. Qed.
Lemma MAXT_val : MAXT = 18446744073705357312. Proof. reflexivity. Qed.

(** The machine-id field (bits 12..21) of a state. *)
Definition mbits (s : N) : N := (s / 4096) mod 1024.

Lemma clock_t_lt now : clock_t now < 4398046511104.
Proof. unfold clock_t. rewrite land_time. apply N.mod_lt. lia. Qed.

Lemma next_state_arith t cur :
  next_state t cur =
  let ct := (cur / 4194304) mod 4398046511104 in
  if ct <? t then (t * 4194304) mod 18446744073709551616
  else if cur mod 4096 =? 4095 then ((ct + 1) * 4194304) mod 18446744073709551616
  else (cur + 1) mod 18446744073709551616.
Proof.
  unfold next_state. rewrite land_time, land_seq, shr_time, !shl_time, W64_val.
  reflexivity.
Qed.

(** Every state a caller may install is strictly above the one it loaded, stays below
    2^64 and keeps the machine-id field zero — unless the time field is at its maximum. *)
Lemma next_state_props t cur :
  t < 4398046511104 -> cur < MAXT -> mbits cur = 0 ->
  cur < next_state t cur /\ next_state t cur < W64 /\ mbits (next_state t cur) = 0.
Proof.
  intros Ht Hc Hm. rewrite next_state_arith, W64_val. rewrite MAXT_val in Hc.
  unfold mbits in *. cbv zeta.
  destruct ((cur / 4194304) mod 4398046511104 <? t) eqn:E1.
  - lia.
  - destruct (cur mod 4096 =? 4095) eqn:E2; lia.
Qed.

Lemma add_props g :
  g < MAXT -> mbits g = 0 -> N.land g sequenceMask <> sequenceMask ->
  g < (g + 1) mod W64 /\ (g + 1) mod W64 < W64 /\ mbits ((g + 1) mod W64) = 0.
Proof.
  rewrite land_seq, W64_val, MAXT_val. unfold mbits, sequenceMask. intros. lia.
Qed.

(** ** [state | machine] is [state + machine] while the machine field of the state is 0 *)
Lemma testbit_small a j : a < 2 ^ j -> N.testbit a j = false.
Proof.
  intro H. destruct (N.eq_dec a 0) as [->|Hz]; [apply N.bits_0|].
  apply N.bits_above_log2. apply N.log2_lt_pow2; lia.
Qed.

Lemma land_machine s mid :
  mbits s = 0 -> mid <= 1023 -> N.land s (machine_of mid) = 0.
Proof.
  intros Hm Hmid. apply N.bits_inj. intro i. rewrite N.land_spec, N.bits_0.
  unfold machine_of, serverShift.
  destruct (N.ltb_spec i 12) as [Hi|Hi].
  - rewrite N.shiftl_spec_low by exact Hi. apply andb_false_r.
  - rewrite N.shiftl_spec_high' by exact Hi.
    destruct (N.ltb_spec i 22) as [Hj|Hj].
    + replace (N.testbit s i) with false; [reflexivity|].
      unfold mbits in Hm. change 4096 with (2 ^ 12) in Hm. change 1024 with (2 ^ 10) in Hm.
      assert (E1 : N.testbit (s / 2 ^ 12) (i - 12) = N.testbit s i)
        by (rewrite N.div_pow2_bits; f_equal; lia).
      assert (E2 : N.testbit ((s / 2 ^ 12) mod 2 ^ 10) (i - 12) = N.testbit (s / 2 ^ 12) (i - 12))
        by (apply N.mod_pow2_bits_low; lia).
      rewrite <- E1, <- E2, Hm. symmetry. apply N.bits_0.
    + rewrite (testbit_small mid (i - 12)); [apply andb_false_r|].
      apply N.le_lt_trans with 1023; [exact Hmid|].
      apply N.lt_le_trans with (2 ^ 10); [reflexivity|]. apply N.pow_le_mono_r; lia.
Qed.

Lemma id_of_add s mid :
  mbits s = 0 -> mid <= 1023 -> id_of (machine_of mid) s = s + machine_of mid.
Proof.
  intros Hm Hmid. unfold id_of.
  pose proof (land_machine s mid Hm Hmid) as Hl.
  rewrite <- (N.lxor_lor _ _ Hl). symmetry. apply N.add_nocarry_lxor. exact Hl.
Qed.

(** ** Invariant of the machine *)
Definition decreasing := StronglySorted (fun a b : N => b < a).

Definition Inv (c : config) : Prop :=
  glob c < W64 /\ mbits (glob c) = 0 /\
  (forall k i t cur, thr c k = TCas i t cur -> t < 4398046511104) /\
  (forall s, In s (outs c) -> 0 < s /\ s <= glob c /\ mbits s = 0) /\
  decreasing (outs c).

Lemma Inv_init : Inv init.
Proof.
  unfold Inv, init; cbn [glob thr outs].
  split; [reflexivity|]. split; [reflexivity|]. split; [intros; discriminate|].
  split; [intros s []|constructor].
Qed.

Lemma upd_cas f k v j i t cur :
  upd f k v j = TCas i t cur -> (v = TCas i t cur) \/ f j = TCas i t cur.
Proof. unfold upd. destruct (Nat.eqb j k); auto. Qed.

Lemma push_out g outs st :
  (forall s, In s outs -> 0 < s /\ s <= g /\ mbits s = 0) -> decreasing outs ->
  g < st -> mbits st = 0 ->
  (forall s, In s (st :: outs) -> 0 < s /\ s <= st /\ mbits s = 0) /\ decreasing (st :: outs).
Proof.
  intros Ho Hd Hlt Hm. split.
  - intros s [<-|Hin]; [repeat split; lia|].
    destruct (Ho s Hin) as [H1 [H2 H3]]. repeat split; lia.
  - constructor; [exact Hd|]. apply Forall_forall. intros s Hin.
    destruct (Ho s Hin) as [_ [H2 _]]. lia.
Qed.

Ltac inv_split := refine (conj _ (conj _ (conj _ (conj _ _)))); cbn [glob thr outs].

Lemma step_inv c l c' : Inv c -> ok_label c l -> step c l = Some c' -> Inv c'.
Proof.
  intros [Hg [Hm [Ht [Ho Hd]]]] [Hok1 Hok2] Hs.
  destruct l as [k|k now|k|k]; cbn [step] in Hs.
  - destruct (thr c k) eqn:Ek; try discriminate. inversion Hs; subst c'; clear Hs.
    inv_split; auto.
    intros j i t cur H. apply upd_cas in H as [H|H]; [discriminate|eauto].
  - destruct (thr c k) as [|i| |] eqn:Ek; try discriminate.
    inversion Hs; subst c'; clear Hs.
    inv_split; auto.
    intros j i' t cur H. apply upd_cas in H as [H|H]; [|eauto].
    inversion H; subst. apply clock_t_lt.
  - destruct (thr c k) as [| |i t cur|] eqn:Ek; try discriminate.
    destruct (glob c =? cur) eqn:Eg.
    + apply N.eqb_eq in Eg. subst cur.
      destruct (next_state_props t (glob c) (Ht _ _ _ _ Ek) Hok1 Hm) as [P1 [P2 P3]].
      destruct (next_state t (glob c) =? 0) eqn:E0; [lia|].
      inversion Hs; subst c'; clear Hs.
      destruct (push_out _ _ _ Ho Hd P1 P3) as [Q1 Q2].
      inv_split; auto.
      intros j i' t' cur H. apply upd_cas in H as [H|H]; [discriminate|eauto].
    + inversion Hs; subst c'; clear Hs. inv_split; auto.
      intros j i' t' cur' H. apply upd_cas in H as [H|H]; [|eauto].
      destruct (Nat.ltb (S i) 100); discriminate.
  - destruct (thr c k) eqn:Ek; try discriminate.
    destruct (add_props (glob c) Hok1 Hm Hok2) as [P1 [P2 P3]].
    inversion Hs; subst c'; clear Hs.
    destruct (push_out _ _ _ Ho Hd P1 P3) as [Q1 Q2].
    inv_split; auto.
    intros j i' t' cur H. apply upd_cas in H as [H|H]; [discriminate|eauto].
Qed.

Lemma run_inv ls : forall c c',
  Inv c -> no_excluded c ls -> run c ls = Some c' -> Inv c'.
Proof.
  induction ls as [|l r IH]; intros c c' Hi Hn Hr; cbn in *.
  - inversion Hr; subst; exact Hi.
  - destruct Hn as [Hok Hn]. destruct (step c l) as [c1|] eqn:Es; [|discriminate].
    eapply IH; [eapply step_inv; eauto | exact Hn | exact Hr].
Qed.

(** ** From the invariant to distinct non-zero ids *)
Lemma decreasing_NoDup l : decreasing l -> NoDup l.
Proof.
  induction 1 as [|a l Hs IH Hf]; constructor; [|exact IH].
  intro Hin. rewrite Forall_forall in Hf. specialize (Hf a Hin). lia.
Qed.

Lemma NoDup_map_inj {A B} (f : A -> B) l :
  (forall x y, In x l -> In y l -> f x = f y -> x = y) -> NoDup l -> NoDup (map f l).
Proof.
  intros Hinj Hnd. induction Hnd as [|a l Hnin Hnd IH]; cbn; constructor.
  - intro Hin. apply in_map_iff in Hin as [y [Hy Hin]].
    assert (y = a) by (apply Hinj; cbn; auto). subst. contradiction.
  - apply IH. intros x y Hx Hy. apply Hinj; cbn; auto.
Qed.

Lemma Inv_unique c mid :
  Inv c -> mid <= 1023 ->
  NoDup (ids (machine_of mid) c) /\ Forall (fun i => i <> 0) (ids (machine_of mid) c).
Proof.
  intros [_ [_ [_ [Ho Hd]]]] Hmid. unfold ids. split.
  - apply NoDup_map_inj; [|apply decreasing_NoDup, Hd].
    intros x y Hx Hy. destruct (Ho x Hx) as [_ [_ Mx]]. destruct (Ho y Hy) as [_ [_ My]].
    rewrite !id_of_add by assumption. lia.
  - apply Forall_forall. intros i Hin. apply in_map_iff in Hin as [s [Hs Hin]].
    destruct (Ho s Hin) as [H0 [_ Ms]]. rewrite id_of_add in Hs by assumption. lia.
Qed.

Lemma gen_unique mid ls c :
  mid <= 1023 -> run init ls = Some c -> no_excluded init ls ->
  NoDup (ids (machine_of mid) c) /\ Forall (fun i => i <> 0) (ids (machine_of mid) c).
Proof.
  intros Hmid Hr Hn. apply Inv_unique; [|exact Hmid].
  eapply run_inv; [apply Inv_init | exact Hn | exact Hr].
Qed.

(** The returned states themselves are strictly increasing in order of the atomic
    step that produced them (whatever the clock does, including going backwards). *)
Lemma gen_states_increasing ls c :
  run init ls = Some c -> no_excluded init ls -> decreasing (outs c).
Proof.
  intros Hr Hn. destruct (run_inv ls init c Inv_init Hn Hr) as [_ [_ [_ [_ Hd]]]]. exact Hd.
Qed.

(** ** The excluded fallback-carry case really breaks uniqueness in the model. *)
Definition now0 : N := 1790000000000.

Lemma nodup_b_complete l : NoDup l -> nodup_b l = true.
Proof.
  induction 1 as [|a l Hnin Hnd IH]; cbn; [reflexivity|].
  rewrite IH, andb_true_r. destruct (existsb (N.eqb a) l) eqn:Ex; [|reflexivity].
  apply existsb_exists in Ex as [y [Hy Ey]]. apply N.eqb_eq in Ey. subst. contradiction.
Qed.

Lemma carry_duplicate :
  exists c, run init (carry_schedule now0) = Some c /\
            ~ NoDup (ids (machine_of 1) c).
Proof.
  assert (Hb : option_map (fun c => nodup_b (ids (machine_of 1) c))
                          (run init (carry_schedule now0)) = Some false)
    by (vm_compute; reflexivity).
  destruct (run init (carry_schedule now0)) as [c|]; [|discriminate].
  exists c. split; [reflexivity|]. intro Hnd. apply nodup_b_complete in Hnd.
  change (Some (nodup_b (ids (machine_of 1) c)) = Some false) in Hb.
  rewrite Hnd in Hb. discriminate.
Qed.

(** Sequential use (one caller): the id returned is the model's [next_seq]. *)
Lemma seq_call now c :
  thr c 0%nat = TIdle ->
  next_state (clock_t now) (glob c) <> 0 ->
  exists c', run c (solo 0 now 1) = Some c' /\
             glob c' = fst (next_seq 0 now (glob c)) /\
             outs c' = glob c' :: outs c /\ thr c' 0%nat = TIdle.
Proof.
  intros Hidle Hnz. cbn [solo run step]. rewrite Hidle. cbn [glob thr outs].
  unfold upd at 1. cbn [Nat.eqb]. cbn [glob thr outs].
  unfold upd at 1. cbn [Nat.eqb]. rewrite N.eqb_refl.
  destruct (next_state (clock_t now) (glob c) =? 0) eqn:E0; [apply N.eqb_eq in E0; contradiction|].
  eexists. split; [reflexivity|]. cbn. repeat split.
Qed.
