(** C35 — placeholder while the proofs are being built (replaced before delivery). *)
From Verif Require Import Base.Prelude Model.C35.
Theorem C35_merge_needs_equal_precision :
  forall a b, k_p a <> k_p b -> k_merge a b = None.
Proof. intros a b H. unfold k_merge. apply N.eqb_neq in H. rewrite H. reflexivity. Qed.
Print Assumptions C35_merge_needs_equal_precision.
