(** C12 — The line protocol parser is total and accepts exactly well-formed lines.
    Property theorems only (proofs in Proofs/C12.v; the parser mirror is Model/C11.v).

    TOTALITY.  [parse_points : precision -> Z -> bytes -> list rawpoint * list (bytes * N)]
    is a Gallina function: it is total by construction (structural recursion, plus one
    fuel-bounded loop over the blocks whose fuel [S (length buf)] is never exhausted because
    every iteration consumes at least one byte).  This is totality OF THE MODEL.  That the Go
    code never panics or hangs is NOT a theorem here: it is only observed by the driver
    (every real call runs under recover() and a 2 s deadline) — the "never panics or hangs"
    clause is therefore PARTIAL (tested, not proved). *)
From Verif Require Import Base.Prelude Model.C11 Model.C12 Proofs.C12.
Local Open Scope N_scope.

(** Every point returned by the parser (for ALL byte strings, unbounded) has, as seen
    through its accessors ([view] = Key(), Name(), Tags(), FieldIterator, UnixNano()):
    a non-empty measurement name; at least one field; a series key made of a measurement
    and tags whose (escaped) keys are strictly increasing — hence unique — and not
    reserved; series key + 4 + every field key within MaxKeyLength (and the key itself);
    a timestamp inside [MinNanoTime, MaxNanoTime].  The only hypothesis is that the
    caller's default time, truncated to the precision, is itself representable. *)
Theorem C12_parsed_points_wf :
  forall prec dflt buf p,
    time_ok (trunc_time dflt prec) = true ->
    In p (fst (parse_points prec dflt buf)) ->
    v_name (view p) <> [] /\
    v_fields (view p) <> [] /\
    (exists m tags, v_key (view p) = build_key m tags /\
                    strictly_sorted (map tag_key tags) = true /\
                    NoDup (map tag_key tags) /\
                    forallb (fun t => negb (is_reserved (tag_key t))) tags = true) /\
    fields_within (view p) /\ blen (v_key (view p)) <= MaxKeyLength /\
    time_ok (v_time (view p)) = true.
Proof. exact parsed_points_wf. Qed.
Print Assumptions C12_parsed_points_wf.

(** "At least one field WITH A NAME" (what Fields() returns, what NewPoint demands): for ALL
    byte strings, the first field of every returned point has a non-empty name.  (Before the
    repair of scanFields — an '=' that is the first byte of the fields section is now rejected
    whatever whitespace byte was skipped — this was refuted by  m<space><TAB>=1 ; the former
    witness is now the regression example below.) *)
Theorem C12_first_field_named :
  forall prec dflt buf p,
    In p (fst (parse_points prec dflt buf)) ->
    exists k v r, v_fields (view p) = (k, v) :: r /\ k <> [].
Proof. exact parsed_points_named_field. Qed.
Print Assumptions C12_first_field_named.

Example C12_tab_before_equals_rejected :
  parse_points P_ns 0 tab_witness = ([], [(tab_witness, E_MISSING_FIELD_KEY)]).
Proof. exact tab_witness_rejected. Qed.

(** FULL STATEMENT (refuted; OPEN finding): the typed accessors of a returned point never fail.
    scanFields pairs backslashes (an '=' after an ESCAPED backslash separates key and value)
    while walkFields / FieldIterator look one byte back (that '=' counts as escaped): the line
        m a\\="x=-i,b=1" 5
    is accepted; the iterator sees an Integer field (key up to the x, value -i) whose
    IntegerValue() returns an error, and a Float field whose FloatValue() returns an error.
    Replayed on the real code.  No weakening is proved for this clause (it would need: no
    backslash in the fields section).  The PANIC of StringValue() on a lone double-quote value
    (line  m a\\="x=t,b="  ) is repaired: it returns the empty string (second example). *)
Theorem C12_accessors_total_refuted :
  map (fun p => v_fields (view p)) (fst (parse_points P_ns 0 bsl_witness2))
    = [[([97; 92; 61; 34; 120], VErr 0); ([98], VErr 1)]] /\
  snd (parse_points P_ns 0 bsl_witness2) = [].
Proof. exact accessor_error_refuted. Qed.
Print Assumptions C12_accessors_total_refuted.

Example C12_lone_quote_value_no_panic :
  map (fun p => v_fields (view p)) (fst (parse_points P_ns 0 bsl_witness))
    = [[([97; 92; 61; 34; 120], VBool true); ([98], VStr [])]].
Proof. exact lone_quote_no_panic. Qed.

(** The error list is exactly the candidate lines (non-blank, non-comment blocks) on which
    parsePoint fails, in order, and the returned points are exactly the results on the
    other candidate lines, in order. *)
Theorem C12_errors_name_rejected_lines :
  forall prec dflt buf,
    map fst (snd (parse_points prec dflt buf))
      = filter (fun t => negb (is_ok (parse_point prec dflt t))) (candidate_lines buf) /\
    fst (parse_points prec dflt buf) = oks (map (parse_point prec dflt) (candidate_lines buf)).
Proof. exact errors_name_rejected_lines. Qed.
Print Assumptions C12_errors_name_rejected_lines.

(** ... where a block is skipped iff it is all whitespace or its first non-whitespace byte
    is '#', and the blocks lose no input byte (each block is a prefix of what remains; the
    one byte dropped after it is the terminating newline). *)
Theorem C12_skipped_blocks_are_blank_or_comment :
  forall block, candidate block = None <->
    (all_ws block = true \/ exists ws r, block = ws ++ HASH :: r /\ all_ws ws = true).
Proof. exact candidate_none. Qed.
Print Assumptions C12_skipped_blocks_are_blank_or_comment.

Theorem C12_scan_line_loses_nothing :
  forall l q f e c b r, scan_line q f e c l = (b, r) -> l = b ++ r.
Proof. exact scan_line_app. Qed.
Print Assumptions C12_scan_line_loses_nothing.

(** The http/points wrapper reports an error iff some line was rejected, naming the same
    lines, and otherwise returns all points. *)
Theorem C12_http_wrapper_same_rejections :
  forall prec dflt buf,
    match http_parse prec dflt buf with
    | HErr r => r <> [] /\ r = map fst (snd (parse_points prec dflt buf))
    | HOk n => snd (parse_points prec dflt buf) = [] /\
               n = N.of_nat (length (fst (parse_points prec dflt buf)))
    end.
Proof. exact http_parse_spec. Qed.
Print Assumptions C12_http_wrapper_same_rejections.

(** Non-vacuity: a two-line body with unsorted tags and one bad line: one point with
    sorted unique tags, one named rejection. *)
Example C12_nonvacuous :
  let body := [109;44;98;61;49;44;97;61;50;32;102;61;49;105;32;53;10;120;10;35;99] in
  (* "m,b=1,a=2 f=1i 5\nx\n#c" *)
  map (fun p => (v_key (view p), v_tags (view p), v_fields (view p), v_time (view p)))
      (fst (parse_points P_ns 0 body))
    = [([109;44;97;61;50;44;98;61;49], [([97],[50]); ([98],[49])], [([102], VInt 1)], 5%Z)]
  /\ snd (parse_points P_ns 0 body) = [([120], E_MISSING_FIELDS)].
Proof. vm_compute. split; reflexivity. Qed.
