#!/bin/bash
# Build /verif/build/fluxstub: symlink farm over the cached flux module with a pure-Go libflux
# (so packages importing the root influxdb package link offline), and (re)generate the
# harness go.mod/go.sum from /repo's.   --gomod-only: just the latter.
set -e
V=/verif
D=$V/build/fluxstub
mkdir -p $V/build
if [ "$1" != "--gomod-only" ] || [ ! -d "$D" ]; then
  FLUXVER=$(awk '$1=="github.com/influxdata/flux"{print $2}' /repo/go.mod | head -1)
  SRC=$(go env GOMODCACHE)/github.com/influxdata/flux@$FLUXVER
  [ -d "$SRC" ] || { echo "flux module $SRC not in module cache" >&2; exit 2; }
  T=$(mktemp -d $V/build/fluxstub.XXXXXX); mkdir -p "$T/libflux/go/libflux"
  for e in "$SRC"/* "$SRC"/.[a-z]*; do
    [ -e "$e" ] || continue
    b=$(basename "$e")
    case "$b" in libflux|go.mod|go.sum) ;; *) ln -s "$e" "$T/$b";; esac
  done
  cp "$SRC/go.mod" "$SRC/go.sum" "$T/"; chmod u+w "$T/go.mod" "$T/go.sum"
  cp $V/harness/fluxstub_src/libflux.go "$T/libflux/go/libflux/libflux.go"
  rm -rf "$D"; mv "$T" "$D"
fi
# modfile that lets in-repo packages of /repo be tested with the stub (go test -modfile=...)
gen() {
  cp /repo/go.mod $V/build/repo.go.mod.tmp; echo "replace github.com/influxdata/flux => $D" >> $V/build/repo.go.mod.tmp
  cmp -s $V/build/repo.go.mod.tmp $V/build/repo.go.mod || mv $V/build/repo.go.mod.tmp $V/build/repo.go.mod; rm -f $V/build/repo.go.mod.tmp
  cmp -s /repo/go.sum $V/build/repo.go.sum || cp /repo/go.sum $V/build/repo.go.sum
  cmp -s /repo/go.sum $V/harness/go.sum || cp /repo/go.sum $V/harness/go.sum
  {
    echo "module verifh"; echo
    sed -e '/^module /d' /repo/go.mod
    echo
    echo "require github.com/influxdata/influxdb/v2 v2.0.0"
    echo "replace github.com/influxdata/influxdb/v2 => /repo"
    echo "replace github.com/influxdata/flux => $D"
  } > $V/harness/go.mod.tmp
  cmp -s $V/harness/go.mod.tmp $V/harness/go.mod || mv $V/harness/go.mod.tmp $V/harness/go.mod; rm -f $V/harness/go.mod.tmp
}
( flock 9; gen ) 9>$V/build/gomod.lock
