(** C12 — The line protocol parser is total and accepts exactly well-formed lines.
    The parser mirror is [Model/C11.v] ([parse_points]); this file only adds the
    independent well-formedness oracle and the correspondence case.  No proofs here. *)
From Verif Require Import Base.Prelude Model.C11.
Local Open Scope N_scope.

(** * Well-formedness of a returned point, stated on what its accessors return
      (Name(), Tags(), FieldIterator, Key(), UnixNano()) — independent of the scanners. *)
Fixpoint nodup_b (ks : list bytes) : bool :=
  match ks with
  | [] => true
  | k :: r => negb (existsb (bytes_eqb k) r) && nodup_b r
  end.

Definition has_named_field (fs : list (bytes * fval)) : bool :=
  existsb (fun kv => match fst kv with [] => false | _ => true end) fs.

(** the series key split at its unescaped commas (first segment = measurement) *)
Fixpoint segs_loop (prev : N) (cur : bytes) (l : bytes) : list bytes :=
  match l with
  | [] => [frev cur]
  | c :: t => if (c =? COMMA) && negb (prev =? BSL) then frev cur :: segs_loop c [] t
              else segs_loop c (c :: cur) t
  end.
(** tags in Key() strictly increasing by (escaped) tag key: sorted and unique *)
Definition key_tags_sorted (key : bytes) : bool :=
  strictly_sorted (map tag_key (tl (segs_loop 0 [] key))).

Definition wf_view (v : pview) : bool :=
  match v_name v with [] => false | _ => true end
  && has_named_field (v_fields v)
  && forallb (fun kv => match snd kv with VErr _ => false | _ => true end) (v_fields v)
     (* every typed accessor of the FieldIterator succeeds (no error, no panic) *)
  && nodup_b (map fst (v_tags v))
  && forallb (fun kv => blen (v_key v) + 4 + blen (fst kv) <=? MaxKeyLength) (v_fields v)
  && time_ok (v_time v)
  && key_tags_sorted (v_key v).

(** [a] is a subsequence of [b] *)
Fixpoint subseq_b (a b : list bytes) : bool :=
  match a, b with
  | [], _ => true
  | _, [] => false
  | x :: a', y :: b' => if bytes_eqb x y then subseq_b a' b' else subseq_b a b'
  end.

(** models.ParsePointsWithPrecision as wrapped by http/points.Parser.Parse: an error
    (carrying the same message) and NO points if any line failed. *)
Inductive hres := HErr (rejected : list bytes) | HOk (npoints : N).
Definition http_parse (prec : precision) (dflt : Z) (buf : bytes) : hres :=
  let (ps, es) := parse_points prec dflt buf in
  match es with
  | [] => HOk (N.of_nat (length ps))
  | _ => HErr (map fst es)
  end.

Record case := {
  c_body : list seg;               (* the request body / buffer *)
  c_prec : N; c_dflt : Z;
  c_points : list spview;          (* points returned by ParsePointsWithPrecision *)
  c_rejected : list (list seg);    (* line texts quoted in its error, in order *)
  c_http_err : bool;               (* http/points Parser.Parse returned an error *)
  c_http_rejected : list (list seg);
  c_http_npoints : N
}.

Definition check (c : case) : verdict :=
  let body := expand (c_body c) in
  let prec := prec_of_code (c_prec c) in
  let pts := map un_spview (c_points c) in
  let rej := map expand (c_rejected c) in
  let hrej := map expand (c_http_rejected c) in
  let '(m_pts, m_errs) := parse_points prec (c_dflt c) body in
  let same :=
      list_eqb pview_eqb pts (map view m_pts)
      && list_eqb bytes_eqb rej (map fst m_errs)
      && match http_parse prec (c_dflt c) body with
         | HErr r => c_http_err c && list_eqb bytes_eqb hrej r
         | HOk n => negb (c_http_err c) && (c_http_npoints c =? n)
         end in
  let cands := candidate_lines body in
  let ok :=
      forallb wf_view pts
      && subseq_b rej cands
      && (N.of_nat (length pts + length rej) =? N.of_nat (length cands))
      && (if c_http_err c then negb (match rej with [] => true | _ => false end) && list_eqb bytes_eqb hrej rej
          else match rej with [] => c_http_npoints c =? N.of_nat (length pts) | _ => false end) in
  judge same ok.
