(** C36 radix tree — final refinement lemmas: for every history of Insert / Get / DeletePrefix /
    Minimum / Maximum the pre-order walk of the tree IS the abstract sorted map, Get is its
    lookup and Len its size; all returned values (Minimum / Maximum included) agree with the
    abstract map, because neither Insert nor DeletePrefix ever leaves a dead node behind.

    Split: [C36_radix_ord] (order on byte strings, prefixes, list lemmas),
    [C36_radix_wf] (invariant, keys of the walk, sortedness, Get),
    [C36_radix_ins] (Insert), [C36_radix_del] (DeletePrefix), this file (Min/Max, histories). *)
From Verif Require Import Base.Prelude Model.C36_rhh Model.C36_radix.
From Verif Require Export Proofs.C36_radix_ord Proofs.C36_radix_wf Proofs.C36_radix_ins
  Proofs.C36_radix_del.
From Coq Require Import Sorted.

(** the structural invariant of [C36_radix_wf] under the name used in [Model/C36_radix.v] *)
Notation rwf := wf (only parsing).

(** ** trees without dead nodes — in fact the compressed-trie invariant: every non-root node
    is a leaf or has at least two edges ([nd] for a non-root node, [nde] for the edges of any
    node; the root itself is exempt) *)
Fixpoint nd (n : rnode) : Prop :=
  match n with RNode leaf _ es => (leaf <> None \/ (2 <= ecount es)%nat) /\ nde es end
with nde (es : redges) : Prop :=
  match es with ENil => True | ECons _ ch rest => nd ch /\ nde rest end.

Lemma nd_nde n : nd n -> nde (r_edges n).
Proof. destruct n; simpl; tauto. Qed.

Lemma nd_prefix_irrel leaf p p' es : nd (RNode leaf p es) -> nd (RNode leaf p' es).
Proof. exact (fun H => H). Qed.

Lemma nd_walk_nonempty :
  (forall n, nd n -> walk n <> []) /\
  (forall es, nde es -> es <> ENil -> walk_edges es <> []).
Proof.
  apply rnode_redges_ind.
  - intros leaf p es IH [[H|H] He]; rewrite walk_node.
    + destruct leaf; [discriminate | contradiction].
    + intro E. apply app_eq_nil in E as [_ E]. revert E. apply IH; [assumption|].
      destruct es; [simpl in H; lia | discriminate].
  - intros _ H; contradiction.
  - intros l ch IHc rest IHr [Hc Hr] _. rewrite walk_edges_cons.
    intro E. apply app_eq_nil in E as [E _]. revert E. apply IHc, Hc.
Qed.

Lemma hd_error_app_nonempty {A} (L1 L2 : list A) :
  L1 <> [] -> hd_error (L1 ++ L2) = hd_error L1.
Proof. destruct L1; [contradiction | reflexivity]. Qed.

Lemma rev_nonempty {A} (L : list A) : L <> [] -> rev L <> [].
Proof.
  intros H E. apply H. rewrite <- (rev_involutive L), E. reflexivity.
Qed.

(** [Minimum] = first binding of the walk *)
Lemma min_walk_both :
  (forall n, nde (r_edges n) -> min_node n = hd_error (walk n)) /\
  (forall es, nde es ->
     match es with ENil => True | ECons _ ch _ => min_node ch = hd_error (walk ch) end).
Proof.
  apply rnode_redges_ind.
  - intros leaf p es IH He. cbn [r_edges] in He. specialize (IH He).
    destruct leaf as [kv|]; [reflexivity|].
    destruct es as [|l ch rest]; [reflexivity|].
    cbn [min_node]. rewrite IH, walk_node, walk_edges_cons. cbn [leaf_list app].
    symmetry. apply hd_error_app_nonempty. apply nd_walk_nonempty. apply He.
  - intros _. exact I.
  - intros l ch IHc rest _ [Hc _]. apply IHc, nd_nde, Hc.
Qed.

(** [Maximum] = last binding of the walk *)
Lemma max_walk_both :
  (forall n, nde (r_edges n) -> max_node n = hd_error (rev (walk n))) /\
  (forall es, nde es ->
     match es with
     | ENil => max_edges es = None
     | ECons _ _ _ => max_edges es = Some (hd_error (rev (walk_edges es)))
     end).
Proof.
  apply rnode_redges_ind.
  - intros leaf p es IH He. cbn [r_edges] in He. specialize (IH He).
    cbn [max_node]. rewrite walk_node.
    destruct es as [|l ch rest].
    + rewrite IH. cbn [walk_edges]. rewrite app_nil_r. destruct leaf; reflexivity.
    + rewrite IH, rev_app_distr. symmetry. apply hd_error_app_nonempty.
      apply rev_nonempty. apply nd_walk_nonempty; [exact He | discriminate].
  - intros _. reflexivity.
  - intros l ch IHc rest IHr [Hc Hr]. specialize (IHr Hr). specialize (IHc (nd_nde _ Hc)).
    cbn [max_edges]. rewrite walk_edges_cons.
    destruct rest as [|l2 ch2 rest2].
    + rewrite IHr, IHc. cbn [walk_edges]. rewrite app_nil_r. reflexivity.
    + rewrite IHr, rev_app_distr. f_equal. symmetry. apply hd_error_app_nonempty.
      apply rev_nonempty. apply nd_walk_nonempty; [exact Hr | discriminate].
Qed.

(** [Insert] creates no dead node *)
Lemma add_edge_not_nil es c n : add_edge es c n <> ENil.
Proof. destruct es as [|l ch rest]; simpl; [discriminate|]. destruct (N.ltb l c); discriminate. Qed.

Lemma nde_add_edge es c n : nde es -> nd n -> nde (add_edge es c n).
Proof.
  intros He Hn. induction es as [|l ch rest IH]; simpl.
  - split; [exact Hn | exact I].
  - destruct He as [Hc Hr]. destruct (N.ltb l c); simpl; auto.
Qed.

Lemma ecount_add_edge es c n : ecount (add_edge es c n) = S (ecount es).
Proof.
  induction es as [|l ch rest IH]; simpl; [reflexivity|].
  destruct (N.ltb l c); simpl; [rewrite IH|]; reflexivity.
Qed.

Lemma ins_nd_both :
  (forall n search s v n' ins r, ins_node n search s v = (n', ins, r) ->
     (nde (r_edges n) -> nde (r_edges n')) /\ (nd n -> nd n')) /\
  (forall es c search s v, nde es ->
     match ins_edges es c search s v with
     | Some (es', _, _) => nde es' /\ ecount es' = ecount es
     | None => True
     end).
Proof.
  apply rnode_redges_ind.
  - intros leaf p es IH search s v n' ins r E.
    assert (NL : nd (RNode (Some (s, v)) search ENil)).
    { simpl. split; [left; discriminate | exact I]. }
    destruct search as [|c tl]; cbn [ins_node] in E.
    + destruct leaf as [[k old]|]; injection E as <- <- <-.
      * split; auto.
      * cbn [r_edges]. split; [auto|]. intros [_ He]. split; [left; discriminate | exact He].
    + specialize (IH c (c :: tl) s v).
      destruct (ins_edges es c (c :: tl) s v) as [[[es' ins'] r']|];
        injection E as <- <- <-; cbn [r_edges].
      * split.
        -- intro He. apply IH, He.
        -- intros [Hd He]. destruct (IH He) as [H1 H2]. split; [rewrite H2; exact Hd | exact H1].
      * split.
        -- intro He. apply nde_add_edge; assumption.
        -- intros [Hd He]. split; [|apply nde_add_edge; assumption].
           destruct Hd as [Hd|Hd]; [left; exact Hd | right; rewrite ecount_add_edge; lia].
  - intros; exact I.
  - intros l ch IHc rest IHr c search s v [Hc Hr]. cbn [ins_edges].
    destruct (N.eqb l c).
    + destruct ch as [cl cp ces].
      destruct (Nat.eqb (lcp search cp) (length cp)).
      * destruct (ins_node (RNode cl cp ces) (skipn (lcp search cp) search) s v)
          as [[ch' ins] r] eqn:EI.
        apply IHc in EI as [_ EI]. split; [|reflexivity]. split; [apply EI, Hc | exact Hr].
      * split; [|reflexivity]. split; [|exact Hr].
        assert (NO : nd (RNode cl (skipn (lcp search cp) cp) ces)) by exact Hc.
        assert (NLOW : nde (add_edge ENil (nth (lcp search cp) cp 0%N)
                                     (RNode cl (skipn (lcp search cp) cp) ces))).
        { simpl. split; [exact NO | exact I]. }
        destruct (skipn (lcp search cp) search) as [|c' sr] eqn:ES.
        -- split; [left; discriminate | exact NLOW].
        -- split; [right; rewrite !ecount_add_edge; simpl; lia|].
           apply nde_add_edge; [exact NLOW|].
           simpl. split; [left; discriminate | exact I].
    + specialize (IHr c search s v Hr).
      destruct (ins_edges rest c search s v) as [[[rest' ins] r]|]; [|exact I].
      destruct IHr as [H1 H2]. split; [split; assumption|]. simpl. rewrite H2. reflexivity.
Qed.

(** [DeletePrefix] creates no dead node either: the emptied child is unlinked ([delEdge]); its
    parent keeps a leaf, or keeps >= 2 edges, or has exactly one edge left and is merged with
    that child, or is the root. *)
Lemma del_nd_both :
  (forall n b prefix n' cnt, del_node b n prefix = (n', cnt) ->
     (nde (r_edges n) -> b = true -> nde (r_edges n'))
     /\ (nd n -> b = false -> prefix <> [] -> nd n')) /\
  (forall es c prefix, nde es ->
     match del_edges es c prefix with
     | Some (es', _, cleared) =>
         nde es' /\ (if cleared then ecount es = S (ecount es') else ecount es' = ecount es)
     | None => True
     end).
Proof.
  apply rnode_redges_ind.
  - intros leaf p es IH b prefix n' cnt E.
    destruct prefix as [|c tl]; cbn [del_node] in E.
    + injection E as <- <-. split; [intros; exact I | intros _ _ H; contradiction].
    + specialize (IH c (c :: tl)).
      destruct (del_edges es c (c :: tl)) as [[[es' cnt'] cleared]|].
      * split.
        -- intros He ->. cbn [negb] in E. rewrite andb_false_r in E. cbn [andb] in E.
           injection E as <- <-. cbn [r_edges]. apply IH, He.
        -- intros [Hd He] -> _. destruct (IH He) as [H1 H2]. cbn [negb] in E.
           assert (GEN : (RNode leaf p es', cnt') = (n', cnt) ->
                         (leaf <> None \/ cleared = false \/ (2 <= ecount es')%nat) -> nd n').
           { intros E' C. injection E' as <- <-. split; [|exact H1].
             destruct C as [C|[C|C]]; [left; exact C | | right; exact C].
             subst cleared. rewrite H2. exact Hd. }
           destruct (cleared && true && is_none leaf) eqn:M.
           ++ apply andb_true_iff in M as [M M3]. apply andb_true_iff in M as [M1 _].
              subst cleared. destruct leaf; [discriminate|].
              destruct Hd as [Hd|Hd]; [contradiction|].
              destruct es' as [|l1 [cl1 cp1 ces1] [|l2 ch2 r2]].
              ** simpl in H2. lia.
              ** injection E as <- <-. exact (proj1 H1).
              ** apply (GEN E). right; right. simpl. lia.
           ++ apply (GEN E). destruct cleared; [|auto]. destruct leaf; [left; discriminate|].
              simpl in M. discriminate.
      * injection E as <- <-. split; [intros He _; exact He | intros Hd _ _; exact Hd].
  - intros; exact I.
  - intros l ch IHc rest IHr c prefix [Hc Hr]. cbn [del_edges].
    destruct (N.eqb l c).
    + destruct ch as [cl cp ces].
      destruct (negb (has_prefix cp prefix) && negb (has_prefix prefix cp)); [exact I|].
      destruct (if Nat.ltb (length prefix) (length cp) then [] else skipn (length cp) prefix)
        as [|x r'] eqn:EP.
      * split; [exact Hr | reflexivity].
      * destruct (del_node false (RNode cl cp ces) (x :: r')) as [ch' cnt] eqn:ED.
        apply IHc in ED as [_ ED].
        split; [|reflexivity]. split; [|exact Hr]. apply ED; [exact Hc | reflexivity | discriminate].
    + specialize (IHr c prefix Hr).
      destruct (del_edges rest c prefix) as [[[rest' cnt] cleared]|]; [|exact I].
      destruct IHr as [H1 H2]. split; [split; assumption|].
      destruct cleared; simpl; rewrite H2; reflexivity.
Qed.

(** ** one operation *)
Definition is_minmax (o : rop) : bool := match o with RMin | RMax => true | _ => false end.

Lemma robs_eqb_refl x : robs_eqb x x = true.
Proof.
  destruct x as [[[v b] k] n]. unfold robs_eqb.
  rewrite !Z.eqb_refl, bytes_eqb_refl, Bool.eqb_reflx. reflexivity.
Qed.

Lemma r_step_spec t a o t' ob :
  tree_inv t a -> r_step t o = (t', ob) ->
  tree_inv t' (smap_step a o)
  /\ (is_minmax o = false \/ nde (r_edges (r_root t)) -> ob = smap_obs a o)
  /\ (nde (r_edges (r_root t)) -> nde (r_edges (r_root t'))).
Proof.
  intros Inv E. destruct o as [k v|k|p| |]; cbn [r_step smap_step is_minmax] in *.
  - (* Insert *)
    destruct (r_insert t k v) as [[t1 ins] r] eqn:EI. injection E as <- <-.
    destruct (r_insert_spec _ _ _ _ _ _ _ Inv EI) as [Inv' R].
    split; [exact Inv'|]. split.
    + intros _. destruct Inv' as (_ & _ & Hs). unfold smap_obs. cbn [smap_step]. rewrite Hs.
      destruct (smap_get k a); injection R as -> ->; reflexivity.
    + intros Hn. unfold r_insert in EI.
      destruct (ins_node (r_root t) k k v) as [[root' ins0] r0] eqn:EN.
      injection EI as <- _ _. cbn [r_root].
      apply (proj1 ins_nd_both) in EN as [EN _]. apply EN, Hn.
  - (* Get *)
    rewrite (tree_inv_get _ _ k Inv) in E.
    assert (Hs : r_size t = Z.of_nat (length a)) by apply Inv.
    split; [|split].
    + destruct (smap_get k a); injection E as <- _; exact Inv.
    + intros _. unfold smap_obs. cbn [smap_step]. rewrite <- Hs.
      destruct (smap_get k a); injection E as _ <-; reflexivity.
    + intros Hn. destruct (smap_get k a); injection E as <- _; exact Hn.
  - (* DeletePrefix *)
    destruct (r_delete_prefix t p) as [t1 cnt] eqn:ED. injection E as <- <-.
    destruct (r_delete_prefix_spec _ _ _ _ _ Inv ED) as [Inv' ->].
    split; [exact Inv'|]. split.
    + intros _. destruct Inv' as (_ & _ & Hs). unfold smap_obs. cbn [smap_step]. rewrite Hs.
      reflexivity.
    + intros Hn. unfold r_delete_prefix in ED.
      destruct (del_node true (r_root t) p) as [root' cnt0] eqn:EN.
      injection ED as <- _. cbn [r_root].
      apply (proj1 del_nd_both) in EN as [EN _]. apply EN; [exact Hn | reflexivity].
  - (* Minimum *)
    assert (Hs : r_size t = Z.of_nat (length a)) by apply Inv.
    assert (Ht : t' = t) by (destruct (min_node (r_root t)) as [[k v]|]; injection E as <- _; reflexivity).
    subst t'. split; [exact Inv|]. split; [|auto].
    intros [H|Hn]; [discriminate|].
    rewrite (proj1 min_walk_both _ Hn) in E.
    destruct Inv as (_ & Hw & _). rewrite Hw in E.
    unfold smap_obs. cbn [smap_step]. rewrite <- Hs.
    destruct a as [|[k v] a']; cbn [hd_error] in E; injection E as <-; reflexivity.
  - (* Maximum *)
    assert (Hs : r_size t = Z.of_nat (length a)) by apply Inv.
    assert (Ht : t' = t) by (destruct (max_node (r_root t)) as [[k v]|]; injection E as <- _; reflexivity).
    subst t'. split; [exact Inv|]. split; [|auto].
    intros [H|Hn]; [discriminate|].
    rewrite (proj1 max_walk_both _ Hn) in E.
    destruct Inv as (_ & Hw & _). rewrite Hw in E.
    unfold smap_obs. cbn [smap_step]. rewrite <- Hs.
    destruct (rev a) as [|[k v] a']; cbn [hd_error] in E; injection E as <-; reflexivity.
Qed.

(** ** histories *)
Lemma tree_inv_new : tree_inv r_new [].
Proof. unfold tree_inv, r_new; simpl. auto. Qed.

Lemma run_refines ops : forall t a t' obs,
  tree_inv t a -> r_run t ops = (t', obs) -> tree_inv t' (fold_left smap_step ops a).
Proof.
  induction ops as [|o ops IH]; intros t a t' obs Inv E; cbn [r_run fold_left] in *.
  - injection E as <- _. exact Inv.
  - destruct (r_step t o) as [t1 ob] eqn:ES.
    destruct (r_run t1 ops) as [t2 obs'] eqn:ER. injection E as <- _.
    destruct (r_step_spec _ _ _ _ _ Inv ES) as [Inv' _].
    eapply IH; eauto.
Qed.

(** [keys_sorted a := StronglySorted (fun x y => bytes_ltb x y = true) (map fst a)]
    is defined in [C36_radix_ord] (re-exported here). *)
Lemma keys_sorted_def a :
  keys_sorted a = StronglySorted (fun x y => bytes_ltb x y = true) (map fst a).
Proof. reflexivity. Qed.

(** For ALL histories of Insert / Get / DeletePrefix / Minimum / Maximum: the pre-order walk
    IS the abstract sorted map, Get is its lookup, Len its size. *)
Lemma radix_refines_sorted_map : forall ops t obs, r_run r_new ops = (t, obs) ->
  let a := fold_left smap_step ops [] in
  walk (r_root t) = a
  /\ (forall k, r_get t k = smap_get k a)
  /\ r_size t = Z.of_nat (length a)
  /\ keys_sorted a.
Proof.
  intros ops t obs E a.
  pose proof (run_refines ops _ _ _ _ tree_inv_new E) as Inv. fold a in Inv.
  split; [apply Inv|]. split; [|split; [apply Inv|]].
  - intro k. apply tree_inv_get, Inv.
  - apply (tree_inv_sorted _ _ Inv).
Qed.

Lemma nde_new : nde (r_edges (r_root r_new)).
Proof. exact I. Qed.

(** from any well-formed state without dead nodes *)
Lemma run_oracle ops : forall t a t' obs,
  tree_inv t a -> nde (r_edges (r_root t)) ->
  r_run t ops = (t', obs) ->
  smap_oracle a ops obs = true /\ nde (r_edges (r_root t')).
Proof.
  induction ops as [|o ops IH]; intros t a t' obs Inv Hn E; cbn [r_run] in E.
  - injection E as <- <-. split; [reflexivity | exact Hn].
  - destruct (r_step t o) as [t1 ob] eqn:ES.
    destruct (r_run t1 ops) as [t2 obs'] eqn:ER. injection E as <- <-.
    destruct (r_step_spec _ _ _ _ _ Inv ES) as (Inv' & Hob & Hnd).
    cbn [smap_oracle]. rewrite (Hob (or_intror Hn)), robs_eqb_refl. cbn [andb].
    eapply IH; eauto.
Qed.

(** No dead node is ever created: on every reachable tree all non-root nodes are leaves or
    have at least two edges. *)
Lemma radix_no_dead_node : forall ops t obs, r_run r_new ops = (t, obs) ->
  nde (r_edges (r_root t)).
Proof.
  intros ops t obs E. eapply (run_oracle ops r_new []); eauto using tree_inv_new, nde_new.
Qed.

(** For ALL histories: every returned value — Insert's (value, inserted), Get's (value, found),
    DeletePrefix's count, Len after each operation, Minimum / Maximum = first / last binding —
    equals the abstract sorted map's answer. *)
Lemma radix_obs_oracle : forall ops t obs, r_run r_new ops = (t, obs) ->
  smap_oracle [] ops obs = true.
Proof.
  intros ops t obs E. eapply (run_oracle ops r_new []); eauto using tree_inv_new, nde_new.
Qed.

(** (kept for compatibility: the restriction to histories without Minimum/Maximum after a
    DeletePrefix, needed before [delEdge] was added, is now a trivial corollary) *)
Fixpoint minmax_safe (seen_del : bool) (ops : list rop) : bool :=
  match ops with
  | [] => true
  | RDelPrefix _ :: r => minmax_safe true r
  | RMin :: r | RMax :: r => negb seen_del && minmax_safe seen_del r
  | _ :: r => minmax_safe seen_del r
  end.

Lemma radix_obs_oracle_safe : forall ops t obs, r_run r_new ops = (t, obs) ->
  minmax_safe false ops = true -> smap_oracle [] ops obs = true.
Proof. intros ops t obs E _. eapply radix_obs_oracle, E. Qed.

(** For ARBITRARY histories: all observations other than those of Minimum / Maximum are the
    abstract map's answers ([patch_minmax] replaces the Min/Max observations by the abstract
    answers and keeps every other observation of the tree). *)
Fixpoint patch_minmax (a : list (bytes * Z)) (ops : list rop) (obs : list robs) : list robs :=
  match ops, obs with
  | o :: r, ob :: obs' =>
      (if is_minmax o then smap_obs a o else ob) :: patch_minmax (smap_step a o) r obs'
  | _, _ => []
  end.

Lemma run_oracle_nominmax ops : forall t a t' obs,
  tree_inv t a -> r_run t ops = (t', obs) ->
  smap_oracle a ops (patch_minmax a ops obs) = true.
Proof.
  induction ops as [|o ops IH]; intros t a t' obs Inv E; cbn [r_run] in E.
  - injection E as _ <-. reflexivity.
  - destruct (r_step t o) as [t1 ob] eqn:ES.
    destruct (r_run t1 ops) as [t2 obs'] eqn:ER. injection E as _ <-.
    destruct (r_step_spec _ _ _ _ _ Inv ES) as (Inv' & Hob & _).
    cbn [patch_minmax smap_oracle].
    assert (OB : (if is_minmax o then smap_obs a o else ob) = smap_obs a o).
    { destruct (is_minmax o) eqn:M; [reflexivity | apply Hob; left; reflexivity]. }
    rewrite OB, robs_eqb_refl. cbn [andb]. eapply IH; eauto.
Qed.

Lemma radix_obs_oracle_nominmax : forall ops t obs, r_run r_new ops = (t, obs) ->
  length obs = length ops /\ smap_oracle [] ops (patch_minmax [] ops obs) = true.
Proof.
  intros ops t obs E. split.
  - clear -E. revert t obs E. generalize r_new.
    induction ops as [|o ops IH]; intros t0 t obs E; cbn [r_run] in E.
    + injection E as _ <-. reflexivity.
    + destruct (r_step t0 o) as [t1 ob]. destruct (r_run t1 ops) as [t2 obs'] eqn:ER.
      injection E as _ <-. simpl. f_equal. eapply IH, ER.
  - eapply run_oracle_nominmax; eauto using tree_inv_new.
Qed.

(** Minimum after a DeletePrefix that empties the first child: the first edge is unlinked,
    so Minimum finds the remaining key. *)
Lemma radix_minmax_after_delete_ok :
  let ops := [RInsert [1%N] 1%Z; RInsert [2%N] 2%Z; RDelPrefix [1%N]; RMin] in
  smap_oracle [] ops (snd (r_run r_new ops)) = true.
Proof. vm_compute. reflexivity. Qed.
