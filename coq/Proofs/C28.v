From Verif Require Import Base.Prelude Model.C28.

Lemma grants_b_spec p q : grants_b p q = true <-> grants p q.
Proof.
  destruct p as [pa [pt pi po]], q as [qa [qt qi qo]]; unfold grants_b, grants; cbn.
  rewrite andb_true_iff, orb_true_iff, andb_true_iff, !orb_true_iff, !N.eqb_eq.
  split.
  - intros [Ha [Hi | [Ht H]]]; split; auto. right; split; auto.
    destruct H as [[H | H] | H].
    + left. destruct po, pi; try discriminate; auto.
    + right; left. destruct pi; try discriminate. destruct po as [o|]; try discriminate.
      destruct qo as [o'|]; try discriminate. apply N.eqb_eq in H; subst. eauto.
    + right; right. destruct pi as [i|]; try discriminate. destruct qi as [i'|]; try discriminate.
      apply N.eqb_eq in H; subst. eauto.
  - intros [Ha [Hi | [Ht H]]]; split; auto. right; split; auto.
    destruct H as [[H1 H2] | [[H1 [o [H2 H3]]] | [i [H1 H2]]]]; subst.
    + left; left. reflexivity.
    + left; right. apply N.eqb_refl.
    + right. apply N.eqb_refl.
Qed.

Lemma matches_grants_b p q : matchesV1 p q = grants_b p q.
Proof.
  destruct p as [pa [pt pi po]], q as [qa [qt qi qo]]; unfold matchesV1, grants_b; cbn.
  destruct (N.eqb pa qa); cbn; [|reflexivity].
  destruct (N.eqb pt Instance); cbn; [reflexivity|].
  destruct (N.eqb pt qt); cbn; [|reflexivity].
  destruct po as [o|], pi as [i|]; cbn; try reflexivity;
    repeat match goal with
    | |- context [match ?x with Some _ => _ | None => _ end] => destruct x; cbn
    | |- context [if ?b then _ else _] => destruct b; cbn
    end; try reflexivity.
  all: rewrite ?orb_false_r, ?orb_true_r; reflexivity.
Qed.

Lemma matches_iff p q : matchesV1 p q = true <-> grants p q.
Proof. rewrite matches_grants_b. apply grants_b_spec. Qed.

Lemma allowed_iff ps q : allowed ps q = true <-> exists p, In p ps /\ grants p q.
Proof.
  unfold allowed. rewrite existsb_exists.
  split; intros [p [Hin H]]; exists p; split; auto; apply matches_iff; exact H.
Qed.

Lemma read_never_write ps q :
  allowed ps q = true -> exists p, In p ps /\ act p = act q.
Proof. intro H. apply allowed_iff in H as [p [Hin [Ha _]]]. eauto. Qed.

Lemma no_action_no_grant ps q :
  (forall p, In p ps -> act p <> act q) -> allowed ps q = false.
Proof.
  intro H. destruct (allowed ps q) eqn:E; [|reflexivity].
  apply read_never_write in E as [p [Hin Ha]]. exfalso. exact (H p Hin Ha).
Qed.

(** An organisation-scoped permission (org set, no resource id, not instance-wide)
    grants nothing in another organisation. *)
Lemma org_scoped_other_org p q o o' :
  rtype (res p) <> Instance -> rid (res p) = None -> rorg (res p) = Some o ->
  rorg (res q) = Some o' -> o <> o' -> matchesV1 p q = false.
Proof.
  intros Hi Hid Ho Hq Hne. destruct (matchesV1 p q) eqn:E; [|reflexivity].
  apply matches_iff in E as [_ [E | [_ E]]]; [contradiction|].
  destruct E as [[E _] | [[_ [x [E1 E2]]] | [i [E _]]]]; congruence.
Qed.

(** The judge's "same" and "ok" coincide: the model satisfies the oracle. *)
Lemma check_sound c : check c = V_OK \/ check c = V_BAD.
Proof.
  unfold check. rewrite (map_ext _ _ (fun p => matches_grants_b p (c_q c))).
  assert (E : allowed (c_ps c) (c_q c) =
              existsb (fun b => b) (map (fun p => grants_b p (c_q c)) (c_ps c))).
  { unfold allowed. induction (c_ps c) as [|p l IH]; cbn; [reflexivity|].
    rewrite matches_grants_b, IH. reflexivity. }
  rewrite E. unfold judge.
  destruct (_ && _); cbn; auto.
Qed.

(** A permission set grants exactly the union of what its members grant: access is
    monotone in the set and no combination of permissions grants more than one of them does. *)
Lemma allowed_app ps ps' q : allowed (ps ++ ps') q = allowed ps q || allowed ps' q.
Proof. unfold allowed. apply existsb_app. Qed.

Lemma allowed_monotone ps ps' q :
  (forall p, In p ps -> In p ps') -> allowed ps q = true -> allowed ps' q = true.
Proof.
  intros Hsub H. apply allowed_iff in H as [p [Hin Hg]].
  apply allowed_iff. exists p. split; [apply Hsub, Hin | exact Hg].
Qed.

Lemma allowed_nil q : allowed [] q = false.
Proof. reflexivity. Qed.

(** A grant never depends on the requesting side's spelling beyond the four fields the
    property names: a permission that matches a request with a resource id also matches
    nothing of another action, whatever the resource. *)
Lemma matches_same_action p q : matchesV1 p q = true -> act p = act q.
Proof. intro H. apply matches_iff in H as [Ha _]. exact Ha. Qed.
