(** C35 — register algebra: [zip_max], [reg_update], folds of register updates.
    Pure list lemmas about the definitions of [Model/C35.v]; no bit-level facts. *)
From Verif Require Import Base.Prelude Model.C35.
Local Open Scope N_scope.

Ltac ltb_cases :=
  repeat match goal with
         | |- context [?a <? ?b] => destruct (N.ltb_spec a b)
         | H : context [?a <? ?b] |- _ => destruct (N.ltb_spec a b)
         end.

(** * 1. [zip_max] *)
Lemma zip_max_length : forall a b, length (zip_max a b) = length a.
Proof. induction a as [|x a IH]; intros [|y b]; cbn [zip_max length]; auto. Qed.

Lemma zip_max_comm : forall a b, length a = length b -> zip_max a b = zip_max b a.
Proof.
  induction a as [|x a IH]; intros [|y b] L; cbn [zip_max length] in *; try discriminate; auto.
  f_equal; [ltb_cases; lia | apply IH; lia].
Qed.

Lemma zip_max_assoc : forall a b c, length a = length b -> length b = length c ->
  zip_max (zip_max a b) c = zip_max a (zip_max b c).
Proof.
  induction a as [|x a IH]; intros [|y b] [|z c] L1 L2; cbn [zip_max length] in *;
    try discriminate; auto.
  f_equal; [ltb_cases; lia | apply IH; lia].
Qed.

Lemma zip_max_idem : forall a, zip_max a a = a.
Proof.
  induction a as [|x a IH]; cbn [zip_max]; auto.
  rewrite N.ltb_irrefl, IH; reflexivity.
Qed.

Lemma zip_max_zeros : forall d n, zip_max d (repeat 0 n) = d.
Proof.
  induction d as [|x d IH]; intros [|n]; cbn [zip_max repeat]; auto.
  rewrite IH. f_equal. ltb_cases; lia.
Qed.

Lemma zeros_zip_max : forall n d, length d = n -> zip_max (repeat 0 n) d = d.
Proof.
  intros n d L. rewrite zip_max_comm by (rewrite repeat_length; auto). apply zip_max_zeros.
Qed.

(** * [reg_update] *)
Lemma reg_update_length : forall d i r, length (reg_update d i r) = length d.
Proof. induction d as [|v d IH]; intros [|i] r; cbn [reg_update length]; auto. Qed.

Lemma reg_update_zip : forall a b i r, length a = length b ->
  reg_update (zip_max a b) i r = zip_max a (reg_update b i r).
Proof.
  induction a as [|x a IH]; intros [|y b] [|i] r L; cbn [zip_max reg_update length] in *;
    try discriminate; auto.
  - f_equal. ltb_cases; lia.
  - f_equal. apply IH; lia.
Qed.

Lemma nth_reg_update : forall d i r j,
  nth j (reg_update d i r) 0 =
  if (Nat.eqb j i && Nat.ltb j (length d))%bool then N.max (nth j d 0) r else nth j d 0.
Proof.
  induction d as [|v d IH]; intros i r j.
  - cbn [reg_update length]. replace (Nat.ltb j 0) with false by (symmetry; apply Nat.ltb_ge; lia).
    rewrite andb_false_r. reflexivity.
  - destruct i as [|i], j as [|j]; cbn [reg_update nth length Nat.eqb andb]; auto.
    + change (Nat.ltb 0 (S (length d))) with true. cbn [andb]. ltb_cases; lia.
    + rewrite IH. reflexivity.
Qed.

(** * folds of updates *)
Definition upd (d : list N) (u : nat * N) : list N := reg_update d (fst u) (snd u).
Definition upds (us : list (nat * N)) (d : list N) : list N := fold_left upd us d.

Lemma upds_cons u us d : upds (u :: us) d = upds us (upd d u).
Proof. reflexivity. Qed.

Lemma upds_app us1 us2 d : upds (us1 ++ us2) d = upds us2 (upds us1 d).
Proof. apply fold_left_app. Qed.

Lemma upd_length d u : length (upd d u) = length d.
Proof. apply reg_update_length. Qed.

Lemma upds_length : forall us d, length (upds us d) = length d.
Proof.
  induction us as [|u us IH]; intro d; [reflexivity|].
  rewrite upds_cons, IH. apply upd_length.
Qed.

Lemma upds_zip : forall us a b, length a = length b ->
  upds us (zip_max a b) = zip_max a (upds us b).
Proof.
  induction us as [|u us IH]; intros a b L; [reflexivity|].
  rewrite !upds_cons. unfold upd. rewrite reg_update_zip by exact L.
  apply IH. rewrite reg_update_length. exact L.
Qed.

Lemma upds_zeros us d : upds us d = zip_max d (upds us (repeat 0 (length d))).
Proof.
  rewrite <- upds_zip by (rewrite repeat_length; reflexivity).
  rewrite zip_max_zeros. reflexivity.
Qed.

Lemma upds_app_zeros us1 us2 n :
  upds (us1 ++ us2) (repeat 0 n) = zip_max (upds us1 (repeat 0 n)) (upds us2 (repeat 0 n)).
Proof.
  rewrite upds_app. rewrite (upds_zeros us2 (upds us1 (repeat 0 n))).
  rewrite upds_length, repeat_length. reflexivity.
Qed.

(** pointwise characterisation: register [j] holds the maximum of its old value and the
    values of all updates addressed to [j] *)
Definition is_max (d : list N) (us : list (nat * N)) (j : nat) (v : N) : Prop :=
  nth j d 0 <= v /\
  (forall r, In (j, r) us -> (j < length d)%nat -> r <= v) /\
  (v = nth j d 0 \/ exists r, In (j, r) us /\ (j < length d)%nat /\ v = r).

Lemma upds_is_max : forall us d j, is_max d us j (nth j (upds us d) 0).
Proof.
  induction us as [|[i r] us IH]; intros d j.
  - cbn [upds fold_left]. split; [lia|]. split; [intros r []|]. left; reflexivity.
  - rewrite upds_cons. destruct (IH (upd d (i, r)) j) as (H1 & H2 & H3).
    set (v := nth j (upds us (upd d (i, r))) 0) in *. clearbody v.
    rewrite upd_length in H2, H3. unfold upd in H1, H3. cbn [fst snd] in H1, H3.
    rewrite nth_reg_update in H1, H3.
    destruct (Nat.eqb j i) eqn:Eji; cbn [andb] in H1, H3.
    + apply Nat.eqb_eq in Eji. subst i.
      destruct (Nat.ltb j (length d)) eqn:Ejl.
      * apply Nat.ltb_lt in Ejl. split; [lia|]. split.
        -- intros r' [E|Hin] L; [inversion E; subst; lia | apply H2; assumption].
        -- destruct H3 as [E|(r' & Hin & L & E)].
           ++ destruct (N.max_spec (nth j d 0) r) as [[_ M]|[_ M]]; rewrite M in E.
              ** right. exists r. split; [left; reflexivity|]. split; assumption.
              ** left; assumption.
           ++ right. exists r'. split; [right; assumption|]. split; assumption.
      * apply Nat.ltb_ge in Ejl. split; [lia|]. split.
        -- intros r' _ L. lia.
        -- destruct H3 as [E|(r' & Hin & L & E)]; [left; assumption | lia].
    + apply Nat.eqb_neq in Eji. split; [lia|]. split.
      * intros r' [E|Hin] L; [inversion E; subst; congruence | apply H2; assumption].
      * destruct H3 as [E|(r' & Hin & L & E)]; [left; assumption|].
        right. exists r'. split; [right; assumption|]. split; assumption.
Qed.

Lemma is_max_unique d us1 us2 j v1 v2 :
  (forall u, In u us1 <-> In u us2) -> is_max d us1 j v1 -> is_max d us2 j v2 -> v1 = v2.
Proof.
  intros Hm (A1 & A2 & A3) (B1 & B2 & B3).
  assert (v1 <= v2).
  { destruct A3 as [E|(r & Hin & L & E)]; [lia|]. subst v1. apply B2; [apply Hm; assumption|assumption]. }
  assert (v2 <= v1).
  { destruct B3 as [E|(r & Hin & L & E)]; [lia|]. subst v2. apply A2; [apply Hm; assumption|assumption]. }
  lia.
Qed.

(** the result depends only on the SET of updates *)
Lemma upds_ext us1 us2 d : (forall u, In u us1 <-> In u us2) -> upds us1 d = upds us2 d.
Proof.
  intro Hm. apply (nth_ext _ _ 0 0).
  - rewrite !upds_length. reflexivity.
  - intros j _. eapply is_max_unique; [exact Hm | apply upds_is_max | apply upds_is_max].
Qed.

Lemma in_map_ext {A B} (f : A -> B) l1 l2 :
  (forall k, In k l1 <-> In k l2) -> forall u, In u (map f l1) <-> In u (map f l2).
Proof.
  intros Hm u. rewrite !in_map_iff. split; intros (k & E & Hin); exists k; (split; [exact E|apply Hm; exact Hin]).
Qed.

(** * the two instances of the model: sparse keys and dense hashes *)
Definition key_upd (p k : N) : nat * N :=
  (N.to_nat (fst (decode_hash p k)), snd (decode_hash p k)).
Definition hash_upd (p x : N) : nat * N := (N.to_nat (dense_index p x), dense_rho p x).

Lemma reg_update_key_upd p d k : reg_update_key p d k = upd d (key_upd p k).
Proof. unfold reg_update_key, upd, key_upd. destruct (decode_hash p k); reflexivity. Qed.

Lemma fold_keys_upds p : forall keys d,
  fold_left (reg_update_key p) keys d = upds (map (key_upd p) keys) d.
Proof.
  induction keys as [|k keys IH]; intro d; [reflexivity|].
  cbn [fold_left map]. rewrite upds_cons, <- reg_update_key_upd. apply IH.
Qed.

Definition zeros (p : N) : list N := repeat 0 (N.to_nat (2 ^ p)).
Lemma zeros_length p : length (zeros p) = N.to_nat (2 ^ p).
Proof. apply repeat_length. Qed.

(** registers of a key list *)
Definition kregs (p : N) (keys : list N) : list N := fold_left (reg_update_key p) keys (zeros p).

Lemma kregs_length p keys : length (kregs p keys) = N.to_nat (2 ^ p).
Proof. unfold kregs. rewrite fold_keys_upds, upds_length. apply zeros_length. Qed.

Lemma fold_keys_length p keys d : length (fold_left (reg_update_key p) keys d) = length d.
Proof. rewrite fold_keys_upds. apply upds_length. Qed.

Lemma fold_keys_ext p l1 l2 d : (forall k, In k l1 <-> In k l2) ->
  fold_left (reg_update_key p) l1 d = fold_left (reg_update_key p) l2 d.
Proof. intro Hm. rewrite !fold_keys_upds. apply upds_ext, in_map_ext, Hm. Qed.

Lemma kregs_ext p l1 l2 : (forall k, In k l1 <-> In k l2) -> kregs p l1 = kregs p l2.
Proof. apply fold_keys_ext. Qed.

(** "key facts" of the task statement *)
Lemma fold_keys_zip_zeros p keys d : length d = N.to_nat (2 ^ p) ->
  fold_left (reg_update_key p) keys d = zip_max d (kregs p keys).
Proof.
  intro L. unfold kregs, zeros. rewrite !fold_keys_upds, (upds_zeros _ d), L. reflexivity.
Qed.

Lemma kregs_app p l1 l2 : kregs p (l1 ++ l2) = zip_max (kregs p l1) (kregs p l2).
Proof. unfold kregs, zeros. rewrite !fold_keys_upds, map_app. apply upds_app_zeros. Qed.

Lemma spec_regs_upds p xs : spec_regs p xs = upds (map (hash_upd p) xs) (zeros p).
Proof.
  unfold spec_regs, zeros. generalize (repeat 0 (N.to_nat (2 ^ p))).
  induction xs as [|x xs IH]; intro d; [reflexivity|].
  cbn [fold_left map]. rewrite upds_cons. apply IH.
Qed.

Lemma spec_regs_length p xs : length (spec_regs p xs) = N.to_nat (2 ^ p).
Proof. rewrite spec_regs_upds, upds_length. apply zeros_length. Qed.

Lemma spec_regs_app p xs ys : spec_regs p (xs ++ ys) = zip_max (spec_regs p xs) (spec_regs p ys).
Proof. rewrite !spec_regs_upds, map_app. apply upds_app_zeros. Qed.

Lemma spec_regs_snoc p xs x :
  spec_regs p (xs ++ [x]) = reg_update (spec_regs p xs) (N.to_nat (dense_index p x)) (dense_rho p x).
Proof. unfold spec_regs. rewrite fold_left_app. reflexivity. Qed.

Lemma spec_regs_ext p xs ys : (forall x, In x xs <-> In x ys) -> spec_regs p xs = spec_regs p ys.
Proof. intro Hm. rewrite !spec_regs_upds. apply upds_ext, in_map_ext, Hm. Qed.
