(** C44 — token lookup soundness, the middleware characterised, revocation lemmas. *)
From Verif Require Import Base.Prelude Model.C44 Proofs.C44_base.

Section Auth.
  Variable C : crypto.
  Hypothesis HC : crypto_ok C.
  Notation Str := (str C).

  Let seqb_spec := ok_eqb C HC.

  (** ** what it means for a stored record to verify a presented token *)
  Definition verifies (st : tstate C) (a : auth C) (tok : Str) : Prop :=
    (is_set C (a_tok C a) = true /\ a_tok C a = tok) \/
    (is_set C (a_tok C a) = false /\ is_set C (a_htok C a) = true /\
     hmatch C (decs C st) (a_htok C a) tok = Some true).

  Lemma validate_verifies st a tok : validate C st a tok = Some true <-> verifies st a tok.
  Proof.
    unfold validate, verifies. destruct (is_set C (a_tok C a)) eqn:E1.
    - split.
      + intro H. inversion H as [H1]. apply seqb_spec in H1. left; auto.
      + intros [[_ ->]|[X _]]; [|discriminate]. rewrite (seqb_refl C HC). reflexivity.
    - destruct (is_set C (a_htok C a)) eqn:E2.
      + split; [intro H; right; auto|]. intros [[X _]|[_ [_ H]]]; [discriminate|exact H].
      + split; [discriminate|]. intros [[X _]|[_ [X _]]]; discriminate.
  Qed.

  (** [GetAuthorizationByToken] only ever returns a record that IS in the store under the
      returned id and whose stored form verifies the presented token — whatever the state of
      the two indices (the final [validateToken]). *)
  Theorem find_token_sound st tok id a :
    find_token C st tok = Some (id, a) ->
    aget N.eqb id (recs C st) = Some a /\ verifies st a tok.
  Proof.
    unfold find_token.
    destruct (match aget (str_eqb C) tok (ridx C st) with
              | Some id0 => Some id0
              | None => first_hit C (hidx C st) (all_hashes C (decs C st) tok)
              end) as [id0|]; [|discriminate].
    destruct (aget N.eqb id0 (recs C st)) as [a0|] eqn:ER; [|discriminate].
    destruct (validate C st a0 tok) as [[|]|] eqn:EV; try discriminate.
    intro H. inversion H; subst. split; auto. apply validate_verifies; auto.
  Qed.

  (** a stored PHC hash produced by a hasher verifies only the token it was made from, and
      only while its variant is registered *)
  Lemma verifies_hashed st a v s tok :
    a_tok C a = empty C -> a_htok C a = thash C v s ->
    (verifies st a tok <-> In v (decs C st) /\ s = tok).
  Proof.
    intros E1 E2. unfold verifies. rewrite E1, E2, (is_set_empty C HC), (is_set_thash C HC).
    rewrite (hmatch_own_only C HC). split.
    - intros [[X _]|[_ [_ H]]]; [discriminate|exact H].
    - intro H. right; auto.
  Qed.

  Lemma verifies_raw st a tok : is_set C (a_tok C a) = true -> (verifies st a tok <-> a_tok C a = tok).
  Proof.
    intro E. unfold verifies. rewrite E. split.
    - intros [[_ H]|[X _]]; [exact H|discriminate].
    - intro H; left; auto.
  Qed.

  Lemma verifies_malformed st a tok :
    a_tok C a = empty C -> tvariant C (a_htok C a) = None -> ~ verifies st a tok.
  Proof.
    intros E1 E2 [[X _]|[_ [_ H]]].
    - rewrite E1, (is_set_empty C HC) in X. discriminate.
    - rewrite (hmatch_malformed C _ _ _ E2) in H. discriminate.
  Qed.

  (** ** sessions: found means stored and unexpired *)
  Lemma find_by_key_sound st k id s :
    find_by_key C st k = Some (id, s) ->
    exists e1 e2, aget (str_eqb C) k (sidx C st) = Some (id, e1) /\ (now C st < e1)%Z /\
                  aget N.eqb id (sdat C st) = Some (s, e2) /\ (now C st < e2)%Z.
  Proof.
    unfold find_by_key, get_idx, get_dat, live.
    destruct (aget (str_eqb C) k (sidx C st)) as [[id0 e1]|] eqn:EA; [|discriminate].
    destruct (Z.ltb (now C st) e1) eqn:L1; [|discriminate].
    destruct (aget N.eqb id0 (sdat C st)) as [[s0 e2]|] eqn:EB; [|discriminate].
    destruct (Z.ltb (now C st) e2) eqn:L2; [|discriminate].
    intro H; inversion H; subst. exists e1, e2. apply Z.ltb_lt in L1, L2. repeat split; auto.
  Qed.

  Lemma refresh_found st k id s e : find_by_key C st k = Some (id, s) -> exists st', refresh C st id e = Some st'.
  Proof.
    unfold find_by_key. destruct (get_idx C st k) as [id0|]; [|discriminate].
    destruct (get_dat C st id0) as [s0|] eqn:E; [|discriminate].
    intro H; inversion H; subst. unfold refresh. rewrite E.
    destruct (Z.ltb e (s_exp C s)); eexists; reflexivity.
  Qed.

  (** ** the middleware *)
  Definition tok_principal (id : N) (a : auth C) : principal :=
    {| p_kind := 1; p_user := a_user C a; p_ident := id; p_perm := Some (a_nperm C a) |}.
  Definition sess_principal (id : N) (s : sess C) : principal :=
    {| p_kind := 2; p_user := s_user C s; p_ident := id; p_perm := Some 0%N |}.

  (** the exact condition under which the wrapped handler is reached, and with which principal *)
  Definition auth_spec (st : state C) (h : header C) (ck : option Str) (p : principal) : Prop :=
    aget N.eqb (p_user p) (users C (ps C st)) = Some true /\
    ((exists t id a, h = HTok C t false /\ find_token C (ts C st) t = Some (id, a) /\ a_active C a = true /\
                     p = tok_principal id a) \/
     ((forall t j, h <> HTok C t j) /\
      exists k id s, ck = Some k /\ find_by_key C (ss C st) k = Some (id, s) /\ p = sess_principal id s)).

  Theorem authenticated_iff st h ck renew p :
    (exists st', authenticate C st h ck renew = (200%N, Some p, st')) <-> auth_spec st h ck p.
  Proof.
    unfold auth_spec. split.
    - intros [st' H]. unfold authenticate in H.
      destruct h as [| |t jwt].
      1: { destruct ck as [k|]; [|discriminate];
           destruct (find_by_key C (ss C st) k) as [[id s]|] eqn:EF; [|discriminate];
           destruct renew;
           [ destruct (refresh C (ss C st) id (now C (ss C st) + RenewSessionTime)) as [x|] eqn:ER; [|discriminate] | ];
           simpl in H;
           match type of H with context [aget N.eqb ?u ?l] => destruct (aget N.eqb u l) as [[|]|] eqn:EU end;
           try discriminate;
           inversion H; subst; (split; [exact EU | right; split; [intros; discriminate | exists k, id, s; auto]]). }
      1: { destruct ck as [k|]; [|discriminate];
           destruct (find_by_key C (ss C st) k) as [[id s]|] eqn:EF; [|discriminate];
           destruct renew;
           [ destruct (refresh C (ss C st) id (now C (ss C st) + RenewSessionTime)) as [x|] eqn:ER; [|discriminate] | ];
           simpl in H;
           match type of H with context [aget N.eqb ?u ?l] => destruct (aget N.eqb u l) as [[|]|] eqn:EU end;
           try discriminate;
           inversion H; subst; (split; [exact EU | right; split; [intros; discriminate | exists k, id, s; auto]]). }
      destruct jwt; [discriminate|].
      destruct (find_token C (ts C st) t) as [[id a]|] eqn:EF; [|discriminate].
      destruct (a_active C a) eqn:EA; [|discriminate].
      simpl in H.
      match type of H with context [aget N.eqb ?u ?l] => destruct (aget N.eqb u l) as [[|]|] eqn:EU end;
        try discriminate.
      inversion H; subst. split; [exact EU | left; exists t, id, a; auto].
    - intros [EU [[t [id [a [-> [EF [EA ->]]]]]] | [NT [k [id [s [-> [EF ->]]]]]]]].
      + unfold authenticate. rewrite EF, EA. simpl in *. rewrite EU. eexists; reflexivity.
      + unfold authenticate.
        destruct (refresh_found _ k id s (now C (ss C st) + RenewSessionTime) EF) as [x ER].
        destruct h as [| |t jwt]; [| |exfalso; eapply NT; reflexivity];
          rewrite EF; destruct renew; rewrite ?ER; simpl in *; rewrite EU; eexists; reflexivity.
  Qed.

  (** every other outcome is a refusal: the wrapped handler is reached only with status 200 *)
  Lemma authenticate_principal_200 st h ck renew c p st' :
    authenticate C st h ck renew = (c, Some p, st') -> c = 200%N.
  Proof.
    unfold authenticate. intro H.
    destruct h as [| |t jwt].
    1: { destruct ck as [k|]; [|discriminate];
         destruct (find_by_key C (ss C st) k) as [[id s]|]; [|discriminate];
         destruct renew;
         [ destruct (refresh C (ss C st) id (now C (ss C st) + RenewSessionTime)) as [x|]; [|discriminate] | ];
         simpl in H;
         match type of H with context [aget N.eqb ?u ?l] => destruct (aget N.eqb u l) as [[|]|] end;
         inversion H; reflexivity. }
    1: { destruct ck as [k|]; [|discriminate];
         destruct (find_by_key C (ss C st) k) as [[id s]|]; [|discriminate];
         destruct renew;
         [ destruct (refresh C (ss C st) id (now C (ss C st) + RenewSessionTime)) as [x|]; [|discriminate] | ];
         simpl in H;
         match type of H with context [aget N.eqb ?u ?l] => destruct (aget N.eqb u l) as [[|]|] end;
         inversion H; reflexivity. }
    destruct jwt; [discriminate|].
    destruct (find_token C (ts C st) t) as [[id a]|]; [|discriminate].
    destruct (a_active C a); [|discriminate].
    simpl in H.
    match type of H with context [aget N.eqb ?u ?l] => destruct (aget N.eqb u l) as [[|]|] end;
      inversion H; reflexivity.
  Qed.

  (** absent / malformed Authorization header and no cookie: rejected with 401 *)
  Lemma no_credentials_rejected st h renew :
    (forall t j, h <> HTok C t j) -> authenticate C st h None renew = (401%N, None, st).
  Proof. intro NT. destruct h; try reflexivity. exfalso; eapply NT; reflexivity. Qed.

  (** a well-formed JWT is refused (no signing key is configured) *)
  Lemma jwt_rejected st t ck renew : authenticate C st (HTok C t true) ck renew = (401%N, None, st).
  Proof. reflexivity. Qed.

  (** the Authorization header decides when both are present *)
  Lemma token_beats_cookie st t j ck ck' renew :
    fst (authenticate C st (HTok C t j) ck renew) = fst (authenticate C st (HTok C t j) ck' renew).
  Proof. reflexivity. Qed.

  (** ** consequences: who can be authenticated *)
  Theorem authenticated_only_if st h ck renew p st' :
    authenticate C st h ck renew = (200%N, Some p, st') ->
    (* never on behalf of an inactive or unknown user *)
    aget N.eqb (p_user p) (users C (ps C st)) = Some true /\
    ((* a token that exists, whose stored form verifies exactly the presented token *)
     (exists t id a, h = HTok C t false /\ p_kind p = 1%N /\ p_ident p = id /\ p_user p = a_user C a /\
                     aget N.eqb id (recs C (ts C st)) = Some a /\ verifies (ts C st) a t /\
                     (* and which is active *)
                     a_active C a = true) \/
     (* or a stored, unexpired session *)
     (exists k id s e1 e2, ck = Some k /\ p_kind p = 2%N /\ p_ident p = id /\ p_user p = s_user C s /\
                     aget (str_eqb C) k (sidx C (ss C st)) = Some (id, e1) /\ (now C (ss C st) < e1)%Z /\
                     aget N.eqb id (sdat C (ss C st)) = Some (s, e2) /\ (now C (ss C st) < e2)%Z)).
  Proof.
    intro H. assert (exists x, authenticate C st h ck renew = (200%N, Some p, x)) as HX by eauto.
    apply authenticated_iff in HX as [EU [[t [id [a [-> [EF [EA ->]]]]]] | [NT [k [id [s [-> [EF ->]]]]]]]].
    - split; [exact EU|]. left. apply find_token_sound in EF as [ER EV].
      exists t, id, a. simpl. repeat split; auto.
    - split; [exact EU|]. right. apply find_by_key_sound in EF as [e1 [e2 [A [B [D E]]]]].
      exists k, id, s, e1, e2. simpl. repeat split; auto.
  Qed.

  (** ** revocation: one step, from ANY state (hence after any history) *)
  Lemma users_after_deactivate st u :
    aget N.eqb u (users C (fst (pstep C st (SetUserActive C u false)))) <> Some true.
  Proof.
    unfold pstep. destruct (aget N.eqb u (users C st)) eqn:E; cbn [fst users].
    - rewrite (aget_aput_same N.eqb Neqb_spec). discriminate.
    - rewrite E. discriminate.
  Qed.

  Lemma users_after_delete st u :
    aget N.eqb u (users C (fst (pstep C st (DeleteUser C u)))) = None.
  Proof.
    unfold pstep. destruct (aget N.eqb u (users C st)) eqn:E; cbn [fst users]; auto.
    apply (aget_adel_same N.eqb).
  Qed.

  Theorem deactivated_user_never_authenticates st u h ck renew p x :
    let st' := fst (step C st (OP C (SetUserActive C u false))) in
    authenticate C st' h ck renew = (200%N, Some p, x) -> p_user p <> u.
  Proof.
    intros st' H E. apply authenticated_only_if in H as [EU _]. subst u.
    unfold st', step in EU.
    destruct (pstep C (ps C st) (SetUserActive C (p_user p) false)) as [q r] eqn:EP. simpl in EU.
    pose proof (users_after_deactivate (ps C st) (p_user p)) as X. rewrite EP in X. simpl in X. contradiction.
  Qed.

  Theorem deleted_user_never_authenticates st u h ck renew p x :
    let st' := fst (step C st (OP C (DeleteUser C u))) in
    authenticate C st' h ck renew = (200%N, Some p, x) -> p_user p <> u.
  Proof.
    intros st' H E. apply authenticated_only_if in H as [EU _]. subst u.
    unfold st', step in EU.
    destruct (pstep C (ps C st) (DeleteUser C (p_user p))) as [q r] eqn:EP. simpl in EU.
    pose proof (users_after_delete (ps C st) (p_user p)) as X. rewrite EP in X. simpl in X. congruence.
  Qed.

  Lemma recs_after_delete us st id : aget N.eqb id (recs C (fst (tstep C us st (DeleteAuth C id)))) = None.
  Proof.
    unfold tstep. destruct (aget N.eqb id (recs C st)) eqn:E; cbn [fst recs tset]; auto.
    apply (aget_adel_same N.eqb).
  Qed.

  Theorem deleted_token_never_authenticates st id h ck renew p x :
    let st' := fst (step C st (OT C (DeleteAuth C id))) in
    authenticate C st' h ck renew = (200%N, Some p, x) -> ~ (p_kind p = 1%N /\ p_ident p = id).
  Proof.
    intros st' H [K I]. apply authenticated_only_if in H as [_ [[t [id' [a [_ [_ [I' [_ [ER _]]]]]]]] | [k [id' [s [e1 [e2 [_ [K' _]]]]]]]]].
    - subst. unfold st', step in ER.
      destruct (tstep C (users C (ps C st)) (ts C st) (DeleteAuth C (p_ident p))) as [q r] eqn:EP. simpl in ER.
      pose proof (recs_after_delete (users C (ps C st)) (ts C st) (p_ident p)) as X. rewrite EP in X. simpl in X. congruence.
    - rewrite K in K'. discriminate.
  Qed.

  (** waiting past the expiry of an index entry makes the session unusable *)
  Theorem session_unusable_after_expiry st k id e d h renew p x :
    (forall t j, h <> HTok C t j) ->
    aget (str_eqb C) k (sidx C (ss C st)) = Some (id, e) -> (e <= now C (ss C st) + d)%Z ->
    let st' := fst (step C st (OS C (Wait C d))) in
    authenticate C st' h (Some k) renew <> (200%N, Some p, x).
  Proof.
    intros NT A L st' H. apply authenticated_only_if in H as [_ [[t [id' [a [E _]]]] | [k' [id' [s [e1 [e2 [Ek [_ [_ [_ [A' [B _]]]]]]]]]]]]].
    - eapply NT; eauto.
    - inversion Ek; subst k'. unfold st' in A', B. simpl in A', B. rewrite A in A'. inversion A'; subst. lia.
  Qed.
End Auth.

(** * The former counterexample (found by this check, repaired in /repo): an INACTIVE token of
      an active user is now refused by the middleware with 401; reactivated, it works again. *)
Definition witness_ops : list (op sym) :=
  [OP sym (CreateUser sym);
   OT sym (CreateAuth sym 0 (SPlain 0 5 0) SEmpty true 3);
   Probe sym (HTok sym (SPlain 0 5 0) false) None false;
   OT sym (SetAuthActive sym 0 false);
   Probe sym (HTok sym (SPlain 0 5 0) false) None false;
   OT sym (SetAuthActive sym 0 true);
   Probe sym (HTok sym (SPlain 0 5 0) false) None false].

Lemma inactive_token_refused :
  trace sym (init sym false true V256) witness_ops =
    [[0]; [0]; [200; 1; 0; 0; 4]; [0]; [401]; [0]; [200; 1; 0; 0; 4]]%N.
Proof. vm_compute. reflexivity. Qed.
