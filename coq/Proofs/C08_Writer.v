(** C08 proofs: the writer state machine (WriteBlock*, WriteIndex) produces exactly the layout
    [header ++ frames ++ index ++ footer] for grouped, sorted input within the limits. *)
From Verif Require Import Base.Prelude Base.C08_BE Model.C08_File Proofs.C08_Tomb Proofs.C08_Tsm.

Section WriterProofs.
  Variable crc : bytes -> N.
  Notation blk := (Z * Z * bytes)%type.

  Definition pending (s : wst) : list ikey :=
    match w_key s with [] => [] | _ => [IK (w_key s) (w_typ s) (w_ents s)] end.
  Definition Lidx (s : wst) : bytes := w_idx s ++ ser_index (pending s).
  Definition body1 (s : wst) : bytes := if (w_n s =? 0)%N then tsm_header else w_body s.

  Record winv (s : wst) : Prop := {
    wi_fail : w_fail s = false;
    wi_empty : w_key s = [] -> w_ents s = [];
    wi_cnt : (N.of_nat (length (w_ents s)) <= 65535)%N;
    wi_sorted : ents_sorted (w_ents s) = true;
    wi_n : w_n s = N.of_nat (length (w_body s)) }.

  Definition blk_ok (b : blk) : Prop := exists ty, block_type (snd b) = Some ty.
  Definition key_ok (k : key) : Prop := k <> [] /\ key_too_long (N.of_nat (length k)) = false.
  Fixpoint mins_sorted (bs : list blk) : bool :=
    match bs with
    | x :: ((y :: _) as r) => (fst (fst x) <=? fst (fst y))%Z && mins_sorted r
    | _ => true
    end.
  Definition calls_k (k : key) (bs : list blk) : list call :=
    map (fun b => (k, fst (fst b), snd (fst b), snd b)) bs.

  Lemma block_type_hd b ty : block_type b = Some ty -> b <> [] /\ ty = hd 0%N b.
  Proof. destruct b as [|x r]; cbn; [discriminate|]. destruct (x <=? 4)%N; [|discriminate]. intro E; inversion E. split; [discriminate|reflexivity]. Qed.

  Lemma hard_status_after c : hard_status (status_after c) = false.
  Proof. unfold status_after. destruct (max_entries <=? c)%N; reflexivity. Qed.

  Lemma flush_nonempty s : w_key s <> [] -> winv s ->
    flush s = W (w_n s) (w_body s) [] 0 [] (Lidx s) (w_cnt s) false.
  Proof.
    intros Hk [Hf _ Hc Hs _]. unfold flush, Lidx, pending. destruct (w_key s) as [|k0 kr] eqn:Ek; [congruence|].
    unfold max_entries. destruct (N.ltb_spec 65535 (N.of_nat (length (w_ents s)))); [lia|].
    rewrite Hs, Hf. f_equal. unfold ser_index, ser_key. cbn [flat_map ik_key ik_typ ik_ents]. rewrite app_nil_r. reflexivity.
  Qed.

  (** the first block of a new, larger key *)
  Lemma index_add_new s k ty e : winv s -> k <> [] -> (w_key s = [] \/ kcmp (w_key s) k = Lt) ->
    index_add s k ty e = Some (W (w_n s) (w_body s) k ty [e] (Lidx s) (w_cnt s + 1) false).
  Proof.
    intros Hi Hk Hord. pose proof Hi as [Hf He _ _ _]. unfold index_add.
    destruct (w_key s) as [|k0 kr] eqn:Ek.
    - rewrite (He eq_refl), Hf. unfold Lidx, pending. rewrite Ek. cbn. rewrite app_nil_r. reflexivity.
    - destruct Hord as [Ho|Ho]; [discriminate|]. rewrite Ho.
      rewrite flush_nonempty by (auto; rewrite Ek; discriminate). reflexivity.
  Qed.

  Lemma winv_header s : winv s -> (w_n s =? 0)%N = true ->
    winv (W 5 tsm_header (w_key s) (w_typ s) (w_ents s) (w_idx s) (w_cnt s) (w_fail s)).
  Proof. intros [A B C D E] _. constructor; auto. Qed.

  Lemma write_first s k mn mx b ty : winv s -> key_ok k -> block_type b = Some ty ->
    (w_key s = [] \/ kcmp (w_key s) k = Lt) ->
    exists st, hard_status st = false /\
      write_block crc s k mn mx b =
      (W (N.of_nat (length (body1 s)) + N.of_nat (length (frame crc b))) (body1 s ++ frame crc b) k ty
         [E mn mx (N.of_nat (length (body1 s))) (N.of_nat (length (frame crc b)))] (Lidx s) (w_cnt s + 1) false, st).
  Proof.
    intros Hi [Hk Hlen] Hty Hord. unfold write_block. rewrite Hlen.
    destruct (block_type_hd _ _ Hty) as [Hne _]. destruct b as [|x br]; [congruence|]. rewrite Hty.
    unfold body1. destruct (w_n s =? 0)%N eqn:En.
    - pose proof (winv_header s Hi En) as Hi1.
      rewrite (index_add_new _ k ty _ Hi1 Hk Hord). cbn [w_n w_body w_key w_typ w_ents w_idx w_cnt w_fail].
      eexists. split; cycle 1.
      { apply f_equal2; [|reflexivity]. unfold Lidx, pending. cbn [w_idx w_key w_typ w_ents]. reflexivity. }
      apply hard_status_after.
    - rewrite (index_add_new _ k ty _ Hi Hk Hord). cbn [w_n w_body w_key w_typ w_ents w_idx w_cnt w_fail].
      eexists. split; cycle 1.
      { apply f_equal2; [|reflexivity]. rewrite <- (wi_n s Hi). reflexivity. }
      apply hard_status_after.
  Qed.

  (** further blocks of the same key *)
  Lemma run_same_key k : key_ok k -> forall bs n body ty ents idx cnt, n <> 0%N -> Forall blk_ok bs ->
    exists sts, existsb hard_status sts = false /\
      run_calls crc (W n body k ty ents idx cnt false) (calls_k k bs) =
      (W (n + N.of_nat (length (frames crc bs))) (body ++ frames crc bs) k ty (ents ++ ents_of crc n bs) idx cnt false, sts).
  Proof.
    intros [Hk Hlen]. induction bs as [|b r IH]; intros n body ty ents idx cnt Hn Hok.
    - exists []. split; [reflexivity|]. cbn. rewrite N.add_0_r, !app_nil_r. reflexivity.
    - inversion Hok as [|? ? [tb Htb] Hok']; subst.
      cbn [calls_k map run_calls]. fold (calls_k k r).
      unfold write_block at 1. rewrite Hlen.
      destruct (block_type_hd _ _ Htb) as [Hne _]. destruct (snd b) as [|x br] eqn:Eb; [congruence|]. rewrite Htb.
      cbn [w_n]. destruct (N.eqb_spec n 0); [congruence|].
      unfold index_add. cbn [w_key]. destruct k as [|k0 kr]; [congruence|]. rewrite kcmp_refl.
      cbn [w_n w_body w_key w_typ w_ents w_idx w_cnt w_fail].
      set (fr := frame crc (x :: br)).
      destruct (IH (n + N.of_nat (length fr))%N (body ++ fr) ty (ents ++ [E (fst (fst b)) (snd (fst b)) n (N.of_nat (length fr))]) idx cnt
                  ltac:(lia) Hok') as [sts [Hs Hrun]].
      rewrite Hrun. eexists. split; cycle 1.
      { apply f_equal2; [|reflexivity].
        cbn [frames flat_map ents_of]. fold (frames crc r). unfold flen. rewrite Eb. fold fr.
        rewrite app_length, Nat2N.inj_add, N.add_assoc, <- !app_assoc. reflexivity. }
      cbn [existsb]. rewrite hard_status_after, Hs. reflexivity.
  Qed.

  Lemma run_calls_app a : forall s b,
    run_calls crc s (a ++ b) =
    let '(s1, st1) := run_calls crc s a in let '(s2, st2) := run_calls crc s1 b in (s2, st1 ++ st2).
  Proof.
    induction a as [|[[[k mn] mx] d] a IH]; intros s b; cbn [app run_calls].
    - destruct (run_calls crc s b); reflexivity.
    - destruct (write_block crc s k mn mx d) as [s1 st]. rewrite IH.
      destruct (run_calls crc s1 a) as [s2 sts]. destruct (run_calls crc s2 b). reflexivity.
  Qed.

  Lemma ents_of_length off bs : length (ents_of crc off bs) = length bs.
  Proof. revert off; induction bs as [|b r IH]; intro off; cbn; [reflexivity|]. rewrite IH. reflexivity. Qed.
  Lemma ents_of_sorted bs : forall off, ents_sorted (ents_of crc off bs) = mins_sorted bs.
  Proof.
    induction bs as [|b r IH]; intro off; [reflexivity|]. destruct r as [|c r']; [reflexivity|].
    change (ents_sorted (ents_of crc off (b :: c :: r')))
      with ((fst (fst b) <=? fst (fst c))%Z && ents_sorted (ents_of crc (off + flen crc b) (c :: r'))).
    rewrite IH. reflexivity.
  Qed.

  Definition group_ok (g : key * list blk) : Prop :=
    key_ok (fst g) /\ snd g <> [] /\ Forall blk_ok (snd g) /\
    (N.of_nat (length (snd g)) <= 65535)%N /\ mins_sorted (snd g) = true.

  (** one whole key *)
  Lemma run_group s k bs : winv s -> group_ok (k, bs) -> (w_key s = [] \/ kcmp (w_key s) k = Lt) ->
    exists s' sts, run_calls crc s (calls_k k bs) = (s', sts) /\ existsb hard_status sts = false /\
      winv s' /\ w_key s' = k /\ w_n s' <> 0%N /\
      w_body s' = body1 s ++ frames crc bs /\
      Lidx s' = Lidx s ++ ser_key (IK k (typ_of bs) (ents_of crc (N.of_nat (length (body1 s))) bs)) /\
      w_cnt s' = (w_cnt s + 1)%N.
  Proof.
    intros Hi [Hk [Hne [Hok [Hcnt Hsorted]]]] Hord. cbn [fst snd] in *.
    destruct bs as [|b r]; [congruence|]. inversion Hok as [|? ? [tb Htb] Hok']; subst.
    cbn [calls_k map run_calls]. fold (calls_k k r).
    destruct (write_first s k (fst (fst b)) (snd (fst b)) (snd b) tb Hi Hk Htb Hord) as [st [Hst Hw]]. rewrite Hw.
    set (n1 := N.of_nat (length (body1 s))). set (fr := frame crc (snd b)).
    assert (Hn1 : (n1 + N.of_nat (length fr))%N <> 0%N).
    { unfold fr, frame. rewrite app_length. unfold u32. rewrite be_length. lia. }
    destruct (run_same_key k Hk r _ (body1 s ++ fr) tb [E (fst (fst b)) (snd (fst b)) n1 (N.of_nat (length fr))] (Lidx s) (w_cnt s + 1)%N Hn1 Hok')
      as [sts [Hs Hrun]].
    rewrite Hrun. eexists. eexists. split; [reflexivity|].
    split; [cbn [existsb]; rewrite Hst, Hs; reflexivity|].
    assert (Eents : [E (fst (fst b)) (snd (fst b)) n1 (N.of_nat (length fr))] ++ ents_of crc (n1 + N.of_nat (length fr)) r
                    = ents_of crc n1 (b :: r)) by reflexivity.
    assert (Ebody : (body1 s ++ fr) ++ frames crc r = body1 s ++ frames crc (b :: r)).
    { rewrite <- app_assoc. reflexivity. }
    rewrite Eents, Ebody.
    destruct (block_type_hd _ _ Htb) as [_ Htyp].
    split; [|split; [reflexivity|split; [|split; [reflexivity|split; [|reflexivity]]]]].
    - constructor; cbn [w_fail w_key w_ents w_n w_body]; auto.
      + intro E0. destruct Hk as [Hk _]. congruence.
      + rewrite ents_of_length. exact Hcnt.
      + rewrite ents_of_sorted. exact Hsorted.
      + rewrite <- Ebody. rewrite !app_length, !Nat2N.inj_add. unfold n1. lia.
    - cbn [w_n]. rewrite <- N.add_assoc. lia.
    - unfold Lidx at 1, pending. cbn [w_key w_idx w_typ w_ents].
      destruct k as [|k0 kr]; [destruct Hk; congruence|].
      unfold ser_index. cbn [flat_map]. rewrite app_nil_r. unfold typ_of. rewrite <- Htyp. reflexivity.
  Qed.

  Fixpoint gsorted (prev : key) (gs : list (key * list blk)) : Prop :=
    match gs with
    | [] => True
    | g :: r => (prev = [] \/ kcmp prev (fst g) = Lt) /\ gsorted (fst g) r
    end.

  Lemma body1_nonzero s : w_n s <> 0%N -> body1 s = w_body s.
  Proof. intro H. unfold body1. destruct (N.eqb_spec (w_n s) 0); [congruence|reflexivity]. Qed.

  Lemma run_groups gs : forall s, winv s -> gsorted (w_key s) gs -> Forall group_ok gs ->
    exists s' sts, run_calls crc s (calls_of gs) = (s', sts) /\ existsb hard_status sts = false /\
      winv s' /\ (gs <> [] -> w_key s' <> [] /\ w_body s' = body1 s ++ all_frames crc gs) /\
      Lidx s' = Lidx s ++ ser_index (ikeys_of crc (N.of_nat (length (body1 s))) gs) /\
      w_cnt s' = (w_cnt s + N.of_nat (length gs))%N.
  Proof.
    induction gs as [|[k bs] r IH]; intros s Hi Hsorted Hok.
    - exists s, []. split; [reflexivity|]. split; [reflexivity|]. split; [exact Hi|]. split; [congruence|].
      split; [cbn; rewrite app_nil_r; reflexivity|cbn; lia].
    - destruct Hsorted as [Hord Hsr]. inversion Hok as [|? ? Hg Hok']; subst. cbn [fst] in *.
      unfold calls_of. cbn [flat_map fst snd]. fold (calls_k k bs). fold (calls_of r).
      rewrite run_calls_app.
      destruct (run_group s k bs Hi Hg Hord) as [s1 [st1 [R1 [H1 [I1 [K1 [N1 [B1 [L1 C1]]]]]]]]].
      rewrite R1. rewrite <- K1 in Hsr.
      destruct (IH s1 I1 Hsr Hok') as [s2 [st2 [R2 [H2 [I2 [B2 [L2 C2]]]]]]].
      rewrite R2. exists s2, (st1 ++ st2). split; [reflexivity|].
      split; [rewrite existsb_app, H1, H2; reflexivity|]. split; [exact I2|].
      rewrite (body1_nonzero s1 N1) in *. rewrite B1 in *.
      assert (Eoff : N.of_nat (length (body1 s ++ frames crc bs)) = (N.of_nat (length (body1 s)) + N.of_nat (length (frames crc bs)))%N)
        by (rewrite app_length, Nat2N.inj_add; reflexivity).
      split; [|split].
      + intros _. destruct r as [|g r'].
        * cbn in R2. inversion R2; subst s2. split; [rewrite K1; destruct Hg as [[Hk _] _]; exact Hk|].
          rewrite B1. cbn [all_frames flat_map snd]. rewrite app_nil_r. reflexivity.
        * destruct (B2 ltac:(discriminate)) as [Q1 Q2]. split; [exact Q1|].
          rewrite Q2. cbn [all_frames flat_map snd]. rewrite <- app_assoc. reflexivity.
      + rewrite L2, L1. cbn [ikeys_of]. unfold ser_index at 2. cbn [flat_map]. fold (ser_index (ikeys_of crc (N.of_nat (length (body1 s)) + N.of_nat (length (frames crc bs))) r)).
        rewrite Eoff, <- app_assoc. reflexivity.
      + rewrite C2, C1. cbn [length]. lia.
  Qed.

  Lemma winv_w0 : winv w0.
  Proof. constructor; reflexivity || (cbn; lia) || auto. Qed.

  (** the writer produces the layout *)
  Lemma tsm_write_layout gs : gs <> [] -> gsorted [] gs -> Forall group_ok gs ->
    tsm_write crc (calls_of gs) = Some (layout crc gs).
  Proof.
    intros Hne Hs Hok. unfold tsm_write.
    destruct (run_groups gs w0 winv_w0 Hs Hok) as [s' [sts [R [H [I [B [L C]]]]]]].
    rewrite R, H. destruct (B Hne) as [Hk Hb]. unfold write_index.
    assert (Hc : (w_cnt s' =? 0)%N = false).
    { rewrite C. cbn [w_cnt w0]. destruct gs; [congruence|]. cbn [length]. apply N.eqb_neq. lia. }
    rewrite Hc. rewrite flush_nonempty by assumption. cbn [w_fail w_body w_idx].
    unfold layout. cbv zeta. change (body1 w0) with tsm_header in *. change (Lidx w0) with (@nil N) in L.
    cbn [app] in L. rewrite L, Hb, (wi_n s' I), Hb. reflexivity.
  Qed.
End WriterProofs.

Lemma long_key_rejected crc cs : forall s,
  (exists c, In c cs /\ (65535 < N.of_nat (length (fst (fst (fst c)))))%N) ->
  existsb hard_status (snd (run_calls crc s cs)) = true.
Proof.
  induction cs as [|[[[k mn] mx] d] r IH]; intros s [c [Hin Hlong]]; [destruct Hin|].
  cbn [run_calls]. destruct (write_block crc s k mn mx d) as [s1 st] eqn:Ew.
  destruct (run_calls crc s1 r) as [s2 sts] eqn:Er. cbn [snd existsb].
  destruct Hin as [<-|Hin].
  - cbn [fst] in Hlong. rewrite write_block_key_too_long in Ew by exact Hlong. inversion Ew; subst. reflexivity.
  - assert (H : existsb hard_status (snd (run_calls crc s1 r)) = true) by (apply IH; eauto).
    rewrite Er in H. cbn [snd] in H. rewrite H. apply orb_true_r.
Qed.

Lemma tsm_write_long_key crc cs :
  (exists c, In c cs /\ (65535 < N.of_nat (length (fst (fst (fst c)))))%N) -> tsm_write crc cs = None.
Proof.
  intro H. unfold tsm_write. pose proof (long_key_rejected crc cs w0 H) as E.
  destruct (run_calls crc w0 cs) as [s sts]. cbn [snd] in E. rewrite E. reflexivity.
Qed.
