(** C08 — byte-level models: the TSM file writer/reader (writer.go, reader.go
    [mmapAccessor.init], [indirectIndex.UnmarshalBinary], [readEntries]), the v4 tombstone file
    (tombstone.go) and a tiny crash model of the tombstone commit.  No proofs here. *)
From Verif Require Import Base.Prelude Base.C08_BE.

Definition obind {A B} (o : option A) (f : A -> option B) : option B :=
  match o with Some x => f x | None => None end.
Notation "'do' x <- o ; f" := (obind o (fun x => f)) (at level 200, x pattern, o at level 100, f at level 200).

(** ** Index entries *)
Record entry := E { emin : Z; emax : Z; eoff : N; esize : N }.
Record ikey := IK { ik_key : key; ik_typ : N; ik_ents : list entry }.

Definition entry_eqb (a b : entry) : bool :=
  Z.eqb (emin a) (emin b) && Z.eqb (emax a) (emax b) && N.eqb (eoff a) (eoff b) && N.eqb (esize a) (esize b).
Definition bytes_eqb := list_eqb N.eqb.
Definition ikey_eqb (a b : ikey) : bool :=
  bytes_eqb (ik_key a) (ik_key b) && N.eqb (ik_typ a) (ik_typ b) && list_eqb entry_eqb (ik_ents a) (ik_ents b).

(** IndexEntry.AppendTo *)
Definition enc_entry (e : entry) : bytes := i64 (emin e) ++ i64 (emax e) ++ u64 (eoff e) ++ u32 (esize e).

(** ** CRC-32 (IEEE), the concrete instance used by the judge; the theorems are parametric
    in the checksum function. *)
Definition crc_step (c : N) : N :=
  if N.odd c then N.lxor (N.shiftr c 1) 3988292384 else N.shiftr c 1.
Definition crc_byte (c b : N) : N :=
  crc_step (crc_step (crc_step (crc_step (crc_step (crc_step (crc_step (crc_step (N.lxor c b)))))))).
Definition crc32_ieee (l : bytes) : N := N.lxor (fold_left crc_byte l 4294967295%N) 4294967295%N.

(** ** Writer: mirror of tsmWriter.WriteBlock / directIndex.Add / flush / WriteIndex *)
Definition max_key_len : N := 65535.
Definition max_entries : N := 65535.
Definition tsm_header : bytes := u32 382801617 ++ [1%N].   (* 0x16D116D1, version 1 *)

(** BlockType: first byte must be one of the five block types 0..4. *)
Definition block_type (b : bytes) : option N :=
  match b with [] => None | t :: _ => if (t <=? 4)%N then Some t else None end.

Fixpoint ents_sorted (l : list entry) : bool :=
  match l with
  | x :: ((y :: _) as r) => (emin x <=? emin y)%Z && ents_sorted r
  | _ => true
  end.
Fixpoint ins_entry (e : entry) (l : list entry) : list entry :=
  match l with
  | [] => [e]
  | x :: r => if (emin e <? emin x)%Z then e :: l else x :: ins_entry e r
  end.
Definition sort_entries (l : list entry) : list entry := fold_left (fun acc e => ins_entry e acc) l [].

Record wst := W { w_n : N; w_body : bytes; w_key : key; w_typ : N; w_ents : list entry;
                  w_idx : bytes; w_cnt : N; w_fail : bool }.
Definition w0 : wst := W 0 [] [] 0 [] [] 0 false.

(** directIndex.flush: an over-full key makes it return an error *before* anything is written
    or reset (the caller in [Add] ignores it; [WriteIndex] reports it). *)
Definition flush (s : wst) : wst :=
  match w_key s with
  | [] => s
  | _ =>
      if (max_entries <? N.of_nat (length (w_ents s)))%N
      then W (w_n s) (w_body s) (w_key s) (w_typ s) (w_ents s) (w_idx s) (w_cnt s) true
      else
        let es := if ents_sorted (w_ents s) then w_ents s else sort_entries (w_ents s) in
        W (w_n s) (w_body s) [] 0 []
          (w_idx s ++ u16 (N.of_nat (length (w_key s))) ++ w_key s ++ [w_typ s]
                   ++ u16 (N.of_nat (length es)) ++ flat_map enc_entry es)
          (w_cnt s) (w_fail s)
  end.

(** directIndex.Add; [None] = the "keys must be added in sorted order" panic. *)
Definition index_add (s : wst) (k : key) (ty : N) (e : entry) : option wst :=
  match w_key s with
  | [] => Some (W (w_n s) (w_body s) k ty (w_ents s ++ [e]) (w_idx s) (w_cnt s + 1) (w_fail s))
  | _ =>
      match kcmp (w_key s) k with
      | Eq => Some (W (w_n s) (w_body s) (w_key s) (w_typ s) (w_ents s ++ [e]) (w_idx s) (w_cnt s) (w_fail s))
      | Lt => let s1 := flush s in
              Some (W (w_n s1) (w_body s1) k ty (w_ents s1 ++ [e]) (w_idx s1) (w_cnt s1 + 1) (w_fail s1))
      | Gt => None
      end
  end.

(** directIndex.Entries *)
Definition entries_of (s : wst) (k : key) : list entry :=
  match w_key s with [] => [] | _ => if keqb (w_key s) k then w_ents s else [] end.

(** status codes: 0 ok, 1 ErrMaxKeyLengthExceeded (nothing written), 2 ErrMaxBlocksExceeded
    (the block WAS written), 3 unknown block type, 4 out-of-order panic. *)
Definition status_after (cnt_after : N) : N := if (max_entries <=? cnt_after)%N then 2%N else 0%N.
Definition key_too_long (klen : N) : bool := (max_key_len <? klen)%N.

Section Tsm.
  Variable crc : bytes -> N.

  Definition frame (block : bytes) : bytes := u32 (crc block) ++ block.

  Definition write_block (s : wst) (k : key) (mn mx : Z) (block : bytes) : wst * N :=
    if key_too_long (N.of_nat (length k)) then (s, 1%N)
    else match block with
    | [] => (s, 0%N)
    | _ =>
        match block_type block with
        | None => (s, 3%N)
        | Some ty =>
            let s1 := if (w_n s =? 0)%N
                      then W 5 tsm_header (w_key s) (w_typ s) (w_ents s) (w_idx s) (w_cnt s) (w_fail s)
                      else s in
            let fr := frame block in
            let n := N.of_nat (length fr) in
            match index_add s1 k ty (E mn mx (w_n s1) n) with
            | None => (s1, 4%N)
            | Some s2 =>
                let s3 := W (w_n s1 + n) (w_body s2 ++ fr) (w_key s2) (w_typ s2) (w_ents s2)
                            (w_idx s2) (w_cnt s2) (w_fail s2) in
                (s3, status_after (N.of_nat (length (entries_of s3 k))))
            end
        end
    end.

  (** WriteIndex: [None] = error (ErrNoValues or a failed flush). *)
  Definition write_index (s : wst) : option bytes :=
    if (w_cnt s =? 0)%N then None
    else let s1 := flush s in
         if w_fail s1 then None else Some (w_body s1 ++ w_idx s1 ++ u64 (w_n s)).

  Definition call := (key * Z * Z * bytes)%type.

  Fixpoint run_calls (s : wst) (cs : list call) : wst * list N :=
    match cs with
    | [] => (s, [])
    | (k, mn, mx, b) :: r =>
        let '(s1, st) := write_block s k mn mx b in
        let '(s2, sts) := run_calls s1 r in (s2, st :: sts)
    end.

  Definition hard_status (st : N) : bool := negb ((st =? 0)%N || (st =? 2)%N).

  (** The whole file: every WriteBlock in order, then WriteIndex; [None] if a call was rejected
      with a hard error or WriteIndex failed. *)
  Definition tsm_write (cs : list call) : option bytes :=
    let '(s, sts) := run_calls w0 cs in
    if existsb hard_status sts then None else write_index s.

  Definition calls_of (gs : list (key * list (Z * Z * bytes))) : list call :=
    flat_map (fun g => map (fun b => (fst g, fst (fst b), snd (fst b), snd b)) (snd g)) gs.
End Tsm.

(** ** Reader: mmapAccessor.init + UnmarshalBinary/readEntries + readBytes *)
Definition parse_entry (b : bytes) : option (entry * bytes) :=
  do (a, b1) <- take 8 b;
  do (c, b2) <- take 8 b1;
  do (d, b3) <- take 8 b2;
  do (e, b4) <- take 4 b3;
  Some (E (uni64 a) (uni64 c) (unbe d) (unbe e), b4).

Fixpoint parse_entries (n : nat) (b : bytes) : option (list entry * bytes) :=
  match n with
  | O => Some ([], b)
  | S n' => do (e, b1) <- parse_entry b;
            do (es, b2) <- parse_entries n' b1;
            Some (e :: es, b2)
  end.

Definition parse_key (b : bytes) : option (ikey * bytes) :=
  do (l, b1) <- take 2 b;
  do (k, b2) <- take (N.to_nat (unbe l)) b1;
  do (t, b3) <- take 1 b2;
  do (c, b4) <- take 2 b3;
  do (es, b5) <- parse_entries (N.to_nat (unbe c)) b4;
  Some (IK k (hd 0%N t) es, b5).

Fixpoint parse_index (fuel : nat) (b : bytes) : option (list ikey) :=
  match b with
  | [] => Some []
  | _ => match fuel with
         | O => None
         | S f => do (ik, b1) <- parse_key b;
                  do r <- parse_index f b1;
                  Some (ik :: r)
         end
  end.

(** readBytes: checksum and block of an entry. *)
Definition read_block (file : bytes) (e : entry) : option (N * bytes) :=
  let off := N.to_nat (eoff e) in let sz := N.to_nat (esize e) in
  if (length file <? off + sz)%nat then None
  else let fr := slice off sz file in
       do (c, d) <- take 4 fr; Some (unbe c, d).

Fixpoint read_blocks (file : bytes) (es : list entry) : option (list (entry * N * bytes)) :=
  match es with
  | [] => Some []
  | e :: r => do (c, d) <- read_block file e;
              do rr <- read_blocks file r;
              Some ((e, c, d) :: rr)
  end.

Fixpoint read_keys (file : bytes) (ks : list ikey) : option (list (key * N * list (entry * N * bytes))) :=
  match ks with
  | [] => Some []
  | ik :: r => do bs <- read_blocks file (ik_ents ik);
               do rr <- read_keys file r;
               Some ((ik_key ik, ik_typ ik, bs) :: rr)
  end.

(** the index section of a file *)
Definition tsm_index (file : bytes) : option (list ikey) :=
  do (h, _) <- take 5 file;
  if negb (bytes_eqb h tsm_header) then None else
  let len := length file in
  if (len <? 8)%nat then None else
  let pos := (len - 8)%nat in
  let start := N.to_nat (unbe (skipn pos file)) in
  if (pos <=? start)%nat then None else
  let ib := slice start (pos - start) file in
  parse_index (length ib) ib.

Definition tsm_read (file : bytes) : option (list (key * N * list (entry * N * bytes))) :=
  do ks <- tsm_index file; read_keys file ks.

(** ** Tombstone file v4 *)
Record trec := T { t_key : key; t_min : Z; t_max : Z }.
Definition trec_eqb (a b : trec) : bool :=
  bytes_eqb (t_key a) (t_key b) && Z.eqb (t_min a) (t_min b) && Z.eqb (t_max a) (t_max b).

Definition tomb_header : bytes := u32 5380.   (* 0x1504 *)
Definition enc_trec (r : trec) : bytes :=
  u32 (N.of_nat (length (t_key r))) ++ t_key r ++ i64 (t_min r) ++ i64 (t_max r).
Definition enc_trecs (rs : list trec) : bytes := flat_map enc_trec rs.

(** inner loop of readTombstoneV4 over one decompressed member: a short read of the 4-byte
    key length ends the member quietly, any other short read is an error. *)
Fixpoint parse_trecs (fuel : nat) (b : bytes) : option (list trec) :=
  match take 4 b with
  | None => Some []
  | Some (l, b1) =>
      match fuel with
      | O => None
      | S f =>
          do (k, b2) <- take (N.to_nat (unbe l)) b1;
          do (mn, b3) <- take 8 b2;
          do (mx, b4) <- take 8 b3;
          do r <- parse_trecs f b4;
          Some (T k (uni64 mn) (uni64 mx) :: r)
      end
  end.

Section Gz.
  Variable gz : bytes -> bytes.                       (* one gzip member *)
  Variable gunz : bytes -> option (bytes * bytes).    (* decode one member: payload, rest *)

  Definition tomb_file (members : list (list trec)) : option bytes :=
    match members with
    | [] => None
    | _ => Some (tomb_header ++ flat_map (fun m => gz (enc_trecs m)) members)
    end.

  Fixpoint read_members (fuel : nat) (b : bytes) : option (list trec) :=
    match b with
    | [] => Some []
    | _ => match fuel with
           | O => None
           | S f => do (p, r) <- gunz b;
                    do rs <- parse_trecs (length p) p;
                    do rr <- read_members f r;
                    Some (rs ++ rr)
           end
    end.

  (** Tombstoner.Walk on a v4 file; a missing file has no tombstones. *)
  Definition tomb_read (file : option bytes) : option (list trec) :=
    match file with
    | None => Some []
    | Some f => do (h, r) <- take 4 f;
                if bytes_eqb h tomb_header then read_members (length r) r else None
    end.

  (** ** Crash model of prepareV4 + commit.
      The directory holds the tombstone file and its [.tmp].  The program is
      write tmp (copy of the old file or a fresh header, then the new member), fsync tmp,
      rename tmp -> tombstone, fsync directory. *)
  Record disk := D { d_tomb : option bytes; d_tmp : option bytes }.
  Inductive fop := FWriteTmp (b : bytes) | FSyncTmp | FRename | FSyncDir.

  (** run-time view: [s_dur] what is durable, [s_tmp] volatile content of tmp, its sync state,
      and whether a rename is pending (done but directory not yet fsynced). *)
  Record fstate := FS { s_dur : disk; s_tmp : option bytes; s_synced : bool; s_renamed : bool }.
  Definition fs_init (d : disk) : fstate := FS d None false false.

  Definition fstep (s : fstate) (o : fop) : fstate :=
    match o with
    | FWriteTmp b => FS (s_dur s) (Some b) false false
    | FSyncTmp => FS (s_dur s) (s_tmp s) true (s_renamed s)
    | FRename => FS (s_dur s) (s_tmp s) (s_synced s) true
    | FSyncDir => if s_renamed s then FS (D (s_tmp s) None) None false false else s
    end.
  Definition fexec (s : fstate) (p : list fop) : fstate := fold_left fstep p s.

  Fixpoint prefixes {A} (l : list A) : list (list A) :=
    match l with [] => [[]] | x :: r => [] :: map (cons x) (prefixes r) end.

  (** every disk a crash may leave behind *)
  Definition crash_disks (s : fstate) : list disk :=
    let old := d_tomb (s_dur s) in
    match s_tmp s with
    | None => [s_dur s]
    | Some c =>
        let tmps := if s_synced s then [None; Some c] else None :: map Some (prefixes c) in
        map (fun t => D old t) tmps
        ++ (if s_renamed s && s_synced s then [D (Some c) None] else
            if s_renamed s then map (fun t => D t None) (map Some (prefixes c)) else [])
    end.

  (** recovery at start-up: Engine.cleanup removes every [*.tmp] *)
  Definition recover (d : disk) : disk := D (d_tomb d) None.

  Definition commit_prog (old : list (list trec)) (new : list trec) : list fop :=
    let base := match tomb_file old with Some f => f | None => tomb_header end in
    [FWriteTmp (base ++ gz (enc_trecs new)); FSyncTmp; FRename; FSyncDir].
End Gz.
