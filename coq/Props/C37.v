(** C37 — Sorted timestamp array algebra is set algebra.  Property theorems only.

    All statements are for EVERY value type [V], every array length, and every
    timestamp / bound in [Z] (hence every int64, including MinInt64 / MaxInt64: the code
    only compares timestamps).  [ssorted a] = timestamps strictly increasing ("sorted and
    deduplicated").  The functions are the mirrors in [Model/C37.v] of
    cursors.*Array.{search,FindRange,Exclude,Include,Merge}, TimestampArray.Contains and tsm1
    *Values.{Deduplicate,Merge} (FindRange/Exclude/Include are textually the same in both files). *)
From Verif Require Import Base.Prelude Model.C37 Proofs.C37.
Local Open Scope Z_scope.

(** Merge (cursors.*Array): the union of the two arrays as a sorted array, the second array
    winning on equal timestamps — as an equation with the insert-or-replace fold, as a
    finite map, and as a set. *)
Theorem C37_merge_is_union_second_wins :
  forall (V : Type) (a b : arr V), ssorted a -> ssorted b ->
    arr_merge a b = union_rw a b /\ ssorted (arr_merge a b) /\
    (forall t, lookup t (arr_merge a b) =
               match lookup t b with Some v => Some v | None => lookup t a end) /\
    (forall p, In p (arr_merge a b) <-> In p b \/ (In p a /\ ~ In (tm p) (times b))).
Proof.
  intros V a b Ha Hb. destruct (merge_spec a b Ha Hb) as [H1 H2].
  repeat split; auto.
  - intro t. apply merge_lookup; auto.
  - apply merge_In; auto.
  - apply merge_In; auto.
Qed.
Print Assumptions C37_merge_is_union_second_wins.

(** Merge (tsm1 *Values), same statement; this variant drops a[0] on equal timestamps. *)
Theorem C37_values_merge_is_union_second_wins :
  forall (V : Type) (a b : arr V), ssorted a -> ssorted b ->
    vals_merge a b = union_rw a b /\ ssorted (vals_merge a b) /\
    (forall t, lookup t (vals_merge a b) =
               match lookup t b with Some v => Some v | None => lookup t a end) /\
    (forall p, In p (vals_merge a b) <-> In p b \/ (In p a /\ ~ In (tm p) (times b))).
Proof.
  intros V a b Ha Hb. destruct (vals_merge_spec a b Ha Hb) as [H1 H2].
  repeat split; auto.
  - intro t. apply vals_merge_lookup; auto.
  - apply vals_merge_In; auto.
  - apply vals_merge_In; auto.
Qed.
Print Assumptions C37_values_merge_is_union_second_wins.

(** Algebraic laws that make Merge "set algebra" (consequences of the finite-map view, stated
    outright): on strictly sorted arrays Merge is associative and idempotent, the empty array
    is a two-sided identity, merging the same array in a second time changes nothing, and the
    two implementations (cursors.*Array.Merge, tsm1 *Values.Merge) compute the same function. *)
Theorem C37_merge_algebra :
  forall (V : Type) (a b c : arr V), ssorted a -> ssorted b -> ssorted c ->
    arr_merge (arr_merge a b) c = arr_merge a (arr_merge b c) /\
    arr_merge a a = a /\ arr_merge [] a = a /\ arr_merge a [] = a /\
    arr_merge (arr_merge a b) b = arr_merge a b /\
    vals_merge a b = arr_merge a b.
Proof.
  intros V a b c Ha Hb Hc.
  split; [apply merge_assoc; auto|]. split; [apply merge_idem; auto|].
  split; [apply merge_nil_l; auto|]. split; [apply merge_nil_r; auto|].
  split; [apply merge_absorb; auto | apply vals_merge_eq_arr_merge; auto].
Qed.
Print Assumptions C37_merge_algebra.

(** tsm1 Values.Merge on ARBITRARY (unsorted, duplicated) inputs: returns the other array
    untouched if one is empty, else the union of the two deduplicated arrays. *)
Theorem C37_values_merge_unsorted_inputs :
  forall (V : Type) (a b : arr V), vals_merge a b = vals_merge_spec_f a b.
Proof. intros V. exact vals_merge_general. Qed.
Print Assumptions C37_values_merge_unsorted_inputs.

(** Exclude removes exactly the points of the closed range (nothing when min > max). *)
Theorem C37_exclude_removes_exactly_closed_range :
  forall (V : Type) (a : arr V) (mn mx : Z), ssorted a ->
    arr_exclude a mn mx = filter (fun p => negb ((mn <=? tm p) && (tm p <=? mx))) a /\
    ssorted (arr_exclude a mn mx) /\
    (forall p, In p (arr_exclude a mn mx) <-> In p a /\ ~ (mn <= tm p <= mx)).
Proof.
  intros V a mn mx Hs. split; [apply (exclude_spec a mn mx Hs)|].
  split; [apply exclude_sorted; auto|]. intro p. apply exclude_In; auto.
Qed.
Print Assumptions C37_exclude_removes_exactly_closed_range.

(** Include keeps exactly the points of the closed range (nothing when min > max). *)
Theorem C37_include_keeps_exactly_closed_range :
  forall (V : Type) (a : arr V) (mn mx : Z), ssorted a ->
    arr_include a mn mx = filter (fun p => (mn <=? tm p) && (tm p <=? mx)) a /\
    ssorted (arr_include a mn mx) /\
    (forall p, In p (arr_include a mn mx) <-> In p a /\ mn <= tm p <= mx).
Proof.
  intros V a mn mx Hs. split; [apply (include_spec a mn mx Hs)|].
  split; [apply include_sorted; auto|]. intro p. apply include_In; auto.
Qed.
Print Assumptions C37_include_keeps_exactly_closed_range.

(** The binary search returns the insertion position = number of elements strictly below v
    (weak sortedness suffices). *)
Theorem C37_search_is_insertion_position :
  forall (V : Type) (a : arr V) (v : Z), wsorted a ->
    search a v = count_lt v a /\
    (forall i, (i < length a)%nat -> (ts_at a i < v <-> (i < search a v)%nat)).
Proof.
  intros V a v Hs. split; [apply search_is_count; auto|].
  intros i Hi. rewrite search_is_count by auto. apply ts_at_lt_iff; auto.
Qed.
Print Assumptions C37_search_is_insertion_position.

(** FindRange: (-1,-1) exactly when min > max, or all elements are below min (incl. the empty
    array), or all are above max; otherwise the two insertion positions.  (A range that falls
    into a gap strictly inside the array yields (k,k), NOT (-1,-1).) *)
Theorem C37_find_range_positions :
  forall (V : Type) (a : arr V) (mn mx : Z), wsorted a ->
    (find_range a mn mx = (-1, -1) <->
       mn > mx \/ (forall p, In p a -> tm p < mn) \/ (forall p, In p a -> mx < tm p)) /\
    (find_range a mn mx <> (-1, -1) ->
       find_range a mn mx = (Z.of_nat (count_lt mn a), Z.of_nat (count_lt mx a))).
Proof.
  intros V a mn mx Hs. split; [apply find_range_none_iff; auto|apply find_range_positions; auto].
Qed.
Print Assumptions C37_find_range_positions.

(** TimestampArray.Contains = some timestamp lies in the closed range. *)
Theorem C37_contains_iff_some_point_in_range :
  forall (V : Type) (a : arr V) (mn mx : Z), ssorted a ->
    (arr_contains a mn mx = true <-> exists p, In p a /\ mn <= tm p <= mx).
Proof. intros V a mn mx. apply contains_iff. Qed.
Print Assumptions C37_contains_iff_some_point_in_range.

(** Deduplicate, for ARBITRARY lists: the result is strictly sorted, contains exactly the
    input's timestamps, and maps each to the value of its LAST occurrence. *)
Theorem C37_dedup_sorted_last_wins :
  forall (V : Type) (l : arr V),
    vals_dedup l = last_wins_sorted l /\ ssorted (vals_dedup l) /\
    (forall t, lookup t (vals_dedup l) = lookup_last t l) /\
    (forall t, In t (times (vals_dedup l)) <-> In t (times l)) /\
    (ssorted l -> vals_dedup l = l).
Proof.
  intros V l. destruct (dedup_spec l) as [H1 [H2 H3]]. repeat split; auto.
  - apply dedup_times.
  - apply dedup_times.
  - apply dedup_sorted_id.
Qed.
Print Assumptions C37_dedup_sorted_last_wins.

(** Exclude and Include of the same closed range split a strictly sorted array into two
    disjoint parts that Merge (in either order) puts back together: nothing is lost,
    nothing is duplicated, for every range (also min > max) and every int64 bound. *)
Theorem C37_exclude_include_partition :
  forall (V : Type) (a : arr V) (mn mx : Z), ssorted a ->
    arr_merge (arr_exclude a mn mx) (arr_include a mn mx) = a /\
    arr_merge (arr_include a mn mx) (arr_exclude a mn mx) = a.
Proof. intros V a mn mx. apply exclude_include_partition. Qed.
Print Assumptions C37_exclude_include_partition.

(** Strictly sorted arrays ARE finite maps: equal lookups imply equal arrays (so the
    lookup characterisations above determine the results uniquely). *)
Theorem C37_sorted_array_determined_by_lookup :
  forall (V : Type) (l1 l2 : arr V), ssorted l1 -> ssorted l2 ->
    (forall t, lookup t l1 = lookup t l2) -> l1 = l2.
Proof. intros V l1 l2. apply ssorted_ext. Qed.
Print Assumptions C37_sorted_array_determined_by_lookup.

(** The correspondence judge can never answer "tie broken" or "model refutes oracle": on a
    well-formed case, equality with the model and satisfaction of the oracle coincide. *)
Theorem C37_judge_model_equals_oracle :
  forall c, check c = V_OK \/ check c = V_BAD.
Proof. exact check_sound. Qed.
Print Assumptions C37_judge_model_equals_oracle.

(** Non-vacuity: concrete strictly sorted arrays with int64 extremes; the merge really
    overlaps (b wins at 3 and MaxInt64), a range cuts the middle, a gap range gives (2,2). *)
Example C37_nonvacuous :
  let a := [(-9223372036854775808, 1); (1, 10); (3, 30); (5, 50); (9223372036854775807, 2)] in
  let b := [(0, 7); (3, 31); (9223372036854775807, 3)] in
  ssorted a /\ ssorted b /\
  arr_merge a b = [(-9223372036854775808, 1); (0, 7); (1, 10); (3, 31); (5, 50); (9223372036854775807, 3)] /\
  vals_merge a b = arr_merge a b /\
  arr_exclude a 1 3 = [(-9223372036854775808, 1); (5, 50); (9223372036854775807, 2)] /\
  arr_include a 1 3 = [(1, 10); (3, 30)] /\
  find_range a 2 2 = (2, 2) /\ find_range a 3 1 = (-1, -1) /\
  find_range a (-9223372036854775808) 9223372036854775807 = (0, 4) /\
  vals_dedup [(3, 1); (1, 2); (3, 3); (2, 4); (1, 5)] = [(1, 5); (2, 4); (3, 3)].
Proof.
  cbv zeta. split; [apply ssorted_b_spec; reflexivity|]. split; [apply ssorted_b_spec; reflexivity|].
  repeat split; vm_compute; reflexivity.
Qed.
