(** C06 — Multi-file block reads return the exact newest-wins merge.

    Mirror of the key cursor of /repo/tsdb/engine/tsm1:
      file_store.go            [FileStore.locations], [location.read/markRead],
                               [ascLocations.Less]/[descLocations.Less] + [sort.Sort],
                               [KeyCursor.seek/seekAscending/seekDescending],
                               [KeyCursor.Next/nextAscending/nextDescending]
      file_store.gen.go        [KeyCursor.Read{Float,Integer,Unsigned,String,Boolean}Block]
      file_store_array.gen.go  [KeyCursor.Read*ArrayBlock]
      writer.go                [IndexEntry.Contains/OverlapsTimeRange]
    The five typed variants of each Read function are template instantiations whose text
    differs only in the element type; the scalar and the array form have the same control
    flow and differ in the [Merge] they call ([tsm1 Values.Merge] vs [cursors.*Array.Merge]),
    so ONE definition [read_block], parametric in the merge function, mirrors all ten.
    [Exclude]/[Include]/[Merge] are the mirrors of Model/C37.v.

    Representation.  A decoded block is an [arr V] = [list (Z * V)] (decoding is C07's
    business).  The Go cursor holds [seeks []*location] and [current []*location] whose
    elements are POINTERS to the same location objects ([markRead] through one is visible
    through the other; [nextDescending] even puts [seeks[pos]] into [current] twice): here
    [k_seeks] is the list of location records and [k_cur] a list of INDICES into it, and
    [markRead] is a functional update at an index.  Timestamps are [Z]; the code only compares
    them except for [t-1]/[t+1] in [locations], which the code guards against int64 wrap-around at
    MinInt64/MaxInt64 (empty initial read range): [init_rmin], [init_rmax].

    Sorting.  [Less] is "path order when the two entries overlap in time, else by time",
    which is not a strict weak order, so the result of [sort.Sort] depends on the algorithm.
    Go's pdqsort uses plain insertion sort for n <= 12 ([insertionSort] in sort/zsortinterface.go);
    [sort_locs] is that insertion sort.  With more than 12 locations Go switches to pdqsort, which
    is NOT mirrored: there the judge runs the cursor mirror on the order the real sort produced
    ([q_order], read through the verif-only accessor [KeyCursor.VerifSeeks]; [run_cursor_on]), and that
    regime is where the real cursor violates newest-wins (Props/C06.v [C06_over_12_locations_refuted]).

    No proofs in this file. *)
From Verif Require Import Base.Prelude Model.C37.
Local Open Scope Z_scope.

Definition MinInt64 : Z := -9223372036854775808.
Definition MaxInt64 : Z := 9223372036854775807.
(** The initial read range of a location in [FileStore.locations]:
    ascending [(MinInt64, t-1)], descending [(t+1, MaxInt64)]; where [t-1] / [t+1] would wrap
    (t = MinInt64 ascending, t = MaxInt64 descending) the code starts with the EMPTY range
    [(MaxInt64, MinInt64)]. *)
Definition init_rmin (asc : bool) (t : Z) : Z :=
  if asc then (if t =? MinInt64 then MaxInt64 else MinInt64)
  else (if t =? MaxInt64 then MaxInt64 else t + 1).
Definition init_rmax (asc : bool) (t : Z) : Z :=
  if asc then (if t =? MinInt64 then MinInt64 else t - 1)
  else (if t =? MaxInt64 then MinInt64 else MaxInt64).

Section KeyCursor.
  Context {V : Type}.
  Notation arr := (arr V).

  (** One block of the key in a file: its index entry (min/max time) and decoded content. *)
  Record block := { b_min : Z; b_max : Z; b_data : arr }.
  (** One TSM file as the cursor sees it: the key's blocks in index order, the key's tombstone
      ranges ([TombstoneRange(key)]) and the file's time range over all keys ([TimeRange()]). *)
  Record tfile := { f_blocks : list block; f_tombs : list (Z * Z); f_tmin : Z; f_tmax : Z }.

  (** [location]: [l_file] stands for [r.Path()] (files are named so that path order =
      generation order = position in the file list). *)
  Record loc := {
    l_file : nat; l_min : Z; l_max : Z; l_data : arr; l_tombs : list (Z * Z);
    l_rmin : Z; l_rmax : Z }.

  Definition dummy_loc : loc :=
    {| l_file := 0; l_min := 0; l_max := 0; l_data := []; l_tombs := []; l_rmin := 0; l_rmax := 0 |}.

  (** [IndexEntry.Contains], [IndexEntry.OverlapsTimeRange] *)
  Definition contains (l : loc) (t : Z) : bool := (l_min l <=? t) && (l_max l >=? t).
  Definition overlaps (l : loc) (mn mx : Z) : bool := (l_min l <=? mx) && (l_max l >=? mn).
  (** [location.read], [location.markRead] *)
  Definition is_read (l : loc) : bool := (l_rmin l <=? l_min l) && (l_rmax l >=? l_max l).
  Definition mark_read (mn mx : Z) (l : loc) : loc :=
    {| l_file := l_file l; l_min := l_min l; l_max := l_max l; l_data := l_data l; l_tombs := l_tombs l;
       l_rmin := if mn <? l_rmin l then mn else l_rmin l;
       l_rmax := if mx >? l_rmax l then mx else l_rmax l |}.

  (** *** [FileStore.locations] *)
  Definition fully_tombstoned (ts : list (Z * Z)) (b : block) : bool :=
    existsb (fun r => (fst r <=? b_min b) && (snd r >=? b_max b)) ts.

  Definition block_locs (asc : bool) (t : Z) (fi : nat) (ts : list (Z * Z)) (b : block) : list loc :=
    if fully_tombstoned ts b then []
    else if asc && (b_max b <? t) then []
    else if negb asc && (b_min b >? t) then []
    else [ {| l_file := fi; l_min := b_min b; l_max := b_max b; l_data := b_data b; l_tombs := ts;
              l_rmin := init_rmin asc t;
              l_rmax := init_rmax asc t |} ].

  Definition file_locs (asc : bool) (t : Z) (fi : nat) (f : tfile) : list loc :=
    if asc && (f_tmax f <? t) then []
    else if negb asc && (f_tmin f >? t) then []
    else flat_map (block_locs asc t fi (f_tombs f)) (f_blocks f).

  Fixpoint locations_from (asc : bool) (t : Z) (fi : nat) (fs : list tfile) : list loc :=
    match fs with
    | [] => []
    | f :: r => file_locs asc t fi f ++ locations_from asc t (S fi) r
    end.
  Definition locations (fs : list tfile) (t : Z) (asc : bool) : list loc := locations_from asc t 0 fs.

  (** *** [ascLocations.Less] / [descLocations.Less] and insertion sort.
      [insertionSort]: [for i := a+1; i < b; i++ { for j := i; j > a && Less(j, j-1); j-- { Swap(j, j-1) } }].
      The sorted prefix is kept REVERSED in [ins_rev] so that "the element just before" is the head. *)
  Definition loc_less (asc : bool) (x y : loc) : bool :=
    if overlaps x (l_min y) (l_max y) then (l_file x <? l_file y)%nat
    else if asc then l_min x <? l_min y else l_max x <? l_max y.

  (** insert [x] into the reversed sorted prefix: moves past [y] while [Less(x, y)] *)
  Fixpoint ins_rev (asc : bool) (x : loc) (rp : list loc) : list loc :=
    match rp with
    | [] => [x]
    | y :: r => if loc_less asc x y then y :: ins_rev asc x r else x :: y :: r
    end.
  Definition sort_locs (asc : bool) (l : list loc) : list loc :=
    rev (fold_left (fun rp x => ins_rev asc x rp) l []).

  (** *** cursor state *)
  Record cursor := { k_seeks : list loc; k_cur : list nat; k_pos : Z }.

  Definition getl (s : list loc) (i : nat) : loc := nth i s dummy_loc.
  Fixpoint upd (s : list loc) (i : nat) (f : loc -> loc) : list loc :=
    match s, i with
    | [], _ => []
    | x :: r, O => f x :: r
    | x :: r, S j => x :: upd r j f
    end.

  (** [seekAscending]/[seekDescending]: [pos] = the first matching index in scan order
      (it stays 0 when nothing matches). *)
  Definition seek_asc (s : list loc) (t : Z) : list nat :=
    filter (fun i => let e := getl s i in (t <? l_min e) || contains e t) (seq 0 (length s)).
  Definition seek_desc (s : list loc) (t : Z) : list nat :=
    filter (fun i => let e := getl s i in (t >? l_max e) || contains e t) (rev (seq 0 (length s))).

  Definition new_cursor (fs : list tfile) (t : Z) (asc : bool) : cursor :=
    let s := sort_locs asc (locations fs t asc) in
    let cur := if asc then seek_asc s t else seek_desc s t in
    {| k_seeks := s; k_cur := cur; k_pos := Z.of_nat (hd 0%nat cur) |}.

  (** *** [Next] *)
  Definition unread_at (s : list loc) (i : nat) : bool := negb (is_read (getl s i)).

  Definition next_asc (s : list loc) (pos : Z) : list nat * Z :=
    let n := length s in
    let start := Z.to_nat (pos + 1) in
    match find (unread_at s) (seq start (n - start)) with
    | None => ([], Z.max (pos + 1) (Z.of_nat n))
    | Some p => (p :: filter (unread_at s) (seq (S p) (n - S p)), Z.of_nat p)
    end.

  (** [for i := c.pos; i >= 0; i--]: starts at [pos] itself, so [seeks[pos]] is appended again *)
  Definition next_desc (s : list loc) (pos : Z) : list nat * Z :=
    match find (unread_at s) (rev (seq 0 (Z.to_nat pos))) with
    | None => ([], Z.min (pos - 1) (-1))
    | Some p => (p :: filter (unread_at s) (rev (seq 0 (S p))), Z.of_nat p)
    end.

  Definition next (asc : bool) (c : cursor) : cursor :=
    match k_cur c with
    | [] => c
    | f :: _ =>
        if negb (is_read (getl (k_seeks c) f)) then c
        else
          let '(cur, pos) := if asc then next_asc (k_seeks c) (k_pos c) else next_desc (k_seeks c) (k_pos c) in
          {| k_seeks := k_seeks c; k_cur := cur; k_pos := pos |}
    end.

  (** *** [Read*Block] / [Read*ArrayBlock] *)
  Definition excl_tombs (ts : list (Z * Z)) (v : arr) : arr :=
    fold_left (fun v r => arr_exclude v (fst r) (snd r)) ts v.

  Section Read.
    Variable mrg : arr -> arr -> arr.   (* [a.Merge(b)] of the value family in use *)

    (** third loop, ascending: state = (locations, accumulated values) *)
    Definition merge_step (asc : bool) (minT maxT : Z) (st : list loc * arr) (i : nat) : list loc * arr :=
      let '(s, values) := st in
      let c := getl s i in
      if negb (overlaps c minT maxT) || is_read c then (upd s i (mark_read minT maxT), values)
      else
        let v := excl_tombs (l_tombs c) (l_data c) in
        let v := arr_exclude v (l_rmin c) (l_rmax c) in
        let values :=
          if (0 <? length v)%nat then
            let v := arr_include v minT maxT in
            if asc then mrg values v else mrg v values
          else values in
        (upd s i (mark_read minT maxT), values).

    Fixpoint read_block (asc : bool) (s : list loc) (cur : list nat) {struct cur}
      : arr * list loc * list nat :=
      match cur with
      | [] => ([], s, [])
      | fi :: rest =>
          let first := getl s fi in
          let values := arr_exclude (l_data first) (l_rmin first) (l_rmax first) in
          let values := excl_tombs (l_tombs first) values in
          if Nat.eqb (length values) 0 then read_block asc s rest      (* c.current = c.current[1:]; goto LOOP *)
          else
            match rest with
            | [] => (values, upd s fi (mark_read (min_time values) (max_time values)), cur)
            | _ :: _ =>
                let minT := min_time values in
                let maxT := max_time values in
                if asc then
                  let minT := fold_left (fun m i => let c := getl s i in
                                 if (l_min c <? m) && negb (is_read c) then l_min c else m) rest minT in
                  let '(maxT, values) :=
                    match find (fun i => let c := getl s i in overlaps c minT maxT && negb (is_read c)) rest with
                    | Some i => let c := getl s i in
                                let maxT := if l_max c >? maxT then l_max c else maxT in
                                (maxT, arr_include values minT maxT)
                    | None => (maxT, values)
                    end in
                  let '(s, values) := fold_left (merge_step true minT maxT) rest (s, values) in
                  (values, upd s fi (mark_read minT maxT), cur)
                else
                  let maxT := fold_left (fun m i => let c := getl s i in
                                 if (l_max c >? m) && negb (is_read c) then l_max c else m) rest maxT in
                  let '(minT, values) :=
                    match find (fun i => let c := getl s i in overlaps c minT maxT && negb (is_read c)) rest with
                    | Some i => let c := getl s i in
                                let minT := if l_min c <? minT then l_min c else minT in
                                (minT, arr_include values minT maxT)
                    | None => (minT, values)
                    end in
                  let '(s, values) := fold_left (merge_step false minT maxT) rest (s, values) in
                  (values, upd s fi (mark_read minT maxT), cur)
            end
      end.

    (** The consumer loop: [for { v := ReadBlock(); if len(v) == 0 { break }; emit v; Next() }].
        [None] = fuel exhausted. *)
    Fixpoint run_loop (fuel : nat) (asc : bool) (c : cursor) : option (list arr) :=
      match fuel with
      | O => None
      | S fu =>
          let '(v, s, cur) := read_block asc (k_seeks c) (k_cur c) in
          if Nat.eqb (length v) 0 then Some []
          else
            match run_loop fu asc (next asc {| k_seeks := s; k_cur := cur; k_pos := k_pos c |}) with
            | Some r => Some (v :: r)
            | None => None
            end
      end.

    Definition total_points (fs : list tfile) : nat :=
      fold_right (fun f n => (fold_right (fun b m => length (b_data b) + m) 0 (f_blocks f) + n)%nat) 0%nat fs.

    (** every non-empty block consumes at least one unread point of its first location *)
    Definition run_fuel (fs : list tfile) : nat := S (total_points fs).

    Definition run_cursor (fs : list tfile) (t : Z) (asc : bool) : option (list arr) :=
      run_loop (run_fuel fs) asc (new_cursor fs t asc).

    (** the same cursor on a GIVEN order [s] of the locations (what [sort.Sort] left in [c.seeks]);
        [run_cursor] is [run_cursor_on] with [s := sort_locs asc (locations fs t asc)] *)
    Definition cursor_of (s : list loc) (t : Z) (asc : bool) : cursor :=
      let cur := if asc then seek_asc s t else seek_desc s t in
      {| k_seeks := s; k_cur := cur; k_pos := Z.of_nat (hd 0%nat cur) |}.
    Definition run_cursor_on (fs : list tfile) (s : list loc) (t : Z) (asc : bool) : option (list arr) :=
      run_loop (run_fuel fs) asc (cursor_of s t asc).
  End Read.

  (** a location is identified by (file, entry min time): blocks of one file have distinct min times *)
  Definition loc_key (l : loc) : nat * Z := (l_file l, l_min l).
  Definition key_eqb (a b : nat * Z) : bool := Nat.eqb (fst a) (fst b) && (snd a =? snd b).
  (** [reorder locs ord]: the locations in the order given by the keys [ord], provided [ord] names
      every location exactly once *)
  Definition reorder (locs : list loc) (ord : list (nat * Z)) : option (list loc) :=
    let picked := flat_map (fun k => match find (fun l => key_eqb (loc_key l) k) locs with
                                     | Some l => [l] | None => [] end) ord in
    if Nat.eqb (length picked) (length locs) && Nat.eqb (length ord) (length locs)
       && forallb (fun l => existsb (key_eqb (loc_key l)) ord) locs
    then Some picked else None.

  (** ** Specification side (independent of the mirror). *)

  (** a point is live in a file iff no tombstone range of the file covers its timestamp *)
  Definition dead (ts : list (Z * Z)) (p : Z * V) : bool :=
    existsb (fun r => (fst r <=? tm p) && (tm p <=? snd r)) ts.
  Definition file_points (f : tfile) : arr := flat_map b_data (f_blocks f).
  Definition live_file (f : tfile) : arr := filter (fun p => negb (dead (f_tombs f) p)) (file_points f).

  (** all live points, one per timestamp, value of the NEWEST (= last) file holding it live;
      ascending in time *)
  Definition merged_live (fs : list tfile) : arr := fold_left (fun acc f => union_rw acc (live_file f)) fs [].

  Definition live_points_newest_wins (fs : list tfile) (t : Z) (asc : bool) : arr :=
    filter (fun p => if asc then t <=? tm p else tm p <=? t) (merged_live fs).

  (** What the consumer sees: the blocks in cursor order; each block is ascending inside, a
      descending cursor delivers the blocks latest first (the consumer walks each backwards).
      [flatten] puts everything in ascending time order. *)
  Definition flatten (asc : bool) (bs : list arr) : arr := if asc then concat bs else concat (rev bs).

  (** Well-formedness of a file (what the TSM writer guarantees for one key):
      blocks non-empty and strictly increasing inside, entry = first/last timestamp,
      blocks ordered and non-overlapping, the file range covers all entries, everything int64. *)
  Definition block_wf (b : block) : Prop :=
    b_data b <> [] /\ ssorted (b_data b) /\ b_min b = min_time (b_data b) /\ b_max b = max_time (b_data b)
    /\ MinInt64 <= b_min b /\ b_max b <= MaxInt64.
  Fixpoint blocks_ordered (bs : list block) : Prop :=
    match bs with
    | [] => True
    | b :: r => Forall (fun b' => b_max b < b_min b') r /\ blocks_ordered r
    end.
  Definition file_wf (f : tfile) : Prop :=
    Forall block_wf (f_blocks f) /\ blocks_ordered (f_blocks f) /\
    Forall (fun b => f_tmin f <= b_min b /\ b_max b <= f_tmax f) (f_blocks f).

  Definition block_wf_b (b : block) : bool :=
    negb (Nat.eqb (length (b_data b)) 0) && ssorted_b (b_data b)
    && (b_min b =? min_time (b_data b)) && (b_max b =? max_time (b_data b))
    && (MinInt64 <=? b_min b) && (b_max b <=? MaxInt64).
  Fixpoint blocks_ordered_b (bs : list block) : bool :=
    match bs with
    | [] => true
    | b :: r => forallb (fun b' => b_max b <? b_min b') r && blocks_ordered_b r
    end.
  Definition file_wf_b (f : tfile) : bool :=
    forallb block_wf_b (f_blocks f) && blocks_ordered_b (f_blocks f)
    && forallb (fun b => (f_tmin f <=? b_min b) && (b_max b <=? f_tmax f)) (f_blocks f).
End KeyCursor.

Arguments block : clear implicits.
Arguments tfile : clear implicits.
Arguments loc : clear implicits.
Arguments cursor : clear implicits.

(** ** Correspondence judge (values are small integers mapped per type by the driver: [V := Z]). *)

(** What was WRITTEN to a file (blocks of the key in order) and which delete ranges were
    requested on it — the oracle's view; and what the opened reader REPORTS for the key:
    index entries ([ReadEntries], empty once the key has been dropped from the index),
    tombstone ranges ([TombstoneRange]) and the file time range — the mirror's view. *)
Record wfile := {
  w_blocks : list (arr Z); w_dels : list (Z * Z);
  w_entries : list (Z * Z); w_tombs : list (Z * Z); w_tmin : Z; w_tmax : Z }.

(** one cursor run: seek time, direction, the blocks returned by the scalar and array forms *)
(** [q_order]: the order of [c.seeks] after [sort.Sort] as the real cursor reports it (keys = file
    index, entry min time; read through the verif-only accessor [KeyCursor.VerifSeeks]). *)
Record query := { q_t : Z; q_asc : bool; q_order : list (nat * Z);
                  q_scalar : list (arr Z); q_array : list (arr Z) }.

Record case := { c_files : list wfile; c_qs : list query }.

Fixpoint zip_blocks (es : list (Z * Z)) (ds : list (arr Z)) : option (list (block Z)) :=
  match es, ds with
  | [], [] => Some []
  | e :: es', d :: ds' =>
      match zip_blocks es' ds' with
      | Some r => Some ({| b_min := fst e; b_max := snd e; b_data := d |} :: r)
      | None => None
      end
  | _, _ => None
  end.

(** the mirror's input: reported entries zipped with the written data (no blocks at all when the
    reader reports none) *)
Definition view_file (w : wfile) : option (tfile Z) :=
  match w_entries w with
  | [] => Some {| f_blocks := []; f_tombs := w_tombs w; f_tmin := w_tmin w; f_tmax := w_tmax w |}
  | es => match zip_blocks es (w_blocks w) with
          | Some bs => Some {| f_blocks := bs; f_tombs := w_tombs w; f_tmin := w_tmin w; f_tmax := w_tmax w |}
          | None => None
          end
  end.

(** the oracle's input: written data with first/last timestamps as entries, requested deletes *)
Definition spec_file (w : wfile) : tfile Z :=
  {| f_blocks := map (fun d => {| b_min := min_time d; b_max := max_time d; b_data := d |}) (w_blocks w);
     f_tombs := w_dels w;
     f_tmin := w_tmin w; f_tmax := w_tmax w |}.

Fixpoint all_some {A} (l : list (option A)) : option (list A) :=
  match l with
  | [] => Some []
  | Some x :: r => match all_some r with Some r' => Some (x :: r') | None => None end
  | None :: _ => None
  end.

Definition blocks_eqb (a b : list (arr Z)) : bool := list_eqb arr_eqb a b.

(** Up to 12 locations Go's [sort.Sort] is the insertion sort of the model: the reported order must
    BE the model's.  Beyond 12 it is pdqsort, which the model does not mirror (and whose result under
    the non-transitive comparator is not determined by the comparator): there the mirror runs on the
    REPORTED order, which must be a permutation of the model's locations. *)
Definition q_seeks (fs : list (tfile Z)) (q : query) : option (list (loc Z)) :=
  let locs := locations fs (q_t q) (q_asc q) in
  if (length locs <=? 12)%nat then
    let s := sort_locs (q_asc q) locs in
    if list_eqb key_eqb (map loc_key s) (q_order q) then Some s else None
  else reorder locs (q_order q).

Definition q_same (fs : list (tfile Z)) (q : query) : bool :=
  match q_seeks fs q with
  | None => false
  | Some s =>
      option_eqb blocks_eqb (Some (q_scalar q)) (run_cursor_on vals_merge fs s (q_t q) (q_asc q))
      && option_eqb blocks_eqb (Some (q_array q)) (run_cursor_on arr_merge fs s (q_t q) (q_asc q))
  end.

Definition q_ok (fs : list (tfile Z)) (q : query) : bool :=
  let want := live_points_newest_wins fs (q_t q) (q_asc q) in
  arr_eqb (flatten (q_asc q) (q_scalar q)) want && arr_eqb (flatten (q_asc q) (q_array q)) want.

Definition check (c : case) : verdict :=
  let sfs := map spec_file (c_files c) in
  (* a case whose written files are not well-formed is a driver error: flag it loudly *)
  if negb (forallb file_wf_b sfs) then V_BAD
  else
    let ok := forallb (q_ok sfs) (c_qs c) in
    match all_some (map view_file (c_files c)) with
    | None => judge false ok
    | Some vfs => judge (forallb (q_same vfs) (c_qs c)) ok
    end.
