(** C14 — membership algebra of the id sets, string sets and sorted association lists. *)
From Verif Require Import Base.Prelude Model.C14.
Local Open Scope N_scope.

Lemma str_eqb_spec a b : str_eqb a b = true <-> a = b.
Proof. apply list_eqb_spec. intros x y. apply N.eqb_eq. Qed.
Lemma str_eqb_refl a : str_eqb a a = true.
Proof. apply str_eqb_spec. reflexivity. Qed.
Lemma str_eqb_neq a b : a <> b -> str_eqb a b = false.
Proof. intro H. destruct (str_eqb a b) eqn:E; [apply str_eqb_spec in E; contradiction | reflexivity]. Qed.
Lemma str_eqb_sym a b : str_eqb a b = str_eqb b a.
Proof.
  destruct (str_eqb a b) eqn:E.
  - apply str_eqb_spec in E. subst. symmetry. apply str_eqb_refl.
  - symmetry. apply str_eqb_neq. intro H. subst. rewrite str_eqb_refl in E. discriminate.
Qed.
Lemma str_dec (a b : str) : {a = b} + {a <> b}.
Proof. destruct (str_eqb a b) eqn:E; [left; apply str_eqb_spec; exact E | right; intro H; subst; rewrite str_eqb_refl in E; discriminate]. Qed.

(** ** id sets *)
Lemma sadd_in x y l : In x (sadd y l) <-> x = y \/ In x l.
Proof.
  induction l as [|z l IH]; cbn [sadd].
  - cbn. intuition congruence.
  - destruct (N.eqb y z) eqn:E.
    + apply N.eqb_eq in E. subst. cbn. intuition congruence.
    + destruct (N.ltb y z); cbn [In]; [intuition congruence | rewrite IH; intuition congruence].
Qed.
Lemma srem_in x y l : In x (srem y l) <-> x <> y /\ In x l.
Proof.
  unfold srem. rewrite filter_In, negb_true_iff, N.eqb_neq. split; intros [A B]; split; auto.
Qed.
Lemma smem_in x l : smem x l = true <-> In x l.
Proof.
  unfold smem. rewrite existsb_exists. split.
  - intros [y [H E]]. apply N.eqb_eq in E. subst. exact H.
  - intro H. exists x. split; [exact H | apply N.eqb_refl].
Qed.
Lemma smem_false x l : smem x l = false <-> ~ In x l.
Proof. rewrite <- smem_in. destruct (smem x l); split; congruence. Qed.
Lemma sunion_in x a b : In x (sunion a b) <-> In x a \/ In x b.
Proof.
  unfold sunion. induction b as [|y b IH]; cbn [fold_right].
  - cbn. intuition congruence.
  - rewrite sadd_in, IH. cbn. split; intros; intuition.
Qed.
Lemma sdiff_in x a b : In x (sdiff a b) <-> In x a /\ ~ In x b.
Proof. unfold sdiff. rewrite filter_In, negb_true_iff, smem_false. tauto. Qed.
Lemma sunions_in x ls : In x (sunions ls) <-> exists l, In l ls /\ In x l.
Proof.
  unfold sunions. induction ls as [|l ls IH]; cbn [fold_right].
  - cbn. split; [tauto | intros [l [[] _]]].
  - rewrite sunion_in, IH. split.
    + intros [[l' [A B]] | H]; [exists l'; cbn; auto | exists l; cbn; auto].
    + intros [l' [[A | A] B]]; [subst; auto | left; eauto].
Qed.

(** ** string sets *)
Lemma sins_in x y l : In x (sins y l) <-> x = y \/ In x l.
Proof.
  induction l as [|z l IH]; cbn [sins].
  - cbn. intuition congruence.
  - destruct (str_eqb y z) eqn:E.
    + apply str_eqb_spec in E. subst. cbn. intuition congruence.
    + destruct (str_ltb y z); cbn [In]; [intuition congruence | rewrite IH; intuition congruence].
Qed.
Lemma str_set_in x l : In x (str_set l) <-> In x l.
Proof.
  unfold str_set. induction l as [|y l IH]; cbn [fold_right]; [tauto|].
  rewrite sins_in, IH. cbn. split; intros; intuition.
Qed.
Lemma str_mem_in x l : str_mem x l = true <-> In x l.
Proof.
  unfold str_mem. rewrite existsb_exists. split.
  - intros [y [H E]]. apply str_eqb_spec in E. subst. exact H.
  - intro H. exists x. split; [exact H | apply str_eqb_refl].
Qed.

(** ** association lists *)
Section Assoc.
  Context {V : Type}.
  Implicit Types (l : list (str * V)).

  Lemma aget_aput k k' (v : V) l : aget k (aput k' v l) = if str_eqb k k' then Some v else aget k l.
  Proof.
    induction l as [|[k0 v0] l IH]; cbn [aput aget].
    - destruct (str_eqb k k'); reflexivity.
    - destruct (str_eqb k' k0) eqn:E0.
      + apply str_eqb_spec in E0. subst k0. cbn [aget]. destruct (str_eqb k k'); reflexivity.
      + destruct (str_ltb k' k0); cbn [aget].
        * destruct (str_eqb k k'); reflexivity.
        * rewrite IH. destruct (str_eqb k k0) eqn:E1; [|reflexivity].
          apply str_eqb_spec in E1. subst k0.
          destruct (str_eqb k k') eqn:E2; [|reflexivity].
          apply str_eqb_spec in E2. subst k'. rewrite str_eqb_refl in E0. discriminate.
  Qed.

  Lemma aget_none k l : aget k l = None <-> ~ In k (map fst l).
  Proof.
    induction l as [|[k0 v0] l IH]; cbn [aget map fst In]; [tauto|].
    destruct (str_eqb k k0) eqn:E.
    - apply str_eqb_spec in E. subst. split; [discriminate | intro H; exfalso; apply H; auto].
    - rewrite IH. split; [intros H [A | A]; [subst; rewrite str_eqb_refl in E; discriminate | auto] | tauto].
  Qed.
  Lemma aget_some_in k l : (exists v, aget k l = Some v) <-> In k (map fst l).
  Proof.
    destruct (aget k l) eqn:E.
    - split; [intros _ | eauto]. destruct (in_dec str_dec k (map fst l)) as [H | H]; [exact H|].
      apply aget_none in H. congruence.
    - split; [intros [v H]; discriminate | intro H]. apply aget_none in E. contradiction.
  Qed.

  Lemma aget_abuild k ks (g : str -> V) : aget k (abuild ks g) = if str_mem k ks then Some (g k) else None.
  Proof.
    unfold abuild. induction ks as [|k0 ks IH]; cbn [fold_right str_mem existsb]; [reflexivity|].
    rewrite aget_aput. destruct (str_eqb k k0) eqn:E; cbn [orb].
    - apply str_eqb_spec in E. subst. reflexivity.
    - exact IH.
  Qed.

  Lemma aput_fst_in k k' (v : V) l : In k (map fst (aput k' v l)) <-> k = k' \/ In k (map fst l).
  Proof.
    rewrite <- !aget_some_in. rewrite aget_aput. destruct (str_eqb k k') eqn:E.
    - apply str_eqb_spec in E. subst. split; [auto | eauto].
    - split; [auto | intros [H | H]; [subst; rewrite str_eqb_refl in E; discriminate | exact H]].
  Qed.
  Lemma abuild_fst_in k ks (g : str -> V) : In k (map fst (abuild ks g)) <-> In k ks.
  Proof.
    rewrite <- aget_some_in, aget_abuild. destruct (str_mem k ks) eqn:E.
    - apply str_mem_in in E. split; [auto | eauto].
    - split; [intros [v H]; discriminate | intro H; apply str_mem_in in H; congruence].
  Qed.
End Assoc.

Lemma first_some_app {A B} (g : A -> option B) a b :
  first_some g (a ++ b) = match first_some g a with Some y => Some y | None => first_some g b end.
Proof. induction a as [|x a IH]; cbn [app first_some]; [reflexivity|]. destruct (g x); [reflexivity | exact IH]. Qed.
Lemma first_some_none {A B} (g : A -> option B) l : first_some g l = None <-> forall x, In x l -> g x = None.
Proof.
  induction l as [|x l IH]; cbn [first_some]; [split; [intros _ y [] | reflexivity]|].
  destruct (g x) eqn:E.
  - split; [discriminate | intro H; rewrite <- E; apply H; cbn; auto].
  - rewrite IH. split; [intros H y [<- | Hy]; auto | intros H y Hy; apply H; cbn; auto].
Qed.
Lemma first_some_in {A B} (g : A -> option B) l y : first_some g l = Some y -> exists x, In x l /\ g x = Some y.
Proof.
  induction l as [|x l IH]; cbn [first_some]; [discriminate|].
  destruct (g x) eqn:E; [intro H; inversion H; subst; exists x; cbn; auto|].
  intro H. destruct (IH H) as [x' [Hx Hg]]. exists x'. cbn. auto.
Qed.
Lemma first_some_ext {A B} (g h : A -> option B) l : (forall x, In x l -> g x = h x) -> first_some g l = first_some h l.
Proof.
  induction l as [|x l IH]; intro H; cbn [first_some]; [reflexivity|].
  rewrite (H x) by (cbn; auto). destruct (h x); [reflexivity|]. apply IH. intros y Hy. apply H. cbn. auto.
Qed.
