(** C30 — soundness of the organization name index: refuted for the code as it is
    (names with surrounding blanks), proved for trimmed names and for the repaired
    [Store.DeleteOrg]. *)
From Verif Require Import Base.Prelude Model.C30 Proofs.C30_al Proofs.C30_inv Proofs.C30_step.

Definition OSound (st : state) : Prop :=
  forall k id, getP k (s_oidx st) = Some id -> exists n, getN id (s_orgs st) = Some n /\ trim n = k.
Definition Trimmed (st : state) : Prop :=
  forall id n, getN id (s_orgs st) = Some n -> snd n = 0%N.
Definition op_trimmed (o : op) : Prop :=
  match o with
  | CreateOrg n _ => snd n = 0%N
  | UpdateOrg _ (Some n) => snd n = 0%N
  | _ => True
  end.

Definition oframe (st : state) := (s_orgs st, s_oidx st).

Lemma oframe_remove_relations st r : oframe (remove_relations st r) = oframe st.
Proof.
  destruct (frameM_proj _ _ (frameM_remove_relations st r)) as (F1 & F2 & _).
  unfold oframe. congruence.
Qed.
Lemma oframe_create_urm st r u v : oframe (fst (create_urm st r u v)) = oframe st.
Proof. unfold create_urm. destruct (getN u (s_users st)); [destruct (hasP _ _)|]; reflexivity. Qed.
Lemma oframe_create_bucket st o n s : oframe (fst (create_bucket st o n s)) = oframe st.
Proof.
  unfold create_bucket. destruct (negb _); [reflexivity|]. destruct (negb _); [reflexivity|].
  destruct (hasP _ _); reflexivity.
Qed.
Lemma oframe_update_bucket st id n : oframe (fst (update_bucket st id n)) = oframe st.
Proof.
  unfold update_bucket. destruct (getN id (s_bkts st)); [|reflexivity]. destruct n; [|reflexivity].
  destruct (N.eqb _ _); [reflexivity|]. destruct (b_sys b); [reflexivity|].
  destruct (negb _); [reflexivity|]. destruct (hasP _ _); reflexivity.
Qed.
Lemma oframe_delete_bucket st id int : oframe (fst (delete_bucket st id int)) = oframe st.
Proof.
  destruct (delete_bucket st id int) as [s' e] eqn:E.
  destruct (delete_bucket_rel _ _ _ _ _ E) as (_ & _ & _ & D). inversion D. unfold oframe; cbn. congruence.
Qed.
Lemma oframe_delete_buckets l st : oframe (fst (delete_buckets l st)) = oframe st.
Proof.
  destruct (delete_buckets l st) as [s' e] eqn:E.
  destruct (delete_buckets_rel _ _ _ _ E) as (_ & _ & _ & D). inversion D. unfold oframe; cbn. congruence.
Qed.
Lemma oframe_create_user st n : oframe (fst (create_user st n)) = oframe st.
Proof. unfold create_user. destruct (hasN _ _); reflexivity. Qed.
Lemma oframe_update_user st id n : oframe (fst (update_user st id n)) = oframe st.
Proof.
  unfold update_user. destruct (getN id (s_users st)); [|reflexivity]. destruct n; [|reflexivity].
  destruct (N.eqb _ _); [reflexivity|]. destruct (hasN _ _); reflexivity.
Qed.
Lemma oframe_delete_user st id : oframe (fst (delete_user st id)) = oframe st.
Proof.
  destruct (getN id (s_users st)) as [n|] eqn:En.
  - rewrite (delete_user_eq _ _ _ En). cbn [fst].
    destruct (frameM_proj _ _ (frameM_del_loop (user_pks st id) st)) as (F1 & F2 & _).
    unfold oframe, setU; cbn. congruence.
  - unfold delete_user. rewrite En. reflexivity.
Qed.
Lemma oframe_set_password st id : oframe (fst (set_password st id)) = oframe st.
Proof. unfold set_password. destruct (hasN _ _); reflexivity. Qed.
Lemma oframe_delete_urm_svc st r u : oframe (fst (delete_urm_svc st r u)) = oframe st.
Proof. unfold delete_urm_svc. destruct (hasP _ _); reflexivity. Qed.

Lemma osound_frame st st' : oframe st' = oframe st -> OSound st -> OSound st'.
Proof. unfold oframe, OSound. intro E; inversion E as [[E1 E2]]. rewrite E1, E2. auto. Qed.
Lemma trimmed_frame st st' : oframe st' = oframe st -> Trimmed st -> Trimmed st'.
Proof. unfold oframe, Trimmed. intro E; inversion E as [[E1 E2]]. rewrite E1. auto. Qed.

Lemma trimmed_name n : snd n = 0%N -> trim n = n.
Proof. destruct n as [a b]; cbn. intros ->. reflexivity. Qed.

(** the three transactions that touch the organization buckets *)
Lemma osound_create_tx (st : state) name :
  Inv st -> OSound st ->
  forall k id, getP k (putP (trim name) (s_next st) (s_oidx st)) = Some id ->
    exists n, getN id (putN (s_next st) name (s_orgs st)) = Some n /\ trim n = k.
Proof.
  intros (HO & _) Hs k id. rewrite getP_put. cmpP k (trim name).
  - intro H; inversion H; subst. exists name. rewrite getN_put, N.eqb_refl. auto.
  - intro H'. destruct (Hs _ _ H') as (n & Hn & Hk). exists n. split; [|exact Hk].
    rewrite getN_put. cmpN id (s_next st); [|exact Hn].
    pose proof (InvO_fresh _ _ _ _ HO (get_some_has N.eqb _ _ _ Hn)). lia.
Qed.

Lemma osound_create_org st name owner : Inv st -> OSound st -> OSound (fst (create_org st name owner)).
Proof.
  intros HI Hs. unfold create_org.
  destruct (N.eqb (fst name) 0); [exact Hs|].
  destruct (has nn_eqb (trim name) (s_oidx st)); [exact Hs|].
  match goal with |- context [create_bucket ?s _ 0 true] => set (s1 := s) end.
  assert (H1 : OSound s1) by (subst s1; unfold OSound; cbn [s_orgs s_oidx]; apply osound_create_tx; assumption).
  pose proof (oframe_create_bucket s1 (s_next st) 0 true) as F2.
  destruct (create_bucket s1 (s_next st) 0 true) as [s2 e2]. cbn [fst] in F2.
  pose proof (osound_frame _ _ F2 H1) as H2.
  destruct (negb (N.eqb e2 E_OK)); [exact H2|].
  pose proof (oframe_create_bucket s2 (s_next st) 1 true) as F3.
  destruct (create_bucket s2 (s_next st) 1 true) as [s3 e3]. cbn [fst] in F3.
  pose proof (osound_frame _ _ F3 H2) as H3.
  destruct (negb (N.eqb e3 E_OK)); [exact H3|].
  destruct owner as [u|]; [|exact H3].
  eapply osound_frame; [apply oframe_create_urm | exact H3].
Qed.

Lemma osound_update_org st id name : Inv st -> OSound st -> OSound (fst (update_org st id name)).
Proof.
  intros ((Hc & Hw) & _) Hs. unfold update_org.
  destruct (getN id (s_orgs st)) as [old|] eqn:Eo; [|exact Hs].
  destruct name as [n|]; [|exact Hs].
  destruct (nn_eqb old n); [exact Hs|].
  destruct (N.eqb (fst n) 0); [exact Hs|].
  destruct (hasP (trim n) (s_oidx st)); [exact Hs|].
  unfold OSound; cbn [fst s_orgs s_oidx]. intros k id'. rewrite getP_put. cmpP k (trim n).
  - intro H; inversion H; subst. exists n. rewrite getN_put, N.eqb_refl. auto.
  - rewrite getP_del. cmpP k (trim old); [discriminate|].
    intro H'. destruct (Hs _ _ H') as (m & Hm & Hk). exists m. split; [|exact Hk].
    rewrite getN_put. cmpN id' id; [|exact Hm].
    exfalso. apply H0. rewrite Eo in Hm. inversion Hm. subst. reflexivity.
Qed.

Lemma osound_del_key orgs oidx id n key :
  (forall k i, getP k oidx = Some i -> exists m, getN i orgs = Some m /\ trim m = k) ->
  getN id orgs = Some n -> key = trim n ->
  forall k i, getP k (delP key oidx) = Some i -> exists m, getN i (delN id orgs) = Some m /\ trim m = k.
Proof.
  intros Hs En -> k id'. rewrite getP_del.
  cmpP k (trim n); [discriminate|].
  intro H'. destruct (Hs _ _ H') as (m & Hm & Hk). exists m. split; [|exact Hk].
  rewrite getN_del. cmpN id' id; [|exact Hm].
  exfalso. apply H. rewrite En in Hm. inversion Hm. subst. reflexivity.
Qed.

Lemma osound_delete_org_tx fx st id :
  OSound st -> fx = true \/ Trimmed st -> OSound (fst (delete_org_tx fx st id)).
Proof.
  intros Hs Hfx. unfold delete_org_tx.
  destruct (getN id (s_orgs st)) as [n|] eqn:En; [|exact Hs].
  unfold OSound; cbn [fst s_orgs s_oidx].
  apply (osound_del_key _ _ _ n); [exact Hs | exact En |].
  destruct fx; [reflexivity|]. destruct Hfx as [Hd | Ht]; [discriminate|].
  symmetry. apply trimmed_name. eapply Ht; exact En.
Qed.

Lemma oframe_delete_org_pre fx st id :
  exists s1, oframe s1 = oframe st /\
    (fst (delete_org fx st id) = s1 \/
     fst (delete_org fx st id) = fst (delete_org_tx fx s1 id) \/
     fst (delete_org fx st id) = remove_relations (fst (delete_org_tx fx s1 id)) id).
Proof.
  unfold delete_org. fold (org_bucket_ids st id).
  destruct (negb (forallb _ (org_bucket_ids st id))); [exists st; auto|].
  pose proof (oframe_delete_buckets (org_bucket_ids st id) st) as F1.
  destruct (delete_buckets (org_bucket_ids st id) st) as [s1 e1]. cbn [fst] in F1.
  exists s1. split; [exact F1|].
  destruct (negb (N.eqb e1 E_OK)); [auto|].
  destruct (delete_org_tx fx s1 id) as [s2 e2]. cbn [fst].
  destruct (negb (N.eqb e2 E_OK)); auto.
Qed.

Lemma trimmed_delete_org_tx fx st id : Trimmed st -> Trimmed (fst (delete_org_tx fx st id)).
Proof.
  intro Ht. unfold delete_org_tx. destruct (getN id (s_orgs st)); [|exact Ht].
  unfold Trimmed; cbn [fst s_orgs]. intros id' m. rewrite getN_del.
  cmpN id' id; [discriminate | apply Ht].
Qed.

Lemma osound_delete_org fx st id :
  OSound st -> fx = true \/ Trimmed st -> OSound (fst (delete_org fx st id)).
Proof.
  intros Hs Hfx. destruct (oframe_delete_org_pre fx st id) as (s1 & F1 & Hcase).
  assert (H1 : OSound s1) by (eapply osound_frame; eauto).
  assert (Hfx1 : fx = true \/ Trimmed s1).
  { destruct Hfx as [-> | Ht]; [left; reflexivity | right; eapply trimmed_frame; eauto]. }
  destruct Hcase as [-> | [-> | ->]]; [exact H1 | apply osound_delete_org_tx; assumption |].
  eapply osound_frame; [apply oframe_remove_relations | apply osound_delete_org_tx; assumption].
Qed.

Lemma trimmed_delete_org fx st id : Trimmed st -> Trimmed (fst (delete_org fx st id)).
Proof.
  intros Ht. destruct (oframe_delete_org_pre fx st id) as (s1 & F1 & Hcase).
  assert (H1 : Trimmed s1) by (eapply trimmed_frame; eauto).
  destruct Hcase as [-> | [-> | ->]]; [exact H1 | apply trimmed_delete_org_tx; assumption |].
  eapply trimmed_frame; [apply oframe_remove_relations | apply trimmed_delete_org_tx; assumption].
Qed.

Lemma oframe_step_other fx st o :
  match o with CreateOrg _ _ | UpdateOrg _ _ | DeleteOrg _ => True
  | _ => oframe (step fx st o) = oframe st end.
Proof.
  unfold step. destruct o; cbn [step_e]; auto.
  - apply oframe_create_bucket.
  - apply oframe_update_bucket.
  - apply oframe_delete_bucket.
  - apply oframe_create_user.
  - apply oframe_update_user.
  - apply oframe_delete_user.
  - apply oframe_set_password.
  - apply oframe_create_urm.
  - apply oframe_delete_urm_svc.
Qed.

Lemma step_osound fx st o :
  Inv st -> OSound st -> fx = true \/ Trimmed st -> OSound (step fx st o).
Proof.
  intros HI Hs Hfx. pose proof (oframe_step_other fx st o) as F.
  destruct o; try (eapply osound_frame; [exact F | exact Hs]); unfold step; cbn [step_e].
  - apply osound_create_org; assumption.
  - apply osound_update_org; assumption.
  - apply osound_delete_org; assumption.
Qed.

Lemma step_trimmed fx st o : Trimmed st -> op_trimmed o -> Trimmed (step fx st o).
Proof.
  intros Ht Ho. pose proof (oframe_step_other fx st o) as F.
  destruct o; try (eapply trimmed_frame; [exact F | exact Ht]); unfold step; cbn [step_e].
  - (* create_org *)
    unfold create_org.
    destruct (N.eqb (fst name) 0); [exact Ht|].
    destruct (has nn_eqb (trim name) (s_oidx st)); [exact Ht|].
    match goal with |- context [create_bucket ?s _ 0 true] => set (s1 := s) end.
    assert (H1 : Trimmed s1).
    { subst s1. unfold Trimmed; cbn [s_orgs]. intros id m. rewrite getN_put.
      cmpN id (s_next st); [intro H; inversion H; subst; exact Ho | apply Ht]. }
    pose proof (oframe_create_bucket s1 (s_next st) 0 true) as F2.
    destruct (create_bucket s1 (s_next st) 0 true) as [s2 e2]. cbn [fst] in F2.
    pose proof (trimmed_frame _ _ F2 H1) as H2.
    destruct (negb (N.eqb e2 E_OK)); [exact H2|].
    pose proof (oframe_create_bucket s2 (s_next st) 1 true) as F3.
    destruct (create_bucket s2 (s_next st) 1 true) as [s3 e3]. cbn [fst] in F3.
    pose proof (trimmed_frame _ _ F3 H2) as H3.
    destruct (negb (N.eqb e3 E_OK)); [exact H3|].
    destruct owner as [u|]; [|exact H3].
    eapply trimmed_frame; [apply oframe_create_urm | exact H3].
  - (* update_org *)
    unfold update_org.
    destruct (getN id (s_orgs st)) as [old|]; [|exact Ht].
    destruct name as [n|]; [|exact Ht].
    destruct (nn_eqb old n); [exact Ht|].
    destruct (N.eqb (fst n) 0); [exact Ht|].
    destruct (hasP (trim n) (s_oidx st)); [exact Ht|].
    unfold Trimmed; cbn [fst s_orgs]. intros id' m. rewrite getN_put.
    cmpN id' id; [intro H; inversion H; subst; exact Ho | apply Ht].
  - apply trimmed_delete_org; exact Ht.
Qed.

Lemma osound_init : OSound init.
Proof. intros k id H; discriminate. Qed.
Lemma trimmed_init : Trimmed init.
Proof. intros k id H; discriminate. Qed.

(** repaired code: the index is sound for ALL histories *)
Lemma run_osound_fixed ops : OSound (run true ops).
Proof.
  unfold run. assert (G : forall st, Inv st -> OSound st -> OSound (fold_left (step true) ops st)).
  { induction ops as [|o ops IH]; intros st HI Hs; cbn; [exact Hs|].
    apply IH; [apply step_inv; exact HI | apply step_osound; auto]. }
  apply G; [apply inv_init | apply osound_init].
Qed.

(** code as it is: sound as long as every organization name is free of surrounding blanks *)
Lemma run_osound_trimmed fx ops : Forall op_trimmed ops -> OSound (run fx ops).
Proof.
  unfold run.
  assert (G : forall st, Inv st -> OSound st -> Trimmed st -> Forall op_trimmed ops ->
                         OSound (fold_left (step fx) ops st)).
  { induction ops as [|o ops IH]; intros st HI Hs Ht Hf; cbn; [exact Hs|].
    inversion Hf; subst.
    apply IH; [apply step_inv; exact HI | apply step_osound; auto | apply step_trimmed; auto | assumption]. }
  intro Hf. apply G; auto using inv_init, osound_init, trimmed_init.
Qed.

(** the counterexample *)
Definition witness_ops : list op := [CreateOrg (1, 1)%N None; DeleteOrg 1].

Lemma osound_refuted :
  let st := run false witness_ops in
  getP (1, 0)%N (s_oidx st) = Some 1%N /\ s_orgs st = [] /\
  step_e false st (CreateOrg (1, 0)%N None) = (st, E_CONFLICT) /\
  find_org st (1, 0)%N = None.
Proof. vm_compute. repeat split; reflexivity. Qed.
