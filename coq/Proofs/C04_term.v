(** C04 — part 10: the dedup loop of the mirror terminates within its fuel: every iteration
    hands on at least one unread point (the window maximum is the last timestamp of an unread
    block, and that point lies in the window). *)
From Coq Require Import ZifyBool.
From Verif Require Import Base.Prelude Model.C37 Proofs.C37 Model.C04 Proofs.C04 Proofs.C04_size
     Proofs.C04_blocks Proofs.C04_pend Proofs.C04_window Proofs.C04_dedup.
Local Open Scope Z_scope.

Section Term.
  Context {V : Type}.
  Notation arr := (arr V).
  Notation blk := (blk V).
  Variable sp : Z -> option V.
  Variable size : nat.
  Hypothesis size_pos : (0 < size)%nat.

  (** number of unread points *)
  Fixpoint usum (bs : list blk) : nat :=
    match bs with [] => 0%nat | b :: r => (length (unr b) + usum r)%nat end.

  Lemma filter_len_le {A} (f : A -> bool) l : (length (filter f l) <= length l)%nat.
  Proof. induction l as [|x r IH]; cbn; [lia|]. destruct (f x); cbn; lia. Qed.

  Lemma filter_len_lt {A} (f : A -> bool) l x : In x l -> f x = false -> (length (filter f l) < length l)%nat.
  Proof.
    induction l as [|y r IH]; intros [] Hf; cbn.
    - subst y. rewrite Hf. pose proof (filter_len_le f r). lia.
    - specialize (IH H Hf). destruct (f y); cbn; lia.
  Qed.

  (** the window maximum is the initial one or the last timestamp of an unread block *)
  Lemma window_M_src : forall (l : list blk) m M m' M',
    window l (m, M) = (m', M') -> M' = M \/ exists y, In y l /\ is_read y = false /\ b_max y = M'.
  Proof.
    induction l as [|y r IH]; intros m M m' M'; unfold window; cbn [fold_left].
    - intros [= <- <-]. left. reflexivity.
    - fold (window r (window_step (m, M) y)). unfold window_step.
      destruct (overlaps y m M && negb (is_read y)) eqn:E.
      + apply andb_true_iff in E as [_ Er]. apply negb_true_iff in Er.
        set (m1 := if b_min y <? m then b_min y else m).
        destruct ((b_max y >? m1) && (b_max y <? M)) eqn:E2; intro H; apply IH in H as [->|[z [Hz1 Hz2]]].
        * right. exists y. split; [left; reflexivity|split; auto].
        * right. exists z. split; [right|]; auto.
        * left. reflexivity.
        * right. exists z. split; [right|]; auto.
      + intro H. apply IH in H as [->|[z [Hz1 Hz2]]]; [left; reflexivity|].
        right. exists z. split; [right|]; auto.
  Qed.

  Lemma stepped_usum_le mx : forall bs bs' : list blk, Forall2 (stepped mx) bs bs' -> (usum bs' <= usum bs)%nat.
  Proof.
    induction 1 as [|b b' r r' Hs _ IH]; cbn [usum]; [lia|].
    rewrite (st_unr mx b b' Hs). pose proof (filter_len_le (fun p : Z * V => mx <? tm p) (unr b)). lia.
  Qed.

  Lemma stepped_usum_lt mx : forall bs bs' : list blk, Forall2 (stepped mx) bs bs' ->
    (exists x p, In x bs /\ In p (unr x) /\ tm p <= mx) -> (usum bs' < usum bs)%nat.
  Proof.
    induction 1 as [|b b' r r' Hs Hr IH]; intros [x [p [Hx [Hp Ht]]]]; [destruct Hx|]. cbn [usum].
    rewrite (st_unr mx b b' Hs). pose proof (filter_len_le (fun p : Z * V => mx <? tm p) (unr b)).
    destruct Hx as [<-|Hx].
    - pose proof (filter_len_lt (fun p : Z * V => mx <? tm p) (unr b) p Hp) as Hlt.
      pose proof (stepped_usum_le mx r r' Hr). assert ((mx <? tm p) = false) by lia. specialize (Hlt H1). lia.
    - assert (usum r' < usum r)%nat by (apply IH; exists x, p; auto). lia.
  Qed.

  Lemma usum_drop_read : forall bs : list blk, (usum (drop_read bs) <= usum bs)%nat.
  Proof.
    induction bs as [|b r IH]; cbn [drop_read usum]; [lia|]. destruct (is_read b); cbn [usum]; lia.
  Qed.

  Lemma dedup_loop_total pre : forall fuel L bs mv,
    dinv sp L (pre ++ mv) bs -> adj bs -> (usum bs < fuel)%nat ->
    exists r, dedup_loop fuel size bs mv = Some r.
  Proof.
    induction fuel as [|f IH]; intros L bs mv Hd Ha Hf; [lia|]. cbn [dedup_loop].
    destruct ((length mv <? size)%nat && negb (Nat.eqb (length bs) 0)); [|eexists; reflexivity].
    pose proof (dinv_drop_read sp L _ bs Hd) as Hd1. pose proof (drop_read_adj bs Ha) as Ha1.
    pose proof (usum_drop_read bs) as Hu.
    destruct (drop_read bs) as [|first rest] eqn:Edr; [eexists; reflexivity|].
    pose proof (drop_read_head bs first rest Edr) as R.
    pose proof (d_blocks sp L _ _ Hd1) as B.
    destruct (window_first L first rest B Ha1 R) as [m' [M' [Ew [HL [HmM Hall]]]]].
    pose proof (d_sorted sp L _ _ Hd1) as S. apply ssorted_app_inv in S as [_ [Smv _]].
    destruct (dedup_pass_spec L m' M' (first :: rest) mv B) as [bs2 [mv2 [Ep [F2 _]]]];
      [lia|intros b p Hb Hp; eapply Hall; eauto|exact Smv|].
    destruct (dedup_iter sp size size_pos L pre mv first rest Hd1 Ha1 R) as [m2 [M2 [bs3 [mv3 [Ew' [Ep' [_ [Hd2 Ha2]]]]]]]].
    rewrite Ew in Ew'. inversion Ew'; subst m2 M2. rewrite Ep in Ep'. inversion Ep'; subst bs3 mv3.
    rewrite Ew, Ep. apply (IH M' bs2 mv2 Hd2 Ha2).
    (* progress: the block whose last timestamp is M' has that point unread and in the window *)
    assert (Hx : exists x, In x (first :: rest) /\ is_read x = false /\ b_max x = M').
    { assert (Hstep : window (first :: rest) (b_min first, b_max first) = window rest (b_min first, b_max first)).
      { inversion B as [|? ? Bf _]; subst. pose proof (bwf_minmax first (ok_wf L first Bf)).
        unfold window. cbn [fold_left]. f_equal. unfold window_step, overlaps. rewrite R. cbn [negb].
        replace ((b_min first <=? b_max first) && (b_max first >=? b_min first)) with true by lia.
        cbn [andb]. rewrite Z.ltb_irrefl. rewrite (Z.ltb_irrefl (b_max first)), andb_false_r. reflexivity. }
      rewrite Hstep in Ew. apply window_M_src in Ew as [->|[y [Hy1 [Hy2 Hy3]]]].
      - exists first. split; [left; reflexivity|split; auto].
      - exists y. split; [right; exact Hy1|split; auto]. }
    destruct Hx as [x [Hx1 [Hx2 Hx3]]].
    rewrite Forall_forall in B. pose proof (B x Hx1) as Bx.
    assert (Hp : exists p, In p (unr x) /\ tm p = M').
    { pose proof (ok_wf L x Bx) as W. destruct (bwf_last x W) as [p [Hp Ht]]. exists p. split; [|lia].
      destruct (ok_st L x Bx) as [Fr|[S1 S2]].
      - rewrite fresh_unr by auto. exact Hp.
      - apply unr_In. split; [exact Hp|]. unfold is_read in Hx2. lia. }
    destruct Hp as [p [Hp1 Hp2]].
    assert ((usum bs2 < usum (first :: rest))%nat); [|lia].
    apply (stepped_usum_lt M' _ _ F2). exists x, p. repeat split; auto. lia.
  Qed.

  (** *** lengths: a dedup pass never creates points *)
  Lemma upsert_len (p : Z * V) (l : arr) : (length (upsert p l) <= S (length l))%nat.
  Proof.
    induction l as [|q r IH]; cbn [upsert]; [cbn; lia|].
    destruct (tm p <? tm q); [cbn; lia|]. destruct (tm p =? tm q); cbn; lia.
  Qed.

  Lemma union_rw_len (b : arr) : forall a : arr, (length (union_rw a b) <= length a + length b)%nat.
  Proof.
    induction b as [|y r IH]; intro a; [cbn; lia|]. rewrite union_rw_cons.
    specialize (IH (upsert y a)). pose proof (upsert_len y a). cbn [length]. lia.
  Qed.

  Lemma arr_merge_len (a b : arr) : ssorted a -> ssorted b ->
    (length (arr_merge a b) <= length a + length b)%nat.
  Proof. intros Ha Hb. rewrite arr_merge_union by auto. apply union_rw_len. Qed.

  Lemma filter_split_len {A} (f : A -> bool) l :
    (length (filter f l) + length (filter (fun x => negb (f x)) l) = length l)%nat.
  Proof. induction l as [|x r IH]; cbn; [lia|]. destruct (f x); cbn; lia. Qed.

  Lemma contrib_len (mx : Z) (b : blk) :
    (length (contrib mx b) + length (filter (fun p => (mx <? tm p)%Z) (unr b)) <= length (unr b))%nat.
  Proof.
    unfold contrib, live. rewrite filter_comm.
    pose proof (filter_len_le (ntomb (b_tombs b)) (filter (fun p : Z * V => tm p <=? mx) (unr b))).
    pose proof (filter_split_len (fun p : Z * V => tm p <=? mx) (unr b)) as Hs.
    assert (E : filter (fun p : Z * V => negb (tm p <=? mx)) (unr b) = filter (fun p => mx <? tm p) (unr b))
      by (apply filter_ext; intro p; lia).
    cbn beta in Hs. rewrite E in Hs. lia.
  Qed.

  Lemma dedup_pass_len L mn mx : forall (bs : list blk) (mv : arr),
    Forall (bok L) bs -> L <= mx ->
    (forall b p, In b bs -> In p (unr b) -> mn <= tm p) -> ssorted mv ->
    forall bs' mx' mv', dedup_pass bs mn mx mv = (bs', mx', mv') ->
    (length mv' + usum bs' <= length mv + usum bs)%nat.
  Proof.
    induction bs as [|b r IH]; intros mv HB HL Hmn Hmv bs' mx' mv'.
    - cbn [dedup_pass]. intro H. inversion H; subst. cbn [usum]. lia.
    - inversion HB as [|? ? Hb Hr]; subst.
      assert (Hmnb : forall p, In p (unr b) -> mn <= tm p) by (intros p Hp; eapply Hmn; [left; reflexivity|exact Hp]).
      assert (Hmnr : forall b0 p, In b0 r -> In p (unr b0) -> mn <= tm p) by (intros b0 p Hb0; apply Hmn; right; exact Hb0).
      cbn [dedup_pass]. destruct (negb (overlaps b mn mx) || is_read b) eqn:Esk.
      + destruct (dedup_pass r mn mx mv) as [[r' mx2] mv2] eqn:E. intro H. inversion H; subst.
        specialize (IH mv Hr HL Hmnr Hmv _ _ _ E). cbn [usum]. lia.
      + assert (R : is_read b = false) by (destruct (is_read b); [rewrite orb_true_r in Esk; discriminate|reflexivity]).
        destruct (pass_block L mn mx b Hb HL Hmnb R) as [Emax [St Ev3]].
        rewrite <- Emax. rewrite Z.eqb_refl. cbn [negb andb].
        set (v2 := arr_include (arr_exclude (b_vals b) (b_rmin b) (b_rmax b)) mn mx) in *.
        set (b2 := if (0 <? length v2)%nat then mark_read b (min_time v2) (max_time v2) else b) in *.
        rewrite Ev3. fold (contrib mx b).
        assert (Hs3 : ssorted (contrib mx b)) by (apply ssorted_filter, ssorted_live, (ok_wf L b Hb)).
        assert (Hmv2 : ssorted (arr_merge mv (contrib mx b))) by (apply merge_sorted; auto).
        destruct (dedup_pass r mn mx (arr_merge mv (contrib mx b))) as [[r' mx2] mv2] eqn:E. intro H. inversion H; subst.
        specialize (IH _ Hr HL Hmnr Hmv2 _ _ _ E). cbn [usum].
        pose proof (arr_merge_len mv (contrib mx b) Hmv Hs3). rewrite (st_unr mx b b2 St).
        pose proof (contrib_len mx b). lia.
  Qed.

  Lemma dedup_loop_len pre : forall fuel L bs mv bs' mv',
    dinv sp L (pre ++ mv) bs -> adj bs ->
    dedup_loop fuel size bs mv = Some (bs', mv') ->
    (length mv' + usum bs' <= length mv + usum bs)%nat.
  Proof.
    induction fuel as [|f IH]; intros L bs mv bs' mv' Hd Ha; cbn [dedup_loop].
    - destruct (_ && _); [discriminate|]. intros [= <- <-]. lia.
    - destruct (_ && _); [|intros [= <- <-]; lia].
      pose proof (dinv_drop_read sp L _ bs Hd) as Hd1. pose proof (drop_read_adj bs Ha) as Ha1.
      pose proof (usum_drop_read bs) as Hu.
      destruct (drop_read bs) as [|first rest] eqn:Edr; [intros [= <- <-]; cbn; lia|].
      pose proof (drop_read_head bs first rest Edr) as R.
      pose proof (d_blocks sp L _ _ Hd1) as B.
      destruct (window_first L first rest B Ha1 R) as [m' [M' [Ew [HL [HmM Hall]]]]].
      pose proof (d_sorted sp L _ _ Hd1) as S. apply ssorted_app_inv in S as [_ [Smv _]].
      destruct (dedup_iter sp size size_pos L pre mv first rest Hd1 Ha1 R) as [m2 [M2 [bs3 [mv3 [Ew' [Ep' [_ [Hd2 Ha2]]]]]]]].
      rewrite Ew in Ew'. inversion Ew'; subst m2 M2. rewrite Ew, Ep'. intro Hloop.
      specialize (IH M' bs3 mv3 bs' mv' Hd2 Ha2 Hloop).
      assert (HL' : L <= M') by lia.
      pose proof (dedup_pass_len L m' M' (first :: rest) mv B HL' (fun b p Hb Hp => Hall b p Hb Hp) Smv _ _ _ Ep'). lia.
  Qed.

  (** sorting permutes *)
  Lemma usum_ins_rev (x : blk) : forall rp, usum (ins_rev x rp) = usum (x :: rp).
  Proof.
    induction rp as [|y r IH]; [reflexivity|]. cbn [ins_rev]. destruct (less x y); [|reflexivity].
    cbn [usum] in *. rewrite IH. lia.
  Qed.

  Lemma usum_app (a b : list blk) : usum (a ++ b) = (usum a + usum b)%nat.
  Proof. induction a as [|x r IH]; [reflexivity|]. cbn [app usum]. rewrite IH. lia. Qed.

  Lemma usum_rev (l : list blk) : usum (rev l) = usum l.
  Proof. induction l as [|x r IH]; [reflexivity|]. cbn [rev]. rewrite usum_app, IH. cbn. lia. Qed.

  Lemma usum_isort (l : list blk) : usum (isort l) = usum l.
  Proof.
    unfold isort. rewrite usum_rev.
    assert (H : forall (l acc : list blk), usum (fold_left (fun rp x => ins_rev x rp) l acc) = (usum l + usum acc)%nat).
    { clear l. induction l as [|x r IH]; intro acc; cbn [fold_left]; [reflexivity|].
      rewrite IH, usum_ins_rev. cbn [usum]. lia. }
    rewrite H. cbn. lia.
  Qed.
End Term.
