(** C18 — Each point lands in one shard group that contains it, also after restart.
    (Shared with C19, which re-uses [truncate], [group], [client_create].)

    Mirror of /repo/v1/services/meta/data.go: [Data.CreateShardGroup],
    [RetentionPolicyInfo.ShardGroupByTimestamp], [ShardGroupInfo.Contains/Overlaps/
    marshal/unmarshal], [MarshalTime]/[UnmarshalTime], [Data.DeleteShardGroup],
    [Data.ShardGroupsByTimeRange]; of /repo/v1/services/meta/client.go:
    [Client.CreateShardGroup] / [createShardGroup], snapshot + load; and of
    /repo/v1/coordinator/points_writer.go: [PointsWriter.MapShards] with [sgList].

    Times are [Z] nanoseconds since the Unix epoch, UNBOUNDED: Go's [time.Time]
    holds instants far outside the int64-nanosecond range (seconds since year 1 in
    an int64): the truncated window start of a timestamp near MinNanoTime lies
    before MinInt64 ns ([CreateShardGroup] now clamps it to MinNanoTime, commit
    f8af500a39).  Only [Time.UnixNano] (used by [MarshalTime]) wraps.
    Not modelled: [TruncatedAt] (no group is ever truncated here). *)
From Verif Require Import Base.Prelude.
Local Open Scope Z_scope.

Definition OFF : Z := 62135596800 * 1000000000.   (* year 1 -> 1970, in ns *)
Definition ZEROT : Z := - OFF.                     (* the zero time.Time *)
Definition MinInt64 : Z := - 9223372036854775808.
Definition MaxInt64 : Z := 9223372036854775807.
Definition MinNano : Z := MinInt64 + 2.            (* models.MinNanoTime *)
Definition MaxNano : Z := MaxInt64 - 1.            (* models.MaxNanoTime *)
Definition TwoP64 : Z := 18446744073709551616.

(** [time.Time.Truncate(d)]: rounds down to a multiple of [d] since the ZERO time
    (year 1), not since the Unix epoch; [d <= 0] returns [t] unchanged. *)
Definition truncate (t d : Z) : Z := if d <=? 0 then t else t - (t + OFF) mod d.

(** int64 wrap-around of [Time.UnixNano]. *)
Definition wrap64 (z : Z) : Z := (z - MinInt64) mod TwoP64 + MinInt64.

Definition marshal_time (t : Z) : Z := if t =? ZEROT then 0 else wrap64 t.
(** [ShardGroupInfo.unmarshal] for StartTime/EndTime: 0 -> time.Unix(0,0), else
    UnmarshalTime(i) = time.Unix(0,i): in both cases the instant [i]. *)
Definition unmarshal_bound (v : Z) : Z := v.

Record group := { g_id : N; g_start : Z; g_end : Z; g_del : bool }.

Definition contains (g : group) (t : Z) : bool := (g_start g <=? t) && (t <? g_end g).
Definition live (g : group) : bool := negb (g_del g).
Definition overlaps (g : group) (lo hi : Z) : bool := (g_start g <=? hi) && (lo <? g_end g).

(** [RetentionPolicyInfo.ShardGroupByTimestamp] *)
Definition by_timestamp (gs : list group) (t : Z) : option group :=
  find (fun g => contains g t && live g) gs.

(** One iteration of the clipping loop of [Data.CreateShardGroup]. *)
Definition clip_step (t : Z) (se : Z * Z) (g : group) : Z * Z :=
  if g_del g then se else
  let s := fst se in let e := snd se in
  let s' := if (g_end g <=? t) && (s <? g_end g) then g_end g else s in
  let e' := if (t <? g_start g) && (g_start g <? e) then g_start g else e in
  (s', e').

(** start/end before clipping: truncated window, start clamped to MinNanoTime
    (repair f8af500a39), end = truncated start + d clamped to MaxNanoTime+1 *)
Definition init_bounds (d t : Z) : Z * Z :=
  let s0 := truncate t d in
  let e0 := s0 + d in
  let s1 := if s0 <? MinNano then MinNano else s0 in
  let e1 := if MaxNano <? e0 then MaxNano + 1 else e0 in
  (s1, e1).

Definition new_bounds (gs : list group) (d t : Z) : Z * Z :=
  fold_left (clip_step t) gs (init_bounds d t).

Record state := { st_gs : list group; st_next : N; st_d : Z }.

(** [Data.CreateShardGroup]: nothing if a live group already contains [t]. *)
Definition data_create (st : state) (t : Z) : state :=
  match by_timestamp (st_gs st) t with
  | Some _ => st
  | None =>
      let se := new_bounds (st_gs st) (st_d st) t in
      let g := {| g_id := st_next st; g_start := fst se; g_end := snd se; g_del := false |} in
      {| st_gs := st_gs st ++ [g]; st_next := N.succ (st_next st); st_d := st_d st |}
  end.

(** [Client.CreateShardGroup]: existing group, else create and look it up again
    ([None] = the "nil shard group" outcome). *)
Definition client_create (st : state) (t : Z) : state * option group :=
  match by_timestamp (st_gs st) t with
  | Some g => (st, Some g)
  | None => let st' := data_create st t in (st', by_timestamp (st_gs st') t)
  end.

Definition delete_group (gs : list group) (id : N) : option (list group) :=
  if existsb (fun g => N.eqb (g_id g) id) gs
  then Some (map (fun g => if N.eqb (g_id g) id
                           then {| g_id := g_id g; g_start := g_start g; g_end := g_end g; g_del := true |}
                           else g) gs)
  else None.

(** persist (marshal) + load (unmarshal) of one group *)
Definition reload_group (g : group) : group :=
  {| g_id := g_id g;
     g_start := unmarshal_bound (marshal_time (g_start g));
     g_end := unmarshal_bound (marshal_time (g_end g));
     g_del := g_del g |}.

Definition range_ids (gs : list group) (lo hi : Z) : list N :=
  map g_id (filter (fun g => live g && overlaps g lo hi) gs).

(** [PointsWriter.MapShards] (retention duration 0: every point is in scope).
    First loop: collect/create groups; second loop: [sgList.ShardGroupAt].
    The binary search + linear fallback of [ShardGroupAt] returns a group of the
    list that [Contains] the time iff there is one; modelled as [find]. *)
Fixpoint ms_collect (st : state) (lst : list group) (ts : list Z) : option (state * list group) :=
  match ts with
  | [] => Some (st, lst)
  | t :: r =>
      if existsb (fun g => contains g t) lst then ms_collect st lst r
      else match client_create st t with
           | (st', Some g) => ms_collect st' (lst ++ [g]) r
           | (_, None) => None
           end
  end.

Definition sg_at (lst : list group) (t : Z) : option group := find (fun g => contains g t) lst.

Inductive op :=
| OSetD (d : Z)
| OCreate (t : Z)
| OLookup (t : Z)
| ORange (lo hi : Z)
| ODelete (id : N)
| OReload
| OWrite (ts : list Z)
| OFailNext.   (* fault injection: the next kv-store Update (metadata commit) fails once *)

Inductive obs :=
| RUnit
| RErr
| RGroup (g : option (N * Z * Z))
| RId (o : option N)
| RIds (l : list N)
| RMap (l : list (option N)).

Definition step (st : state) (o : op) : state * obs :=
  match o with
  | OSetD d => ({| st_gs := st_gs st; st_next := st_next st; st_d := d |}, RUnit)
  | OCreate t =>
      let (st', r) := client_create st t in
      (st', RGroup (option_map (fun g => (g_id g, g_start g, g_end g)) r))
  | OLookup t => (st, RId (option_map g_id (by_timestamp (st_gs st) t)))
  | ORange lo hi => (st, RIds (range_ids (st_gs st) lo hi))
  | ODelete id =>
      match delete_group (st_gs st) id with
      | Some gs' => ({| st_gs := gs'; st_next := st_next st; st_d := st_d st |}, RUnit)
      | None => (st, RErr)
      end
  | OReload => ({| st_gs := map reload_group (st_gs st); st_next := st_next st; st_d := st_d st |}, RUnit)
  | OWrite ts =>
      match ms_collect st [] ts with
      | Some (st', lst) => (st', RMap (map (fun t => option_map g_id (sg_at lst t)) ts))
      | None => (st, RErr)
      end
  | OFailNext => (st, RUnit)
  end.

(** Steps with a pending injected store failure ([true] = the next commit fails).
    [Client.commit] writes the snapshot BEFORE it swaps the cache, so a failed
    commit returns an error and leaves the state unchanged; operations that do not
    commit (look-ups, reload, a create/write fully served by existing groups, a
    delete of an unknown id) keep the failure pending.  A batch write commits for
    the first time at the first group it has to create, so it fails there with
    nothing created.  (OSetD is a harness manipulation, never failed.) *)
Definition step_f (sf : state * bool) (o : op) : (state * bool) * obs :=
  let (st, f) := sf in
  match o with
  | OFailNext => ((st, true), RUnit)
  | _ =>
    if negb f then let (st', r) := step st o in ((st', false), r) else
    match o with
    | OCreate t =>
        match by_timestamp (st_gs st) t with
        | Some _ => let (st', r) := step st o in ((st', true), r)
        | None => ((st, false), RErr)
        end
    | OWrite ts =>
        if forallb (fun t => match by_timestamp (st_gs st) t with Some _ => true | None => false end) ts
        then let (st', r) := step st o in ((st', true), r)
        else ((st, false), RErr)
    | ODelete id =>
        if existsb (fun g => N.eqb (g_id g) id) (st_gs st) then ((st, false), RErr) else ((st, true), RErr)
    | _ => let (st', r) := step st o in ((st', true), r)
    end
  end.

Fixpoint run_f (sf : state * bool) (ops : list op) : list (obs * list group) :=
  match ops with
  | [] => []
  | o :: r => let (sf', ob) := step_f sf o in (ob, st_gs (fst sf')) :: run_f sf' r
  end.

Fixpoint final_f (sf : state * bool) (ops : list op) : state * bool :=
  match ops with
  | [] => sf
  | o :: r => final_f (fst (step_f sf o)) r
  end.

Fixpoint run (st : state) (ops : list op) : list (obs * list group) :=
  match ops with
  | [] => []
  | o :: r => let (st', ob) := step st o in (ob, st_gs st') :: run st' r
  end.

Fixpoint final (st : state) (ops : list op) : state :=
  match ops with
  | [] => st
  | o :: r => final (fst (step st o)) r
  end.

Definition init (d : Z) : state := {| st_gs := []; st_next := 1%N; st_d := d |}.

(** ---------- the oracle: the property stated on observed outputs only ---------- *)

Fixpoint pairwise {A} (r : A -> A -> bool) (l : list A) : bool :=
  match l with
  | [] => true
  | x :: l' => forallb (r x) l' && pairwise r l'
  end.

(** no instant lies in two live groups *)
Definition sep (g h : group) : bool :=
  g_del g || g_del h || (Z.min (g_end g) (g_end h) <=? Z.max (g_start g) (g_start h)).

Definition find_id (gs : list group) (id : N) : option group :=
  find (fun g => N.eqb (g_id g) id) gs.

(** a point ACCEPTED earlier into group [id]: that group still exists under the same
    id (metadata groups are only ever marked deleted in these histories, and ids
    are never re-used) and, unless deleted, still contains the point *)
Definition still_routed (gs : list group) (w : Z * N) : bool :=
  match find_id gs (snd w) with
  | Some g => g_del g || contains g (fst w)
  | None => false   (* the group an accepted point was routed to never disappears *)
  end.

Definition routed_ok (gs : list group) (t : Z) (r : option N) : bool :=
  match r with
  | Some id => match find_id gs id with
               | Some g => live g && contains g t
               | None => false
               end
  | None => false
  end.

Definition group_eqb (a b : group) : bool :=
  N.eqb (g_id a) (g_id b) && Z.eqb (g_start a) (g_start b) && Z.eqb (g_end a) (g_end b)
  && Bool.eqb (g_del a) (g_del b).

Definition triple_eqb (a b : N * Z * Z) : bool :=
  N.eqb (fst (fst a)) (fst (fst b)) && Z.eqb (snd (fst a)) (snd (fst b)) && Z.eqb (snd a) (snd b).

Definition obs_eqb (a b : obs) : bool :=
  match a, b with
  | RUnit, RUnit => true
  | RErr, RErr => true
  | RGroup x, RGroup y => option_eqb triple_eqb x y
  | RId x, RId y => option_eqb N.eqb x y
  | RIds x, RIds y => list_eqb N.eqb x y
  | RMap x, RMap y => list_eqb (option_eqb N.eqb) x y
  | _, _ => false
  end.

(** oracle for one step: [prev] = observed groups before, [gs] = after,
    returns the new list of routed points. *)
Definition op_ok (prev gs : list group) (o : op) (r : obs) : bool :=
  match o, r with
  | OCreate t, RGroup (Some (id, s, e)) =>
      (s <=? t) && (t <? e) && routed_ok gs t (Some id)
  | OCreate _, _ => false
  | OWrite ts, RMap rs =>
      Nat.eqb (length ts) (length rs) &&
      forallb (fun p => routed_ok gs (fst p) (snd p)) (combine ts rs)
  | OWrite _, _ => false
  | OLookup t, RId r =>
      match r with
      | Some id => routed_ok gs t (Some id)
      | None => negb (existsb (fun g => live g && contains g t) gs)
      end
  | ORange lo hi, RIds ids =>
      list_eqb N.eqb ids (map g_id (filter (fun g => live g && (g_start g <=? hi) && (lo <? g_end g)) gs))
  | OReload, _ => list_eqb group_eqb prev gs
  | _, _ => true
  end.

Definition routed_of (o : op) (r : obs) : list (Z * N) :=
  match o, r with
  | OCreate t, RGroup (Some (id, _, _)) => [(t, id)]
  | OWrite ts, RMap rs =>
      flat_map (fun p => match snd p with Some id => [(fst p, id)] | None => [] end) (combine ts rs)
  | _, _ => []
  end.

(** [pend] = an injected store failure is pending (known from the inputs).  An
    error from a create/write/delete-of-existing-group is legitimate only then, it
    consumes the failure and must leave the groups unchanged. *)
Definition is_err (r : obs) : bool := match r with RErr => true | _ => false end.

Fixpoint oracle (pend : bool) (prev : list group) (w : list (Z * N)) (ops : list op)
         (res : list (obs * list group)) : bool :=
  match ops, res with
  | [], [] => true
  | o :: ops', (r, gs) :: res' =>
      let w' := routed_of o r ++ w in
      let fails :=   (* an error that consumes the pending failure *)
        match o with
        | OCreate _ | OWrite _ => is_err r
        | ODelete id => is_err r && existsb (fun g => N.eqb (g_id g) id) prev
        | _ => false
        end in
      let pend' := match o with OFailNext => true | _ => if fails then false else pend end in
      (if fails then pend && list_eqb group_eqb prev gs else op_ok prev gs o r)
      && pairwise sep gs && forallb (still_routed gs) w'
      && oracle pend' gs w' ops' res'
  | _, _ => false
  end.

(** In a case the group list after a step is [None] when it is identical to the
    list after the previous step (keeps the case terms small). *)
Record case := { c_d : Z; c_ops : list op; c_res : list (obs * option (list group)) }.

Fixpoint expand (prev : list group) (res : list (obs * option (list group))) : list (obs * list group) :=
  match res with
  | [] => []
  | (r, Some gs) :: res' => (r, gs) :: expand gs res'
  | (r, None) :: res' => (r, prev) :: expand prev res'
  end.

Definition res_eqb (a b : obs * list group) : bool :=
  obs_eqb (fst a) (fst b) && list_eqb group_eqb (snd a) (snd b).

Definition check (c : case) : verdict :=
  let m := run_f (init (c_d c), false) (c_ops c) in
  let res := expand [] (c_res c) in
  judge (list_eqb res_eqb res m) (oracle false [] [] (c_ops c) res).
