#!/usr/bin/env python3
"""Regenerate /verif/MANIFEST.json from checks/*.json and na.json (unclaimed properties + reason)."""
import json, glob, os
V = os.path.dirname(os.path.dirname(os.path.abspath(__file__)))
props = [json.loads(l)['id'] for l in open(os.path.join(V, 'properties.jsonl'))]
base = json.load(open('/root/.vp/BASELINE.json')) if os.path.exists('/root/.vp/BASELINE.json') else {}
na_reasons = json.load(open(os.path.join(V, 'na.json'))) if os.path.exists(os.path.join(V, 'na.json')) else {}
enabled = set(open(os.path.join(V, 'checks', 'ENABLED')).read().split())
checks = []; claimed = set()
for f in sorted(glob.glob(os.path.join(V, 'checks', 'C*.json'))):
    c = json.load(open(f)); pid = c['id']
    if c.get('disabled') or pid not in enabled: continue
    claimed.add(pid)
    checks.append({
        'property_id': pid,
        'quick_cmd': './check %s --tier quick' % pid,
        'thorough_cmd': './check %s --tier thorough' % pid,
        'evidence_file': 'evidence/%s.json' % pid,
        'replay_cmd_template': './check %s --replay {path}' % pid,
        'engine': 'coq-proof+correspondence',
        'level_claimed': {'category': 'proof', 'text': c.get('level_text', ''), 'design_ref': c.get('design_ref', 'DESIGN.md section 5, ' + pid)},
        'level_note': c.get('level_note', ''),
        'technique': c.get('technique', 'Coq 8.16 theorems over a Gallina mirror model + differential correspondence check (real Go code vs model under vm_compute)'),
    })
# merge findings.d/*.json into known_findings.json (development-time only; checks never write it)
kf = []
for f in sorted(glob.glob(os.path.join(V, 'findings.d', '*.json'))):
    kf += json.load(open(f))
json.dump(kf, open(os.path.join(V, 'known_findings.json'), 'w'), indent=1)
hooks = json.load(open(os.path.join(V, 'MANIFEST.hooks'))) if os.path.exists(os.path.join(V, 'MANIFEST.hooks')) else {}
m = {
    'version': 1,
    'setup_cmd': './scripts/setup.sh',
    'hooks': {
        'guard': 'verif',
        'enable': 'go build -tags verif (every driver under harness/cmd is built with -tags verif by ./check)',
        'baseline_off_cmd': 'cd /repo && go test -mod=mod -json -vet=off -count=1 -timeout 25m ./...',
        'source_commits': hooks.get('source_commits', []),
        'add_only': True,
    },
    'engines': [{'name': 'coq-proof+correspondence', 'path': 'check', 'serves_properties': sorted(claimed),
                 'kind_free_text': 'Coq 8.16.1 development (coq/) with one Props/<id>.v per property; Go drivers (harness/cmd/*) run the real code; the model judge is evaluated on the implementation observations by coqc/vm_compute'}],
    'checks': checks,
    'not_applicable': [{'property_id': p, 'reason': na_reasons.get(p, 'not claimed yet: model, theorems and correspondence driver for this property are still under construction in this round (see DESIGN.md section 5 for the plan)')} for p in props if p not in claimed],
    'notes': 'All checks share ./check; see DESIGN.md. known_findings.json lists recorded findings.',
}
json.dump(m, open(os.path.join(V, 'MANIFEST.json'), 'w'), indent=1)
print('claimed', len(claimed), 'unclaimed', len(props) - len(claimed))
