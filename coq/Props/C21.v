(** C21 — Storage read requests return exactly the stored series and points.
    Property theorems only (model: Model/C21.v; proofs: Proofs/C21_order.v, C21_filter.v,
    C21_group.v).

    FULL STATEMENT (properties.jsonl): a filter read over a bucket, time range and tag/field
    predicate returns each matching series once with exactly its points in range in order, and
    a group read partitions the same series by the requested group keys with every series in
    exactly one group, ordered by group key; reads spanning several shards neither drop nor
    duplicate points.

    The faithful model REFUTES the full statement in two corners, both reproduced on the real
    code (findings.d/C21.json):
      - a point written at the last writable instant MaxNanoTime is returned by no read
        ([C21_filter_points_exact_refuted]);
      - tag values containing a NUL byte make the group sort key ambiguous
        ([C21_group_key_order_refuted]).
    A third corner (the value filter of the shared multi-shard cursor surviving from one series
    to the next) was found with this check and repaired upstream (fix e5cbc6eccf); the model
    follows the repaired code and [C21_filter_value_conditions_exact] is now unconditional.
    The [_partial] theorems are the full statement outside these corners. *)
From Coq Require Import String Ascii Sorting.Sorted Permutation.
From Verif Require Import Base.Prelude Model.C21 Proofs.C21_order Proofs.C21_filter Proofs.C21_group
  Proofs.C21_cursor.

(** Rows of a filter read, for EVERY data set and predicate: the series x field pairs are
    strictly increasing in (series key, field) order — so each appears exactly once — and a
    pair is returned iff the series and the field are stored in the shards and the predicate
    holds on it (a missing tag reads as the empty string). *)
Theorem C21_filter_rows_exact : forall shs p,
  StronglySorted (clt sf_cmp) (series_rows shs p) /\
  NoDup (series_rows shs p) /\
  forall s f, In (s, f) (series_rows shs p) <->
              stored_series shs s /\ stored_field shs (s_name s) f /\ opt_eval p s f = true.
Proof.
  intros; split; [apply series_rows_sorted | split].
  - apply (sorted_nodup _ sf_cmp_order), series_rows_sorted.
  - intros; apply in_series_rows.
Qed.
Print Assumptions C21_filter_rows_exact.

(** The index condition (all [_field] comparisons replaced by [true]) followed by the
    per-row evaluation of the full condition selects exactly the rows on which the predicate
    holds: the two-stage evaluation of [indexSeriesCursor] loses and adds nothing. *)
Theorem C21_two_stage_predicate : forall p s f,
  opt_index_eval p s && opt_eval p s f = opt_eval p s f.
Proof. exact two_stage_eval. Qed.
Print Assumptions C21_two_stage_predicate.

(** Points of one row, for every data set whose shards have pairwise disjoint non-empty time
    ranges and hold their points inside their range in strictly increasing time order (what
    C18 and the engine properties provide), for every request window, series field, value
    condition [cond] of the row and ANY state [st] the earlier rows left in the shared cursors:
    the multi-shard cursor over the selected shards, in [findShardIDs] order, yields the points
    in strictly increasing time order (no duplicate), and a point below MaxNanoTime is yielded
    iff it is stored in SOME shard of the data set, start <= t < end and its value passes the
    row's own condition (none dropped, none invented; shards that are not selected hold no point
    of the window). *)
Theorem C21_filter_points_exact_partial : forall shs start end_ s f st ty cond,
  wf_dataset shs ->
  let lo := clamp_start start in
  let e := clamp_end end_ in
  let sel := select_shards shs lo e in
  let pts := fst (multi_cursor_v st ty cond sel lo (e - 1) s f) in
  StronglySorted pt_lt pts /\
  forall t v, (t < MaxNanoTime)%Z ->
    (In (t, v) pts <->
     stored_point shs s f t v /\ (start <= t < end_)%Z /\ vpass cond v = true).
Proof.
  intros shs start end_ s f st ty cond W lo e sel pts. subst pts.
  rewrite multi_cursor_v_ok. split.
  - apply vfilter_sorted, multi_cursor_sorted; [|apply select_ordered, W].
    intros sh H. apply select_in in H as [H _]. apply (wf_shards _ W), H.
  - intros t v Ht. rewrite in_vfilter. unfold sel, lo, e.
    rewrite (multi_cursor_in shs start end_ s f t v W Ht). tauto.
Qed.
Print Assumptions C21_filter_points_exact_partial.

(** The row's value condition is the predicate itself on the row's values
    ([influxql.Reduce] loses nothing) ... *)
Theorem C21_value_condition_is_predicate : forall p s f v,
  vpass (value_cond p s f) v = opt_eval_v p s f v.
Proof. exact value_cond_spec. Qed.
Print Assumptions C21_value_condition_is_predicate.

(** ... and a whole filter read is exact for EVERY data set, window, predicate and field
    typing: every row = the row's own points (all selected shards, in order) filtered by the
    row's own condition, whatever mixture of rows with and without value conditions the request
    has and however many shards it spans (full statement for value conditions; it was refuted
    by the model before fix e5cbc6eccf). *)
Theorem C21_filter_value_conditions_exact : forall ty shs start end_ p,
  let lo := clamp_start start in
  let e := clamp_end end_ in
  let sel := select_shards shs lo e in
  read_filter ty shs start end_ p = map (exact_row sel lo (e - 1)) (srows sel p).
Proof. intros. unfold read_filter. apply read_rows_exact. Qed.
Print Assumptions C21_filter_value_conditions_exact.

(** The shape that used to fail: two shards, one series with integer fields a and b, predicate
    (_field = "a" AND value > 5) OR _field = "b".  Row a arms the integer cursor's filter with
    "value > 5"; row b has no condition and now gets all four of its points (before the fix
    (11, 2), in b's second shard, was dropped by a's stale filter). *)
Definition stale_s := mkS "cpu"%string [].
Definition stale_shs := [
  mkSh 0 10 [mkSD stale_s [("a"%string, [(1, 1); (6, 10)]%Z); ("b"%string, [(1, 1); (6, 10)]%Z)]];
  mkSh 10 20 [mkSD stale_s [("a"%string, [(11, 2); (16, 20)]%Z); ("b"%string, [(11, 2); (16, 20)]%Z)]]].
Definition stale_pred :=
  POr (PAnd (PCmp false "_field" "a") (PVal VGt 5)) (PCmp false "_field" "b").
Example C21_value_condition_mixed_rows :
  read_filter [] stale_shs 0 20 (Some stale_pred) =
    [([("_field", "a"); ("_measurement", "cpu")]%string, [(6, 10); (16, 20)]%Z);
     ([("_field", "b"); ("_measurement", "cpu")]%string, [(1, 1); (6, 10); (11, 2); (16, 20)]%Z)]
  /\ spec_filter stale_shs 0 20 (Some stale_pred) = read_filter [] stale_shs 0 20 (Some stale_pred).
Proof. split; vm_compute; reflexivity. Qed.

(** ... and the restriction t < MaxNanoTime cannot be removed: [validateArgs] clamps the end of
    the window to MaxNanoTime and the window is end-exclusive, so a point stored at
    t = MaxNanoTime (a time the write path accepts) is returned by NO read, whatever the
    requested range. *)
Theorem C21_filter_points_exact_refuted :
  exists shs start end_ s f t v,
    wf_dataset shs /\ stored_point shs s f t v /\ (start <= t < end_)%Z /\
    ~ In (t, v) (multi_cursor (select_shards shs (clamp_start start) (clamp_end end_))
                              (clamp_start start) (clamp_end end_ - 1) s f).
Proof.
  pose (s := mkS "m"%string []).
  pose (sh := mkSh (MaxNanoTime - 6) (MaxNanoTime + 1)
                   [mkSD s [("f"%string, [(MaxNanoTime, 1%Z)])]]).
  exists [sh], 0%Z, (MaxNanoTime + 1)%Z, s, "f"%string, MaxNanoTime, 1%Z.
  assert (SP : forall s' f', shard_points sh s' f' = [] \/
                             shard_points sh s' f' = [(MaxNanoTime, 1%Z)]).
  { intros s' f'. unfold shard_points, sh. cbn [sh_data flat_map sd_series sd_fields].
    destruct (series_eqb s s'); [|left; reflexivity]. cbn [fst snd].
    destruct (String.eqb "f" f'); [right|left]; reflexivity. }
  split; [|split; [|split]].
  - constructor.
    + intros sh' [<-|[]]. constructor.
      * unfold sh; cbn; lia.
      * intros s' f' t v H. destruct (SP s' f') as [E|E]; rewrite E in H; [destruct H|].
        destruct H as [H|[]]. inversion H; subst. unfold sh, MaxNanoTime, MinNanoTime; cbn. lia.
      * intros s' f'. destruct (SP s' f') as [E|E]; rewrite E; repeat constructor.
    + repeat constructor. intros [].
    + intros a b [<-|[]] [<-|[]] H. congruence.
  - exists sh. split; [left; reflexivity|]. vm_compute. auto.
  - unfold MaxNanoTime. lia.
  - apply max_time_point_lost.
Qed.
Print Assumptions C21_filter_points_exact_refuted.

(** The cursor as the state machine of [*MultiShardArrayCursor.Next] / [nextArrayCursor]
    (a per-shard cursor = its remaining non-empty batches; an empty batch makes [Next] move on to
    the following shards): calling [Next] until it returns an empty batch yields the
    concatenation of ALL batches of the current and of every following shard, in order — for
    any number of shards and batches. *)
Theorem C21_multi_shard_cursor_drain : forall fuel cur rest,
  nonempty_batches cur -> Forall nonempty_batches rest -> remaining cur rest < fuel ->
  ms_drain fuel cur rest = Some (concat cur ++ concat (map (@concat _) rest)).
Proof. exact ms_drain_all. Qed.
Print Assumptions C21_multi_shard_cursor_drain.

(** Group read (GroupBy), for EVERY data set, window, predicate, key list and field typing:
    the series rows of the groups (identified by their tag sets) are a permutation of the rows
    kept by the sorting pass (all rows under HintSchemaAllTime, else those whose probe cursor
    returned a point); no group is empty and all rows of a group have the group's sort key; the
    groups' sort keys are STRICTLY increasing bytewise. *)
Theorem C21_group_partition : forall ty shs start end_ p keys all_time,
  let gs := read_group ty shs start end_ p GroupBy keys all_time in
  Permutation (concat (group_tags gs)) (map srow_tags (kept_srows ty shs start end_ p all_time)) /\
  Forall (group_ok keys (fun t => t)) (group_tags gs) /\
  StronglySorted (clt scmp) (map (gk keys (fun t => t)) (group_tags gs)).
Proof. exact group_by_spec. Qed.
Print Assumptions C21_group_partition.

(** ... hence every returned series row is in exactly one group. *)
Theorem C21_group_exactly_one : forall ty shs start end_ p keys all_time g1 g2 t,
  let gs := group_tags (read_group ty shs start end_ p GroupBy keys all_time) in
  In g1 gs -> In g2 gs -> In t g1 -> In t g2 -> g1 = g2.
Proof. exact group_by_exactly_one. Qed.
Print Assumptions C21_group_exactly_one.

(** GroupNone: nothing when no row qualifies, else a single group over ALL series rows of the
    request in cursor order, without partition values. *)
Theorem C21_group_none : forall ty shs start end_ p keys all_time,
  let gs := read_group ty shs start end_ p GroupNone keys all_time in
  (kept_srows ty shs start end_ p all_time = [] /\ gs = []) \/
  (exists g, gs = [g] /\ g_vals g = [] /\
     map fst (g_rows g) =
     map srow_tags (srows (select_shards shs (clamp_start start) (clamp_end end_)) p)).
Proof. exact group_none_spec. Qed.
Print Assumptions C21_group_none.

(** The sort key (values joined by NUL, a missing/empty value encoded as 0xff) orders rows as
    the lexicographic order of their partition-value tuples with a missing value LAST, and
    identifies exactly the rows that agree on every group key — provided no tag value contains
    a NUL or a 0xff byte (true of all valid UTF-8 text without NUL). *)
Theorem C21_group_key_order_partial : forall keys t1 t2,
  clean_tags t1 -> clean_tags t2 ->
  scmp (sort_key keys t1) (sort_key keys t2)
  = tuple_cmp (map nonempty_opt (part_vals keys t1)) (map nonempty_opt (part_vals keys t2)) /\
  (sort_key keys t1 = sort_key keys t2 <->
   map nonempty_opt (part_vals keys t1) = map nonempty_opt (part_vals keys t2)).
Proof.
  intros. split; [apply sort_key_tuple | apply sort_key_injective]; auto.
Qed.
Print Assumptions C21_group_key_order_partial.

(** ... and without that proviso two rows with DIFFERENT partition values collide
    (t0="a\000b",t1="c" versus t0="a",t1="b\000c") and are put in one group. *)
Theorem C21_group_key_order_refuted :
  exists keys t1 t2, sort_key keys t1 = sort_key keys t2 /\ part_vals keys t1 <> part_vals keys t2.
Proof. exists ["t0"%string; "t1"%string], dirty_t1, dirty_t2. exact sort_key_collision. Qed.
Print Assumptions C21_group_key_order_refuted.

(** Non-vacuity: a two-shard data set (created out of time order) satisfies [wf_dataset]; a
    read over both shards returns the series once with the points of both shards in order, a
    group read by t0 puts the tagged series before the untagged one. *)
Definition ex_s0 := mkS "m"%string [("t0"%string, "a"%string)].
Definition ex_s1 := mkS "m"%string [].
Definition ex_shs := [
  mkSh 10 20 [mkSD ex_s0 [("f"%string, [(10, 3); (19, 4)]%Z)]; mkSD ex_s1 [("f"%string, [(15, 7)]%Z)]];
  mkSh 0 10 [mkSD ex_s0 [("f"%string, [(0, 1); (9, 2)]%Z)]]].
Example C21_nonvacuous :
  read_filter [] ex_shs 9 20 (Some (PCmp false "t0" "a")) =
    [([("_field", "f"); ("_measurement", "m"); ("t0", "a")]%string, [(9, 2); (10, 3); (19, 4)]%Z)]
  /\ map g_vals (read_group [] ex_shs 0 30 None GroupBy ["t0"%string] false)
     = [[Some "a"%string]; [None]]
  /\ spec_filter ex_shs 9 20 (Some (PCmp false "t0" "a"))
     = read_filter [] ex_shs 9 20 (Some (PCmp false "t0" "a")).
Proof. repeat split; vm_compute; reflexivity. Qed.
