(** C22 — InfluxQL SELECT results match the language semantics.

    This property is a conformance statement against a REFERENCE EVALUATOR.  The reference
    evaluator is the Gallina function [eval : dataset -> query -> list (skey * list row)]
    below, for the subset

      SELECT f|g,...  |  SELECT fn(f|g),...  (fn in count sum mean min max first last)
      WHERE time >(=) a AND time <(=) b [AND <and/or tree of tag =/!= and field comparisons>]
      [GROUP BY [time(every[,offset])] [,t1] [,t2]] [fill(none|null|previous|linear|<int>)]
      [ORDER BY time DESC] [LIMIT n [OFFSET m]] [SLIMIT n [SOFFSET m]]

    over one measurement with tag keys t1,t2 and integer fields f,g.  The engine itself
    (compiler, planner, iterators of influxql/query and tsm1) is NOT modelled; it is tied to
    the evaluator by differential execution only (harness/cmd/c22).

    Two instances of one parametric evaluator [evalg] exist:
      - [eval]        = [evalg spec_mode]   : the documented language semantics;
      - [eval_engine] = [evalg engine_mode] : the same, except for the places where the real
        engine was observed (and confirmed by reading the code) to deviate from the documented
        semantics; each deviation is one boolean switch of [mode] and one entry of
        findings.d/C22.json.
    The judge compares the implementation's rows with [eval_engine] ("same") and with [eval]
    ("ok"): a case where the two differ is tolerated only if it carries the finding's shape
    signature. *)
From Verif Require Import Base.Prelude.
From Coq Require Import QArith Qabs Floats.SpecFloat.
Close Scope Q_scope.
Open Scope Z_scope.

(* ------------------------------------------------------------------ *)
(** * Data *)
Inductive tagkey := T1 | T2.
Inductive fieldkey := Ff | Fg.

(** One stored point of series (t1,t2) at [p_time] (ns); a field is [None] when the point
    does not carry it.  Datasets hold at most one point per (series, time). *)
Record point := mkpt { p_t1 : N; p_t2 : N; p_time : Z; p_f : option Z; p_g : option Z }.
Definition dataset := list point.

Definition tagval (k : tagkey) (p : point) : N := match k with T1 => p_t1 p | T2 => p_t2 p end.
Definition fieldval (k : fieldkey) (p : point) : option Z := match k with Ff => p_f p | Fg => p_g p end.

(* ------------------------------------------------------------------ *)
(** * Queries *)
Inductive cmpop := OEq | ONe | OLt | OLe | OGt | OGe.
Definition cmp_ok (op : cmpop) (a b : Z) : bool :=
  match op with
  | OEq => a =? b | ONe => negb (a =? b) | OLt => a <? b | OLe => a <=? b | OGt => b <? a | OGe => b <=? a
  end.

Inductive cond :=
| CAnd (a b : cond) | COr (a b : cond)
| CTag (k : tagkey) (eq : bool) (v : N)
| CField (k : fieldkey) (op : cmpop) (z : Z).

(** A comparison with a field the point does not carry is false (for every operator). *)
Fixpoint cond_ok (c : cond) (p : point) : bool :=
  match c with
  | CAnd a b => cond_ok a p && cond_ok b p
  | COr a b => cond_ok a p || cond_ok b p
  | CTag k e v => Bool.eqb (N.eqb (tagval k p) v) e
  | CField k op z => match fieldval k p with Some x => cmp_ok op x z | None => false end
  end.

(** What the series index can decide: field comparisons count as "possibly true". *)
Fixpoint cond_tagpass (c : cond) (p : point) : bool :=
  match c with
  | CAnd a b => cond_tagpass a p && cond_tagpass b p
  | COr a b => cond_tagpass a p || cond_tagpass b p
  | CTag k e v => Bool.eqb (N.eqb (tagval k p) v) e
  | CField _ _ _ => true
  end.

Inductive aggfn := Raw | Count | Sum | Mean | Min | Max | First | Last.
Inductive fillmode := FDefault | FNone | FNull | FPrevious | FLinear | FValue (v : Z).

Record query := {
  q_sel : list (aggfn * fieldkey);     (* all Raw, or all calls *)
  q_cond : option cond;
  q_min_incl : bool; q_min : Z;        (* time >= / > q_min *)
  q_max_incl : bool; q_max : Z;        (* time <= / < q_max *)
  q_every : Z; q_goffset : Z;          (* GROUP BY time(every, offset); every = 0: none *)
  q_gtags : list tagkey;               (* GROUP BY tags, in key order *)
  q_fill : fillmode;
  q_desc : bool;
  q_limit : nat; q_offset : nat; q_slimit : nat; q_soffset : nat
}.

(** Result values.  [VMean s c] is the mean of [c] integers summing to [s] (the engine returns
    a float64); [VRat] an exact rational (linear interpolation between means); [VAny l]: any
    member of [l] is admissible (engine mode only). *)
Inductive value := VNull | VInt (z : Z) | VMean (s c : Z) | VRat (q : Q) | VAny (l : list Z).
Definition row := (Z * list value)%type.
Definition skey := list (tagkey * N).
Definition result := list (skey * list row).

(* ------------------------------------------------------------------ *)
(** * Modes: the documented semantics and the observed engine deviations *)
Record mode := {
  m_prev_iter_order : bool;   (* fill(previous) under ORDER BY time DESC copies the later window *)
  m_limit_per_call : bool;    (* LIMIT/OFFSET cut each function column before the columns are joined *)
  m_slimit_index : bool;      (* SLIMIT/SOFFSET cut each shard's index tag sets, not the result series *)
  m_firstlast_any : bool      (* first()/last() without GROUP BY time: any point of the extreme time *)
}.
Definition spec_mode := {| m_prev_iter_order := false; m_limit_per_call := false; m_slimit_index := false; m_firstlast_any := false |}.
Definition engine_mode := {| m_prev_iter_order := true; m_limit_per_call := true; m_slimit_index := true; m_firstlast_any := true |}.

(* ------------------------------------------------------------------ *)
(** * Generic helpers *)
Fixpoint insert_by {A} (leb : A -> A -> bool) (x : A) (l : list A) : list A :=
  match l with
  | [] => [x]
  | y :: r => if leb x y then x :: l else y :: insert_by leb x r
  end.
Definition isort {A} (leb : A -> A -> bool) (l : list A) : list A := fold_right (insert_by leb) [] l.

Fixpoint dedup {A} (eqb : A -> A -> bool) (l : list A) : list A :=
  match l with
  | [] => []
  | x :: r => match r with
              | y :: _ => if eqb x y then dedup eqb r else x :: dedup eqb r
              | [] => [x]
              end
  end.

(** LIMIT n / OFFSET m on a row list (LIMIT 0 = no limit). *)
Definition lim {A} (n : nat) (l : list A) : list A := match n with O => l | _ => firstn n l end.
Definition limoff {A} (limit offset : nat) (l : list A) : list A := lim limit (skipn offset l).

Fixpoint seqZ (start step : Z) (n : nat) : list Z :=
  match n with O => [] | S n' => start :: seqZ (start + step) step n' end.

(* ------------------------------------------------------------------ *)
(** * Time range, windows, series keys *)
Definition tmin (q : query) : Z := if q_min_incl q then q_min q else q_min q + 1.
Definition tmax (q : query) : Z := if q_max_incl q then q_max q else q_max q - 1.
Definition in_range (q : query) (t : Z) : bool := (tmin q <=? t) && (t <=? tmax q).

(** compile.go: Offset = literal % Duration (Go remainder, sign of the dividend). *)
Definition eff_offset (q : query) : Z := Z.rem (q_goffset q) (q_every q).
(** IteratorOptions.Window: start of the window of [t] (clamping at MinTime/MaxTime omitted:
    the time domain is small). *)
Definition wstart (every off t : Z) : Z := let t' := t - off in t' - t' mod every + off.
Definition qwstart (q : query) (t : Z) : Z := wstart (q_every q) (eff_offset q) t.
(** the windows a fill iterator walks through: from the window of tmin to the window of tmax *)
Definition windows (q : query) : list Z :=
  let a := qwstart q (tmin q) in let b := qwstart q (tmax q) in
  if b <? a then [] else seqZ a (q_every q) (S (Z.to_nat ((b - a) / q_every q))).

Definition gkey (gt : list tagkey) (p : point) : skey := map (fun k => (k, tagval k p)) gt.
Definition tagkey_eqb (a b : tagkey) : bool := match a, b with T1, T1 | T2, T2 => true | _, _ => false end.
Fixpoint key_eqb (a b : skey) : bool :=
  match a, b with
  | [], [] => true
  | (k, x) :: a', (k', y) :: b' => tagkey_eqb k k' && N.eqb x y && key_eqb a' b'
  | _, _ => false
  end.
Fixpoint key_leb (a b : skey) : bool :=
  match a, b with
  | (_, x) :: a', (_, y) :: b' => if N.ltb x y then true else if N.ltb y x then false else key_leb a' b'
  | _, _ => true
  end.
Definition keys_of (gt : list tagkey) (ps : list point) : list skey :=
  dedup key_eqb (isort key_leb (map (gkey gt) ps)).

Definition cond_holds (q : query) (p : point) : bool :=
  match q_cond q with Some c => cond_ok c p | None => true end.
Definition qualifies (q : query) (p : point) : bool := in_range q (p_time p) && cond_holds q p.

(** canonical order of stored points: by time, then by series *)
Definition pt_leb (a b : point) : bool :=
  if p_time a <? p_time b then true else if p_time b <? p_time a then false
  else if N.ltb (p_t1 a) (p_t1 b) then true else if N.ltb (p_t1 b) (p_t1 a) then false
  else N.leb (p_t2 a) (p_t2 b).

(* ------------------------------------------------------------------ *)
(** * Raw field selection *)
Definition oval (o : option Z) : value := match o with Some z => VInt z | None => VNull end.
Definition isSome {A} (o : option A) : bool := match o with Some _ => true | None => false end.

(** a point yields a row when it qualifies and carries at least one selected field *)
Definition raw_pts (q : query) (d : dataset) : list point :=
  let fields := map snd (q_sel q) in
  isort pt_leb (filter (fun p => qualifies q p && existsb (fun f => isSome (fieldval f p)) fields) d).
Definition raw_row (q : query) (p : point) : row :=
  (p_time p, map (fun f => oval (fieldval f p)) (map snd (q_sel q))).
(** rows of one output series, ascending *)
Definition raw_rows (q : query) (d : dataset) (k : skey) : list row :=
  map (raw_row q) (filter (fun p => key_eqb (gkey (q_gtags q) p) k) (raw_pts q d)).

(* ------------------------------------------------------------------ *)
(** * Aggregates and selectors *)
Definition tv := (Z * Z)%type.   (* time, value *)
Definition pick (better : tv -> tv -> bool) (l : list tv) : option tv :=
  fold_left (fun acc c => match acc with None => Some c | Some p => if better c p then Some c else Some p end) l None.
(** call_iterator.go Integer{Min,Max,First,Last}Reduce *)
Definition min_better (c p : tv) := (snd c <? snd p) || ((snd c =? snd p) && (fst c <? fst p)).
Definition max_better (c p : tv) := (snd p <? snd c) || ((snd c =? snd p) && (fst c <? fst p)).
Definition first_better (c p : tv) := (fst c <? fst p) || ((fst c =? fst p) && (snd p <? snd c)).
Definition last_better (c p : tv) := (fst p <? fst c) || ((fst c =? fst p) && (snd p <? snd c)).
Definition sumZ (l : list Z) : Z := fold_right Z.add 0 l.
Definition is_selector (fn : aggfn) : bool := match fn with Min | Max | First | Last => true | _ => false end.

(** [reduce fn l] for non-empty [l]: (time of the selected point if any, value) *)
Definition reduce (fn : aggfn) (l : list tv) : option Z * value :=
  let sel b := match pick b l with Some (t, v) => (Some t, VInt v) | None => (None, VNull) end in
  match fn with
  | Count => (None, VInt (Z.of_nat (length l)))
  | Sum => (None, VInt (sumZ (map snd l)))
  | Mean => (None, VMean (sumZ (map snd l)) (Z.of_nat (length l)))
  | Min => sel min_better | Max => sel max_better | First => sel first_better | Last => sel last_better
  | Raw => (None, VNull)
  end.

(** the points a call on [fld] aggregates for output series [k] *)
Definition call_pts (q : query) (d : dataset) (fld : fieldkey) (k : skey) : list tv :=
  flat_map (fun p => match fieldval fld p with
                     | Some v => if qualifies q p && key_eqb (gkey (q_gtags q) p) k then [(p_time p, v)] else []
                     | None => [] end) d.

(** float64 helpers: exact replay of linearInteger (linear.go) *)
Definition SFofZ (z : Z) : spec_float := binary_normalize 53 1024 z 0 false.
Definition SFtrunc (x : spec_float) : Z :=   (* int64(x), truncation toward zero; finite inputs *)
  match x with
  | S754_finite s m e =>
      let a := if 0 <=? e then Zpos m * 2 ^ e else Zpos m / 2 ^ (- e) in if s then - a else a
  | _ => 0
  end.
Definition linear_int (w pt_ nt pv nv : Z) : Z :=
  let m := SFdiv 53 1024 (SFofZ (nv - pv)) (SFofZ (nt - pt_)) in
  let x := SFofZ (w - pt_) in
  SFtrunc (SFadd 53 1024 (SFmul 53 1024 m x) (SFofZ pv)).
Definition val_q (v : value) : Q :=
  match v with VInt z => inject_Z z | VMean s c => Qmake s (Z.to_pos c) | VRat x => x | _ => 0%Q end.
Definition linear_q (w pt_ nt : Z) (pv nv : Q) : Q :=
  (pv + (nv - pv) / inject_Z (nt - pt_) * inject_Z (w - pt_))%Q.

Definition cell := (Z * option value)%type.  (* window start, aggregate if the window has data *)

Definition fill_const (fn : aggfn) (f : fillmode) : option value :=
  match f with
  | FNull | FDefault => Some (match fn with Count => VInt 0 | _ => VNull end)
  | FValue v => Some (match fn with Mean => VMean v 1 | _ => VInt v end)
  | _ => None
  end.

(** fill(previous): the value of the last window WITH DATA met so far, in iteration order *)
Fixpoint fill_prev (prev : option value) (cs : list cell) : list row :=
  match cs with
  | [] => []
  | (w, Some v) :: r => (w, [v]) :: fill_prev (Some v) r
  | (w, None) :: r => (w, [match prev with Some v => v | None => VNull end]) :: fill_prev prev r
  end.

Fixpoint next_data (cs : list cell) : option (Z * value) :=
  match cs with
  | [] => None
  | (w, Some v) :: _ => Some (w, v)
  | (_, None) :: r => next_data r
  end.
(** fill(linear): between the previous and the next window with data; times are divided by the
    interval with Go's truncating division first (fill iterator, iterator.gen.go) *)
Fixpoint fill_linear (fn : aggfn) (every : Z) (prev : option (Z * value)) (cs : list cell) : list row :=
  match cs with
  | [] => []
  | (w, Some v) :: r => (w, [v]) :: fill_linear fn every (Some (w, v)) r
  | (w, None) :: r =>
      let v := match prev, next_data r with
               | Some (pt_, pv), Some (nt, nv) =>
                   let w' := Z.quot w every in let pt' := Z.quot pt_ every in let nt' := Z.quot nt every in
                   match fn, pv, nv with
                   | Mean, _, _ => VRat (linear_q w' pt' nt' (val_q pv) (val_q nv))
                   | _, VInt a, VInt b => VInt (linear_int w' pt' nt' a b)
                   | _, _, _ => VNull
                   end
               | _, _ => VNull
               end in
      (w, [v]) :: fill_linear fn every prev r
  end.

Definition fill_cells (fn : aggfn) (f : fillmode) (every : Z) (cs : list cell) : list row :=
  match f with
  | FNone => flat_map (fun c => match snd c with Some v => [(fst c, [v])] | None => [] end) cs
  | FPrevious => fill_prev None cs
  | FLinear => fill_linear fn every None cs
  | _ => map (fun c => (fst c, [match snd c with Some v => v
                                | None => match fill_const fn f with Some v => v | None => VNull end end])) cs
  end.

(** rows (single value each) of one call for one output series, in OUTPUT order *)
Definition call_rows (md : mode) (q : query) (d : dataset) (alone : bool) (c : aggfn * fieldkey) (k : skey) : list row :=
  let (fn, fld) := c in
  let pts := call_pts q d fld k in
  match pts with
  | [] => []
  | _ =>
    if q_every q =? 0 then
      let (ot, v) := reduce fn pts in
      let v := if m_firstlast_any md then
                 match fn, ot with
                 | First, Some t | Last, Some t => VAny (map snd (filter (fun p => fst p =? t) pts))
                 | _, _ => v
                 end
               else v in
      [(match ot with Some t => if alone then t else tmin q | None => tmin q end, [v])]
    else
      let cells := map (fun w => let l := filter (fun p => qwstart q (fst p) =? w) pts in
                                 (w, match l with [] => None | _ => Some (snd (reduce fn l)) end)) (windows q) in
      if q_desc q then
        match q_fill q with
        | FPrevious => if m_prev_iter_order md then fill_cells fn FPrevious (q_every q) (rev cells)
                       else rev (fill_cells fn FPrevious (q_every q) cells)
        | f => fill_cells fn f (q_every q) (rev cells)
        end
      else fill_cells fn (q_fill q) (q_every q) cells
  end.

(** join of the call columns of one series: union of the row times (in output order); a call
    without a row at that time shows the scanner default *)
Definition time_leb (desc : bool) (a b : Z) : bool := if desc then b <=? a else a <=? b.
Fixpoint lookup (t : Z) (rows : list row) : option value :=
  match rows with
  | [] => None
  | (t', vs) :: r => if t =? t' then Some (match vs with v :: _ => v | [] => VNull end) else lookup t r
  end.
Definition default_val (f : fillmode) (fn : aggfn) (prev : value) : value :=
  match f with
  | FValue v => match fn with Mean => VMean v 1 | Raw => VNull | _ => VInt v end
  | FPrevious => prev
  | _ => VNull
  end.
Fixpoint join_rows (q : fillmode) (calls : list (aggfn * list row)) (prevs : list value) (times : list Z) : list row :=
  match times with
  | [] => []
  | t :: r =>
      let vals := map (fun cp => match lookup t (snd (fst cp)) with
                                 | Some v => v
                                 | None => default_val q (fst (fst cp)) (snd cp) end)
                      (combine calls prevs) in
      (t, vals) :: join_rows q calls vals r
  end.

Definition fieldkey_eqb (a b : fieldkey) : bool := match a, b with Ff, Ff | Fg, Fg => true | _, _ => false end.
Definition aggfn_eqb (a b : aggfn) : bool :=
  match a, b with
  | Raw, Raw | Count, Count | Sum, Sum | Mean, Mean | Min, Min | Max, Max | First, First | Last, Last => true
  | _, _ => false
  end.
Definition call_eqb (a b : aggfn * fieldkey) : bool := aggfn_eqb (fst a) (fst b) && fieldkey_eqb (snd a) (snd b).

(** [kn fld]: the field exists in the measurement's schema.  sum/min/max/first/last return the
    type of their argument; on a field that does not exist they have no type and are no column of
    the cursor at all (select.go buildCursor skips a call whose driver type is Unknown): they show
    null in every row, whatever the fill mode -- a fill value is cast to the column's type and
    there is none.  count() and mean() are integer / float whatever their argument, so they remain
    (empty, hence filled) columns.  (In the join a missing column is the pseudo column [(Raw, [])],
    whose default is null.) *)
Definition typed_by_arg (fn : aggfn) : bool := match fn with Count | Mean => false | _ => true end.
Definition agg_rows (md : mode) (kn : fieldkey -> bool) (q : query) (d : dataset) (k : skey) : list row :=
  let sel := q_sel q in
  (* identical calls are one call for the planner (valueMapper): a selector is "alone" when it
     is the only DISTINCT call, and then its rows carry the time of the selected point *)
  let alone := match sel with
               | (fn, fld) :: r => is_selector fn && forallb (fun c => call_eqb c (fn, fld)) r
               | [] => false end in
  let cut := if m_limit_per_call md then limoff (q_limit q) (q_offset q) else (fun l => l) in
  let cols := map (fun c => if kn (snd c) || negb (typed_by_arg (fst c)) then (fst c, cut (call_rows md q d alone c k)) else (Raw, [])) sel in
  let times := dedup Z.eqb (isort (time_leb (q_desc q)) (flat_map (fun c => map fst (snd c)) cols)) in
  join_rows (q_fill q) cols (map (fun _ => VNull) cols) times.

(* ------------------------------------------------------------------ *)
(** * The evaluator *)
Definition is_raw (q : query) : bool := match q_sel q with (Raw, _) :: _ => true | _ => false end.

(** rows of output series [k] before LIMIT/OFFSET, in output order *)
Definition series_rows (md : mode) (kn : fieldkey -> bool) (q : query) (d : dataset) (k : skey) : list row :=
  if is_raw q then (if q_desc q then rev (raw_rows q d k) else raw_rows q d k)
  else agg_rows md kn q d k.

(** candidate output series: group keys of the qualifying points, ascending *)
Definition cand_keys (q : query) (d : dataset) : list skey := keys_of (q_gtags q) (filter (qualifies q) d).

Definition nonempty {A B} (x : A * list B) : bool := match snd x with [] => false | _ => true end.

(** SLIMIT n SOFFSET m on a series list (SLIMIT 0 = all) *)
Definition slim {A} (q : query) (l : list A) : list A := limoff (q_slimit q) (q_soffset q) l.

(** Engine: each shard cuts ITS index tag sets (series with any point in the shard that the tag
    part of the condition does not exclude), in ascending key order; [split] = 0: one shard,
    else shard 1 holds t < split and shard 2 t >= split; a shard is consulted when its time
    range meets the query's. *)
Definition shard_of (split : Z) (p : point) : N := if (split =? 0) || (p_time p <? split) then 1%N else 2%N.
Definition shard_used (split : Z) (q : query) (s : N) : bool :=
  if split =? 0 then N.eqb s 1 else if N.eqb s 1 then tmin q <? split else split <=? tmax q.
Definition index_keys (split : Z) (q : query) (d : dataset) (s : N) : list skey :=
  keys_of (q_gtags q) (filter (fun p => N.eqb (shard_of split p) s
                                       && match q_cond q with Some c => cond_tagpass c p | None => true end) d).
(** LimitTagSets (result.go) *)
Definition limit_tagsets {A} (slimit soffset : nat) (a : list A) : list A :=
  match slimit, soffset with
  | O, O => a
  | _, _ => if (length a <? soffset)%nat then [] else firstn slimit (skipn soffset a)
  end.
Definition engine_point_ok (split : Z) (q : query) (d : dataset) (p : point) : bool :=
  let s := shard_of split p in
  shard_used split q s &&
  existsb (key_eqb (gkey (q_gtags q) p)) (limit_tagsets (q_slimit q) (q_soffset q) (index_keys split q d s)).

(** The schema: a field exists when some stored point of the measurement (any series, any time,
    inside or outside the query's time range) carries it -- in the shards the query's time range
    maps to (field types are asked from the mapped shards, LocalShardMapping.MapType); with one
    shard: in the dataset. *)
Definition known_fields (split : Z) (q : query) (d : dataset) (fld : fieldkey) : bool :=
  existsb (fun p => shard_used split q (shard_of split p) && isSome (fieldval fld p)) d.

(** the evaluator for a given schema [kn] *)
Definition evalk (md : mode) (kn : fieldkey -> bool) (split : Z) (d : dataset) (q : query) : result :=
  let d' := if m_slimit_index md then filter (engine_point_ok split q d) d else d in
  let keys := cand_keys q d' in
  let unl := filter nonempty (map (fun k => (k, series_rows md kn q d' k)) keys) in
  (* SLIMIT/SOFFSET count the result series in ascending tag order, whatever the time order *)
  let chosen := if m_slimit_index md then unl else slim q unl in
  let chosen := if q_desc q then rev chosen else chosen in
  let cut := if is_raw q || negb (m_limit_per_call md) then limoff (q_limit q) (q_offset q) else (fun l => l) in
  filter nonempty (map (fun kr => (fst kr, cut (snd kr))) chosen).

Definition evalg (md : mode) (split : Z) (d : dataset) (q : query) : result :=
  evalk md (known_fields split q d) split d q.

(** THE reference evaluator (documented semantics; one shard) *)
Definition eval (d : dataset) (q : query) : result := evalg spec_mode 0 d q.
Definition eval_engine (split : Z) (d : dataset) (q : query) : result := evalg engine_mode split d q.

Definition no_limits (q : query) : query :=
  {| q_sel := q_sel q; q_cond := q_cond q; q_min_incl := q_min_incl q; q_min := q_min q;
     q_max_incl := q_max_incl q; q_max := q_max q; q_every := q_every q; q_goffset := q_goffset q;
     q_gtags := q_gtags q; q_fill := q_fill q; q_desc := q_desc q;
     q_limit := 0; q_offset := 0; q_slimit := q_slimit q; q_soffset := q_soffset q |}.

(* ------------------------------------------------------------------ *)
(** * Judge *)
Inductive ival := INull | IInt (z : Z) | IFloat (x : spec_float) | IOther.
Definition irow := (Z * list ival)%type.

Definition sf_q (x : spec_float) : option Q :=
  match x with
  | S754_zero _ => Some 0%Q
  | S754_finite s m e =>
      let mz := if s then Zneg m else Zpos m in
      Some (if 0 <=? e then inject_Z (mz * 2 ^ e) else Qmake mz (Z.to_pos (2 ^ (- e))))
  | _ => None
  end.
Definition sf_eqb (a b : spec_float) : bool :=
  match a, b with
  | S754_zero _, S754_zero _ => true
  | S754_finite s m e, S754_finite s' m' e' => Bool.eqb s s' && Pos.eqb m m' && (e =? e')
  | _, _ => false
  end.
(** |x - y| <= 2^-40 * (1 + |y|) *)
Definition q_close (x y : Q) : bool :=
  Qle_bool (Qabs (x - y) * inject_Z (2 ^ 40)) (1 + Qabs y)%Q.

(** [exact] = float results must be the correctly rounded quotient sum/count (the documented
    arithmetic mean); otherwise a small relative tolerance is allowed (the engine combines
    per-series and per-shard partial means in floating point). *)
Definition val_match (exact : bool) (i : ival) (v : value) : bool :=
  match i, v with
  | INull, VNull => true
  | IInt a, VInt b => a =? b
  | IInt a, VAny l => existsb (Z.eqb a) l
  | IFloat x, VMean s c =>
      if exact then sf_eqb x (SFdiv 53 1024 (SFofZ s) (SFofZ c))
      else match sf_q x with Some xq => q_close xq (Qmake s (Z.to_pos c)) | None => false end
  | IFloat x, VRat y => match sf_q x with Some xq => q_close xq y | None => false end
  | _, _ => false
  end.
Fixpoint vals_match (exact : bool) (a : list ival) (b : list value) : bool :=
  match a, b with
  | [], [] => true
  | x :: a', y :: b' => val_match exact x y && vals_match exact a' b'
  | _, _ => false
  end.

(** remove the first model row of time [t] matching the implementation row *)
Fixpoint take_row (exact : bool) (r : irow) (pool : list row) : option (list row) :=
  match pool with
  | [] => None
  | x :: rest =>
      if (fst r =? fst x) && vals_match exact (snd r) (snd x) then Some rest
      else match take_row exact r rest with Some rest' => Some (x :: rest') | None => None end
  end.
Fixpoint sub_rows (exact : bool) (rs : list irow) (pool : list row) : bool :=
  match rs with
  | [] => true
  | r :: rest => match take_row exact r pool with Some pool' => sub_rows exact rest pool' | None => false end
  end.

(** Rows of one series conform when their times are exactly the evaluator's and every row is
    (with multiplicity) a row of the evaluator's un-LIMITed series at that time.  For distinct
    timestamps this is equality; rows of DIFFERENT stored series that share a timestamp inside one
    output series may come in any order (InfluxQL does not define it; the engine's order is the
    order of a binary heap), also across the LIMIT/OFFSET cut. *)
Definition rows_conform (exact : bool) (impl : list irow) (final unl : list row) : bool :=
  list_eqb Z.eqb (map fst impl) (map fst final) && sub_rows exact impl unl.

Fixpoint series_conform (exact : bool) (impl : list (skey * list irow)) (final unl : result) : bool :=
  match impl, final with
  | [], [] => true
  | (k, rows) :: impl', (k', frows) :: final' =>
      key_eqb k k'
      && rows_conform exact rows frows
           (match find (fun kr => key_eqb (fst kr) k) unl with Some kr => snd kr | None => [] end)
      && series_conform exact impl' final' unl
  | _, _ => false
  end.

Record case := {
  c_points : dataset;
  c_split : Z;
  c_query : query;
  c_err : bool;
  c_out : list (skey * list irow)
}.

Definition conform (exact : bool) (md : mode) (c : case) : bool :=
  let q := c_query c in
  let final := evalg md (c_split c) (c_points c) q in
  (* only raw selections can have several rows per timestamp in one series *)
  negb (c_err c)
  && series_conform exact (c_out c) final
                    (if is_raw q then evalg md (c_split c) (c_points c) (no_limits q) else final).

Definition check (c : case) : verdict :=
  (* the documented semantics do not depend on the shard layout except through the schema (which
     fields exist is asked from the shards the time range maps to): [spec_mode] ignores the split
     everywhere else *)
  judge (conform false engine_mode c) (conform true spec_mode c).
