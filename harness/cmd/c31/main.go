// C31 driver: real platform.ID Encode/Decode (and the other decoding entry points) on
// structured values and generated strings; real snowflake Generator.Next sequentially
// (state forced through the add-only verif hook, clock window measured around each call)
// and concurrently (uniqueness / non-zero also asserted here in Go).
package main

import (
	"encoding/json"
	"fmt"
	"sort"
	"strconv"
	"strings"
	"sync"

	"github.com/influxdata/influxdb/v2/kit/platform"
	pkgsnow "github.com/influxdata/influxdb/v2/pkg/snowflake"
	"github.com/influxdata/influxdb/v2/snowflake"
	"verifh/vh"
)


type jstep struct {
	Tlo uint64 `json:"clock_before_ms"`
	Thi uint64 `json:"clock_after_ms"`
	ID  uint64 `json:"impl_id"`
}
type jres struct {
	Entry string `json:"entry"`
	OK    bool   `json:"ok"`
	Value uint64 `json:"value,omitempty"`
	Err   string `json:"err,omitempty"`
}
type jcase struct {
	Kind string `json:"kind"` // enc | dec | gen | conc
	// enc
	N      uint64 `json:"n,omitempty"`
	EncOK  bool   `json:"impl_encode_ok,omitempty"`
	EncOut string `json:"impl_encode,omitempty"`
	Str    string `json:"impl_string,omitempty"`
	// dec
	S      []int  `json:"s,omitempty"` // bytes
	Quoted string `json:"s_quoted,omitempty"`
	Res    []jres `json:"impl_results,omitempty"`
	// gen / conc
	Mid        uint64  `json:"machine_id,omitempty"`
	Init       uint64  `json:"init_state,omitempty"`
	InitRel    int64   `json:"init_time_rel_ms,omitempty"` // gen: init state's time field relative to the clock at generation (replay recomputes)
	InitLow    uint64  `json:"init_low22,omitempty"`
	UseRel     bool    `json:"init_relative,omitempty"`
	Calls      int     `json:"calls,omitempty"`
	Steps      []jstep `json:"impl_steps,omitempty"`
	Goroutines int     `json:"goroutines,omitempty"`
	PerG       int     `json:"ids_per_goroutine,omitempty"`
	Pinned     bool    `json:"state_pinned_in_future,omitempty"`
	NIDs       int     `json:"impl_ids,omitempty"`
	GoOnly     bool    `json:"ids_checked_in_go_only,omitempty"` // large run: uniqueness asserted by the driver, ids not sent to Coq
	FinalMBits uint64  `json:"impl_final_state_machine_bits,omitempty"`
}

func bytesOf(s []int) []byte {
	b := make([]byte, len(s))
	for i, c := range s {
		b[i] = byte(c)
	}
	return b
}
func intsOf(b []byte) []int {
	s := make([]int, len(b))
	for i, c := range b {
		s[i] = int(c)
	}
	return s
}
func optBytes(ok bool, b []byte) string {
	if !ok {
		return "None"
	}
	return vh.Some(vh.Bytes(b))
}
func optN(ok bool, v uint64) string {
	if !ok {
		return "None"
	}
	return vh.Some(vh.N(v))
}

func isHex(c byte) bool {
	return c >= '0' && c <= '9' || c >= 'a' && c <= 'f' || c >= 'A' && c <= 'F'
}

// shape of the repaired finding id-decode-uppercase-hex: exactly 16 hex digits, at least one upper-case.
func upperHexShape(b []byte) bool {
	if len(b) != 16 {
		return false
	}
	up := false
	for _, c := range b {
		if !isHex(c) {
			return false
		}
		if c >= 'A' && c <= 'F' {
			up = true
		}
	}
	return up
}

func jsonSafe(b []byte) bool {
	for _, c := range b {
		if c < 0x20 || c > 0x7e || c == '"' || c == '\\' {
			return false
		}
	}
	return true
}

func runEnc(w *vh.W, c *jcase) {
	id := platform.ID(c.N)
	var out []byte
	var err error
	if p := vh.Guard(func() { out, err = id.Encode() }); p != "" {
		w.Fail(w.Len(), "ID.Encode panicked: "+p, "")
	}
	c.EncOK = err == nil
	c.EncOut = string(out)
	c.Str = id.String()
	idx := w.Add(fmt.Sprintf("CEnc %s %s %s", vh.N(c.N), optBytes(c.EncOK, out), vh.Bytes([]byte(c.Str))), c, c.N != 0, "")
	// the other encoding entry points must agree with Encode
	mt, merr := id.MarshalText()
	if (merr == nil) != c.EncOK || string(mt) != string(out) {
		w.Fail(idx, fmt.Sprintf("ID(%d).MarshalText = %q,%v differs from Encode = %q,%v", c.N, mt, merr, out, err), "")
	}
	if c.EncOK {
		jb, jerr := json.Marshal(id)
		if jerr != nil || string(jb) != `"`+string(out)+`"` {
			w.Fail(idx, fmt.Sprintf("json.Marshal(ID(%d)) = %s,%v differs from Encode = %q", c.N, jb, jerr, out), "")
		}
	}
	w.Count("kind", "enc")
}

func runDec(w *vh.W, c *jcase) {
	b := bytesOf(c.S)
	c.Quoted = strconv.Quote(string(b))
	c.Res = nil
	add := func(entry string, f func() (platform.ID, error)) {
		var id platform.ID
		var err error
		if p := vh.Guard(func() { id, err = f() }); p != "" {
			w.Fail(w.Len(), entry+" panicked: "+p, "")
			return
		}
		r := jres{Entry: entry, OK: err == nil}
		if err == nil {
			r.Value = uint64(id)
		} else {
			r.Err = err.Error()
		}
		c.Res = append(c.Res, r)
	}
	add("Decode", func() (platform.ID, error) {
		var id platform.ID
		err := id.Decode(append([]byte(nil), b...))
		return id, err
	})
	add("DecodeFromString", func() (platform.ID, error) {
		var id platform.ID
		err := id.DecodeFromString(string(b))
		return id, err
	})
	add("UnmarshalText", func() (platform.ID, error) {
		var id platform.ID
		err := id.UnmarshalText(append([]byte(nil), b...))
		return id, err
	})
	add("IDFromString", func() (platform.ID, error) {
		p, err := platform.IDFromString(string(b))
		if err != nil {
			return 0, err
		}
		return *p, nil
	})
	add("Scan(string)", func() (platform.ID, error) {
		var id platform.ID
		err := id.Scan(string(b))
		return id, err
	})
	if jsonSafe(b) {
		add("json.Unmarshal", func() (platform.ID, error) {
			var id platform.ID
			err := json.Unmarshal([]byte(`"`+string(b)+`"`), &id)
			return id, err
		})
	}
	rs := make([]string, len(c.Res))
	for i, r := range c.Res {
		rs[i] = optN(r.OK, r.Value)
	}
	sig := ""
	if upperHexShape(b) { // former finding id-decode-uppercase-hex (fixed): no longer tolerated
		w.Count("dec_shape", "16 hex with upper-case (must be rejected)")
	} else if len(b) == 16 {
		w.Count("dec_shape", "16 bytes other")
	} else {
		w.Count("dec_shape", "wrong length")
	}
	accepted := len(c.Res) > 0 && c.Res[0].OK
	w.Count("dec_accepted", fmt.Sprint(accepted))
	w.Add(fmt.Sprintf("CDec %s %s", vh.Bytes(b), vh.List(rs)), c, len(b) == 16, sig)
	w.Count("kind", "dec")
}

func runGen(w *vh.W, c *jcase) {
	g := pkgsnow.New(int(c.Mid))
	if c.UseRel { // recomputed on replay so that the relation to the clock is preserved
		t := (pkgsnow.VerifNow() - 1491696000000) & (1<<42 - 1)
		c.Init = (uint64(int64(t)+c.InitRel)&(1<<42-1))<<22 | c.InitLow
	}
	g.VerifSetState(c.Init)
	c.Steps = nil
	terms := make([]string, 0, c.Calls)
	for i := 0; i < c.Calls; i++ {
		lo := pkgsnow.VerifNow()
		id := g.Next()
		hi := pkgsnow.VerifNow()
		if hi < lo {
			lo, hi = hi, lo
		}
		c.Steps = append(c.Steps, jstep{lo, hi, id})
		terms = append(terms, fmt.Sprintf("(%s, %s, %s)", vh.N(lo), vh.N(hi), vh.N(id)))
	}
	w.Add(fmt.Sprintf("CGen %s %s %s", vh.N(c.Mid), vh.N(c.Init), vh.List(terms)), c, c.Init != 0, "")
	w.Count("kind", "gen")
	w.Count("gen_init_seq", func() string {
		s := c.Init & 4095
		switch {
		case c.Init == 0:
			return "fresh"
		case c.Init>>12&1023 != 0:
			return "machine bits set in state"
		case s >= 4096-uint64(c.Calls):
			return "sequence reaches 4095 during the trace"
		default:
			return "low sequence"
		}
	}())
}

// concurrent callers; returns all ids (sorted)
func hammer(g *pkgsnow.Generator, goroutines, per int, viaIDGen bool) []uint64 {
	out := make([][]uint64, goroutines)
	var wg sync.WaitGroup
	var start sync.WaitGroup
	start.Add(1)
	idg := &snowflake.IDGenerator{Generator: g}
	for i := 0; i < goroutines; i++ {
		wg.Add(1)
		go func(i int) {
			defer wg.Done()
			ids := make([]uint64, per)
			start.Wait()
			for j := range ids {
				if viaIDGen {
					ids[j] = uint64(idg.ID())
				} else {
					ids[j] = g.Next()
				}
			}
			out[i] = ids
		}(i)
	}
	start.Done()
	wg.Wait()
	var all []uint64
	for _, o := range out {
		all = append(all, o...)
	}
	sort.Slice(all, func(a, b int) bool { return all[a] < all[b] })
	return all
}

func checkUnique(all []uint64) string {
	for i, v := range all {
		if v == 0 {
			return "a generated id is zero"
		}
		if i > 0 && all[i-1] == v {
			return fmt.Sprintf("id %d (%016x) was handed out twice", v, v)
		}
	}
	return ""
}

func runConc(w *vh.W, c *jcase) {
	g := pkgsnow.New(int(c.Mid))
	if c.Pinned { // far-future time field: every caller goes through the increment / bump branches
		t := (pkgsnow.VerifNow() - 1491696000000) & (1<<42 - 1)
		g.VerifSetState((t + 1000000) << 22)
	}
	all := hammer(g, c.Goroutines, c.PerG, !c.Pinned)
	c.NIDs = len(all)
	c.FinalMBits = g.VerifState() >> 12 & 1023
	sent := all
	if c.GoOnly {
		sent = nil
	}
	idx := w.Add(fmt.Sprintf("CConc %s %s", vh.N(c.Mid), vh.Ns(sent)), c, true, "")
	if msg := checkUnique(all); msg != "" {
		w.Fail(idx, fmt.Sprintf("concurrent generator (%d goroutines x %d, machine %d): %s", c.Goroutines, c.PerG, c.Mid, msg), "")
	}
	w.Count("kind", "conc")
}

func run(w *vh.W, c *jcase) {
	switch c.Kind {
	case "enc":
		runEnc(w, c)
	case "dec":
		runDec(w, c)
	case "gen":
		runGen(w, c)
	case "conc":
		runConc(w, c)
	}
}

func main() {
	w := vh.New("C31", "From Verif Require Import Base.Prelude Model.C31.\nLocal Open Scope N_scope.", "case", "check")
	w.Rule = "enc: ID(n).Encode/String/MarshalText/json for 0, powers of two +-1, extremes, few-nibble and random uint64; " +
		"dec: Decode/DecodeFromString/UnmarshalText/IDFromString/Scan/json.Unmarshal on hand-picked edge strings, encodings mutated (case flips, one char replaced from {0,1,9,a,f,A,F,g,G,@,`,:,/,_,+,-,space}, truncated/extended), 16-char strings over {0,1,9,a,f,A,F,g}, random bytes and unicode of random length; " +
		"gen: one caller, generator state forced (fresh / past / now / future time field; sequence 0,1,4090..4095; machine bits set), 1-40 calls, clock read before and after each call; " +
		"conc: 8 goroutines on one generator (real clock via IDGenerator.ID, or state pinned in the future for maximal CAS contention), ids sorted. " +
		"Non-trivial: enc n<>0, dec 16-byte inputs, gen with forced state, every conc. Distinct: distinct Gallina terms."
	var rc jcase
	if w.ReplayCase(&rc) {
		run(w, &rc)
		w.Finish()
		return
	}
	r := w.Rng

	// ---- hand-picked cases first
	for _, n := range []uint64{0, 1, 10, 15, 16, 255, 0xdeadbeef, 1 << 32, 1<<63 - 1, 1 << 63, 1<<64 - 1, 0x0abcdef012345678} {
		run(w, &jcase{Kind: "enc", N: n})
	}
	for _, s := range []string{"000000000000000A", "000000000000000a", "0000000000000000", "ffffffffffffffff", "FFFFFFFFFFFFFFFF",
		"", "0", "00000000000000a", "00000000000000000a", "0x0000000000000a", "0X0000000000000A", "+00000000000000a", "-00000000000000a",
		"0000000_0000000a", " 00000000000000a", "00000000000000a ", "000000000000000g", "000000000000000G", "000000000000000@",
		"000000000000000`", "000000000000000:", "000000000000000/", "０００００００００００００００a", "00000000000000é", "0000000000000€",
		"DEADBEEFdeadbeef", "deadbeefdeadbeef", "0000000000000001\n", "\x00000000000000001", "00000000000000\xff\xfe", "1e00000000000000", "1E00000000000000",
		"0b00000000000001", "0o00000000000007", "1_00000000000000", "०००००००००००००००1"} {
		run(w, &jcase{Kind: "dec", S: intsOf([]byte(s))})
	}
	nowT := (pkgsnow.VerifNow() - 1491696000000) & (1<<42 - 1)
	_ = nowT
	for _, gc := range []jcase{
		{Kind: "gen", Mid: 0, Calls: 5},
		{Kind: "gen", Mid: 1023, Calls: 5},
		{Kind: "gen", Mid: 1, UseRel: true, InitRel: 100000, InitLow: 4093, Calls: 8},
		{Kind: "gen", Mid: 5, UseRel: true, InitRel: -100000, InitLow: 4095, Calls: 4},
		{Kind: "gen", Mid: 1, UseRel: true, InitRel: 100000, InitLow: 4096 | 4094, Calls: 6},
		{Kind: "gen", Mid: 7, UseRel: true, InitRel: 0, InitLow: 4095, Calls: 6},
		{Kind: "gen", Mid: 7, UseRel: true, InitRel: 1, InitLow: 4094, Calls: 6},
	} {
		c := gc
		run(w, &c)
	}
	run(w, &jcase{Kind: "conc", Mid: 3, Goroutines: 8, PerG: 100})
	run(w, &jcase{Kind: "conc", Mid: 1023, Goroutines: 8, PerG: 100, Pinned: true})

	// ---- two large concurrent runs (uniqueness asserted in Go; ids not sent to Coq)
	run(w, &jcase{Kind: "conc", Mid: uint64(1 + r.IntN(1023)), Goroutines: 8, PerG: 50000, GoOnly: true})
	run(w, &jcase{Kind: "conc", Mid: uint64(1 + 2*r.IntN(511)), Goroutines: 16, PerG: 25000, GoOnly: true, Pinned: true})
	w.Extra["go_only_concurrent_ids_checked_unique"] = 800000

	alphabet := []byte("019afAFg")
	repl := []byte("019afAFgG@`:/_+- ")
	randVal := func() uint64 {
		switch r.IntN(6) {
		case 0:
			return uint64(r.IntN(20))
		case 1:
			k := uint(r.IntN(64))
			return uint64(1)<<k + uint64(r.IntN(3)) - 1
		case 2: // few nibbles set
			var v uint64
			for i := 0; i < 1+r.IntN(3); i++ {
				v |= uint64(r.IntN(16)) << (4 * uint(r.IntN(16)))
			}
			return v
		case 3:
			return ^uint64(0) - uint64(r.IntN(20))
		default:
			return r.Uint64()
		}
	}
	for w.Len() < w.N {
		switch k := r.IntN(100); {
		case k < 30:
			run(w, &jcase{Kind: "enc", N: randVal()})
		case k < 80:
			var b []byte
			switch r.IntN(5) {
			case 0, 1: // mutated encoding
				v := randVal()
				if v == 0 {
					v = 1
				}
				b, _ = platform.ID(v).Encode()
				for i := 0; i < r.IntN(4) && len(b) > 0; i++ {
					p := r.IntN(len(b))
					switch r.IntN(3) {
					case 0:
						b[p] = strings.ToUpper(string(b[p : p+1]))[0]
					case 1:
						b[p] = repl[r.IntN(len(repl))]
					case 2:
						if r.IntN(2) == 0 && len(b) > 0 {
							b = b[:len(b)-1]
						} else {
							b = append(b, alphabet[r.IntN(len(alphabet))])
						}
					}
				}
			case 2: // 16 chars over the small alphabet
				b = make([]byte, 16)
				for i := range b {
					if r.IntN(3) == 0 {
						b[i] = alphabet[r.IntN(len(alphabet))]
					} else {
						b[i] = '0'
					}
				}
			case 3: // random bytes
				n := 16
				if r.IntN(3) == 0 {
					n = r.IntN(24)
				}
				b = make([]byte, n)
				for i := range b {
					b[i] = byte(r.IntN(256))
				}
			case 4: // unicode / mixed text
				runes := []rune("0a1Fé€０१٣ \t-+_xX")
				n := 10 + r.IntN(8)
				var sb strings.Builder
				for i := 0; i < n; i++ {
					sb.WriteRune(runes[r.IntN(len(runes))])
				}
				b = []byte(sb.String())
			}
			run(w, &jcase{Kind: "dec", S: intsOf(b)})
		case k < 99 || r.IntN(3) != 0:
			c := jcase{Kind: "gen", Mid: uint64([]int{0, 1, 2, 1022, 1023, r.IntN(1024)}[r.IntN(6)]), Calls: 1 + r.IntN(40)}
			if r.IntN(5) != 0 {
				c.UseRel = true
				c.InitRel = []int64{-1000000, -5, -1, 0, 1, 2, 1000, 100000000}[r.IntN(8)]
				c.InitLow = []uint64{0, 1, 100, 4090, 4093, 4094, 4095}[r.IntN(7)]
				if r.IntN(8) == 0 {
					c.InitLow |= uint64(1+r.IntN(1023)) << 12
				}
			}
			run(w, &c)
		default:
			run(w, &jcase{Kind: "conc", Mid: uint64(r.IntN(1024)), Goroutines: 8, PerG: 20 + r.IntN(40), Pinned: r.IntN(2) == 0})
		}
	}
	w.Finish()
}
