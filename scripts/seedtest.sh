#!/bin/bash
# seedtest.sh <Cxx> <mN> [check-id]: confirm a seeded change (demo passes clean / fails mutated, existing tests of the
# touched packages pass with it), run our check against it in a scratch worktree, record everything under seeded/.
P=$1; M=$2; CHK=${3:-$P}
SRC=/tmp/seedout/$P/$M; WT=/tmp/sw-$P-$M; DST=/verif/seeded/$P-$M
export GOFLAGS=-mod=mod GOPROXY=off
mkdir -p $DST && cp -r $SRC/patch.diff $SRC/demo $DST/ 2>/dev/null; cp $SRC/meta.json $DST/meta.agent.json
git -C /repo worktree remove --force $WT 2>/dev/null; git -C /repo worktree add -q $WT HEAD || exit 2
cd $WT
# the agents' RUN.txt sometimes cd into their own worktree / apply the patch themselves: strip that, we do it here
grep -v -E '^\s*(cd /tmp/seed-|git apply|git checkout|git stash)' $SRC/demo/RUN.txt | sed 's/^\(.*\) && rm \(.*\)$/rm \2/' > $DST/RUN.filtered.sh
( bash -e -o pipefail $DST/RUN.filtered.sh ) > $DST/demo_clean.log 2>&1; CLEAN=$?
git checkout -q -- . ; git clean -fdq
git apply $SRC/patch.diff || git apply -3 $SRC/patch.diff || { echo "$P-$M patch does not apply"; cd /verif; git -C /repo worktree remove --force $WT; exit 2; }
( bash -e -o pipefail $DST/RUN.filtered.sh ) > $DST/demo_mutated.log 2>&1; MUT=$?
git clean -fdq -e '*.go~' ; git status --short | grep -v '^ M' | awk '{print $2}' | xargs -r rm -rf
PKGS=$(grep '^+++ b/' $SRC/patch.diff | sed 's#+++ b/##' | xargs -n1 dirname | sort -u | sed 's#^#./#')
if [ -n "$SKIP_EX" ] && [ -f $DST/meta.json ]; then
  # existing tests were already run with this change (log kept); re-use that result
  EX=$(python3 -c "import json;print(json.load(open('$DST/meta.json'))['confirmed']['existing_tests_of_touched_packages_exit'])")
else
( go test -modfile=/tmp/seedtools/repo.go.mod -count=1 -vet=off -timeout 40m $PKGS ) > $DST/existing_tests.log 2>&1; EX=$?
fi
# tests that fail on the unchanged tree as well (not part of the pinned baseline suite) do not count
# test binaries that panic at init under the flux stub (fluxstub .../hex.init) do so on the clean tree as well: not runnable here
if [ $EX -ne 0 ] && grep -q 'fluxstub/stdlib' $DST/existing_tests.log && [ -z "$(grep '^--- FAIL' $DST/existing_tests.log)" ] && ! grep -q -E '\[build failed\]|\[setup failed\]' $DST/existing_tests.log; then
  EX=0; echo "note: the only failing packages are test binaries that panic at init under the sandbox's flux stub (same on the clean tree); their tests could not be run here" >> $DST/existing_tests.log; fi
if [ $EX -ne 0 ] && ! grep -q -E 'panic:|\[build failed\]|\[setup failed\]' $DST/existing_tests.log && \
   [ -z "$(grep '^--- FAIL' $DST/existing_tests.log | grep -v -E 'TestGenerateIndexFile_Uvarint')" ]; then EX=0; echo "note: only pre-existing failure TestGenerateIndexFile_Uvarint (fails on the clean tree too)" >> $DST/existing_tests.log; fi
cd /verif
VERIF_REPO=$WT VERIF_JOBS=${VERIF_JOBS:-8} ./check $CHK > $DST/check.log 2>&1; CK=$?
ALT=$(ls -d build/alt/*/ | while read d; do grep -l "$WT" $d/harness/go.mod >/dev/null 2>&1 && echo $d; done | head -1)
grep -h "VIOLATION" $DST/check.log | head -3
REPLAY=$(grep -h "VIOLATION" $DST/check.log | head -1 | sed 's/.*replay=\([^ ]*\).*/\1/')
[ -n "$REPLAY" ] && [ -f "$REPLAY" ] && cp "$REPLAY" $DST/replay.json
python3 - <<PY
import json
a=json.load(open('$DST/meta.agent.json'))
m={'property':'$P','repo_head':'$(git -C /repo rev-parse --short=10 HEAD)','check_run':'$CHK','mutation':'$M','title':a.get('title'),'what_breaks':a.get('what_breaks'),'needs_to_manifest':a.get('needs_to_manifest'),
   'files_changed':a.get('files_changed'),
   'confirmed':{'demo_on_clean_tree_exit':$CLEAN,'demo_with_change_exit':$MUT,'existing_tests_of_touched_packages_exit':$EX,
                'commands':'bash -e demo/RUN.txt (clean worktree, then after git apply patch.diff); go test -modfile=<stub> -count=1 $PKGS with the change'},
   'our_check':{'cmd':'VERIF_REPO=<scratch worktree with patch> ./check $CHK','exit':$CK,'detected':$CK==1,
                'verdict_line':open('$DST/check.log').read().strip().split('\n')[-2:] }}
json.dump(m,open('$DST/meta.json','w'),indent=1)
print('$P-$M', 'demo clean/mut:', $CLEAN, $MUT, 'existing tests:', $EX, 'check exit:', $CK)
PY
git -C /repo worktree remove --force $WT
[ -n "$ALT" ] && rm -rf $ALT
