(** C08 proofs: the v4 tombstone file reads back what was written, and the commit is crash-atomic. *)
From Verif Require Import Base.Prelude Base.C08_BE Model.C08_File.

Definition wf_trec (r : trec) : Prop :=
  (N.of_nat (length (t_key r)) < 4294967296)%N /\ in_i64 (t_min r) /\ in_i64 (t_max r).

Lemma bytes_eqb_eq a b : bytes_eqb a b = true <-> a = b.
Proof. apply list_eqb_spec. intros; apply N.eqb_eq. Qed.
Lemma bytes_eqb_refl a : bytes_eqb a a = true.
Proof. apply bytes_eqb_eq; reflexivity. Qed.

Lemma enc_trec_length r : (20 <= length (enc_trec r))%nat.
Proof.
  unfold enc_trec. rewrite !app_length. unfold u32, i64, u64. rewrite !be_length. lia.
Qed.

Lemma enc_trecs_length rs : (length rs <= length (enc_trecs rs))%nat.
Proof.
  unfold enc_trecs. induction rs as [|r rs IH]; cbn [flat_map length]; [lia|]. rewrite app_length.
  pose proof (enc_trec_length r). lia.
Qed.

Lemma parse_enc_trecs rs : forall fuel, (length rs <= fuel)%nat -> Forall wf_trec rs ->
  parse_trecs fuel (enc_trecs rs) = Some rs.
Proof.
  induction rs as [|r rs IH]; intros fuel Hf Hwf.
  - destruct fuel; reflexivity.
  - inversion Hwf as [|? ? [Hk [Hmn Hmx]] Hwf']; subst.
    destruct fuel as [|f]; [cbn in Hf; lia|].
    cbn [enc_trecs flat_map]. unfold enc_trec at 1. rewrite <- !app_assoc.
    cbn [parse_trecs].
    rewrite (take_app_n 4) by apply be_length.
    unfold u32 at 1. rewrite unbe_be by exact Hk. rewrite Nat2N.id.
    cbn [obind]. rewrite take_app. cbn [obind].
    rewrite (take_app_n 8) by apply i64_length. cbn [obind].
    rewrite (take_app_n 8) by apply i64_length. cbn [obind].
    fold (enc_trecs rs). rewrite IH by (cbn in Hf; try lia; assumption). cbn [obind].
    rewrite !i64_rt by assumption. destruct r; reflexivity.
Qed.

Section GzProofs.
  Variable gz : bytes -> bytes.
  Variable gunz : bytes -> option (bytes * bytes).
  (** the assumptions about compress/gzip: a reader positioned at a member decodes exactly that
      member's payload and stops at its end (Multistream(false)); a member is never empty. *)
  Hypothesis gunz_gz : forall p rest, gunz (gz p ++ rest) = Some (p, rest).
  Hypothesis gz_nonempty : forall p, gz p <> [].

  Definition members_bytes (ms : list (list trec)) : bytes := flat_map (fun m => gz (enc_trecs m)) ms.

  Lemma members_bytes_length ms : (length ms <= length (members_bytes ms))%nat.
  Proof.
    unfold members_bytes. induction ms as [|m ms IH]; cbn [flat_map length]; [lia|]. rewrite app_length.
    pose proof (gz_nonempty (enc_trecs m)) as Hne. destruct (gz (enc_trecs m)); [congruence|]. cbn [length]. lia.
  Qed.

  Lemma read_members_ok ms : forall fuel, (length ms <= fuel)%nat -> Forall (Forall wf_trec) ms ->
    read_members gunz fuel (members_bytes ms) = Some (concat ms).
  Proof.
    induction ms as [|m ms IH]; intros fuel Hf Hwf.
    - destruct fuel; reflexivity.
    - inversion Hwf as [|? ? Hm Hwf']; subst.
      destruct fuel as [|f]; [cbn in Hf; lia|].
      cbn [members_bytes flat_map]. fold (members_bytes ms).
      destruct (gz (enc_trecs m) ++ members_bytes ms) as [|x b] eqn:Eb.
      { apply app_eq_nil in Eb as [Eb _]. exfalso; exact (gz_nonempty _ Eb). }
      cbn [read_members]. rewrite <- Eb, gunz_gz. cbn [obind].
      rewrite parse_enc_trecs by (try apply enc_trecs_length; assumption). cbn [obind].
      rewrite IH by (cbn in Hf; try lia; assumption). reflexivity.
  Qed.

  Lemma tomb_header_length : length tomb_header = 4%nat.
  Proof. reflexivity. Qed.

  (** reader after writer = identity on the accumulated tombstone set *)
  Lemma tomb_roundtrip ms : Forall (Forall wf_trec) ms ->
    tomb_read gunz (tomb_file gz ms) = Some (concat ms).
  Proof.
    intro Hwf. destruct ms as [|m ms']; [reflexivity|].
    set (ms := m :: ms') in *. unfold tomb_file. fold ms.
    change (tomb_read gunz (Some (tomb_header ++ members_bytes ms)) = Some (concat ms)).
    unfold tomb_read. rewrite (take_app_n 4) by reflexivity. cbn [obind].
    rewrite bytes_eqb_refl. apply read_members_ok; [apply members_bytes_length | exact Hwf].
  Qed.

  (** what prepareV4+commit writes into the tmp file is the tombstone file of old ++ [new] *)
  Lemma commit_content old new :
    (match tomb_file gz old with Some f => f | None => tomb_header end) ++ gz (enc_trecs new)
    = tomb_header ++ members_bytes (old ++ [new]).
  Proof.
    unfold members_bytes. rewrite flat_map_app. cbn [flat_map]. rewrite app_nil_r.
    destruct old as [|m old']; [reflexivity|].
    unfold tomb_file. rewrite <- app_assoc. reflexivity.
  Qed.

  Lemma tomb_file_snoc old new :
    Some (tomb_header ++ members_bytes (old ++ [new])) = tomb_file gz (old ++ [new]).
  Proof. unfold tomb_file. destruct (old ++ [new]) eqn:E; [destruct old; discriminate|reflexivity]. Qed.

  Definition crash_ok (old : list (list trec)) (new : list trec) (d : disk) : Prop :=
    tomb_read gunz (d_tomb (recover d)) = Some (concat old) \/
    tomb_read gunz (d_tomb (recover d)) = Some (concat old ++ new).

  Lemma in_map_tomb (o : option bytes) (ts : list (option bytes)) d :
    In d (map (fun t => D o t) ts) -> d_tomb d = o.
  Proof. rewrite in_map_iff. intros [t [<- _]]. reflexivity. Qed.

  (** crash-atomicity: after a crash at any point of the commit program (any prefix of the four
      steps, any surviving prefix of an unsynced tmp, rename durable or not) and the start-up
      cleanup of [*.tmp], the tombstone set that is read is the old one or old + new. *)
  Lemma commit_atomic old new : Forall (Forall wf_trec) old -> Forall wf_trec new ->
    forall k d,
      In d (crash_disks (fexec (fs_init (D (tomb_file gz old) None)) (firstn k (commit_prog gz old new)))) ->
      crash_ok old new d.
  Proof.
    intros Hold Hnew k d Hin.
    assert (Hnewfile : tomb_read gunz (Some (tomb_header ++ members_bytes (old ++ [new]))) = Some (concat old ++ new)).
    { rewrite tomb_file_snoc, tomb_roundtrip.
      - rewrite concat_app. cbn. rewrite app_nil_r. reflexivity.
      - apply Forall_app; split; [exact Hold|]. constructor; [exact Hnew|constructor]. }
    assert (Holdfile : tomb_read gunz (tomb_file gz old) = Some (concat old)) by (apply tomb_roundtrip; exact Hold).
    unfold commit_prog in Hin. rewrite commit_content in Hin.
    unfold crash_ok, recover; cbn [d_tomb].
    destruct k as [|[|[|[|k]]]]; cbn [firstn] in Hin; try rewrite firstn_nil in Hin;
      cbn [fexec fold_left fstep fs_init s_dur s_tmp s_synced s_renamed crash_disks d_tomb andb] in Hin.
    - destruct Hin as [<-|[]]. left; exact Holdfile.
    - apply in_app_or in Hin as [Hin|[]]. apply in_map_tomb in Hin. rewrite Hin. left; exact Holdfile.
    - apply in_app_or in Hin as [Hin|[]]. apply in_map_tomb in Hin. rewrite Hin. left; exact Holdfile.
    - apply in_app_or in Hin as [Hin|[<-|[]]].
      + apply in_map_tomb in Hin. rewrite Hin. left; exact Holdfile.
      + right; exact Hnewfile.
    - destruct Hin as [<-|[]]. right; exact Hnewfile.
  Qed.

  (** why the fsync before the rename matters: without it a crash may leave a strict prefix of
      the new file under the tombstone name. *)
  Lemma rename_without_fsync_unsafe old new :
    In (D (Some []) None)
       (crash_disks (fexec (fs_init (D (tomb_file gz old) None))
                           [FWriteTmp ((match tomb_file gz old with Some f => f | None => tomb_header end) ++ gz (enc_trecs new)); FRename])).
  Proof.
    cbn [fexec fold_left fstep fs_init s_dur s_tmp s_synced s_renamed crash_disks andb].
    apply in_or_app; right. rewrite map_map.
    destruct (_ ++ gz (enc_trecs new)); cbn; auto.
  Qed.
End GzProofs.
