(** C23 proofs, part 3: moving_average — the ring buffer with its running int64 sum is a
    sliding window over the last n values. *)
From Coq Require Import QArith Floats.SpecFloat.
From Verif Require Import Base.Prelude Model.C23 Proofs.C23.
Open Scope Z_scope.

Lemma sumZ_app a b : sumZ (a ++ b) = sumZ a + sumZ b.
Proof. unfold sumZ. induction a; cbn; lia. Qed.

Lemma set_nth_middle (A : list Z) o B v : set_nth (length A) v (A ++ o :: B) = A ++ v :: B.
Proof. induction A as [|a A IH]; cbn; [reflexivity|]. rewrite IH. reflexivity. Qed.

Definition ma_rel (n : nat) (s : mstate) (w : list Z) : Prop :=
  ma_sum s = wrap64 (sumZ w) /\
  (((length w < n)%nat /\ ma_buf s = w /\ ma_pos s = length w) \/
   (length w = n /\ exists A o B, ma_buf s = A ++ o :: B /\ ma_pos s = length A /\ w = o :: B ++ A)).

Section MA.
Context {F : Type} (fo : fops F).

Lemma ma_step_rel n s w p :
  (1 <= n)%nat -> ma_rel n s w ->
  let w1 := w ++ [pt_v p] in
  let w' := if Nat.ltb n (length w1) then tl w1 else w1 in
  ma_rel n (ma_agg n s p) w' /\
  ma_emit fo n (ma_agg n s p) =
    (if Nat.eqb (length w') n
     then [(pt_t p, f_div fo (f_ofZ fo (wrap64 (sumZ w'))) (f_ofZ fo (Z.of_nat n)))] else []).
Proof.
  intros Hn [Hsum [[Hlt [Hbuf Hpos]] | [Hlen [A [o [B [Hbuf [Hpos Hw]]]]]]]]; cbn zeta.
  - (* filling *)
    assert (L1 : length (w ++ [pt_v p]) = S (length w)) by (rewrite app_length; cbn; lia).
    rewrite L1. replace (Nat.ltb n (S (length w))) with false by (symmetry; apply Nat.ltb_ge; lia).
    unfold ma_agg, ma_emit. rewrite Hbuf, Hpos.
    replace (Nat.eqb (length w) n) with false by (symmetry; apply Nat.eqb_neq; lia).
    cbn [negb ma_buf ma_sum ma_time ma_pos]. rewrite Hsum, wrap64_add_l.
    replace (sumZ w + pt_v p) with (sumZ (w ++ [pt_v p])) by (rewrite sumZ_app; unfold sumZ; cbn; lia).
    rewrite L1.
    destruct (Nat.eqb (S (length w)) n) eqn:E.
    + apply Nat.eqb_eq in E. cbn [negb]. split; [|rewrite E; reflexivity].
      split; [reflexivity|]. right. split; [rewrite L1; exact E|].
      destruct (w ++ [pt_v p]) as [|o B] eqn:EW; [cbn in L1; lia|].
      exists [], o, B. cbn [app length]. rewrite app_nil_r.
      replace (Nat.leb n (S (length w))) with true by (symmetry; apply Nat.leb_le; lia). auto.
    + apply Nat.eqb_neq in E. cbn [negb]. split; [|reflexivity].
      split; [reflexivity|]. left. rewrite L1.
      replace (Nat.leb n (S (length w))) with false by (symmetry; apply Nat.leb_gt; lia).
      repeat split; lia.
  - (* full ring *)
    assert (LB : length (ma_buf s) = n).
    { rewrite Hbuf, <- Hlen, Hw. cbn [length]. rewrite !app_length. cbn [length]. lia. }
    assert (L1 : length (w ++ [pt_v p]) = S n) by (rewrite app_length; cbn; lia).
    rewrite L1. replace (Nat.ltb n (S n)) with true by (symmetry; apply Nat.ltb_lt; lia).
    assert (W' : tl (w ++ [pt_v p]) = B ++ A ++ [pt_v p]).
    { rewrite Hw. cbn [app tl]. rewrite <- app_assoc. reflexivity. }
    rewrite W'.
    assert (LW : length (B ++ A ++ [pt_v p]) = n).
    { rewrite <- Hlen, Hw. cbn [length]. rewrite !app_length. cbn [length]. lia. }
    rewrite LW, Nat.eqb_refl.
    unfold ma_agg, ma_emit. rewrite LB, Nat.eqb_refl. cbn [negb ma_buf ma_sum ma_time ma_pos].
    rewrite Hpos, Hbuf, set_nth_middle, app_nth2, Nat.sub_diag by lia. cbn [nth].
    rewrite Hsum, wrap64_sub_l, wrap64_add_l.
    assert (SW : sumZ w - o + pt_v p = sumZ (B ++ A ++ [pt_v p])).
    { rewrite Hw. change (o :: B ++ A) with ([o] ++ B ++ A). rewrite !sumZ_app. unfold sumZ. cbn. lia. }
    rewrite SW.
    assert (LB' : length (A ++ pt_v p :: B) = n).
    { rewrite <- LB, Hbuf, !app_length. reflexivity. }
    rewrite LB', Nat.eqb_refl. cbn [negb]. split; [|reflexivity].
    split; [reflexivity|]. right. split; [exact LW|].
    assert (NL : n = (length A + S (length B))%nat).
    { rewrite <- LB, Hbuf, app_length. reflexivity. }
    destruct B as [|b B2].
    + cbn [length] in NL. replace (Nat.leb n (S (length A))) with true by (symmetry; apply Nat.leb_le; lia).
      cbn [app]. destruct (A ++ [pt_v p]) as [|o' B'] eqn:EA; [apply (f_equal (@length Z)) in EA; rewrite app_length in EA; cbn in EA; lia|].
      exists [], o', B'. cbn [app length]. rewrite app_nil_r. auto.
    + cbn [length] in NL. replace (Nat.leb n (S (length A))) with false by (symmetry; apply Nat.leb_gt; lia).
      exists (A ++ [pt_v p]), b, B2. rewrite <- app_assoc. cbn [app]. rewrite app_length. cbn [length].
      cbn [ma_pos ma_buf]. repeat split; lia || reflexivity.
Qed.

Lemma movavg_run_from n ps : (1 <= n)%nat -> forall s w,
  ma_rel n s w -> run_stream (ma_step fo n) s ps = movavg_win fo n w ps.
Proof.
  intro Hn. induction ps as [|p r IH]; intros s w HR; [reflexivity|].
  cbn [run_stream movavg_win]. unfold ma_step at 1.
  destruct (ma_step_rel n s w p Hn HR) as [HR' HE]. cbn zeta in HR', HE.
  rewrite HE. f_equal. apply IH, HR'.
Qed.

Lemma movavg_eq_win n ps : (1 <= n)%nat -> movavg_run fo n ps = movavg_win fo n [] ps.
Proof.
  intro Hn. apply movavg_run_from; [assumption|].
  split; [reflexivity|]. left. cbn. repeat split; lia.
Qed.
End MA.
