(** C07 (part 3) — float codec of tsm1 (Gorilla XOR compression).

    Mirrors float.go (FloatEncoder.Write/Flush/Bytes, FloatDecoder.SetBytes/Next/Values)
    and the acceptance rule + output of batch_float.go (FloatArrayEncodeAll /
    FloatArrayDecodeAll).  float64 values are their IEEE-754 bit patterns (N < 2^64); the
    bit stream of go-bitstream's BitWriter is a [list bool] (most significant bit first),
    turned into bytes with zero padding (Flush(Zero)).

    The batch encoder produces the same bit stream by byte twiddling (tied by differential
    execution, not re-modelled instruction by instruction) and rejects iff some element is
    NaN (first element tested up front, the others through a [sawNaN] flag). *)
From Verif Require Import Base.Prelude Model.C07_s8b Model.C07_int.
Local Open Scope N_scope.

Definition floatCompressedGorilla : N := 1.
(** the bit pattern returned by math.NaN(), used as the end-of-stream sentinel *)
Definition uvnan : N := 0x7FF8000000000001.

(** math.IsNaN on a bit pattern: exponent all ones and a non-zero mantissa *)
Definition is_nan (w : N) : bool :=
  ((w / 2 ^ 52) mod 2 ^ 11 =? 2047) && negb (w mod 2 ^ 52 =? 0).

(** the n low bits of v, most significant first  (BitWriter.WriteBits(v, n)) *)
Definition bits_of (v : N) (n : nat) : list bool :=
  map (fun k => N.testbit v (N.of_nat k)) (rev (seq 0 n)).

(** bits.LeadingZeros64 / bits.TrailingZeros64 for v <> 0 *)
Definition clz64 (v : N) : N := 63 - N.log2 v.
Fixpoint ctz_f (fuel : nat) (v : N) : N :=
  match fuel with
  | O => 0
  | S f => if N.even v then 1 + ctz_f f (v / 2) else 0
  end.
Definition ctz64 (v : N) : N := ctz_f 64 v.

(** encoder state: previous value and the current (leading, trailing) window;
    [None] is Go's [s.leading == ^uint64(0)] *)
Definition fstate : Type := N * option (N * N).

(** FloatEncoder.Write for every value after the first *)
Definition float_step (st : fstate) (v : N) : list bool * fstate :=
  let '(prev, win) := st in
  let d := N.lxor v prev in
  if d =? 0 then ([false], (v, win))
  else
    let leading := N.land (clz64 d) 31 in     (* leading &= 0x1F; the clamp after it is dead code *)
    let trailing := ctz64 d in
    let fresh :=
      let sigbits := 64 - leading - trailing in
      ([true; true] ++ bits_of leading 5 ++ bits_of sigbits 6
         ++ bits_of (N.shiftr d trailing) (N.to_nat sigbits),
       (v, Some (leading, trailing))) in
    match win with
    | Some (pl, pt) =>
        if (pl <=? leading) && (pt <=? trailing)
        then ([true; false] ++ bits_of (N.shiftr d pt) (N.to_nat (64 - pl - pt)), (v, win))
        else fresh
    | None => fresh
    end.

Fixpoint float_steps (st : fstate) (vs : list N) : list bool :=
  match vs with
  | [] => []
  | v :: r => let (bits, st') := float_step st v in bits ++ float_steps st' r
  end.

(** the whole bit stream: first value verbatim, the others XOR-compressed, then the
    NaN sentinel written like a value (Flush) *)
Definition float_bits (vs : list N) : list bool :=
  match vs ++ [uvnan] with
  | [] => []
  | first :: r => bits_of first 64 ++ float_steps (first, None) r
  end.

Definition float_bytes (vs : list N) : list N :=
  (floatCompressedGorilla * 16) :: pack_bits (float_bits vs).

(** FloatEncoder: any NaN input makes Bytes() return an error *)
Definition float_encode_scalar (vs : list N) : option (list N) :=
  if existsb is_nan vs then None else Some (float_bytes vs).

(** FloatArrayEncodeAll: rejects iff src[0] is NaN or some later element is NaN
    ([sawNaN = sawNaN || x != x] over src[1:], after the fix of finding float-batch-sum-nan;
    before it the test was "the float64 sum of src[1:] is NaN") *)
Definition float_encode_batch (vs : list N) : option (list N) :=
  match vs with
  | [] => Some (float_bytes [])
  | first :: r =>
      if is_nan first then None
      else if existsb is_nan r then None
      else Some (float_bytes vs)
  end.

(** ---- decoder ---- *)
Fixpoint take_bits (n : nat) (bits : list bool) (acc : N) : option (N * list bool) :=
  match n with
  | O => Some (acc, bits)
  | S m => match bits with
           | [] => None
           | b :: r => take_bits m r (2 * acc + (if b then 1 else 0))
           end
  end.

(** FloatDecoder.Next, iterated.  State: current value, leading, trailing.
    [None] = read error (EOF before the sentinel). *)
Fixpoint float_dec_loop (fuel : nat) (bits : list bool) (val leading trailing : N)
  : option (list N) :=
  match fuel with
  | O => None
  | S f =>
      match bits with
      | [] => None
      | false :: r =>
          match float_dec_loop f r val leading trailing with
          | Some vs => Some (val :: vs)
          | None => None
          end
      | true :: r =>
          match r with
          | [] => None
          | ctl :: r2 =>
              let hdr :=
                if ctl then
                  match take_bits 5 r2 0 with
                  | None => None
                  | Some (l, r3) =>
                      match take_bits 6 r3 0 with
                      | None => None
                      | Some (m0, r4) =>
                          let m := if m0 =? 0 then 64 else m0 in
                          Some (l, 64 - l - m, r4)
                      end
                  end
                else Some (leading, trailing, r2) in
              match hdr with
              | None => None
              | Some (l, t, r5) =>
                  match take_bits (N.to_nat (64 - l - t)) r5 0 with
                  | None => None
                  | Some (sig, r6) =>
                      let v := N.lxor val (N.shiftl sig t) in
                      if v =? uvnan then Some []
                      else match float_dec_loop f r6 v l t with
                           | Some vs => Some (v :: vs)
                           | None => None
                           end
                  end
              end
          end
      end
  end.

Definition float_dec_bits (bits : list bool) : option (list N) :=
  match take_bits 64 bits 0 with
  | None => None
  | Some (first, r) =>
      if first =? uvnan then Some []
      else match float_dec_loop (length r) r first 0 0 with
           | Some vs => Some (first :: vs)
           | None => None
           end
  end.

(** FloatDecoder.SetBytes + Next* : empty input = no values *)
Definition float_decode_scalar (b : list N) : option (list N) :=
  match b with
  | [] => Some []
  | _ :: body => float_dec_bits (flat_map byte_bits body)
  end.

(** FloatArrayDecodeAll: fewer than 9 bytes = no values (no error) *)
Definition float_decode_batch (b : list N) : option (list N) :=
  if (length b <? 9)%nat then Some []
  else match b with
       | [] => Some []
       | _ :: body => float_dec_bits (flat_map byte_bits body)
       end.
