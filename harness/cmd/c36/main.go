// C36 driver: operation histories against the REAL rhh.HashMap, bloom.Filter, radix.Tree and
// tsdb.SeriesIDSet; each history with everything the real structure returned becomes one
// Gallina `case` (one constructor per structure) judged by Model/C36.v.
package main

import (
	"bytes"
	"fmt"
	"math"
	"sort"
	"strings"
	"time"

	"github.com/cespare/xxhash/v2"
	"github.com/influxdata/influxdb/v2/pkg/bloom"
	"github.com/influxdata/influxdb/v2/pkg/radix"
	"github.com/influxdata/influxdb/v2/pkg/rhh"
	"github.com/influxdata/influxdb/v2/tsdb"
	"verifh/vh"
)

// known finding still open; the former rhh empty-key and radix dead-node findings are fixed in
// influxdb: their shapes are still generated, untagged, so a regression is a violation again
const sigIDTrunc = "seriesidset-ids-truncated-to-32-bits"

type key []int // byte values (JSON-readable, loss-free)

func (k key) b() []byte {
	b := make([]byte, len(k))
	for i, c := range k {
		b[i] = byte(c)
	}
	return b
}
func mk(b []byte) key {
	k := make(key, len(b))
	for i, c := range b {
		k[i] = int(c)
	}
	return k
}
func (k key) term() string { return vh.Bytes(k.b()) }

// ---------------------------------------------------------------- case types

type op struct {
	Op   string   `json:"op"`
	K    key      `json:"k,omitempty"`
	Txt  string   `json:"txt,omitempty"`
	V    int64    `json:"v,omitempty"`
	M    uint64   `json:"m,omitempty"`
	K2   uint64   `json:"k2,omitempty"`
	Keys []key    `json:"keys,omitempty"`
	I    int      `json:"i,omitempty"`
	J    int      `json:"j,omitempty"`
	D    int      `json:"d,omitempty"`
	Js   []int    `json:"js,omitempty"`
	ID   uint64   `json:"id,omitempty"`
	IDs  []uint64 `json:"ids,omitempty"`
	Lo   uint64   `json:"lo,omitempty"`
	Cnt  uint64   `json:"cnt,omitempty"`
}

type hobs struct {
	V   uint64 `json:"v"`
	Len int64  `json:"len"`
	Cap int64  `json:"cap"`
}
type robs struct {
	V   int64 `json:"v"`
	OK  bool  `json:"ok"`
	K   key   `json:"k"`
	Len int64 `json:"len"`
}
type kv struct {
	K key   `json:"k"`
	V int64 `json:"v"`
}

type jcase struct {
	Kind string `json:"kind"`
	Ops  []op   `json:"ops"`
	// rhh
	Cap      int64 `json:"cap,omitempty"`
	LF       int   `json:"lf,omitempty"`
	Universe []key `json:"universe,omitempty"`
	// bloom
	M uint64 `json:"m,omitempty"`
	K uint64 `json:"k,omitempty"`
	// outputs of the implementation
	HObs    []hobs     `json:"impl_rhh_obs,omitempty"`
	HKeys   []key      `json:"impl_rhh_keys,omitempty"`
	HGets   []uint64   `json:"impl_rhh_final_gets,omitempty"`
	BObs    []bool     `json:"impl_bloom_obs,omitempty"`
	BBits   []uint64   `json:"impl_bloom_set_bits,omitempty"`
	RObs    []robs     `json:"impl_radix_obs,omitempty"`
	RWalk   []kv       `json:"impl_radix_walk,omitempty"`
	SObs    [][]uint64 `json:"impl_idset_obs,omitempty"`
	SFin    [][]uint64 `json:"impl_idset_final,omitempty"`
}

func scribble(b []byte) {
	for i := range b {
		b[i] ^= 0x5a
	}
}

// ---------------------------------------------------------------- rhh

func runRhh(w *vh.W, c *jcase) {
	m := rhh.NewHashMap(rhh.Options{Capacity: c.Cap, LoadFactor: c.LF})
	truth := map[string]bool{}
	c.HObs, c.HKeys, c.HGets = nil, nil, nil
	hasEmpty := false
	var done []op
	nput := 0
	for _, o := range c.Ops {
		var ob hobs
		switch o.Op {
		case "put":
			kb := o.K.b()
			if len(kb) == 0 {
				hasEmpty = true
			}
			m.Put(kb, int(o.V))
			truth[string(kb)] = true
			scribble(kb) // the map must own a copy of the key
			nput++
		case "get":
			if v := m.Get(o.K.b()); v != nil {
				ob.V = uint64(v.(int))
			}
		case "grow":
			m.Grow(int64(o.M))
		case "reset":
			m.Reset()
			truth = map[string]bool{}
		}
		ob.Len, ob.Cap = m.Len(), m.Cap()
		c.HObs = append(c.HObs, ob)
		done = append(done, o)
	}
	c.Ops = done
	for _, k := range m.Keys() {
		c.HKeys = append(c.HKeys, mk(k))
	}
	var tab, ops, obs, keys []string
	for _, k := range c.Universe {
		v := m.Get(k.b())
		g := uint64(0)
		if v != nil {
			g = uint64(v.(int))
		}
		c.HGets = append(c.HGets, g)
		tab = append(tab, vh.Pair(k.term(), vh.N(uint64(rhh.HashKey(k.b())))))
	}
	for _, o := range c.Ops {
		switch o.Op {
		case "put":
			ops = append(ops, fmt.Sprintf("HPut %s %s", o.K.term(), vh.N(uint64(o.V))))
		case "get":
			ops = append(ops, "HGet "+o.K.term())
		case "grow":
			ops = append(ops, "HGrow "+vh.N(o.M))
		case "reset":
			ops = append(ops, "HReset")
		}
	}
	for _, ob := range c.HObs {
		obs = append(obs, fmt.Sprintf("(%s, %s, %s)", vh.N(ob.V), vh.Z(ob.Len), vh.N(uint64(ob.Cap))))
	}
	for _, k := range c.HKeys {
		keys = append(keys, k.term())
	}
	t := fmt.Sprintf("CRhh %s %s %s %s %s %s %s", vh.N(uint64(c.Cap)), vh.N(uint64(c.LF)), vh.List(tab), vh.List(ops), vh.List(obs), vh.List(keys), vh.Ns(c.HGets))
	w.Add(t, c, nput >= 3 && len(truth) >= 2, "")
	w.Count("kind", "rhh")
	w.Count("rhh_final_cap", fmt.Sprint(m.Cap()))
	w.Count("rhh_lf", fmt.Sprint(c.LF))
	if hasEmpty {
		w.Count("rhh_empty_key", "yes")
	}
}

var rhhPool [][]byte // keys whose home slots (mod 16) cluster in few buckets, incl. wrap-around

func initPool() {
	byHome := map[int64][][]byte{}
	for i := 0; i < 600; i++ {
		k := []byte(fmt.Sprintf("k%d", i))
		h := rhh.HashKey(k) % 16
		byHome[h] = append(byHome[h], k)
	}
	for _, h := range []int64{15, 0, 1, 7, 3} {
		n := 12
		if len(byHome[h]) < n {
			n = len(byHome[h])
		}
		rhhPool = append(rhhPool, byHome[h][:n]...)
	}
}

func genRhh(w *vh.W) *jcase {
	r := w.Rng
	c := &jcase{Kind: "rhh"}
	c.Cap = []int64{0, 2, 3, 4, 8, 16, 5}[r.IntN(7)]
	c.LF = []int{50, 75, 90, 100, 30, 80}[r.IntN(6)]
	nk := 2 + r.IntN(12)
	// dense collisions: most keys from two neighbouring home buckets of the pool
	base := r.IntN(len(rhhPool))
	for i := 0; i < nk; i++ {
		var k []byte
		if r.IntN(4) != 0 {
			k = rhhPool[(base+r.IntN(24))%len(rhhPool)]
		} else {
			k = rhhPool[r.IntN(len(rhhPool))]
		}
		dup := false
		for _, u := range c.Universe {
			if bytes.Equal(u.b(), k) {
				dup = true
			}
		}
		if !dup {
			c.Universe = append(c.Universe, mk(k))
		}
	}
	if r.IntN(8) == 0 {
		c.Universe = append(c.Universe, key{})
	}
	nops := 4 + r.IntN(40)
	for i := 0; i < nops; i++ {
		k := c.Universe[r.IntN(len(c.Universe))]
		switch x := r.IntN(100); {
		case x < 60:
			c.Ops = append(c.Ops, op{Op: "put", K: k, Txt: string(k.b()), V: int64(1 + r.IntN(9))})
		case x < 90:
			c.Ops = append(c.Ops, op{Op: "get", K: k, Txt: string(k.b())})
		case x < 96:
			c.Ops = append(c.Ops, op{Op: "grow", M: uint64(r.IntN(40))})
		default:
			c.Ops = append(c.Ops, op{Op: "reset"})
		}
	}
	return c
}

// ---------------------------------------------------------------- bloom

func bloomHash(data []byte) (uint64, uint64) {
	v1 := xxhash.Sum64(data)
	var v2 uint64
	if len(data) > 0 {
		d := append([]byte{}, data...)
		d[len(d)-1] = 0
		v2 = xxhash.Sum64(d)
	}
	return v1, v2
}

func runBloom(w *vh.W, c *jcase) {
	f := bloom.NewFilter(c.M, c.K)
	c.BObs, c.BBits = nil, nil
	seen := map[string]bool{}
	var tab, ops []string
	note := func(k key) {
		if !seen[string(k.b())] {
			seen[string(k.b())] = true
			h0, h1 := bloomHash(k.b())
			tab = append(tab, vh.Pair(k.term(), vh.Pair(vh.N(h0), vh.N(h1))))
		}
	}
	ninsert := 0
	for _, o := range c.Ops {
		switch o.Op {
		case "insert":
			note(o.K)
			kb := o.K.b()
			f.Insert(kb)
			if !bytes.Equal(kb, o.K.b()) {
				w.Fail(w.Len(), "bloom.Insert modified its argument", "")
			}
			c.BObs = append(c.BObs, true)
			ops = append(ops, "BInsert "+o.K.term())
			ninsert++
		case "contains":
			note(o.K)
			c.BObs = append(c.BObs, f.Contains(o.K.b()))
			ops = append(ops, "BContains "+o.K.term())
		case "merge":
			g := bloom.NewFilter(o.M, o.K2)
			var ks []string
			for _, k := range o.Keys {
				note(k)
				g.Insert(k.b())
				ks = append(ks, k.term())
			}
			err := f.Merge(g)
			c.BObs = append(c.BObs, err == nil)
			ops = append(ops, fmt.Sprintf("BMerge %s %s %s", vh.N(o.M), vh.N(o.K2), vh.List(ks)))
		case "clone":
			g := f.Clone()
			var ks []string
			for _, k := range o.Keys { // scribble on the original: the clone must not see it
				note(k)
				f.Insert(k.b())
				ks = append(ks, k.term())
			}
			f = g
			c.BObs = append(c.BObs, true)
			ops = append(ops, "BClone "+vh.List(ks))
		}
	}
	for i, by := range f.Bytes() {
		for j := 0; j < 8; j++ {
			if by&(1<<uint(j)) != 0 {
				c.BBits = append(c.BBits, uint64(i*8+j))
			}
		}
	}
	t := fmt.Sprintf("CBloom %s %s %s %s %s %s", vh.N(c.M), vh.N(c.K), vh.List(tab), vh.List(ops), vh.Bools(c.BObs), vh.Ns(c.BBits))
	w.Add(t, c, ninsert >= 2 && c.K >= 1, "")
	w.Count("kind", "bloom")
	w.Count("bloom_m", fmt.Sprint(c.M))
	w.Count("bloom_k", fmt.Sprint(c.K))
}

func genBloom(w *vh.W) *jcase {
	r := w.Rng
	c := &jcase{Kind: "bloom"}
	c.M = []uint64{64, 128, 512, 1, 100, 8, 64, 128}[r.IntN(8)]
	c.K = uint64(r.IntN(5))
	var uni []key
	nk := 3 + r.IntN(10)
	for i := 0; i < nk; i++ {
		n := r.IntN(4)
		b := make([]byte, n)
		for j := range b {
			b[j] = "abz\x00\xff"[r.IntN(5)]
		}
		uni = append(uni, mk(b))
	}
	pick := func() key { return uni[r.IntN(len(uni))] }
	picks := func(n int) []key {
		var ks []key
		for i := 0; i < n; i++ {
			ks = append(ks, pick())
		}
		return ks
	}
	nops := 4 + r.IntN(30)
	for i := 0; i < nops; i++ {
		switch x := r.IntN(100); {
		case x < 40:
			k := pick()
			c.Ops = append(c.Ops, op{Op: "insert", K: k, Txt: string(k.b())})
		case x < 85:
			k := pick()
			c.Ops = append(c.Ops, op{Op: "contains", K: k, Txt: string(k.b())})
		case x < 95:
			m2, k2 := c.M, c.K
			if r.IntN(4) == 0 {
				m2 = []uint64{64, 128, 512, 100, 65}[r.IntN(5)]
			}
			if r.IntN(6) == 0 {
				k2 = uint64(r.IntN(5))
			}
			c.Ops = append(c.Ops, op{Op: "merge", M: m2, K2: k2, Keys: picks(r.IntN(4))})
		default:
			c.Ops = append(c.Ops, op{Op: "clone", Keys: picks(r.IntN(3))})
		}
	}
	return c
}

// ---------------------------------------------------------------- radix

func runRadix(w *vh.W, c *jcase) {
	t := radix.New()
	c.RObs, c.RWalk = nil, nil
	var ops, obs, wlk []string
	sawDel, dead := false, false
	nins := 0
	for _, o := range c.Ops {
		var ob robs
		switch o.Op {
		case "insert":
			kb := o.K.b()
			v, ins := t.Insert(kb, int(o.V))
			scribble(kb) // the tree must own a copy
			ob.V, ob.OK = int64(v), ins
			ops = append(ops, fmt.Sprintf("RInsert %s %s", o.K.term(), vh.Z(o.V)))
			nins++
		case "get":
			v, ok := t.Get(o.K.b())
			ob.V, ob.OK = int64(v), ok
			ops = append(ops, "RGet "+o.K.term())
		case "delprefix":
			ob.V, ob.OK = int64(t.DeletePrefix(o.K.b())), true
			ops = append(ops, "RDelPrefix "+o.K.term())
			sawDel = true
		case "min", "max":
			var k []byte
			var v int
			if o.Op == "min" {
				k, v, ob.OK = t.Minimum()
				ops = append(ops, "RMin")
			} else {
				k, v, ob.OK = t.Maximum()
				ops = append(ops, "RMax")
			}
			ob.V, ob.K = int64(v), mk(k)
			if sawDel {
				dead = true
			}
		}
		ob.Len = int64(t.Len())
		c.RObs = append(c.RObs, ob)
		obs = append(obs, fmt.Sprintf("(%s, %s, %s, %s)", vh.Z(ob.V), vh.Bool(ob.OK), ob.K.term(), vh.Z(ob.Len)))
	}
	t.WalkVerif(func(k []byte, v int) bool {
		c.RWalk = append(c.RWalk, kv{mk(k), int64(v)})
		wlk = append(wlk, vh.Pair(mk(k).term(), vh.Z(int64(v))))
		return false
	})
	term := fmt.Sprintf("CRadix %s %s %s", vh.List(ops), vh.List(obs), vh.List(wlk))
	w.Add(term, c, nins >= 3, "")
	w.Count("kind", "radix")
	w.Count("radix_class", map[bool]string{true: "minmax-after-delete", false: "other"}[dead])
}

func genRadix(w *vh.W) *jcase {
	r := w.Rng
	c := &jcase{Kind: "radix"}
	// 0: no deletes; 1: deletes, no min/max; 2: everything; 3: wide alphabet (>16 edges), no deletes;
	// 4,5: two-letter alphabet, keys grown from stored keys (long shared prefixes => compressed
	// multi-byte edges with children below), DeletePrefix arguments that DIVERGE inside an edge
	// label: a stored key with one middle byte flipped / a middle chunk cut out / truncated and
	// continued with a byte that also occurs below
	class := r.IntN(6)
	if class >= 4 {
		return genRadixDivergent(w)
	}
	alpha := []byte("abc")
	if class == 3 {
		alpha = []byte{0, 1, 2, 3, 4, 5, 6, 7, 8, 9, 10, 11, 12, 13, 14, 15, 16, 17, 18, 19, 'a', 0xfe, 0xff}
	}
	gen := func() key {
		n := r.IntN(6)
		if class == 3 {
			n = 1 + r.IntN(2)
		}
		b := make([]byte, n)
		for j := range b {
			b[j] = alpha[r.IntN(len(alpha))]
			if class != 3 && r.IntN(3) != 0 {
				b[j] = 'a' + byte(j%2) // shared prefixes: a, ab, aba, abab…
			}
		}
		return mk(b)
	}
	var used []key
	pick := func() key {
		if len(used) > 0 && r.IntN(3) != 0 {
			k := used[r.IntN(len(used))]
			if r.IntN(4) == 0 && len(k) > 0 {
				return k[:r.IntN(len(k))] // a proper prefix of a stored key
			}
			return k
		}
		return gen()
	}
	nops := 4 + r.IntN(36)
	if class == 3 {
		nops = 25 + r.IntN(30)
	}
	for i := 0; i < nops; i++ {
		x := r.IntN(100)
		switch {
		case x < 45 || (class == 3 && x < 75):
			k := gen()
			if r.IntN(5) == 0 {
				k = pick()
			}
			used = append(used, k)
			c.Ops = append(c.Ops, op{Op: "insert", K: k, Txt: string(k.b()), V: int64(1 + i)})
		case x < 65:
			k := pick()
			c.Ops = append(c.Ops, op{Op: "get", K: k, Txt: string(k.b())})
		case x < 80:
			if class == 1 || class == 2 {
				k := pick()
				c.Ops = append(c.Ops, op{Op: "delprefix", K: k, Txt: string(k.b())})
			}
		case x < 90:
			if class != 1 {
				c.Ops = append(c.Ops, op{Op: "min"})
			}
		default:
			if class != 1 {
				c.Ops = append(c.Ops, op{Op: "max"})
			}
		}
	}
	return c
}

func genRadixDivergent(w *vh.W) *jcase {
	r := w.Rng
	c := &jcase{Kind: "radix"}
	letter := func() byte { return "ab"[r.IntN(2)] }
	var used []key
	grow := func() key { // a stored key extended by 1-3 letters, or a fresh word of 3-5 letters
		var b []byte
		if len(used) > 0 && r.IntN(4) != 0 {
			b = append(b, used[r.IntN(len(used))].b()...)
			if len(b) > 9 {
				b = b[:3+r.IntN(4)]
			}
			for n := 1 + r.IntN(3); n > 0; n-- {
				b = append(b, letter())
			}
		} else {
			for n := 3 + r.IntN(3); n > 0; n-- {
				b = append(b, letter())
			}
		}
		return mk(b)
	}
	flip := func(x byte) byte { return 'a' + 'b' - x }
	divergent := func() key {
		if len(used) == 0 {
			return mk([]byte{letter()})
		}
		k := used[r.IntN(len(used))].b()
		if len(k) < 2 {
			return mk(append(k, letter()))
		}
		switch r.IntN(4) {
		case 0: // flip one byte in the middle, keep some of the tail
			j := r.IntN(len(k))
			b := append([]byte{}, k...)
			b[j] = flip(b[j])
			return mk(b[:j+1+r.IntN(len(k)-j)])
		case 1: // cut a chunk out of the middle
			j := r.IntN(len(k) - 1)
			n := 1 + r.IntN(len(k)-1-j)
			b := append(append([]byte{}, k[:j]...), k[j+n:]...)
			return mk(b)
		case 2: // truncate and continue with another letter (+ maybe more)
			j := 1 + r.IntN(len(k)-1)
			b := append(append([]byte{}, k[:j]...), flip(k[j]))
			for n := r.IntN(3); n > 0; n-- {
				b = append(b, letter())
			}
			return mk(b)
		default: // an honest prefix / the key itself / an extension
			j := r.IntN(len(k) + 1)
			b := append([]byte{}, k[:j]...)
			if r.IntN(3) == 0 {
				b = append(b, letter())
			}
			return mk(b)
		}
	}
	nops := 12 + r.IntN(40)
	for i := 0; i < nops; i++ {
		switch x := r.IntN(100); {
		case x < 50 || len(used) < 4:
			k := grow()
			used = append(used, k)
			c.Ops = append(c.Ops, op{Op: "insert", K: k, Txt: string(k.b()), V: int64(1 + i)})
		case x < 60:
			k := divergent()
			c.Ops = append(c.Ops, op{Op: "get", K: k, Txt: string(k.b())})
		case x < 90:
			k := divergent()
			c.Ops = append(c.Ops, op{Op: "delprefix", K: k, Txt: string(k.b())})
		case x < 95:
			c.Ops = append(c.Ops, op{Op: "min"})
		default:
			c.Ops = append(c.Ops, op{Op: "max"})
		}
	}
	return c
}

// ---------------------------------------------------------------- SeriesIDSet

const nregs = 4

func runs(ids []uint64) string { // ids as a Gallina list (ascending runs are written with nrange to keep terms small)
	var parts []string
	for i := 0; i < len(ids); {
		j := i
		for j+1 < len(ids) && ids[j+1] == ids[j]+1 {
			j++
		}
		if j-i >= 8 {
			parts = append(parts, fmt.Sprintf("nrange %s %d", vh.N(ids[i]), j-i+1))
		} else {
			var xs []string
			for _, x := range ids[i : j+1] {
				xs = append(xs, vh.N(x))
			}
			parts = append(parts, vh.List(xs))
		}
		i = j + 1
	}
	if len(parts) == 0 {
		return "[]"
	}
	return "(" + strings.Join(parts, " ++ ") + ")"
}

func runIdset(w *vh.W, c *jcase) {
	var regs [nregs]*tsdb.SeriesIDSet
	for i := range regs {
		regs[i] = tsdb.NewSeriesIDSet()
	}
	c.SObs, c.SFin = nil, nil
	var ops, obs, fin []string
	big := false
	chk := func(ids ...uint64) {
		for _, id := range ids {
			if id >= 1<<32 {
				big = true
			}
		}
	}
	b2l := func(b bool) []uint64 {
		if b {
			return []uint64{1}
		}
		return []uint64{0}
	}
	for _, o := range c.Ops {
		ob := []uint64{}
		switch o.Op {
		case "new":
			chk(o.IDs...)
			regs[o.D] = tsdb.NewSeriesIDSet(o.IDs...)
			ops = append(ops, fmt.Sprintf("SNew %d %s", o.D, runs(o.IDs)))
		case "add":
			chk(o.ID)
			regs[o.I].Add(o.ID)
			ops = append(ops, fmt.Sprintf("SAdd %d %s", o.I, vh.N(o.ID)))
		case "addmany":
			chk(o.IDs...)
			regs[o.I].AddMany(o.IDs...)
			ops = append(ops, fmt.Sprintf("SAddMany %d %s", o.I, runs(o.IDs)))
		case "addrange":
			ids := make([]uint64, o.Cnt)
			for i := range ids {
				ids[i] = o.Lo + uint64(i)
			}
			chk(o.Lo, o.Lo+o.Cnt)
			regs[o.I].AddMany(ids...)
			ops = append(ops, fmt.Sprintf("SAddMany %d %s", o.I, runs(ids)))
		case "remove":
			chk(o.ID)
			regs[o.I].Remove(o.ID)
			ops = append(ops, fmt.Sprintf("SRemove %d %s", o.I, vh.N(o.ID)))
		case "contains":
			chk(o.ID)
			ob = b2l(regs[o.I].Contains(o.ID))
			ops = append(ops, fmt.Sprintf("SContains %d %s", o.I, vh.N(o.ID)))
		case "card":
			ob = []uint64{regs[o.I].Cardinality()}
			ops = append(ops, fmt.Sprintf("SCard %d", o.I))
		case "merge":
			var others []*tsdb.SeriesIDSet
			var js []string
			for _, j := range o.Js {
				others = append(others, regs[j])
				js = append(js, fmt.Sprint(j))
			}
			regs[o.I].Merge(others...)
			ops = append(ops, fmt.Sprintf("SMerge %d [%s]", o.I, strings.Join(js, "; ")))
		case "mergeinplace":
			regs[o.I].MergeInPlace(regs[o.J])
			ops = append(ops, fmt.Sprintf("SMergeInPlace %d %d", o.I, o.J))
		case "and":
			res := regs[o.I].And(regs[o.J])
			regs[o.D] = res
			ops = append(ops, fmt.Sprintf("SAnd %d %d %d", o.I, o.J, o.D))
		case "andnot":
			res := regs[o.I].AndNot(regs[o.J])
			regs[o.D] = res
			ops = append(ops, fmt.Sprintf("SAndNot %d %d %d", o.I, o.J, o.D))
		case "diff":
			if o.I != o.J { // s.Diff(s) would self-deadlock on the RWMutex; not a set-algebra question
				regs[o.I].Diff(regs[o.J])
				ops = append(ops, fmt.Sprintf("SDiff %d %d", o.I, o.J))
			} else {
				continue
			}
		case "intersects":
			if o.I == o.J {
				continue
			}
			ob = b2l(regs[o.I].Intersects(regs[o.J]))
			ops = append(ops, fmt.Sprintf("SIntersects %d %d", o.I, o.J))
		case "equals":
			ob = b2l(regs[o.I].Equals(regs[o.J]))
			ops = append(ops, fmt.Sprintf("SEquals %d %d", o.I, o.J))
		case "clone":
			regs[o.D] = regs[o.I].Clone()
			ops = append(ops, fmt.Sprintf("SClone %d %d", o.I, o.D))
		case "roundtrip":
			var buf bytes.Buffer
			if _, err := regs[o.I].WriteTo(&buf); err != nil {
				w.Fail(w.Len(), "WriteTo: "+err.Error(), "")
			}
			n := tsdb.NewSeriesIDSet()
			if err := n.UnmarshalBinary(buf.Bytes()); err != nil {
				w.Fail(w.Len(), "UnmarshalBinary: "+err.Error(), "")
			}
			regs[o.D] = n
			ops = append(ops, fmt.Sprintf("SRoundTrip %d %d", o.I, o.D))
		case "clear":
			regs[o.I].Clear()
			ops = append(ops, fmt.Sprintf("SClear %d", o.I))
		case "slice":
			ob = regs[o.I].Slice()
			ops = append(ops, fmt.Sprintf("SSlice %d", o.I))
		case "foreach":
			regs[o.I].ForEach(func(id uint64) { ob = append(ob, id) })
			ops = append(ops, fmt.Sprintf("SForEach %d", o.I))
		}
		c.SObs = append(c.SObs, ob)
		obs = append(obs, runs(ob))
	}
	card := 0
	for i := range regs {
		s := regs[i].Slice()
		if s == nil {
			s = []uint64{}
		}
		card += len(s)
		c.SFin = append(c.SFin, s)
		fin = append(fin, runs(s))
	}
	t := fmt.Sprintf("CIdset %s %s %s", vh.List(ops), vh.List(obs), vh.List(fin))
	sig := ""
	if big { // shape: some id >= 2^32 is passed in
		sig = sigIDTrunc
	}
	w.Add(t, c, card >= 3, sig)
	w.Count("kind", "idset")
	w.Count("idset_class", map[bool]string{true: "ids>=2^32", false: "ids<2^32"}[big])
}

func genIdset(w *vh.W) *jcase {
	r := w.Rng
	c := &jcase{Kind: "idset"}
	pool := []uint64{0, 1, 2, 3, 65534, 65535, 65536, 65537, 131071, 131072, 131073, 1 << 31, 1<<32 - 2, 1<<32 - 1, 70000, 5, 9}
	if r.IntN(8) == 0 { // ids beyond 32 bits (known finding: truncated)
		pool = append(pool, 1<<32, 1<<32+1, 1<<32+65536, 1<<33+5, math.MaxUint64, 1<<63, 1<<32+2)
	}
	dense := r.IntN(25) == 0
	id := func() uint64 { return pool[r.IntN(len(pool))] }
	ids := func() []uint64 {
		n := r.IntN(6)
		xs := make([]uint64, n)
		for i := range xs {
			xs[i] = id()
		}
		return xs
	}
	reg := func() int { return r.IntN(nregs) }
	nops := 6 + r.IntN(30)
	for i := 0; i < nops; i++ {
		switch x := r.IntN(100); {
		case x < 4:
			c.Ops = append(c.Ops, op{Op: "new", D: reg(), IDs: ids()})
		case x < 22:
			c.Ops = append(c.Ops, op{Op: "add", I: reg(), ID: id()})
		case x < 30:
			c.Ops = append(c.Ops, op{Op: "addmany", I: reg(), IDs: ids()})
		case x < 36:
			lo := []uint64{0, 65530, 65536 - 50, 131072 - 10, 1<<32 - 100}[r.IntN(5)]
			cnt := uint64(10 + r.IntN(90))
			if dense && r.IntN(3) == 0 {
				cnt = 4090 + uint64(r.IntN(20)) // crosses roaring's array->bitmap container threshold (4096)
				lo = []uint64{0, 65536 - 2000, 131072}[r.IntN(3)]
			}
			c.Ops = append(c.Ops, op{Op: "addrange", I: reg(), Lo: lo, Cnt: cnt})
		case x < 44:
			c.Ops = append(c.Ops, op{Op: "remove", I: reg(), ID: id()})
		case x < 54:
			c.Ops = append(c.Ops, op{Op: "contains", I: reg(), ID: id()})
		case x < 58:
			c.Ops = append(c.Ops, op{Op: "card", I: reg()})
		case x < 62:
			n := r.IntN(3)
			var js []int
			for k := 0; k < n; k++ {
				js = append(js, reg())
			}
			i0 := reg()
			ok := true
			for _, j := range js { // s.Merge(s) takes RLock twice then Lock: fine, but keep aliasing out
				if j == i0 {
					ok = false
				}
			}
			if ok {
				c.Ops = append(c.Ops, op{Op: "merge", I: i0, Js: js})
			}
		case x < 66:
			c.Ops = append(c.Ops, op{Op: "mergeinplace", I: reg(), J: reg()})
		case x < 72:
			i0, j0 := reg(), reg()
			if i0 != j0 {
				c.Ops = append(c.Ops, op{Op: "and", I: i0, J: j0, D: reg()})
			}
		case x < 78:
			i0, j0 := reg(), reg()
			if i0 != j0 {
				c.Ops = append(c.Ops, op{Op: "andnot", I: i0, J: j0, D: reg()})
			}
		case x < 82:
			c.Ops = append(c.Ops, op{Op: "diff", I: reg(), J: reg()})
		case x < 85:
			c.Ops = append(c.Ops, op{Op: "intersects", I: reg(), J: reg()})
		case x < 88:
			c.Ops = append(c.Ops, op{Op: "equals", I: reg(), J: reg()})
		case x < 91:
			i0, d0 := reg(), reg()
			if i0 != d0 {
				c.Ops = append(c.Ops, op{Op: "clone", I: i0, D: d0})
			}
		case x < 95:
			i0, d0 := reg(), reg()
			if i0 != d0 {
				c.Ops = append(c.Ops, op{Op: "roundtrip", I: i0, D: d0})
			}
		case x < 96:
			c.Ops = append(c.Ops, op{Op: "clear", I: reg()})
		case x < 98:
			c.Ops = append(c.Ops, op{Op: "slice", I: reg()})
		default:
			c.Ops = append(c.Ops, op{Op: "foreach", I: reg()})
		}
	}
	return c
}

// ---------------------------------------------------------------- main

func run(w *vh.W, c *jcase) {
	done := make(chan string, 1)
	go func() {
		done <- vh.Guard(func() {
			switch c.Kind {
			case "rhh":
				runRhh(w, c)
			case "bloom":
				runBloom(w, c)
			case "radix":
				runRadix(w, c)
			case "idset":
				runIdset(w, c)
			}
		})
	}()
	select {
	case p := <-done:
		if p != "" {
			idx := w.Add("CRadix [] [] []", c, false, "")
			w.Fail(idx, "panic in "+c.Kind+": "+p, "")
		}
	case <-time.After(20 * time.Second):
		idx := w.Add("CRadix [] [] []", c, false, "")
		w.Fail(idx, "operation history on "+c.Kind+" did not terminate within 20s (the goroutine is still spinning)", "")
	}
}

func put(k string, v int64) op { return op{Op: "put", K: mk([]byte(k)), Txt: k, V: v} }
func get(k string) op           { return op{Op: "get", K: mk([]byte(k)), Txt: k} }
func rins(k string, v int64) op { return op{Op: "insert", K: mk([]byte(k)), Txt: k, V: v} }
func rk(o, k string) op         { return op{Op: o, K: mk([]byte(k)), Txt: k} }

func handPicked() []*jcase {
	uni := func(ks ...string) []key {
		var u []key
		for _, k := range ks {
			u = append(u, mk([]byte(k)))
		}
		return u
	}
	return []*jcase{
		// rhh: growth from the smallest table, overwrite, reset
		{Kind: "rhh", Cap: 0, LF: 90, Universe: uni("k1", "k2", "k3", "k4", "k5"), Ops: []op{put("k1", 1), put("k2", 2), put("k1", 3), get("k1"), put("k3", 4), put("k4", 5), put("k5", 6), get("k2"), get("k9"), {Op: "grow", M: 33}, get("k5"), {Op: "reset"}, get("k1"), put("k1", 7)}},
		// rhh: the empty key (former finding, fixed: Len must count it)
		{Kind: "rhh", Cap: 4, LF: 90, Universe: uni("", "a"), Ops: []op{put("", 5), get(""), put("a", 6), get("a"), put("", 7), get("")}},
		// rhh: Capacity 2, LoadFactor 100, empty key then two more keys (spun forever before the fix)
		{Kind: "rhh", Cap: 2, LF: 100, Universe: uni("", "k0", "k1"), Ops: []op{put("", 1), put("k0", 2), put("k1", 3), get(""), get("k0"), get("k1")}},
		// bloom
		{Kind: "bloom", M: 64, K: 3, Ops: []op{rk("contains", "a"), rk("insert", "a"), rk("contains", "a"), rk("insert", ""), rk("contains", ""), {Op: "merge", M: 64, K2: 3, Keys: uni("b", "c")}, rk("contains", "b"), {Op: "merge", M: 128, K2: 3, Keys: uni("d")}, {Op: "clone", Keys: uni("zz")}, rk("contains", "zz"), rk("contains", "c")}},
		// radix: splits, insert-if-absent, prefix key, delete
		{Kind: "radix", Ops: []op{rins("abc", 1), rins("abd", 2), rins("ab", 3), rins("abc", 9), rk("get", "abc"), rk("get", "a"), rins("", 4), {Op: "min"}, {Op: "max"}, rins("b", 5), rk("delprefix", "ab"), rk("get", "abd"), rk("get", "b"), rk("delprefix", "zz"), rk("delprefix", "")}},
		// radix: Minimum/Maximum after DeletePrefix (former finding, fixed: the emptied node is unlinked)
		{Kind: "radix", Ops: []op{rins("a", 1), rins("b", 2), rk("delprefix", "a"), {Op: "min"}, rins("c", 3), rk("delprefix", "c"), {Op: "max"}}},
		// radix: DeletePrefix whose argument diverges inside a compressed edge label while the node below
		// has a child starting with the diverging byte: nothing may be deleted
		{Kind: "radix", Ops: []op{rins("server01", 1), rins("server010", 2), rins("server011", 3), rk("delprefix", "server1"), rk("get", "server011"), rk("delprefix", "sarver01"), rk("delprefix", "server0"), rk("get", "server01")}},
		// idset: container boundaries, algebra, round trip
		{Kind: "idset", Ops: []op{{Op: "addmany", I: 0, IDs: []uint64{1, 65535, 65536, 1<<32 - 1}}, {Op: "addrange", I: 1, Lo: 65530, Cnt: 12}, {Op: "and", I: 0, J: 1, D: 2}, {Op: "andnot", I: 1, J: 0, D: 3}, {Op: "roundtrip", I: 1, D: 0}, {Op: "equals", I: 0, J: 1}, {Op: "remove", I: 0, ID: 65536}, {Op: "equals", I: 0, J: 1}, {Op: "diff", I: 1, J: 3}, {Op: "card", I: 1}, {Op: "foreach", I: 1}}},
		// idset known finding: ids beyond 32 bits alias
		{Kind: "idset", Ops: []op{{Op: "add", I: 0, ID: 1<<32 + 5}, {Op: "contains", I: 0, ID: 5}, {Op: "slice", I: 0}}},
	}
}

func main() {
	w := vh.New("C36", "From Verif Require Import Base.Prelude Model.C36.\nFixpoint nrange (lo : N) (n : nat) : list N := match n with O => [] | S n' => lo :: nrange (lo + 1)%N n' end.", "case", "check")
	w.Rule = "operation histories, one structure per case (round robin rhh / bloom / radix / idset). rhh: capacity in {0,2,3,4,5,8,16} (rounded by pow2), load factor in {30,50,75,80,90,100}, 2-13 keys drawn from a pool whose HashKey home slots mod 16 fall into buckets {15,0,1,7,3} (dense collisions, wrap-around), 4-43 ops Put 60% / Get 30% / Grow 6% / Reset 4%, Len+Cap observed after every op, Keys() and Get of every key at the end; 1 in 8 cases also uses the empty key. bloom: m in {1,8,64,100,128,512}, k in 0..4, keys of length 0-3 over {a,b,z,0x00,0xff}, Insert/Contains/Merge (compatible and mismatched m,k)/Clone-then-mutate-original, all results and the final bit set observed. radix: keys of length 0-5 over {a,b,c} biased to share prefixes (plus a class with a 23-symbol alphabet incl. 0x00/0xff for nodes with more than 16 edges), Insert 45% / Get 20% / DeletePrefix 15% / Minimum 10% / Maximum 10%, classes without deletes, with deletes but no min/max, and with everything; one radix case in three uses a two-letter alphabet with keys grown from stored keys (compressed multi-byte edges with children) and DeletePrefix/Get arguments that diverge inside an edge label (a stored key with a middle byte flipped, a middle chunk cut out, or truncated and continued with the other letter); final pre-order walk via hook. idset: 4 set variables, ids around roaring container boundaries (0, 65535/6/7, 131071/2/3, 2^31, 2^32-2, 2^32-1), dense ranges crossing 65536 and (1 case in 25) 4096-element containers, 1 in 8 cases with ids >= 2^32 (known finding); Add/AddMany/Remove/Contains/Cardinality/Merge/MergeInPlace/And/AndNot/Diff/Intersects/Equals/Clone/WriteTo+UnmarshalBinary/Clear/Slice/ForEach. Non-trivial: rhh >= 3 puts over >= 2 keys; bloom >= 2 inserts with k >= 1; radix >= 3 inserts; idset >= 3 ids in the final sets. Distinct: distinct Gallina terms."
	initPool()
	var rc jcase
	if w.ReplayCase(&rc) {
		run(w, &rc)
		w.Finish()
		return
	}
	for _, c := range handPicked() {
		run(w, c)
	}
	for i := 0; w.Len() < w.N; i++ {
		var c *jcase
		switch i % 4 {
		case 0:
			c = genRhh(w)
		case 1:
			c = genBloom(w)
		case 2:
			c = genRadix(w)
		default:
			c = genIdset(w)
		}
		run(w, c)
	}
	_ = sort.Ints
	w.Finish()
}
