(** C41 — Flux window-aggregate tables have the right windows and values.  Property theorems only.

    [flux_rows bs be every off createEmpty timeColumn agg forceAggregate arrs] mirrors
    storage/flux: the rows (_start, _stop, _time?, _value|null) of the tables produced from
    the arrays [arrs] returned by the storage window cursor (the C20 model [run_model]).
    [spec_rows] (Model/C41.v) is the property as a specification from the raw points and is
    the oracle of the correspondence check.

    FULL STATEMENT (not proved in general; checked on every generated case by the
    correspondence check; the two request shapes for which it used to be refuted are repaired):
      forall bounds window agg createEmpty timeColumn forceAggregate chunks,
        run_model ... chunks = Some arrs ->
        flux_rows ... arrs = Some (spec_rows ... (concat chunks)). *)
From Coq Require Import Floats.SpecFloat.
From Verif Require Import Base.Prelude Model.C20 Model.C41 Proofs.C20 Proofs.C20_ref Proofs.C20_inst Proofs.C41.
Open Scope Z_scope.

(** count / sum / mean without createEmpty, end to end (storage cursor + flux table): for every
    chunking of the in-bounds points, the table ENDS and has exactly one row per non-empty
    window, in window order; the row of the window stopping at [w] has _start/_stop (or
    _time, when a time column is requested) from the window (w - every, w] clipped to the
    bounds, and its value is the aggregate of the raw points of that window
    ([oracle] = C20's reference: filter per window + list-level aggregate). *)
Theorem C41_aggregate_rows_partial :
  forall bs be every off tc t k fa (chunks : list (list (Z * val))),
    0 < every -> is_stop_agg k = true ->
    Forall nonempty chunks -> time_sorted (concat chunks) ->
    (forall p, In p (concat chunks) -> fst p < be) ->
    exists arrs,
      run_model (ns_stop every off) false Bblock t k chunks = Some arrs
      /\ flux_rows bs be every off false tc k fa arrs
         = Some (map (fun p => mk_row bs be every tc (fst p - every) None (Some (snd p)))
                     (oracle (ns_stop every off) false t k (concat chunks))).
Proof. exact aggregate_rows_nce. Qed.
Print Assumptions C41_aggregate_rows_partial.

(** row_bounds_clipped: the row built for the window starting at [s] carries the window
    clipped to the query bounds. *)
Theorem C41_row_bounds_clipped :
  forall bs be every s tm v,
    mk_row bs be every TNone s tm v = R (Z.max bs s) (Z.min be (s + every)) tm v
    /\ mk_row bs be every TStart s tm v = R bs be (Some (Z.max bs s)) v
    /\ mk_row bs be every TStop s tm v = R bs be (Some (Z.min be (s + every))) v.
Proof.
  intros. unfold mk_row. rewrite clip_start_max, clip_stop_min. repeat split; reflexivity.
Qed.
Print Assumptions C41_row_bounds_clipped.

(** rows_per_window with createEmpty (count/sum/mean, or a selector under table.fill()): the
    table has one row per window of the grid that starts below bounds.Stop, beginning with
    the window that contains bounds.Start, each clipped to the bounds — whatever the data. *)
Theorem C41_create_empty_rows_per_window :
  forall bs be every off is_agg fillv fuel pts,
    0 < every -> bs < be ->
    let s0 := ns_start every off bs in
    let n := Z.to_nat ((be - s0 + every - 1) / every) in
    (n <= fuel)%nat ->
    map (fun r => (r_start r, r_stop r)) (wt_ce bs be every off TNone fuel is_agg fillv s0 pts)
    = grid_rows bs be every n s0.
Proof. intros. apply wt_ce_windows; assumption. Qed.
Print Assumptions C41_create_empty_rows_per_window.

(** selectors (min/max/first/last) without createEmpty: one row per selected point; the
    point's window clipped to the bounds, the point's own time and value. *)
Theorem C41_selector_rows :
  forall bs be every off (pts : list (Z * val)),
    ws_rows bs be every off TNone pts
    = map (fun p => R (Z.max bs (ns_start every off (fst p))) (Z.min be (ns_stop every off (fst p)))
                      (Some (fst p)) (Some (snd p))) pts.
Proof. exact ws_rows_spec. Qed.
Print Assumptions C41_selector_rows.

(** A selector (min/max/first/last) that table.fill() forces to be treated as an aggregate,
    without createEmpty (formerly REFUTED: the table never ended; repaired in
    createNextBufferTimes, findings.d/C41.json): for every list of arrays of selected points
    below bounds.Stop the table ENDS and has one row per point, with the point's own window
    clipped to the bounds and the point's value. *)
Theorem C41_forced_selector_rows :
  forall bs be every off tc k (arrs : list (list (Z * val))),
    0 < every -> is_sel k = true -> arrs <> [] ->
    Forall (Forall (fun p => fst p < be)) arrs ->
    flux_rows bs be every off false tc k true arrs
    = Some (map (fun p => mk_row bs be every tc (ns_start every off (fst p)) None (Some (snd p)))
                (concat arrs)).
Proof.
  intros bs be every off tc k arrs He Hk Hne H. unfold flux_rows. rewrite Hk. cbn [negb orb].
  destruct arrs as [|a arrs']; [congruence|]. apply wt_nce_sel; assumption.
Qed.
Print Assumptions C41_forced_selector_rows.

(** the former witness of the never-ending table *)
Example C41_forceaggregate_selector_ends :
  flux_rows 0 40 10 0 false TNone First true [[(3, VI 7); (25, VI 9)]]
  = Some [R 0 10 None (Some (VI 7)); R 20 30 None (Some (VI 9))].
Proof. vm_compute. reflexivity. Qed.

(** the former witness of the dropped empty windows (selector, createEmpty, 1250 windows, data
    in the first block only): now one row per window (repaired in
    *EmptyWindowSelectorTable.advance). *)
Example C41_createempty_selector_all_windows :
  nwin 0 2500 2 0 = 1250
  /\ option_map (@length row) (flux_rows 0 2500 2 0 true TNone Min false [[(3, VI 7); (5, VI 9)]])
     = Some 1250%nat.
Proof. split; vm_compute; reflexivity. Qed.

(** Non-vacuity: bounds [5,25), every 10: the storage count cursor and the flux table give
    the three clipped windows with counts 0, 1, 0 (the shape of the in-repo unit test), and
    this is what the specification says. *)
Example C41_nonvacuous :
  let chunks := [[(15, VF (S754_finite false 4503599627370496 (-51)))]] in
  (match run_model (ns_stop 10 0) false Bblock TFloat Count chunks with
   | Some arrs => flux_rows 5 25 10 0 true TNone Count false arrs
   | None => None end)
  = Some [R 5 10 None (Some (VI 0)); R 10 20 None (Some (VI 1)); R 20 25 None (Some (VI 0))]
  /\ spec_rows 5 25 10 0 true TNone TFloat Count false (concat chunks)
  = [R 5 10 None (Some (VI 0)); R 10 20 None (Some (VI 1)); R 20 25 None (Some (VI 0))].
Proof. split; vm_compute; reflexivity. Qed.
