// C27 driver: the REAL replicationQueue.SendWrite (replications/internal, reached through the
// add-only verif export in package replications) with the REAL remotewrite writer, a real
// durablequeue on disk and an httptest remote whose answers are scripted per request
// (204/200/400/401/404/429 +- Retry-After/500/503, hang -> client timeout, connection drop), plus
// scripted failures of the config store.  The replication queue is NOT started (no run
// goroutine): the harness calls SendWrite itself, so scheduling between EnqueueData and the run
// loop is collapsed.  No sleeps: Write never waits; only the timeout items cost the (shortened)
// client timeout.
package main

import (
	"context"
	"errors"
	"fmt"
	"io"
	"net/http"
	"net/http/httptest"
	"os"
	"path/filepath"
	"strconv"
	"strings"
	"sync"
	"time"

	influxdb "github.com/influxdata/influxdb/v2"
	"github.com/influxdata/influxdb/v2/kit/platform"
	"github.com/influxdata/influxdb/v2/pkg/durablequeue"
	"github.com/influxdata/influxdb/v2/replications"
	"github.com/influxdata/influxdb/v2/replications/metrics"
	"github.com/influxdata/influxdb/v2/replications/remotewrite"
	"go.uber.org/zap"
	"verifh/vh"
)

type jitem struct {
	Kind    string `json:"kind"` // status | timeout | connerr
	Code    int    `json:"code,omitempty"`
	Retry   string `json:"retry_after,omitempty"`
	CfgFail bool   `json:"config_lookup_fails,omitempty"`
	UpdFail bool   `json:"update_response_info_fails,omitempty"`
}
type jop struct {
	Kind     string  `json:"kind"` // enq | send | purge | write
	B        []int   `json:"b,omitempty"`
	Script   []jitem `json:"script,omitempty"`
	Aged     bool    `json:"aged,omitempty"`
	Attempts int     `json:"attempts,omitempty"`
	// outputs
	Posted    [][]int `json:"impl_posted,omitempty"`
	Recorded  []int   `json:"impl_recorded_status,omitempty"`
	Wait      int64   `json:"impl_wait_ns"`
	Retry     bool    `json:"impl_should_retry,omitempty"`
	FW        int     `json:"impl_failed_writes,omitempty"`
	Remaining [][]int `json:"impl_remaining,omitempty"`
	OK        bool    `json:"impl_ok,omitempty"`
}
// jms: SendWrite over a multi-segment backlog; the remote accepts everything but answers request i
// only after 10.5 s when Ticks[i] is set, so that the 10 s scannerAdvanceInterval ticker of SendWrite
// has fired when that Write returns (at most one tick per scenario).
type jms struct {
	Segs      [][][]int `json:"segments"`
	MaxSeg    int64     `json:"max_segment_size"`
	Ticks     []bool    `json:"ticker_fired_after_batch"`
	Posted    [][]int   `json:"impl_posted"`
	Remaining [][]int   `json:"impl_still_queued"`
}
type jcase struct {
	Drop  bool    `json:"drop_non_retryable_data"`
	Ops   []jop   `json:"ops"`
	Final [][]int `json:"impl_final_queue"`
	MS    *jms    `json:"multi_segment_ticker,omitempty"`
}


type msStore struct{ url string }

func (s *msStore) GetFullHTTPConfig(context.Context, platform.ID) (*influxdb.ReplicationHTTPConfig, error) {
	return &influxdb.ReplicationHTTPConfig{RemoteURL: s.url, RemoteToken: "t", RemoteBucketName: "b"}, nil
}
func (s *msStore) UpdateResponseInfo(context.Context, platform.ID, int, string) error { return nil }

func execMS(ms *jms) string {
	dir, err := os.MkdirTemp(tmpRoot, "c27m-")
	if err != nil {
		panic(err)
	}
	defer os.RemoveAll(dir)
	var mu sync.Mutex
	var posted [][]int
	nreq := 0
	srv := httptest.NewServer(http.HandlerFunc(func(rw http.ResponseWriter, r *http.Request) {
		body, _ := io.ReadAll(r.Body)
		mu.Lock()
		posted = append(posted, ints(body))
		i := nreq
		nreq++
		mu.Unlock()
		if i < len(ms.Ticks) && ms.Ticks[i] {
			time.Sleep(10500 * time.Millisecond)
		}
		rw.WriteHeader(204)
	}))
	defer srv.Close()
	q, err := durablequeue.NewQueue(dir, 1<<20, ms.MaxSeg, &durablequeue.SharedCount{}, 8, func([]byte) error { return nil })
	if err != nil {
		panic(err)
	}
	if err := q.Open(); err != nil {
		return "queue open: " + err.Error()
	}
	defer q.Close()
	for _, sg := range ms.Segs {
		for _, b := range sg {
			if err := q.Append(bytesOf(b)); err != nil {
				return "Append: " + err.Error()
			}
		}
	}
	// the batches must be grouped into segment files exactly as the scenario says
	es, _ := os.ReadDir(dir)
	if len(es) != len(ms.Segs) {
		return fmt.Sprintf("scenario setup: %d segment files, expected %d", len(es), len(ms.Segs))
	}
	done := make(chan struct{})
	defer close(done)
	m := metrics.NewReplicationsMetrics()
	wr := remotewrite.NewWriter(platform.ID(1), &msStore{srv.URL}, m, zap.NewNop(), done)
	wr.VerifSetClientTimeout(60 * time.Second)
	rq := replications.VerifNewQueue(platform.ID(1), q, wr, m, zap.NewNop(), time.Hour)
	if p := vh.Guard(func() { rq.SendWrite() }); p != "" {
		return "SendWrite panicked: " + p
	}
	mu.Lock()
	ms.Posted = append([][]int{}, posted...)
	mu.Unlock()
	// what is still queued: drain destructively (scanner + Advance per segment)
	ms.Remaining = [][]int{}
	for it := 0; it < 64; it++ {
		sc, err := q.NewScanner()
		if err != nil {
			break
		}
		for sc.Next() {
			ms.Remaining = append(ms.Remaining, ints(sc.Bytes()))
		}
		sc.Advance()
	}
	return ""
}

func msTerm(ms *jms) string {
	if ms == nil {
		return "None"
	}
	segs := make([]string, len(ms.Segs))
	for i, sg := range ms.Segs {
		segs[i] = blocks(sg)
	}
	return fmt.Sprintf("(Some {| ms_segs := %s; ms_ticks := %s; ms_posted := %s; ms_remaining := %s |})",
		vh.List(segs), vh.Bools(ms.Ticks), blocks(ms.Posted), blocks(ms.Remaining))
}
func msSig(ms *jms) string { return "" } // finding fixed (commit 1bb2e81f1f): the shape is no longer tolerated

// msAtSegmentEnd: the ticker fires after the last block of a head segment with segments behind it
func msAtSegmentEnd(ms *jms) bool {
	return ms != nil && len(ms.Segs) > 1 && len(ms.Segs[0]) > 0 && len(ms.Ticks) >= len(ms.Segs[0]) && ms.Ticks[len(ms.Segs[0])-1]
}

// ---- scripted world shared by the config store and the fake remote
type world struct {
	mu       sync.Mutex
	script   []jitem
	cur      jitem
	drop     bool
	url      string
	posted   [][]int
	recorded []int
	// setTimeout adjusts the writer's HTTP client timeout for the Write that is starting: short
	// only for scripted hangs, generous otherwise so that a loaded machine cannot turn an ordinary
	// answer into a timeout.
	setTimeout func(time.Duration)
}

func (w *world) GetFullHTTPConfig(ctx context.Context, id platform.ID) (*influxdb.ReplicationHTTPConfig, error) {
	w.mu.Lock()
	defer w.mu.Unlock()
	if len(w.script) > 0 {
		w.cur, w.script = w.script[0], w.script[1:]
	} else {
		w.cur = jitem{Kind: "status", Code: 204}
	}
	if w.setTimeout != nil {
		if w.cur.Kind == "timeout" {
			w.setTimeout(80 * time.Millisecond)
		} else {
			w.setTimeout(20 * time.Second)
		}
	}
	if w.cur.CfgFail {
		return nil, errors.New("scripted config lookup failure")
	}
	return &influxdb.ReplicationHTTPConfig{RemoteURL: w.url, RemoteToken: "t", RemoteBucketName: "b", DropNonRetryableData: w.drop}, nil
}
func (w *world) UpdateResponseInfo(ctx context.Context, id platform.ID, code int, msg string) error {
	w.mu.Lock()
	defer w.mu.Unlock()
	w.recorded = append(w.recorded, code)
	if w.cur.UpdFail {
		return errors.New("scripted config store update failure")
	}
	return nil
}
func (w *world) ServeHTTP(rw http.ResponseWriter, r *http.Request) {
	body, _ := io.ReadAll(r.Body)
	w.mu.Lock()
	cur := w.cur
	w.posted = append(w.posted, ints(body))
	w.mu.Unlock()
	switch cur.Kind {
	case "timeout":
		select {
		case <-r.Context().Done():
		case <-time.After(3 * time.Second):
		}
	case "connerr":
		if hj, ok := rw.(http.Hijacker); ok {
			if c, _, err := hj.Hijack(); err == nil {
				c.Close()
			}
		}
	default:
		if cur.Retry != "" {
			rw.Header().Set("Retry-After", cur.Retry)
		}
		rw.WriteHeader(cur.Code)
	}
}

func ints(b []byte) []int {
	r := make([]int, len(b))
	for i, c := range b {
		r[i] = int(c)
	}
	return r
}
func bytesOf(v []int) []byte {
	r := make([]byte, len(v))
	for i, c := range v {
		r[i] = byte(c)
	}
	return r
}
func zs(v []int) string {
	xs := make([]string, len(v))
	for i, c := range v {
		xs[i] = strconv.Itoa(c)
	}
	return "[" + strings.Join(xs, ";") + "]"
}
func blocks(v [][]int) string {
	xs := make([]string, len(v))
	for i, b := range v {
		xs[i] = zs(b)
	}
	return "[" + strings.Join(xs, "; ") + "]"
}
func itemTerm(it jitem) string {
	r := "RConnErr"
	switch it.Kind {
	case "status":
		r = fmt.Sprintf("(RStatus %d %s)", it.Code, zs(ints([]byte(it.Retry))))
	case "timeout":
		r = "RTimeout"
	}
	return fmt.Sprintf("{| it_resp := %s; it_cfg_fail := %s; it_upd_fail := %s |}", r, vh.Bool(it.CfgFail), vh.Bool(it.UpdFail))
}
func zlit(v int64) string {
	if v < 0 {
		return fmt.Sprintf("(%d)", v)
	}
	return strconv.FormatInt(v, 10)
}

var tmpRoot string

func remaining(q *durablequeue.Queue) [][]int {
	out := [][]int{}
	sc, err := q.NewScanner()
	if err != nil {
		return out
	}
	for sc.Next() {
		out = append(out, ints(sc.Bytes()))
	}
	return out
}

const maxAge = time.Hour

func execCase(c *jcase) string {
	dir, err := os.MkdirTemp(tmpRoot, "c27-")
	if err != nil {
		panic(err)
	}
	defer os.RemoveAll(dir)
	w := &world{drop: c.Drop}
	srv := httptest.NewUnstartedServer(w)
	srv.Config.SetKeepAlivesEnabled(false)
	srv.Start()
	defer srv.Close()
	w.url = srv.URL
	q, err := durablequeue.NewQueue(dir, 64<<20, durablequeue.DefaultSegmentSize, &durablequeue.SharedCount{},
		durablequeue.MaxWritesPending, func([]byte) error { return nil })
	if err != nil {
		panic(err)
	}
	if err := q.Open(); err != nil {
		return "queue open: " + err.Error()
	}
	defer q.Close()
	id := platform.ID(1)
	done := make(chan struct{})
	defer close(done)
	m := metrics.NewReplicationsMetrics()
	wr := remotewrite.NewWriter(id, w, m, zap.NewNop(), done)
	w.setTimeout = wr.VerifSetClientTimeout
	rq := replications.VerifNewQueue(id, q, wr, m, zap.NewNop(), maxAge)
	for i := range c.Ops {
		o := &c.Ops[i]
		w.mu.Lock()
		w.posted, w.recorded = nil, nil
		w.script = append([]jitem{}, o.Script...)
		w.mu.Unlock()
		switch o.Kind {
		case "enq":
			if err := q.Append(bytesOf(o.B)); err != nil {
				return "Append: " + err.Error()
			}
		case "send":
			var wait time.Duration
			if p := vh.Guard(func() { wait, o.Retry = rq.SendWrite() }); p != "" {
				return "SendWrite panicked: " + p
			}
			o.Wait = int64(wait)
			o.FW = rq.FailedWrites()
			w.mu.Lock()
			o.Posted, o.Recorded = append([][]int{}, w.posted...), append([]int{}, w.recorded...)
			w.mu.Unlock()
			o.Remaining = remaining(q)
		case "purge":
			es, _ := os.ReadDir(dir)
			t := time.Now()
			if o.Aged {
				t = t.Add(-maxAge - time.Hour)
			}
			for _, e := range es {
				if _, err := strconv.ParseUint(e.Name(), 10, 64); err == nil {
					os.Chtimes(filepath.Join(dir, e.Name()), t, t)
				}
			}
			// what replicationQueue.run does on its purge ticker
			if err := q.PurgeOlderThan(time.Now().Add(-maxAge)); err != nil {
				return "PurgeOlderThan: " + err.Error()
			}
			o.Remaining = remaining(q)
		case "write":
			wait, err := wr.Write([]byte("x"), o.Attempts)
			o.Wait, o.OK = int64(wait), err == nil
		}
	}
	c.Final = remaining(q)
	return ""
}

func caseTerm(c *jcase) string {
	ops := make([]string, len(c.Ops))
	for i, o := range c.Ops {
		switch o.Kind {
		case "enq":
			ops[i] = "OEnq " + zs(o.B)
		case "send":
			its := make([]string, len(o.Script))
			for j, it := range o.Script {
				its[j] = itemTerm(it)
			}
			rec := make([]string, len(o.Recorded))
			for j, r := range o.Recorded {
				rec[j] = strconv.Itoa(r)
			}
			ops[i] = fmt.Sprintf("OSend %s {| so_posted := %s; so_recorded := [%s]; so_wait := %s; so_retry := %s; so_fw := %d; so_remaining := %s |}",
				vh.List(its), blocks(o.Posted), strings.Join(rec, ";"), zlit(o.Wait), vh.Bool(o.Retry), o.FW, blocks(o.Remaining))
		case "purge":
			ops[i] = fmt.Sprintf("OPurge %s %s", vh.Bool(o.Aged), blocks(o.Remaining))
		case "write":
			ops[i] = fmt.Sprintf("OWrite %d %s %s %s", o.Attempts, itemTerm(o.Script[0]), zlit(o.Wait), vh.Bool(o.OK))
		}
	}
	return fmt.Sprintf("{| c_drop := %s; c_ops := %s; c_final := %s; c_ms := %s |}", vh.Bool(c.Drop), vh.List(ops), blocks(c.Final), msTerm(c.MS))
}

func emit(w *vh.W, c *jcase) {
	idx := w.Len()
	f := execCase(c)
	if c.MS != nil && c.MS.Posted == nil && f == "" {
		f = execMS(c.MS)
	}
	nsend, nfail := 0, 0
	for _, o := range c.Ops {
		w.Count("op", o.Kind)
		if o.Kind == "send" {
			nsend++
			if o.Wait != 0 {
				nfail++
			}
			for _, it := range o.Script {
				k := it.Kind
				if k == "status" {
					k = strconv.Itoa(it.Code)
					if it.Retry != "" {
						k += "+retry-after"
					}
				}
				w.Count("response", k)
			}
		}
	}
	if c.MS != nil {
		w.Count("multi_segment_ticker_shape", map[bool]string{true: "tick-at-segment-end", false: "benign"}[msAtSegmentEnd(c.MS)])
	}
	w.Add(caseTerm(c), c, (nsend > 0 && nfail > 0) || c.MS != nil, msSig(c.MS))
	if f != "" {
		w.Fail(idx, f, "")
	}
}

func main() {
	w := vh.New("C27", "From Verif Require Import Base.Prelude Model.C27.\nOpen Scope Z_scope.", "case", "check")
	w.Rule = "histories (4-14 ops) of enqueue / SendWrite (with a per-request script of remote answers: 204, 200, 400, 401, 404, 413, 429 with Retry-After in {absent, 0, 1, 5, 120, -3, +7, 007, 00, abc, 1.5, 99999999999999999999, 9223372036}, 500, 503, hang->timeout, dropped connection; config lookup / UpdateResponseInfo failures) / age purge (segment mtime older or newer than maxAge) / direct writer.Write with attempts 0..13, with DropNonRetryableData on or off, against the real replicationQueue.SendWrite + remotewrite writer + durablequeue. Consecutive failing sends drive failedWrites past the backoff cap. Four additional cases run SendWrite over a multi-segment backlog (tiny segment size) with the remote answering one request only after 10.5 s so that SendWrite's 10 s in-loop ticker advance fires after that batch (mid-segment, at the last block of the head segment with or without segments behind it). Non-trivial: at least one SendWrite that failed, or a multi-segment ticker case. Distinct: distinct Gallina terms."
	tmpRoot = os.TempDir()
	if st, err := os.Stat("/dev/shm"); err == nil && st.IsDir() {
		tmpRoot = "/dev/shm"
	}
	var rc jcase
	if w.ReplayCase(&rc) {
		emit(w, &rc)
		w.Finish()
		return
	}
	r := w.Rng
	st := func(code int, ra string) jitem { return jitem{Kind: "status", Code: code, Retry: ra} }
	b := func(x ...int) []int { return x }
	hand := []jcase{
		{Drop: false, Ops: []jop{{Kind: "enq", B: b(1, 2)}, {Kind: "enq", B: b(3)}, {Kind: "enq", B: b(4, 5, 6)},
			{Kind: "send", Script: []jitem{st(204, ""), st(500, "")}}, {Kind: "send", Script: []jitem{st(204, ""), st(204, ""), st(429, "5")}},
			{Kind: "send", Script: []jitem{st(204, ""), st(204, ""), st(204, "")}}, {Kind: "send"}}},
		{Drop: true, Ops: []jop{{Kind: "enq", B: b(1)}, {Kind: "enq", B: b(2)}, {Kind: "send", Script: []jitem{st(400, ""), st(204, "")}}}},
		{Drop: false, Ops: []jop{{Kind: "enq", B: b(1)}, {Kind: "enq", B: b(2)}, {Kind: "send", Script: []jitem{st(400, "")}}, {Kind: "purge", Aged: false}, {Kind: "purge", Aged: true}, {Kind: "send"}}},
		{Drop: false, Ops: []jop{{Kind: "enq", B: b(9)}, {Kind: "send", Script: []jitem{{Kind: "timeout"}}}, {Kind: "send", Script: []jitem{{Kind: "connerr"}}},
			{Kind: "send", Script: []jitem{st(200, "")}}, {Kind: "send", Script: []jitem{{Kind: "status", Code: 204, UpdFail: true}}}, {Kind: "send", Script: []jitem{{Kind: "status", Code: 204, CfgFail: true}}}}},
	}
	// 12 consecutive failures: backoff doubles then caps
	long := jcase{Ops: []jop{{Kind: "enq", B: b(7)}}}
	for i := 0; i < 13; i++ {
		long.Ops = append(long.Ops, jop{Kind: "send", Script: []jitem{st(503, "")}})
	}
	long.Ops = append(long.Ops, jop{Kind: "send", Script: []jitem{st(429, "")}}, jop{Kind: "send", Script: []jitem{st(204, "")}})
	hand = append(hand, long)
	// multi-segment backlog + ticker advance: 10.5 s each, run in the background while the other cases are generated
	bb := func(i int) []int { return []int{i, 7, 7, 7, 7, 7, 7, 7, 7, 7, i} } // 11 bytes: one per 24-byte segment, two per 40-byte segment
	mss := []*jms{
		{MaxSeg: 24, Segs: [][][]int{{bb(1)}, {bb(2)}, {bb(3)}}, Ticks: []bool{true}},
		{MaxSeg: 40, Segs: [][][]int{{bb(1), bb(2)}, {bb(3), bb(4)}}, Ticks: []bool{true, false}},
		{MaxSeg: 40, Segs: [][][]int{{bb(1), bb(2)}, {bb(3), bb(4)}, {bb(5)}}, Ticks: []bool{false, true}},
		{MaxSeg: 40, Segs: [][][]int{{bb(1), bb(2)}}, Ticks: []bool{false, true}},
	}
	msFail := make([]string, len(mss))
	var msWG sync.WaitGroup
	if w.N >= 100 {
		for i := range mss {
			msWG.Add(1)
			go func(i int) { defer msWG.Done(); msFail[i] = execMS(mss[i]) }(i)
		}
	}
	for i := range hand {
		if w.Len() < w.N {
			emit(w, &hand[i])
		}
	}
	defer func() {}()
	retryVals := []string{"", "", "0", "1", "5", "120", "-3", "+7", "007", "00", "abc", "1.5", "99999999999999999999", "9223372036", "12x"}
	codes := []int{204, 204, 204, 204, 200, 400, 400, 401, 404, 413, 429, 429, 429, 500, 503}
	genItem := func(allowSlow bool) jitem {
		x := r.IntN(40)
		switch {
		case x == 0 && allowSlow:
			return jitem{Kind: "timeout"}
		case x == 1:
			return jitem{Kind: "connerr"}
		}
		it := st(codes[r.IntN(len(codes))], "")
		if it.Code == 429 || r.IntN(10) == 0 {
			it.Retry = retryVals[r.IntN(len(retryVals))]
		}
		if r.IntN(25) == 0 {
			it.CfgFail = true
		}
		if r.IntN(25) == 0 {
			it.UpdFail = true
		}
		return it
	}
	seq := 0
	for w.Len() < w.N {
		c := jcase{Drop: r.IntN(2) == 0}
		nops := 4 + r.IntN(11)
		pend := 0
		slow := 0
		for i := 0; i < nops; i++ {
			x := r.IntN(20)
			switch {
			case x < 8:
				seq++
				n := 1 + r.IntN(5)
				bb := make([]int, n)
				bb[0] = 1 + seq%250
				for j := 1; j < n; j++ {
					bb[j] = r.IntN(256)
				}
				c.Ops = append(c.Ops, jop{Kind: "enq", B: bb})
				pend++
			case x < 15:
				o := jop{Kind: "send"}
				k := pend + r.IntN(2)
				if r.IntN(3) == 0 { // a fully accepting script
					for j := 0; j < k; j++ {
						o.Script = append(o.Script, st(204, ""))
					}
				} else {
					for j := 0; j < k; j++ {
						it := genItem(slow < 1)
						if it.Kind == "timeout" {
							slow++
						}
						o.Script = append(o.Script, it)
					}
				}
				c.Ops = append(c.Ops, o)
			case x < 16:
				c.Ops = append(c.Ops, jop{Kind: "purge", Aged: r.IntN(2) == 0})
			default:
				it := genItem(false)
				if r.IntN(2) == 0 {
					it = st(429, retryVals[r.IntN(len(retryVals))])
				}
				c.Ops = append(c.Ops, jop{Kind: "write", Attempts: r.IntN(14), Script: []jitem{it}})
			}
		}
		emit(w, &c)
	}
	if w.N >= 100 {
		msWG.Wait()
		for i := range mss {
			if mss[i].Posted == nil {
				mss[i].Posted = [][]int{}
			}
			c := jcase{MS: mss[i]}
			idx := w.Len()
			emit(w, &c)
			if msFail[i] != "" {
				w.Fail(idx, msFail[i], "")
			}
		}
	}
	w.Finish()
}
