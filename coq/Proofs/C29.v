From Verif Require Import Base.Prelude Model.C28 Proofs.C28 Model.C29.
