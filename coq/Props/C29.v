(** C29 — Authorization wrappers never leak or modify unauthorized resources.
    Property theorems only.  The model ([Model/C29.v]) mirrors authorizer/{bucket,org,user,
    auth,authorize,authorize_find}.go and authorization/middleware_auth.go over a small model
    of the wrapped tenant/authorization services; [step c s x] is one wrapped call by caller
    [c] in store [s]; [trace c s xs] the history of a call sequence.  [holds c q] = the
    caller's token is active and one of its permissions grants [q] in the sense of C28. *)
From Verif Require Import Base.Prelude Model.C28 Proofs.C28 Model.C29 Proofs.C29 Proofs.C29_frame.

(** 1. Every id returned by any wrapped call names a stored resource of the wrapper's kind
    all of whose read permissions (as the wrapper builds them: [read_reqs]) the caller holds. *)
Theorem C29_no_leak :
  forall c s x i, In i (ids (step c s x)) -> readable_in c s (call_kind x) i.
Proof. exact no_leak. Qed.
Print Assumptions C29_no_leak.

(** … along every history, for all permission sets and call sequences. *)
Theorem C29_no_leak_history :
  forall c s0 xs,
    Forall (fun t => forall i, In i (ids (snd t)) ->
                     readable_in c (fst (fst t)) (call_kind (snd (fst t))) i) (trace c s0 xs).
Proof. intros c s0 xs. apply (trace_forall (fun s x r => forall i, In i (ids r) -> readable_in c s (call_kind x) i)).
  intros s x i. apply no_leak. Qed.
Print Assumptions C29_no_leak_history.

(** 2. A mutating call that succeeds — or changes the store at all — was entitled to:
    create: the create permissions (and, for tokens, every granted permission);
    update/delete: the write permissions of the target. *)
Theorem C29_mutation_requires_write :
  forall c s x, (cls (step c s x) = E_OK \/ st (step c s x) <> s) -> write_authorized c s x.
Proof. exact mutation_requires_write. Qed.
Print Assumptions C29_mutation_requires_write.

Theorem C29_mutation_requires_write_history :
  forall c s0 xs,
    Forall (fun t => (cls (snd t) = E_OK \/ st (snd t) <> fst (fst t)) ->
                     write_authorized c (fst (fst t)) (snd (fst t))) (trace c s0 xs).
Proof. intros c s0 xs.
  apply (trace_forall (fun s x r => (cls r = E_OK \/ st r <> s) -> write_authorized c s x)).
  intros s x. apply mutation_requires_write. Qed.
Print Assumptions C29_mutation_requires_write_history.

(** 3. Tokens: a token is created only if the caller holds every permission being granted
    (the property's clause, literally). *)
Theorem C29_token_requires_every_granted_permission :
  forall c s v new sysids q, r_kind new = KAuth ->
    (cls (step c s (CCreate v new sysids)) = E_OK \/ st (step c s (CCreate v new sysids)) <> s) ->
    In q (r_perms new) -> holds c q.
Proof. exact token_requires_held. Qed.
Print Assumptions C29_token_requires_every_granted_permission.

(** The SEMANTIC reading of "no escalation" — whatever the new token allows, the caller was
    allowed too —

      forall c s v new sysids q, r_kind new = KAuth ->
        cls (step c s (CCreate v new sysids)) = E_OK ->
        allowed (r_perms new) q = true -> held c q = true

    is REFUTED by the faithful model: a caller with write on the buckets OF ORG 1 may grant
    {write, buckets, id = 106, org = 1}; [matchesV1] of such a permission ignores its org and
    matches bucket 106 of ORG 2.  Confirmed on the real code (findings.d/C29.json). *)
Definition C29_witness_caller : caller :=
  {| c_perms := [mk A_WRITE T_BUCKET None (Some 1); mk A_WRITE T_AUTH None (Some 1);
                 mk A_WRITE T_USER (Some 1) None]%N;
     c_active := true; c_user := 1%N |}.
Definition C29_witness_store : store :=
  mkstore [mkres KUser 1 0 0 false 10 false []; mkres KOrg 1 0 0 false 21 false [];
           mkres KOrg 2 0 0 false 22 false []; mkres KBucket 106 2 0 false 32 false []]%N [].
Definition C29_witness_token : rsrc :=
  mkres KAuth 1003 1 1 false 50 true [mk A_WRITE T_BUCKET (Some 106) (Some 1)]%N.

Theorem C29_token_no_escalation_refuted :
  exists c s v new sysids q, r_kind new = KAuth /\
    cls (step c s (CCreate v new sysids)) = E_OK /\
    allowed (r_perms new) q = true /\ held c q = false.
Proof.
  exists C29_witness_caller, C29_witness_store, 1%N, C29_witness_token, [],
         (mk A_WRITE T_BUCKET (Some 106) (Some 2))%N.
  vm_compute. repeat split.
Qed.
Print Assumptions C29_token_no_escalation_refuted.

(** Strongest true weakening: when no granted permission names BOTH an id and an org, a
    created token allows nothing the caller does not hold. *)
Theorem C29_token_no_escalation_partial :
  forall c s v new sysids, r_kind new = KAuth ->
    (cls (step c s (CCreate v new sysids)) = E_OK \/ st (step c s (CCreate v new sysids)) <> s) ->
    Forall one_scope (r_perms new) ->
    forall q, allowed (r_perms new) q = true -> holds c q.
Proof.
  intros c s v new sysids K H Ho q Hq.
  apply no_escalation_one_scope with (granted := r_perms new); auto.
  apply Forall_forall. intros g Hg. eapply token_requires_held; eauto.
Qed.
Print Assumptions C29_token_no_escalation_partial.

(** 4. A denied call (EUnauthorized / EForbidden) leaves the stored state unchanged … *)
Theorem C29_denied_leaves_state :
  forall c s x, denied (step c s x) -> st (step c s x) = s.
Proof. exact denied_leaves_state. Qed.
Print Assumptions C29_denied_leaves_state.

Theorem C29_denied_leaves_state_history :
  forall c s0 xs, Forall (fun t => denied (snd t) -> st (snd t) = fst (fst t)) (trace c s0 xs).
Proof. intros c s0 xs. apply (trace_forall (fun s x r => denied r -> st r = s)).
  intros s x. apply denied_leaves_state. Qed.
Print Assumptions C29_denied_leaves_state_history.

(** … and a mutating call the caller is not entitled to is answered with an error and
    changes nothing. *)
Theorem C29_unauthorized_mutation_rejected :
  forall c s x, ~ write_authorized c s x -> cls (step c s x) <> E_OK /\ st (step c s x) = s.
Proof. exact unauthorized_mutation_rejected. Qed.
Print Assumptions C29_unauthorized_mutation_rejected.

(** 5. "never modify unauthorized resources", as a frame property: a stored resource the
    caller may not touch ([may_touch]: write on the resource itself, or — for a bucket — write
    on its organization, whose deletion cascades) is still in the store, unchanged, after any
    wrapped call.  [uniq s]: (kind, id) identifies a resource of [s]. *)
Theorem C29_unauthorized_resources_unmodified :
  forall c s x r0, uniq s -> In r0 (s_res s) -> ~ may_touch c r0 ->
    In r0 (s_res (st (step c s x))).
Proof. exact untouchable_resources_survive. Qed.
Print Assumptions C29_unauthorized_resources_unmodified.

(** Full statement for histories:
      forall c s0 xs r0, uniq s0 -> In r0 (s_res s0) -> ~ may_touch c r0 ->
        In r0 (s_res (snd (run c s0 xs)))
    Proved with the hypothesis that (kind, id) stays a key of every intermediate store; that is
    preserved by every find/update/delete ([C29_keys_preserved_by_non_create]); for creates it
    needs the freshness of the ids the services generate (generateSafeID), which are inputs of
    the model. *)
Theorem C29_unauthorized_resources_unmodified_history_partial :
  forall c xs s0 r0, Forall (fun t => uniq (fst (fst t))) (trace c s0 xs) ->
    In r0 (s_res s0) -> ~ may_touch c r0 -> In r0 (s_res (snd (run c s0 xs))).
Proof. exact untouchable_resources_survive_history. Qed.
Print Assumptions C29_unauthorized_resources_unmodified_history_partial.

Theorem C29_keys_preserved_by_non_create :
  forall c s x, (match x with CCreate _ _ _ => False | _ => True end) -> uniq s -> uniq (st (step c s x)).
Proof. exact update_delete_keep_keys. Qed.
Print Assumptions C29_keys_preserved_by_non_create.

(** Corollaries. *)
Theorem C29_inactive_caller_gets_nothing :
  forall c s x, c_active c = false -> ids (step c s x) = [] /\ st (step c s x) = s.
Proof. exact inactive_caller_gets_nothing. Qed.
Print Assumptions C29_inactive_caller_gets_nothing.

(** The find filters do not over-filter either: a candidate the caller may read is returned. *)
Theorem C29_find_many_complete :
  forall c s k f l, (k = KOrg -> f <> FNone) -> findn c s k f = done l s ->
    forall rs r, candidates s k f = inl rs -> In r rs ->
      authorize_all c (read_reqs r) = AzOk -> In (r_id r) l.
Proof. exact findn_complete. Qed.
Print Assumptions C29_find_many_complete.

(** Non-vacuity: an org-1-scoped caller lists exactly the bucket of org 1, is refused the
    update of the bucket of org 2 (store unchanged), and updates its own. *)
Example C29_nonvacuous :
  let c := {| c_perms := [mk A_READ T_BUCKET None (Some 1); mk A_WRITE T_BUCKET None (Some 1)]%N;
              c_active := true; c_user := 1%N |} in
  let s := mkstore [mkres KOrg 1 0 0 false 21 false []; mkres KOrg 2 0 0 false 22 false [];
                    mkres KBucket 105 1 0 false 31 false []; mkres KBucket 106 2 0 false 32 false []]%N [] in
  ids (step c s (CFindN KBucket FNone)) = [105%N] /\
  cls (step c s (CUpdate KBucket 0 106 9 true)) = E_UNAUTH /\
  st (step c s (CUpdate KBucket 0 106 9 true)) = s /\
  cls (step c s (CUpdate KBucket 0 105 9 true)) = E_OK /\
  st (step c s (CUpdate KBucket 0 105 9 true)) <> s.
Proof. vm_compute. repeat split. discriminate. Qed.
