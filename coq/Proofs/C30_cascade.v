(** C30 — the organization-delete cascade, the user-delete cascade and the immutability
    of system buckets. *)
From Verif Require Import Base.Prelude Model.C30 Proofs.C30_al Proofs.C30_inv Proofs.C30_step Proofs.C30_wf.

(** ---- mappings through the bucket loop ---- *)

Lemma delete_bucket_urms st i int s' e : Inv st ->
  delete_bucket st i int = (s', e) ->
  (forall k v, getP k (s_urms s') = Some v -> getP k (s_urms st) = Some v) /\
  (e = E_OK -> forall k, fst k = i -> getP k (s_urms s') = None).
Proof.
  intro HI. unfold delete_bucket.
  pose proof (inv_delete_bucket_tx st i int HI) as H1.
  assert (Hu : s_urms (fst (delete_bucket_tx st i int)) = s_urms st).
  { unfold delete_bucket_tx. destruct (getN i (s_bkts st)); [|reflexivity].
    destruct (b_sys b && negb int); reflexivity. }
  destruct (delete_bucket_tx st i int) as [s1 e1]. cbn [fst] in *.
  destruct (N.eqb e1 E_OK) eqn:Ee.
  - intro H; injection H as <- <-. split.
    + intros k v. rewrite (remove_relations_urms _ _ _ H1). destruct (N.eqb (fst k) i); [discriminate|].
      rewrite Hu. auto.
    + intros _ k Ek. rewrite (remove_relations_urms _ _ _ H1), Ek, N.eqb_refl. reflexivity.
  - intro H; injection H as <- <-. split.
    + intros k v. rewrite Hu. auto.
    + intros ->. rewrite N.eqb_refl in Ee. discriminate.
Qed.

Lemma delete_buckets_urms l : forall st s' e, Inv st ->
  delete_buckets l st = (s', e) ->
  (forall k v, getP k (s_urms s') = Some v -> getP k (s_urms st) = Some v) /\
  (e = E_OK -> forall k, In (fst k) l -> getP k (s_urms s') = None).
Proof.
  induction l as [|i l IH]; intros st s' e HI; cbn.
  - intro H; injection H as <- <-. split; [auto | intros _ k []].
  - pose proof (inv_delete_bucket st i true HI) as H1.
    destruct (delete_bucket st i true) as [s1 e1] eqn:E1. cbn [fst] in H1.
    destruct (delete_bucket_urms _ _ _ _ _ HI E1) as [A1 C1].
    destruct (N.eqb e1 E_OK) eqn:Ee.
    + intro H. destruct (IH _ _ _ H1 H) as [A2 C2]. apply N.eqb_eq in Ee. split.
      * intros k v Hk. apply A1, A2, Hk.
      * intros He k [Hk | Hk]; [|apply C2; auto].
        destruct (getP k (s_urms s')) eqn:G; [|reflexivity].
        apply A2 in G. rewrite (C1 Ee k (eq_sym Hk)) in G. discriminate.
    + intro H; injection H as <- <-. split; [exact A1|].
      intros ->. rewrite N.eqb_refl in Ee. discriminate.
Qed.

(** ---- the organization delete cascade ---- *)

Lemma delete_org_cascade fx st id st' : Inv st ->
  delete_org fx st id = (st', E_OK) ->
  getN id (s_orgs st') = None /\
  (forall j b, getN j (s_bkts st') = Some b -> b_org b <> id) /\
  (forall k j, getP k (s_bidx st') = Some j -> fst k <> id) /\
  (forall k v, getP k (s_urms st') = Some v ->
     fst k <> id /\ forall b, getN (fst k) (s_bkts st) = Some b -> b_org b <> id) /\
  (forall k pk, getP k (s_uix st') = Some pk ->
     snd k <> id /\ forall b, getN (snd k) (s_bkts st) = Some b -> b_org b <> id).
Proof.
  intros HI Hd.
  assert (HI' : Inv st') by (replace st' with (fst (delete_org fx st id)) by (rewrite Hd; reflexivity);
                            apply inv_delete_org; exact HI).
  revert Hd. unfold delete_org. fold (org_bucket_ids st id).
  destruct (negb (forallb _ (org_bucket_ids st id))); [discriminate|].
  pose proof (inv_delete_buckets (org_bucket_ids st id) st HI) as H1.
  destruct (delete_buckets (org_bucket_ids st id) st) as [s1 e1] eqn:E1. cbn [fst] in H1.
  destruct (delete_buckets_rel _ _ _ _ E1) as (A & _ & C & _).
  destruct (delete_buckets_urms _ _ _ _ HI E1) as (UA & UC).
  destruct (N.eqb e1 E_OK) eqn:Ee; cbn [negb]; [|intro H; injection H as <- ->; discriminate].
  apply N.eqb_eq in Ee.
  unfold delete_org_tx.
  destruct (getN id (s_orgs s1)) as [n|] eqn:En; cbn [fst snd N.eqb E_OK negb]; [|discriminate].
  match goal with |- (remove_relations ?S _, _) = _ -> _ => set (s2 := S) end.
  intro H; injection H as <-.
  assert (H2 : Inv s2).
  { assert (Hno : forall j b, getN j (s_bkts s1) = Some b -> b_org b <> id).
    { intros j b Hj Eb. pose proof (A _ _ Hj) as Hj0.
      pose proof (org_bucket_ids_complete st id j b HI Hj0 Eb) as Hin.
      rewrite (C Ee j Hin) in Hj. discriminate. }
    inv_destruct H1. subst s2. inv_split; try assumption.
    - apply (InvO_delete _ _ _ id n); [exact HO | exact En |]. destruct fx; [right | left]; reflexivity.
    - apply InvB_delorg; assumption. }
  destruct (frameM_proj _ _ (frameM_remove_relations s2 id)) as (F1 & F2 & F3 & F4 & _).
  assert (Hno : forall j b, getN j (s_bkts (remove_relations s2 id)) = Some b -> b_org b <> id).
  { intros j b. rewrite F3. subst s2; cbn [s_bkts]. intros Hj Eb. pose proof (A _ _ Hj) as Hj0.
    pose proof (org_bucket_ids_complete st id j b HI Hj0 Eb) as Hin.
    rewrite (C Ee j Hin) in Hj. discriminate. }
  assert (Hurm : forall k v, getP k (s_urms (remove_relations s2 id)) = Some v ->
     fst k <> id /\ forall b, getN (fst k) (s_bkts st) = Some b -> b_org b <> id).
  { intros k v. rewrite (remove_relations_urms _ _ _ H2). cmpN (fst k) id; [discriminate|].
    subst s2; cbn [s_urms]. intro Hk. split; [exact E|].
    intros b Hb Eb. pose proof (org_bucket_ids_complete st id _ b HI Hb Eb) as Hin.
    rewrite (UC Ee k Hin) in Hk. discriminate. }
  split; [|split; [|split; [|split]]].
  - rewrite F1. subst s2; cbn [s_orgs]. rewrite getN_del, N.eqb_refl. reflexivity.
  - exact Hno.
  - intros k j Hk. destruct HI' as (_ & (Hs & _) & _). destruct (Hs _ _ Hk) as (b & Hb & Ek).
    subst k. cbn [fst]. eapply Hno; exact Hb.
  - exact Hurm.
  - intros k pk Hk. destruct HI' as (_ & _ & _ & (Hs & _)). destruct (Hs _ _ Hk) as (_ & Hh).
    apply (has_true nn_eqb) in Hh as [v Hv]. apply Hurm in Hv. exact Hv.
Qed.

(** ---- the user delete cascade ---- *)

Lemma delete_user_cascade st id st' : Inv st ->
  delete_user st id = (st', E_OK) ->
  getN id (s_users st') = None /\ hasN id (s_pwds st') = false /\
  (forall k v, getP k (s_urms st') = Some v -> snd k <> id) /\
  (forall k pk, getP k (s_uix st') = Some pk -> fst k <> id).
Proof.
  intros HI Hd.
  assert (HI' : Inv st') by (replace st' with (fst (delete_user st id)) by (rewrite Hd; reflexivity);
                            apply inv_delete_user; exact HI).
  destruct (getN id (s_users st)) as [n|] eqn:En.
  2:{ unfold delete_user in Hd. rewrite En in Hd. discriminate. }
  rewrite (delete_user_eq _ _ _ En) in Hd. injection Hd as <-.
  assert (Hno : forall k v, getP k (s_urms (del_loop (user_pks st id) st)) = Some v -> snd k <> id).
  { intros k v Hk E. rewrite del_loop_urms in Hk.
    destruct (existsb (nn_eqb k) (user_pks st id)) eqn:Ex; [discriminate|].
    pose proof (user_pks_complete st id k v HI Hk E) as Hin. apply existsb_nn in Hin. congruence. }
  unfold setU in *; cbn [s_users s_pwds s_urms s_uix] in *. split; [|split; [|split]].
  - rewrite getN_del, N.eqb_refl. reflexivity.
  - rewrite hasN_del, N.eqb_refl. reflexivity.
  - exact Hno.
  - intros k pk Hk. destruct HI' as (_ & _ & _ & (Hs & _)). cbn [s_uix s_urms] in Hs.
    destruct (Hs _ _ Hk) as (_ & Hh). apply (has_true nn_eqb) in Hh as [v Hv].
    apply Hno in Hv. exact Hv.
Qed.

(** ---- system buckets ---- *)

Definition bframe (st : state) := s_bkts st.

Lemma bkts_remove_relations st r : s_bkts (remove_relations st r) = s_bkts st.
Proof. destruct (frameM_proj _ _ (frameM_remove_relations st r)) as (_ & _ & F & _). exact F. Qed.

Lemma bkts_create_bucket st o n s bid b : Inv st ->
  getN bid (s_bkts st) = Some b -> getN bid (s_bkts (fst (create_bucket st o n s))) = Some b.
Proof.
  intros (_ & (_ & Hc) & _) Hb. unfold create_bucket.
  destruct (negb _); [exact Hb|]. destruct (negb _); [exact Hb|]. destruct (hasP _ _); [exact Hb|].
  cbn [fst s_bkts]. rewrite getN_put. cmpN bid (s_next st); [|exact Hb].
  destruct (Hc _ _ Hb) as (_ & _ & Hlt). lia.
Qed.

Lemma sys_step fx st o bid b : Inv st -> WF st ->
  getN bid (s_bkts st) = Some b -> b_sys b = true -> is_delete_org_of o (b_org b) = false ->
  getN bid (s_bkts (step fx st o)) = Some b.
Proof.
  intros HI HW Hb Hsys Hop. unfold step. destruct o; cbn [step_e].
  - (* CreateOrg *)
    unfold create_org.
    destruct (N.eqb (fst name) 0); [exact Hb|].
    destruct (has nn_eqb (trim name) (s_oidx st)) eqn:Ei; [exact Hb|].
    match goal with |- context [create_bucket ?s _ 0 true] => set (s1 := s) end.
    assert (H1 : Inv s1).
    { inv_destruct HI. subst s1. inv_split.
      - apply InvO_create; assumption.
      - eapply InvB_weaken; [exact HB | | lia]. intros o Ho. apply has_put_mono; exact Ho.
      - eapply InvU_mono; [exact HU | lia].
      - exact HM. }
    assert (Hb1 : getN bid (s_bkts s1) = Some b) by exact Hb.
    pose proof (inv_create_bucket s1 (s_next st) 0 true H1) as H2.
    pose proof (bkts_create_bucket s1 (s_next st) 0 true bid b H1 Hb1) as Hb2.
    destruct (create_bucket s1 (s_next st) 0 true) as [s2 e2]. cbn [fst] in *.
    destruct (negb (N.eqb e2 E_OK)); [exact Hb2|].
    pose proof (bkts_create_bucket s2 (s_next st) 1 true bid b H2 Hb2) as Hb3.
    destruct (create_bucket s2 (s_next st) 1 true) as [s3 e3]. cbn [fst] in *.
    destruct (negb (N.eqb e3 E_OK)); [exact Hb3|].
    destruct owner as [u|]; [|exact Hb3].
    unfold create_urm. destruct (getN u (s_users s3)); [destruct (hasP (s_next st, u) (s_urms s3))|]; exact Hb3.
  - (* UpdateOrg *)
    unfold update_org. destruct (getN id (s_orgs st)); [|exact Hb]. destruct name; [|exact Hb].
    destruct (nn_eqb _ _); [exact Hb|]. destruct (N.eqb _ _); [exact Hb|].
    destruct (hasP _ _); exact Hb.
  - (* DeleteOrg of another organization *)
    cbn in Hop. apply N.eqb_neq in Hop.
    unfold delete_org. fold (org_bucket_ids st id).
    destruct (negb (forallb _ (org_bucket_ids st id))); [exact Hb|].
    destruct (delete_buckets (org_bucket_ids st id) st) as [s1 e1] eqn:E1.
    destruct (delete_buckets_rel _ _ _ _ E1) as (_ & B & _ & _).
    assert (Hb1 : getN bid (s_bkts s1) = Some b).
    { rewrite B; [exact Hb|]. intro Hin.
      destruct (org_bucket_ids_sound st id bid HI HW Hin) as (b' & Hb' & Eo).
      rewrite Hb in Hb'. inversion Hb'; subst. apply Hop. reflexivity. }
    destruct (negb (N.eqb e1 E_OK)); [exact Hb1|].
    unfold delete_org_tx. destruct (getN id (s_orgs s1)); cbn [fst snd N.eqb E_OK negb]; [|exact Hb1].
    rewrite bkts_remove_relations. exact Hb1.
  - apply bkts_create_bucket; assumption.
  - (* UpdateBucket *)
    unfold update_bucket. destruct (getN id (s_bkts st)) as [b0|] eqn:E0; [|exact Hb].
    destruct name as [n|]; [|exact Hb].
    destruct (N.eqb (b_name b0) n); [exact Hb|].
    destruct (b_sys b0) eqn:Es; [exact Hb|].
    destruct (negb _); [exact Hb|]. destruct (hasP _ _); [exact Hb|].
    cbn [fst s_bkts]. rewrite getN_put. cmpN bid id; [|exact Hb]. congruence.
  - (* DeleteBucket through the API *)
    unfold delete_bucket, delete_bucket_tx.
    destruct (getN id (s_bkts st)) as [b0|] eqn:E0; [|exact Hb].
    destruct (b_sys b0 && negb false) eqn:Es; [exact Hb|].
    cbn [N.eqb E_OK fst]. rewrite bkts_remove_relations. cbn [s_bkts].
    rewrite getN_del. cmpN bid id; [|exact Hb].
    rewrite Hb in E0. inversion E0; subst. rewrite Hsys in Es. discriminate.
  - unfold create_user. destruct (hasN _ _); exact Hb.
  - unfold update_user. destruct (getN id (s_users st)); [|exact Hb]. destruct name; [|exact Hb].
    destruct (N.eqb _ _); [exact Hb|]. destruct (hasN _ _); exact Hb.
  - destruct (getN id (s_users st)) as [n|] eqn:En.
    + rewrite (delete_user_eq _ _ _ En). cbn [fst setU s_bkts].
      destruct (frameM_proj _ _ (frameM_del_loop (user_pks st id) st)) as (_ & _ & F & _).
      rewrite F. exact Hb.
    + unfold delete_user. rewrite En. exact Hb.
  - unfold set_password. destruct (hasN _ _); exact Hb.
  - unfold create_urm. destruct (getN user (s_users st)); [destruct (hasP (res, user) (s_urms st))|]; exact Hb.
  - unfold delete_urm_svc. destruct (hasP _ _); exact Hb.
Qed.

(** along any continuation that does not delete its organization *)
Lemma sys_persist fx ops2 : forall st bid b, Inv st -> WF st ->
  getN bid (s_bkts st) = Some b -> b_sys b = true ->
  forallb (fun o => negb (is_delete_org_of o (b_org b))) ops2 = true ->
  getN bid (s_bkts (fold_left (step fx) ops2 st)) = Some b.
Proof.
  induction ops2 as [|o ops IH]; intros st bid b HI HW Hb Hs Hops; cbn; [exact Hb|].
  cbn in Hops. apply andb_true_iff in Hops as [Ho Hops]. apply negb_true_iff in Ho.
  apply IH; auto using step_inv, step_wf. apply sys_step; assumption.
Qed.

(** the API refuses to delete or rename a system bucket *)
Lemma sys_refused fx st bid b : getN bid (s_bkts st) = Some b -> b_sys b = true ->
  step_e fx st (DeleteBucket bid) = (st, E_INVALID) /\
  forall n, n <> b_name b -> step_e fx st (UpdateBucket bid (Some n)) = (st, E_INVALID).
Proof.
  intros Hb Hs. split.
  - cbn. unfold delete_bucket, delete_bucket_tx. rewrite Hb, Hs. reflexivity.
  - intros n Hn. cbn. unfold update_bucket. rewrite Hb, Hs.
    destruct (N.eqb (b_name b) n) eqn:E; [apply N.eqb_eq in E; congruence | reflexivity].
Qed.
