(** C26 — proofs about the byte-level segment model (Model/C26.v). *)
From Verif Require Import Base.Prelude Model.C26.
From Coq Require Import ZifyBool ZifyNat.
Open Scope Z_scope.

(** * lengths, take/drop *)
Lemma len_app {A} (a b : list A) : len (a ++ b) = len a + len b.
Proof. unfold len. rewrite app_length. lia. Qed.
Lemma len_nonneg {A} (a : list A) : 0 <= len a.
Proof. unfold len. lia. Qed.
Lemma len_nil {A} : len (@nil A) = 0.
Proof. reflexivity. Qed.
Lemma len_pos {A} (a : list A) : a <> [] -> 0 < len a.
Proof. destruct a; [congruence|]. unfold len; simpl; lia. Qed.
Lemma len_encn n z : len (encn n z) = Z.of_nat n.
Proof.
  revert z; induction n as [|n IH]; intro z; [reflexivity|].
  cbn [encn]. rewrite len_app, IH. unfold len; simpl; lia.
Qed.
Lemma len_enc8 z : len (enc8 z) = 8.
Proof. unfold enc8. rewrite len_encn. reflexivity. Qed.
Lemma enc8_nonnil z : enc8 z <> [].
Proof. intro H. pose proof (len_enc8 z) as L. rewrite H in L. discriminate. Qed.

Lemma take_app_exact {A} (a b : list A) n : n = len a -> take n (a ++ b) = a.
Proof.
  intros ->. unfold take, len. rewrite Nat2Z.id, firstn_app, Nat.sub_diag, firstn_all.
  simpl. apply app_nil_r.
Qed.
Lemma drop_app_exact {A} (a b : list A) n : n = len a -> drop n (a ++ b) = b.
Proof.
  intros ->. unfold drop, len. rewrite Nat2Z.id, skipn_app, Nat.sub_diag, skipn_all. reflexivity.
Qed.
Lemma take_all {A} (a : list A) n : len a <= n -> take n a = a.
Proof. intro H. unfold take. apply firstn_all2. unfold len in H. lia. Qed.
Lemma len_take {A} (a : list A) n : 0 <= n <= len a -> len (take n a) = n.
Proof. intro H. unfold take, len in *. rewrite firstn_length. lia. Qed.
Lemma len_drop {A} (a : list A) n : 0 <= n <= len a -> len (drop n a) = len a - n.
Proof. intro H. unfold drop, len in *. rewrite skipn_length. lia. Qed.
Lemma take_app_more {A} (a b : list A) n : len a <= n -> take n (a ++ b) = a ++ take (n - len a) b.
Proof.
  intro H. unfold take, len in *. rewrite firstn_app.
  rewrite firstn_all2 by lia. f_equal. f_equal. lia.
Qed.
Lemma take_app_less {A} (a b : list A) n : n <= len a -> take n (a ++ b) = take n a.
Proof.
  intro H. unfold take, len in *. rewrite firstn_app.
  replace (Z.to_nat n - length a)%nat with 0%nat by lia. simpl. apply app_nil_r.
Qed.
Lemma drop_app_more {A} (a b : list A) n : len a <= n -> drop n (a ++ b) = drop (n - len a) b.
Proof.
  intro H. unfold drop, len in *. rewrite skipn_app.
  rewrite skipn_all2 by lia. simpl. f_equal. lia.
Qed.

(** * reads *)
Lemma read_at_mid d pre x post off n :
  d = pre ++ x ++ post -> off = len pre -> n = len x -> x <> [] -> read_at d off n = RdOk x.
Proof.
  intros -> -> -> Hx. unfold read_at.
  pose proof (len_nonneg pre). pose proof (len_pos x Hx). pose proof (len_nonneg post).
  rewrite !len_app.
  destruct (len pre <? 0) eqn:E1; [lia|].
  destruct (len x <=? 0) eqn:E2; [lia|].
  destruct (len pre >=? len pre + (len x + len post)) eqn:E3; [lia|].
  destruct (len pre + len x >? len pre + (len x + len post)) eqn:E4; [lia|].
  rewrite (drop_app_exact pre) by reflexivity. rewrite take_app_exact by reflexivity. reflexivity.
Qed.

(** * big-endian round trip *)
Lemma decn_app l b : decn (l ++ [b]) = decn l * 256 + b.
Proof. unfold decn. rewrite fold_left_app. reflexivity. Qed.
Lemma dec_encn n : forall z, 0 <= z -> decn (encn n z) = z mod 256 ^ Z.of_nat n.
Proof.
  induction n as [|n IH]; intros z Hz.
  - simpl. rewrite Z.mod_1_r. reflexivity.
  - cbn [encn]. rewrite decn_app, IH by (apply Z.div_pos; lia).
    rewrite Nat2Z.inj_succ, Z.pow_succ_r by lia.
    assert (0 < 256 ^ Z.of_nat n) by (apply Z.pow_pos_nonneg; lia).
    rewrite (Z.rem_mul_r z 256 (256 ^ Z.of_nat n)) by lia. lia.
Qed.
Lemma dec_enc8 z : 0 <= z < two64 -> decn (enc8 z) = z.
Proof.
  intros H. unfold enc8. rewrite dec_encn by lia.
  change (256 ^ Z.of_nat 8) with two64. apply Z.mod_small. exact H.
Qed.
Lemma to_i64_small z : 0 <= z < two63 -> to_i64 z = z.
Proof. intro H. unfold to_i64. destruct (z <? two63) eqn:E; lia. Qed.
Lemma two63_lt_two64 : two63 < two64.
Proof. reflexivity. Qed.

(** * records *)
Definition rec (e : list Z) : list Z := enc8 (len e) ++ e.
Definition recs (l : list (list Z)) : list Z := concat (map rec l).
Lemma recs_cons e l : recs (e :: l) = enc8 (len e) ++ e ++ recs l.
Proof. unfold recs. cbn [map concat]. unfold rec. rewrite <- app_assoc. reflexivity. Qed.
Lemma recs_app a b : recs (a ++ b) = recs a ++ recs b.
Proof. unfold recs. rewrite map_app, concat_app. reflexivity. Qed.
Lemma len_recs_cons e l : len (recs (e :: l)) = 8 + len e + len (recs l).
Proof. rewrite recs_cons, !len_app, len_enc8. lia. Qed.
Lemma length_le_recs l : (length l <= length (recs l))%nat.
Proof.
  induction l as [|e l IH]; [simpl; lia|].
  pose proof (len_recs_cons e l) as H. pose proof (len_nonneg e). unfold len in *. simpl length at 1. lia.
Qed.

(** An acceptable entry: non-empty, within the segment's record-size limit [m]. *)
Definition okE (m : Z) (e : list Z) : Prop := 0 < len e /\ len e <= m /\ len e < two63.
Lemma okE_nonnil m e : okE m e -> e <> [].
Proof. intros [H _] E. subst e. unfold len in H. simpl in H. lia. Qed.

(** * scanner *)
Lemma scan_next_hit m pre e post p fuel :
  okE m e -> 8 <= len post ->
  scan_next (S fuel) {| sd := pre ++ rec e ++ post; spos := p; smax := m |} (len pre)
  = (Some e, len pre + 8 + len e, SMore).
Proof.
  intros [He1 [He2 He3]] Hp. cbn [scan_next]. unfold ssize. cbn [sd smax].
  unfold rec. rewrite !len_app, len_enc8.
  destruct (len pre =? len pre + (8 + len e + len post) - 8) eqn:E0; [lia|].
  rewrite (read_at_mid _ pre (enc8 (len e)) (e ++ post) (len pre) 8);
    [| rewrite <- !app_assoc; reflexivity | reflexivity | rewrite len_enc8; reflexivity | apply enc8_nonnil].
  rewrite dec_enc8 by (pose proof two63_lt_two64; lia).
  rewrite to_i64_small by lia.
  destruct (len e =? 0) eqn:E1; [lia|].
  destruct (len e >? m) eqn:E2; [lia|].
  rewrite (read_at_mid _ (pre ++ enc8 (len e)) e post (len pre + 8) (len e));
    [reflexivity | rewrite <- !app_assoc; reflexivity | rewrite len_app, len_enc8; reflexivity
     | reflexivity | apply (okE_nonnil m); repeat split; assumption ].
Qed.

Lemma scan_n_spec m : forall k l pre post p, Forall (okE m) l -> len post = 8 ->
  scan_n k {| sd := pre ++ recs l ++ post; spos := p; smax := m |} (len pre)
  = (firstn k l, len pre + len (recs (firstn k l)), if (k <=? length l)%nat then SMore else SEof).
Proof.
  induction k as [|k IH]; intros l pre post p Hl Hpost.
  - cbn [scan_n firstn recs map concat]. rewrite (@len_nil Z), Z.add_0_r. reflexivity.
  - destruct l as [|e r].
    + cbn [scan_n scan_next recs map concat app firstn]. unfold ssize. cbn [sd].
      rewrite len_app, Hpost.
      destruct (len pre =? len pre + 8 - 8) eqn:E; [|lia].
      rewrite (@len_nil Z), Z.add_0_r. reflexivity.
    + inversion Hl as [|? ? He Hr]; subst.
      cbn [scan_n]. rewrite recs_cons.
      replace (pre ++ (enc8 (len e) ++ e ++ recs r) ++ post) with (pre ++ rec e ++ (recs r ++ post))
        by (unfold rec; rewrite <- !app_assoc; reflexivity).
      rewrite scan_next_hit; [| exact He | rewrite len_app, Hpost; pose proof (len_nonneg (recs r)); lia].
      replace (pre ++ rec e ++ recs r ++ post) with ((pre ++ rec e) ++ recs r ++ post)
        by (rewrite <- !app_assoc; reflexivity).
      replace (len pre + 8 + len e) with (len (pre ++ rec e))
        by (unfold rec; rewrite !len_app, len_enc8; lia).
      rewrite (IH r (pre ++ rec e) post p Hr Hpost).
      cbn [firstn]. rewrite len_recs_cons. unfold rec. rewrite !len_app, len_enc8.
      replace (S k <=? length (e :: r))%nat with (k <=? length r)%nat by reflexivity.
      f_equal. f_equal. lia.
Qed.

(** * open: the trusted path *)
Lemma open_part2_ok again m l1 l2 p :
  Forall (okE m) l2 ->
  open_part2 again 0 (recs l1 ++ recs l2 ++ enc8 p) (len (recs l1))
  = OOk (recs l1 ++ recs l2 ++ enc8 p) (len (recs l1)).
Proof.
  intro Hl. unfold open_part2. rewrite !len_app, len_enc8.
  destruct l2 as [|e r].
  - cbn [recs map concat]. rewrite (@len_nil Z).
    destruct (len (recs l1) >=? len (recs l1) + (0 + 8) - 8) eqn:E; [reflexivity|lia].
  - inversion Hl as [|? ? [He1 [He2 He3]] Hr]; subst.
    rewrite len_recs_cons. pose proof (len_nonneg (recs r)).
    destruct (len (recs l1) >=? len (recs l1) + (8 + len e + len (recs r) + 8) - 8) eqn:E; [lia|].
    rewrite recs_cons.
    rewrite (read_at_mid _ (recs l1) (enc8 (len e)) (e ++ recs r ++ enc8 p) _ 8);
      [| rewrite <- !app_assoc; reflexivity | reflexivity | rewrite len_enc8; reflexivity | apply enc8_nonnil].
    rewrite dec_enc8 by (pose proof two63_lt_two64; lia).
    rewrite to_i64_small by lia.
    match goal with |- context [if ?c then _ else _] => destruct c eqn:E2 end; [lia|].
    rewrite (read_at_mid _ (recs l1 ++ enc8 (len e)) e (recs r ++ enc8 p) _ (len e));
      [reflexivity | rewrite <- !app_assoc; reflexivity | rewrite len_app, len_enc8; reflexivity
       | reflexivity | apply (okE_nonnil m); repeat split; assumption].
Qed.

Lemma last8 body p : 0 <= p < two64 -> decn (drop (len (body ++ enc8 p) - 8) (body ++ enc8 p)) = p.
Proof.
  intro H. rewrite drop_app_exact by (rewrite len_app, len_enc8; lia). apply dec_enc8. exact H.
Qed.

Lemma seg_open_trust f m l1 l2 :
  Forall (okE m) l2 -> len (recs l1) < two63 ->
  seg_open_f (S f) 0 (recs l1 ++ recs l2 ++ enc8 (len (recs l1)))
  = OOk (recs l1 ++ recs l2 ++ enc8 (len (recs l1))) (len (recs l1)).
Proof.
  intros Hl Hb. cbn [seg_open_f].
  pose proof (len_nonneg (recs l1)). pose proof (len_nonneg (recs l2)). pose proof two63_lt_two64.
  rewrite (app_assoc (recs l1)). rewrite last8 by lia.
  rewrite !len_app, len_enc8.
  destruct (len (recs l1) + len (recs l2) + 8 <? 8) eqn:E1; [lia|].
  destruct (len (recs l1) >? len (recs l1) + len (recs l2) + 8 - 8) eqn:E2; [lia|].
  rewrite <- app_assoc. apply (open_part2_ok _ m). exact Hl.
Qed.

(** * append and advanceTo on a well-formed segment *)
Definition rep (l1 l2 : list (list Z)) (m : Z) : seg :=
  {| sd := recs l1 ++ recs l2 ++ enc8 (len (recs l1)); spos := len (recs l1); smax := m |}.

Lemma seg_append_rep l1 l2 m b :
  ssize (rep l1 l2 m) <= m ->
  seg_append (rep l1 l2 m) b = Some (rep l1 (l2 ++ [b]) (if len b >? m then len b else m)).
Proof.
  intro H. unfold seg_append. destruct (ssize (rep l1 l2 m) >? smax (rep l1 l2 m)) eqn:E.
  { cbn [smax rep] in E. lia. }
  unfold rep, ssize. cbn [sd spos smax]. f_equal. f_equal.
  rewrite (app_assoc (recs l1)). rewrite take_app_exact by (rewrite !len_app, len_enc8; lia).
  rewrite recs_app. cbn [recs map concat]. rewrite app_nil_r. unfold rec.
  rewrite <- !app_assoc. reflexivity.
Qed.

Lemma read_at_some d off n : 0 <= off -> 0 < n -> off + n <= len d -> exists bs, read_at d off n = RdOk bs.
Proof.
  intros H1 H2 H3. unfold read_at.
  destruct (off <? 0) eqn:E1; [lia|]. destruct (n <=? 0) eqn:E2; [lia|].
  destruct (off >=? len d) eqn:E3; [lia|]. destruct (off + n >? len d) eqn:E4; [lia|]. eauto.
Qed.

(** advancing the head over the next [j] entries *)
Lemma advance_to_rep l1 mid l2 m :
  advance_to (rep l1 (mid ++ l2) m) (len (recs (l1 ++ mid)))
  = (rep (l1 ++ mid) l2 m, match l2 with [] => AEOF | _ => AOk end).
Proof.
  unfold advance_to, rep, ssize. cbn [sd spos smax].
  pose proof (len_nonneg (recs mid)). pose proof (len_nonneg (recs l2)). pose proof (len_nonneg (recs l1)).
  rewrite !recs_app, !len_app, len_enc8.
  destruct (len (recs l1) + len (recs mid) <? len (recs l1)) eqn:E1; [lia|].
  destruct (len (recs l1) + len (recs mid) >? len (recs l1) + (len (recs mid) + len (recs l2) + 8) - 8) eqn:E2; [lia|].
  assert (Hd : take (len (recs l1) + (len (recs mid) + len (recs l2) + 8) - 8)
                 (recs l1 ++ (recs mid ++ recs l2) ++ enc8 (len (recs l1)))
               = (recs l1 ++ recs mid) ++ recs l2).
  { rewrite (app_assoc (recs l1)). rewrite take_app_exact by (rewrite !len_app; lia).
    rewrite <- !app_assoc. reflexivity. }
  rewrite Hd.
  destruct (read_at_some (((recs l1 ++ recs mid) ++ recs l2) ++ enc8 (len (recs l1) + len (recs mid)))
              (len (recs l1) + len (recs mid)) 8) as [bs Hbs]; [lia|lia|rewrite !len_app, len_enc8; lia|].
  rewrite Hbs. rewrite <- !app_assoc. f_equal.
  destruct l2 as [|e r].
  - cbn [recs map concat]. rewrite (@len_nil Z).
    destruct (len (recs l1) + len (recs mid) =? len (recs l1) + (len (recs mid) + 0 + 8) - 8) eqn:E; [reflexivity|lia].
  - rewrite len_recs_cons. pose proof (len_nonneg e). pose proof (len_nonneg (recs r)).
    destruct (len (recs l1) + len (recs mid) =? len (recs l1) + (len (recs mid) + (8 + len e + len (recs r)) + 8) - 8) eqn:E; [lia|reflexivity].
Qed.

(** * repair *)
Definition terminal (junk : list Z) : Prop :=
  len junk = 8 \/
  (exists n rest, junk = enc8 n ++ rest /\ 0 <= n < two63 /\ n + 16 > len junk /\ len junk > 8).

Lemma repair_walk_spec m junk : terminal junk ->
  forall l pre fuel, Forall (okE m) l -> (length l < fuel)%nat ->
  repair_walk fuel (pre ++ recs l ++ junk) (len pre) = Some (len pre + len (recs l)).
Proof.
  intros Hj. induction l as [|e r IH]; intros pre fuel Hl Hf.
  - cbn [recs map concat app]. rewrite (@len_nil Z), Z.add_0_r.
    destruct fuel as [|f]; [simpl in Hf; lia|]. cbn [repair_walk]. rewrite len_app.
    destruct Hj as [H8 | [n [rest [-> [Hn [Hn2 Hlen]]]]]].
    + rewrite H8. destruct (len pre =? len pre + 8 - 8) eqn:E; [reflexivity|lia].
    + destruct (len pre =? len pre + len (enc8 n ++ rest) - 8) eqn:E; [lia|].
      rewrite (read_at_mid _ pre (enc8 n) rest (len pre) 8);
        [| reflexivity | reflexivity | rewrite len_enc8; reflexivity | apply enc8_nonnil].
      rewrite dec_enc8 by (pose proof two63_lt_two64; lia). rewrite to_i64_small by lia.
      match goal with |- context [if ?c then _ else _] => destruct c eqn:E2 end; [reflexivity|lia].
  - inversion Hl as [|? ? [He1 [He2 He3]] Hr]; subst.
    destruct fuel as [|f]; [simpl in Hf; lia|]. cbn [repair_walk].
    assert (Hj8 : 8 <= len junk).
    { destruct Hj as [H8 | [n [rest [-> [Hn [Hn2 Hlen]]]]]]; lia. }
    rewrite !len_app, len_recs_cons. pose proof (len_nonneg (recs r)).
    destruct (len pre =? len pre + (8 + len e + len (recs r) + len junk) - 8) eqn:E; [lia|].
    rewrite recs_cons.
    rewrite (read_at_mid _ pre (enc8 (len e)) ((e ++ recs r) ++ junk) (len pre) 8);
      [| rewrite <- !app_assoc; reflexivity | reflexivity | rewrite len_enc8; reflexivity | apply enc8_nonnil].
    rewrite dec_enc8 by (pose proof two63_lt_two64; lia). rewrite to_i64_small by lia.
    pose proof (len_nonneg pre).
    match goal with |- context [if ?c then _ else _] => destruct c eqn:E2 end; [lia|].
    replace (pre ++ (enc8 (len e) ++ e ++ recs r) ++ junk) with ((pre ++ rec e) ++ recs r ++ junk)
      by (unfold rec; rewrite <- !app_assoc; reflexivity).
    replace (len pre + 8 + len e) with (len (pre ++ rec e)) by (unfold rec; rewrite !len_app, len_enc8; lia).
    rewrite (IH (pre ++ rec e) f Hr) by (simpl in Hf; lia).
    unfold rec. rewrite !len_app, len_enc8. f_equal. lia.
Qed.

Lemma repair_spec m l junk : terminal junk -> Forall (okE m) l ->
  repair (recs l ++ junk) = Some (recs l ++ enc8 0).
Proof.
  intros Hj Hl. unfold repair.
  pose proof (repair_walk_spec m junk Hj l [] (S (length (recs l ++ junk))) Hl) as H.
  cbn [app] in H. rewrite (@len_nil Z), Z.add_0_l in H.
  rewrite H.
  - rewrite take_app_exact by reflexivity. reflexivity.
  - pose proof (length_le_recs l). rewrite app_length. lia.
Qed.

(** * torn append *)
Lemma torn_junk es p b k :
  0 <= k < len b + 16 -> len b < two63 ->
  exists junk, torn_image (recs es ++ enc8 p) b k = recs es ++ junk /\ terminal junk.
Proof.
  intros Hk Hb. unfold torn_image.
  pose proof (len_nonneg b) as Hb0. pose proof (len_nonneg (recs es)) as Hr0.
  rewrite !len_app, len_enc8.
  replace (len (recs es) + 8 - 8) with (len (recs es)) by lia.
  rewrite take_app_exact by reflexivity. rewrite (drop_app_exact (recs es)) by reflexivity.
  eexists; split; [reflexivity|].
  destruct (k <? 8) eqn:Ek.
  - left. rewrite drop_app_more by lia.
    replace (len (recs es) + k - len (recs es)) with k by lia.
    rewrite len_app, len_take, len_drop; rewrite ?len_enc8, ?len_app, ?len_enc8; lia.
  - rewrite app_nil_r. rewrite take_app_more by (rewrite len_enc8; lia). rewrite len_enc8.
    destruct (Z.eq_dec k 8) as [->|Hne].
    + left. replace (8 - 8) with 0 by lia. unfold take at 1. simpl firstn. rewrite app_nil_r. apply len_enc8.
    + right. exists (len b), (take (k - 8) (b ++ enc8 p)). split; [reflexivity|].
      rewrite len_app, len_enc8, len_take by (rewrite len_app, len_enc8; lia). lia.
Qed.

Lemma torn_append_repaired m f es p b k :
  Forall (okE m) es -> 0 <= k < len b + 16 -> len b < two63 ->
  let img := torn_image (recs es ++ enc8 p) b k in
  decn (drop (len img - 8) img) > len img - 8 ->
  seg_open_f (S f) 0 img = OOk (recs es ++ enc8 0) 0.
Proof.
  intros Hes Hk Hb img Hg. subst img.
  destruct (torn_junk es p b k Hk Hb) as [junk [Himg Hj]].
  rewrite Himg in *. cbn [seg_open_f].
  assert (Hj8 : 8 <= len junk).
  { destruct Hj as [H8 | [n [rest [-> [Hn [Hn2 Hlen]]]]]]; lia. }
  pose proof (len_nonneg (recs es)).
  destruct (len (recs es ++ junk) <? 8) eqn:E1; [rewrite len_app in E1; lia|].
  destruct (decn (drop (len (recs es ++ junk) - 8) (recs es ++ junk)) >? len (recs es ++ junk) - 8) eqn:E2; [|lia].
  rewrite (repair_spec m) by assumption.
  pose proof (open_part2_ok (seg_open_f f 0) m [] es 0 Hes) as H2.
  cbn [recs map concat app] in H2. rewrite (@len_nil Z) in H2. exact H2.
Qed.

(** the complete write (k = len b + 16) is exactly the appended segment *)
Lemma torn_image_full l1 l2 m b :
  torn_image (sd (rep l1 l2 m)) b (len b + 16) = sd (rep l1 (l2 ++ [b]) m).
Proof.
  unfold rep. cbn [sd]. unfold torn_image.
  pose proof (len_nonneg b).
  rewrite (app_assoc (recs l1) (recs l2)). rewrite !len_app, len_enc8.
  replace (len (recs l1) + len (recs l2) + 8 - 8) with (len (recs l1 ++ recs l2)) by (rewrite len_app; lia).
  rewrite take_app_exact by reflexivity. rewrite (drop_app_exact (recs l1 ++ recs l2)) by reflexivity.
  destruct (len b + 16 <? 8) eqn:E; [lia|]. rewrite app_nil_r.
  rewrite take_all by (rewrite !len_app, !len_enc8; lia).
  rewrite recs_app. cbn [recs map concat]. rewrite app_nil_r. unfold rec.
  rewrite <- !app_assoc. reflexivity.
Qed.

(** * Queue.Advance on an empty head (after fix a852c65657) *)
Lemma seg_advance_empty s : spos s >= ssize s - 8 -> seg_advance s = (s, AEOF).
Proof. intro H. unfold seg_advance. destruct (spos s >=? ssize s - 8) eqn:E; [reflexivity|lia]. Qed.

Lemma set_head_self q s r : qsegs q = s :: r -> set_head q s = q.
Proof. intro H. destruct q as [ss t ms mg v]. cbn in *. subst ss. reflexivity. Qed.

(** With a single segment that is not full, an Advance with nothing pending is a no-op
    on the whole queue state (bytes, positions, counters). *)
Lemma q_advance_empty_noop q s :
  qsegs q = [s] -> spos s >= ssize s - 8 -> ssize s < smax s -> q_advance q = q.
Proof.
  intros Hs He Hf. unfold q_advance, qhead. rewrite Hs. cbn [hd].
  rewrite (seg_advance_empty s He). rewrite (set_head_self q s [] Hs).
  unfold trim_head, qhead. rewrite Hs. cbn [hd length Nat.eqb].
  unfold seg_full. destruct (ssize s >=? smax s) eqn:E; [lia|]. cbn.
  destruct q as [ss t ms mg v]. cbn in *. subst ss. reflexivity.
Qed.

(** ... and the next acknowledged Append is stored right after the consumed entries and
    is what the scanner delivers. *)
Lemma advance_empty_then_append q l1 m b :
  qsegs q = [rep l1 [] m] -> ssize (rep l1 [] m) < m ->
  qtotal q + len b <= qmaxsize q -> 0 < len b < two63 ->
  let m' := if len b >? m then len b else m in
  let r := q_append (q_advance q) b in
  snd r = 0 /\ qsegs (fst r) = [rep l1 [b] m'] /\
  scan_n 2 (qhead (fst r)) (spos (qhead (fst r))) = ([b], len (recs l1) + len (recs [b]), SEof).
Proof.
  intros Hs Hf Ht Hb. cbv zeta.
  assert (He : spos (rep l1 [] m) >= ssize (rep l1 [] m) - 8).
  { unfold rep, ssize. cbn [sd spos recs map concat]. rewrite !len_app, len_enc8.
    change (len (@nil Z)) with 0. lia. }
  rewrite (q_advance_empty_noop q _ Hs He Hf).
  unfold q_append. destruct (qtotal q + len b >? qmaxsize q) eqn:E; [lia|].
  rewrite Hs. cbn [last removelast].
  rewrite (seg_append_rep l1 [] m b) by lia. cbn [app fst snd with_segs qsegs].
  split; [reflexivity|]. split; [reflexivity|].
  unfold qhead. cbn [qsegs hd].
  remember (if len b >? m then len b else m) as m' eqn:Hm'.
  assert (Hok : Forall (okE m') [b]).
  { constructor; [|constructor]. unfold okE. subst m'. destruct (len b >? m) eqn:E2; lia. }
  unfold rep. cbn [spos].
  exact (scan_n_spec m' 2 [b] (recs l1) (enc8 (len (recs l1))) (len (recs l1)) Hok (len_enc8 _)).
Qed.
