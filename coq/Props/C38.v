(** C38 — Shard backup and restore preserve data.  Property theorems only.

    Statement: "Backing up a shard and restoring the archive into an empty shard yields the
    same readable points and series; an incremental backup taken since time t contains
    every file changed after t; an export of a time range contains exactly the points in
    that range."

    The model mirrors the code AFTER the repairs of findings restore-drops-tombstones
    (Restore installs the archive's .tombstone members), export-tombstoned-file-fails and
    export-no-block-in-range-fails (Export no longer fails on those shards).

    FULL statement the faithful model still REFUTES (open finding export-block-granularity):
      forall files lo hi, the export holds exactly the source points of [lo,hi]
      — false: whole BLOCKS that overlap the range are kept  [C38_export_exact_refuted].
    Import (asNew) still drops tombstone members (open finding import-drops-tombstones):
    the export theorems below are about tombstone-free files. *)
From Verif Require Import Base.Prelude Model.C01 Proofs.C01 Model.C38 Proofs.C38.

(** ** (1) backup + restore *)

(** Full backup (every .tsm and tombstone file newer than [since]; [fresh_entry] also
    carries the directory/state consistency: a file without a tombstone FILE has no
    tombstone hiding a point) of a quiescent engine, restored into the empty engine:
    every read is the same — deletes included. *)
Theorem C38_restore_full_backup : forall s since mts,
  quiescent s -> length mts = length (files (snapshot_now s)) ->
  Forall (fresh_entry since) (with_mtimes mts (files (snapshot_now s))) ->
  forall k t,
    abs (restore_state (backup_sel since (with_mtimes mts (files (snapshot_now s))))) k t = abs s k t.
Proof. exact restore_full_backup. Qed.
Print Assumptions C38_restore_full_backup.

(** Every history without deletes (writes, snapshots incl. failed ones, compactions), ending
    quiescent: the restored shard reads exactly the last-write-wins content of the history. *)
Theorem C38_restore_full_backup_no_delete : forall h since mts,
  no_delete h -> quiescent (run h init) ->
  length mts = length (files (snapshot_now (run h init))) -> Forall (fun m => (m > since)%Z) mts ->
  forall k t,
    abs (restore_state (backup_sel since
           (with_mtimes (map (fun m => (m, None)) mts) (files (snapshot_now (run h init)))))) k t
    = log_get (spec_log h []) k t.
Proof. exact restore_full_backup_no_delete. Qed.
Print Assumptions C38_restore_full_backup_no_delete.

(** Backup attempted while cache snapshots are disabled (Shard.Free, compactions switched
    off): it is refused exactly when the cache holds points; the retry after re-enabling
    restores to the same reads. *)
Theorem C38_backup_refused_iff_cache_nonempty : forall s,
  quiescent s -> (snd (snapshot_refused s) = true <-> hot s <> []).
Proof. intros s Q. apply (snapshot_refused_flushed s Q). Qed.
Print Assumptions C38_backup_refused_iff_cache_nonempty.

Theorem C38_restore_full_backup_after_refusal : forall s since mts,
  quiescent s ->
  let s' := snapshot_now (fst (snapshot_refused s)) in
  length mts = length (files s') ->
  Forall (fresh_entry since) (with_mtimes mts (files s')) ->
  forall k t, abs (restore_state (backup_sel since (with_mtimes mts (files s')))) k t = abs s k t.
Proof. exact restore_full_backup_after_refusal. Qed.
Print Assumptions C38_restore_full_backup_after_refusal.

(** The former counter-example (write, snapshot, delete, backup, restore) now keeps the
    delete; an incremental archive holding a .tsm without its older tombstone file does not. *)
Example C38_restore_keeps_delete :
  let s := run c38_witness init in
  quiescent s /\ abs s 0%N 5%Z = None /\
  abs (restore_state (backup_sel 0 (with_mtimes [(1%Z, Some 1%Z)] (files (snapshot_now s))))) 0%N 5%Z = None /\
  abs (restore_state (backup_sel 1 (with_mtimes [(2%Z, Some 1%Z)] (files (snapshot_now s))))) 0%N 5%Z = Some 7%Z.
Proof.
  destruct restore_keeps_delete_witness as (Q & A & B).
  split; [exact Q|]. split; [exact A|]. split; [exact B|exact restore_without_tombstone_member_witness].
Qed.

(** ** (2) incremental backup: the archive holds a file (.tsm, resp. its tombstone file)
    exactly when its modification time is after [since] — in particular every file
    changed after t is in the backup since t. *)
Theorem C38_incremental_contains_changed_tsm : forall since fs i,
  In (i, 0%N) (backup_members since fs) <-> exists o, nth_error fs i = Some o /\ (o_mt o > since)%Z.
Proof. exact backup_members_tsm. Qed.
Print Assumptions C38_incremental_contains_changed_tsm.

Theorem C38_incremental_contains_changed_tombstone : forall since fs i,
  In (i, 1%N) (backup_members since fs) <->
  exists o m, nth_error fs i = Some o /\ o_tomb o = Some m /\ (m > since)%Z.
Proof. exact backup_members_tombstone. Qed.
Print Assumptions C38_incremental_contains_changed_tombstone.

(** ** (3) export of a time range (tombstone-free files) *)

(** Nothing in the range is lost (per file, physical points). *)
Theorem C38_export_nothing_lost_partial : forall lo hi f k t v,
  In (k, t, v) (bfile_log f) -> (lo <= t <= hi)%Z ->
  exists m, In m (export_file lo hi f) /\ In (k, t, v) (bfile_log m).
Proof. exact export_file_nothing_lost. Qed.
Print Assumptions C38_export_nothing_lost_partial.

(** Every exported block is a source block that overlaps the range. *)
Theorem C38_export_only_overlapping_blocks_partial : forall lo hi f m b,
  Forall (fun b => snd b <> []) f ->
  In m (export_file lo hi f) -> In b m -> In b f /\ block_keep lo hi b = true.
Proof. exact export_file_only_overlapping. Qed.
Print Assumptions C38_export_only_overlapping_blocks_partial.

(** Exactness when block boundaries align with the range. *)
Theorem C38_export_exact_when_aligned_partial : forall lo hi f,
  Forall (fun b => snd b <> []) f ->
  Forall (fun b => block_keep lo hi b = true -> (lo <= bmin b /\ bmax b <= hi)%Z) f ->
  forall m k t v, In m (export_file lo hi f) -> In (k, t, v) (bfile_log m) -> (lo <= t <= hi)%Z.
Proof. exact export_file_exact_when_aligned. Qed.
Print Assumptions C38_export_exact_when_aligned_partial.

(** Read level: a flushed tombstone-free engine, its files' block layout [bs]; the imported
    export reads like the source everywhere inside the range (Export is total now). *)
Theorem C38_export_import_in_range_partial : forall lo hi s bs,
  hot s = [] -> snap s = [] ->
  Forall2 same_points (files s) bs -> Forall (fun f => ftomb f = []) (files s) ->
  forall k t, (lo <= t <= hi)%Z ->
    abs (import_state (map snd (export lo hi 0 (plain bs)))) k t = abs s k t.
Proof. exact export_import_state. Qed.
Print Assumptions C38_export_import_in_range_partial.

Theorem C38_export_exact_refuted :
  exists fs lo hi k t v,
    abs (import_state (map snd (export lo hi 0 (plain fs)))) k t = Some v /\ ~ (lo <= t <= hi)%Z.
Proof.
  exists [c38_export_witness], 1%Z, 1%Z, 0%N, 0%Z, 10%Z. destruct export_not_exact_witness as [E A].
  rewrite E. split; [exact A|lia].
Qed.
Print Assumptions C38_export_exact_refuted.

(** Repaired shapes: a file overlapping the range with no block in it exports nothing; a
    tombstoned file is exported through its reader's view. *)
Example C38_export_repaired_shapes :
  export 4 5 0 (plain [[(0%N, [(0, 1); (1, 2)]%Z); (2%N, [(10, 3)]%Z)]]) = [] /\
  export 0 5 0 [([(0%N, [(0, 1); (1, 2)]%Z); (2%N, [(3, 3); (10, 4)]%Z)], [(2%N, [(3, 3); (10, 4)]%Z)])]
  = [(0%nat, [(2%N, [(3, 3); (10, 4)]%Z)])].
Proof. split; [exact export_gap_witness|exact export_tombstoned_witness]. Qed.

(** Non-vacuity: a two-file engine with data in the cache meets the hypotheses of the
    restore theorem, and an aligned export of a two-block file is exact. *)
Example C38_nonvacuous :
  let h := [Write [(0%N, 5%Z, 10%Z); (3%N, 3%Z, 30%Z)]; SnapBegin; SnapCommit;
            Write [(0%N, 5%Z, 11%Z)]; SnapBegin; SnapCommit; Write [(2%N, 2%Z, 12%Z)]] in
  let s := run h init in
  no_delete h /\ quiescent s /\ length (files (snapshot_now s)) = 3%nat /\
  abs (restore_state (backup_sel 0 (with_mtimes [(2, None); (4, None); (1000, None)]%Z
                                      (files (snapshot_now s))))) 0%N 5%Z = Some 11%Z /\
  export 3 5 0 (plain [c38_export_witness]) = [(0%nat, [(0%N, [(3, 13); (4, 14); (5, 15)]%Z)])].
Proof.
  cbv zeta. split; [repeat constructor|]. vm_compute. repeat split; reflexivity.
Qed.
