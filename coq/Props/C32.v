(** C32 — The write API stores all of a batch or reports why not.  Property theorems only
    (model: Model/C32.v, proofs: Proofs/C32.v; the line protocol parser is the C11/C12 mirror).

    [handle script q] is the mirror of WriteHandler.handleWrite: [q] holds the outcome of the
    checks made before the body is read, the limit, the DECODED body with the way the reader
    below the LimitedReadCloser behaves at its end ([u_end], [u_eager]) and the answer the
    PointsWriter will give; [script] is an arbitrary list of (buffer room, chunk size) pairs,
    one per Read call of io.ReadAll — i.e. ANY chunking.  [accepted_size q] :=
      limit <= 0  \/  |body| < limit  \/  (|body| = limit /\ the reader signals EOF together
      with its last bytes). *)
From Verif Require Import Base.Prelude Model.C11 Model.C12 Model.C32 Proofs.C12 Proofs.C32.

(** The response does not depend on how the body is chunked or how large ReadAll's buffer is. *)
Theorem C32_chunking_irrelevant : forall s1 s2 q, handle s1 q = handle s2 q.
Proof. exact handle_script_irrelevant. Qed.
Print Assumptions C32_chunking_irrelevant.

(** The size clause, FULL: given the preconditions and a stream that ends with EOF, the answer
    is 413 exactly when the decoded body is larger than the limit — for every chunking, both
    ways of signalling EOF and any number of (0, nil) answers of the reader.  (Before commit
    ea653b404e this was refuted at |body| = limit, see [C32_before_fix_counterexample].) *)
Theorem C32_limit_iff :
  forall script q,
    precheck q = None -> u_end (q_stream q) = EndEOF -> (0 < q_limit q)%Z ->
    (r_status (handle script q) = 413%N <-> (q_limit q < Z.of_nat (length (u_rem (q_stream q))))%Z).
Proof. exact limit_iff. Qed.
Print Assumptions C32_limit_iff.

(** ... and at the level of the reader: after io.ReadAll, Close reports the limit iff the
    decoded body is larger than the limit, whatever error ends the stream. *)
Theorem C32_close_reports_limit_iff_larger :
  forall script limit u, (0 < limit)%Z ->
    (snd (res3 (read_all script (batch_reader limit u) [])) = true
     <-> (limit < Z.of_nat (length (u_rem u)))%Z).
Proof. exact limit_flag_iff. Qed.
Print Assumptions C32_close_reports_limit_iff_larger.

(** The probe propagates the wrapped reader's error: a body of exactly the limit whose gzip
    trailer is corrupt is answered 400 "invalid" (the checksum error now reaches io.ReadAll
    instead of being masked by EOF), a truncated one or a reader that answers (0, nil) a hundred
    times (io.ErrNoProgress) 500; in every case of a stream that does not end cleanly within the
    accepted size: an error status and nothing stored. *)
Theorem C32_bad_stream_rejected_stores_nothing :
  forall script q,
    precheck q = None ->
    (u_end (q_stream q) <> EndEOF \/ ~ progresses q) -> accepted_size q ->
    (u_end (q_stream q) = EndEOF -> (0 < q_limit q)%Z /\ Z.of_nat (length (u_rem (q_stream q))) = q_limit q) ->
    handle script q = resp 400 C_INVALID \/ handle script q = resp 500 C_INTERNAL.
Proof. exact bad_stream_rejected. Qed.
Print Assumptions C32_bad_stream_rejected_stores_nothing.

(** A decoded body larger than the limit: 413, error code "request too large", nothing stored —
    whatever its content (malformed lines included), whatever the writer would answer. *)
Theorem C32_too_large_rejected_stores_nothing :
  forall script q,
    precheck q = None -> (0 < q_limit q)%Z ->
    (q_limit q < Z.of_nat (length (u_rem (q_stream q))))%Z ->
    handle script q = resp 413 C_TOO_LARGE /\ r_calls (handle script q) = [].
Proof. intros s q H1 H2 H3. rewrite (too_large_rejected s q H1 H2 H3). split; reflexivity. Qed.
Print Assumptions C32_too_large_rejected_stores_nothing.

(** A body of accepted size with at least one malformed line: 400 "invalid", the writer is never
    called, and the message names exactly the candidate lines (non-blank, non-comment) on which
    parsePoint fails, in order. *)
Theorem C32_malformed_stores_nothing :
  forall script q,
    precheck q = None -> u_end (q_stream q) = EndEOF -> accepted_size q -> progresses q ->
    (exists t, In t (candidate_lines (u_rem (q_stream q))) /\ is_ok (parse_point (q_prec q) DFLT t) = false) ->
    handle script q = {| r_status := 400; r_code := C_INVALID; r_rejected := bad_lines q;
                         r_dropped := None; r_calls := [] |}.
Proof. exact malformed_stores_nothing. Qed.
Print Assumptions C32_malformed_stores_nothing.

(** 204 is answered only if every precondition held, the stream was clean, the size accepted,
    every candidate line parsed, and the ENGINE (the underlying writer, behind the real
    storage.LoggingPointsWriter if it is installed) — called once with ALL points of the body,
    in order — returned nil; the only other way to 204 is a batch without any point, which the
    wrapper does not pass on. *)
Theorem C32_ok_only_after_all_stored :
  forall script q,
    r_status (handle script q) = 204%N ->
    precheck q = None /\ u_end (q_stream q) = EndEOF /\ accepted_size q /\
    (forall t, In t (candidate_lines (u_rem (q_stream q))) -> is_ok (parse_point (q_prec q) DFLT t) = true) /\
    ((q_writer q = WOk /\ r_calls (handle script q) = [all_points q]) \/
     (wrapped q /\ parsed_points q = [] /\ r_calls (handle script q) = [])).
Proof. exact ok_only_after_all_stored. Qed.
Print Assumptions C32_ok_only_after_all_stored.

(** ... in particular: whatever the LoggingPointsWriter's logging does (log bucket found or not,
    finder failing, log write failing), an engine error or partial write is never turned into 204 *)
Theorem C32_engine_error_never_204 :
  forall script q, parsed_points q <> [] -> q_writer q <> WOk -> r_status (handle script q) <> 204%N.
Proof.
  intros s q Hne Hw H. destruct (ok_only_after_all_stored s q H) as (_ & _ & _ & _ & [[Hx _] | (_ & Hx & _)]); contradiction.
Qed.
Print Assumptions C32_engine_error_never_204.

(** A well-formed request of accepted size is answered by what the LoggingPointsWriter hands
    back ([logging_write]): 204 / 422 carrying the dropped count / 500. *)
Theorem C32_writer_result_decides :
  forall script q,
    precheck q = None -> u_end (q_stream q) = EndEOF -> accepted_size q -> progresses q ->
    (forall t, In t (candidate_lines (u_rem (q_stream q))) -> is_ok (parse_point (q_prec q) DFLT t) = true) ->
    let '(eff, called) := logging_write (q_logger q) (q_writer q) (length (parsed_points q)) in
    let calls := if called then [all_points q] else [] in
    handle script q =
      match eff with
      | EOk => {| r_status := 204; r_code := C_NONE; r_rejected := []; r_dropped := None; r_calls := calls |}
      | EPartial d => {| r_status := 422; r_code := C_UNPROCESSABLE; r_rejected := []; r_dropped := Some d;
                         r_calls := calls |}
      | EOther => {| r_status := 500; r_code := C_INTERNAL; r_rejected := []; r_dropped := None; r_calls := calls |}
      end.
Proof. exact writer_error_reported. Qed.
Print Assumptions C32_writer_result_decides.

(** The last clause, FULL (since the fix of finding logging-writer-loses-dropped-count): with or
    without the LoggingPointsWriter and whatever its logging does (log bucket found or not,
    finder failing, log write failing): 204 iff the engine returned nil; a partial write is
    answered 422 with the dropped count in the message; any other engine error 500.  (Behind
    the wrapper a batch without any point never reaches the engine: 204.) *)
Theorem C32_writer_error_reported :
  forall script q,
    precheck q = None -> u_end (q_stream q) = EndEOF -> accepted_size q -> progresses q ->
    (forall t, In t (candidate_lines (u_rem (q_stream q))) -> is_ok (parse_point (q_prec q) DFLT t) = true) ->
    (q_logger q = LNone \/ parsed_points q <> []) ->
    handle script q =
      match q_writer q with
      | WOk => {| r_status := 204; r_code := C_NONE; r_rejected := []; r_dropped := None; r_calls := [all_points q] |}
      | WPartial d => {| r_status := 422; r_code := C_UNPROCESSABLE; r_rejected := []; r_dropped := Some d;
                         r_calls := [all_points q] |}
      | WErr => {| r_status := 500; r_code := C_INTERNAL; r_rejected := []; r_dropped := None;
                   r_calls := [all_points q] |}
      end.
Proof. exact writer_error_reported_plain. Qed.
Print Assumptions C32_writer_error_reported.

(** Before that fix a failing logging attempt replaced the original error: a partial write
    (dropped = 2) with no log bucket was handed to the handler as a plain error (-> 500 without
    the count); now the PartialWriteError itself comes back (-> 422 dropped=2). *)
Example C32_logging_before_fix_counterexample :
  logging_write_before_fix (LWrap 1 true) (WPartial 2) 3 = (EOther, true) /\
  logging_write (LWrap 1 true) (WPartial 2) 3 = (EPartial 2, true) /\
  r_dropped (handle [] {| q_auth := true; q_prec_valid := true; q_bucket_param := true; q_gzip_header := true;
     q_org_found := true; q_bucket_found := true; q_perm := true; q_prec := P_ns; q_limit := 0;
     q_stream := {| u_rem := [109; 32; 102; 61; 49; 32; 49; 10]%N; u_end := EndEOF; u_eager := false; u_stall := 0 |};
     q_writer := WPartial 2; q_logger := LWrap 1 true |}) = Some 2%N.
Proof. vm_compute. repeat split; reflexivity. Qed.

(** The engine is called at most once with the batch, only for a request that passed every
    check with no malformed line, and then with all points; the answer is 204 iff it returned
    nil — with or without the LoggingPointsWriter. *)
Theorem C32_nothing_stored_unless_all_handed_over :
  forall script q,
    r_calls (handle script q) <> [] ->
    precheck q = None /\ accepted_size q /\ bad_lines q = [] /\ r_calls (handle script q) = [all_points q] /\
    (r_status (handle script q) = 204%N <-> q_writer q = WOk).
Proof. exact no_store_unless_writer_called. Qed.
Print Assumptions C32_nothing_stored_unless_all_handed_over.

(** The code before commit ea653b404e ([lrc_read_before_fix]: the limit was flagged as soon as
    Read was CALLED with N <= 0): a well-formed 8-byte body under limit 8 over a reader that
    reports EOF on a separate call was flagged too large; the committed Read accepts it. *)
Example C32_before_fix_counterexample :
  let u := {| u_rem := [109; 32; 102; 61; 49; 32; 49; 10]%N; u_end := EndEOF; u_eager := false; u_stall := 0 |} in
  snd (res3 (read_all_before_fix [] (batch_reader 8 u) [])) = true /\
  res3 (read_all [] (batch_reader 8 u) []) = (u_rem u, None, false) /\
  r_status (handle [] {| q_auth := true; q_prec_valid := true; q_bucket_param := true; q_gzip_header := true;
     q_org_found := true; q_bucket_found := true; q_perm := true; q_prec := P_ns; q_limit := 8;
     q_stream := u; q_writer := WOk; q_logger := LNone |}) = 204%N.
Proof. vm_compute. repeat split; reflexivity. Qed.

(** Non-vacuity: a three-line body with one malformed line under a generous limit is answered
    400 naming that line; without it the two points reach the writer and a partial write is
    answered 422 dropped=1. *)
Example C32_nonvacuous :
  let mk body w := {| q_auth := true; q_prec_valid := true; q_bucket_param := true; q_gzip_header := true;
     q_org_found := true; q_bucket_found := true; q_perm := true; q_prec := P_ns; q_limit := 100;
     q_stream := {| u_rem := body; u_end := EndEOF; u_eager := false; u_stall := 2 |}; q_writer := w; q_logger := LWrap 0 true |} in
  (* "m f=1 1\nbad\nn f=2 2\n" *)
  handle [(3, 2); (0, 0)]%nat (mk [109;32;102;61;49;32;49;10; 98;97;100;10; 110;32;102;61;50;32;50;10]%N WOk)
    = {| r_status := 400; r_code := C_INVALID; r_rejected := [[98;97;100]%N]; r_dropped := None; r_calls := [] |}
  /\ handle [] (mk [109;32;102;61;49;32;49;10; 110;32;102;61;50;32;50;10]%N (WPartial 1))
    = {| r_status := 422; r_code := C_UNPROCESSABLE; r_rejected := []; r_dropped := Some 1%N;
         r_calls := [[([109]%N, 1%Z); ([110]%N, 2%Z)]] |}.
Proof. vm_compute. split; reflexivity. Qed.
