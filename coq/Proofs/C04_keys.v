(** C04 — part 2: the k-way key merge of [tsmBatchKeyIterator.Next] hands the writer keys in
    non-decreasing order (equal keys contiguous): every output index is sorted by key. *)
From Coq Require Import ZifyBool Sorted.
From Verif Require Import Base.Prelude Model.C37 Model.C04.
Local Open Scope Z_scope.

Section Keys.
  Context {V : Type}.
  Notation file := (file V).
  Notation kgroup := (kgroup V).

  (** keys of an input file strictly increasing (Prop form of [strict_keys]) *)
  Fixpoint skeys (f : file) : Prop :=
    match f with
    | [] => True
    | g :: r => Forall (fun g' => (gkey g < gkey g')%N) r /\ skeys r
    end.

  Lemma strict_keys_from_spec (f : file) : forall prev,
    strict_keys_from prev f = true -> Forall (fun g => (prev < gkey g)%N) f /\ skeys f.
  Proof.
    induction f as [|g r IH]; intros prev; cbn; [auto|].
    rewrite andb_true_iff, N.ltb_lt. intros [H1 H2]. apply IH in H2 as [H2 H3].
    repeat split; auto. constructor; auto. eapply Forall_impl; [|exact H2]. cbn; intros; lia.
  Qed.

  Lemma strict_keys_spec (f : file) : strict_keys f = true -> skeys f.
  Proof.
    destruct f as [|g r]; cbn; [auto|]. intro H. apply strict_keys_from_spec in H. exact H.
  Qed.

  (** [min_key]: the result is a head key and a lower bound of all head keys *)
  Definition mk_step (acc : option N) (f : file) : option N :=
    match f with
    | [] => acc
    | g :: _ => match acc with
                | None => Some (gkey g)
                | Some k => if (gkey g <? k)%N then Some (gkey g) else acc
                end
    end.

  Lemma min_key_fold (fs : list file) : forall acc k,
    fold_left mk_step fs acc = Some k ->
    (forall a, acc = Some a -> (k <= a)%N) /\
    (forall f g f', In f fs -> f = g :: f' -> (k <= gkey g)%N).
  Proof.
    induction fs as [|f r IH]; intros acc k; cbn [fold_left].
    - intros ->. split; [intros a [= ->]; lia|intros ? ? ? []].
    - intro H. apply IH in H as [H1 H2]. split.
      + intros a ->. destruct f as [|g f']; cbn in H1; [apply H1; reflexivity|].
        destruct (gkey g <? a)%N eqn:E; specialize (H1 _ eq_refl); lia.
      + intros f0 g f' [<-|Hin] ->; [|eapply H2; eauto].
        cbn in H1. destruct acc as [a|]; [|apply H1; reflexivity].
        destruct (gkey g <? a)%N eqn:E; specialize (H1 _ eq_refl); lia.
  Qed.

  Lemma min_key_lb (fs : list file) k : min_key fs = Some k ->
    forall f g f', In f fs -> f = g :: f' -> (k <= gkey g)%N.
  Proof. intro H. apply (min_key_fold fs None k H). Qed.

  (** all keys of all files are at least [lo] *)
  Definition keys_ge (lo : N) (fs : list file) : Prop :=
    forall f g, In f fs -> In g f -> (lo <= gkey g)%N.

  Lemma take_key_props k : forall (fs : list file) bs fs',
    take_key k fs = (bs, fs') ->
    Forall skeys fs -> (forall f g f', In f fs -> f = g :: f' -> (k <= gkey g)%N) ->
    Forall skeys fs' /\ keys_ge (N.succ k) fs'.
  Proof.
    induction fs as [|f r IH]; intros bs fs'; cbn [take_key].
    - intros [= <- <-] _ _. split; [constructor|intros ? ? []].
    - destruct (take_key k r) as [bs0 r'] eqn:E. intros H Hs Hlb.
      inversion Hs as [|? ? Hf Hr]; subst.
      destruct (IH _ _ eq_refl Hr) as [IH1 IH2]; [intros; eapply Hlb; [right|]; eauto|].
      assert (Hge : forall f0, skeys f0 -> (forall g f', f0 = g :: f' -> (N.succ k <= gkey g)%N) ->
                               forall g, In g f0 -> (N.succ k <= gkey g)%N).
      { intros f0 Hs0 Hh g Hg. destruct f0 as [|g0 f0']; [destruct Hg|].
        specialize (Hh _ _ eq_refl). destruct Hg as [<-|Hg]; [exact Hh|].
        destruct Hs0 as [Hs0 _]. rewrite Forall_forall in Hs0. specialize (Hs0 _ Hg). lia. }
      destruct f as [|g f'].
      + inversion H; subst. split; [constructor; auto|].
        intros f0 g0 [<-|Hin] Hg; [destruct Hg|eapply IH2; eauto].
      + pose proof (Hlb _ _ _ (or_introl eq_refl) eq_refl) as Hk.
        destruct (N.eqb_spec (gkey g) k) as [Ek|Ek]; inversion H; subst.
        * destruct Hf as [Hf1 Hf2]. split; [constructor; auto|].
          intros f0 g0 [<-|Hin] Hg; [|eapply IH2; eauto].
          rewrite Forall_forall in Hf1. specialize (Hf1 _ Hg). lia.
        * split; [constructor; auto|].
          intros f0 g0 [<-|Hin] Hg; [|eapply IH2; eauto].
          apply (Hge (g :: f') Hf); [|exact Hg]. intros g1 f1 [= <- <-]. lia.
  Qed.

  Lemma take_key_ge lo k : forall (fs : list file) bs fs',
    take_key k fs = (bs, fs') -> keys_ge lo fs -> keys_ge lo fs'.
  Proof.
    induction fs as [|f r IH]; intros bs fs'; cbn [take_key].
    - intros [= <- <-] _. intros ? ? [].
    - destruct (take_key k r) as [bs0 r'] eqn:E. intros H Hge.
      assert (Hr : keys_ge lo r') by (eapply IH; [reflexivity|]; intros f0 g0 Hf0; apply Hge; right; exact Hf0).
      destruct f as [|g f'].
      + inversion H; subst. intros f0 g0 [<-|Hin] Hg; [destruct Hg|eapply Hr; eauto].
      + destruct (gkey g =? k)%N; inversion H; subst.
        * intros f0 g0 [<-|Hin] Hg; [apply (Hge (g :: f')); [left; reflexivity|right; exact Hg]|eapply Hr; eauto].
        * intros f0 g0 [<-|Hin] Hg; [apply (Hge (g :: f')); [left; reflexivity|exact Hg]|eapply Hr; eauto].
  Qed.

  Lemma min_key_is_key (fs : list file) : forall acc k,
    fold_left mk_step fs acc = Some k -> acc = Some k \/ exists f g, In f fs /\ In g f /\ gkey g = k.
  Proof.
    induction fs as [|f r IH]; intros acc k; cbn [fold_left]; [auto|].
    intro H. apply IH in H as [H|[f0 [g0 [H1 [H2 H3]]]]]; [|right; exists f0, g0; cbn; auto].
    destruct f as [|g f']; cbn in H; [auto|].
    destruct acc as [a|].
    - destruct (gkey g <? a)%N; [|auto]. inversion H; subst. right. exists (g :: f'), g. cbn; auto.
    - inversion H; subst. right. exists (g :: f'), g. cbn; auto.
  Qed.

  (** the sequence handed to the writer *)
  Lemma run_files_sorted (size : nat) (fast : bool) : forall kfuel (fs : list file) lo sq,
    Forall skeys fs -> keys_ge lo fs ->
    run_files kfuel size fast fs = Some sq ->
    StronglySorted N.le (map fst sq) /\ Forall (fun e => (lo <= fst e)%N) sq.
  Proof.
    induction kfuel as [|kf IH]; intros fs lo sq Hs Hge; cbn [run_files].
    - destruct (min_key fs); [discriminate|]. intros [= <-]. split; constructor.
    - destruct (min_key fs) as [k|] eqn:Emk; [|intros [= <-]; split; constructor].
      destruct (take_key k fs) as [bs fs'] eqn:Etk.
      destruct (run_key _ size fast _) as [out|]; [|discriminate].
      destruct (run_files kf size fast fs') as [rest|] eqn:Erf; [|discriminate].
      intros [= <-].
      pose proof (min_key_lb fs k Emk) as Hlb.
      destruct (take_key_props k fs bs fs' Etk Hs Hlb) as [Hs' Hge'].
      destruct (IH fs' (N.succ k) rest Hs' Hge' Erf) as [IH1 IH2].
      assert (Hlo : (lo <= k)%N).
      { destruct (min_key_is_key fs None k Emk) as [H|[f [g [H1 [H2 <-]]]]]; [discriminate|]. eapply Hge; eauto. }
      split.
      + rewrite map_app, map_map. cbn [fst].
        induction out as [|b o IHo]; cbn [map app]; [exact IH1|].
        constructor; [exact IHo|]. apply Forall_app. split.
        * apply Forall_forall. intros x Hx. apply in_map_iff in Hx as [? [<- _]]. lia.
        * apply Forall_forall. intros x Hx. apply in_map_iff in Hx as [e [<- He]].
          rewrite Forall_forall in IH2. specialize (IH2 _ He). cbn beta in IH2. lia.
      + apply Forall_app. split.
        * apply Forall_forall. intros x Hx. apply in_map_iff in Hx as [? [<- _]]. cbn. exact Hlo.
        * eapply Forall_impl; [|exact IH2]. cbn. intros; lia.
  Qed.
End Keys.
