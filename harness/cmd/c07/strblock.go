package main

import (
	"bytes"
	"fmt"
	"math"
	"math/rand/v2"
	"strings"

	"github.com/golang/snappy"
	"github.com/influxdata/influxdb/v2/tsdb"
	"github.com/influxdata/influxdb/v2/tsdb/engine/tsm1"
	"verifh/vh"
)

// ---------- strings ----------

// longSpec describes a long string compactly: Len bytes equal to Fill, overwritten at the
// front by Head.  (The string codec is length prefix + bytes, so lengths matter, not contents.)
type longSpec struct {
	Len  int    `json:"len"`
	Fill byte   `json:"fill"`
	Head string `json:"head,omitempty"`
}

func (s longSpec) expand() []byte {
	b := bytes.Repeat([]byte{s.Fill}, s.Len)
	copy(b, s.Head)
	return b
}
func expandAll(l []longSpec) [][]byte {
	o := make([][]byte, len(l))
	for i, s := range l {
		o[i] = s.expand()
	}
	return o
}
func eqStrs(a, b [][]byte) bool {
	if len(a) != len(b) {
		return false
	}
	for i := range a {
		if !bytes.Equal(a[i], b[i]) {
			return false
		}
	}
	return true
}
func lensOf(v [][]byte) []int {
	o := make([]int, len(v))
	for i, s := range v {
		o[i] = len(s)
	}
	return o
}

type strCase struct {
	Vals [][]byte   `json:"vals,omitempty"`         // each string as bytes (JSON: base64)
	Long []longSpec `json:"long_strings,omitempty"` // used instead of Vals for the long-string stream
	// header byte + snappy-DECOMPRESSED payload of each encoder's output
	SP, BP                     []byte                 `json:"-"`
	SPOK, BPOK                 bool                   `json:"-"`
	SB                         []byte                 `json:"impl_scalar_bytes,omitempty"`
	BB                         []byte                 `json:"impl_batch_bytes,omitempty"`
	DSS, DBS, DSB, DBB         [][]byte               `json:"-"`
	DSSOK, DBSOK, DSBOK, DBBOK bool                   `json:"-"`
	Decoded                    map[string]interface{} `json:"impl_decoded,omitempty"`
}

func llist(v [][]byte) string {
	xs := make([]string, len(v))
	for i, s := range v {
		xs[i] = blist(s)
	}
	return "[" + strings.Join(xs, "; ") + "]"
}
func (l *lets) strs(v [][]byte) string { return l.ref("list (list N)", llist(v)) }
func (l *lets) optStrs(v [][]byte, ok bool) string {
	if !ok {
		return "None"
	}
	return "(Some " + l.strs(v) + ")"
}

func toStrings(v [][]byte) []string {
	o := make([]string, len(v))
	for i, s := range v {
		o[i] = string(s)
	}
	return o
}
func fromStrings(v []string) [][]byte {
	o := make([][]byte, len(v))
	for i, s := range v {
		o[i] = []byte(s)
	}
	return o
}

func strScalarDecode(b []byte, limit int) ([][]byte, bool) {
	var d tsm1.StringDecoder
	if err := d.SetBytes(b); err != nil {
		return nil, false
	}
	out := [][]byte{}
	for d.Next() {
		out = append(out, []byte(d.Read()))
		if d.Error() != nil || len(out) > limit {
			break
		}
	}
	return out, d.Error() == nil
}

// header byte + decompressed payload
func payloadOf(w *vh.W, idx int, b []byte, what string) ([]byte, bool) {
	if len(b) == 0 {
		w.Fail(idx, what+": empty encoding", "")
		return nil, false
	}
	p, err := snappy.Decode(nil, b[1:])
	if err != nil {
		w.Fail(idx, what+": output is not valid snappy: "+err.Error(), "")
		return nil, false
	}
	return append([]byte{b[0]}, p...), true
}

func runStr(w *vh.W, c *jcase) {
	s := c.Str
	idx := w.Len()
	long := len(s.Long) > 0
	if long {
		s.Vals = expandAll(s.Long)
	}
	limit := len(s.Vals) + 1000
	p := vh.Guard(func() {
		enc := tsm1.NewStringEncoder(64)
		for _, v := range s.Vals {
			enc.Write(string(v))
		}
		b, err := enc.Bytes()
		if err != nil {
			w.Fail(idx, "StringEncoder.Bytes: "+err.Error(), "")
		} else {
			s.SB = append([]byte{}, b...)
			s.SP, s.SPOK = payloadOf(w, idx, s.SB, "StringEncoder")
		}
		bb, err := tsm1.StringArrayEncodeAll(toStrings(s.Vals), nil)
		if err != nil {
			w.Fail(idx, "StringArrayEncodeAll: "+err.Error(), "")
		} else {
			s.BB = append([]byte{}, bb...)
			s.BP, s.BPOK = payloadOf(w, idx, s.BB, "StringArrayEncodeAll")
		}
		batchDec := func(b []byte) ([][]byte, bool) {
			o, err := tsm1.StringArrayDecodeAll(b, nil)
			return fromStrings(o), err == nil
		}
		if s.SPOK {
			s.DSS, s.DSSOK = strScalarDecode(s.SB, limit)
			s.DBS, s.DBSOK = batchDec(s.SB)
		}
		if s.BPOK {
			s.DSB, s.DSBOK = strScalarDecode(s.BB, limit)
			s.DBB, s.DBBOK = batchDec(s.BB)
		}
	})
	if p != "" {
		w.Fail(idx, "panic in string codec: "+p, "")
	}
	s.Decoded = map[string]interface{}{}
	put := func(k string, v [][]byte, ok bool) {
		if !ok {
			s.Decoded[k] = "error"
		} else if eqStrs(v, s.Vals) {
			s.Decoded[k] = "== vals"
		} else if long {
			s.Decoded[k] = map[string]interface{}{"lengths": lensOf(v)}
		} else {
			s.Decoded[k] = v
		}
	}
	put("scalar_dec(scalar_enc)", s.DSS, s.DSSOK)
	put("batch_dec(scalar_enc)", s.DBS, s.DBSOK)
	put("scalar_dec(batch_enc)", s.DSB, s.DSBOK)
	put("batch_dec(batch_enc)", s.DBB, s.DBBOK)
	var l lets
	t := l.wrap(fmt.Sprintf("CStr %s %s %s %s %s %s %s", l.strs(s.Vals), l.optBytes(s.SP, s.SPOK), l.optBytes(s.BP, s.BPOK),
		l.optStrs(s.DSS, s.DSSOK), l.optStrs(s.DBS, s.DBSOK), l.optStrs(s.DSB, s.DSBOK), l.optStrs(s.DBB, s.DBBOK)))
	w.Add(t, c, len(s.Vals) >= 2, "")
	w.Count("kind", "str")
	w.Count("str.count", lenClass(len(s.Vals)))
	n16k, nshort := 0, 0
	for _, v := range s.Vals {
		if len(v) >= 16384 {
			n16k++
		}
		if len(v) < 128 {
			nshort++
		}
	}
	if n16k > 0 {
		w.Count("str.ge16KiB_minus_lt128B", fmt.Sprint(n16k-nshort))
	}
	if long { // keep cases.jsonl / evidence small: the spec regenerates the strings
		s.Decoded["scalar_bytes_len"], s.Decoded["batch_bytes_len"] = len(s.SB), len(s.BB)
		s.Vals, s.SB, s.BB = nil, nil, nil
	}
}

func genString(r *rand.Rand) []byte {
	var n int
	switch r.IntN(10) {
	case 0:
		n = 0
	case 1:
		n = 126 + r.IntN(5) // uvarint length boundary 127/128
	case 2:
		n = 1
	default:
		n = r.IntN(12)
	}
	b := make([]byte, n)
	mode := r.IntN(4)
	for i := range b {
		switch mode {
		case 0:
			b[i] = byte(r.IntN(256))
		case 1:
			b[i] = 'a' + byte(r.IntN(3))
		case 2:
			b[i] = []byte{0, 0x7f, 0x80, 0xff, 1}[r.IntN(5)]
		default:
			b[i] = 'x'
		}
	}
	return b
}

func genStrVals(r *rand.Rand, n int) [][]byte {
	v := make([][]byte, n)
	for i := range v {
		if i > 0 && r.IntN(3) == 0 {
			v[i] = v[i-1]
		} else {
			v[i] = genString(r)
		}
	}
	return v
}

func fixedStr() []jcase {
	mk := func(v ...string) jcase { return jcase{Kind: "str", Str: &strCase{Vals: fromStrings(v)}} }
	return []jcase{mk(), mk(""), mk("", ""), mk("a"), mk("", "a", ""), mk(strings.Repeat("x", 127)), mk(strings.Repeat("x", 128)),
		mk(strings.Repeat("ab", 200), "", "\x00", "\x80\xff"), mk("\x00"), mk("\x00", "\x00\x00"), mk("héllo", "wörld", "héllo")}
}

// ---- the long-string stream: 1-6 strings with lengths around the uvarint boundaries
// (127/128, 16383/16384) and 40-64 KiB, mixed with a few short ones ----
var longLens = []int{126, 127, 128, 129, 16382, 16383, 16384, 16385, 20000, 40960, 50000, 65535, 65536}

func genLongSpecs(r *rand.Rand) []longSpec {
	k := 1 + r.IntN(6)
	nShort := 0
	if r.IntN(2) == 0 {
		nShort = r.IntN(3)
	}
	minLen := 0
	if r.IntN(2) == 0 {
		minLen = 4 // only lengths >= 16382: every string needs (almost always) a 3-byte prefix
	}
	out := make([]longSpec, 0, k+nShort)
	total := 0
	for i := 0; i < k; i++ {
		n := longLens[minLen+r.IntN(len(longLens)-minLen)]
		if total+n > 200000 { // keep the Coq side affordable
			n = 16384 - r.IntN(2)
		}
		total += n
		out = append(out, longSpec{Len: n, Fill: byte('a' + r.IntN(26)), Head: fmt.Sprintf("%d:", i)})
	}
	for i := 0; i < nShort; i++ {
		sp := longSpec{Len: r.IntN(128), Fill: byte('A' + r.IntN(26))}
		at := r.IntN(len(out) + 1)
		out = append(out[:at], append([]longSpec{sp}, out[at:]...)...)
	}
	return out
}

func fixedLongSpecs() [][]longSpec {
	mk := func(lens ...int) []longSpec {
		o := make([]longSpec, len(lens))
		for i, n := range lens {
			o[i] = longSpec{Len: n, Fill: byte('p' + i), Head: fmt.Sprintf("%d:", i)}
		}
		return o
	}
	return [][]longSpec{
		mk(16384, 16384, 16384), mk(16383, 16383, 16383), mk(16384, 16384, 16384, 16384, 5),
		mk(65536, 40960, 16384), mk(127, 128, 16383, 16384, 65535),
	}
}

func fixedLongStr() []jcase {
	var cs []jcase
	for _, sp := range fixedLongSpecs() {
		cs = append(cs, jcase{Kind: "str", Str: &strCase{Long: sp}})
	}
	// the same shapes through the block encoders / DecodeBlock / DecodeStringArrayBlock
	for _, sp := range []([]longSpec){fixedLongSpecs()[0], fixedLongSpecs()[3]} {
		b := &blkCase{Typ: tsm1.BlockString, LongStrs: sp}
		for i := range sp {
			b.TS = append(b.TS, uint64(1000*(i+1)))
		}
		cs = append(cs, jcase{Kind: "block", Blk: b})
	}
	return cs
}

func genLongStr(r *rand.Rand) jcase {
	sp := genLongSpecs(r)
	if r.IntN(3) == 0 {
		return jcase{Kind: "block", Blk: &blkCase{Typ: tsm1.BlockString, LongStrs: sp, TS: genTimeVals(r, len(sp))}}
	}
	return jcase{Kind: "str", Str: &strCase{Long: sp}}
}

func genStr(r *rand.Rand) jcase {
	n := r.IntN(12)
	if r.IntN(10) == 0 {
		n = 60 + r.IntN(10) // more than the 64-entry default of StringArrayDecodeAll
	}
	return jcase{Kind: "str", Str: &strCase{Vals: genStrVals(r, n)}}
}

// ---------- blocks ----------

type blkCase struct {
	Typ  byte     `json:"type"` // 0 float, 1 integer, 2 boolean, 3 string, 4 unsigned
	TS   []uint64 `json:"timestamps"`
	Nums []uint64 `json:"values,omitempty"` // float bits / int64 bits / uint64 / 0,1
	Strs [][]byte `json:"strings,omitempty"`
	// long-string blocks: Strs is regenerated from the specs
	LongStrs []longSpec `json:"long_strings,omitempty"`
	// standalone encoder outputs and the block encoders' outputs
	STB, SVB, BTB, BVB []byte                 `json:"-"`
	SBlk, BBlk         []byte                 `json:"-"`
	SBlkOK, BBlkOK     bool                   `json:"-"`
	Summary            map[string]interface{} `json:"impl,omitempty"`
}

type decoded struct {
	ok   bool
	ts   []uint64
	nums []uint64
	strs [][]byte
}

func (b *blkCase) values() tsm1.Values {
	vs := make(tsm1.Values, len(b.TS))
	for i, t := range b.TS {
		switch b.Typ {
		case tsm1.BlockFloat64:
			vs[i] = tsm1.NewFloatValue(int64(t), math.Float64frombits(b.Nums[i]))
		case tsm1.BlockInteger:
			vs[i] = tsm1.NewIntegerValue(int64(t), int64(b.Nums[i]))
		case tsm1.BlockUnsigned:
			vs[i] = tsm1.NewUnsignedValue(int64(t), b.Nums[i])
		case tsm1.BlockBoolean:
			vs[i] = tsm1.NewBooleanValue(int64(t), b.Nums[i] != 0)
		default:
			vs[i] = tsm1.NewStringValue(int64(t), string(b.Strs[i]))
		}
	}
	return vs
}

func b2u(b bool) uint64 {
	if b {
		return 1
	}
	return 0
}

func decodeScalarBlock(typ byte, blk []byte) (d decoded) {
	vals, err := tsm1.DecodeBlock(blk, nil)
	if err != nil {
		return
	}
	d.ok = true
	d.ts, d.nums, d.strs = []uint64{}, []uint64{}, [][]byte{}
	for _, v := range vals {
		d.ts = append(d.ts, uint64(v.UnixNano()))
		switch x := v.Value().(type) {
		case float64:
			d.nums = append(d.nums, math.Float64bits(x))
		case int64:
			d.nums = append(d.nums, uint64(x))
		case uint64:
			d.nums = append(d.nums, x)
		case bool:
			d.nums = append(d.nums, b2u(x))
		case string:
			d.strs = append(d.strs, []byte(x))
		default:
			d.ok = false
		}
	}
	return
}

func decodeBatchBlock(typ byte, blk []byte) (d decoded) {
	d.ts, d.nums, d.strs = []uint64{}, []uint64{}, [][]byte{}
	var err error
	switch typ {
	case tsm1.BlockFloat64:
		var a tsdb.FloatArray
		if err = tsm1.DecodeFloatArrayBlock(blk, &a); err == nil {
			d.ts, d.nums = toU64(a.Timestamps), fromF64(a.Values)
		}
	case tsm1.BlockInteger:
		var a tsdb.IntegerArray
		if err = tsm1.DecodeIntegerArrayBlock(blk, &a); err == nil {
			d.ts, d.nums = toU64(a.Timestamps), toU64(a.Values)
		}
	case tsm1.BlockUnsigned:
		var a tsdb.UnsignedArray
		if err = tsm1.DecodeUnsignedArrayBlock(blk, &a); err == nil {
			d.ts, d.nums = toU64(a.Timestamps), cp(a.Values)
		}
	case tsm1.BlockBoolean:
		var a tsdb.BooleanArray
		if err = tsm1.DecodeBooleanArrayBlock(blk, &a); err == nil {
			d.ts = toU64(a.Timestamps)
			for _, x := range a.Values {
				d.nums = append(d.nums, b2u(x))
			}
		}
	default:
		var a tsdb.StringArray
		if err = tsm1.DecodeStringArrayBlock(blk, &a); err == nil {
			d.ts, d.strs = toU64(a.Timestamps), fromStrings(a.Values)
		}
	}
	d.ok = err == nil
	return
}

func runBlock(w *vh.W, c *jcase) {
	s := c.Blk
	idx := w.Len()
	long := len(s.LongStrs) > 0
	if long {
		s.Strs = expandAll(s.LongStrs)
	}
	var dss, dbs, dsb, dbb decoded
	p := vh.Guard(func() {
		// standalone encoders (the pieces the block encoders are expected to frame)
		te := tsm1.NewTimeEncoder(len(s.TS))
		for _, t := range s.TS {
			te.Write(int64(t))
		}
		tb, _ := te.Bytes()
		s.STB = append([]byte{}, tb...)
		btb, _ := tsm1.TimeArrayEncodeAll(toI64(s.TS), nil)
		s.BTB = append([]byte{}, btb...)
		var svb, bvb []byte
		switch s.Typ {
		case tsm1.BlockFloat64:
			e := tsm1.NewFloatEncoder()
			for _, v := range toF64(s.Nums) {
				e.Write(v)
			}
			e.Flush()
			svb, _ = e.Bytes()
			bvb, _ = tsm1.FloatArrayEncodeAll(toF64(s.Nums), nil)
		case tsm1.BlockInteger, tsm1.BlockUnsigned:
			e := tsm1.NewIntegerEncoder(len(s.Nums))
			for _, v := range s.Nums {
				e.Write(int64(v))
			}
			svb, _ = e.Bytes()
			bvb, _ = tsm1.IntegerArrayEncodeAll(toI64(s.Nums), nil)
		case tsm1.BlockBoolean:
			e := tsm1.NewBooleanEncoder(len(s.Nums))
			bs := make([]bool, len(s.Nums))
			for i, v := range s.Nums {
				e.Write(v != 0)
				bs[i] = v != 0
			}
			svb, _ = e.Bytes()
			bvb, _ = tsm1.BooleanArrayEncodeAll(bs, nil)
		default:
			e := tsm1.NewStringEncoder(64)
			for _, v := range s.Strs {
				e.Write(string(v))
			}
			svb, _ = e.Bytes()
			bvb, _ = tsm1.StringArrayEncodeAll(toStrings(s.Strs), nil)
		}
		s.SVB, s.BVB = append([]byte{}, svb...), append([]byte{}, bvb...)
		// block encoders
		blk, err := s.values().Encode(nil)
		s.SBlk, s.SBlkOK = append([]byte{}, blk...), err == nil
		var bblk []byte
		switch s.Typ {
		case tsm1.BlockFloat64:
			bblk, err = tsm1.EncodeFloatArrayBlock(&tsdb.FloatArray{Timestamps: toI64(s.TS), Values: toF64(s.Nums)}, nil)
		case tsm1.BlockInteger:
			bblk, err = tsm1.EncodeIntegerArrayBlock(&tsdb.IntegerArray{Timestamps: toI64(s.TS), Values: toI64(s.Nums)}, nil)
		case tsm1.BlockUnsigned:
			bblk, err = tsm1.EncodeUnsignedArrayBlock(&tsdb.UnsignedArray{Timestamps: toI64(s.TS), Values: cp(s.Nums)}, nil)
		case tsm1.BlockBoolean:
			bs := make([]bool, len(s.Nums))
			for i, v := range s.Nums {
				bs[i] = v != 0
			}
			bblk, err = tsm1.EncodeBooleanArrayBlock(&tsdb.BooleanArray{Timestamps: toI64(s.TS), Values: bs}, nil)
		default:
			bblk, err = tsm1.EncodeStringArrayBlock(&tsdb.StringArray{Timestamps: toI64(s.TS), Values: toStrings(s.Strs)}, nil)
		}
		s.BBlk, s.BBlkOK = append([]byte{}, bblk...), err == nil
		if s.SBlkOK {
			dss, dbs = decodeScalarBlock(s.Typ, s.SBlk), decodeBatchBlock(s.Typ, s.SBlk)
			if n, err := tsm1.BlockCount(s.SBlk); err != nil || n != len(s.TS) {
				w.Fail(idx, fmt.Sprintf("BlockCount(scalar block) = %d, %v; want %d", n, err, len(s.TS)), "")
			}
		}
		if s.BBlkOK {
			dsb, dbb = decodeScalarBlock(s.Typ, s.BBlk), decodeBatchBlock(s.Typ, s.BBlk)
			if n, err := tsm1.BlockCount(s.BBlk); err != nil || n != len(s.TS) {
				w.Fail(idx, fmt.Sprintf("BlockCount(batch block) = %d, %v; want %d", n, err, len(s.TS)), "")
			}
		}
	})
	if p != "" {
		w.Fail(idx, "panic in block codec: "+p, "")
	}
	var l lets
	isStr := s.Typ == tsm1.BlockString
	dec := func(d decoded) string {
		if !d.ok {
			return "None"
		}
		if isStr {
			return "(Some (" + l.u64s(d.ts) + ", " + l.strs(d.strs) + "))"
		}
		return "(Some (" + l.u64s(d.ts) + ", " + l.u64s(d.nums) + "))"
	}
	sum := func(d decoded) string {
		if !d.ok {
			return "error"
		}
		if fmt.Sprint(d.ts) == fmt.Sprint(s.TS) && fmt.Sprint(d.nums) == fmt.Sprint(append([]uint64{}, s.Nums...)) && eqStrs(d.strs, s.Strs) {
			return "== input"
		}
		if long {
			return fmt.Sprint(d.ts, " string lengths ", lensOf(d.strs))
		}
		return fmt.Sprint(d.ts, d.nums, d.strs)
	}
	capped := func(b []byte) interface{} {
		if len(b) > 2048 {
			return fmt.Sprintf("%d bytes", len(b))
		}
		return b
	}
	s.Summary = map[string]interface{}{"scalar_block_ok": s.SBlkOK, "batch_block_ok": s.BBlkOK, "scalar_block": capped(s.SBlk), "batch_block": capped(s.BBlk),
		"scalar_dec(scalar_blk)": sum(dss), "batch_dec(scalar_blk)": sum(dbs), "scalar_dec(batch_blk)": sum(dsb), "batch_dec(batch_blk)": sum(dbb)}
	var t string
	if isStr {
		t = fmt.Sprintf("CBlockS %s %s %s %s %s %s %s %s %s %s %s %s", l.u64s(s.TS), l.strs(s.Strs),
			l.ref("list N", blist(s.STB)), l.ref("list N", blist(s.SVB)), l.ref("list N", blist(s.BTB)), l.ref("list N", blist(s.BVB)),
			l.optBytes(s.SBlk, s.SBlkOK), l.optBytes(s.BBlk, s.BBlkOK), dec(dss), dec(dbs), dec(dsb), dec(dbb))
	} else {
		t = fmt.Sprintf("CBlock %d %s %s %s %s %s %s %s %s %s %s %s %s", s.Typ, l.u64s(s.TS), l.u64s(s.Nums),
			l.ref("list N", blist(s.STB)), l.ref("list N", blist(s.SVB)), l.ref("list N", blist(s.BTB)), l.ref("list N", blist(s.BVB)),
			l.optBytes(s.SBlk, s.SBlkOK), l.optBytes(s.BBlk, s.BBlkOK), dec(dss), dec(dbs), dec(dsb), dec(dbb))
	}
	w.Add(l.wrap(t), c, len(s.TS) >= 2, "")
	if long {
		w.Count("block.long_strings", fmt.Sprint(len(s.Strs)))
		s.Strs = nil
	}
	w.Count("kind", "block")
	w.Count("block.type", fmt.Sprint(s.Typ))
	w.Count("block.len", lenClass(len(s.TS)))
}

func genBlock(r *rand.Rand, big bool) jcase {
	n := 1 + genLen(r, false)
	if n > 130 {
		n = 100 + r.IntN(30)
	}
	b := &blkCase{Typ: byte(r.IntN(5)), TS: genTimeVals(r, n)}
	switch b.Typ {
	case tsm1.BlockFloat64:
		b.Nums = genFloatBits(r, n)
		for i, x := range b.Nums { // blocks are NaN-free (rejection is covered by the float cases)
			if math.IsNaN(math.Float64frombits(x)) {
				b.Nums[i] = 0x7FF0000000000000 ^ uint64(i&1)<<63 // +Inf / -Inf
			}
		}
	case tsm1.BlockInteger, tsm1.BlockUnsigned:
		b.Nums = genIntVals(r, n)
	case tsm1.BlockBoolean:
		b.Nums = make([]uint64, n)
		for i, x := range genBoolVals(r, n) {
			b.Nums[i] = b2u(x)
		}
	default:
		if n > 40 {
			n = 1 + r.IntN(40)
			b.TS = b.TS[:n]
		}
		b.Strs = genStrVals(r, n)
	}
	return jcase{Kind: "block", Blk: b}
}

func fixedBlock() []jcase {
	var cs []jcase
	for typ := byte(0); typ < 5; typ++ {
		for _, n := range []int{1, 2, 3} {
			b := &blkCase{Typ: typ}
			for i := 0; i < n; i++ {
				b.TS = append(b.TS, uint64(1000*(i+1)))
				if typ == tsm1.BlockString {
					b.Strs = append(b.Strs, []byte(fmt.Sprint("v", i)))
				} else if typ == tsm1.BlockFloat64 {
					b.Nums = append(b.Nums, math.Float64bits(float64(i)+0.5))
				} else {
					b.Nums = append(b.Nums, uint64(i%2))
				}
			}
			cs = append(cs, jcase{Kind: "block", Blk: b})
		}
	}
	// a timestamp block longer than 127 bytes (2-byte uvarint length)
	b := &blkCase{Typ: tsm1.BlockInteger}
	for i := 0; i < 40; i++ {
		b.TS = append(b.TS, uint64(i*i*i)<<40^uint64(i))
		b.Nums = append(b.Nums, uint64(i))
	}
	cs = append(cs, jcase{Kind: "block", Blk: b})
	return cs
}
