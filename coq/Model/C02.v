(** C02 — Acknowledged writes and deletes survive a crash at any point.

    Two layers.
    (A) WAL segment framing at byte level (wal.go: WALSegmentWriter.Write / WALSegmentReader.Next
        and CacheLoader.Load): record = type(1) | len(4, big endian) | payload(len); the reader
        stops at the first short or undecodable record and the loader truncates there.
    (B) The engine of Model/C01.v extended with its WAL (closed segments + the open segment)
        and the three durable sub-steps of a snapshot commit (writeSnapshotAndCommit):
        FileStore.Replace  ->  Cache.ClearSnapshot(true)  ->  WAL.Remove(closed segments).
        [recover] is what Engine.Open does after a crash: keep the TSM files (with their
        tombstones), replay every WAL entry still on disk into an empty cache.
    (C) Torn tail + further appends.  Engine.Open runs WAL.Open BEFORE reloadCache: the last
        segment is re-opened for appending before CacheLoader.Load truncates its torn tail.
        Since repo commit dc4e263207 (fix of finding "torn-wal-tail-hole-loses-later-writes")
        WAL.Open opens it with os.O_APPEND, so every later append goes to the end of the file
        as truncated and stays reachable for replay: a crash with a torn in-flight record
        ([DCrashTorn]) is a plain recovery from the state before that write.  (Before the fix
        the writer kept the pre-truncation offset and later appends sat behind a hole of zero
        bytes; the driver's torn_crash / branch steps still exercise exactly that shape.) *)
From Verif Require Import Base.Prelude Model.C01.

(** * (A) WAL framing *)
Definition be32 (n : N) : list N :=
  [ (n / 16777216) mod 256; (n / 65536) mod 256; (n / 256) mod 256; n mod 256 ]%N.

Definition rd32 (b3 b2 b1 b0 : N) : N := (((b3 * 256 + b2) * 256 + b1) * 256 + b0)%N.

Definition rec := (N * list N)%type.              (* entry type byte, compressed payload *)

Definition frame (r : rec) : list N := fst r :: be32 (N.of_nat (length (snd r))) ++ snd r.
Definition frames (rs : list rec) : list N := flat_map frame rs.

Section Wal.
  (** [decodable]: snappy.Decode + UnmarshalBinary succeed and the type byte is known. *)
  Variable decodable : rec -> bool.

  (** Returns the records read and the number of bytes of the good prefix (the offset the
      loader truncates the segment to). *)
  Fixpoint wal_parse (fuel : nat) (b : list N) : list rec * nat :=
    match fuel with
    | O => ([], 0)
    | S fuel' =>
        match b with
        | ty :: b3 :: b2 :: b1 :: b0 :: rest =>
            let len := N.to_nat (rd32 b3 b2 b1 b0) in
            if Nat.leb len (length rest) then
              let r := (ty, firstn len rest) in
              if decodable r then
                let (rs, n) := wal_parse fuel' (skipn len rest) in (r :: rs, 5 + len + n)
              else ([], 0)
            else ([], 0)
        | _ => ([], 0)
        end
    end.

  Definition wal_read (b : list N) : list rec * nat := wal_parse (S (length b)) b.
End Wal.

(** * (B) Engine + WAL + crash/recovery *)
Inductive wentry := WWrite (b : log) | WDelete (ks : list key) (lo hi : Z).

Fixpoint replay_from (B : log) (es : list wentry) : log :=
  match es with
  | [] => B
  | WWrite b :: r => replay_from (B ++ b) r
  | WDelete ks lo hi :: r => replay_from (log_delete B ks lo hi) r
  end.

(** phase of the snapshot commit: 0 idle, 1 snapshot taken (Cache.Snapshot done),
    2 new TSM file installed (Replace done), 3 snapshot cleared (WAL segments not yet removed) *)
Record dstate := { mem : state; closed : list wentry; opn : list wentry; phase : N }.

Definition dinit : dstate := {| mem := init; closed := []; opn := []; phase := 0 |}.

Inductive dop :=
| DWrite (b : log)
| DDelete (ks : list key) (lo hi : Z)
| DSnapBegin | DCommitReplace | DCommitClear | DCommitWalRemove | DSnapFail
| DCompact (i n : nat)
| DCrash                        (* crash + reopen: [recover] *)
| DCrashTorn.                   (* crash while the WAL record of an in-flight (unacknowledged) write
                                   was torn after >= 1 byte, + reopen: the loader truncates the torn
                                   tail, [recover].  The in-flight write itself is not part of the
                                   history. *)

Definition has_key (l : log) (k : key) : bool := existsb (fun e => N.eqb (fst (fst e)) k) l.

Definition recover (d : dstate) : dstate :=
  {| mem := {| hot := replay_from [] (closed d ++ opn d); snap := []; snapshotting := false;
               files := files (mem d) |};
     closed := closed d ++ opn d; opn := []; phase := 0 |}.

Definition with_mem (d : dstate) (s : state) : dstate :=
  {| mem := s; closed := closed d; opn := opn d; phase := phase d |}.

Definition dstep (d : dstate) (o : dop) : dstate * bool :=
  let s := mem d in
  match o with
  | DWrite b =>
      ({| mem := fst (step s (Write b)); closed := closed d; opn := opn d ++ [WWrite b]; phase := phase d |}, true)
  | DDelete ks lo hi =>
      (* the WAL entry lists only the keys found in the HOT store (deleteKeys) *)
      let dk := filter (has_key (hot s)) ks in
      (* WAL.DeleteRange returns without writing anything when no key is listed *)
      ({| mem := fst (step s (Delete ks lo hi)); closed := closed d;
          opn := match dk with [] => opn d | _ :: _ => opn d ++ [WDelete dk lo hi] end; phase := phase d |}, true)
  | DSnapBegin =>
      (* WAL.CloseSegment happens before Cache.Snapshot(), whether or not the latter succeeds *)
      if N.eqb (phase d) 0 then
        let (s', ok) := step s SnapBegin in
        ({| mem := s'; closed := closed d ++ opn d; opn := []; phase := if ok then 1 else 0 |}, ok)
      else ({| mem := s; closed := closed d ++ opn d; opn := []; phase := phase d |}, false)
  | DCommitReplace =>
      if N.eqb (phase d) 1 then
        match snap s with
        | [] => (* empty snapshot: ClearSnapshot(true) and return; closed segments stay *)
            ({| mem := {| hot := hot s; snap := []; snapshotting := false; files := files s |};
                closed := closed d; opn := opn d; phase := 0 |}, true)
        | _ :: _ =>
            ({| mem := {| hot := hot s; snap := snap s; snapshotting := true;
                          files := files s ++ [ {| fpts := snap s; ftomb := [] |} ] |};
                closed := closed d; opn := opn d; phase := 2 |}, true)
        end
      else (d, false)
  | DCommitClear =>
      if N.eqb (phase d) 2 then
        ({| mem := {| hot := hot s; snap := []; snapshotting := false; files := files s |};
            closed := closed d; opn := opn d; phase := 3 |}, true)
      else (d, false)
  | DCommitWalRemove =>
      if N.eqb (phase d) 3 then
        ({| mem := s; closed := []; opn := opn d; phase := 0 |}, true)
      else (d, false)
  | DSnapFail =>
      if N.eqb (phase d) 1 then
        ({| mem := fst (step s SnapFail); closed := closed d; opn := opn d; phase := 0 |}, true)
      else (d, false)
  | DCompact i n =>
      let (s', ok) := step s (Compact i n) in (with_mem d s', ok)
  | DCrash => (recover d, true)
  | DCrashTorn => (recover d, true)
  end.

Definition drun (h : list dop) (d : dstate) : dstate := fold_left (fun d o => fst (dstep d o)) h d.

(** The oracle: acknowledged writes and deletes only (crashes, snapshots, compactions ignored). *)
Fixpoint dspec_log (h : list dop) (acc : log) : log :=
  match h with
  | [] => acc
  | DWrite b :: r => dspec_log r (acc ++ b)
  | DDelete ks lo hi :: r => dspec_log r (log_delete acc ks lo hi)
  | _ :: r => dspec_log r acc
  end.

(** ** Correspondence cases *)
Inductive dcstep :=
| DOp (o : dop) (ok : bool)
  (** a sub-step of an ATOMIC WriteSnapshot call whose own success is not observable (only the call's
      error is): the model takes the step, no flag is compared.  Used for the clear / WAL-remove halves
      of an atomic snapshot: whether the engine regards a snapshot as empty depends on Cache.Size(),
      which over-reports after in-place dedup (C09's finding), not on the entries. *)
| DOpAny (o : dop)
| DRead (k : key) (lo hi : Z) (asc : bool) (res : list (Z * Z))
  (** a crash image taken here (directory copy, reopened by a second engine): the full
      ascending read of keys 0,1,2,... in order; the running engine is NOT affected *)
| DImage (res : list (list (Z * Z)))
  (** crash images with the WAL record of the last (write) operation torn at several byte
      offsets: each must read like the state BEFORE that operation *)
| DTorn (imgs : list (list (list (Z * Z))))
  (** a crash image that LIVES ON: the image (plain: taken here; torn: the WAL record of the
      last operation cut after >= 1 byte) is reopened by a second engine, which performs the
      acknowledged operations [ops] (with their observed success flags), is crashed again
      (second directory copy) and a third engine reads every key.  The running engine is NOT
      affected. *)
| DBranch (torn : bool) (ops : list (dop * option bool)) (res : list (list (Z * Z))).

Definition dcase := list dcstep.

Definition full_lo : Z := (-9223372036854775806)%Z.
Definition full_hi : Z := 9223372036854775806%Z.

Fixpoint keys_upto (n : nat) (k : N) : list N :=
  match n with O => [] | S n' => k :: keys_upto n' (N.succ k) end.

Definition zzs_eqb := list_eqb zz_eqb.

Definition all_reads (s : state) (n : nat) : list (list (Z * Z)) :=
  map (fun k => read s k full_lo full_hi true) (keys_upto n 0%N).
Definition all_spec (l : log) (n : nat) : list (list (Z * Z)) :=
  map (fun k => spec_read l k full_lo full_hi true) (keys_upto n 0%N).

Fixpoint drun_ok (ops : list (dop * option bool)) (d : dstate) (same : bool) : dstate * bool :=
  match ops with
  | [] => (d, same)
  | (o, Some b) :: r => let (d', b') := dstep d o in drun_ok r d' (same && Bool.eqb b b')
  | (o, None) :: r => let (d', _) := dstep d o in drun_ok r d' same   (* not observable: see DOpAny *)
  end.

Fixpoint dcheck_steps (c : list dcstep) (d prev : dstate) (h hprev : list dop) (same ok : bool) : bool * bool :=
  match c with
  | [] => (same, ok)
  | DOp o b :: r =>
      let (d', b') := dstep d o in
      dcheck_steps r d' d (h ++ [o]) h (same && Bool.eqb b b') ok
  | DOpAny o :: r =>
      let (d', _) := dstep d o in
      dcheck_steps r d' d (h ++ [o]) h same ok
  | DRead k lo hi asc res :: r =>
      dcheck_steps r d prev h hprev
        (same && zz_eqb res (read (mem d) k lo hi asc))
        (ok && zz_eqb res (spec_read (dspec_log h []) k lo hi asc))
  | DImage res :: r =>
      dcheck_steps r d prev h hprev
        (same && zzs_eqb res (all_reads (mem (recover d)) (length res)))
        (ok && zzs_eqb res (all_spec (dspec_log h []) (length res)))
  | DTorn imgs :: r =>
      (* the in-flight (unacknowledged) operation is the last one; a torn record = not applied *)
      let n := match imgs with [] => O | i :: _ => length i end in
      let m := all_reads (mem (recover prev)) n in
      let sp := all_spec (dspec_log hprev []) n in
      dcheck_steps r d prev h hprev
        (same && forallb (fun res => zzs_eqb res m) imgs)
        (ok && forallb (fun res => zzs_eqb res sp) imgs)
  | DBranch torn ops res :: r =>
      let d0 := recover (if torn then prev else d) in
      let h0 := if torn then hprev else h in
      let (d1, sm) := drun_ok ops d0 true in
      dcheck_steps r d prev h hprev
        (same && sm && zzs_eqb res (all_reads (mem (recover d1)) (length res)))
        (ok && zzs_eqb res (all_spec (dspec_log (h0 ++ map fst ops) []) (length res)))
  end.

Definition check (c : dcase) : verdict :=
  let (same, ok) := dcheck_steps c dinit dinit [] [] true true in judge same ok.
