(** C04 — Compaction preserves the logical content of TSM files.

    Mirror of /repo/tsdb/engine/tsm1/compact.go
        [block] ([overlapsTimeRange], [read], [markRead], [partiallyRead]), [blocks.Less],
        [tsmBatchKeyIterator.Next] (refill of [buf], smallest key, gathering of [k.blocks],
        the RETRY structure), [Compactor.write]/[writeNewFiles] (rolling on
        [ErrMaxBlocksExceeded]), [cacheKeyIterator.encode]
    and of /repo/tsdb/engine/tsm1/compact.gen.go
        [mergeFloat] (…Integer/Unsigned/Boolean/String are template instances with identical
        text up to the element type), [combineFloat] (dedup path with the min-window over the
        overlapping unread blocks; non-dedup path: pass-through of full blocks, [fast],
        "only one block left", decode-and-append of the rest), [chunkFloat].

    A block payload is the decoded array [arr V] = [list (Z * V)] (the encoding is C07's
    business; [BlockCount] is its length).  The array operations are the mirrors of
    [cursors.*Array.Exclude/Include/Merge] from Model/C37.v ([tsdb.FloatArray] is an alias
    of [cursors.FloatArray]).  [sort.Stable(k.blocks)] is Go's [insertionSort] — exact for
    at most 20 blocks of one key (above that Go switches to blocks of 20 + SymMerge, whose
    result with the non-transitive [Less] may differ; the driver stays below and says so).

    Not modelled: rolling on [MaxTSMFileSize] (2 GB), the rate limiter, interrupts, decode /
    encode errors, the disk-buffered index writer.

    No proofs in this file. *)
From Verif Require Import Base.Prelude Model.C37.
Local Open Scope Z_scope.

Definition MaxInt64 : Z := 9223372036854775807.
Definition MinInt64 : Z := -9223372036854775808.
(** [maxIndexEntries] of writer.go *)
Definition MaxIndexEntries : nat := 65535.
(** [tsdb.DefaultMaxPointsPerBlock] *)
Definition DefaultMaxPointsPerBlock : nat := 1000.

Section Model.
  Context {V : Type}.
  Notation arr := (arr V).

  (** [type block]: [b_vals] stands for the encoded bytes [b]; the key is kept outside. *)
  Record blk := mkblk {
    b_min : Z; b_max : Z; b_vals : arr; b_tombs : list (Z * Z); b_rmin : Z; b_rmax : Z }.

  Definition set_read (b : blk) (rmin rmax : Z) : blk :=
    mkblk (b_min b) (b_max b) (b_vals b) (b_tombs b) rmin rmax.
  Definition set_max (b : blk) (mx : Z) : blk :=
    mkblk (b_min b) mx (b_vals b) (b_tombs b) (b_rmin b) (b_rmax b).

  (** a block as gathered by [Next]: [readMin = MaxInt64], [readMax = MinInt64] *)
  Definition fresh (mn mx : Z) (vs : arr) (ts : list (Z * Z)) : blk :=
    mkblk mn mx vs ts MaxInt64 MinInt64.

  Definition overlaps (b : blk) (mn mx : Z) : bool := (b_min b <=? mx) && (b_max b >=? mn).
  Definition is_read (b : blk) : bool := (b_rmin b <=? b_min b) && (b_rmax b >=? b_max b).
  Definition mark_read (b : blk) (mn mx : Z) : blk :=
    set_read b (if mn <? b_rmin b then mn else b_rmin b) (if mx >? b_rmax b then mx else b_rmax b).
  Definition partially_read (b : blk) : bool :=
    if (b_rmin b =? MaxInt64) && (b_rmax b =? MinInt64) then false
    else negb (b_rmin b =? b_min b) || negb (b_rmax b =? b_max b).

  (** [blocks.Less] for two blocks of the same key *)
  Definition less (a b : blk) : bool := (b_min a <? b_min b) && (b_max a <? b_min b).

  (** [insertionSort(data, 0, n)]: every element is moved left while it is [Less] than its left
      neighbour.  [rp] is the already sorted prefix, reversed. *)
  Fixpoint ins_rev (x : blk) (rp : list blk) : list blk :=
    match rp with
    | [] => [x]
    | y :: r => if less x y then y :: ins_rev x r else x :: y :: r
    end.
  Definition isort (l : list blk) : list blk :=
    rev (fold_left (fun rp x => ins_rev x rp) l []).

  (** Go's [sort.Stable] ([stable], [symMerge], [rotate] of go1.23 src/sort/zsortinterface.go):
      insertion sort on blocks of 20, then SymMerge of neighbouring runs with doubling block
      size.  Index arithmetic on [nat]; the slice is a list; [rotate(a, m, b)] replaces
      [data[a:b]] by [data[m:b] ++ data[a:m]]; the two "swap until in place" loops move one
      element.  With a [Less] that is not a strict weak order the result depends on this
      exact algorithm, which is why it is mirrored literally. *)
  Definition dblk : blk := mkblk 0 0 [] [] 0 0.
  Definition lessi (d : list blk) (i j : nat) : bool := less (nth i d dblk) (nth j d dblk).
  Definition seg (d : list blk) (a b : nat) : list blk := firstn (b - a) (skipn a d).
  Definition set_seg (d : list blk) (a b : nat) (new : list blk) : list blk :=
    firstn a d ++ new ++ skipn b d.
  Definition rotate (d : list blk) (a m b : nat) : list blk :=
    set_seg d a b (seg d m b ++ seg d a m).

  (** lowest [i] in [m, b) with [!Less(i, a)] *)
  Fixpoint bs_first (fuel : nat) (d : list blk) (a i j : nat) : nat :=
    match fuel with
    | O => i
    | S f => if (i <? j)%nat then
               let h := Nat.div2 (i + j) in
               if lessi d h a then bs_first f d a (S h) j else bs_first f d a i h
             else i
    end.
  (** lowest [i] in [a, m) with [Less(m, i)] *)
  Fixpoint bs_second (fuel : nat) (d : list blk) (m i j : nat) : nat :=
    match fuel with
    | O => i
    | S f => if (i <? j)%nat then
               let h := Nat.div2 (i + j) in
               if negb (lessi d m h) then bs_second f d m (S h) j else bs_second f d m i h
             else i
    end.
  (** the symmetric binary search: [for start < r { c := (start+r)/2; if !Less(p-c, c) … }] *)
  Fixpoint bs_sym (fuel : nat) (d : list blk) (p start r : nat) : nat :=
    match fuel with
    | O => start
    | S f => if (start <? r)%nat then
               let c := Nat.div2 (start + r) in
               if negb (lessi d (p - c) c) then bs_sym f d p (S c) r else bs_sym f d p start c
             else start
    end.

  Fixpoint sym_merge (fuel : nat) (d : list blk) (a m b : nat) : list blk :=
    match fuel with
    | O => d
    | S f =>
        if Nat.eqb (m - a) 1 then
          let i := bs_first (length d) d a m b in
          (* data[a] moves to position i-1 *)
          if (a <? i - 1)%nat then set_seg d a i (seg d (S a) i ++ [nth a d dblk]) else d
        else if Nat.eqb (b - m) 1 then
          let i := bs_second (length d) d m a m in
          (* data[m] moves to position i *)
          if (i <? m)%nat then set_seg d i (S m) (nth m d dblk :: seg d i m) else d
        else
          let mid := Nat.div2 (a + b) in
          let n := (mid + m)%nat in
          let '(start0, r) := if (mid <? m)%nat then ((n - b)%nat, mid) else (a, m) in
          let p := (n - 1)%nat in
          let start := bs_sym (length d) d p start0 r in
          let en := (n - start)%nat in
          let d1 := if (start <? m)%nat && (m <? en)%nat then rotate d start m en else d in
          let d2 := if (a <? start)%nat && (start <? mid)%nat then sym_merge f d1 a start mid else d1 in
          if (mid <? en)%nat && (en <? b)%nat then sym_merge f d2 mid en b else d2
    end.

  (** first phase of [stable]: insertion sort of every block of 20 *)
  Fixpoint block_isort (fuel : nat) (d : list blk) : list blk :=
    match fuel with
    | O => d
    | S f => match d with
             | [] => []
             | _ => isort (firstn 20 d) ++ block_isort f (skipn 20 d)
             end
    end.
  (** one level: [for b <= n { symMerge(a, a+bs, b) … }; if a+bs < n { symMerge(a, a+bs, n) }] *)
  Fixpoint merge_pass (fuel : nat) (d : list blk) (bsz a n : nat) : list blk :=
    match fuel with
    | O => d
    | S f =>
        if (a + 2 * bsz <=? n)%nat
        then merge_pass f (sym_merge (S (length d)) d a (a + bsz) (a + 2 * bsz)) bsz (a + 2 * bsz) n
        else if (a + bsz <? n)%nat then sym_merge (S (length d)) d a (a + bsz) n else d
    end.
  Fixpoint merge_levels (fuel : nat) (d : list blk) (bsz n : nat) : list blk :=
    match fuel with
    | O => d
    | S f => if (bsz <? n)%nat then merge_levels f (merge_pass (S n) d bsz 0 n) (2 * bsz) n else d
    end.
  Definition go_stable (d : list blk) : list blk :=
    let n := length d in merge_levels (S n) (block_isort (S n) d) 20 n.

  (** [sort.Stable(k.blocks)]: [stable] starts with insertion sort of blocks of 20, so for at
      most 20 blocks it IS the insertion sort *)
  Definition sort_blocks (l : list blk) : list blk :=
    if (length l <=? 20)%nat then isort l else go_stable l.

  (** *** [chunkFloat] *)
  Definition mkout (vs : arr) : blk := mkblk (min_time vs) (max_time vs) vs [] 0 0.

  Definition chunk (size : nat) (dst : list blk) (mv : arr) : list blk * arr :=
    if (size <? length mv)%nat then (dst ++ [mkout (firstn size mv)], skipn size mv)
    else if (0 <? length mv)%nat then (dst ++ [mkout mv], [])
    else (dst, []).

  Definition apply_tombs (v : arr) (ts : list (Z * Z)) : arr :=
    fold_left (fun v t => arr_exclude v (fst t) (snd t)) ts v.

  (** *** [combineFloat], dedup path *)

  (** "Adjust the min time to the start of any overlapping blocks." *)
  Definition window_step (w : Z * Z) (b : blk) : Z * Z :=
    let '(mn, mx) := w in
    if overlaps b mn mx && negb (is_read b) then
      let mn' := if b_min b <? mn then b_min b else mn in
      let mx' := if (b_max b >? mn') && (b_max b <? mx) then b_max b else mx in
      (mn', mx')
    else w.
  Definition window (bs : list blk) (w : Z * Z) : Z * Z := fold_left window_step bs w.

  (** second loop: decode every unread block overlapping the window, cut, mark, merge.
      State: window max (changed only by the "Invariant: v.MaxTime() == maxTime" repair),
      merged values; returns the updated blocks. *)
  Fixpoint dedup_pass (bs : list blk) (mn mx : Z) (mv : arr) : list blk * Z * arr :=
    match bs with
    | [] => ([], mx, mv)
    | b :: r =>
        if negb (overlaps b mn mx) || is_read b then
          let '(r', mx', mv') := dedup_pass r mn mx mv in (b :: r', mx', mv')
        else
          let v := b_vals b in
          let vmax := max_time v in
          let mx1 := if negb (b_max b =? vmax) && (mx =? b_max b) then vmax else mx in
          let b1 := if negb (b_max b =? vmax) then set_max b vmax else b in
          let v1 := arr_exclude v (b_rmin b1) (b_rmax b1) in
          let v2 := arr_include v1 mn mx1 in
          let b2 := if (0 <? length v2)%nat then mark_read b1 (min_time v2) (max_time v2) else b1 in
          let v3 := apply_tombs v2 (b_tombs b2) in
          let '(r', mx', mv') := dedup_pass r mn mx1 (arr_merge mv v3) in
          (b2 :: r', mx', mv')
    end.

  Fixpoint drop_read (bs : list blk) : list blk :=
    match bs with
    | b :: r => if is_read b then drop_read r else bs
    | [] => []
    end.

  (** [for k.merged…Values.Len() < k.size && len(k.blocks) > 0 { … }]; [None] = out of fuel *)
  Fixpoint dedup_loop (fuel size : nat) (bs : list blk) (mv : arr) : option (list blk * arr) :=
    if (length mv <? size)%nat && negb (Nat.eqb (length bs) 0) then
      match fuel with
      | O => None
      | S f =>
          match drop_read bs with
          | [] => Some ([], mv)
          | (first :: _) as bs1 =>
              let '(mn, mx) := window bs1 (b_min first, b_max first) in
              let '(bs2, _, mv2) := dedup_pass bs1 mn mx mv in
              dedup_loop f size bs2 mv2
          end
      end
    else Some (bs, mv).

  (** *** [combineFloat], non-dedup path *)

  (** first loop: skip read blocks, stop at the first block with fewer than [size] points,
      pass the others through.  Returns (merged, blocks[i:]). *)
  Fixpoint pass_full (size : nat) (bs merged : list blk) : list blk * list blk :=
    match bs with
    | [] => (merged, [])
    | b :: r =>
        if is_read b then pass_full size r merged
        else if (length (b_vals b) <? size)%nat then (merged, bs)
        else pass_full size r (merged ++ [b])
    end.

  Definition unread (bs : list blk) : list blk := filter (fun b => negb (is_read b)) bs.

  (** last loop: decode and append while fewer than [size] values are pending *)
  Fixpoint decode_rest (size : nat) (bs : list blk) (mv : arr) : list blk * arr :=
    match bs with
    | [] => ([], mv)
    | b :: r =>
        if (length mv <? size)%nat then
          if is_read b then decode_rest size r mv
          else decode_rest size r (arr_merge mv (apply_tombs (b_vals b) (b_tombs b)))
        else (bs, mv)
    end.

  Record st := mkst { s_blocks : list blk; s_merged : list blk; s_mv : arr }.

  Definition combine (fuel size : nat) (fast dedup : bool) (s : st) : option st :=
    if dedup then
      match dedup_loop fuel size (s_blocks s) (s_mv s) with
      | None => None
      | Some (bs, mv) => let '(m, mv') := chunk size [] mv in Some (mkst bs m mv')
      end
    else
      let '(m1, r1) := pass_full size (s_blocks s) (s_merged s) in
      let '(m2, r2) := if fast then (m1 ++ unread r1, []) else (m1, r1) in
      let '(m3, r3) := match r2 with
                       | [b] => (if is_read b then m2 else m2 ++ [b], [])
                       | _ => (m2, r2)
                       end in
      let '(r4, mv) := decode_rest size r3 (s_mv s) in
      let '(m, mv') := chunk size m3 mv in
      Some (mkst r4 m mv').

  (** the [dedup] decision of [mergeFloat] *)
  Fixpoint need_dedup_from (prev : blk) (bs : list blk) : bool :=
    match bs with
    | [] => false
    | b :: r => partially_read b || overlaps b (b_min prev) (b_max prev)
                || negb (Nat.eqb (length (b_tombs b)) 0) || need_dedup_from b r
    end.
  Definition need_dedup (bs : list blk) : bool :=
    match bs with
    | [] => false
    | b :: r => negb (Nat.eqb (length (b_tombs b)) 0) || partially_read b || need_dedup_from b r
    end.

  Definition nonempty {A} (l : list A) : bool := match l with [] => false | _ => true end.

  (** [mergeFloat] *)
  Definition merge (fuel size : nat) (fast : bool) (s : st) : option st :=
    if negb (nonempty (s_blocks s)) && negb (nonempty (s_merged s)) && negb (nonempty (s_mv s))
    then Some s
    else
      let bs := sort_blocks (s_blocks s) in
      let dedup := nonempty (s_mv s) || need_dedup bs in
      combine fuel size fast dedup (mkst bs (s_merged s) (s_mv s)).

  (** [Next] restricted to one key: [Some (Some s)] = returned true with state [s];
      [Some None] = everything of this key is consumed (the code goes on to refill [buf]);
      [None] = out of fuel. *)
  Definition next (fuel size : nat) (fast : bool) (s : st) : option (option st) :=
    let s := match s_merged s with [] => s | _ :: m => mkst (s_blocks s) m (s_mv s) end in
    if nonempty (s_merged s) then Some (Some s)
    else
      let step2 (s : st) : option (option st) :=
        if nonempty (s_blocks s) then
          match merge fuel size fast s with
          | None => None
          | Some s' => if nonempty (s_merged s') || nonempty (s_mv s') then Some (Some s') else Some None
          end
        else Some None in
      if nonempty (s_mv s) then
        match merge fuel size fast s with
        | None => None
        | Some s' => if nonempty (s_merged s') || nonempty (s_mv s') then Some (Some s') else step2 s'
        end
      else step2 s.

  (** what [Read] returns after a successful [Next]: the head of [merged] (an empty [merged]
      would make the real code hand a nil key to the writer: modelled as an empty block) *)
  Definition read_head (s : st) : blk :=
    match s_merged s with b :: _ => b | [] => mkblk 0 0 [] [] 0 0 end.

  (** iterate [Next; Read] over one key *)
  Fixpoint run_key (fuel size : nat) (fast : bool) (s : st) : option (list blk) :=
    match fuel with
    | O => None
    | S f =>
        match next fuel size fast s with
        | None => None
        | Some None => Some []
        | Some (Some s') =>
            match run_key f size fast s' with
            | None => None
            | Some out => Some (read_head s' :: out)
            end
        end
    end.

  (** *** Keys across files *)

  (** one index entry group of an input file: key, raw blocks (index min, index max, points),
      the reader's [TombstoneRange(key)] *)
  Definition rawblk : Type := Z * Z * arr.
  Definition kgroup : Type := N * list rawblk * list (Z * Z).
  Definition file : Type := list kgroup.

  Definition gkey (g : kgroup) : N := fst (fst g).
  Definition gblocks (g : kgroup) : list blk :=
    map (fun rb : rawblk => fresh (fst (fst rb)) (snd (fst rb)) (snd rb) (snd g)) (snd (fst g)).

  (** smallest head key over the files (the [buf] heads) *)
  Definition min_key (fs : list file) : option N :=
    fold_left (fun acc f => match f with
                            | [] => acc
                            | g :: _ => match acc with
                                        | None => Some (gkey g)
                                        | Some k => if (gkey g <? k)%N then Some (gkey g) else acc
                                        end
                            end) fs None.

  (** gather [k.blocks] for key [k] (file order) and advance those files *)
  Fixpoint take_key (k : N) (fs : list file) : list blk * list file :=
    match fs with
    | [] => ([], [])
    | f :: r =>
        let '(bs, r') := take_key k r in
        match f with
        | g :: f' => if (gkey g =? k)%N then (gblocks g ++ bs, f' :: r') else (bs, f :: r')
        | [] => (bs, f :: r')
        end
    end.

  Definition total_points (bs : list blk) : nat :=
    fold_left (fun n b => (n + length (b_vals b))%nat) bs 0%nat.
  (** generous: every [Next] emits a block or finishes; every dedup pass marks something *)
  Definition key_fuel (bs : list blk) : nat := (2 * total_points bs + 2 * length bs + 8)%nat.

  Definition out_seq : Type := list (N * blk).

  (** the whole iterator: the sequence of (key, block) handed to the TSM writer *)
  Fixpoint run_files (kfuel size : nat) (fast : bool) (fs : list file) : option out_seq :=
    match kfuel with
    | O => match min_key fs with None => Some [] | Some _ => None end
    | S kf =>
        match min_key fs with
        | None => Some []
        | Some k =>
            let '(bs, fs') := take_key k fs in
            match run_key (key_fuel bs) size fast (mkst bs [] []) with
            | None => None
            | Some out =>
                match run_files kf size fast fs' with
                | None => None
                | Some rest => Some (map (pair k) out ++ rest)
                end
            end
        end
    end.

  Definition files_fuel (fs : list file) : nat := fold_left (fun n f => (n + length f)%nat) fs 1%nat.

  (** *** [Compactor.write] / [writeNewFiles]: a file is closed right after the write that
      brings the entry count of its current key to [limit]; an empty last file is dropped. *)
  Fixpoint roll_go {A} (limit : nat) (cur : list (N * A)) (ckey : option N) (cnt : nat)
           (sq : list (N * A)) : list (list (N * A)) :=
    match sq with
    | [] => match cur with [] => [] | _ => [rev cur] end
    | (k, b) :: r =>
        let cnt' := match ckey with
                    | Some k0 => if (k0 =? k)%N then S cnt else 1%nat
                    | None => 1%nat
                    end in
        if (limit <=? cnt')%nat then rev ((k, b) :: cur) :: roll_go limit [] None 0 r
        else roll_go limit ((k, b) :: cur) (Some k) cnt' r
    end.
  Definition roll {A} (limit : nat) (sq : list (N * A)) : list (list (N * A)) :=
    roll_go limit [] None 0%nat sq.

  (** [Compactor.compact]: the files written (as flat (key, block) sequences) *)
  Definition compact (size : nat) (fast : bool) (fs : list file) : option (list out_seq) :=
    match run_files (files_fuel fs) size fast fs with
    | None => None
    | Some sq => Some (roll MaxIndexEntries sq)
    end.

  (** *** [cacheKeyIterator]: chunks of [size] values of an (already deduplicated) entry *)
  Fixpoint chunks_fuel (fuel size : nat) (vs : arr) : list blk :=
    match fuel with
    | O => []
    | S f =>
        match vs with
        | [] => []
        | _ => mkout (firstn size vs) :: chunks_fuel f size (skipn size vs)
        end
    end.
  Definition chunks (size : nat) (vs : arr) : list blk := chunks_fuel (length vs) size vs.

  (** [Cache.Snapshot(); snapshot.Deduplicate(); Compactor.WriteSnapshot(snapshot)] as the
      engine does it; the cache is given as its sorted key list with the raw appended values *)
  Definition snapshot (size : nat) (cache : list (N * arr)) : list out_seq :=
    roll MaxIndexEntries
         (concat (map (fun e => map (pair (fst e)) (chunks size (vals_dedup (snd e)))) cache)).

  (** ** Specification (independent of the mirror) *)

  Definition tombstoned (ts : list (Z * Z)) (p : Z * V) : bool :=
    existsb (fun t => (fst t <=? tm p) && (tm p <=? snd t)) ts.

  (** live points of key [k] in one file, in file order *)
  Definition file_points (k : N) (f : file) : arr :=
    concat (map (fun g : kgroup =>
                   if (gkey g =? k)%N
                   then filter (fun p => negb (tombstoned (snd g) p))
                               (concat (map (fun rb : rawblk => snd rb) (snd (fst g))))
                   else []) f).

  (** newest-wins merge over the files in argument order (a later file overrides) *)
  Definition content_spec (k : N) (fs : list file) : arr :=
    last_wins_sorted (concat (map (file_points k) fs)).

  Definition all_keys (fs : list file) : list N := concat (map (map gkey) fs).

  (** logical content of key [k] in a written sequence *)
  Definition seq_points {A} (k : N) (sq : list (N * A)) : list A :=
    map snd (filter (fun e => (fst e =? k)%N) sq).
  Definition out_content (k : N) (sq : out_seq) : arr := concat (map b_vals (seq_points k sq)).

  (** a well-formed block: non-empty, strictly increasing, index range = first/last point *)
  Definition wf_block (mn mx : Z) (vs : arr) : bool :=
    nonempty vs && ssorted_b vs && (mn =? min_time vs) && (mx =? max_time vs).
  Definition wf_blk (b : blk) : bool := wf_block (b_min b) (b_max b) (b_vals b).

  (** blocks ordered and disjoint in time *)
  Fixpoint ordered_from (prev : Z) (bs : list blk) : bool :=
    match bs with
    | [] => true
    | b :: r => (prev <? b_min b) && ordered_from (b_max b) r
    end.
  Definition ordered (bs : list blk) : bool :=
    match bs with [] => true | b :: r => ordered_from (b_max b) r end.

  (** keys of a sequence: runs of equal keys, strictly increasing between runs *)
  Fixpoint keys_sorted_from {A} (prev : N) (sq : list (N * A)) : bool :=
    match sq with
    | [] => true
    | (k, _) :: r => (prev <=? k)%N && keys_sorted_from k r
    end.
  Definition keys_sorted {A} (sq : list (N * A)) : bool :=
    match sq with [] => true | (k, _) :: r => keys_sorted_from k r end.

  (** input well-formedness: keys of a file strictly increasing; every block well-formed
      (the blocks of a key may overlap or be out of order, inside a file and across files) *)
  Fixpoint strict_keys_from (prev : N) (f : file) : bool :=
    match f with [] => true | g :: r => (prev <? gkey g)%N && strict_keys_from (gkey g) r end.
  Definition strict_keys (f : file) : bool :=
    match f with [] => true | g :: r => strict_keys_from (gkey g) r end.
  Definition wf_group (g : kgroup) : bool :=
    nonempty (snd (fst g)) && forallb wf_blk (gblocks g).
  Definition wf_file (f : file) : bool := strict_keys f && forallb wf_group f.
End Model.

Arguments blk : clear implicits.
Arguments st : clear implicits.
Arguments rawblk : clear implicits.
Arguments kgroup : clear implicits.
Arguments file : clear implicits.
Arguments out_seq : clear implicits.

(** ** Correspondence judge ([V := Z]: the driver numbers the values) *)

Definition oblk : Type := Z * Z * arr Z.       (* index min, index max, decoded points *)
Definition oblk_of (b : blk Z) : oblk := (b_min b, b_max b, b_vals b).
Definition oblk_eqb (a b : oblk) : bool :=
  (fst (fst a) =? fst (fst b)) && (snd (fst a) =? snd (fst b)) && arr_eqb (snd a) (snd b).
Definition kb_eqb (a b : N * oblk) : bool := N.eqb (fst a) (fst b) && oblk_eqb (snd a) (snd b).

(** an output file as read back: per key (index order) its blocks *)
Definition ofile : Type := list (N * list oblk).
Definition flat (f : ofile) : list (N * oblk) :=
  concat (map (fun e => map (pair (fst e)) (snd e)) f).

Record case := {
  c_mode : N;                       (* 0 CompactFull, 1 CompactFast, 2 WriteSnapshot *)
  c_size : nat;                     (* pointsPerBlock *)
  c_files : list (file Z);          (* the inputs, as the readers present them (argument order) *)
  c_cache : list (N * arr Z);       (* mode 2: sorted keys with the raw appended values *)
  c_err : bool;                     (* the call returned an error *)
  c_out : list ofile                (* the files it wrote, in order *)
}.

Definition blk_of_o (o : oblk) : blk Z := mkblk (fst (fst o)) (snd (fst o)) (snd o) [] 0 0.

Definition nodup_keys_sorted (f : ofile) : bool :=
  match map fst f with
  | [] => false                       (* an empty file must have been dropped *)
  | k :: r => (fix go (prev : N) (l : list N) : bool :=
                 match l with [] => true | x :: l' => (prev <? x)%N && go x l' end) k r
  end.

Definition in_blocks (fs : list (file Z)) : list oblk :=
  concat (map (fun f => concat (map (fun g : kgroup Z => snd (fst g)) f)) fs).

(** the property's oracle, evaluated on the implementation's own output *)
Definition oracle (c : case) : bool :=
  let outs := c_out c in
  let sq : list (N * oblk) := concat (map flat outs) in
  let keys := nodup N.eq_dec (if (c_mode c =? 2)%N then map fst (c_cache c) else all_keys (c_files c)) in
  let spec (k : N) : arr Z :=
    if (c_mode c =? 2)%N
    then last_wins_sorted (concat (map (fun e => if (fst e =? k)%N then snd e else []) (c_cache c)))
    else content_spec k (c_files c) in
  let okeys := nodup N.eq_dec (map fst sq) in
  negb (c_err c)
  (* every output file: keys strictly increasing, no empty key entry, no empty file *)
  && forallb nodup_keys_sorted outs
  && forallb (fun f => forallb (fun e => nonempty (snd e)) f) outs
  (* content: per input key, and no key from nowhere *)
  && forallb (fun k => arr_eqb (concat (map (fun o : oblk => snd o) (seq_points k sq))) (spec k)) keys
  && forallb (fun k => existsb (N.eqb k) keys) okeys
  (* blocks of one key (across the written files, in order): well-formed, ordered, disjoint *)
  && forallb (fun k => let bs := map blk_of_o (seq_points k sq) in
                       forallb wf_blk bs && ordered bs) okeys
  (* block size: at most size points, or an unchanged input block *)
  && forallb (fun e : N * oblk =>
                (length (snd (snd e)) <=? c_size c)%nat
                || (negb (c_mode c =? 2)%N && existsb (oblk_eqb (snd e)) (in_blocks (c_files c)))) sq
  (* no key has more than maxIndexEntries blocks in one file *)
  && forallb (fun f => forallb (fun e => (length (snd e) <=? MaxIndexEntries)%nat) f) outs.

Definition model_out (c : case) : option (list (list (N * oblk))) :=
  let conv (l : list (out_seq Z)) := map (map (fun e => (fst e, oblk_of (snd e)))) l in
  if (c_mode c =? 2)%N then Some (conv (snapshot (c_size c) (c_cache c)))
  else match compact (c_size c) (c_mode c =? 1)%N (c_files c) with
       | None => None
       | Some l => Some (conv l)
       end.

Definition check (c : case) : verdict :=
  let same :=
    match model_out c with
    | None => false
    | Some m => negb (c_err c) && list_eqb (list_eqb kb_eqb) (map flat (c_out c)) m
    end in
  (* a case whose inputs are not well-formed TSM files is a driver error: flag it loudly *)
  let wf := if (c_mode c =? 2)%N then true else forallb wf_file (c_files c) in
  if wf && (0 <? c_size c)%nat then judge same (oracle c) else V_BAD.
