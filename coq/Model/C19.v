(** C19 — Retention drops only expired data.

    Mirror of [RetentionPolicyInfo.ExpiredShardGroups] / [DeletedShardGroups],
    [Data.DeleteShardGroup], [Data.DropShard], [Data.PruneShardGroups]
    (/repo/v1/services/meta/data.go), of one pass of
    [retention.Service.DeletionCheck] (/repo/v1/services/retention/service.go, OSS
    mode) and of the retention bound of [PointsWriter.MapShards] /
    [WritePointsPrivileged] (/repo/v1/coordinator/points_writer.go); shard-group
    creation is the C18 model.

    Times are [Z] nanoseconds (unbounded, like [time.Time.Add]).  [DeletedAt] is
    abstracted to three classes: 0 = not deleted, 1 = deleted less than two weeks
    ago (not yet prunable), 2 = deleted more than two weeks ago. *)
From Verif Require Import Base.Prelude Model.C18.
Local Open Scope Z_scope.

Record rgroup := { rg_id : N; rg_end : Z; rg_del : N; rg_shards : list N }.
Record rpol := { rp_D : Z; rp_groups : list rgroup }.

Definition rg_deleted (g : rgroup) : bool := negb (N.eqb (rg_del g) 0).

(** [ExpiredShardGroups(t)]: not deleted, Duration != 0, EndTime.Add(Duration).Before(t) *)
Definition expired_b (D now : Z) (g : rgroup) : bool :=
  if rg_deleted g then false else negb (D =? 0) && (rg_end g + D <? now).
Definition expired_groups (D now : Z) (gs : list rgroup) : list rgroup := filter (expired_b D now) gs.
Definition deleted_groups (gs : list rgroup) : list rgroup := filter rg_deleted gs.

(** the property's wording: the group's whole range is older than now - D *)
Definition expired_spec (D now : Z) (g : rgroup) : bool :=
  negb (rg_deleted g) && negb (D =? 0) && (rg_end g <? now - D).

Definition memN (x : N) (l : list N) : bool := existsb (N.eqb x) l.

(** ---------- one pass of DeletionCheck ---------- *)

Definition set_del (g : rgroup) (k : N) : rgroup :=
  {| rg_id := rg_id g; rg_end := rg_end g; rg_del := k; rg_shards := rg_shards g |}.

(** phase 1 on one policy: DeleteShardGroup for the expired groups *)
Definition mark_rp (now : Z) (r : rpol) : rpol :=
  {| rp_D := rp_D r;
     rp_groups := map (fun g => if expired_b (rp_D r) now g then set_del g 1 else g) (rp_groups r) |}.

(** shard ids collected in [deletedShardIDs] for one policy *)
Definition doomed_rp (now : Z) (r : rpol) : list N :=
  flat_map rg_shards (deleted_groups (rp_groups r)) ++
  flat_map rg_shards (expired_groups (rp_D r) now (rp_groups r)).

(** [Data.DropShard]: remove the shard from the FIRST group holding it; a group
    losing its last shard is marked deleted unless it already is. *)
Definition drop_from (id : N) (g : rgroup) : rgroup :=
  {| rg_id := rg_id g; rg_end := rg_end g;
     rg_del := if Nat.eqb (length (rg_shards g)) 1 && negb (rg_deleted g) then 1%N else rg_del g;
     rg_shards := filter (fun s => negb (N.eqb s id)) (rg_shards g) |}.

Fixpoint drop_in_groups (id : N) (gs : list rgroup) : option (list rgroup) :=
  match gs with
  | [] => None
  | g :: r => if memN id (rg_shards g) then Some (drop_from id g :: r)
              else option_map (cons g) (drop_in_groups id r)
  end.

Fixpoint drop_in_rps (id : N) (rps : list rpol) : option (list rpol) :=
  match rps with
  | [] => None
  | r :: rest =>
      match drop_in_groups id (rp_groups r) with
      | Some gs' => Some ({| rp_D := rp_D r; rp_groups := gs' |} :: rest)
      | None => option_map (cons r) (drop_in_rps id rest)
      end
  end.

Definition drop_meta (id : N) (rps : list rpol) : list rpol :=
  match drop_in_rps id rps with Some r => r | None => rps end.

Inductive derr := DOk | DNotFound | DFail.

Definition err_of (errs : list (N * derr)) (id : N) : derr :=
  match find (fun p => N.eqb (fst p) id) errs with Some p => snd p | None => DOk end.

(** result of the loop over [TSDBStore.ShardIDs()] *)
Record loop_out := {
  lo_store : list N;            (* shards left in the store *)
  lo_calls : list N;            (* DeleteShard calls, in order *)
  lo_blocks : list (N * bool);  (* SetShardNewReadersBlocked calls, in order *)
  lo_drop : list N;             (* shards whose meta reference is dropped *)
  lo_seen : list N }.           (* doomed shards found in the store *)

Fixpoint store_loop (doomed inuse : list N) (errs : list (N * derr)) (store : list N) : loop_out :=
  match store with
  | [] => {| lo_store := []; lo_calls := []; lo_blocks := []; lo_drop := []; lo_seen := [] |}
  | id :: rest =>
      let o := store_loop doomed inuse errs rest in
      if memN id doomed then
        if memN id inuse then
          {| lo_store := id :: lo_store o; lo_calls := lo_calls o;
             lo_blocks := (id, true) :: (id, false) :: lo_blocks o;
             lo_drop := lo_drop o; lo_seen := id :: lo_seen o |}
        else match err_of errs id with
             | DOk => {| lo_store := lo_store o; lo_calls := id :: lo_calls o;
                         lo_blocks := (id, true) :: lo_blocks o;
                         lo_drop := id :: lo_drop o; lo_seen := id :: lo_seen o |}
             | DNotFound => {| lo_store := id :: lo_store o; lo_calls := id :: lo_calls o;
                               lo_blocks := (id, true) :: lo_blocks o;
                               lo_drop := id :: lo_drop o; lo_seen := id :: lo_seen o |}
             | DFail => {| lo_store := id :: lo_store o; lo_calls := id :: lo_calls o;
                           lo_blocks := (id, true) :: (id, false) :: lo_blocks o;
                           lo_drop := lo_drop o; lo_seen := id :: lo_seen o |}
             end
      else {| lo_store := id :: lo_store o; lo_calls := lo_calls o; lo_blocks := lo_blocks o;
              lo_drop := lo_drop o; lo_seen := lo_seen o |}
  end.

(** [PruneShardGroups]: deleted more than two weeks ago and no shards left *)
Definition prunable (g : rgroup) : bool := N.eqb (rg_del g) 2 && match rg_shards g with [] => true | _ => false end.
Definition prune_rp (r : rpol) : rpol :=
  {| rp_D := rp_D r; rp_groups := filter (fun g => negb (prunable g)) (rp_groups r) |}.

Record pass_out := { po_rps : list rpol; po_store : list N; po_calls : list N; po_blocks : list (N * bool) }.

Definition deletion_check (now : Z) (rps : list rpol) (store inuse : list N) (errs : list (N * derr)) : pass_out :=
  let doomed := flat_map (doomed_rp now) rps in
  let rps1 := map (mark_rp now) rps in
  let o := store_loop doomed inuse errs store in
  (* phantom shards: doomed, not in the store *)
  let phantom := filter (fun id => negb (memN id (lo_seen o))) doomed in
  let rps2 := fold_left (fun acc id => drop_meta id acc) (lo_drop o ++ phantom) rps1 in
  {| po_rps := map prune_rp rps2; po_store := lo_store o; po_calls := lo_calls o; po_blocks := lo_blocks o |}.

(** ---------- write path: the retention bound of MapShards ---------- *)

(** first loop of MapShards with a lower bound [minb] = now - Duration (or MinNanoTime) *)
Fixpoint ms_collect_min (minb : Z) (st : state) (lst : list group) (ts : list Z) : option (state * list group) :=
  match ts with
  | [] => Some (st, lst)
  | t :: r =>
      if (t <? minb) || existsb (fun g => contains g t) lst then ms_collect_min minb st lst r
      else match client_create st t with
           | (st', Some g) => ms_collect_min minb st' (lst ++ [g]) r
           | (_, None) => None
           end
  end.

(** per point: Some group id it is written to, or None = dropped (AddDropped) *)
Definition write_points (minb : Z) (st : state) (ts : list Z) : option (state * list (option N)) :=
  match ms_collect_min minb st [] ts with
  | Some (st', lst) =>
      (* second loop (repair c26a5a4c30): a point older than the bound is dropped
         before the list is consulted *)
      Some (st', map (fun t => if t <? minb then None else option_map g_id (sg_at lst t)) ts)
  | None => None
  end.

Definition count_none (l : list (option N)) : N :=
  N.of_nat (length (filter (fun o => match o with None => true | Some _ => false end) l)).

(** ---------- correspondence cases ---------- *)

Definition rgview := (N * N * list N)%type.     (* id, deletion class, shards *)
Definition view_rp (r : rpol) : list rgview := map (fun g => (rg_id g, rg_del g, rg_shards g)) (rp_groups r).

Record pass_in := { pi_inuse : list N; pi_errs : list (N * derr) }.
Record pass_obs := { ob_rps : list (list rgview); ob_store : list N; ob_calls : list N; ob_blocks : list (N * bool) }.

Inductive case :=
| CExpired (D now : Z) (gs : list rgroup) (expired deleted : list N)
    (* impl: ids returned by ExpiredShardGroups(now) and DeletedShardGroups() *)
| CService (now : Z) (rps : list rpol) (store : list N) (passes : list (pass_in * pass_obs))
| CWrite (sgd : Z) (minb : option Z) (pre pts : list Z)
    (mapped : list (option N))   (* impl: group id each point was written to / None *)
    (dropped_err : option N).    (* impl: Dropped of the PartialWriteError, None = no error *)

Definition view_eqb (a b : rgview) : bool :=
  N.eqb (fst (fst a)) (fst (fst b)) && N.eqb (snd (fst a)) (snd (fst b)) && list_eqb N.eqb (snd a) (snd b).
Definition nb_eqb (a b : N * bool) : bool := N.eqb (fst a) (fst b) && Bool.eqb (snd a) (snd b).

Definition obs_of (o : pass_out) : pass_obs :=
  {| ob_rps := map view_rp (po_rps o); ob_store := po_store o; ob_calls := po_calls o; ob_blocks := po_blocks o |}.

Definition pobs_eqb (a b : pass_obs) : bool :=
  list_eqb (list_eqb view_eqb) (ob_rps a) (ob_rps b) && list_eqb N.eqb (ob_store a) (ob_store b)
  && list_eqb N.eqb (ob_calls a) (ob_calls b) && list_eqb nb_eqb (ob_blocks a) (ob_blocks b).

(** oracle of one pass, on the observed output [o] given the state before:
    a live group is deleted afterwards iff its whole range is older than now - D;
    a live, unexpired group keeps its shards; every DeleteShard call is for a shard
    of a group that was already deleted or is expired; the store loses only
    shards for which DeleteShard was called. *)
Definition find_view (vs : list rgview) (id : N) : option rgview :=
  find (fun v => N.eqb (fst (fst v)) id) vs.

Definition rp_pass_ok (now : Z) (r : rpol) (vs : list rgview) : bool :=
  forallb (fun g =>
    if rg_deleted g then true else
    match find_view vs (rg_id g) with
    | None => false
    | Some v =>
        if expired_spec (rp_D r) now g then negb (N.eqb (snd (fst v)) 0)
        else N.eqb (snd (fst v)) 0 && list_eqb N.eqb (snd v) (rg_shards g)
    end) (rp_groups r).

Definition allowed_shards (now : Z) (rps : list rpol) : list N :=
  flat_map (fun r => flat_map rg_shards
     (filter (fun g => rg_deleted g || expired_spec (rp_D r) now g) (rp_groups r))) rps.

Definition pass_ok (now : Z) (rps : list rpol) (store : list N) (o : pass_obs) : bool :=
  Nat.eqb (length rps) (length (ob_rps o)) &&
  forallb (fun p => rp_pass_ok now (fst p) (snd p)) (combine rps (ob_rps o)) &&
  forallb (fun id => memN id (allowed_shards now rps) && memN id store) (ob_calls o) &&
  forallb (fun id => memN id (ob_store o) || memN id (ob_calls o)) store &&
  forallb (fun id => memN id store) (ob_store o).

(** rebuild the model-side policies after an observed pass (ends and durations do
    not change; groups may disappear by pruning) *)
Definition rebuild_rp (r : rpol) (vs : list rgview) : rpol :=
  {| rp_D := rp_D r;
     rp_groups := flat_map (fun v =>
        match find (fun g => N.eqb (rg_id g) (fst (fst v))) (rp_groups r) with
        | Some g => [{| rg_id := rg_id g; rg_end := rg_end g; rg_del := snd (fst v); rg_shards := snd v |}]
        | None => []
        end) vs |}.

Fixpoint service_check (now : Z) (rps : list rpol) (store : list N)
         (passes : list (pass_in * pass_obs)) : bool * bool :=
  match passes with
  | [] => (true, true)
  | (i, o) :: rest =>
      let m := deletion_check now rps store (pi_inuse i) (pi_errs i) in
      let same := pobs_eqb o (obs_of m) in
      let ok := pass_ok now rps store o in
      (* continue from the OBSERVED state *)
      let rps' := map (fun p => rebuild_rp (fst p) (snd p)) (combine rps (ob_rps o)) in
      let (s2, k2) := service_check now rps' (ob_store o) rest in
      (same && s2, ok && k2)
  end.

Definition check (c : case) : verdict :=
  match c with
  | CExpired D now gs ex del =>
      judge (list_eqb N.eqb ex (map rg_id (expired_groups D now gs)) &&
             list_eqb N.eqb del (map rg_id (deleted_groups gs)))
            (list_eqb N.eqb ex (map rg_id (filter (expired_spec D now) gs)) &&
             list_eqb N.eqb del (map rg_id (filter rg_deleted gs)))
  | CService now rps store passes =>
      let (s, k) := service_check now rps store passes in judge s k
  | CWrite sgd minb pre pts mapped derr =>
      let mb := match minb with Some m => m | None => MinNano end in
      let st0 := match write_points mb (init sgd) pre with Some (st, _) => st | None => init sgd end in
      let same :=
        match write_points mb st0 pts with
        | Some (_, m) => list_eqb (option_eqb N.eqb) mapped m &&
                         option_eqb N.eqb derr (if N.eqb (count_none m) 0 then None else Some (count_none m))
        | None => false
        end in
      (* oracle: dropped exactly when older than the bound, exact count reported *)
      let want := map (fun t => t <? mb) pts in
      let got := map (fun o => match o with None => true | Some _ => false end) mapped in
      let n := N.of_nat (length (filter (fun b => b) want)) in
      judge same (list_eqb Bool.eqb got want && option_eqb N.eqb derr (if N.eqb n 0 then None else Some n))
  end.
