(** C12 — proofs about the parser mirror of Model/C11.v (parse_points). *)
From Verif Require Import Base.Prelude Model.C11 Model.C12.
From Coq Require Import ZifyBool ZifyN Sorted.
Local Open Scope N_scope.

(** * Generic helpers *)
Lemma res_ok_inv {A} (r : res A) a : r = Ok a -> exists x, r = Ok x. Proof. eauto. Qed.

Lemma In_filter_some {A} (l : list (option A)) a : In a (filter_some l) <-> In (Some a) l.
Proof.
  induction l as [|[x|] l IH]; cbn; [tauto| |].
  - rewrite IH. split; intros [H|H]; auto; left; congruence.
  - rewrite IH. split; [auto|]. intros [H|H]; [discriminate|auto].
Qed.

(** * The error list names exactly the rejected candidate lines, in order *)
Definition is_ok {A} (r : res A) : bool := match r with Ok _ => true | Err _ => false end.

Fixpoint oks {A} (l : list (res A)) : list A :=
  match l with [] => [] | Ok a :: r => a :: oks r | Err _ :: r => oks r end.

Lemma parse_lines_spec prec dflt lines :
  fst (parse_lines prec dflt lines) = oks (map (parse_point prec dflt) lines) /\
  map fst (snd (parse_lines prec dflt lines))
    = filter (fun t => negb (is_ok (parse_point prec dflt t))) lines.
Proof.
  induction lines as [|t r [IH1 IH2]]; cbn; [auto|].
  destruct (parse_lines prec dflt r) as [ps es] eqn:E. cbn in IH1, IH2.
  destruct (parse_point prec dflt t) eqn:P; cbn; split; congruence.
Qed.

Lemma parse_lines_err_class prec dflt lines t e :
  In (t, e) (snd (parse_lines prec dflt lines)) -> In t lines /\ parse_point prec dflt t = Err e.
Proof.
  induction lines as [|x r IH]; cbn; [tauto|].
  destruct (parse_lines prec dflt r) as [ps es] eqn:E. cbn in IH.
  destruct (parse_point prec dflt x) eqn:P; cbn; intro H.
  - destruct (IH H); auto.
  - destruct H as [H|H]; [inversion H; subst; auto|destruct (IH H); auto].
Qed.

Lemma parse_lines_point prec dflt lines p :
  In p (fst (parse_lines prec dflt lines)) -> exists t, In t lines /\ parse_point prec dflt t = Ok p.
Proof.
  induction lines as [|x r IH]; cbn; [tauto|].
  destruct (parse_lines prec dflt r) as [ps es] eqn:E. cbn in IH.
  destruct (parse_point prec dflt x) eqn:P; cbn; intro H.
  - destruct H as [H|H]; [subst; eauto|]. destruct (IH H) as [t [? ?]]; eauto.
  - destruct (IH H) as [t [? ?]]; eauto.
Qed.

(** a candidate line is a block that is not blank and not a comment *)
Definition all_ws (l : bytes) : bool := forallb is_ws l.

Lemma skip_ws_split l : exists ws, l = ws ++ skip_ws l /\ all_ws ws = true.
Proof.
  induction l as [|c t [ws [E W]]]; cbn.
  - exists []; auto.
  - destruct (is_ws c) eqn:Hc.
    + exists (c :: ws). split; [cbn; f_equal; exact E|]. unfold all_ws in *; cbn. rewrite Hc. exact W.
    + exists []; auto.
Qed.

Lemma skip_ws_head l c r : skip_ws l = c :: r -> is_ws c = false.
Proof.
  induction l as [|x t IH]; cbn; [discriminate|].
  destruct (is_ws x) eqn:Hx; [exact IH|]. intro H; inversion H; subst; exact Hx.
Qed.

Lemma candidate_none block :
  candidate block = None <->
  (all_ws block = true \/ exists ws r, block = ws ++ HASH :: r /\ all_ws ws = true).
Proof.
  unfold candidate. destruct (skip_ws_split block) as [ws [E W]].
  destruct (skip_ws block) as [|c r] eqn:S.
  - split; [intros _; left|reflexivity]. rewrite E, app_nil_r. exact W.
  - pose proof (skip_ws_head _ _ _ S) as Hc.
    destruct (c =? HASH) eqn:Hh.
    + apply N.eqb_eq in Hh; subst c. split; [intros _; right; eauto|reflexivity].
    + split; [discriminate|]. intros [H|[ws' [r' [E' W']]]]; exfalso.
      * rewrite E in H. unfold all_ws in H. rewrite forallb_app in H.
        apply andb_true_iff in H as [_ H]. cbn in H. rewrite Hc in H. discriminate.
      * (* the first non-whitespace byte of the block is c, not # *)
        assert (HH : forall a b x y u v, all_ws a = true -> all_ws b = true -> is_ws x = false ->
                  is_ws y = false -> a ++ x :: u = b ++ y :: v -> x = y).
        { clear. induction a as [|p a IH]; intros [|q b] x y u v Wa Wb Hx Hy Eq; cbn in *.
          - congruence.
          - inversion Eq; subst. apply andb_true_iff in Wb as [Wq _]. congruence.
          - inversion Eq; subst. apply andb_true_iff in Wa as [Wp _]. congruence.
          - inversion Eq; subst. apply andb_true_iff in Wa as [_ Wa]. apply andb_true_iff in Wb as [_ Wb]. eauto. }
        rewrite E in E'. assert (c = HASH) by (eapply (HH ws ws' c HASH r r'); auto).
        subst c. discriminate.
Qed.

(** * Inversion of parsePoint *)
Lemma parse_point_inv prec dflt buf p :
  parse_point prec dflt buf = Ok p ->
  exists r1 r2 ts r3 ps,
    scan_key buf = Ok (rp_key p, r1) /\ rp_key p <> [] /\ (blen (rp_key p) <=? MaxKeyLength) = true /\
    scan_fields r1 = Ok (rp_fields p, r2) /\ rp_fields p <> [] /\
    split_fields (blen (rp_key p)) (rp_fields p) = Ok ps /\
    scan_time r2 = Ok (ts, r3) /\
    ((ts = [] /\ rp_time p = trunc_time dflt prec) \/
     (exists v, parse_int64 ts = Some v /\ safe_calc_time v prec = Some (rp_time p) /\
                forallb (N.eqb SP) r3 = true)).
Proof.
  unfold parse_point. intro H.
  destruct (scan_key buf) as [[key r1]|] eqn:K; [|discriminate].
  destruct key as [|k0 key]; [discriminate|].
  destruct (MaxKeyLength <? blen (k0 :: key)) eqn:L; [discriminate|].
  destruct (scan_fields r1) as [[fields r2]|] eqn:F; [|discriminate].
  destruct fields as [|f0 fields]; [discriminate|].
  destruct (split_fields (blen (k0 :: key)) (f0 :: fields)) as [ps|] eqn:W; [|discriminate].
  destruct (scan_time r2) as [[ts r3]|] eqn:T; [|discriminate].
  destruct ts as [|t0 ts].
  - inversion H; subst; cbn. exists r1, r2, [], r3, ps. repeat split; auto; try discriminate.
    apply N.leb_le. apply N.ltb_ge in L. exact L.
  - destruct (parse_int64 (t0 :: ts)) as [v|] eqn:PI; [|discriminate].
    destruct (safe_calc_time v prec) as [t|] eqn:SC; [|discriminate].
    destruct (forallb (N.eqb SP) r3) eqn:FA; [|discriminate].
    inversion H; subst; cbn. exists r1, r2, (t0 :: ts), r3, ps. repeat split; auto; try discriminate.
    + apply N.leb_le. apply N.ltb_ge in L. exact L.
    + right. exists v. auto.
Qed.

(** * Non-empty measurement *)
Lemma mcons_MFld c r m rest : mcons c r = MFld m rest -> exists m', r = MFld m' rest /\ m = c :: m'.
Proof. destruct r; cbn; intro H; inversion H; eauto. Qed.
Lemma mcons_MTag c r m rest : mcons c r = MTag m rest -> exists m', r = MTag m' rest /\ m = c :: m'.
Proof. destruct r; cbn; intro H; inversion H; eauto. Qed.

Lemma scan_meas_head l m rest :
  scan_meas l = MFld m rest \/ scan_meas l = MTag m rest ->
  exists c m', m = c :: m' /\ (c =? COMMA) = false.
Proof.
  destruct l as [|c t]; cbn; [intros [H|H]; discriminate|].
  destruct (c =? COMMA) eqn:E; [intros [H|H]; discriminate|].
  intros [H|H]; [apply mcons_MFld in H|apply mcons_MTag in H]; destruct H as [m' [_ ->]]; eauto.
Qed.

Lemma scan_key_head buf key r :
  scan_key buf = Ok (key, r) -> exists c k', key = c :: k' /\ (c =? COMMA) = false.
Proof.
  unfold scan_key. destruct (scan_meas (skip_ws buf)) as [m rest0|m rest0| |] eqn:M; try discriminate.
  - destruct (scan_meas_head _ _ _ (or_intror M)) as [c [m' [-> Hc]]].
    destruct (scan_tags KFirst 0 rest0) as [[tags rest]|]; [|discriminate].
    destruct (existsb _ tags); [discriminate|].
    destruct (first_pass tags); try discriminate.
    + intro H; inversion H; subst. cbn. eauto.
    + destruct (adjacent_dup _); [discriminate|]. intro H; inversion H; subst. cbn. eauto.
  - destruct (scan_meas_head _ _ _ (or_introl M)) as [c [m' [-> Hc]]].
    intro H; inversion H; subst. eauto.
Qed.

Lemma unescape4_nonempty l : l <> [] -> unescape4 l <> [].
Proof.
  destruct l as [|c t]; [congruence|]. intros _. cbn.
  destruct (c =? BSL); [|discriminate].
  destruct t as [|a t2]; [discriminate|]. destruct (is_esc_char a); discriminate.
Qed.

Lemma name_of_nonempty c k : (c =? COMMA) = false -> name_of (c :: k) <> [].
Proof.
  intro H. unfold name_of, scan_to. cbn [scan_to_loop]. rewrite H. cbn [andb pcons fst].
  apply unescape4_nonempty. discriminate.
Qed.

(** * Representable timestamp *)
Lemma safe_calc_time_ok v prec t : safe_calc_time v prec = Some t -> time_ok t = true.
Proof.
  unfold safe_calc_time. destruct (safe_signed_mult v (prec_mult prec)); [|discriminate].
  destruct (time_ok z) eqn:E; [|discriminate]. intro H; inversion H; subst; exact E.
Qed.

(** * Fields: at least one, and series key + 4 + field key within MaxKeyLength *)
Lemma list_len_ind {A} (P : list A -> Prop) :
  (forall l, (forall l', (length l' < length l)%nat -> P l') -> P l) -> forall l, P l.
Proof.
  intros H l. assert (G : forall n l, (length l < n)%nat -> P l).
  { induction n; intros l0 Hl; [lia|]. apply H. intros l' Hl'. apply IHn. lia. }
  apply (G (S (length l))). lia.
Qed.

Lemma pushk_ok c r ps : pushk c r = Ok ps ->
  exists ps0, r = Ok ps0 /\
    ps = match ps0 with (k, v) :: ps' => (c :: k, v) :: ps' | [] => [([c], [])] end.
Proof. destruct r as [[|[k v] ps']|]; cbn; intro H; inversion H; subst; eauto. Qed.
Lemma pushv_ok c r ps : pushv c r = Ok ps ->
  exists ps0, r = Ok ps0 /\
    ps = match ps0 with (k, v) :: ps' => (k, c :: v) :: ps' | [] => [([], [c])] end.
Proof. destruct r as [[|[k v] ps']|]; cbn; intro H; inversion H; subst; eauto. Qed.
Lemma newpair_ok r ps : newpair r = Ok ps -> exists ps', ps = ([], []) :: ps' /\ r = Ok ps'.
Proof. destruct r; cbn; intro H; inversion H; eauto. Qed.

Lemma blen_cons c l : blen (c :: l) = 1 + blen l.
Proof. unfold blen. cbn [length]. lia. Qed.

Definition fbound (klen : N) (kv : bytes * bytes) : Prop := klen + 4 + blen (fst kv) <= MaxKeyLength.

(** Invariant of the results of split_fields_st: in key mode the pair under construction
    has [n] more key bytes to its left; in value mode its key part is still empty. *)
Definition sf_inv (klen : N) (m : wmode) (ps : list (bytes * bytes)) : Prop :=
  match m with
  | WKey _ _ n => exists k v r, ps = (k, v) :: r /\ klen + 4 + n + blen k <= MaxKeyLength /\ Forall (fbound klen) r
  | WVal _ => exists v r, ps = ([], v) :: r /\ Forall (fbound klen) r
  end.

Lemma split_fields_st_inv klen : forall l m ps,
  split_fields_st klen m l = Ok ps -> sf_inv klen m ps.
Proof.
  induction l as [l IH] using list_len_ind. intros m ps H.
  destruct l as [|c t].
  - destruct m; cbn in H; [discriminate|]. inversion H; subst. cbn. eauto.
  - assert (IHt : forall m ps, split_fields_st klen m t = Ok ps -> sf_inv klen m ps)
      by (intros; eapply IH; eauto; cbn; lia).
    destruct m as [first prev n|quoted]; cbn [split_fields_st] in H.
    + destruct ((c =? EQ) && (first || negb (prev =? BSL))) eqn:E.
      * destruct t as [|t0 t']; [discriminate|].
        destruct (MaxKeyLength <? klen + 4 + n) eqn:L; [discriminate|].
        apply IHt in H. cbn in H. destruct H as [v [r [-> H]]].
        cbn. exists [], v, r. split; [reflexivity|]. split; [|exact H].
        apply N.ltb_ge in L. unfold blen; cbn. lia.
      * apply pushk_ok in H as [ps0 [H ->]]. apply IHt in H. cbn in H.
        destruct H as [k [v [r [-> [H1 H2]]]]]. cbn. exists (c :: k), v, r.
        split; [reflexivity|]. split; [|exact H2]. rewrite blen_cons. lia.
    + assert (OTHER : forall ps,
                (if c =? DQ then pushv c (split_fields_st klen (WVal (negb quoted)) t)
                 else if (c =? COMMA) && negb quoted then
                   match t with [] => Ok [([], [])] | _ => newpair (split_fields_st klen (WKey true 0 0) t) end
                 else pushv c (split_fields_st klen (WVal quoted) t)) = Ok ps ->
                sf_inv klen (WVal quoted) ps).
      { intros ps0 H0. destruct (c =? DQ).
        - apply pushv_ok in H0 as [ps1 [H0 ->]]. apply IHt in H0. cbn in H0.
          destruct H0 as [v' [r' [-> F']]]. cbn. eauto.
        - destruct ((c =? COMMA) && negb quoted).
          + destruct t as [|t0 t']; [inversion H0; subst; cbn; eauto|].
            apply newpair_ok in H0 as [ps' [-> H0]]. apply IHt in H0. cbn in H0.
            destruct H0 as [k [v [r [-> [H1 H2]]]]].
            cbn. exists [], ((k, v) :: r). split; [reflexivity|]. constructor; [unfold fbound; cbn; lia|exact H2].
          + apply pushv_ok in H0 as [ps1 [H0 ->]]. apply IHt in H0. cbn in H0.
            destruct H0 as [v' [r' [-> F']]]. cbn. eauto. }
      destruct (c =? BSL); [|exact (OTHER _ H)].
      destruct t as [|a t2]; [exact (OTHER _ H)|].
      destruct ((a =? DQ) || (a =? BSL)); [|exact (OTHER _ H)].
      apply pushv_ok in H as [ps1 [H ->]]. apply pushv_ok in H as [ps2 [H ->]].
      eapply IH in H; [|cbn; lia]. cbn in H. destruct H as [v' [r' [-> F']]]. cbn. eauto.
Qed.

Lemma split_fields_bound klen fields ps :
  split_fields klen fields = Ok ps -> Forall (fbound klen) ps /\ (fields <> [] -> ps <> []).
Proof.
  unfold split_fields. destruct fields as [|f0 fs]; [intro H; inversion H; subst; split; [constructor|congruence]|].
  intro H. apply split_fields_st_inv in H. cbn in H. destruct H as [k [v [r [-> [H1 H2]]]]].
  split; [|discriminate]. constructor; [unfold fbound; cbn; lia|exact H2].
Qed.

(** the split itself does not depend on the key length (only the size check does) *)
Lemma split_fields_st_klen0 klen : forall l m ps,
  split_fields_st klen m l = Ok ps -> split_fields_st 0 m l = Ok ps.
Proof.
  induction l as [l IH] using list_len_ind. intros m ps H.
  destruct l as [|c t]; [destruct m; cbn in *; congruence|].
  assert (IHt : forall m ps, split_fields_st klen m t = Ok ps -> split_fields_st 0 m t = Ok ps)
    by (intros; eapply IH; eauto; cbn; lia).
  destruct m as [first prev n|quoted]; cbn [split_fields_st] in *.
  - destruct ((c =? EQ) && (first || negb (prev =? BSL))).
    + destruct t as [|t0 t']; [discriminate|].
      destruct (MaxKeyLength <? klen + 4 + n) eqn:L; [discriminate|].
      assert (L0 : (MaxKeyLength <? 0 + 4 + n) = false) by (apply N.ltb_ge; apply N.ltb_ge in L; lia).
      rewrite L0. apply IHt. exact H.
    + apply pushk_ok in H as [ps0 [H ->]]. rewrite (IHt _ _ H). destruct ps0 as [|[? ?] ?]; reflexivity.
  - assert (OTHER : forall ps,
                (if c =? DQ then pushv c (split_fields_st klen (WVal (negb quoted)) t)
                 else if (c =? COMMA) && negb quoted then
                   match t with [] => Ok [([], [])] | _ => newpair (split_fields_st klen (WKey true 0 0) t) end
                 else pushv c (split_fields_st klen (WVal quoted) t)) = Ok ps ->
                (if c =? DQ then pushv c (split_fields_st 0 (WVal (negb quoted)) t)
                 else if (c =? COMMA) && negb quoted then
                   match t with [] => Ok [([], [])] | _ => newpair (split_fields_st 0 (WKey true 0 0) t) end
                 else pushv c (split_fields_st 0 (WVal quoted) t)) = Ok ps).
    { intros ps0 H0. destruct (c =? DQ).
      - apply pushv_ok in H0 as [ps1 [H0 ->]]. rewrite (IHt _ _ H0). destruct ps1 as [|[? ?] ?]; reflexivity.
      - destruct ((c =? COMMA) && negb quoted).
        + destruct t as [|t0 t']; [exact H0|].
          apply newpair_ok in H0 as [ps' [-> H0]]. rewrite (IHt _ _ H0). reflexivity.
        + apply pushv_ok in H0 as [ps1 [H0 ->]]. rewrite (IHt _ _ H0). destruct ps1 as [|[? ?] ?]; reflexivity. }
    destruct (c =? BSL); [|exact (OTHER _ H)].
    destruct t as [|a t2]; [exact (OTHER _ H)|].
    destruct ((a =? DQ) || (a =? BSL)); [|exact (OTHER _ H)].
    apply pushv_ok in H as [ps1 [H ->]]. apply pushv_ok in H as [ps2 [H ->]].
    eapply IH in H; [|cbn; lia]. rewrite H. destruct ps2 as [|[? ?] ?]; reflexivity.
Qed.

Lemma split_fields_klen0 klen fields ps :
  split_fields klen fields = Ok ps -> split_fields 0 fields = Ok ps.
Proof.
  unfold split_fields. destruct fields; [auto|]. apply split_fields_st_klen0.
Qed.

Lemma unescape4_len l : blen (unescape4 l) <= blen l.
Proof.
  induction l as [l IH] using list_len_ind. destruct l as [|c t]; [cbn; lia|].
  assert (IHt := IH t ltac:(cbn; lia)).
  destruct (c =? BSL) eqn:Ec; cbn [unescape4]; rewrite Ec.
  - destruct t as [|a t2]; [apply N.le_refl|]. destruct (is_esc_char a).
    + assert (IH2 := IH t2 ltac:(cbn; lia)). rewrite !blen_cons. lia.
    + rewrite (blen_cons c (a :: t2)), (blen_cons c). lia.
  - rewrite !blen_cons. lia.
Qed.

(** * Unique (strictly sorted) tag keys in the series key *)
Lemma bcompare_eq a : forall b, bcompare a b = Eq <-> a = b.
Proof.
  induction a as [|x a IH]; intros [|y b]; cbn; split; intro H; try reflexivity; try discriminate.
  - destruct (N.compare x y) eqn:C; try discriminate. apply N.compare_eq in C. apply IH in H. congruence.
  - inversion H; subst. rewrite N.compare_refl. apply IH. reflexivity.
Qed.

Lemma bcompare_antisym a : forall b, bcompare a b = CompOpp (bcompare b a).
Proof.
  induction a as [|x a IH]; intros [|y b]; cbn; try reflexivity.
  rewrite (N.compare_antisym y x). destruct (N.compare y x); cbn; auto.
Qed.

Lemma bcompare_lt_trans a : forall b c, bcompare a b = Lt -> bcompare b c = Lt -> bcompare a c = Lt.
Proof.
  induction a as [|x a IH]; intros [|y b] [|z c]; cbn; try discriminate; auto.
  destruct (N.compare x y) eqn:C1; destruct (N.compare y z) eqn:C2; intros H1 H2; try discriminate.
  - apply N.compare_eq in C1, C2. subst. rewrite N.compare_refl. eauto.
  - apply N.compare_eq in C1. subst. rewrite C2. reflexivity.
  - apply N.compare_eq in C2. subst. rewrite C1. reflexivity.
  - rewrite N.compare_lt_iff in C1, C2. assert (C3 : x < z) by lia. apply N.compare_lt_iff in C3.
    rewrite C3. reflexivity.
Qed.

Definition ble (a b : bytes) : Prop := bcompare a b <> Gt.

Lemma ble_trans a b c : ble a b -> ble b c -> ble a c.
Proof.
  unfold ble. intros H1 H2.
  destruct (bcompare a b) eqn:E1; [| |congruence]; destruct (bcompare b c) eqn:E2; try congruence.
  - apply bcompare_eq in E1, E2. subst. rewrite (proj2 (bcompare_eq c c) eq_refl). discriminate.
  - apply bcompare_eq in E1. subst. rewrite E2. discriminate.
  - apply bcompare_eq in E2. subst. rewrite E1. discriminate.
  - rewrite (bcompare_lt_trans _ _ _ E1 E2). discriminate.
Qed.

Lemma strictly_sorted_nodup ks : strictly_sorted ks = true -> NoDup ks.
Proof.
  assert (G : forall ks, strictly_sorted ks = true ->
                match ks with [] => True | a :: r => forall b, In b r -> bcompare a b = Lt end /\ NoDup ks).
  { induction ks0 as [|a r IH]; [split; [auto|constructor]|].
    intro H. cbn in H. destruct r as [|b r'].
    - split; [intros b []|constructor; [intros []|constructor]].
    - destruct (bcompare a b) eqn:C; try discriminate. destruct (IH H) as [H1 H2].
      assert (L : forall x, In x (b :: r') -> bcompare a x = Lt).
      { intros x [<-|Hx]; [exact C|]. eapply bcompare_lt_trans; eauto. }
      split; [exact L|]. constructor; [|exact H2].
      intro Hin. apply L in Hin. rewrite (proj2 (bcompare_eq a a) eq_refl) in Hin. discriminate. }
  intro H. apply G in H. tauto.
Qed.

Lemma first_pass_sorted tags : first_pass tags = FPSorted -> strictly_sorted (map tag_key tags) = true.
Proof.
  induction tags as [|a r IH]; [reflexivity|]. cbn. destruct r as [|b r']; [reflexivity|].
  cbn [map]. destruct (bcompare (tag_key a) (tag_key b)); try discriminate. exact IH.
Qed.

(** insertion sort: descending invariant of the reversed prefix *)
Definition tle (a b : bytes) : Prop := ble (tag_key a) (tag_key b).

Lemma SS_app {A} (R : A -> A -> Prop) a : forall b,
  StronglySorted R (a ++ b) <->
  StronglySorted R a /\ StronglySorted R b /\ (forall x y, In x a -> In y b -> R x y).
Proof.
  induction a as [|h a IH]; intro b; cbn.
  - split; [intro H; repeat split; [constructor|exact H|intros x y []]|tauto].
  - split.
    + intro H. inversion H as [|? ? H1 H2]; subst. apply IH in H1 as [Ha [Hb Hab]].
      rewrite Forall_app in H2. destruct H2 as [H2a H2b]. repeat split; auto.
      * constructor; auto.
      * intros x y [<-|Hx] Hy; [rewrite Forall_forall in H2b; auto|auto].
    + intros [Ha [Hb Hab]]. inversion Ha as [|? ? H1 H2]; subst.
      constructor; [apply IH; repeat split; auto|].
      rewrite Forall_app. split; [exact H2|]. rewrite Forall_forall. intros y Hy. apply Hab; auto.
Qed.

Lemma SS_rev {A} (R : A -> A -> Prop) l :
  StronglySorted (fun x y => R y x) l -> StronglySorted R (rev l).
Proof.
  induction l as [|h l IH]; intro H; cbn; [constructor|].
  inversion H as [|? ? H1 H2]; subst. apply SS_app. repeat split; auto.
  - constructor; constructor.
  - intros x y Hx [<-|[]]. apply in_rev in Hx. rewrite Forall_forall in H2. auto.
Qed.

Lemma insert_tag_spec x : forall l,
  StronglySorted (fun a b => tle b a) l ->
  StronglySorted (fun a b => tle b a) (insert_tag x l) /\
  (forall y, In y (insert_tag x l) <-> y = x \/ In y l).
Proof.
  induction l as [|y r IH]; intro H; cbn.
  - split; [constructor; constructor|]. intro z; cbn; intuition congruence.
  - inversion H as [|? ? H1 H2]; subst.
    destruct (bcompare (tag_key x) (tag_key y)) eqn:C.
    + split; [|intro z; cbn; intuition congruence]. constructor; [exact H|]. constructor.
      * unfold tle, ble. rewrite bcompare_antisym, C. discriminate.
      * rewrite Forall_forall in *. intros z Hz. unfold tle in *. eapply ble_trans; [apply H2; exact Hz|].
        unfold ble. rewrite bcompare_antisym, C. discriminate.
    + destruct (IH H1) as [S I]. split.
      * constructor; [exact S|]. rewrite Forall_forall in *. intros z Hz. apply I in Hz as [->|Hz]; [|auto].
        unfold tle, ble. rewrite C. discriminate.
      * intro z; cbn. rewrite I. intuition congruence.
    + split; [|intro z; cbn; intuition congruence]. constructor; [exact H|]. constructor.
      * unfold tle, ble. rewrite bcompare_antisym, C. discriminate.
      * rewrite Forall_forall in *. intros z Hz. unfold tle in *. eapply ble_trans; [apply H2; exact Hz|].
        unfold ble. rewrite bcompare_antisym, C. discriminate.
Qed.

Lemma insertion_sort_spec tags :
  StronglySorted tle (insertion_sort tags) /\ (forall y, In y (insertion_sort tags) <-> In y tags).
Proof.
  unfold insertion_sort.
  assert (G : forall tags acc, StronglySorted (fun a b => tle b a) acc ->
            StronglySorted (fun a b => tle b a) (fold_left (fun acc x => insert_tag x acc) tags acc) /\
            (forall y, In y (fold_left (fun acc x => insert_tag x acc) tags acc) <-> In y tags \/ In y acc)).
  { induction tags0 as [|x r IH]; intros acc H; cbn; [split; [exact H|tauto]|].
    destruct (insert_tag_spec x acc H) as [S I]. destruct (IH _ S) as [S' I'].
    split; [exact S'|]. intro y. rewrite I', I. intuition congruence. }
  destruct (G tags [] ltac:(constructor)) as [S I].
  split; [apply SS_rev; exact S|]. intro y. rewrite <- in_rev, I. cbn. tauto.
Qed.

Lemma sorted_nodup_strict l :
  StronglySorted tle l -> adjacent_dup l = false -> strictly_sorted (map tag_key l) = true.
Proof.
  induction l as [|a r IH]; [reflexivity|]. intros S D. cbn in *. destruct r as [|b r']; [reflexivity|].
  inversion S as [|? ? S1 S2]; subst. apply orb_false_iff in D as [D1 D2].
  cbn [map]. inversion S2 as [|? ? Hab _]; subst. unfold tle, ble in Hab.
  destruct (bcompare (tag_key a) (tag_key b)) eqn:C; [|auto|congruence].
  apply bcompare_eq in C. unfold bytes_eqb in D1.
  rewrite (proj2 (list_eqb_spec N.eqb N.eqb_eq _ _) C) in D1. discriminate.
Qed.

Lemma build_key_nil m : build_key m [] = m.
Proof. unfold build_key. cbn. apply app_nil_r. Qed.

Lemma scan_key_tags buf key r :
  scan_key buf = Ok (key, r) ->
  exists m tags, key = build_key m tags /\ strictly_sorted (map tag_key tags) = true /\
                 forallb (fun t => negb (is_reserved (tag_key t))) tags = true.
Proof.
  unfold scan_key. destruct (scan_meas (skip_ws buf)) as [m rest0|m rest0| |] eqn:M; try discriminate.
  - destruct (scan_tags KFirst 0 rest0) as [[tags rest]|]; [|discriminate].
    destruct (existsb (fun t => is_reserved (tag_key t)) tags) eqn:RS; [discriminate|].
    assert (RS' : forall l, existsb (fun t => is_reserved (tag_key t)) l = false ->
                  forallb (fun t => negb (is_reserved (tag_key t))) l = true).
    { induction l as [|x l IH]; cbn; [auto|]. intro H. apply orb_false_iff in H as [H1 H2]. rewrite H1. cbn. apply IH; exact H2. }
    destruct (first_pass tags) eqn:FP; try discriminate.
    + intro H; inversion H; subst. exists m, tags. repeat split; auto. apply first_pass_sorted; exact FP.
    + destruct (adjacent_dup (insertion_sort tags)) eqn:AD; [discriminate|].
      intro H; inversion H; subst. exists m, (insertion_sort tags).
      destruct (insertion_sort_spec tags) as [S I]. repeat split; auto.
      * apply sorted_nodup_strict; auto.
      * apply RS' in RS. rewrite forallb_forall in *. intros x Hx. apply RS. apply I. exact Hx.
  - intro H; inversion H; subst. exists key, []. rewrite build_key_nil. auto.
Qed.

(** * First field key non-empty when the line has no TAB / NUL byte *)
Definition no_tab_nul (l : bytes) : bool := forallb (fun c => negb ((c =? TAB) || (c =? 0))) l.

Lemma mcons_incl c r : forall m rest, (mcons c r = MFld m rest \/ mcons c r = MTag m rest) ->
  exists m', r = MFld m' rest \/ r = MTag m' rest.
Proof. destruct r; cbn; intros m0 rest0 [H|H]; inversion H; subst; eauto. Qed.

Lemma scan_meas_loop_rest : forall l prev m rest,
  (scan_meas_loop prev l = MFld m rest \/ scan_meas_loop prev l = MTag m rest) -> incl rest l.
Proof.
  induction l as [|c t IH]; intros prev m rest H; cbn in H; [destruct H; discriminate|].
  destruct (prev =? BSL).
  - apply mcons_incl in H as [m' H]. apply IH in H. apply incl_tl. exact H.
  - destruct (c =? COMMA); [destruct H as [H|H]; inversion H; subst; apply incl_tl, incl_refl|].
    destruct (c =? SP); [destruct H as [H|H]; inversion H; subst; apply incl_refl|].
    apply mcons_incl in H as [m' H]. apply IH in H. apply incl_tl. exact H.
Qed.

Lemma scan_meas_loop_sp : forall l prev m rest,
  scan_meas_loop prev l = MFld m rest -> exists r', rest = SP :: r'.
Proof.
  induction l as [|c t IH]; intros prev m rest H; cbn in H; [discriminate|].
  destruct (prev =? BSL).
  - apply mcons_MFld in H as [m' [H _]]. eauto.
  - destruct (c =? COMMA); [discriminate|].
    destruct (c =? SP) eqn:E; [inversion H; subst; apply N.eqb_eq in E; subst; eauto|].
    apply mcons_MFld in H as [m' [H _]]. eauto.
Qed.

Lemma push_ok c r x : push c r = Ok x -> exists y, r = Ok y /\ snd x = snd y.
Proof. destruct r as [[[|s ss] rest]|]; cbn; intro H; inversion H; subst; eauto. Qed.
Lemma newseg_ok r x : newseg r = Ok x -> exists y, r = Ok y /\ snd x = snd y.
Proof. destruct r as [[ss rest]|]; cbn; intro H; inversion H; subst; eauto. Qed.

Lemma scan_tags_rest : forall l st prev tags rest,
  scan_tags st prev l = Ok (tags, rest) -> incl rest l /\ exists r', rest = SP :: r'.
Proof.
  induction l as [|c t IH]; intros st prev tags rest H; [destruct st; discriminate|].
  assert (P : forall st' prev' x, scan_tags st' prev' t = Ok x -> incl (snd x) (c :: t) /\ exists r', snd x = SP :: r').
  { intros st' prev' [tg rs] Hx. apply IH in Hx as [I S]. split; [apply incl_tl; exact I|exact S]. }
  destruct st; cbn [scan_tags] in H.
  - destruct ((c =? SP) || (c =? COMMA) || (c =? EQ)); [discriminate|].
    apply push_ok in H as [y [H E]]. cbn in E. subst. eapply P; eauto.
  - destruct (((c =? SP) || (c =? COMMA)) && negb (prev =? BSL)); [discriminate|].
    destruct ((c =? EQ) && negb (prev =? BSL)); apply push_ok in H as [y [H E]]; cbn in E; subst; eapply P; eauto.
  - destruct ((c =? COMMA) || (c =? SP)); [discriminate|].
    apply push_ok in H as [y [H E]]. cbn in E. subst. eapply P; eauto.
  - destruct ((c =? EQ) && negb (prev =? BSL)); [discriminate|].
    destruct ((c =? COMMA) && negb (prev =? BSL)).
    + apply newseg_ok in H as [y [H E]]. cbn in E. subst. eapply P; eauto.
    + destruct ((c =? SP) && negb (prev =? BSL)) eqn:E.
      * inversion H; subst. apply andb_true_iff in E as [E _]. apply N.eqb_eq in E. subst.
        split; [apply incl_refl|eauto].
      * apply push_ok in H as [y [H E']]. cbn in E'. subst. eapply P; eauto.
Qed.

Lemma skip_ws_incl l : incl (skip_ws l) l.
Proof.
  induction l as [|c t IH]; cbn; [apply incl_refl|].
  destruct (is_ws c); [apply incl_tl; exact IH|apply incl_refl].
Qed.

Lemma scan_key_rest buf key r :
  scan_key buf = Ok (key, r) -> incl r buf /\ exists r', r = SP :: r'.
Proof.
  unfold scan_key. destruct (scan_meas (skip_ws buf)) as [m rest0|m rest0| |] eqn:M; try discriminate.
  - destruct (scan_tags KFirst 0 rest0) as [[tags rest]|] eqn:T; [|discriminate].
    destruct (existsb _ tags); [discriminate|].
    assert (G : incl rest buf /\ exists r', rest = SP :: r').
    { apply scan_tags_rest in T as [I S]. split; [|exact S].
      unfold scan_meas in M. destruct (skip_ws buf) as [|c t] eqn:SK; [discriminate|].
      destruct (c =? COMMA); [discriminate|].
      apply mcons_MTag in M as [m' [M _]].
      assert (I2 : incl rest0 t) by (eapply scan_meas_loop_rest; eauto).
      intros x Hx. apply (skip_ws_incl buf). rewrite SK. right. auto. }
    destruct (first_pass tags); try discriminate.
    + intro H; inversion H; subst; exact G.
    + destruct (adjacent_dup _); [discriminate|]. intro H; inversion H; subst; exact G.
  - intro H; inversion H; subst.
    unfold scan_meas in M. destruct (skip_ws buf) as [|c t] eqn:SK; [discriminate|].
    destruct (c =? COMMA); [discriminate|].
    apply mcons_MFld in M as [m' [M _]]. split.
    + assert (I2 : incl r t) by (eapply scan_meas_loop_rest; eauto).
      intros x Hx. apply (skip_ws_incl buf). rewrite SK. right. auto.
    + eapply scan_meas_loop_sp; eauto.
Qed.

Lemma no_tab_nul_incl a b : incl a b -> no_tab_nul b = true -> no_tab_nul a = true.
Proof. unfold no_tab_nul. rewrite !forallb_forall. auto. Qed.

Lemma skip_ws_last_sp : forall l, no_tab_nul l = true -> skip_ws_last SP l = SP.
Proof.
  induction l as [|c t IH]; cbn; [auto|]. intro H. apply andb_true_iff in H as [Hc Ht].
  unfold is_ws. destruct (c =? SP) eqn:E; cbn.
  - apply N.eqb_eq in E; subst. auto.
  - apply negb_true_iff in Hc. rewrite Hc. reflexivity.
Qed.

Lemma fcons_ok c r a rest : fcons c r = Ok (a, rest) -> exists a', a = c :: a' /\ r = Ok (a', rest).
Proof. destruct r as [[a0 r0]|]; cbn; intro H; inversion H; eauto. Qed.

Lemma fields_fin_ok q e c rest a r : fields_fin q e c rest = Ok (a, r) -> a = [].
Proof. unfold fields_fin. destruct q; [discriminate|]. destruct (_ || _); [discriminate|]. intro H; inversion H; auto. Qed.

(** if scanFields starts at an '=' right after a skipped SPACE it fails ("missing field key") *)
Lemma scan_fields_not_eq r1 f0 fields r2 :
  scan_fields r1 = Ok (f0 :: fields, r2) -> (f0 =? EQ) = false.
Proof.
  unfold scan_fields. generalize (skip_ws_last 0 r1). intros p1 H.
  destruct (skip_ws r1) as [|c t] eqn:SK.
  - cbn in H. inversion H.
  - destruct (c =? EQ) eqn:E; [discriminate|].
    cbn [scan_fields_st] in H. rewrite E in H.
    assert (FIN : forall x, x = Ok (f0 :: fields, r2) ->
               (exists r, x = fcons c r) \/ (exists q e m rest, x = fields_fin q e m rest) \/ (exists e, x = Err e) ->
               (f0 =? EQ) = false).
    { intros x Hx [[r ->]|[[q [e [m [rest ->]]]]|[e ->]]].
      - apply fcons_ok in Hx as [a' [Ha _]]. inversion Ha; subst. exact E.
      - apply fields_fin_ok in Hx. discriminate.
      - discriminate. }
    apply (FIN _ H). clear H FIN.
    destruct (c =? BSL); [destruct t as [|a t2]|]; cbn [andb negb orb];
      repeat match goal with |- context [if ?b then _ else _] => destruct b end; eauto 8.
Qed.

Lemma fields_of_first_key f0 fields ps :
  (f0 =? EQ) = false -> split_fields 0 (f0 :: fields) = Ok ps ->
  exists k v r, fields_of (f0 :: fields) = (k, v) :: r /\ k <> [].
Proof.
  intros E H. unfold fields_of. rewrite H. unfold split_fields in H. cbn [split_fields_st] in H.
  rewrite E in H. cbn [andb] in H. apply pushk_ok in H as [ps0 [_ ->]].
  destruct ps0 as [|[k v] ps']; cbn [map fst snd]; eexists _, _, _; (split; [reflexivity|]);
    apply unescape4_nonempty; discriminate.
Qed.

(** * Line splitting loses no byte *)
Lemma scan_line_app : forall l q f e c b r, scan_line q f e c l = (b, r) -> l = b ++ r.
Proof.
  induction l as [l IH] using list_len_ind. intros q f e c b r H.
  destruct l as [|x t]; [cbn in H; inversion H; reflexivity|].
  assert (IHt : forall q f e c b r, scan_line q f e c t = (b, r) -> t = b ++ r)
    by (intros; eapply IH; eauto; cbn; lia).
  assert (PC : forall y (p : bytes * bytes) tl, (tl = fst p ++ snd p) -> forall b r, pcons y p = (b, r) -> y :: tl = b ++ r).
  { intros y [pa pb] tl E b0 r0 Hp. unfold pcons in Hp. cbn in *. inversion Hp; subst. reflexivity. }
  assert (SL : forall q f e c l', (forall q f e c b r, scan_line q f e c l' = (b, r) -> l' = b ++ r) ->
                 l' = fst (scan_line q f e c l') ++ snd (scan_line q f e c l')).
  { intros q0 f0 e0 c0 l' Hl. destruct (scan_line q0 f0 e0 c0 l') eqn:S. cbn. eapply Hl; eauto. }
  assert (NORMAL :
    (let fields' := f || (x =? SP) in
      if fields' && negb q && (x =? EQ) then pcons x (scan_line q fields' (e + 1) c t)
      else if fields' && negb q && (x =? COMMA) then pcons x (scan_line q fields' e (c + 1) t)
      else if fields' && (x =? DQ) && (c <? e) then pcons x (scan_line (negb q) fields' e c t)
      else if (x =? NL) && negb q then ([], x :: t)
      else pcons x (scan_line q fields' e c t)) = (b, r) -> x :: t = b ++ r).
  { cbv zeta.
    repeat match goal with |- context [if ?b then _ else _] => destruct b end; intro H0;
      try (eapply PC; [|exact H0]; apply SL; exact IHt).
    inversion H0; reflexivity. }
  cbn [scan_line] in H. destruct (x =? BSL); [|exact (NORMAL H)].
  destruct t as [|a [|a2 t2]]; [exact (NORMAL H)|exact (NORMAL H)|].
  destruct (scan_line q f e c (a2 :: t2)) as [b2 r2] eqn:S2.
  unfold pcons in H; cbn in H; inversion H; subst. cbn. do 2 f_equal.
  eapply IH; [|exact S2]. cbn; lia.
Qed.

Lemma split_blocks_incl : forall fuel buf block, In block (split_blocks fuel buf) -> incl block buf.
Proof.
  induction fuel as [|f IH]; intros buf block H; [destruct H|].
  cbn [split_blocks] in H. destruct buf as [|x t]; [destruct H|].
  destruct (scan_line false false 0 0 (x :: t)) as [b r] eqn:S. apply scan_line_app in S.
  destruct H as [<-|H].
  - rewrite S. apply incl_appl, incl_refl.
  - apply IH in H. rewrite S. apply incl_appr. destruct r as [|y r']; [exact H|]. apply incl_tl. exact H.
Qed.

Lemma strip_nl_incl l : incl (strip_nl l) l.
Proof.
  unfold strip_nl, frev. rewrite rev_append_rev, app_nil_r.
  destruct (rev l) as [|c r] eqn:R; [apply incl_refl|].
  destruct (c =? NL); [|apply incl_refl].
  rewrite rev_append_rev, app_nil_r. intros x Hx. apply in_rev in Hx.
  apply in_rev. rewrite R. right. exact Hx.
Qed.

Lemma candidate_incl block t : candidate block = Some t -> incl t block.
Proof.
  unfold candidate. destruct (skip_ws block) as [|c r] eqn:S; [discriminate|].
  destruct (c =? HASH); [discriminate|]. intro H; inversion H; subst.
  eapply incl_tran; [apply strip_nl_incl|]. rewrite <- S. apply skip_ws_incl.
Qed.

Lemma candidate_lines_incl buf t : In t (candidate_lines buf) -> incl t buf.
Proof.
  unfold candidate_lines. intro H. apply In_filter_some in H. apply in_map_iff in H as [block [C B]].
  eapply incl_tran; [eapply candidate_incl; eauto|eapply split_blocks_incl; eauto].
Qed.

(** * The assembled statements *)
Definition fields_within (v : pview) : Prop :=
  Forall (fun kv => blen (v_key v) + 4 + blen (fst kv) <= MaxKeyLength) (v_fields v).

Lemma parse_point_wf prec dflt t p :
  time_ok (trunc_time dflt prec) = true ->
  parse_point prec dflt t = Ok p ->
  v_name (view p) <> [] /\
  v_fields (view p) <> [] /\
  (exists m tags, v_key (view p) = build_key m tags /\ strictly_sorted (map tag_key tags) = true /\
                  NoDup (map tag_key tags) /\
                  forallb (fun t => negb (is_reserved (tag_key t))) tags = true) /\
  fields_within (view p) /\ blen (v_key (view p)) <= MaxKeyLength /\
  time_ok (v_time (view p)) = true.
Proof.
  intros HD H. apply parse_point_inv in H as [r1 [r2 [ts [r3 [ps [K [KN [KL [F [FN [W [T TT]]]]]]]]]]]].
  destruct (scan_key_head _ _ _ K) as [c [k' [EK Hc]]].
  destruct (split_fields_bound _ _ _ W) as [WB WN]. pose proof (split_fields_klen0 _ _ _ W) as W0.
  unfold fields_within, view; cbn [v_name v_fields v_key v_time].
  split; [rewrite EK; apply name_of_nonempty; exact Hc|].
  split.
  { unfold fields_of. rewrite W0. specialize (WN FN). destruct ps; [congruence|discriminate]. }
  split.
  { destruct (scan_key_tags _ _ _ K) as [m [tags [E [S R]]]]. exists m, tags. repeat split; auto.
    apply strictly_sorted_nodup; exact S. }
  split.
  { unfold fields_of. rewrite W0.
    rewrite Forall_forall in *. intros kv Hkv. apply in_map_iff in Hkv as [[k v] [<- Hin]].
    cbn [fst]. specialize (WB _ Hin). unfold fbound in WB. cbn [fst] in WB.
    pose proof (unescape4_len k). lia. }
  split; [apply N.leb_le; exact KL|].
  destruct TT as [[_ ->]|[v [_ [SC _]]]]; [exact HD|eapply safe_calc_time_ok; eauto].
Qed.

Lemma parsed_points_wf prec dflt buf p :
  time_ok (trunc_time dflt prec) = true ->
  In p (fst (parse_points prec dflt buf)) ->
  v_name (view p) <> [] /\
  v_fields (view p) <> [] /\
  (exists m tags, v_key (view p) = build_key m tags /\ strictly_sorted (map tag_key tags) = true /\
                  NoDup (map tag_key tags) /\
                  forallb (fun t => negb (is_reserved (tag_key t))) tags = true) /\
  fields_within (view p) /\ blen (v_key (view p)) <= MaxKeyLength /\
  time_ok (v_time (view p)) = true.
Proof.
  intros HD H. unfold parse_points in H. apply parse_lines_point in H as [t [_ H]].
  eapply parse_point_wf; eauto.
Qed.

Lemma parsed_points_named_field prec dflt buf p :
  In p (fst (parse_points prec dflt buf)) ->
  exists k v r, v_fields (view p) = (k, v) :: r /\ k <> [].
Proof.
  intro H. unfold parse_points in H. apply parse_lines_point in H as [t [Ht H]].
  apply parse_point_inv in H as [r1 [r2 [ts [r3 [ps [K [KN [KL [F [FN [W _]]]]]]]]]]].
  destruct (rp_fields p) as [|f0 fields] eqn:EF; [congruence|].
  assert (E : (f0 =? EQ) = false) by (eapply scan_fields_not_eq; exact F).
  unfold view; cbn [v_fields]. rewrite EF. eapply fields_of_first_key; eauto. eapply split_fields_klen0; eauto.
Qed.

(** regression example of the repaired defect: "m<space><TAB>=1" (a field with an EMPTY key after
    skipped TAB whitespace) is now rejected with "missing field key" *)
Definition tab_witness : bytes := [109; 32; 9; 61; 49].
Lemma tab_witness_rejected :
  parse_points P_ns 0 tab_witness = ([], [(tab_witness, E_MISSING_FIELD_KEY)]).
Proof. vm_compute. reflexivity. Qed.

(** an open defect: scanFields pairs backslashes (the '=' after an escaped backslash is a real
    separator), walkFields / FieldIterator look one byte back (that '=' is escaped): the line is
    accepted and the iterator splits it differently.  With  m a\\="x=-i,b=1" 5  the iterator
    yields an Integer field whose IntegerValue() fails.  (With  m a\\="x=t,b="  the last value is a
    lone double quote: StringValue() used to PANIC there; it now returns the empty string.) *)
Definition bsl_witness : bytes := [109; 32; 97; 92; 92; 61; 34; 120; 61; 116; 44; 98; 61; 34].
Definition bsl_witness2 : bytes :=
  [109; 32; 97; 92; 92; 61; 34; 120; 61; 45; 105; 44; 98; 61; 49; 34; 32; 53].
Lemma accessor_error_refuted :
  map (fun p => v_fields (view p)) (fst (parse_points P_ns 0 bsl_witness2))
    = [[([97; 92; 61; 34; 120], VErr 0); ([98], VErr 1)]] /\
  snd (parse_points P_ns 0 bsl_witness2) = [].
Proof. vm_compute. split; reflexivity. Qed.
Lemma lone_quote_no_panic :
  map (fun p => v_fields (view p)) (fst (parse_points P_ns 0 bsl_witness))
    = [[([97; 92; 61; 34; 120], VBool true); ([98], VStr [])]].
Proof. vm_compute. reflexivity. Qed.

Lemma errors_name_rejected_lines prec dflt buf :
  map fst (snd (parse_points prec dflt buf))
    = filter (fun t => negb (is_ok (parse_point prec dflt t))) (candidate_lines buf) /\
  fst (parse_points prec dflt buf) = oks (map (parse_point prec dflt) (candidate_lines buf)).
Proof. unfold parse_points. destruct (parse_lines_spec prec dflt (candidate_lines buf)); auto. Qed.

Lemma candidate_lines_spec buf t :
  In t (candidate_lines buf) <->
  exists block, In block (split_blocks (S (length buf)) buf) /\ candidate block = Some t.
Proof.
  unfold candidate_lines. rewrite In_filter_some, in_map_iff. split; intros [b [H1 H2]]; eauto.
Qed.

Lemma http_parse_spec prec dflt buf :
  match http_parse prec dflt buf with
  | HErr r => r <> [] /\ r = map fst (snd (parse_points prec dflt buf))
  | HOk n => snd (parse_points prec dflt buf) = [] /\ n = N.of_nat (length (fst (parse_points prec dflt buf)))
  end.
Proof.
  unfold http_parse. destruct (parse_points prec dflt buf) as [ps [|e es]]; cbn; auto.
  split; [discriminate|reflexivity].
Qed.

(** the judge accepts the model's own output whenever it is well-formed (sanity of the oracle) *)
Lemma wf_view_sound v : wf_view v = true ->
  v_name v <> [] /\ NoDup (map fst (v_tags v)) /\ fields_within v /\ time_ok (v_time v) = true.
Proof.
  unfold wf_view. rewrite !andb_true_iff. intros [[[[[[H1 H2] H2b] H3] H4] H5] H6].
  split; [destruct (v_name v); [discriminate|discriminate]|].
  split.
  { clear -H3. induction (map fst (v_tags v)) as [|k r IH]; [constructor|].
    cbn in H3. apply andb_true_iff in H3 as [A B]. constructor; [|auto].
    intro Hin. apply negb_true_iff in A. assert (existsb (bytes_eqb k) r = true); [|congruence].
    apply existsb_exists. exists k. split; [exact Hin|].
    apply (list_eqb_spec N.eqb N.eqb_eq). reflexivity. }
  split; [|exact H5].
  unfold fields_within. rewrite Forall_forall. rewrite forallb_forall in H4. intros kv Hkv.
  specialize (H4 _ Hkv). apply N.leb_le in H4. exact H4.
Qed.
