(** C36 (part 4) — tsdb.SeriesIDSet, SPECIFICATION model of /repo/tsdb/series_set.go.

    SeriesIDSet wraps a [roaring.Bitmap] (github.com/RoaringBitmap/roaring, external): every
    method is one call into the library.  The library is not modelled; the model is the set
    algebra the wrapper is supposed to provide, on strictly increasing lists, and the tie is
    the differential run of the real type (ids chosen around roaring container boundaries).

    One thing IS mirrored from the wrapper: every id passes through [uint32(id)] before it
    reaches the 32-bit bitmap ([Add], [AddMany], [Remove], [Contains], [NewSeriesIDSet]), and
    comes back as [uint64(uint32)].  [tr] is that truncation; the oracle below is the same
    algebra over untruncated ids with different algorithms (unsorted lists + canonicalisation).

    No proofs in this file. *)
From Verif Require Import Base.Prelude.

Definition idset := list N.   (* strictly increasing *)
Definition two32 : N := 4294967296%N.
Definition tr32 (id : N) : N := (id mod two32)%N.

Fixpoint s_add (x : N) (s : idset) : idset :=
  match s with
  | [] => [x]
  | y :: r => if N.ltb x y then x :: s else if N.eqb x y then s else y :: s_add x r
  end.
Definition s_mem (x : N) (s : idset) : bool := existsb (N.eqb x) s.
Definition s_remove (x : N) (s : idset) : idset := filter (fun y => negb (N.eqb y x)) s.
Fixpoint s_union (a : idset) : idset -> idset :=
  match a with
  | [] => fun b => b
  | x :: a' =>
      fix aux (b : idset) : idset :=
        match b with
        | [] => a
        | y :: b' =>
            if N.ltb x y then x :: s_union a' b
            else if N.ltb y x then y :: aux b'
            else x :: s_union a' b'
        end
  end.
Definition s_inter (a b : idset) : idset := filter (fun x => s_mem x b) a.
Definition s_diff (a b : idset) : idset := filter (fun x => negb (s_mem x b)) a.
Definition s_of_list (tr : N -> N) (l : list N) : idset := fold_left (fun s x => s_add (tr x) s) l [].

(** Registers: the driver works on a fixed number of set variables. *)
Definition regs := list idset.
Definition rget (r : regs) (i : nat) : idset := nth i r [].
Fixpoint rset (r : regs) (i : nat) (s : idset) : regs :=
  match r, i with
  | [], _ => []
  | _ :: t, O => s :: t
  | x :: t, S i' => x :: rset t i' s
  end.

Inductive sop :=
| SNew (dst : nat) (ids : list N)          (* dst = NewSeriesIDSet(ids...) *)
| SAdd (i : nat) (id : N) | SAddMany (i : nat) (ids : list N) | SRemove (i : nat) (id : N)
| SContains (i : nat) (id : N) | SCard (i : nat)
| SMerge (i : nat) (others : list nat)     (* regs[i].Merge(regs[others]...) *)
| SMergeInPlace (i j : nat)
| SAnd (i j dst : nat) | SAndNot (i j dst : nat) | SDiff (i j : nat)
| SIntersects (i j : nat) | SEquals (i j : nat)
| SClone (i dst : nat)
| SRoundTrip (i dst : nat)                 (* WriteTo a buffer; dst = new set; dst.UnmarshalBinary *)
| SClear (i : nat) | SSlice (i : nat) | SForEach (i : nat).

Definition b2l (b : bool) : list N := [if b then 1%N else 0%N].

Section IdSet.
  Variable tr : N -> N.   (* tr32 for the mirror *)

  (** One op; the observation is the op's result rendered as a list. *)
  Definition s_step (r : regs) (o : sop) : regs * list N :=
    match o with
    | SNew d ids => (rset r d (s_of_list tr ids), [])
    | SAdd i id => (rset r i (s_add (tr id) (rget r i)), [])
    | SAddMany i ids => (rset r i (fold_left (fun s x => s_add (tr x) s) ids (rget r i)), [])
    | SRemove i id => (rset r i (s_remove (tr id) (rget r i)), [])
    | SContains i id => (r, b2l (s_mem (tr id) (rget r i)))
    | SCard i => (r, [N.of_nat (length (rget r i))])
    | SMerge i others =>
        (rset r i (fold_left (fun s j => s_union s (rget r j)) others (rget r i)), [])
    | SMergeInPlace i j => (rset r i (s_union (rget r i) (rget r j)), [])
    | SAnd i j d => (rset r d (s_inter (rget r i) (rget r j)), [])
    | SAndNot i j d => (rset r d (s_diff (rget r i) (rget r j)), [])
    | SDiff i j => (rset r i (s_diff (rget r i) (rget r j)), [])
    | SIntersects i j => (r, b2l (negb (match s_inter (rget r i) (rget r j) with [] => true | _ => false end)))
    | SEquals i j => (r, b2l (list_eqb N.eqb (rget r i) (rget r j)))
    | SClone i d => (rset r d (rget r i), [])
    | SRoundTrip i d => (rset r d (rget r i), [])
    | SClear i => (rset r i [], [])
    | SSlice i => (r, rget r i)
    | SForEach i => (r, rget r i)
    end.
  Fixpoint s_run (r : regs) (ops : list sop) : regs * list (list N) :=
    match ops with
    | [] => (r, [])
    | o :: t => let '(r', ob) := s_step r o in let '(r'', obs) := s_run r' t in (r'', ob :: obs)
    end.
End IdSet.

(** ** Oracle: bags (unsorted, possibly repeated) over the full uint64 ids; results are
    canonicalised by sorting and removing duplicates only when observed. *)
Definition canon (l : list N) : list N := fold_right s_add [] l.
Definition o_mem (x : N) (l : list N) : bool := existsb (N.eqb x) l.
Definition o_step (r : regs) (o : sop) : regs * list N :=
  match o with
  | SNew d ids => (rset r d ids, [])
  | SAdd i id => (rset r i (id :: rget r i), [])
  | SAddMany i ids => (rset r i (ids ++ rget r i), [])
  | SRemove i id => (rset r i (filter (fun y => negb (N.eqb y id)) (rget r i)), [])
  | SContains i id => (r, b2l (o_mem id (rget r i)))
  | SCard i => (r, [N.of_nat (length (canon (rget r i)))])
  | SMerge i others => (rset r i (rget r i ++ flat_map (fun j => rget r j) others), [])
  | SMergeInPlace i j => (rset r i (rget r j ++ rget r i), [])
  | SAnd i j d => (rset r d (filter (fun x => o_mem x (rget r j)) (rget r i)), [])
  | SAndNot i j d => (rset r d (filter (fun x => negb (o_mem x (rget r j))) (rget r i)), [])
  | SDiff i j => (rset r i (filter (fun x => negb (o_mem x (rget r j))) (rget r i)), [])
  | SIntersects i j => (r, b2l (existsb (fun x => o_mem x (rget r j)) (rget r i)))
  | SEquals i j => (r, b2l (forallb (fun x => o_mem x (rget r j)) (rget r i)
                              && forallb (fun x => o_mem x (rget r i)) (rget r j)))
  | SClone i d => (rset r d (rget r i), [])
  | SRoundTrip i d => (rset r d (rget r i), [])
  | SClear i => (rset r i [], [])
  | SSlice i => (r, canon (rget r i))
  | SForEach i => (r, canon (rget r i))
  end.
Fixpoint o_run (r : regs) (ops : list sop) : regs * list (list N) :=
  match ops with
  | [] => (r, [])
  | o :: t => let '(r', ob) := o_step r o in let '(r'', obs) := o_run r' t in (r'', ob :: obs)
  end.

Definition nregs : nat := 4.
Definition regs0 : regs := repeat [] nregs.
Definition lists_eqb (a b : list (list N)) : bool := list_eqb (list_eqb N.eqb) a b.

(** [obs]: per-op results of the real sets; [fin]: [Slice()] of every register at the end. *)
Definition check_idset (ops : list sop) (obs : list (list N)) (fin : list (list N)) : verdict :=
  let '(r, mobs) := s_run tr32 regs0 ops in
  let '(ro, oobs) := o_run regs0 ops in
  let same := lists_eqb obs mobs && lists_eqb fin r in
  let ok := lists_eqb obs oobs && lists_eqb fin (map canon ro) in
  judge same ok.
