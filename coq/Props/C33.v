(** C33 — draft *)
From Verif Require Import Base.Prelude Model.C33.
