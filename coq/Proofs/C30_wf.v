(** C30 — every KV bucket of the model has unique keys in every reachable state
    (the association lists ARE finite maps), and what follows for listings. *)
From Verif Require Import Base.Prelude Model.C30 Proofs.C30_al Proofs.C30_inv Proofs.C30_step.

Definition WF (st : state) : Prop :=
  NoDup (map fst (s_orgs st)) /\ NoDup (map fst (s_oidx st)) /\ NoDup (map fst (s_bkts st)) /\
  NoDup (map fst (s_bidx st)) /\ NoDup (map fst (s_users st)) /\ NoDup (map fst (s_uidx st)) /\
  NoDup (map fst (s_pwds st)) /\ NoDup (map fst (s_urms st)) /\ NoDup (map fst (s_uix st)).

Ltac wf_tac :=
  unfold WF in *; cbn [s_orgs s_oidx s_bkts s_bidx s_users s_uidx s_pwds s_urms s_uix fst];
  intuition (repeat first [apply (NoDup_put N.eqb N.eqb_eq) | apply (NoDup_del N.eqb N.eqb_eq)
                          | apply (NoDup_put nn_eqb nn_eqb_spec) | apply (NoDup_del nn_eqb nn_eqb_spec)];
             assumption).

Lemma wf_init : WF init.
Proof. unfold WF; cbn. repeat split; constructor. Qed.

Lemma wf_create_urm st r u v : WF st -> WF (fst (create_urm st r u v)).
Proof.
  intro H. unfold create_urm. destruct (getN u (s_users st)); [|exact H].
  destruct (hasP _ _); [exact H|]. wf_tac.
Qed.
Lemma wf_delete_urm st r u : WF st -> WF (delete_urm st r u).
Proof. intro H. unfold delete_urm. wf_tac. Qed.
Lemma wf_delete_urm_svc st r u : WF st -> WF (fst (delete_urm_svc st r u)).
Proof. intro H. unfold delete_urm_svc. destruct (hasP _ _); [apply wf_delete_urm|]; exact H. Qed.

Lemma fold_wf {A} (f : state -> A -> state) (l : list A) :
  (forall s a, WF s -> WF (f s a)) -> forall st, WF st -> WF (fold_left f l st).
Proof. intro Hf. induction l as [|a l IH]; cbn; auto. Qed.

Lemma wf_remove_relations st res : WF st -> WF (remove_relations st res).
Proof. intro H. unfold remove_relations. apply fold_wf; [|exact H]. intros s k. apply wf_delete_urm_svc. Qed.

Lemma wf_create_bucket st o n s : WF st -> WF (fst (create_bucket st o n s)).
Proof.
  intro H. unfold create_bucket. destruct (negb _); [exact H|]. destruct (negb _); [exact H|].
  destruct (hasP _ _); [exact H|]. wf_tac.
Qed.
Lemma wf_update_bucket st id n : WF st -> WF (fst (update_bucket st id n)).
Proof.
  intro H. unfold update_bucket. destruct (getN id (s_bkts st)); [|exact H]. destruct n; [|exact H].
  destruct (N.eqb _ _); [exact H|]. destruct (b_sys b); [exact H|].
  destruct (negb _); [exact H|]. destruct (hasP _ _); [exact H|]. wf_tac.
Qed.
Lemma wf_delete_bucket st id int : WF st -> WF (fst (delete_bucket st id int)).
Proof.
  intro H. unfold delete_bucket, delete_bucket_tx.
  destruct (getN id (s_bkts st)); [|exact H].
  destruct (b_sys b && negb int); [exact H|]. cbn [N.eqb E_OK fst].
  apply wf_remove_relations. wf_tac.
Qed.
Lemma wf_delete_buckets l : forall st, WF st -> WF (fst (delete_buckets l st)).
Proof.
  induction l as [|i l IH]; intros st H; cbn; [exact H|].
  pose proof (wf_delete_bucket st i true H) as H1.
  destruct (delete_bucket st i true) as [s1 e]. cbn [fst] in H1.
  destruct (N.eqb e E_OK); [apply IH; exact H1 | exact H1].
Qed.
Lemma wf_create_org st name owner : WF st -> WF (fst (create_org st name owner)).
Proof.
  intro H. unfold create_org.
  destruct (N.eqb (fst name) 0); [exact H|].
  destruct (has nn_eqb (trim name) (s_oidx st)); [exact H|].
  match goal with |- context [create_bucket ?s _ 0 true] => set (s1 := s) end.
  assert (H1 : WF s1) by (subst s1; wf_tac).
  pose proof (wf_create_bucket s1 (s_next st) 0 true H1) as H2.
  destruct (create_bucket s1 (s_next st) 0 true) as [s2 e2]. cbn [fst] in H2.
  destruct (negb (N.eqb e2 E_OK)); [exact H2|].
  pose proof (wf_create_bucket s2 (s_next st) 1 true H2) as H3.
  destruct (create_bucket s2 (s_next st) 1 true) as [s3 e3]. cbn [fst] in H3.
  destruct (negb (N.eqb e3 E_OK)); [exact H3|].
  destruct owner as [u|]; [apply wf_create_urm; exact H3 | exact H3].
Qed.
Lemma wf_update_org st id name : WF st -> WF (fst (update_org st id name)).
Proof.
  intro H. unfold update_org. destruct (getN id (s_orgs st)); [|exact H]. destruct name; [|exact H].
  destruct (nn_eqb _ _); [exact H|]. destruct (N.eqb _ _); [exact H|].
  destruct (hasP _ _); [exact H|]. wf_tac.
Qed.
Lemma wf_delete_org fx st id : WF st -> WF (fst (delete_org fx st id)).
Proof.
  intro H. unfold delete_org. fold (org_bucket_ids st id).
  destruct (negb (forallb _ (org_bucket_ids st id))); [exact H|].
  pose proof (wf_delete_buckets (org_bucket_ids st id) st H) as H1.
  destruct (delete_buckets (org_bucket_ids st id) st) as [s1 e1]. cbn [fst] in H1.
  destruct (negb (N.eqb e1 E_OK)); [exact H1|].
  unfold delete_org_tx. destruct (getN id (s_orgs s1)); cbn [fst snd N.eqb E_OK negb]; [|exact H1].
  apply wf_remove_relations. destruct fx; wf_tac.
Qed.
Lemma wf_create_user st n : WF st -> WF (fst (create_user st n)).
Proof. intro H. unfold create_user. destruct (hasN _ _); [exact H|]. wf_tac. Qed.
Lemma wf_update_user st id n : WF st -> WF (fst (update_user st id n)).
Proof.
  intro H. unfold update_user. destruct (getN id (s_users st)); [|exact H]. destruct n; [|exact H].
  destruct (N.eqb _ _); [exact H|]. destruct (hasN _ _); [exact H|]. wf_tac.
Qed.
Lemma wf_delete_user st id : WF st -> WF (fst (delete_user st id)).
Proof.
  intro H. unfold delete_user. destruct (getN id (s_users st)); [|exact H]. cbn [fst].
  apply fold_wf; [intros s a; apply wf_delete_urm|]. wf_tac.
Qed.
Lemma wf_set_password st id : WF st -> WF (fst (set_password st id)).
Proof. intro H. unfold set_password. destruct (hasN _ _); [|exact H]. wf_tac. Qed.

Lemma step_wf fx st o : WF st -> WF (step fx st o).
Proof.
  intro H. unfold step. destruct o; cbn [step_e];
  auto using wf_create_org, wf_update_org, wf_delete_org, wf_create_bucket, wf_update_bucket,
    wf_delete_bucket, wf_create_user, wf_update_user, wf_delete_user, wf_set_password,
    wf_create_urm, wf_delete_urm_svc.
Qed.

Lemma run_wf fx ops : WF (run fx ops).
Proof.
  unfold run. assert (G : forall st, WF st -> WF (fold_left (step fx) ops st)).
  { induction ops as [|o ops IH]; intros st H; cbn; [exact H | apply IH, step_wf, H]. }
  apply G, wf_init.
Qed.

(** With unique keys the listing of an organization's buckets contains only its buckets. *)
Lemma org_bucket_ids_sound st id j : Inv st -> WF st ->
  In j (org_bucket_ids st id) -> exists b, getN j (s_bkts st) = Some b /\ b_org b = id.
Proof.
  intros (_ & (Hs & _) & _) (_ & _ & _ & Hnd & _) Hin. unfold org_bucket_ids in Hin.
  apply in_map_iff in Hin as ([k j'] & Ej & Hin). cbn in Ej; subst j'.
  apply filter_In in Hin as [Hin Ek]. cbn in Ek. apply N.eqb_eq in Ek.
  apply (in_get_nodup nn_eqb nn_eqb_spec _ _ _ Hnd) in Hin.
  destruct (Hs _ _ Hin) as (b & Hb & Hk). exists b. split; [exact Hb|]. subst k. exact Ek.
Qed.
