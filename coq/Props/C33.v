(** C33 — Health and readiness endpoints report the true aggregate state.  Property theorems
    only (model: Model/C33.v, proofs: Proofs/C33.v).

    [atomic_response ready s] is the answer of HealthReadyHandler to /ready ([ready = true]) or
    /health served in state [s] with nothing else happening; [diag_response ops ready ps pr] is
    the answer of a request whose snapshot of the checker list saw the first [ps] operations of
    [ops] and whose i-th checker call saw the first [nth i pr] operations.  [std l]: every check
    of [l] answers "pass" or "fail" (true for ReadyGate — C33_gate_histories_are_std — and for
    the startup and scheduler-pulse checkers); it is needed only for "ordered by name" and for
    the concurrency theorem. *)
From Verif Require Import Base.Prelude Model.C33 Proofs.C33.
From Coq Require Import Permutation Sorted.
Local Open Scope N_scope.

(** ** /ready *)
Theorem C33_gate_histories_are_std :
  forall ops, forallb gate_op ops = true -> std (s_ready (run_ops ops)).
Proof. exact gate_ops_std. Qed.
Print Assumptions C33_gate_histories_are_std.

(** 200 exactly when every registered ready check currently passes (for a ReadyGate: its last
    signal was Ready()) — FULL, for all statuses (since the fix of finding
    check-status-neither-pass-nor-fail: any result other than "pass" fails the aggregate) *)
Theorem C33_ready_200_iff_all_ready :
  forall s, r_code (atomic_response true s) = 200 <-> all_pass (s_ready s) = true.
Proof. exact ready_200_iff_all. Qed.
Print Assumptions C33_ready_200_iff_all_ready.

(** ... with body status "ready" and no checks listed; otherwise 503 "starting" listing exactly
    the checks that do not pass (as a multiset: a permutation of them), in the order of the
    listed checks (status text, then name) — for pass/fail checks: ordered by name *)
Theorem C33_ready_503_lists_exactly_unready :
  forall s,
    (r_code (atomic_response true s) = 200 ->
       r_checks (atomic_response true s) = [] /\ r_status (atomic_response true s) = 0) /\
    (all_pass (s_ready s) = false ->
       r_code (atomic_response true s) = 503 /\ r_status (atomic_response true s) = 1 /\
       Permutation (r_checks (atomic_response true s)) (not_passing (s_ready s)) /\
       StronglySorted (fun a b => kle a b = true) (r_checks (atomic_response true s)) /\
       (std (s_ready s) ->
          StronglySorted (fun a b => k_name a <= k_name b) (r_checks (atomic_response true s)))).
Proof. intros s. split; [apply ready_200_body | apply ready_503_lists_all]. Qed.
Print Assumptions C33_ready_503_lists_exactly_unready.

(** ** /health *)
(** the aggregate is "pass" iff every check passes and "fail" otherwise — for ALL statuses *)
Theorem C33_aggregate_pass_iff_all_pass :
  forall l, (overall l = ST_PASS <-> all_pass l = true) /\ (overall l = ST_FAIL <-> all_pass l = false).
Proof. intro l. split; [apply overall_pass_iff | apply overall_fail_iff_all]. Qed.
Print Assumptions C33_aggregate_pass_iff_all_pass.

(** 200 "pass" exactly when every health check passes, else 503 "fail" — FULL *)
Theorem C33_health_200_iff_all_pass :
  forall s, (r_code (atomic_response false s) = 200 <-> all_pass (s_health s) = true) /\
            r_status (atomic_response false s) = (if all_pass (s_health s) then ST_PASS else ST_FAIL).
Proof. intro s. split; [apply health_200_iff_all | apply health_body_status]. Qed.
Print Assumptions C33_health_200_iff_all_pass.

(** The former counterexamples (a check answering a status that is neither pass nor fail after
    a failing one): with the aggregate of the code before the fix ([overall_before_fix] = the
    LAST non-pass status) the handlers, which tested == "fail", answered 200; now 503, and the
    odd-status check is listed / reported like any other check that does not pass. *)
Example C33_before_fix_counterexample :
  let sr := {| s_ready := [ {| k_name := 1; k_status := ST_FAIL; k_msg := M_NOT_READY |};
                            {| k_name := 2; k_status := 3; k_msg := 10 |} ]; s_health := [] |} in
  let sh := {| s_ready := []; s_health := [ {| k_name := 1; k_status := ST_FAIL; k_msg := 10 |};
                                            {| k_name := 2; k_status := 2; k_msg := M_EMPTY |} ] |} in
  overall_before_fix (s_ready sr) = 3 /\ overall_before_fix (s_health sh) = 2 /\
  r_code (atomic_response true sr) = 503 /\ map k_name (r_checks (atomic_response true sr)) = [1; 2] /\
  r_code (atomic_response false sh) = 503 /\ r_status (atomic_response false sh) = ST_FAIL /\
  r_message (atomic_response false sh) = M_FAIL.
Proof. vm_compute. repeat split; reflexivity. Qed.

(** 503: the message is the message ("fail" if empty) of the first entry of the listed checks
    that does not pass; no other not-passing check precedes it in the listing order (status
    text, then name); when every check answers pass or fail it is the failing check with the
    LEAST NAME *)
Theorem C33_health_503_first_failing_message :
  forall s, r_code (atomic_response false s) = 503 ->
    exists c, In c (s_health s) /\ k_status c <> ST_PASS /\
              (forall d, In d (s_health s) -> k_status d <> ST_PASS -> kle c d = true) /\
              (std (s_health s) ->
                 k_status c = ST_FAIL /\
                 forall d, In d (s_health s) -> k_status d = ST_FAIL -> k_name c <= k_name d) /\
              r_message (atomic_response false s) = msg_or_fail c /\
              exists pre post, r_checks (atomic_response false s) = pre ++ c :: post /\
                               forall d, In d pre -> k_status d = ST_PASS.
Proof. exact health_503_message. Qed.
Print Assumptions C33_health_503_first_failing_message.

(** "first" is NOT registration order: [query: fail "unreachable"] registered before
    [bolt: fail "not open"] — the message is bolt's. *)
Theorem C33_health_message_not_registration_order :
  let s := {| s_ready := []; s_health := [ {| k_name := 2; k_status := ST_FAIL; k_msg := 10 |};
                                           {| k_name := 1; k_status := ST_FAIL; k_msg := 11 |} ] |} in
  r_message (atomic_response false s) = 11.
Proof. vm_compute. reflexivity. Qed.
Print Assumptions C33_health_message_not_registration_order.

(** HEALTH_READY.md's rule "the first failing check that HAS a non-empty message" is not what
    the code does: [bolt: fail ""; query: fail "unreachable"] answers "fail". *)
Theorem C33_health_message_doc_rule_refuted :
  let s := {| s_ready := []; s_health := [ {| k_name := 1; k_status := ST_FAIL; k_msg := M_EMPTY |};
                                           {| k_name := 2; k_status := ST_FAIL; k_msg := 10 |} ] |} in
  r_message (atomic_response false s) = M_FAIL.
Proof. vm_compute. reflexivity. Qed.
Print Assumptions C33_health_message_doc_rule_refuted.

(** ** Concurrency *)
(** a request during which no operation takes effect is answered atomically *)
Theorem C33_quiescent_request_is_atomic :
  forall ops ready p,
    diag_response ops ready p (repeat p (length (checks_of ready (state_at ops p))))
    = atomic_response ready (state_at ops p).
Proof. exact diag_atomic. Qed.
Print Assumptions C33_quiescent_request_is_atomic.

(** under arbitrary interleaving: the answer is computed from one TRUE reading of every
    snapshotted checker, taken at its own position *)
Theorem C33_each_result_is_a_true_reading :
  forall ops ready ps pr i,
    length pr = length (checks_of ready (state_at ops ps)) -> (i < length pr)%nat ->
    nth i (diag_results ops ready ps pr) dummy
    = nth i (checks_of ready (state_at ops (nth i pr 0%nat))) dummy.
Proof. exact diag_results_nth. Qed.
Print Assumptions C33_each_result_is_a_true_reading.

(** FULL STATEMENT (refuted): every answer equals [atomic_response] of SOME state between
    invocation and response:
      forall ops ready inv resp ps pr, valid_expl ops ready inv resp ps pr = true ->
        lin_ok ops ready inv resp (diag_response ops ready ps pr) = true.
    Witness 1: gates 1,2 not ready (a pass-only check between them); the request reads gate 1,
    then Ready(1), Ready(2) take effect, then it reads gate 2: 503 listing exactly gate 1 — the
    unready sets were {1,2}, {2}, {}.  Witness 2: the request snapshots [p; gate 2]; gate 3 is
    registered and gate 2 signalled; it reads gate 2: 200, but never were all gates ready.
    Both replayed on the real handler (known finding snapshot-of-checks-not-atomic). *)
Theorem C33_linearizable_refuted :
  (let ops := [ORegGate 1; ORegReady {| k_name := 9; k_status := ST_PASS; k_msg := M_EMPTY |}; ORegGate 2;
               OReady 0; OReady 2] in
   valid_expl ops true 3 5 3 [3; 3; 5]%nat = true /\
   r_code (diag_response ops true 3 [3; 3; 5]%nat) = 503 /\
   map k_name (r_checks (diag_response ops true 3 [3; 3; 5]%nat)) = [1] /\
   lin_ok ops true 3 5 (diag_response ops true 3 [3; 3; 5]%nat) = false) /\
  (let ops := [ORegReady {| k_name := 9; k_status := ST_PASS; k_msg := M_EMPTY |}; ORegGate 2;
               ORegGate 3; OReady 1] in
   valid_expl ops true 2 4 2 [2; 4]%nat = true /\
   r_code (diag_response ops true 2 [2; 4]%nat) = 200 /\
   lin_ok ops true 2 4 (diag_response ops true 2 [2; 4]%nat) = false).
Proof. vm_compute. repeat split; reflexivity. Qed.
Print Assumptions C33_linearizable_refuted.

(** The weakened claim that does hold for /ready when the operations overlapping the request
    are only Ready() signals (no Unready, no registration): the status code is linearisable —
    a 200 answer IS the atomic answer at the response point, a 503 answer means the atomic
    answer at the snapshot point was 503 too, and every listed gate was not ready then.
    (With a concurrent Unready not even the code is: read g1 ready; g1.Unready(); g2.Ready();
    read g2 ready -> 200.  Then only C33_each_result_is_a_true_reading remains.) *)
Theorem C33_ready_only_window_code_linearizable :
  forall ops inv resp ps pr,
    valid_expl ops true inv resp ps pr = true ->
    ready_window ops ps resp ->
    std (s_ready (state_at ops ps)) ->
    let r := diag_response ops true ps pr in
    (r_code r = 200 -> r = atomic_response true (state_at ops resp)) /\
    (r_code r = 503 ->
       r_code (atomic_response true (state_at ops ps)) = 503 /\
       forall c, In c (r_checks r) ->
         exists c0, In c0 (s_ready (state_at ops ps)) /\ k_name c0 = k_name c /\ k_status c0 = ST_FAIL).
Proof. exact ready_only_window. Qed.
Print Assumptions C33_ready_only_window_code_linearizable.

Theorem C33_unready_breaks_code_linearizability :
  let ops := [ORegGate 1; ORegGate 2; OReady 0; OUnready 0; OReady 1] in
  valid_expl ops true 3 5 3 [3; 5]%nat = true /\
  r_code (diag_response ops true 3 [3; 5]%nat) = 200 /\
  lin_ok ops true 3 5 (diag_response ops true 3 [3; 5]%nat) = false.
Proof. vm_compute. repeat split; reflexivity. Qed.
Print Assumptions C33_unready_breaks_code_linearizability.

(** ** The concrete checkers *)
(** task-scheduler pulse: fails iff a run is scheduled and due more than the threshold ago
    (a zero When passes; a future When passes; exactly the threshold passes) *)
Theorem C33_pulse_fails_iff_overdue :
  forall w now thr, pulse_status (pulse_check w now thr) = ST_FAIL <-> pulse_should_fail w now thr = true.
Proof. exact pulse_fail_iff. Qed.
Print Assumptions C33_pulse_fails_iff_overdue.

(** shards gate: ready passes iff Finish was called and never with an error; the shards
    health check passes iff no shard failed to load — for every operation sequence *)
Theorem C33_startup_ready_passes_iff_finished_without_error :
  forall ops, fst (sl_ready (fold_left sl_apply ops sl_init)) = ST_PASS <-> sl_ready_should_pass ops = true.
Proof. exact startup_ready_iff. Qed.
Print Assumptions C33_startup_ready_passes_iff_finished_without_error.

Theorem C33_startup_health_passes_iff_no_shard_failed :
  forall ops, fst (sl_health (fold_left sl_apply ops sl_init)) = ST_PASS <-> sl_health_should_pass ops = true.
Proof. exact startup_health_iff. Qed.
Print Assumptions C33_startup_health_passes_iff_no_shard_failed.

(** Non-vacuity: three gates, two signalled: 503 listing the third; after its signal 200; after
    an Unready 503 again listing that gate. *)
Example C33_nonvacuous :
  let ops := [ORegGate 2; ORegGate 1; ORegGate 3; OReady 0; OReady 1; OReady 2; OUnready 1] in
  map k_name (r_checks (atomic_response true (state_at ops 5))) = [3] /\
  r_code (atomic_response true (state_at ops 5)) = 503 /\
  r_code (atomic_response true (state_at ops 6)) = 200 /\
  map k_name (r_checks (atomic_response true (state_at ops 7))) = [1] /\
  forallb gate_op ops = true.
Proof. vm_compute. repeat split; reflexivity. Qed.
