// C20 driver: the REAL window aggregate array cursors of storage/reads
// (reads.NewWindowAggregateResultSet -> createCursor -> newWindowAggregateArrayCursor /
// newAggregateArrayCursor -> *Window{Count,Sum,Min,Max,Mean,First,Last}ArrayCursor, limit
// cursor) fed by mock array cursors that serve a prepared series split into prepared arrays
// over 1-3 "shards"; real interval.NewWindow.  Observed: every array returned by Next().
package main

import (
	"context"
	"fmt"
	"math"
	"strings"
	"time"

	"github.com/influxdata/influxdb/v2/models"
	"github.com/influxdata/influxdb/v2/storage/reads"
	"github.com/influxdata/influxdb/v2/storage/reads/datatypes"
	"github.com/influxdata/influxdb/v2/tsdb/cursors"
	"verifh/cmd/c20/wmock"
	"verifh/vh"
)

type jpt struct {
	T int64  `json:"t"`
	V uint64 `json:"v"`
}
type jout struct {
	Agg  string  `json:"agg"`
	Kind string  `json:"kind"` // value kind of the output arrays
	Arrs [][]jpt `json:"arrays"`
	Lens []int   `json:"-"`
}
type jcase struct {
	S      wmock.Series `json:"series"`
	Zero   bool         `json:"zero_window"`
	Every  int64        `json:"every"`
	Off    int64        `json:"offset"`
	Months int64        `json:"every_months,omitempty"` // > 0: calendar window of that many months (offset 0), sent as a Window message
	WinMsg bool         `json:"use_window_msg"`
	Sizes  []int        `json:"array_sizes"`
	Shards []int        `json:"arrays_per_shard"`
	Aggs   []string     `json:"aggregates,omitempty"` // subset to run (empty = all supported)
	Outs   []jout       `json:"impl_outs"`
}

var aggs = []struct {
	name string
	coq  string
	ty   datatypes.Aggregate_AggregateType
}{
	{"count", "Count", datatypes.Aggregate_AggregateTypeCount},
	{"sum", "Sum", datatypes.Aggregate_AggregateTypeSum},
	{"min", "Min", datatypes.Aggregate_AggregateTypeMin},
	{"max", "Max", datatypes.Aggregate_AggregateTypeMax},
	{"mean", "Mean", datatypes.Aggregate_AggregateTypeMean},
	{"first", "First", datatypes.Aggregate_AggregateTypeFirst},
	{"last", "Last", datatypes.Aggregate_AggregateTypeLast},
}

func supported(ty, agg string) bool {
	switch agg {
	case "count", "first", "last":
		return true
	}
	return ty == "int" || ty == "uint" || ty == "float"
}

func floorDiv(a, b int64) int64 {
	q := a / b
	if a%b != 0 && (a < 0) != (b < 0) {
		q--
	}
	return q
}

// genMonths: n strictly increasing timestamps spanning several calendar months (UTC), many
// of them right at / next to month starts (incl. leap February, 1969/1970).
func genMonths(w *vh.W, n int, ty string) wmock.Series {
	r := w.Rng
	s := wmock.Series{Ty: ty}
	starts := [][2]int{{2021, 1}, {2020, 2}, {1969, 11}, {2023, 12}, {2100, 2}, {1970, 1}}
	st := starts[r.IntN(len(starts))]
	cur := time.Date(st[0], time.Month(st[1]), 1+r.IntN(28), r.IntN(24), 0, 0, r.IntN(3), time.UTC)
	if r.IntN(3) == 0 {
		cur = time.Date(st[0], time.Month(st[1]), 1, 0, 0, 0, 0, time.UTC).Add(time.Duration(r.IntN(3) - 1))
	}
	mode := r.IntN(3)
	if ty != "float" && mode == 2 {
		mode = 0
	}
	day := 24 * time.Hour
	for i := 0; i < n; i++ {
		s.T = append(s.T, cur.UnixNano())
		s.V = append(s.V, genVal(w, ty, mode))
		switch r.IntN(7) {
		case 0:
			cur = cur.Add(1)
		case 1:
			cur = cur.Add(day)
		case 2:
			cur = cur.Add(time.Duration(5+r.IntN(10)) * day)
		case 3:
			cur = cur.Add(time.Duration(28+r.IntN(40)) * day)
		case 4: // last nanosecond of the month
			y, m, _ := cur.Date()
			nx := time.Date(y, m+1, 1, 0, 0, 0, 0, time.UTC).Add(-1)
			if !nx.After(cur) {
				nx = cur.Add(1)
			}
			cur = nx
		case 5: // first instant of the next month
			y, m, _ := cur.Date()
			cur = time.Date(y, m+1, 1, 0, 0, 0, 0, time.UTC)
		default:
			cur = cur.Add(time.Duration(1+r.IntN(72)) * time.Hour)
		}
	}
	return s
}

func wanted(sub []string, a string) bool {
	if len(sub) == 0 {
		return true
	}
	for _, x := range sub {
		if x == a {
			return true
		}
	}
	return false
}

// pick k distinct supported aggregates
func pickAggs(w *vh.W, ty string, k int) []string {
	var all []string
	for _, ag := range aggs {
		if supported(ty, ag.name) {
			all = append(all, ag.name)
		}
	}
	w.Rng.Shuffle(len(all), func(i, j int) { all[i], all[j] = all[j], all[i] })
	if k > len(all) {
		k = len(all)
	}
	return all[:k]
}

func sfTerm(f float64) string {
	b := math.Float64bits(f)
	s := vh.Bool(b>>63 != 0)
	e := int64((b >> 52) & 0x7ff)
	fr := b & (1<<52 - 1)
	switch {
	case e == 0x7ff && fr != 0:
		return "S754_nan"
	case e == 0x7ff:
		return "(S754_infinity " + s + ")"
	case e == 0 && fr == 0:
		return "(S754_zero " + s + ")"
	case e == 0:
		return fmt.Sprintf("(S754_finite %s %d%%positive (-1074))", s, fr)
	}
	return fmt.Sprintf("(S754_finite %s %d%%positive (%d))", s, fr|1<<52, e-1075)
}

func valTerm(kind string, v uint64) string {
	switch kind {
	case "int":
		return "VI " + vh.Z(int64(v))
	case "uint":
		return fmt.Sprintf("VU %d%%Z", v)
	case "float":
		return "VF " + sfTerm(math.Float64frombits(v))
	case "bool":
		return "VB " + vh.Bool(v != 0)
	}
	return "VS " + vh.N(v)
}
func ptTerm(kind string, t int64, v uint64) string {
	return "(" + vh.Z(t) + ", " + valTerm(kind, v) + ")"
}

// drain reads every array of the cursor until the first empty one.
func drain(cur cursors.Cursor, limit int) (kind string, arrs [][]jpt, err string) {
	for calls := 0; ; calls++ {
		if calls > limit {
			return kind, arrs, "Next() did not return an empty array within the expected number of calls"
		}
		var a []jpt
		switch c := cur.(type) {
		case cursors.IntegerArrayCursor:
			kind = "int"
			x := c.Next()
			for i, t := range x.Timestamps {
				a = append(a, jpt{t, uint64(x.Values[i])})
			}
		case cursors.UnsignedArrayCursor:
			kind = "uint"
			x := c.Next()
			for i, t := range x.Timestamps {
				a = append(a, jpt{t, x.Values[i]})
			}
		case cursors.FloatArrayCursor:
			kind = "float"
			x := c.Next()
			for i, t := range x.Timestamps {
				a = append(a, jpt{t, math.Float64bits(x.Values[i])})
			}
		case cursors.BooleanArrayCursor:
			kind = "bool"
			x := c.Next()
			for i, t := range x.Timestamps {
				v := uint64(0)
				if x.Values[i] {
					v = 1
				}
				a = append(a, jpt{t, v})
			}
		case cursors.StringArrayCursor:
			kind = "str"
			x := c.Next()
			for i, t := range x.Timestamps {
				v := uint64(99)
				for j, s := range wmock.StrPool {
					if s == x.Values[i] {
						v = uint64(j)
					}
				}
				a = append(a, jpt{t, v})
			}
		default:
			return kind, arrs, fmt.Sprintf("unexpected cursor type %T", cur)
		}
		if len(a) == 0 {
			return kind, arrs, ""
		}
		arrs = append(arrs, a)
	}
}

func run(w *vh.W, c *jcase) {
	n := len(c.S.T)
	ranges := wmock.Ranges(n, c.Sizes)
	c.Outs = nil
	idx := w.Len()
	tags := models.NewTags(map[string]string{"_measurement": "m", "_field": "f", "t0": "a"})
	for _, ag := range aggs {
		if !supported(c.S.Ty, ag.name) || !wanted(c.Aggs, ag.name) {
			continue
		}
		req := &datatypes.ReadWindowAggregateRequest{
			Range:     &datatypes.TimestampRange{Start: math.MinInt64, End: math.MaxInt64},
			Aggregate: []*datatypes.Aggregate{{Type: ag.ty}},
		}
		every, off := c.Every, c.Off
		if c.Zero {
			every, off = math.MaxInt64, 0
		}
		if c.Months > 0 && !c.Zero {
			req.Window = &datatypes.Window{Every: &datatypes.Duration{Months: c.Months}, Offset: &datatypes.Duration{}}
		} else if c.WinMsg {
			o := &datatypes.Duration{Nsecs: off}
			if off < 0 {
				o = &datatypes.Duration{Nsecs: -off, Negative: true}
			}
			req.Window = &datatypes.Window{Every: &datatypes.Duration{Nsecs: every}, Offset: o}
		} else {
			req.WindowEvery, req.Offset = every, off
		}
		desc := reads.IsLastDescendingAggregateOptimization(req)
		var served [][]int
		sc := &wmock.SeriesCursor{Rows: []reads.SeriesRow{wmock.Row(&c.S, ranges, c.Shards, desc, tags, &served)}}
		o := jout{Agg: ag.name}
		var errs string
		p := vh.Guard(func() {
			rs, err := reads.NewWindowAggregateResultSet(context.Background(), req, sc)
			if err != nil {
				errs = "NewWindowAggregateResultSet: " + err.Error()
				return
			}
			for rs.Next() {
				cur := rs.Cursor()
				if cur == nil {
					continue
				}
				o.Kind, o.Arrs, errs = drain(cur, n+5)
				cur.Close()
			}
			if rs.Err() != nil {
				errs = "result set error: " + rs.Err().Error()
			}
			rs.Close()
		})
		if p != "" {
			errs = "panic: " + p
		}
		if errs != "" {
			// (the former finding whole-series-first-last-nil-cursor-panic is repaired: a nil cursor
			// with a whole-series first/last must give no cursor; a panic here is a violation again)
			sig := ""
			w.Fail(idx, ag.name+": "+errs, sig)
		}
		// the mock must have served exactly the prepared arrays (driver self-check)
		if errs == "" && n > 0 && !(c.Zero && (ag.name == "first" || ag.name == "last")) {
			k := 0
			for _, a := range served {
				k += len(a)
			}
			if k != n || len(served) != len(ranges) {
				fmt.Println("driver error: mock served", k, "points in", len(served), "arrays, prepared", n, len(ranges))
				panic("mock mismatch")
			}
		}
		c.Outs = append(c.Outs, o)
	}

	// ---- term
	var chunks []string
	for _, r := range ranges {
		var ps []string
		for i := r[0]; i < r[1]; i++ {
			ps = append(ps, ptTerm(c.S.Ty, c.S.T[i], c.S.V[i]))
		}
		chunks = append(chunks, vh.List(ps))
	}
	var outs []string
	maxArr := 0
	for _, o := range c.Outs {
		var as []string
		for _, a := range o.Arrs {
			var ps []string
			for _, p := range a {
				ps = append(ps, ptTerm(o.Kind, p.T, p.V))
			}
			as = append(as, vh.List(ps))
			if len(a) > maxArr {
				maxArr = len(a)
			}
		}
		coq := ""
		for _, ag := range aggs {
			if ag.name == o.Agg {
				coq = ag.coq
			}
		}
		outs = append(outs, "("+coq+", "+vh.List(as)+")")
	}
	ev := c.Every
	if c.Zero || ev <= 0 {
		ev = 1
	}
	months := c.Months
	if c.Zero {
		months = 0
	}
	tyc := map[string]string{"int": "TInt", "uint": "TUint", "float": "TFloat", "bool": "TBool", "str": "TStr"}[c.S.Ty]
	t := fmt.Sprintf("{| c_ty := %s; c_zero := %s; c_every := %s; c_off := %s; c_months := %s; c_chunks := %s; c_outs := %s |}",
		tyc, vh.Bool(c.Zero), vh.Z(ev), vh.Z(c.Off), vh.Z(months), vh.List(chunks), vh.List(outs))
	// distribution
	nw := 0
	if n > 0 {
		if c.Zero {
			nw = 1
		} else {
			last := int64(math.MinInt64)
			for _, tt := range c.S.T {
				if months > 0 {
					y, mo, _ := time.Unix(0, tt).UTC().Date()
					st := floorDiv(int64(y-1970)*12+int64(mo)-1, months)
					if st != last {
						nw++
						last = st
					}
					continue
				}
				d := tt - ev*0 - c.Off
				q := d / ev
				if d%ev != 0 && d < 0 {
					q--
				}
				st := (q+1)*ev + c.Off
				if st != last {
					nw++
					last = st
				}
			}
		}
	}
	cls := func(k int) string {
		switch {
		case k == 0:
			return "0"
		case k == 1:
			return "1"
		case k < 1000:
			return "2-999"
		case k == 1000:
			return "1000"
		case k <= 2000:
			return "1001-2000"
		}
		return ">2000"
	}
	w.Count("type", c.S.Ty)
	w.Count("windows", cls(nw))
	w.Count("points", cls(n))
	w.Count("arrays", cls(len(ranges)))
	w.Count("zero_window", fmt.Sprint(c.Zero))
	w.Count("calendar_months_window", fmt.Sprint(months))
	w.Count("carry_over_reached(max output array = 1000)", fmt.Sprint(maxArr >= 1000))
	w.Add(t, c, n >= 2 && (len(ranges) >= 2 || nw >= 2), "")
}

var floatPool = []float64{0, 1, -1, 2, 0.5, 0.1, 0.2, 0.3, 1e16, -1e16, 3, 1e308, -1e308, 5e-324, math.Copysign(0, -1), 1.5, 7, 1e-7, 123456.789}

// values whose float64 sums are inexact / order dependent (0.1+0.2+0.3, 1e16+1-1e16, ...)
var inexactPool = []float64{0.1, 0.2, 0.3, 1e16, -1e16, 1, 1e-9, 3.3, 0.7, -0.1, 1e-7, 123456.789, 1.0 / 3.0, 2.5e15}
var intPool = []int64{0, 1, -1, 2, 3, -7, 10, 100, math.MaxInt64, math.MinInt64, 1<<53 + 1, -(1<<53 + 1), 1 << 62}
var uintPool = []uint64{0, 1, 2, 3, 9, 100, math.MaxUint64, 1 << 63, 1<<53 + 1, 1<<63 + 1025}

// mode: 0 small exact values, 1 extremes/specials, 2 (floats) values with inexact sums
func genVal(w *vh.W, ty string, mode int) uint64 {
	r := w.Rng
	wild := mode == 1
	if ty == "float" && mode == 2 {
		return math.Float64bits(inexactPool[r.IntN(len(inexactPool))])
	}
	switch ty {
	case "int":
		if wild {
			return uint64(intPool[r.IntN(len(intPool))])
		}
		return uint64(int64(r.IntN(11) - 5))
	case "uint":
		if wild {
			return uintPool[r.IntN(len(uintPool))]
		}
		return uint64(r.IntN(6))
	case "float":
		if wild {
			if r.IntN(40) == 0 {
				return math.Float64bits([]float64{math.Inf(1), math.Inf(-1), math.NaN()}[r.IntN(3)])
			}
			return math.Float64bits(floatPool[r.IntN(len(floatPool))])
		}
		return math.Float64bits(float64(r.IntN(9)-4) / 2)
	case "bool":
		return uint64(r.IntN(2))
	}
	return uint64(r.IntN(len(wmock.StrPool)))
}

func gen(w *vh.W, n int, every, off int64, gapMode int, ty string, forceMode ...int) wmock.Series {
	r := w.Rng
	s := wmock.Series{Ty: ty}
	bases := []int64{0, -50, 3, -5, 1000, -1000000007, 1600000000000000000}
	t := bases[r.IntN(len(bases))]
	if r.IntN(3) == 0 { // start right at / next to a window boundary
		t = off + every*int64(r.IntN(5)-2) + int64(r.IntN(3)-1)
	}
	mode := r.IntN(3)
	if ty != "float" && mode == 2 {
		mode = 0
	}
	if len(forceMode) > 0 {
		mode = forceMode[0]
	}
	for i := 0; i < n; i++ {
		s.T = append(s.T, t)
		s.V = append(s.V, genVal(w, ty, mode))
		var g int64
		switch gapMode {
		case 0:
			g = 1
		case 1:
			g = every + int64(r.IntN(3)-1)
		case 2:
			g = 1 + r.Int64N(3*every)
		default:
			g = every
		}
		if g < 1 {
			g = 1
		}
		t += g
	}
	return s
}

func genSizes(w *vh.W, n int) []int {
	r := w.Rng
	var sz []int
	switch r.IntN(6) {
	case 0:
		return []int{1} // Ranges() puts the remainder into one more array
	case 1:
		k := 1 + r.IntN(4)
		for i := 0; i*k < n; i++ {
			sz = append(sz, k)
		}
	case 2:
		for i := 0; i < n; i++ {
			sz = append(sz, 1)
		}
	case 3:
		k := []int{999, 1000, 1001, 1500, 500}[r.IntN(5)]
		for i := 0; i*k < n; i++ {
			sz = append(sz, k)
		}
	default:
		mx := 1 + r.IntN(1500)
		if n < 50 {
			mx = 1 + r.IntN(8)
		}
		for tot := 0; tot < n; {
			k := 1 + r.IntN(mx)
			sz = append(sz, k)
			tot += k
		}
	}
	return sz
}

func main() {
	w := vh.New("C20", "From Coq Require Import Floats.SpecFloat.\nFrom Verif Require Import Base.Prelude Model.C20.\nOpen Scope Z_scope.", "case", "check")
	w.Rule = "a series of 0-3000 strictly increasing timestamps (negative, around window boundaries, dense / one per window / sparse) of one of the 5 field types (values incl. int64/uint64 extremes, 2^53+1, float specials, and for a third of the float series values with inexact, order-dependent sums {0.1,0.2,0.3,1e16,-1e16,1,1e-9,3.3,..}; half of the float series are dense inside wide windows so that whole arrays fall inside an already open window), split into arrays (all sizes 1..1500, all-1, exactly 999/1000/1001) dealt to 1-3 shard iterators; window every in {1,2,3,5,10,60,1000,1e9} ns (or, for 1 case in 7, a CALENDAR window of 1/2/3/12 months over timestamps spanning several months incl. month starts +-1ns, leap February, 1969/1970, sent as Window{Every{Months}}) and offset in {0,+-1,every-1,every,every+1,2every+3,-every,-every-1} (or the whole-series request every=MaxInt64), sent as WindowEvery/Offset or as a Window message; each supported aggregate (count/sum/min/max/mean/first/last) is run through reads.NewWindowAggregateResultSet and every array returned by Next() is recorded. Hand-picked cases: float sum/mean with array boundaries inside a window and inexact sums (windowed and whole-series); exactly 999/1000/1001/2001/1200 windows come first; ~2% of random cases have 1001-2200 points, mostly one per window (the tmp carry-over path); cases with >=100 points run a random 3-4 of the aggregates (term size), the others all supported ones. Non-trivial: >=2 points and (>=2 input arrays or >=2 windows). Distinct: distinct terms."
	var rc jcase
	if w.ReplayCase(&rc) {
		run(w, &rc)
		w.Finish()
		return
	}
	r := w.Rng
	// hand-picked: exactly around the 1000-slot output block
	hp := []struct {
		nw    int
		ty    string
		every int64
		sizes []int
		aggs  []string
	}{
		{999, "int", 10, []int{1000}, []string{"count", "last"}},
		{1000, "float", 1, []int{1}, []string{"min", "first"}},
		{1001, "uint", 7, []int{999, 2}, []string{"sum", "mean"}},
		{2001, "float", 10, []int{1, 999, 1, 1000}, []string{"first", "max"}},
		{1200, "str", 2, []int{7}, []string{"count", "last"}},
	}
	for i, h := range hp {
		s := gen(w, h.nw, h.every, 0, 3, h.ty)
		c := jcase{S: s, Every: h.every, Off: int64(i) - 2, WinMsg: i%2 == 0, Sizes: h.sizes, Shards: []int{1 + i%3}, Aggs: h.aggs}
		run(w, &c)
	}
	{ // float sums that depend on the order of additions: array boundaries INSIDE a window
		fb := func(vs ...float64) []uint64 {
			var o []uint64
			for _, v := range vs {
				o = append(o, math.Float64bits(v))
			}
			return o
		}
		sm := []string{"sum", "mean"}
		for _, zero := range []bool{false, true} {
			run(w, &jcase{S: wmock.Series{Ty: "float", T: []int64{0, 1, 2}, V: fb(0.1, 0.2, 0.3)}, Every: 10, Zero: zero, Sizes: []int{1, 2}, Aggs: sm})
			run(w, &jcase{S: wmock.Series{Ty: "float", T: []int64{0, 1, 2, 3}, V: fb(1e16, 1, -1e16, 1)}, Every: 10, Zero: zero, Sizes: []int{1, 3}, WinMsg: true, Aggs: sm})
			run(w, &jcase{S: wmock.Series{Ty: "float", T: []int64{-3, -2, 1, 2, 3, 4, 6, 7, 8, 11, 12, 13, 14},
				V: fb(0.1, 0.2, 0.3, 0.7, 1e-9, 3.3, 1e16, 1, -1e16, 1.0/3.0, 0.1, 0.2, 0.3)}, Every: 5, Off: 1, Zero: zero, Sizes: []int{1, 2, 2, 3, 2, 3}, Shards: []int{2}, Aggs: sm})
		}
	}
	{ // calendar-month windows (Window.Every.Months > 0): every aggregate, ascending cursors
		ts := func(ds ...string) []int64 {
			var o []int64
			for _, d := range ds {
				tt, err := time.Parse(time.RFC3339Nano, d)
				if err != nil {
					panic(err)
				}
				o = append(o, tt.UnixNano())
			}
			return o
		}
		T := ts("2020-01-31T23:59:59.999999999Z", "2020-02-01T00:00:00Z", "2020-02-29T12:00:00Z", "2020-03-01T00:00:00Z",
			"2020-03-15T00:00:00Z", "2020-05-02T00:00:00Z", "2020-05-31T23:00:00Z", "2020-12-31T23:59:59Z", "2021-01-01T00:00:00Z")
		run(w, &jcase{S: wmock.Series{Ty: "int", T: T, V: []uint64{1, 2, 3, 4, 5, 6, 7, 8, 9}}, Months: 1, Sizes: []int{2, 3, 1, 3}, Shards: []int{2}})
		run(w, &jcase{S: wmock.Series{Ty: "int", T: T, V: []uint64{1, 2, 3, 4, 5, 6, 7, 8, 9}}, Months: 3, Sizes: []int{4}})
		T2 := ts("1969-10-15T00:00:00Z", "1969-12-31T23:59:59.999999999Z", "1970-01-01T00:00:00Z", "1970-01-20T00:00:00Z", "1970-02-01T00:00:00Z", "1971-06-01T00:00:00Z")
		run(w, &jcase{S: wmock.Series{Ty: "float", T: T2, V: []uint64{math.Float64bits(0.1), math.Float64bits(0.2), math.Float64bits(0.3), math.Float64bits(1e16), math.Float64bits(1), math.Float64bits(-1e16)}}, Months: 2, Sizes: []int{1, 2, 3}})
		run(w, &jcase{S: wmock.Series{Ty: "str", T: T2, V: []uint64{0, 1, 2, 3, 4, 1}}, Months: 12, Sizes: []int{1}})
	}
	{ // no data at all: with and without a window
		c := jcase{S: wmock.Series{Ty: "float"}, Every: 10, Zero: true}
		run(w, &c)
		c2 := jcase{S: wmock.Series{Ty: "int"}, Every: 10, Off: 3, WinMsg: true}
		run(w, &c2)
	}
	everys := []int64{1, 2, 3, 5, 10, 60, 1000, 1000000000}
	tys := []string{"int", "int", "int", "float", "float", "float", "uint", "uint", "bool", "str"}
	for w.Len() < w.N {
		ty := tys[r.IntN(len(tys))]
		every := everys[r.IntN(len(everys))]
		denseFloat := ty == "float" && r.IntN(2) == 0
		if denseFloat && every < 10 { // several points (and several arrays) per window
			every = []int64{10, 60, 1000}[r.IntN(3)]
		}
		offs := []int64{0, 1, -1, every - 1, every, every + 1, 2*every + 3, -every, -every - 1}
		off := offs[r.IntN(len(offs))]
		n, nag := 0, 0
		gm := r.IntN(3)
		switch k := r.IntN(100); {
		case k < 2:
			n = 1001 + r.IntN(1200)
			if gm == 0 && every > 2 {
				gm = 1
			}
			nag = 3
		case k < 11:
			n = 100 + r.IntN(200)
			nag = 4
		case k < 16:
			n = r.IntN(3)
		default:
			n = r.IntN(31)
			if denseFloat {
				gm = []int{0, 0, 2}[r.IntN(3)]
				if gm == 2 {
					every = 1000
				}
				n = 4 + r.IntN(27)
			}
		}
		var ser wmock.Series
		if denseFloat && n < 100 {
			ser = gen(w, n, every, off, gm, ty, 2) // inexact sums, several arrays per window
		} else {
			ser = gen(w, n, every, off, gm, ty)
		}
		calMonths := int64(0)
		if n < 100 && r.IntN(7) == 0 {
			calMonths = []int64{1, 1, 2, 3, 12}[r.IntN(5)]
			if n > 40 {
				n = 40
			}
			ser = genMonths(w, n, ty)
		}
		c := jcase{Months: calMonths, S: ser, Every: every, Off: off, WinMsg: r.IntN(2) == 0, Zero: r.IntN(8) == 0}
		c.Sizes = genSizes(w, n)
		if denseFloat && n < 100 { // arrays of 1-4 points: boundaries inside the windows
			c.Sizes = nil
			for tot := 0; tot < n; {
				k := 1 + r.IntN(4)
				c.Sizes = append(c.Sizes, k)
				tot += k
			}
		}
		if nag > 0 {
			c.Aggs = pickAggs(w, ty, nag)
		}
		ns := 1 + r.IntN(3)
		for i := 0; i < ns-1; i++ {
			c.Shards = append(c.Shards, 1+r.IntN(1+len(c.Sizes)/ns))
		}
		run(w, &c)
	}
	_ = strings.Join
	w.Finish()
}
