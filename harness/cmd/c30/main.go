// C30 driver: the REAL tenant.Service (tenant.NewService(tenant.NewStore(kv))) on an
// in-memory KV store with all kv migrations applied.  A history of organization /
// bucket / user / password / membership operations is run through the service API;
// after EVERY operation the driver records the error class, dumps all nine KV buckets
// of the tenant layout through a View transaction (records and indexes), and performs
// the name lookups FindOrganization / FindBucketByName / FindUser for a set of probes.
// The Coq judge recomputes all of it from the operation list (coq/Model/C30.v).
//
// Real ids (drawn from incrementing generators) are renumbered 1,2,3,... in the order
// in which organizations, buckets and users are successfully created, so the model
// does not depend on when the code draws an id.
package main

import (
	"context"
	"encoding/json"
	"fmt"
	"os"
	"reflect"
	"sort"
	"strings"

	influxdb "github.com/influxdata/influxdb/v2"
	"github.com/influxdata/influxdb/v2/bolt"
	icontext "github.com/influxdata/influxdb/v2/context"
	"github.com/influxdata/influxdb/v2/inmem"
	"github.com/influxdata/influxdb/v2/kit/platform"
	"github.com/influxdata/influxdb/v2/kit/platform/errors"
	"github.com/influxdata/influxdb/v2/kv"
	"github.com/influxdata/influxdb/v2/kv/migration/all"
	"github.com/influxdata/influxdb/v2/mock"
	"github.com/influxdata/influxdb/v2/task/taskmodel"
	"github.com/influxdata/influxdb/v2/tenant"
	"go.uber.org/zap"
	"verifh/vh"
)

// ---- case format ----

type jop struct {
	Op    string     `json:"op"`
	ID    uint64     `json:"id,omitempty"`    // target / org of a bucket / resource of a mapping
	User  uint64     `json:"user,omitempty"`  // user of a mapping
	OName *[2]uint64 `json:"oname,omitempty"` // organization name (core, variant)
	Name  *uint64    `json:"name,omitempty"`  // bucket / user name number
	Sys   bool       `json:"sys,omitempty"`
	Owner *uint64    `json:"owner,omitempty"`
	RType uint64     `json:"rtype,omitempty"`
	UType uint64     `json:"utype,omitempty"`
	Dup   int        `json:"dup,omitempty"`   // create_org/create_bucket: the id generator first repeats this many ids that are in use
	Race  bool       `json:"race,omitempty"`  // delete_org: another client removes the first listed membership of the org between the listing and the clean-up loop
	Quiet bool       `json:"quiet,omitempty"` // do not look at the store after this step (bulk phases)
}

type jbucket struct {
	ID   uint64 `json:"id"`
	Org  uint64 `json:"org"`
	Name uint64 `json:"name"`
	Sys  bool   `json:"sys"`
}
type jobs struct {
	Err   uint64      `json:"err"`
	Orgs  [][3]uint64 `json:"orgs"` // id, core, variant
	OIdx  [][3]uint64 `json:"oidx"` // core, variant, id
	Bkts  []jbucket   `json:"bkts"`
	BIdx  [][3]uint64 `json:"bidx"`  // org, name, id
	Users [][2]uint64 `json:"users"` // id, name
	UIdx  [][2]uint64 `json:"uidx"`  // name, id
	Pwds  []uint64    `json:"pwds"`
	Urms  [][4]uint64 `json:"urms"` // res, user, rtype, utype
	UIx   [][4]uint64 `json:"uix"`  // user, res, value res, value user
	LOrg  [][4]uint64 `json:"lorg"` // core, variant, found(0/1), id
	LBkt  [][4]uint64 `json:"lbkt"` // org, name, found, id
	LUsr  [][3]uint64 `json:"lusr"` // name, found, id
	Lst   []jlist     `json:"lst"`  // FindBuckets(OrganizationID, Limit large)
	Skip  bool        `json:"skip,omitempty"`
	ErrS  string      `json:"err_text,omitempty"`
}
type jlist struct {
	Org uint64   `json:"org"`
	OK  bool     `json:"ok"`
	IDs []uint64 `json:"ids"`
}
type jcase struct {
	Store string `json:"store,omitempty"` // "bolt": a bolt KV store in a temporary file instead of inmem
	Ops   []jop  `json:"ops"`
	Obs   []jobs `json:"impl_obs"`
}

// ---- names ----

var orgCores = []string{"", "oa", "ob", "oc"}

func orgName(core, variant uint64) string {
	s := orgCores[core]
	if core == 0 {
		return strings.Repeat(" ", int(variant))
	}
	switch variant {
	case 0:
		return s
	case 1:
		return " " + s
	default:
		return s + " "
	}
}
func orgNameOf(s string) (uint64, uint64, bool) {
	for c := range orgCores {
		for v := uint64(0); v < 3; v++ {
			if orgName(uint64(c), v) == s {
				return uint64(c), v, true
			}
		}
	}
	return 0, 0, false
}

var bktNames = []string{"_tasks", "_monitoring", "_other", "q\"x", "", "ba", "bb", "bc"}

// bucket name number -> string: 0..7 the special table, n >= 8 a short ordinary name whose
// byte order is unrelated to n ("k" + 3 digits of 73*n mod 1000; injective for n < 1008).
func bktName(n uint64) string {
	if n < uint64(len(bktNames)) {
		return bktNames[n]
	}
	return fmt.Sprintf("k%03d", (73*n)%1000)
}
func bktNameOf(s string) (uint64, bool) {
	for i, n := range bktNames {
		if n == s {
			return uint64(i), true
		}
	}
	var v uint64
	if len(s) == 4 && s[0] == 'k' {
		if _, err := fmt.Sscanf(s[1:], "%03d", &v); err == nil {
			// 73 * 137 = 10001 = 1 (mod 1000)
			n := (137 * v) % 1000
			if n >= uint64(len(bktNames)) && bktName(n) == s {
				return n, true
			}
		}
	}
	return 0, false
}

var usrNames = []string{"", "ua", "ub", "uc"}

func usrNameOf(s string) (uint64, bool) {
	for i, n := range usrNames {
		if i > 0 && n == s {
			return uint64(i), true
		}
	}
	return 0, false
}

var rtypes = []influxdb.ResourceType{influxdb.OrgsResourceType, influxdb.BucketsResourceType}
var utypes = []influxdb.UserType{influxdb.Owner, influxdb.Member}

func errClass(err error) uint64 {
	switch errors.ErrorCode(err) {
	case "":
		return 0
	case errors.EConflict:
		return 1
	case errors.ENotFound:
		return 2
	case errors.EInvalid:
		return 3
	case errors.EInternal:
		return 4
	default:
		return 5
	}
}

// ---- one world: store + service + id renumbering ----

const ghostBase = 1000 // canonical ids >= ghostBase never exist

type world struct {
	ctx            context.Context
	kv             kv.Store
	svc            *tenant.Service
	toReal         map[uint64]platform.ID
	toCan          map[platform.ID]uint64
	next           uint64
	orgs           []uint64 // canonical ids of all organizations ever created
	bkts           []uint64
	users          []uint64
	lastUrms       [][4]uint64
	userBkts       []uint64    // live buckets of user type
	live           [3][]uint64 // canonical ids of the live orgs / buckets / users (from the last dump)
	bad            []string
	cleanup        func()
	orgGen, bktGen *collGen
}

// racingURMs wraps the mapping service: when armed for a resource, the first listing of that
// resource's mappings is followed (before the caller sees it) by "another client" deleting
// the first listed mapping.  The end state must be the same as without the race.
type racingURMs struct {
	influxdb.UserResourceMappingService
	armed platform.ID
}

func (r *racingURMs) FindUserResourceMappings(ctx context.Context, f influxdb.UserResourceMappingFilter, opt ...influxdb.FindOptions) ([]*influxdb.UserResourceMapping, int, error) {
	ms, n, err := r.UserResourceMappingService.FindUserResourceMappings(ctx, f, opt...)
	if err == nil && r.armed.Valid() && f.ResourceID == r.armed && len(ms) > 0 {
		r.armed = 0
		_ = r.UserResourceMappingService.DeleteUserResourceMapping(context.Background(), ms[0].ResourceID, ms[0].UserID)
	}
	return ms, n, err
}

// collGen: an incrementing id generator that can be told to draw ids that are already in
// use first (the real generators are random: a collision is possible, and CreateOrg /
// CreateBucket must then retry until the id is fresh).
type collGen struct {
	next    platform.ID
	pending []platform.ID
}

func (g *collGen) ID() platform.ID {
	if len(g.pending) > 0 {
		id := g.pending[0]
		g.pending = g.pending[1:]
		return id
	}
	id := g.next
	g.next++
	return id
}

// inject: the next ids drawn are those of the n most recently created live records.
func (w *world) inject(g *collGen, kind, n int) {
	live := w.live[kind]
	for i := 0; i < n && i < len(live); i++ {
		g.pending = append(g.pending, w.real(live[len(live)-1-i]))
	}
}

func newWorld(useBolt bool) *world {
	ctx := context.Background()
	var s kv.SchemaStore
	cleanup := func() {}
	if useBolt {
		f, err := os.CreateTemp("", "c30-bolt-")
		if err != nil {
			panic(err)
		}
		f.Close()
		b := bolt.NewKVStore(zap.NewNop(), f.Name(), bolt.WithNoSync)
		if err := b.Open(ctx); err != nil {
			panic(err)
		}
		s = b
		cleanup = func() { b.Close(); os.Remove(f.Name()) }
	} else {
		s = inmem.NewKVStore()
	}
	if err := all.Up(ctx, zap.NewNop(), s); err != nil {
		panic(err)
	}
	st := tenant.NewStore(s)
	orgGen, bktGen := &collGen{next: 0x0a00}, &collGen{next: 0x0b00}
	st.OrgIDGen = orgGen
	st.BucketIDGen = bktGen
	st.IDGen = mock.NewIncrementingIDGenerator(0x0c00)
	svc := tenant.NewService(st)
	ts := mock.NewTaskService()
	ts.FindTasksFn = func(context.Context, taskmodel.TaskFilter) ([]*taskmodel.Task, int, error) { return nil, 0, nil }
	svc.Apply(tenant.WithTaskService(ts))
	return &world{ctx: ctx, kv: s, svc: svc, toReal: map[uint64]platform.ID{}, toCan: map[platform.ID]uint64{}, next: 1, cleanup: cleanup, orgGen: orgGen, bktGen: bktGen}
}

func (w *world) real(c uint64) platform.ID {
	if id, ok := w.toReal[c]; ok {
		return id
	}
	// unknown or ghost id: a real id that is never generated
	id := platform.ID(0xdead0000 + c)
	w.toReal[c] = id
	w.toCan[id] = c
	return id
}
func (w *world) can(id platform.ID) uint64 {
	if c, ok := w.toCan[id]; ok {
		return c
	}
	w.bad = append(w.bad, fmt.Sprintf("unknown id %s in the store", id))
	return 999999
}
func (w *world) register(id platform.ID, kind int) {
	if _, ok := w.toCan[id]; ok {
		return
	}
	c := w.next
	w.next++
	w.toCan[id] = c
	w.toReal[c] = id
	switch kind {
	case 0:
		w.orgs = append(w.orgs, c)
	case 1:
		w.bkts = append(w.bkts, c)
	default:
		w.users = append(w.users, c)
	}
}

type kvp struct{ k, v []byte }

func (w *world) bucket(name string) []kvp {
	var out []kvp
	err := w.kv.View(w.ctx, func(tx kv.Tx) error {
		b, err := tx.Bucket([]byte(name))
		if err != nil {
			return err
		}
		c, err := b.ForwardCursor(nil)
		if err != nil {
			return err
		}
		defer c.Close()
		for k, v := c.Next(); k != nil; k, v = c.Next() {
			out = append(out, kvp{append([]byte{}, k...), append([]byte{}, v...)})
		}
		return c.Err()
	})
	if err != nil {
		w.bad = append(w.bad, "dump "+name+": "+err.Error())
	}
	return out
}

func (w *world) decID(b []byte) platform.ID {
	var id platform.ID
	if err := id.Decode(b); err != nil {
		w.bad = append(w.bad, fmt.Sprintf("bad id %q", b))
	}
	return id
}

func less(a, b []uint64) bool {
	for i := range a {
		if a[i] != b[i] {
			return a[i] < b[i]
		}
	}
	return false
}

// observe: register new ids (orgs, then buckets, then users, each in ascending real id =
// creation order), dump everything, run the lookups.
// quiet: only learn the new ids (in creation order) and the error class.
func (w *world) quiet(err error) jobs {
	o := jobs{Err: errClass(err), Skip: true}
	if err != nil {
		o.ErrS = err.Error()
	}
	for kind, name := range []string{"organizationsv1", "bucketsv1", "usersv1"} {
		for _, e := range w.bucket(name) {
			w.register(w.decID(e.k), kind)
		}
	}
	return o
}

func (w *world) observe(err error) jobs {
	o := jobs{Err: errClass(err)}
	if err != nil {
		o.ErrS = err.Error()
	}
	rawOrgs := w.bucket("organizationsv1")
	rawBkts := w.bucket("bucketsv1")
	rawUsers := w.bucket("usersv1")
	for _, e := range rawOrgs {
		w.register(w.decID(e.k), 0)
	}
	for _, e := range rawBkts {
		w.register(w.decID(e.k), 1)
	}
	for _, e := range rawUsers {
		w.register(w.decID(e.k), 2)
	}
	w.live = [3][]uint64{}
	for _, e := range rawOrgs {
		w.live[0] = append(w.live[0], w.can(w.decID(e.k)))
	}
	for _, e := range rawBkts {
		w.live[1] = append(w.live[1], w.can(w.decID(e.k)))
	}
	for _, e := range rawUsers {
		w.live[2] = append(w.live[2], w.can(w.decID(e.k)))
	}
	for _, e := range rawOrgs {
		var r influxdb.Organization
		if json.Unmarshal(e.v, &r) != nil || r.ID != w.decID(e.k) {
			w.bad = append(w.bad, fmt.Sprintf("org record %q", e.v))
		}
		c, v, ok := orgNameOf(r.Name)
		if !ok {
			w.bad = append(w.bad, fmt.Sprintf("org name %q", r.Name))
		}
		o.Orgs = append(o.Orgs, [3]uint64{w.can(r.ID), c, v})
	}
	for _, e := range w.bucket("organizationindexv1") {
		c, v, ok := orgNameOf(string(e.k))
		if !ok {
			w.bad = append(w.bad, fmt.Sprintf("org index key %q", e.k))
		}
		o.OIdx = append(o.OIdx, [3]uint64{c, v, w.can(w.decID(e.v))})
	}
	for _, e := range rawBkts {
		var r influxdb.Bucket
		if json.Unmarshal(e.v, &r) != nil || r.ID != w.decID(e.k) {
			w.bad = append(w.bad, fmt.Sprintf("bucket record %q", e.v))
		}
		n, ok := bktNameOf(r.Name)
		if !ok {
			w.bad = append(w.bad, fmt.Sprintf("bucket name %q", r.Name))
		}
		o.Bkts = append(o.Bkts, jbucket{w.can(r.ID), w.can(r.OrgID), n, r.Type == influxdb.BucketTypeSystem})
	}
	for _, e := range w.bucket("bucketindexv1") {
		if len(e.k) < platform.IDLength {
			w.bad = append(w.bad, fmt.Sprintf("bucket index key %q", e.k))
			continue
		}
		n, ok := bktNameOf(string(e.k[platform.IDLength:]))
		if !ok {
			w.bad = append(w.bad, fmt.Sprintf("bucket index key %q", e.k))
		}
		o.BIdx = append(o.BIdx, [3]uint64{w.can(w.decID(e.k[:platform.IDLength])), n, w.can(w.decID(e.v))})
	}
	for _, e := range rawUsers {
		var r influxdb.User
		if json.Unmarshal(e.v, &r) != nil || r.ID != w.decID(e.k) {
			w.bad = append(w.bad, fmt.Sprintf("user record %q", e.v))
		}
		n, ok := usrNameOf(r.Name)
		if !ok {
			w.bad = append(w.bad, fmt.Sprintf("user name %q", r.Name))
		}
		o.Users = append(o.Users, [2]uint64{w.can(r.ID), n})
	}
	for _, e := range w.bucket("userindexv1") {
		n, ok := usrNameOf(string(e.k))
		if !ok {
			w.bad = append(w.bad, fmt.Sprintf("user index key %q", e.k))
		}
		o.UIdx = append(o.UIdx, [2]uint64{n, w.can(w.decID(e.v))})
	}
	for _, e := range w.bucket("userspasswordv1") {
		o.Pwds = append(o.Pwds, w.can(w.decID(e.k)))
	}
	for _, e := range w.bucket("userresourcemappingsv1") {
		var m influxdb.UserResourceMapping
		if len(e.k) != 2*platform.IDLength || json.Unmarshal(e.v, &m) != nil {
			w.bad = append(w.bad, fmt.Sprintf("urm %q -> %q", e.k, e.v))
			continue
		}
		res, usr := w.decID(e.k[:platform.IDLength]), w.decID(e.k[platform.IDLength:])
		if m.ResourceID != res || m.UserID != usr {
			w.bad = append(w.bad, fmt.Sprintf("urm record %q under key %q", e.v, e.k))
		}
		rt, ut := uint64(99), uint64(99)
		for i, t := range rtypes {
			if t == m.ResourceType {
				rt = uint64(i)
			}
		}
		for i, t := range utypes {
			if t == m.UserType {
				ut = uint64(i)
			}
		}
		o.Urms = append(o.Urms, [4]uint64{w.can(res), w.can(usr), rt, ut})
	}
	for _, e := range w.bucket("userresourcemappingsbyuserindexv1") {
		L := platform.IDLength
		if len(e.k) != 3*L+1 || e.k[L] != '/' || len(e.v) != 2*L {
			w.bad = append(w.bad, fmt.Sprintf("urm index %q -> %q", e.k, e.v))
			continue
		}
		if string(e.k[2*L+1:]) != string(e.k[:L]) {
			w.bad = append(w.bad, fmt.Sprintf("urm index key %q: user parts differ", e.k))
		}
		o.UIx = append(o.UIx, [4]uint64{w.can(w.decID(e.k[:L])), w.can(w.decID(e.k[L+1 : 2*L+1])),
			w.can(w.decID(e.v[:L])), w.can(w.decID(e.v[L:]))})
	}
	w.lastUrms = o.Urms
	w.userBkts = nil
	for _, b := range o.Bkts {
		if !b.Sys {
			w.userBkts = append(w.userBkts, b.ID)
		}
	}
	sort.Slice(o.Orgs, func(i, j int) bool { return less(o.Orgs[i][:1], o.Orgs[j][:1]) })
	sort.Slice(o.OIdx, func(i, j int) bool { return less(o.OIdx[i][:2], o.OIdx[j][:2]) })
	sort.Slice(o.Bkts, func(i, j int) bool { return o.Bkts[i].ID < o.Bkts[j].ID })
	sort.Slice(o.BIdx, func(i, j int) bool { return less(o.BIdx[i][:2], o.BIdx[j][:2]) })
	sort.Slice(o.Users, func(i, j int) bool { return o.Users[i][0] < o.Users[j][0] })
	sort.Slice(o.UIdx, func(i, j int) bool { return o.UIdx[i][0] < o.UIdx[j][0] })
	sort.Slice(o.Pwds, func(i, j int) bool { return o.Pwds[i] < o.Pwds[j] })
	sort.Slice(o.Urms, func(i, j int) bool { return less(o.Urms[i][:2], o.Urms[j][:2]) })
	sort.Slice(o.UIx, func(i, j int) bool { return less(o.UIx[i][:2], o.UIx[j][:2]) })

	// lookups through the service API
	lookup := func(id platform.ID, err error) (uint64, uint64) {
		if err != nil {
			if errClass(err) != 2 {
				w.bad = append(w.bad, "lookup error: "+err.Error())
			}
			return 0, 0
		}
		return 1, w.can(id)
	}
	for _, p := range [][2]uint64{{1, 0}, {2, 0}, {3, 0}, {1, 1}} {
		n := orgName(p[0], p[1])
		org, err := w.svc.FindOrganization(w.ctx, influxdb.OrganizationFilter{Name: &n})
		var id platform.ID
		if err == nil {
			id = org.ID
			if oc, _, _ := orgNameOf(org.Name); oc != p[0] {
				w.bad = append(w.bad, fmt.Sprintf("FindOrganization(%q) returned %q", n, org.Name))
			}
		}
		f, c := lookup(id, err)
		o.LOrg = append(o.LOrg, [4]uint64{p[0], p[1], f, c})
	}
	porgs := w.orgs // the two most recently created organizations (live or deleted)
	if len(porgs) > 2 {
		porgs = porgs[len(porgs)-2:]
	}
	for _, oc := range porgs {
		for _, bn := range []uint64{0, 5, 6} {
			b, err := w.svc.FindBucketByName(w.ctx, w.real(oc), bktName(bn))
			var id platform.ID
			if err == nil {
				id = b.ID
				if b.Name != bktName(bn) || b.OrgID != w.real(oc) {
					w.bad = append(w.bad, fmt.Sprintf("FindBucketByName(%d,%q) returned %q of org %s", oc, bktName(bn), b.Name, b.OrgID))
				}
			}
			f, c := lookup(id, err)
			o.LBkt = append(o.LBkt, [4]uint64{oc, bn, f, c})
		}
	}
	for _, oc := range porgs {
		org := w.real(oc)
		bs, _, err := w.svc.FindBuckets(w.ctx, influxdb.BucketFilter{OrganizationID: &org}, influxdb.FindOptions{Limit: 1000000})
		l := jlist{Org: oc, OK: err == nil, IDs: []uint64{}}
		for _, b := range bs {
			if b.OrgID != org {
				w.bad = append(w.bad, fmt.Sprintf("FindBuckets(org %d) returned bucket %s of org %s", oc, b.ID, b.OrgID))
			}
			l.IDs = append(l.IDs, w.can(b.ID))
		}
		sort.Slice(l.IDs, func(i, j int) bool { return l.IDs[i] < l.IDs[j] })
		o.Lst = append(o.Lst, l)
	}
	for un := uint64(1); un <= 3; un++ {
		n := usrNames[un]
		u, err := w.svc.FindUser(w.ctx, influxdb.UserFilter{Name: &n})
		var id platform.ID
		if err == nil {
			id = u.ID
			if u.Name != n {
				w.bad = append(w.bad, fmt.Sprintf("FindUser(%q) returned %q", n, u.Name))
			}
		}
		f, c := lookup(id, err)
		o.LUsr = append(o.LUsr, [3]uint64{un, f, c})
	}
	return o
}

func (w *world) apply(op jop) error {
	ctx := w.ctx
	defer func() { w.orgGen.pending, w.bktGen.pending = nil, nil }()
	if op.Dup > 0 && op.Op == "create_org" {
		w.inject(w.orgGen, 0, op.Dup)
		w.inject(w.bktGen, 1, op.Dup)
	}
	if op.Dup > 0 && op.Op == "create_bucket" {
		w.inject(w.bktGen, 1, op.Dup)
	}
	switch op.Op {
	case "create_org":
		if op.Owner != nil {
			ctx = icontext.SetAuthorizer(ctx, &influxdb.Authorization{UserID: w.real(*op.Owner), Status: influxdb.Active})
		}
		return w.svc.CreateOrganization(ctx, &influxdb.Organization{Name: orgName(op.OName[0], op.OName[1])})
	case "update_org":
		upd := influxdb.OrganizationUpdate{}
		if op.OName != nil {
			n := orgName(op.OName[0], op.OName[1])
			upd.Name = &n
		} else {
			d := "descr"
			upd.Description = &d
		}
		_, err := w.svc.UpdateOrganization(ctx, w.real(op.ID), upd)
		return err
	case "delete_org":
		if op.Race {
			real := w.svc.UserResourceMappingService
			w.svc.UserResourceMappingService = &racingURMs{UserResourceMappingService: real, armed: w.real(op.ID)}
			defer func() { w.svc.UserResourceMappingService = real }()
		}
		return w.svc.DeleteOrganization(ctx, w.real(op.ID))
	case "create_bucket":
		b := &influxdb.Bucket{OrgID: w.real(op.ID), Name: bktName(*op.Name)}
		if op.Sys {
			b.Type = influxdb.BucketTypeSystem
		}
		return w.svc.CreateBucket(ctx, b)
	case "update_bucket":
		upd := influxdb.BucketUpdate{}
		if op.Name != nil {
			nm := bktName(*op.Name)
			upd.Name = &nm
		} else {
			d := "descr"
			upd.Description = &d
		}
		_, err := w.svc.UpdateBucket(ctx, w.real(op.ID), upd)
		return err
	case "delete_bucket":
		return w.svc.DeleteBucket(ctx, w.real(op.ID))
	case "create_user":
		return w.svc.CreateUser(ctx, &influxdb.User{Name: usrNames[*op.Name]})
	case "update_user":
		upd := influxdb.UserUpdate{}
		if op.Name != nil {
			upd.Name = &usrNames[*op.Name]
		} else {
			s := influxdb.Inactive
			upd.Status = &s
		}
		_, err := w.svc.UpdateUser(ctx, w.real(op.ID), upd)
		return err
	case "delete_user":
		return w.svc.DeleteUser(ctx, w.real(op.ID))
	case "set_password":
		return w.svc.SetPassword(ctx, w.real(op.ID), "Passw0rd-long-enough")
	case "add_urm":
		return w.svc.CreateUserResourceMapping(ctx, &influxdb.UserResourceMapping{
			UserID: w.real(op.User), UserType: utypes[op.UType], MappingType: influxdb.UserMappingType,
			ResourceType: rtypes[op.RType], ResourceID: w.real(op.ID)})
	case "del_urm":
		return w.svc.DeleteUserResourceMapping(ctx, w.real(op.ID), w.real(op.User))
	}
	panic("unknown op " + op.Op)
}

// ---- Gallina rendering ----

func num(a uint64) string   { return fmt.Sprint(a) } // header opens N_scope: bare literals elaborate faster
func nn(a, b uint64) string { return "(mk_nn " + num(a) + " " + num(b) + ")" }
func app(f string, xs ...uint64) string {
	var b strings.Builder
	b.WriteString("(" + f)
	for _, x := range xs {
		b.WriteString(" " + num(x))
	}
	b.WriteString(")")
	return b.String()
}
func nums(v []uint64) string {
	xs := make([]string, len(v))
	for i, c := range v {
		xs[i] = num(c)
	}
	return vh.List(xs)
}
func optN(found, v uint64) string {
	if found == 0 {
		return "nN"
	}
	return "(sN " + num(v) + ")"
}
func optNp(p *uint64) string {
	if p == nil {
		return "None"
	}
	return vh.Some(num(*p))
}
func opTerm(o jop) string {
	switch o.Op {
	case "create_org":
		return fmt.Sprintf("CreateOrg %s %s", app("oN", o.OName[0], o.OName[1]), optNp(o.Owner))
	case "update_org":
		if o.OName == nil {
			return fmt.Sprintf("UpdateOrg %s None", num(o.ID))
		}
		return fmt.Sprintf("UpdateOrg %s (Some %s)", num(o.ID), app("oN", o.OName[0], o.OName[1]))
	case "delete_org":
		return "DeleteOrg " + num(o.ID)
	case "create_bucket":
		return fmt.Sprintf("CreateBucket %s %s %s", num(o.ID), num(*o.Name), vh.Bool(o.Sys))
	case "update_bucket":
		return fmt.Sprintf("UpdateBucket %s %s", num(o.ID), optNp(o.Name))
	case "delete_bucket":
		return "DeleteBucket " + num(o.ID)
	case "create_user":
		return "CreateUser " + num(*o.Name)
	case "update_user":
		return fmt.Sprintf("UpdateUser %s %s", num(o.ID), optNp(o.Name))
	case "delete_user":
		return "DeleteUser " + num(o.ID)
	case "set_password":
		return "SetPassword " + num(o.ID)
	case "add_urm":
		return fmt.Sprintf("AddURM %s %s %s", num(o.ID), num(o.User), nn(o.RType, o.UType))
	case "del_urm":
		return fmt.Sprintf("DelURM %s %s", num(o.ID), num(o.User))
	}
	panic("op")
}
func obsTerm(o jobs, same bool) string {
	if o.Skip {
		return "(oskip " + num(o.Err) + ")"
	}
	if same {
		return "(osame " + num(o.Err) + ")"
	}
	var orgs, oidx, bkts, bidx, users, uidx, urms, uix, lorg, lbkt, lusr, lst []string
	for _, l := range o.Lst {
		if l.OK {
			lst = append(lst, fmt.Sprintf("(mk_ls %d (sL %s))", l.Org, nums(l.IDs)))
		} else {
			lst = append(lst, fmt.Sprintf("(mk_ls %d nL)", l.Org))
		}
	}
	for _, e := range o.Orgs {
		orgs = append(orgs, app("mk_org", e[:]...))
	}
	for _, e := range o.OIdx {
		oidx = append(oidx, app("mk_oidx", e[:]...))
	}
	for _, b := range o.Bkts {
		bkts = append(bkts, fmt.Sprintf("(mk_bkt %d %d %d %s)", b.ID, b.Org, b.Name, vh.Bool(b.Sys)))
	}
	for _, e := range o.BIdx {
		bidx = append(bidx, app("mk_nnn", e[:]...))
	}
	for _, e := range o.Users {
		users = append(users, app("mk_nn", e[:]...))
	}
	for _, e := range o.UIdx {
		uidx = append(uidx, app("mk_nn", e[:]...))
	}
	for _, e := range o.Urms {
		urms = append(urms, app("mk_urm", e[:]...))
	}
	for _, e := range o.UIx {
		uix = append(uix, app("mk_urm", e[:]...))
	}
	for _, e := range o.LOrg {
		lorg = append(lorg, fmt.Sprintf("(mk_lk %d %d %s)", e[0], e[1], optN(e[2], e[3])))
	}
	for _, e := range o.LBkt {
		lbkt = append(lbkt, fmt.Sprintf("(mk_lk %d %d %s)", e[0], e[1], optN(e[2], e[3])))
	}
	for _, e := range o.LUsr {
		lusr = append(lusr, fmt.Sprintf("(mk_lu %d %s)", e[0], optN(e[1], e[2])))
	}
	return fmt.Sprintf("(Build_obs false false %s %s %s %s %s %s %s %s %s %s %s %s %s %s)",
		num(o.Err), vh.List(orgs), vh.List(oidx), vh.List(bkts), vh.List(bidx), vh.List(users), vh.List(uidx),
		nums(o.Pwds), vh.List(urms), vh.List(uix), vh.List(lorg), vh.List(lbkt), vh.List(lusr), vh.List(lst))
}

// paddedDelete: the history deletes an organization and uses a blank-padded organization
// name (the shape of the former finding; only counted for the input distribution).
func paddedDelete(ops []jop) bool {
	padded, del := false, false
	for _, o := range ops {
		if o.Op == "delete_org" {
			del = true
		}
		if (o.Op == "create_org" || o.Op == "update_org") && o.OName != nil && o.OName[0] != 0 && o.OName[1] != 0 {
			padded = true
		}
	}
	return padded && del
}

// run executes a history; gen (if non-nil) produces the next operation from the current
// world (so that generated operations can refer to the ids that exist), otherwise c.Ops is replayed.
func run(w *vh.W, c *jcase, length int, gen func(*world) jop) {
	wd := newWorld(c.Store == "bolt")
	defer wd.cleanup()
	c.Obs = nil
	var panicked string
	ops := c.Ops
	if gen != nil {
		ops = nil
	}
	for i := 0; (gen != nil && i < length) || (gen == nil && i < len(c.Ops)); i++ {
		var op jop
		if gen != nil {
			op = gen(wd)
			ops = append(ops, op)
		} else {
			op = c.Ops[i]
		}
		var err error
		panicked = vh.Guard(func() { err = wd.apply(op) })
		if panicked != "" {
			break
		}
		if op.Quiet {
			c.Obs = append(c.Obs, wd.quiet(err))
		} else {
			c.Obs = append(c.Obs, wd.observe(err))
		}
		w.Count("op", op.Op)
		if op.Dup > 0 {
			w.Count("id_collision_injected", op.Op)
		}
		w.Count("err:"+op.Op, fmt.Sprint(c.Obs[len(c.Obs)-1].Err))
	}
	c.Ops = ops
	opsT := make([]string, len(c.Ops))
	for i, o := range c.Ops {
		opsT[i] = "(" + opTerm(o) + ")"
	}
	obsT := make([]string, len(c.Obs))
	nontrivial := false
	for i, o := range c.Obs {
		same := false
		if i > 0 && !o.Skip && !c.Obs[i-1].Skip {
			a, b := c.Obs[i-1], o
			a.Err, a.ErrS, b.Err, b.ErrS = 0, "", 0, ""
			same = reflect.DeepEqual(a, b)
		}
		obsT[i] = obsTerm(o, same)
		k := c.Ops[i].Op
		if o.Err == 1 || (o.Err == 0 && (strings.HasPrefix(k, "delete") || strings.HasPrefix(k, "update") || k == "del_urm")) {
			nontrivial = true
		}
	}
	sig := "" // no tolerated finding: the padded-name defect of Store.DeleteOrg is fixed (/repo 80e129d9b5)
	idx := w.Add(fmt.Sprintf("(Build_case %s %s)", vh.List(opsT), vh.List(obsT)), c, nontrivial, sig)
	if panicked != "" {
		w.Fail(idx, "panic in the tenant service: "+panicked, "")
	}
	if len(wd.bad) > 0 {
		w.Fail(idx, "malformed store content: "+strings.Join(wd.bad, "; "), "")
	}
	w.Count("len", fmt.Sprint(len(c.Ops)))
	if c.Store == "" {
		w.Count("store", "inmem")
	} else {
		w.Count("store", c.Store)
	}
	w.Count("padded_name_and_org_delete", fmt.Sprint(paddedDelete(c.Ops)))
}

// largeHistory: an organization with MANY buckets is deleted.  final+del user buckets are
// created in org A (names in the order perm gives: creation order, id order and name order
// all differ), ren of them renamed, del deleted, all without looking at the store; the last
// bulk step and everything after it is observed in full.  With other, a second organization
// with a bucket exists and is used again afterwards.  Canonical ids are predictable because
// every creation succeeds.
func largeHistory(perm []int, final, del, ren int, other bool) []jop {
	var ops []jop
	next := uint64(1)
	ops = append(ops, jop{Op: "create_org", OName: on(1, 0)})
	orgA := next
	next += 3
	var orgB, bktB uint64
	if other {
		ops = append(ops, jop{Op: "create_org", OName: on(2, 0)})
		orgB = next
		next += 3
		ops = append(ops, jop{Op: "create_bucket", ID: orgB, Name: up(5)})
		bktB = next
		next++
	}
	total := final + del
	var ids []uint64
	for i := 0; i < total; i++ {
		ops = append(ops, jop{Op: "create_bucket", ID: orgA, Name: up(uint64(8 + perm[i])), Quiet: true})
		ids = append(ids, next)
		next++
	}
	for i := 0; i < ren; i++ {
		ops = append(ops, jop{Op: "update_bucket", ID: ids[(5+11*i)%total], Name: up(uint64(8 + perm[total+i])), Quiet: true})
	}
	for i := 0; i < del; i++ {
		ops = append(ops, jop{Op: "delete_bucket", ID: ids[(2+13*i)%total], Quiet: true})
	}
	ops[len(ops)-1].Quiet = false
	ops = append(ops, jop{Op: "delete_org", ID: orgA})
	if other {
		ops = append(ops, jop{Op: "create_bucket", ID: orgB, Name: up(uint64(8 + perm[0]))}, jop{Op: "update_bucket", ID: bktB, Name: up(6)})
	}
	return ops
}

func up(v uint64) *uint64       { return &v }
func on(c, v uint64) *[2]uint64 { return &[2]uint64{c, v} }

func main() {
	w := vh.New("C30", "From Verif Require Import Base.Prelude Model.C30.\nOpen Scope N_scope.", "case", "check")
	w.Rule = "histories (1-12 operations) of create/rename/describe/delete organization (3 names x {plain, blank-padded}, empty name; optional owner from the caller's context), create/rename/delete bucket (3 ordinary names, _tasks, _monitoring, another underscore name, a quoted name, the empty name; user or system type), create/rename/delete user (3 names), set password, add/remove user-resource mapping (on organizations, buckets, never-existing ids), through the real tenant.Service on inmem KV (hand-picked histories also, and 1 in 8 random ones instead, on a bolt KV store in a temporary file); targets are drawn from the ids created so far (live or already deleted) and never-existing ids; hand-picked histories first (one with injected id collisions: for 1 in 4 organization/bucket creations, hand-picked and random, the id generator first repeats 1-2 ids that are in use, so the create has to retry; one with a membership of the organization removed by another client between DeleteOrganization's listing and its clean-up loop, as 1 in 3 random organization deletes), then one LARGE-organization history (99 user buckets created with short names whose byte order differs from creation order, one renamed, one deleted, then DeleteOrganization, a second organization untouched) and 1 in 60 random ones like it (97-130 user buckets left, 0-3 renamed, 0-3 deleted; the bulk steps are not observed, the step before the delete and everything after it is); n>=5000 (thorough) adds ALL 10^4 histories of length 4 over 10 symbolic operations (create org plain/padded, rename/delete the first org, create/rename/delete the first user bucket, create/delete the first user, map the first user to the first bucket or org), every prefix observed. After every operation: error class, dump of the 9 KV buckets, FindOrganization/FindBucketByName/FindUser lookups, FindBuckets(org, explicit large limit) for the two newest organizations. Non-trivial: some operation reports a conflict or a rename/delete/unmapping succeeds. Distinct: distinct Gallina terms."
	var rc jcase
	if w.ReplayCase(&rc) {
		run(w, &rc, 0, nil)
		w.Finish()
		return
	}
	hand := [][]jop{
		// blank-padded names (regression for the fixed finding: before /repo 80e129d9b5 the index entry "oa" survived the delete)
		{{Op: "create_org", OName: on(1, 1)}, {Op: "delete_org", ID: 1}, {Op: "create_org", OName: on(1, 0)}},
		{{Op: "create_org", OName: on(1, 2)}, {Op: "update_org", ID: 1, OName: on(2, 0)}, {Op: "delete_org", ID: 1}, {Op: "create_org", OName: on(1, 0)}, {Op: "create_org", OName: on(2, 0)}},
		{{Op: "create_org", OName: on(1, 0)}, {Op: "update_org", ID: 1, OName: on(2, 1)}, {Op: "delete_org", ID: 1}, {Op: "create_org", OName: on(2, 0)}},
		// colliding renames, rename to the same name, to a padded variant of the own name
		{{Op: "create_org", OName: on(1, 0)}, {Op: "create_org", OName: on(2, 0)}, {Op: "update_org", ID: 4, OName: on(1, 0)}, {Op: "update_org", ID: 4, OName: on(2, 0)}, {Op: "update_org", ID: 4, OName: on(2, 1)}, {Op: "update_org", ID: 4, OName: on(3, 0)}, {Op: "create_org", OName: on(2, 0)}, {Op: "update_org", ID: 1}, {Op: "update_org", ID: 1, OName: on(0, 1)}},
		{{Op: "create_org", OName: on(0, 0)}, {Op: "create_org", OName: on(0, 2)}, {Op: "create_org", OName: on(1, 0)}, {Op: "create_org", OName: on(1, 1)}},
		// buckets: uniqueness per org, renames, system buckets
		{{Op: "create_org", OName: on(1, 0)}, {Op: "create_org", OName: on(2, 0)}, {Op: "create_bucket", ID: 1, Name: up(5)}, {Op: "create_bucket", ID: 4, Name: up(5)}, {Op: "create_bucket", ID: 1, Name: up(5)}, {Op: "create_bucket", ID: 1, Name: up(6)}, {Op: "update_bucket", ID: 9, Name: up(5)}, {Op: "update_bucket", ID: 9, Name: up(7)}, {Op: "update_bucket", ID: 9, Name: up(7)}, {Op: "create_bucket", ID: 1, Name: up(6)}, {Op: "delete_bucket", ID: 7}, {Op: "create_bucket", ID: 1, Name: up(5)}},
		{{Op: "create_org", OName: on(1, 0)}, {Op: "delete_bucket", ID: 2}, {Op: "update_bucket", ID: 3, Name: up(5)}, {Op: "update_bucket", ID: 3, Name: up(1)}, {Op: "update_bucket", ID: 2}, {Op: "create_bucket", ID: 1, Name: up(0)}, {Op: "create_bucket", ID: 1, Name: up(2)}, {Op: "create_bucket", ID: 1, Name: up(2), Sys: true}, {Op: "delete_bucket", ID: 4}, {Op: "create_bucket", ID: 1, Name: up(3)}, {Op: "create_bucket", ID: 1, Name: up(4)}, {Op: "update_bucket", ID: 5, Name: up(2)}},
		// organization delete cascade: buckets, mappings on the org and on its buckets
		{{Op: "create_user", Name: up(1)}, {Op: "create_org", OName: on(1, 0), Owner: up(1)}, {Op: "create_bucket", ID: 2, Name: up(5)}, {Op: "add_urm", ID: 5, User: 1, RType: 1, UType: 1}, {Op: "add_urm", ID: 3, User: 1, RType: 1}, {Op: "create_org", OName: on(2, 0)}, {Op: "add_urm", ID: 6, User: 1}, {Op: "delete_org", ID: 2}, {Op: "create_org", OName: on(1, 0)}, {Op: "delete_org", ID: 2}},
		{{Op: "create_org", OName: on(1, 0), Owner: up(1000)}, {Op: "create_user", Name: up(1)}, {Op: "create_org", OName: on(1, 0), Owner: up(4)}, {Op: "create_org", OName: on(2, 0), Owner: up(4)}, {Op: "delete_org", ID: 1}},
		// id collisions: the generator repeats ids in use before a fresh one (create must retry)
		{{Op: "create_org", OName: on(1, 0)}, {Op: "create_org", OName: on(2, 0), Dup: 1}, {Op: "create_bucket", ID: 1, Name: up(5)}, {Op: "create_bucket", ID: 4, Name: up(6), Dup: 1}, {Op: "create_bucket", ID: 1, Name: up(6), Dup: 2}, {Op: "create_bucket", ID: 4, Name: up(6), Dup: 2}, {Op: "create_org", OName: on(3, 0), Dup: 2}, {Op: "delete_bucket", ID: 7}, {Op: "create_bucket", ID: 1, Name: up(5), Dup: 1}},
		// a member of the organization is removed by another client while DeleteOrganization cleans up
		{{Op: "create_user", Name: up(1)}, {Op: "create_user", Name: up(2)}, {Op: "create_user", Name: up(3)}, {Op: "create_org", OName: on(1, 0), Owner: up(1)}, {Op: "add_urm", ID: 4, User: 2, UType: 1}, {Op: "add_urm", ID: 4, User: 3, UType: 1}, {Op: "create_org", OName: on(2, 0), Owner: up(2)}, {Op: "delete_org", ID: 4, Race: true}, {Op: "delete_org", ID: 7, Race: true}},
		// users: renames, delete with password and mappings
		{{Op: "create_user", Name: up(1)}, {Op: "create_user", Name: up(2)}, {Op: "create_user", Name: up(1)}, {Op: "update_user", ID: 2, Name: up(1)}, {Op: "update_user", ID: 2, Name: up(2)}, {Op: "update_user", ID: 2, Name: up(3)}, {Op: "create_user", Name: up(2)}, {Op: "update_user", ID: 1}, {Op: "delete_user", ID: 1}, {Op: "create_user", Name: up(1)}, {Op: "delete_user", ID: 1}},
		{{Op: "create_user", Name: up(1)}, {Op: "set_password", ID: 1}, {Op: "create_org", OName: on(1, 0)}, {Op: "add_urm", ID: 2, User: 1}, {Op: "add_urm", ID: 2, User: 1}, {Op: "add_urm", ID: 1001, User: 1, RType: 1}, {Op: "add_urm", ID: 2, User: 1002}, {Op: "create_user", Name: up(2)}, {Op: "add_urm", ID: 2, User: 5, UType: 1}, {Op: "delete_user", ID: 1}, {Op: "set_password", ID: 1}, {Op: "del_urm", ID: 2, User: 1}},
		{{Op: "create_user", Name: up(1)}, {Op: "add_urm", ID: 1001, User: 1}, {Op: "del_urm", ID: 1001, User: 1}, {Op: "del_urm", ID: 1001, User: 1}, {Op: "delete_user", ID: 1000}, {Op: "delete_org", ID: 1000}, {Op: "delete_bucket", ID: 1000}, {Op: "update_org", ID: 1000, OName: on(1, 0)}, {Op: "update_bucket", ID: 1000, Name: up(5)}, {Op: "update_user", ID: 1000, Name: up(1)}, {Op: "create_bucket", ID: 1000, Name: up(5)}},
	}
	for _, h := range hand {
		c := jcase{Ops: h}
		run(w, &c, 0, nil)
	}
	for _, h := range hand { // the same on a real bolt store (transactions roll back)
		c := jcase{Ops: h, Store: "bolt"}
		run(w, &c, 0, nil)
	}
	{ // one large organization (99 user buckets + 2 system buckets when it is deleted)
		perm := make([]int, 140)
		for i := range perm {
			perm[i] = (i*37 + 11) % 140
		}
		c := jcase{Ops: largeHistory(perm, 99, 1, 1, true)}
		run(w, &c, 0, nil)
	}
	r := w.Rng
	// target ids: mostly live ones, sometimes already deleted ones, sometimes never-existing ones
	pickw := func(wd *world, kinds []int, ghostP int) uint64 {
		var live, all []uint64
		if len(kinds) == 1 && kinds[0] == 1 && len(wd.userBkts) > 0 && r.IntN(3) != 0 {
			return wd.userBkts[r.IntN(len(wd.userBkts))]
		}
		for _, k := range kinds {
			live = append(live, wd.live[k]...)
			all = append(all, [][]uint64{wd.orgs, wd.bkts, wd.users}[k]...)
		}
		if len(all) == 0 && r.IntN(8) != 0 {
			return 0 // nothing of this kind yet: draw another operation
		}
		if len(all) == 0 || r.IntN(ghostP) == 0 {
			return ghostBase + uint64(r.IntN(2))
		}
		if len(live) > 0 && r.IntN(6) != 0 {
			return live[r.IntN(len(live))]
		}
		return all[r.IntN(len(all))]
	}
	oname := func() *[2]uint64 {
		c := uint64(1 + r.IntN(3))
		if r.IntN(25) == 0 {
			c = 0
		}
		v := uint64(0)
		if r.IntN(6) == 0 {
			v = uint64(1 + r.IntN(2))
		}
		return on(c, v)
	}
	bname := func() *uint64 {
		if r.IntN(6) == 0 {
			return up(uint64(r.IntN(5)))
		}
		return up(uint64(5 + r.IntN(3)))
	}
	pwLeft := 0
	var draw func(wd *world) jop
	gen := func(wd *world) jop {
		for {
			o := draw(wd)
			needsID := o.Op != "create_org" && o.Op != "create_user"
			if (needsID && o.ID == 0) || ((o.Op == "add_urm" || o.Op == "del_urm") && o.User == 0) {
				continue // nothing of the needed kind exists yet
			}
			if o.Owner != nil && *o.Owner == 0 {
				o.Owner = nil
			}
			return o
		}
	}
	draw = func(wd *world) jop {
		for {
			switch k := r.IntN(100); {
			case k < 12:
				o := jop{Op: "create_org", OName: oname()}
				if r.IntN(4) == 0 {
					o.Owner = up(pickw(wd, []int{2}, 5))
				}
				if len(wd.orgs) >= 4 {
					continue
				}
				if r.IntN(4) == 0 {
					o.Dup = 1 + r.IntN(2)
				}
				return o
			case k < 22:
				o := jop{Op: "update_org", ID: pickw(wd, []int{0}, 14)}
				if r.IntN(6) != 0 {
					o.OName = oname()
				}
				return o
			case k < 30:
				return jop{Op: "delete_org", ID: pickw(wd, []int{0}, 14), Race: r.IntN(3) == 0}
			case k < 44:
				o := jop{Op: "create_bucket", ID: pickw(wd, []int{0}, 14), Name: bname(), Sys: r.IntN(10) == 0}
				if r.IntN(4) == 0 {
					o.Dup = 1 + r.IntN(2)
				}
				return o
			case k < 56:
				o := jop{Op: "update_bucket", ID: pickw(wd, []int{1}, 14)}
				if r.IntN(6) != 0 {
					o.Name = bname()
				}
				return o
			case k < 63:
				return jop{Op: "delete_bucket", ID: pickw(wd, []int{1}, 14)}
			case k < 71:
				return jop{Op: "create_user", Name: up(uint64(1 + r.IntN(3)))}
			case k < 78:
				o := jop{Op: "update_user", ID: pickw(wd, []int{2}, 14)}
				if r.IntN(6) != 0 {
					o.Name = up(uint64(1 + r.IntN(3)))
				}
				return o
			case k < 83:
				return jop{Op: "delete_user", ID: pickw(wd, []int{2}, 14)}
			case k < 85:
				if pwLeft == 0 { // bcrypt is slow: at most one per history
					continue
				}
				pwLeft--
				return jop{Op: "set_password", ID: pickw(wd, []int{2}, 6)}
			case k < 95:
				return jop{Op: "add_urm", ID: pickw(wd, []int{0, 1}, 10), User: pickw(wd, []int{2}, 12), RType: uint64(r.IntN(2)), UType: uint64(r.IntN(2))}
			default:
				if len(wd.lastUrms) > 0 && r.IntN(4) != 0 {
					e := wd.lastUrms[r.IntN(len(wd.lastUrms))]
					return jop{Op: "del_urm", ID: e[0], User: e[1]}
				}
				return jop{Op: "del_urm", ID: pickw(wd, []int{0, 1}, 8), User: pickw(wd, []int{2}, 10)}
			}
		}
	}
	if w.N >= 5000 { // thorough: ALL histories of length 4 over 10 symbolic operations (every prefix is observed)
		first := func(xs []uint64) uint64 {
			if len(xs) == 0 {
				return ghostBase
			}
			return xs[0]
		}
		alpha := []func(wd *world) jop{
			func(wd *world) jop { return jop{Op: "create_org", OName: on(1, 0)} },
			func(wd *world) jop { return jop{Op: "create_org", OName: on(1, 1)} },
			func(wd *world) jop { return jop{Op: "update_org", ID: first(wd.live[0]), OName: on(2, 0)} },
			func(wd *world) jop { return jop{Op: "delete_org", ID: first(wd.orgs)} },
			func(wd *world) jop { return jop{Op: "create_bucket", ID: first(wd.live[0]), Name: up(5)} },
			func(wd *world) jop { return jop{Op: "update_bucket", ID: first(wd.userBkts), Name: up(6)} },
			func(wd *world) jop { return jop{Op: "delete_bucket", ID: first(wd.userBkts)} },
			func(wd *world) jop { return jop{Op: "create_user", Name: up(1)} },
			func(wd *world) jop { return jop{Op: "delete_user", ID: first(wd.users)} },
			func(wd *world) jop {
				res := first(wd.userBkts)
				if res == ghostBase {
					res = first(wd.live[0])
				}
				return jop{Op: "add_urm", ID: res, User: first(wd.live[2]), RType: 1}
			},
		}
		const L = 4
		idx := make([]int, L)
		cnt := 0
		for {
			pos := 0
			c := jcase{}
			run(w, &c, L, func(wd *world) jop { o := alpha[idx[pos]](wd); pos++; return o })
			cnt++
			k := L - 1
			for k >= 0 {
				idx[k]++
				if idx[k] < len(alpha) {
					break
				}
				idx[k] = 0
				k--
			}
			if k < 0 {
				break
			}
		}
		w.Extra["exhaustive_len4_over_10_symbolic_ops"] = cnt
	}
	finals := []int{97, 98, 99, 100, 101, 105, 130}
	for w.Len() < w.N {
		if r.IntN(60) == 0 { // a large organization is deleted
			c := jcase{Ops: largeHistory(r.Perm(140), finals[r.IntN(len(finals))], r.IntN(4), r.IntN(4), r.IntN(2) == 0)}
			if r.IntN(8) == 0 {
				c.Store = "bolt"
			}
			run(w, &c, 0, nil)
			w.Count("large_org", fmt.Sprint(true))
			continue
		}
		pwLeft = 0
		if r.IntN(5) == 0 {
			pwLeft = 1
		}
		c := jcase{}
		if r.IntN(8) == 0 {
			c.Store = "bolt"
		}
		run(w, &c, 1+r.IntN(12), gen)
	}
	w.Finish()
}
