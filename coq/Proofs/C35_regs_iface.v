(** C35 — interface between the sketch-level proofs ([Proofs/C35_regs_*.v]) and the
    bit-level / codec lemmas ([Proofs/C35_bits.v], [Proofs/C35_codec.v], proved separately).

    [iface] is a record of PROPOSITIONS (nothing is postulated): every sketch-level lemma takes an
    [I : iface] explicitly; a later file builds the record from the real lemmas.
    Field [i_foo] is the hypothesis [foo] of the task statement, verbatim. *)
From Verif Require Import Base.Prelude Model.C35.
Local Open Scope N_scope.

Record iface : Type := {
  i_ascending : N -> list N -> Prop;
  i_asc_nil : forall lo, i_ascending lo [] <-> True;
  i_asc_cons : forall lo x r,
      i_ascending lo (x :: r) <-> lo <= x /\ x < two32 /\ i_ascending (x + 1) r;
  i_decode_encode : forall p x, 4 <= p -> p <= 18 -> x < two64 ->
      decode_hash p (encode_hash p x) = (dense_index p x, dense_rho p x);
  i_encode_lt : forall p x, 4 <= p -> p <= 18 -> x < two64 -> encode_hash p x < two32;
  i_cl_keys_of_keys : forall l, i_ascending 0 l -> cl_keys (cl_of_keys l) = l;
  i_rd32_be32 : forall n rest, n < two32 -> rd32 (be32 n ++ rest) = n;
  i_be32_length : forall n, length (be32 n) = 4%nat
}.

(** Our own copy of the predicate (same equations), so that the invariants below do not
    depend on the interface. *)
Fixpoint asc (lo : N) (l : list N) : Prop :=
  match l with
  | [] => True
  | x :: r => lo <= x /\ x < two32 /\ asc (x + 1) r
  end.

Lemma i_asc_iff (I : iface) : forall l lo, i_ascending I lo l <-> asc lo l.
Proof.
  induction l as [|x r IH]; intro lo; cbn [asc].
  - apply i_asc_nil.
  - rewrite i_asc_cons, IH. reflexivity.
Qed.

Lemma i_cl_keys (I : iface) l : asc 0 l -> cl_keys (cl_of_keys l) = l.
Proof. intro H. apply (i_cl_keys_of_keys I), i_asc_iff, H. Qed.
