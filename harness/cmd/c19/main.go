// C19 driver.  Three case kinds on the REAL code:
//
//	expired: meta.RetentionPolicyInfo.ExpiredShardGroups(t) / DeletedShardGroups() with an
//	         explicit t (exact boundary end+D == t, +-1 ns, D = 0, deleted groups);
//	service: retention.Service.DeletionCheck (one or two passes) with a real meta.Client
//	         (in-memory KV) holding several databases/policies and a recording TSDBStore stub
//	         (in-use shards, DeleteShard failures, shards missing from the store, stray shards);
//	         DeletionCheck reads time.Now() itself, so group ends are placed >= 10 minutes away
//	         from now-D and the case is expressed in a frame where now = 0;
//	write:   coordinator.PointsWriter.WritePointsPrivileged with a real meta.Client and a
//	         recording store; the policy duration is D = now0 - M for a generated instant M,
//	         so the bound now-D lies in [M, M+runtime]; points are < M or >= M+120s.
package main

import (
	"context"
	"errors"
	"fmt"
	"math/big"
	"sort"
	"strings"
	"sync"
	"time"

	"github.com/influxdata/influxdb/v2/inmem"
	"github.com/influxdata/influxdb/v2/models"
	"github.com/influxdata/influxdb/v2/tsdb"
	"github.com/influxdata/influxdb/v2/v1/coordinator"
	"github.com/influxdata/influxdb/v2/v1/services/meta"
	"github.com/influxdata/influxdb/v2/v1/services/retention"
	"verifh/vh"
)

const sigRide = "old-point-accepted-with-newer-point-of-same-shard-group"

type jgroup struct {
	ID     uint64   `json:"id"`
	End    int64    `json:"end"` // expired: absolute ns; service: ns relative to now
	Del    int      `json:"del"` // 0 live, 1 deleted <2 weeks ago, 2 deleted >2 weeks ago
	Shards []uint64 `json:"shards"`
}
type jrp struct {
	DB     int      `json:"db"`
	D      int64    `json:"duration"`
	Groups []jgroup `json:"groups"`
}
type jview struct {
	ID     uint64   `json:"id"`
	Del    int      `json:"del"`
	Shards []uint64 `json:"shards"`
}
type jpass struct {
	InUse  []uint64          `json:"inuse"`
	Errs   map[string]string `json:"errs"` // shard id -> "notfound" | "fail"
	RPs    [][]jview         `json:"impl_groups"`
	Store  []uint64          `json:"impl_store"`
	Calls  []uint64          `json:"impl_delete_calls"`
	Blocks [][2]uint64       `json:"impl_block_calls"` // (id, 0/1)
}
type jcase struct {
	Kind string `json:"kind"`
	// expired
	D       int64    `json:"d,omitempty"`
	Now     int64    `json:"now,omitempty"`
	Groups  []jgroup `json:"groups,omitempty"`
	Expired []uint64 `json:"impl_expired,omitempty"`
	Deleted []uint64 `json:"impl_deleted,omitempty"`
	// service
	RPs    []jrp    `json:"rps,omitempty"`
	Store  []uint64 `json:"store,omitempty"`
	Passes []jpass  `json:"passes,omitempty"`
	// write
	SGD        int64   `json:"sgd,omitempty"`
	HasRet     bool    `json:"has_retention,omitempty"`
	M          int64   `json:"m,omitempty"`
	Pre        []int64 `json:"pre,omitempty"`
	Pts        []int64 `json:"pts,omitempty"`
	Mapped     []int64 `json:"impl_mapped,omitempty"` // group id or -1 (dropped)
	DroppedErr int64   `json:"impl_dropped_err"`      // -1 no error, else PartialWriteError.Dropped
	OtherErr   string  `json:"impl_other_err,omitempty"`
}

// zfast renders an integer as a Gallina Z term.  Coq 8.16 elaborates a 19-digit decimal
// literal in ~5 ms but the explicit binary constructor form in ~0.5 ms, which dominates the
// run time of a shard (the judge itself runs in microseconds), so large values are written
// as Zpos/Zneg constructor terms.
func zfast(v *big.Int) string {
	if v.IsInt64() && v.Int64() > -1000000 && v.Int64() < 1000000 {
		if v.Sign() < 0 {
			return fmt.Sprintf("(%d)%%Z", v.Int64())
		}
		return fmt.Sprintf("%d%%Z", v.Int64())
	}
	a := new(big.Int).Abs(v)
	bits := a.Text(2)
	var b strings.Builder
	if v.Sign() < 0 {
		b.WriteString("(Zneg ")
	} else {
		b.WriteString("(Zpos ")
	}
	// most significant bit is xH, innermost; least significant bit is the outermost constructor
	for i := len(bits) - 1; i >= 1; i-- {
		if bits[i] == '1' {
			b.WriteString("(xI ")
		} else {
			b.WriteString("(xO ")
		}
	}
	b.WriteString("xH")
	b.WriteString(strings.Repeat(")", len(bits)))
	return b.String()
}
func zz(v int64) string { return zfast(big.NewInt(v)) }
func zzs(vs []int64) string {
	xs := make([]string, len(vs))
	for i, v := range vs {
		xs[i] = zz(v)
	}
	return vh.List(xs)
}

func must(err error) {
	if err != nil {
		panic(err)
	}
}

func newClient() *meta.Client {
	store := inmem.NewKVStore()
	must(store.CreateBucket(context.Background(), meta.BucketName))
	cfg := meta.NewConfig()
	cfg.RetentionAutoCreate = false
	c := meta.NewClient(cfg, store)
	must(c.Open())
	return c
}

func gterm(g jgroup) string {
	return fmt.Sprintf("{| rg_id := %s; rg_end := %s; rg_del := %s; rg_shards := %s |}", vh.N(g.ID), zz(g.End), vh.N(uint64(g.Del)), vh.Ns(g.Shards))
}
func gterms(gs []jgroup) string {
	xs := make([]string, len(gs))
	for i, g := range gs {
		xs[i] = gterm(g)
	}
	return vh.List(xs)
}

// ---------------------------------------------------------------- expired

func runExpired(w *vh.W, c *jcase) {
	rpi := meta.RetentionPolicyInfo{Name: "rp", ReplicaN: 1, Duration: time.Duration(c.D)}
	for _, g := range c.Groups {
		sg := meta.ShardGroupInfo{ID: g.ID, StartTime: time.Unix(0, g.End).Add(-time.Hour), EndTime: time.Unix(0, g.End)}
		if g.Del != 0 {
			sg.DeletedAt = time.Unix(1700000000, 0)
		}
		for _, s := range g.Shards {
			sg.Shards = append(sg.Shards, meta.ShardInfo{ID: s})
		}
		rpi.ShardGroups = append(rpi.ShardGroups, sg)
	}
	c.Expired, c.Deleted = []uint64{}, []uint64{}
	for _, g := range rpi.ExpiredShardGroups(time.Unix(0, c.Now)) {
		c.Expired = append(c.Expired, g.ID)
	}
	for _, g := range rpi.DeletedShardGroups() {
		c.Deleted = append(c.Deleted, g.ID)
	}
	t := fmt.Sprintf("(CExpired %s %s %s %s %s)", zz(c.D), zz(c.Now), gterms(c.Groups), vh.Ns(c.Expired), vh.Ns(c.Deleted))
	w.Add(t, c, len(c.Groups) > 0 && c.D != 0, "")
	w.Count("kind", "expired")
	w.Count("expired_n", fmt.Sprint(len(c.Expired)))
}

// ---------------------------------------------------------------- service

type recStore struct {
	ids    []uint64
	inuse  map[uint64]bool
	errs   map[uint64]string
	calls  []uint64
	blocks [][2]uint64
}

func (s *recStore) ShardIDs() []uint64 { return append([]uint64(nil), s.ids...) }
func (s *recStore) DeleteShard(id uint64) error {
	s.calls = append(s.calls, id)
	switch s.errs[id] {
	case "notfound":
		return tsdb.ErrShardNotFound
	case "fail":
		return errors.New("injected delete failure")
	}
	for i, x := range s.ids {
		if x == id {
			s.ids = append(s.ids[:i:i], s.ids[i+1:]...)
			break
		}
	}
	return nil
}
func (s *recStore) SetShardNewReadersBlocked(id uint64, blocked bool) error {
	b := uint64(0)
	if blocked {
		b = 1
	}
	s.blocks = append(s.blocks, [2]uint64{id, b})
	return nil
}
func (s *recStore) ShardInUse(id uint64) (bool, error) { return s.inuse[id], nil }

func runService(w *vh.W, c *jcase) {
	mc := newClient()
	now0 := time.Now().UTC()
	ndb := 0
	for _, r := range c.RPs {
		if r.DB+1 > ndb {
			ndb = r.DB + 1
		}
	}
	for i := 0; i < ndb; i++ {
		_, err := mc.CreateDatabase(fmt.Sprintf("db%d", i))
		must(err)
	}
	data := mc.Data()
	var maxG, maxS uint64
	for i, r := range c.RPs {
		rpi := meta.RetentionPolicyInfo{Name: fmt.Sprintf("rp%d", i), ReplicaN: 1, Duration: time.Duration(r.D), ShardGroupDuration: time.Hour}
		for _, g := range r.Groups {
			end := now0.Add(time.Duration(g.End))
			sg := meta.ShardGroupInfo{ID: g.ID, StartTime: end.Add(-time.Hour), EndTime: end}
			switch g.Del {
			case 1:
				sg.DeletedAt = now0.Add(-24 * time.Hour)
			case 2:
				sg.DeletedAt = now0.Add(-30 * 24 * time.Hour)
			}
			for _, s := range g.Shards {
				sg.Shards = append(sg.Shards, meta.ShardInfo{ID: s})
				if s > maxS {
					maxS = s
				}
			}
			if g.ID > maxG {
				maxG = g.ID
			}
			rpi.ShardGroups = append(rpi.ShardGroups, sg)
		}
		data.Databases[r.DB].RetentionPolicies = append(data.Databases[r.DB].RetentionPolicies, rpi)
	}
	data.MaxShardGroupID, data.MaxShardID = maxG, maxS
	must(mc.SetData(&data))

	st := &recStore{ids: append([]uint64(nil), c.Store...)}
	svc := retention.NewService(retention.NewConfig())
	svc.SetOSSMetaClient(mc)
	svc.TSDBStore = st
	svc.DropShardMetaRef = retention.OSSDropShardMetaRef(mc)

	// flat iteration order of DeletionCheck: databases, then policies
	order := []int{}
	for db := 0; db < ndb; db++ {
		for i, r := range c.RPs {
			if r.DB == db {
				order = append(order, i)
			}
		}
	}
	passTerms := []string{}
	for pi := range c.Passes {
		p := &c.Passes[pi]
		st.inuse = map[uint64]bool{}
		for _, id := range p.InUse {
			st.inuse[id] = true
		}
		st.errs = map[uint64]string{}
		errTerms := []string{}
		for _, k := range vh.SortedKeys(p.Errs) {
			var id uint64
			fmt.Sscan(k, &id)
			st.errs[id] = p.Errs[k]
			e := "DFail"
			if p.Errs[k] == "notfound" {
				e = "DNotFound"
			}
			errTerms = append(errTerms, vh.Pair(vh.N(id), e))
		}
		st.calls, st.blocks = nil, nil
		svc.DeletionCheck(context.Background())
		d := mc.Data()
		byName := map[string][]jview{}
		for _, db := range d.Databases {
			for _, rp := range db.RetentionPolicies {
				vs := []jview{}
				for _, g := range rp.ShardGroups {
					v := jview{ID: g.ID, Shards: []uint64{}}
					if !g.DeletedAt.IsZero() {
						v.Del = 1
						if g.DeletedAt.Before(now0.Add(-14 * 24 * time.Hour)) {
							v.Del = 2
						}
					}
					for _, s := range g.Shards {
						v.Shards = append(v.Shards, s.ID)
					}
					vs = append(vs, v)
				}
				sort.Slice(vs, func(i, j int) bool { return vs[i].ID < vs[j].ID })
				byName[rp.Name] = vs
			}
		}
		p.RPs = nil
		rpTerms := []string{}
		for _, i := range order {
			vs := byName[fmt.Sprintf("rp%d", i)]
			p.RPs = append(p.RPs, vs)
			xs := make([]string, len(vs))
			for k, v := range vs {
				xs[k] = fmt.Sprintf("(%s, %s, %s)", vh.N(v.ID), vh.N(uint64(v.Del)), vh.Ns(v.Shards))
			}
			rpTerms = append(rpTerms, vh.List(xs))
		}
		p.Store = append([]uint64{}, st.ids...)
		p.Calls = append([]uint64{}, st.calls...)
		p.Blocks = append([][2]uint64{}, st.blocks...)
		bl := make([]string, len(p.Blocks))
		for k, b := range p.Blocks {
			bl[k] = vh.Pair(vh.N(b[0]), vh.Bool(b[1] == 1))
		}
		passTerms = append(passTerms, fmt.Sprintf("({| pi_inuse := %s; pi_errs := %s |}, {| ob_rps := %s; ob_store := %s; ob_calls := %s; ob_blocks := %s |})",
			vh.Ns(p.InUse), vh.List(errTerms), vh.List(rpTerms), vh.Ns(p.Store), vh.Ns(p.Calls), vh.List(bl)))
		w.Count("delete_calls", fmt.Sprint(min(len(p.Calls), 6)))
	}
	rps := []string{}
	nexp := 0
	for _, i := range order {
		r := c.RPs[i]
		rps = append(rps, fmt.Sprintf("{| rp_D := %s; rp_groups := %s |}", zz(r.D), gterms(r.Groups)))
		for _, g := range r.Groups {
			if g.Del == 0 && r.D != 0 && g.End+r.D < 0 {
				nexp++
			}
		}
	}
	t := fmt.Sprintf("(CService 0%%Z %s %s %s)", vh.List(rps), vh.Ns(c.Store), vh.List(passTerms))
	w.Add(t, c, nexp > 0, "")
	w.Count("kind", "service")
	w.Count("expired_groups", fmt.Sprint(min(nexp, 6)))
}

// ---------------------------------------------------------------- write

type wStore struct {
	mu      sync.Mutex
	byShard map[uint64][]models.Point
}

func (s *wStore) CreateShard(ctx context.Context, database, retentionPolicy string, shardID uint64, enabled bool) error {
	return nil
}
func (s *wStore) WriteToShard(ctx context.Context, shardID uint64, points []models.Point) error {
	s.mu.Lock()
	defer s.mu.Unlock()
	s.byShard[shardID] = append(s.byShard[shardID], points...)
	return nil
}

var off = new(big.Int).Mul(big.NewInt(62135596800), big.NewInt(1000000000))

func window(t, d int64) string {
	m := new(big.Int).Add(big.NewInt(t), off)
	m.Mod(m, big.NewInt(d))
	return new(big.Int).Sub(big.NewInt(t), m).String()
}

func runWrite(w *vh.W, c *jcase) {
	mc := newClient()
	_, err := mc.CreateDatabase("db")
	must(err)
	now0 := time.Now()
	D := time.Duration(0)
	if c.HasRet {
		D = now0.Sub(time.Unix(0, c.M))
		if D < time.Duration(c.SGD)+time.Hour {
			panic("system clock is before the generated retention bounds (need a clock after 2026-01-01)")
		}
	}
	_, err = mc.CreateRetentionPolicy("db", &meta.RetentionPolicySpec{Name: "rp", Duration: &D, ShardGroupDuration: time.Duration(c.SGD)}, true)
	must(err)
	ws := &wStore{}
	pw := coordinator.NewPointsWriter(5*time.Second, "verif-c19")
	pw.MetaClient = mc
	pw.TSDBStore = ws
	mk := func(ts []int64, tag string) []models.Point {
		pts := make([]models.Point, len(ts))
		for i, t := range ts {
			pts[i] = models.MustNewPoint("m", models.NewTags(map[string]string{tag: fmt.Sprint(i)}), models.Fields{"v": 1.0}, time.Unix(0, t))
		}
		return pts
	}
	if len(c.Pre) > 0 {
		ws.byShard = map[uint64][]models.Point{}
		_ = pw.WritePointsPrivileged(context.Background(), "db", "rp", models.ConsistencyLevelAny, mk(c.Pre, "pre"))
	}
	ws.byShard = map[uint64][]models.Point{}
	pts := mk(c.Pts, "i")
	werr := pw.WritePointsPrivileged(context.Background(), "db", "rp", models.ConsistencyLevelAny, pts)
	c.DroppedErr, c.OtherErr = -1, ""
	var pwe tsdb.PartialWriteError
	if errors.As(werr, &pwe) {
		c.DroppedErr = int64(pwe.Dropped)
	} else if werr != nil {
		c.OtherErr = werr.Error()
	}
	data := mc.Data()
	sh2g := map[uint64]uint64{}
	for _, g := range data.Databases[0].RetentionPolicies[0].ShardGroups {
		for _, s := range g.Shards {
			sh2g[s.ID] = g.ID
		}
	}
	c.Mapped = make([]int64, len(pts))
	mt := make([]string, len(pts))
	for i, p := range pts {
		c.Mapped[i] = -1
		for sid, ps := range ws.byShard {
			for _, q := range ps {
				if string(q.Key()) == string(p.Key()) && q.UnixNano() == p.UnixNano() {
					c.Mapped[i] = int64(sh2g[sid])
				}
			}
		}
		if c.Mapped[i] < 0 {
			mt[i] = "None"
		} else {
			mt[i] = vh.Some(vh.N(uint64(c.Mapped[i])))
		}
	}
	minb, derr := "None", "None"
	if c.HasRet {
		minb = vh.Some(zz(c.M))
	}
	if c.DroppedErr >= 0 {
		derr = vh.Some(vh.N(uint64(c.DroppedErr)))
	}
	// former known-finding shape (inputs only, now only counted): an old point shares its window with an in-retention point
	sig := ""
	nold := 0
	if c.HasRet {
		for _, p := range c.Pts {
			if p < c.M {
				nold++
				for _, q := range c.Pts {
					if q >= c.M && window(p, c.SGD) == window(q, c.SGD) {
						sig = sigRide
					}
				}
			}
		}
	}
	t := fmt.Sprintf("(CWrite %s %s %s %s %s %s)", zz(c.SGD), minb, zzs(c.Pre), zzs(c.Pts), vh.List(mt), derr)
	// former finding shape (fixed by /repo commit c26a5a4c30): still generated and counted, no longer tolerated
	idx := w.Add(t, c, nold > 0 && nold < len(c.Pts), "")
	if c.OtherErr != "" {
		w.Fail(idx, "WritePointsPrivileged returned an unexpected error: "+c.OtherErr, "")
	}
	w.Count("kind", "write")
	w.Count("write_old_points", fmt.Sprint(min(nold, 5)))
	w.Count("old_point_shares_window_with_new_point", fmt.Sprint(sig != ""))
}

func run(w *vh.W, c *jcase) {
	var p string
	switch c.Kind {
	case "expired":
		p = vh.Guard(func() { runExpired(w, c) })
	case "service":
		p = vh.Guard(func() { runService(w, c) })
	case "write":
		p = vh.Guard(func() { runWrite(w, c) })
	default:
		panic("bad kind")
	}
	if p != "" {
		idx := w.Add("(CExpired 0%Z 0%Z [] [] [])", c, false, "")
		w.Fail(idx, "panic on the real code: "+p, "")
	}
}

const (
	sec  = int64(1e9)
	hour = 3600 * sec
	day  = 24 * hour
)

func main() {
	w := vh.New("C19", "From Verif Require Import Base.Prelude Model.C18 Model.C19.\nLocal Open Scope Z_scope.", "case", "check")
	w.Rule = "three kinds (see file header), about 40% expired / 35% service / 25% write. expired: 0-6 groups, ends placed at now-D+{-1,0,+1,random}, D from {0, 1ns .. 100y, negative rarely}, some groups deleted. service: 1-3 policies over 1-2 databases, D in {0, 1h .. 10y}, group ends >= 10 min on either side of now-D, deletion classes 0/1/2, 0-3 shards per group with globally unique ids, store = most group shards + stray ids, in-use shards and DeleteShard failures (not-found / other) injected, 1-2 passes. write: shard duration 1h..30d, retention bound M (or infinite), points within a few windows of M: M-1, older, >= M+120s, several in the window that straddles M. Non-trivial: expired: D != 0 and groups; service: at least one expired group; write: batch mixes old and in-retention points. Distinct: distinct Gallina terms."
	var rc jcase
	if w.ReplayCase(&rc) {
		run(w, &rc)
		w.Finish()
		return
	}
	r := w.Rng
	base := int64(1735689600) * sec // 2025-01-01: generated retention bounds M lie before it
	hand := []jcase{
		// exact boundary of ExpiredShardGroups
		{Kind: "expired", D: hour, Now: 1000 * hour, Groups: []jgroup{{ID: 1, End: 999*hour - 1, Shards: []uint64{1}}, {ID: 2, End: 999 * hour, Shards: []uint64{2}}, {ID: 3, End: 999*hour + 1, Shards: []uint64{3}}, {ID: 4, End: 5, Del: 1, Shards: []uint64{4}}}},
		{Kind: "expired", D: 0, Now: 1000 * hour, Groups: []jgroup{{ID: 1, End: 5, Shards: []uint64{1}}, {ID: 2, End: -5, Del: 1}}},
		// service: expired, live, already deleted, old-deleted-empty (prunable), in-use, failing, phantom
		{Kind: "service", RPs: []jrp{
			{DB: 0, D: 24 * hour, Groups: []jgroup{{ID: 1, End: -30 * hour, Shards: []uint64{1}}, {ID: 2, End: -23 * hour, Shards: []uint64{2}}, {ID: 3, End: -90 * hour, Del: 1, Shards: []uint64{3, 4}}, {ID: 4, End: -99 * hour, Del: 2, Shards: []uint64{}}}},
			{DB: 0, D: 0, Groups: []jgroup{{ID: 5, End: -1000 * day, Shards: []uint64{5}}}},
			{DB: 1, D: hour, Groups: []jgroup{{ID: 6, End: -2 * hour, Shards: []uint64{6, 7}}, {ID: 7, End: -3 * hour, Shards: []uint64{8}}, {ID: 8, End: hour, Shards: []uint64{9}}}}},
			Store:  []uint64{9, 1, 2, 3, 5, 6, 7, 77},
			Passes: []jpass{{InUse: []uint64{6}, Errs: map[string]string{"7": "fail", "3": "notfound"}}, {}}},
		// write: single old point rejected, single new accepted, exact edge from below
		{Kind: "write", SGD: hour, HasRet: true, M: base - 100*day + 1234, Pts: []int64{base - 100*day + 1233}},
		{Kind: "write", SGD: hour, HasRet: true, M: base - 100*day + 1234, Pts: []int64{base - 100*day + 1234 + 120*sec}},
		// former finding (fixed in c26a5a4c30): old point rides along with a newer point of the same shard group
		{Kind: "write", SGD: day, HasRet: true, M: base - 50*day + 12*hour, Pts: []int64{base - 50*day + 13*hour, base - 50*day + 1*hour, base - 51*day + 23*hour}},
		{Kind: "write", SGD: 7 * day, HasRet: false, Pts: []int64{models.MinNanoTime, 0, -1, models.MaxNanoTime}},
	}
	for i := range hand {
		run(w, &hand[i])
	}
	durs := []int64{1, 1000, sec, 60 * sec, hour, hour + 1, day, 7 * day, 30 * day, 365 * day, 36500 * day}
	for w.Len() < w.N {
		switch k := r.IntN(100); {
		case k < 40:
			c := jcase{Kind: "expired"}
			c.D = durs[r.IntN(len(durs))]
			switch r.IntN(10) {
			case 0:
				c.D = 0
			case 1:
				c.D = -durs[r.IntN(len(durs))]
			case 2:
				c.D = 1 + r.Int64N(1<<uint(1+r.IntN(62)))
			}
			switch r.IntN(4) {
			case 0:
				c.Now = r.Int64N(1<<62) - (1 << 61)
			case 1:
				c.Now = []int64{0, 1, -1, models.MinNanoTime, models.MaxNanoTime}[r.IntN(5)]
			default:
				c.Now = 1700000000*sec + r.Int64N(1e17)
			}
			n := r.IntN(7)
			sid := uint64(1)
			for i := 0; i < n; i++ {
				g := jgroup{ID: uint64(i + 1), Shards: []uint64{}}
				edge := new(big.Int).Sub(big.NewInt(c.Now), big.NewInt(c.D))
				switch r.IntN(6) {
				case 0, 1, 2:
					edge.Add(edge, big.NewInt(int64(r.IntN(5)-2)))
				case 3:
					edge.Add(edge, big.NewInt(r.Int64N(1<<uint(1+r.IntN(50)))-r.Int64N(1<<uint(1+r.IntN(50)))))
				case 4:
					edge = big.NewInt(r.Int64N(1<<62) - (1 << 61))
				default:
					edge = big.NewInt([]int64{0, models.MinNanoTime, models.MaxNanoTime}[r.IntN(3)])
				}
				if !edge.IsInt64() {
					edge = big.NewInt(0)
				}
				g.End = edge.Int64()
				if r.IntN(5) == 0 {
					g.Del = 1
				}
				for j := r.IntN(3); j > 0; j-- {
					g.Shards = append(g.Shards, sid)
					sid++
				}
				c.Groups = append(c.Groups, g)
			}
			run(w, &c)
		case k < 75:
			c := jcase{Kind: "service"}
			nrp := 1 + r.IntN(3)
			gid, sid := uint64(1), uint64(1)
			var all, doomed []uint64
			for i := 0; i < nrp; i++ {
				rp := jrp{DB: 0, D: []int64{0, hour, day, 7 * day, 30 * day, 3650 * day, hour + 17, 90 * 60 * sec}[r.IntN(8)], Groups: []jgroup{}}
				if i > 0 && r.IntN(2) == 0 {
					rp.DB = 1
				}
				for n := r.IntN(5); n > 0; n-- {
					g := jgroup{ID: gid, Shards: []uint64{}}
					gid++
					margin := 600*sec + r.Int64N([]int64{sec, hour, 100 * day}[r.IntN(3)])
					if r.IntN(2) == 0 {
						margin = -margin
					}
					g.End = -rp.D + margin
					switch r.IntN(6) {
					case 0:
						g.Del = 1
					case 1:
						g.Del = 2
					}
					ns := r.IntN(4)
					if g.Del == 2 && r.IntN(2) == 0 {
						ns = 0
					}
					for ; ns > 0; ns-- {
						g.Shards = append(g.Shards, sid)
						all = append(all, sid)
						if g.Del != 0 || (rp.D != 0 && margin < 0) {
							doomed = append(doomed, sid)
						}
						sid++
					}
					rp.Groups = append(rp.Groups, g)
				}
				c.RPs = append(c.RPs, rp)
			}
			// RPs of db1 must come after those of db0 in the flat order: keep DB non-decreasing
			sort.SliceStable(c.RPs, func(i, j int) bool { return c.RPs[i].DB < c.RPs[j].DB })
			if c.RPs[0].DB == 1 { // db0 must exist when db1 does
				for i := range c.RPs {
					c.RPs[i].DB = 0
				}
			}
			c.Store = []uint64{}
			for _, s := range all {
				if r.IntN(6) != 0 {
					c.Store = append(c.Store, s)
				}
			}
			for n := r.IntN(3); n > 0; n-- {
				c.Store = append(c.Store, 1000+uint64(r.IntN(5))+uint64(10*n))
			}
			r.Shuffle(len(c.Store), func(i, j int) { c.Store[i], c.Store[j] = c.Store[j], c.Store[i] })
			np := 1 + r.IntN(2)
			for p := 0; p < np; p++ {
				ps := jpass{InUse: []uint64{}, Errs: map[string]string{}}
				for _, s := range doomed {
					switch r.IntN(8) {
					case 0:
						ps.InUse = append(ps.InUse, s)
					case 1:
						ps.Errs[fmt.Sprint(s)] = "fail"
					case 2:
						ps.Errs[fmt.Sprint(s)] = "notfound"
					}
				}
				if len(all) > 0 && r.IntN(4) == 0 { // in-use mark on an arbitrary shard
					ps.InUse = append(ps.InUse, all[r.IntN(len(all))])
				}
				c.Passes = append(c.Passes, ps)
			}
			run(w, &c)
		default:
			c := jcase{Kind: "write", HasRet: r.IntN(8) != 0}
			c.SGD = []int64{hour, 2 * hour, day, 7 * day, 30 * day, 90 * 60 * sec}[r.IntN(6)]
			c.M = base - hour - r.Int64N(7000*day)
			if r.IntN(3) == 0 { // M just inside / at a window boundary
				var wv big.Int
				wv.SetString(window(c.M, c.SGD), 10)
				c.M = wv.Int64() + []int64{0, 1, -1, 119 * sec, -121 * sec}[r.IntN(5)]
			}
			pick := func() int64 {
				switch r.IntN(8) {
				case 0:
					return c.M - 1
				case 1:
					return c.M - 1 - r.Int64N(c.SGD)
				case 2:
					return c.M - 1 - r.Int64N(4*c.SGD)
				case 3:
					return c.M + 120*sec
				case 4, 5:
					return c.M + 120*sec + r.Int64N(c.SGD)
				case 6:
					return c.M + 120*sec + r.Int64N(4*c.SGD)
				default:
					return c.M - 1 - r.Int64N(1<<uint(1+r.IntN(55)))
				}
			}
			if !c.HasRet {
				c.M = 0
			}
			for n := r.IntN(3); n > 0 && r.IntN(2) == 0; n-- {
				c.Pre = append(c.Pre, c.M+120*sec+r.Int64N(3*c.SGD))
			}
			for n := 1 + r.IntN(5); n > 0; n-- {
				c.Pts = append(c.Pts, pick())
			}
			run(w, &c)
		}
	}
	w.Finish()
}
