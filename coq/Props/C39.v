(** C39 — Concurrent shard operations stay race-free and consistent.
    What a Gallina model can carry is the CONSISTENCY clause: "every read returns a state
    that some serial order of the completed operations could have produced".  The serial
    specification is the proved one of C01/C03; the driver finds, for each observed
    concurrent history, a serial order consistent with real time and the judge below
    validates it.  Data races, deadlocks and panics are runtime behaviour: observed by the
    driver (race detector in the thorough tier, deadlines, recover), never proved. *)
From Verif Require Import Base.Prelude Model.C01 Proofs.C01 Proofs.C39.

(** Acceptance by the judge means: in the serial order, every read returned exactly the
    last-write-wins content of the writes and deletes ordered before it. *)
Theorem C39_accepted_history_is_serially_explained :
  forall c, check c = V_OK -> reads_explained c [].
Proof. exact check_ok_explained. Qed.
Print Assumptions C39_accepted_history_is_serially_explained.

(** ... and that content is what the engine model itself shows after the same serial order
    under EVERY placement of snapshots and compactions (C01/C03's theorem, restated): the
    serial specification does not depend on background activity. *)
Theorem C39_serial_spec_independent_of_background_work :
  forall h k lo hi asc, safe h init ->
    read (run h init) k lo hi asc = spec_read (spec_log h []) k lo hi asc.
Proof. exact read_your_writes. Qed.
Print Assumptions C39_serial_spec_independent_of_background_work.

Example C39_nonvacuous :
  check [COp (Write [(0%N, 1%Z, 5%Z)]) true; CRead 0%N 0%Z 9%Z true [(1%Z, 5%Z)];
         COp (Write [(0%N, 1%Z, 6%Z)]) true; CRead 0%N 0%Z 9%Z false [(1%Z, 6%Z)]] = V_OK.
Proof. reflexivity. Qed.
