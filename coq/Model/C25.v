(** C25 — Only active tasks are scheduled.

    Mirror of the task-coordination path of influxdb 2.x:
      - [middleware.CoordinatingTaskService] CreateTask / UpdateTask / DeleteTask
        (task/backend/middleware/middleware.go): order of store call and
        coordinator notification, rollback of the store on a failed [TaskCreated];
      - [coordinator.Coordinator] TaskCreated / TaskUpdated / TaskDeleted
        (task/backend/coordinator/coordinator.go), including [NewSchedulableTask]'s
        "invalid cron or every" rejection;
      - [backend.NotifyCoordinatorOfExisting] (task/backend/coordinator.go): on start-up
        every task whose status is active is handed to [TaskCreated] on a fresh scheduler.

    The scheduler is seen through its interface only (Schedule = insert/replace,
    Release = delete).  A schedule is the pair (effective cron string, offset); the
    driver interns the strings to numbers, [0] = "no cron and no every" (or an
    unparsable one), which [NewSchedulableTask]/[NewSchedule] rejects.

    Status domain: [TaskCreate.Validate] admits only "", "active", "inactive" and the
    store replaces "" by "active" before the coordinator sees the task;
    [TaskUpdate.Validate] admits only "active"/"inactive".  So the status of a stored
    task is two-valued and is modelled as [t_active : bool]; on this domain the test of
    the code, [task.Status == "inactive"], is [negb t_active].  (A coordinator handed a
    task with any other status string would schedule it; that cannot come through the
    coordinating task service and is outside the model.)

    [fx] selects the version of [Coordinator.TaskCreated]: [fx = true] is the code as it
    is now (since /repo commit da7c7e4fac "fix: do not schedule a task that is created
    with status inactive": an inactive task is not scheduled on create), [fx = false]
    the code before that commit (schedules unconditionally), kept only to record the
    counterexample.  The correspondence judge and the property theorems use
    [fx = true]. *)
From Verif Require Import Base.Prelude.

Record sched := { sc_spec : N; sc_off : Z }.
Record task := { t_active : bool; t_sched : sched }.

Definition store := list (N * task).   (* ascending ids: ids are handed out increasingly *)
Definition sset := list (N * sched).   (* kept ascending by [ins] *)

Record state := { st_tasks : store; st_sch : sset; st_next : N }.

Definition init : state := {| st_tasks := []; st_sch := []; st_next := 1 |}.

Inductive op :=
| Create (status : option bool) (s : sched)     (* status "" / "active" / "inactive" *)
| Update (id : N) (status : option bool) (spec : option N) (off : option Z)
| Delete (id : N)
| Restart.

(** association lists *)
Fixpoint lookup {A} (k : N) (l : list (N * A)) : option A :=
  match l with
  | [] => None
  | (k', v) :: r => if N.eqb k k' then Some v else lookup k r
  end.

Fixpoint remove {A} (k : N) (l : list (N * A)) : list (N * A) :=
  match l with
  | [] => []
  | (k', v) :: r => if N.eqb k k' then remove k r else (k', v) :: remove k r
  end.

(** insert-or-replace, keeping ascending key order *)
Fixpoint ins {A} (k : N) (v : A) (l : list (N * A)) : list (N * A) :=
  match l with
  | [] => [(k, v)]
  | (k', v') :: r =>
      if N.eqb k k' then (k, v) :: r
      else if N.ltb k k' then (k, v) :: (k', v') :: r
      else (k', v') :: ins k v r
  end.

(** replace the value of an existing key in place (the store's UpdateTask) *)
Fixpoint upd {A} (k : N) (v : A) (l : list (N * A)) : list (N * A) :=
  match l with
  | [] => []
  | (k', v') :: r => if N.eqb k k' then (k, v) :: r else (k', v') :: upd k v r
  end.

Definition valid (s : sched) : bool := negb (N.eqb (sc_spec s) 0).

(** [Coordinator.TaskCreated]: NewSchedulableTask fails on an invalid schedule
    (returns [None] = error); then [if task.Status == "inactive" { return nil }];
    otherwise Schedule. *)
Definition task_created (fx : bool) (id : N) (t : task) (sch : sset) : option sset :=
  if negb (valid (t_sched t)) then None
  else if fx && negb (t_active t) then Some sch
  else Some (ins id (t_sched t) sch).

(** [Coordinator.TaskUpdated from to]; an error leaves the scheduler untouched. *)
Definition task_updated (id : N) (from to : task) (sch : sset) : sset :=
  if negb (valid (t_sched to)) then sch
  else if Bool.eqb (t_active to) (t_active from) && negb (t_active to) then sch
  else if negb (Bool.eqb (t_active to) (t_active from)) && negb (t_active to) then remove id sch
  else ins id (t_sched to) sch.

(** [NotifyCoordinatorOfExisting] on a fresh scheduler: inactive tasks are skipped,
    errors of [TaskCreated] are ignored. *)
Fixpoint notify_existing (fx : bool) (ts : store) (sch : sset) : sset :=
  match ts with
  | [] => sch
  | (id, t) :: r =>
      let sch' := if t_active t
                  then match task_created fx id t sch with Some s => s | None => sch end
                  else sch in
      notify_existing fx r sch'
  end.

Definition apply_update (from : task) (status : option bool) (spec : option N) (off : option Z) : task :=
  {| t_active := match status with Some b => b | None => t_active from end;
     t_sched := {| sc_spec := match spec with Some x => x | None => sc_spec (t_sched from) end;
                   sc_off := match off with Some x => x | None => sc_off (t_sched from) end |} |}.

Definition step (fx : bool) (st : state) (o : op) : state :=
  match o with
  | Create status s =>
      let id := st_next st in
      let t := {| t_active := match status with Some b => b | None => true end; t_sched := s |} in
      (* store.CreateTask, then coordinator.TaskCreated; on error store.DeleteTask *)
      match task_created fx id t (st_sch st) with
      | Some sch' => {| st_tasks := st_tasks st ++ [(id, t)]; st_sch := sch'; st_next := N.succ id |}
      | None => {| st_tasks := st_tasks st; st_sch := st_sch st; st_next := N.succ id |}
      end
  | Update id status spec off =>
      match lookup id (st_tasks st) with
      | None => st                                         (* FindTaskByID fails *)
      | Some from =>
          let to := apply_update from status spec off in
          {| st_tasks := upd id to (st_tasks st);
             st_sch := task_updated id from to (st_sch st);
             st_next := st_next st |}
      end
  | Delete id =>
      (* coordinator.TaskDeleted (Release) first, then store.DeleteTask *)
      {| st_tasks := remove id (st_tasks st); st_sch := remove id (st_sch st); st_next := st_next st |}
  | Restart =>
      {| st_tasks := st_tasks st; st_sch := notify_existing fx (st_tasks st) []; st_next := st_next st |}
  end.

Definition run (fx : bool) (ops : list op) : state := fold_left (step fx) ops init.

(** The property, as a proposition on a state ... *)
Definition expected (st : state) (id : N) : option sched :=
  match lookup id (st_tasks st) with
  | Some t => if t_active t then Some (t_sched t) else None
  | None => None
  end.

Definition scheduled_iff_active (st : state) : Prop :=
  forall id, lookup id (st_sch st) = expected st id.

(** ... and as an independent boolean oracle on what was OBSERVED: the scheduler's
    set must be the list of the observed store's active tasks with their schedules
    (both ascending by id). *)
Definition sched_eqb (a b : sched) : bool :=
  N.eqb (sc_spec a) (sc_spec b) && Z.eqb (sc_off a) (sc_off b).
Definition task_eqb (a b : task) : bool :=
  Bool.eqb (t_active a) (t_active b) && sched_eqb (t_sched a) (t_sched b).

Definition active_of (ts : store) : sset :=
  map (fun p => (fst p, t_sched (snd p))) (filter (fun p => t_active (snd p)) ts).

Definition sset_eqb := list_eqb (pair_eqb N.eqb sched_eqb).
Definition store_eqb := list_eqb (pair_eqb N.eqb task_eqb).

Definition oracle_step (o : sset * store) : bool := sset_eqb (fst o) (active_of (snd o)).

(** Trace of (scheduler set, store) after each operation. *)
Fixpoint trace (fx : bool) (st : state) (ops : list op) : list (sset * store) :=
  match ops with
  | [] => []
  | o :: r => let st' := step fx st o in (st_sch st', st_tasks st') :: trace fx st' r
  end.

Record case := { c_ops : list op; c_obs : list (sset * store) }.

Definition obs_eqb (a b : sset * store) : bool :=
  sset_eqb (fst a) (fst b) && store_eqb (snd a) (snd b).

Definition check (c : case) : verdict :=
  let m := trace true init (c_ops c) in
  let same := list_eqb obs_eqb (c_obs c) m in
  let ok := Nat.eqb (length (c_obs c)) (length (c_ops c)) && forallb oracle_step (c_obs c) in
  judge same ok.
