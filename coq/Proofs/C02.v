From Verif Require Import Base.Prelude Model.C01 Proofs.C01 Model.C02.
From Coq Require Import ZifyN ZifyNat.

(** * (A) WAL framing *)
Lemma be32_length n : length (be32 n) = 4.
Proof. reflexivity. Qed.

Lemma rd32_be32 n : (n < 4294967296)%N ->
  match be32 n with [b3; b2; b1; b0] => rd32 b3 b2 b1 b0 = n | _ => False end.
Proof.
  intros H. unfold be32, rd32.
  pose proof (N.div_mod n 256 ltac:(lia)) as E0.
  pose proof (N.div_mod (n / 256) 256 ltac:(lia)) as E1.
  pose proof (N.div_mod (n / 256 / 256) 256 ltac:(lia)) as E2.
  assert (A1 : (n / 65536 = n / 256 / 256)%N) by (rewrite N.div_div by lia; reflexivity).
  assert (A2 : (n / 16777216 = n / 256 / 256 / 256)%N) by (rewrite !N.div_div by lia; reflexivity).
  rewrite A1, A2.
  assert (S3 : (n / 256 / 256 / 256 < 256)%N).
  { rewrite !N.div_div by lia. apply N.div_lt_upper_bound; lia. }
  rewrite (N.mod_small _ _ S3). lia.
Qed.

Section WalProofs.
  Variable decodable : rec -> bool.

  Lemma frame_length r : length (frame r) = 5 + length (snd r).
  Proof. unfold frame. cbn [length]. rewrite app_length, be32_length. lia. Qed.

  Definition rec_ok (r : rec) : Prop :=
    decodable r = true /\ (N.of_nat (length (snd r)) < 4294967296)%N.

  (** Parsing a complete frame followed by anything. *)
  Lemma wal_parse_frame fuel r rest :
    rec_ok r ->
    wal_parse decodable (S fuel) (frame r ++ rest) =
    let (rs, n) := wal_parse decodable fuel rest in (r :: rs, 5 + length (snd r) + n).
  Proof.
    intros [Hd Hl]. destruct r as [ty pl]. cbn [fst snd] in *.
    unfold frame. cbn [fst snd].
    pose proof (rd32_be32 _ Hl) as Hr. unfold be32 in *. cbn [app].
    cbn [wal_parse]. rewrite Hr, Nat2N.id.
    rewrite app_length. replace (Nat.leb (length pl) (length pl + length rest)) with true
      by (symmetry; apply Nat.leb_le; lia).
    rewrite firstn_app, Nat.sub_diag, firstn_all, firstn_O, app_nil_r.
    rewrite Hd. rewrite skipn_app, Nat.sub_diag, skipn_all. cbn [skipn app].
    reflexivity.
  Qed.

  (** A strict prefix of a frame parses to nothing. *)
  Lemma wal_parse_torn fuel r n :
    (N.of_nat (length (snd r)) < 4294967296)%N -> n < length (frame r) ->
    wal_parse decodable fuel (firstn n (frame r)) = ([], 0).
  Proof.
    intros Hl Hn. destruct fuel; [reflexivity|].
    destruct r as [ty pl]. cbn [fst snd] in *. rewrite frame_length in Hn. cbn [snd] in Hn.
    unfold frame. cbn [fst snd].
    pose proof (rd32_be32 _ Hl) as Hr. unfold be32 in *.
    destruct n as [|[|[|[|[|n]]]]]; try reflexivity.
    cbn [app firstn wal_parse]. rewrite Hr, Nat2N.id.
    replace (Nat.leb (length pl) (length (firstn n pl))) with false; [reflexivity|].
    symmetry. apply Nat.leb_gt. rewrite firstn_length. lia.
  Qed.

  Lemma frames_length_le rs : length rs <= length (frames rs).
  Proof.
    induction rs as [|r rs IH]; [cbn; lia|]. unfold frames in *. cbn [flat_map length].
    rewrite app_length, frame_length. lia.
  Qed.

  Lemma wal_parse_frames rs : forall fuel tail,
    Forall rec_ok rs -> length rs <= fuel ->
    wal_parse decodable fuel (frames rs ++ tail) =
    let (ts, n) := wal_parse decodable (fuel - length rs) tail in (rs ++ ts, length (frames rs) + n).
  Proof.
    induction rs as [|r rs IH]; intros fuel tail HF Hfu.
    - cbn. rewrite Nat.sub_0_r. destruct (wal_parse decodable fuel tail). reflexivity.
    - inversion HF as [|? ? Hr HF']; subst. destruct fuel as [|fuel]; [cbn in Hfu; lia|].
      cbn [frames flat_map]. rewrite <- app_assoc.
      rewrite (wal_parse_frame fuel r _ Hr). fold (frames rs).
      rewrite (IH fuel tail HF') by (cbn in Hfu; lia).
      cbn [length Nat.sub]. destruct (wal_parse decodable (fuel - length rs) tail) as [ts n].
      cbn [app]. f_equal. rewrite app_length, frame_length. lia.
  Qed.

  (** The torn-tail theorem: earlier records are all recovered, nothing is invented, and
      the good prefix ends exactly where the torn record starts. *)
  Theorem wal_torn_tail rs r n :
    Forall rec_ok rs -> (N.of_nat (length (snd r)) < 4294967296)%N -> n < length (frame r) ->
    wal_read decodable (frames rs ++ firstn n (frame r)) = (rs, length (frames rs)).
  Proof.
    intros HF Hl Hn. unfold wal_read.
    rewrite wal_parse_frames; [|exact HF|].
    - rewrite (wal_parse_torn _ r n Hl Hn). f_equal; [apply app_nil_r|lia].
    - rewrite app_length. pose proof (frames_length_le rs). lia.
  Qed.

  Theorem wal_complete rs :
    Forall rec_ok rs -> wal_read decodable (frames rs) = (rs, length (frames rs)).
  Proof.
    intros HF. pose proof (wal_torn_tail rs (0%N, []) 0 HF) as H.
    cbn [firstn] in H. rewrite app_nil_r in H. apply H; cbn; lia.
  Qed.
End WalProofs.

(** * (B) Crash safety of the engine *)
Definition ov (a b : option Z) : option Z := match a with Some v => Some v | None => b end.
Notation lg := log_get.
Definition eqv (A B : log) : Prop := forall k t, lg A k t = lg B k t.

Lemma abs_ov s k t :
  abs s k t = ov (lg (hot s) k t) (ov (lg (snap s) k t) (files_get (files s) k t)).
Proof. reflexivity. Qed.

Lemma replay_from_app B a b : replay_from B (a ++ b) = replay_from (replay_from B a) b.
Proof. revert B. induction a as [|e a IH]; intros B; [reflexivity|]. destruct e; cbn; apply IH. Qed.

Definition nodel (E : list wentry) : Prop :=
  Forall (fun e => match e with WDelete _ _ _ => False | _ => True end) E.

Lemma replay_nodel E : nodel E -> forall B k t,
  lg (replay_from B E) k t = ov (lg (replay_from [] E) k t) (lg B k t).
Proof.
  induction 1 as [|e E He _ IH]; intros B k t; [reflexivity|].
  destruct e as [b|]; [|destruct He]. cbn [replay_from app].
  rewrite (IH (B ++ b)), (IH b). rewrite log_get_app.
  destruct (log_get (replay_from [] E) k t); cbn; [reflexivity|].
  destruct (log_get b k t); reflexivity.
Qed.

Lemma replay_cong E : forall B B', eqv B B' -> eqv (replay_from B E) (replay_from B' E).
Proof.
  induction E as [|e E IH]; intros B B' H; [exact H|]. destruct e as [b|ks lo hi]; cbn [replay_from]; apply IH.
  - intros k t. rewrite !log_get_app. rewrite (H k t). reflexivity.
  - intros k t. rewrite !log_delete_get. rewrite (H k t). reflexivity.
Qed.

Lemma has_key_false l k t : has_key l k = false -> log_get l k t = None.
Proof.
  intros H. apply log_get_none_iff. intros v Hin.
  unfold has_key in H. assert (E : existsb (fun e => N.eqb (fst (fst e)) k) l = true).
  { apply existsb_exists. exists (k, t, v). split; [exact Hin|]. cbn. apply N.eqb_refl. }
  congruence.
Qed.

Lemma in_keys_filter (p : key -> bool) ks k : in_keys (filter p ks) k = (in_keys ks k && p k)%bool.
Proof.
  unfold in_keys. induction ks as [|x ks IH]; cbn; [reflexivity|].
  destruct (p x) eqn:P; cbn; rewrite IH.
  - destruct (N.eqb k x) eqn:E; cbn; [|reflexivity]. apply N.eqb_eq in E; subst. rewrite P. reflexivity.
  - destruct (N.eqb k x) eqn:E; cbn; [|reflexivity]. apply N.eqb_eq in E; subst. rewrite P.
    destruct (existsb (N.eqb x) ks); reflexivity.
Qed.

Lemma delete_dk_eqv H B ks lo hi :
  eqv H B -> eqv (log_delete H ks lo hi) (log_delete B (filter (has_key H) ks) lo hi).
Proof.
  intros E k t. rewrite !log_delete_get. unfold hit. rewrite in_keys_filter.
  destruct (in_keys ks k) eqn:K; cbn; [|apply E].
  destruct (has_key H k) eqn:HK; cbn; [rewrite (E k t); reflexivity|].
  destruct (in_range lo hi t); [|apply E].
  rewrite <- (E k t). symmetry. apply has_key_false. exact HK.
Qed.

(** Coverage: everything the closed segments would replay is already in the TSM files. *)
Definition cov (cl : list wentry) (fs : list file) : Prop :=
  forall k t v, lg (replay_from [] cl) k t = Some v -> files_get fs k t = Some v.

Definition Inv (d : dstate) : Prop :=
  let s := mem d in
  (phase d = 0%N /\ snapshotting s = false /\ snap s = [] /\ eqv (hot s) (replay_from [] (closed d ++ opn d))) \/
  (phase d = 1%N /\ snapshotting s = true /\ eqv (snap s) (replay_from [] (closed d)) /\ nodel (opn d) /\
     eqv (hot s) (replay_from [] (opn d))) \/
  (phase d = 2%N /\ snapshotting s = true /\ eqv (snap s) (replay_from [] (closed d)) /\ nodel (opn d) /\
     eqv (hot s) (replay_from [] (opn d)) /\ cov (closed d) (files s)) \/
  (phase d = 3%N /\ snapshotting s = false /\ snap s = [] /\ nodel (opn d) /\
     eqv (hot s) (replay_from [] (opn d)) /\ cov (closed d) (files s)).

Lemma inv_init : Inv dinit.
Proof. left. repeat split. Qed.

Lemma inv_recover d : Inv (recover d).
Proof. left. cbn. repeat split. rewrite app_nil_r. intros k t; reflexivity. Qed.

(** Durability: recovering from a crash of an invariant state shows the same content. *)
Lemma durable d : Inv d -> forall k t, abs (mem (recover d)) k t = abs (mem d) k t.
Proof.
  intros HI k t. rewrite !abs_ov. cbn [recover mem hot snap files log_get].
  destruct HI as [[_ [_ [Hs Hh]]] | [[_ [_ [Hsn [Hnd Hh]]]] | [[_ [_ [Hsn [Hnd [Hh _]]]]] | [_ [_ [Hs [Hnd [Hh Hc]]]]]]]].
  - rewrite Hs. cbn. rewrite <- (Hh k t). reflexivity.
  - rewrite replay_from_app, (replay_nodel _ Hnd), <- (Hh k t), <- (Hsn k t).
    destruct (log_get (hot (mem d)) k t); reflexivity.
  - rewrite replay_from_app, (replay_nodel _ Hnd), <- (Hh k t), <- (Hsn k t).
    destruct (log_get (hot (mem d)) k t); reflexivity.
  - rewrite Hs. cbn. rewrite replay_from_app, (replay_nodel _ Hnd), <- (Hh k t).
    destruct (lg (hot (mem d)) k t); cbn; [reflexivity|].
    destruct (lg (replay_from [] (closed d)) k t) eqn:E; cbn; [|reflexivity].
    symmetry. apply Hc. exact E.
Qed.

(** ** Safe histories: deletes and snapshot starts only when no snapshot commit is in flight,
    no failed snapshots.  Crashes — plain ([DCrash]) and with a torn in-flight WAL record
    ([DCrashTorn]) — are unrestricted. *)
Definition safe_op (d : dstate) (o : dop) : Prop :=
  match o with
  | DDelete _ _ _ => phase d = 0%N
  | DSnapBegin => phase d = 0%N
  | DSnapFail => False
  | _ => True
  end.

Fixpoint dsafe (h : list dop) (d : dstate) : Prop :=
  match h with
  | [] => True
  | o :: r => safe_op d o /\ dsafe r (fst (dstep d o))
  end.

Lemma cov_files_get cl fs fs' :
  (forall k t, files_get fs' k t = files_get fs k t) -> cov cl fs -> cov cl fs'.
Proof. intros H C k t v E. rewrite H. apply C. exact E. Qed.

Lemma compact_files_get s i n k t :
  files_get (files (fst (step s (Compact i n)))) k t = files_get (files s) k t.
Proof.
  pose proof (step_compact_abs {| hot := []; snap := []; snapshotting := snapshotting s; files := files s |} i n k t) as H.
  unfold abs in H. cbn [hot snap log_get] in H.
  unfold step in *. cbn [files] in H.
  destruct (Nat.leb 1 n && Nat.leb (i + n) (length (files s)))%bool; [|reflexivity].
  cbn [fst files] in *. exact H.
Qed.

Lemma compact_keeps s i n :
  hot (fst (step s (Compact i n))) = hot s /\ snap (fst (step s (Compact i n))) = snap s /\
  snapshotting (fst (step s (Compact i n))) = snapshotting s.
Proof.
  unfold step. destruct (Nat.leb 1 n && Nat.leb (i + n) (length (files s)))%bool; repeat split.
Qed.

Lemma eqv_app A B b : eqv A B -> eqv (A ++ b) (B ++ b).
Proof. intros H k t. rewrite !log_get_app, (H k t). reflexivity. Qed.

Lemma nodel_app a b : nodel a -> nodel b -> nodel (a ++ b).
Proof. apply Forall_app_2 || (intros; apply Forall_app; split; assumption). Qed.

Lemma inv_step d o : Inv d -> safe_op d o -> Inv (fst (dstep d o)).
Proof.
  intros HI Hs. destruct o as [b|ks lo hi| | | | | |i n| |].
  - (* write *)
    cbn [dstep fst]. unfold Inv in *. cbn [mem closed opn phase step fst hot snap snapshotting files].
    destruct HI as [[Hp [H1 [H2 H3]]] | [[Hp [H1 [H2 [H3 H4]]]] | [[Hp [H1 [H2 [H3 [H4 H5]]]]] | [Hp [H1 [H2 [H3 [H4 H5]]]]]]]].
    + left. repeat split; try assumption. rewrite app_assoc, replay_from_app. cbn [replay_from]. apply eqv_app. exact H3.
    + right; left. repeat split; try assumption.
      * apply nodel_app; [exact H3|repeat constructor].
      * rewrite replay_from_app. cbn [replay_from]. apply eqv_app. exact H4.
    + right; right; left. repeat split; try assumption.
      * apply nodel_app; [exact H3|repeat constructor].
      * rewrite replay_from_app. cbn [replay_from]. apply eqv_app. exact H4.
    + right; right; right. repeat split; try assumption.
      * apply nodel_app; [exact H3|repeat constructor].
      * rewrite replay_from_app. cbn [replay_from]. apply eqv_app. exact H4.
  - (* delete at phase 0; no WAL entry when no hot key is listed *)
    cbn [safe_op] in Hs. cbn [dstep fst]. unfold Inv in *. cbn [mem closed opn phase step fst hot snap snapshotting files].
    destruct HI as [[Hp [H1 [H2 H3]]] | [[Hp _] | [[Hp _] | [Hp _]]]]; try (rewrite Hs in Hp; discriminate).
    pose proof (delete_dk_eqv _ _ ks lo hi H3) as DK.
    left. repeat split; try assumption.
    destruct (filter (has_key (hot (mem d))) ks) as [|k0 dk] eqn:EF.
    + intros k t. rewrite (DK k t). rewrite log_delete_get. unfold hit, in_keys. cbn [existsb andb]. reflexivity.
    + rewrite app_assoc, replay_from_app. cbn [replay_from]. exact DK.
  - (* snapbegin at phase 0 *)
    cbn [safe_op] in Hs.
    unfold Inv in HI. destruct HI as [[Hp [H1 [H2 H3]]] | [[Hp _] | [[Hp _] | [Hp _]]]]; try (rewrite Hs in Hp; discriminate).
    unfold dstep. rewrite Hp. cbn [N.eqb Pos.eqb]. unfold step. rewrite H1, H2.
    cbn [fst]. right; left. cbn [mem closed opn phase snapshotting snap hot].
    repeat split; try assumption; try constructor; try (intros ? ?; reflexivity).
  - (* commit: replace *)
    unfold dstep. destruct (N.eqb (phase d) 1) eqn:P; [|exact HI]. apply N.eqb_eq in P.
    unfold Inv in HI. destruct HI as [[Hp _] | [[Hp [H1 [H2 [H3 H4]]]] | [[Hp _] | [Hp _]]]]; try (rewrite P in Hp; discriminate).
    destruct (snap (mem d)) as [|e l] eqn:Sn; cbn [fst].
    + left. cbn [mem closed opn phase snapshotting snap hot]. repeat split.
      intros k t. rewrite replay_from_app, (replay_nodel _ H3), <- (H4 k t), <- (H2 k t).
      cbn [log_get]. destruct (lg (hot (mem d)) k t); reflexivity.
    + right; right; left. cbn [mem closed opn phase snapshotting snap hot files].
      repeat split; try assumption; try (rewrite <- Sn; assumption).
      intros k t v E. rewrite files_get_app. cbn [files_get]. unfold file_get. cbn [ftomb fpts tombed existsb].
      rewrite <- (H2 k t) in E. rewrite E. reflexivity.
  - (* commit: clear *)
    unfold dstep. destruct (N.eqb (phase d) 2) eqn:P; [|exact HI]. apply N.eqb_eq in P.
    unfold Inv in HI. destruct HI as [[Hp _] | [[Hp _] | [[Hp [H1 [H2 [H3 [H4 H5]]]]] | [Hp _]]]]; try (rewrite P in Hp; discriminate).
    right; right; right. cbn [fst mem closed opn phase snapshotting snap hot files]. repeat split; assumption.
  - (* commit: wal remove *)
    unfold dstep. destruct (N.eqb (phase d) 3) eqn:P; [|exact HI]. apply N.eqb_eq in P.
    unfold Inv in HI. destruct HI as [[Hp _] | [[Hp _] | [[Hp _] | [Hp [H1 [H2 [H3 [H4 H5]]]]]]]]; try (rewrite P in Hp; discriminate).
    left. cbn [fst mem closed opn phase app]. repeat split; assumption.
  - destruct Hs.
  - (* compact *)
    unfold dstep. destruct (step (mem d) (Compact i n)) as [s' ok] eqn:E. cbn [fst].
    assert (Es : s' = fst (step (mem d) (Compact i n))) by (rewrite E; reflexivity).
    destruct (compact_keeps (mem d) i n) as [K1 [K2 K3]]. rewrite <- Es in K1, K2, K3.
    assert (KF : forall k t, files_get (files s') k t = files_get (files (mem d)) k t)
      by (intros; rewrite Es; apply compact_files_get).
    unfold Inv in *. unfold with_mem. cbn [mem closed opn phase]. rewrite K1, K2, K3.
    destruct HI as [H | [H | [[Hp [H1 [H2 [H3 [H4 H5]]]]] | [Hp [H1 [H2 [H3 [H4 H5]]]]]]]].
    + left; exact H.
    + right; left; exact H.
    + right; right; left. repeat split; try assumption. eapply cov_files_get; [exact KF|exact H5].
    + right; right; right. repeat split; try assumption. eapply cov_files_get; [exact KF|exact H5].
  - apply inv_recover.
  - apply inv_recover.
Qed.

(** Content after one safe step. *)
Lemma dstep_abs d o k t : Inv d -> safe_op d o ->
  abs (mem (fst (dstep d o))) k t =
  match o with
  | DWrite b => overlay b (abs (mem d)) k t
  | DDelete ks lo hi => if hit ks lo hi k t then None else abs (mem d) k t
  | _ => abs (mem d) k t
  end.
Proof.
  intros HI Hs. destruct o as [b|ks lo hi| | | | | |i n| |].
  - cbn [dstep fst mem]. apply step_write_abs.
  - cbn [dstep fst mem]. apply step_delete_abs. cbn [safe_op] in Hs.
    destruct HI as [[_ [_ [H _]]] | [[Hp _] | [[Hp _] | [Hp _]]]]; [exact H| | |]; rewrite Hs in Hp; discriminate.
  - cbn [safe_op] in Hs. unfold dstep. rewrite Hs. cbn [N.eqb]. destruct (step (mem d) SnapBegin) as [s' ok] eqn:E. cbn [fst mem].
    replace s' with (fst (step (mem d) SnapBegin)) by (rewrite E; reflexivity). apply step_snapbegin_abs.
  - unfold dstep. destruct (N.eqb (phase d) 1) eqn:P; [|reflexivity].
    destruct (snap (mem d)) as [|e l] eqn:Sn; cbn [fst mem]; unfold abs; cbn [hot snap files]; rewrite ?Sn.
    + reflexivity.
    + rewrite files_get_app. cbn [files_get]. unfold file_get. cbn [ftomb fpts tombed existsb].
      destruct (log_get (hot (mem d)) k t); [reflexivity|].
      destruct (log_get (e :: l) k t); reflexivity.
  - unfold dstep. destruct (N.eqb (phase d) 2) eqn:P; [|reflexivity]. apply N.eqb_eq in P.
    destruct HI as [[Hp _] | [[Hp _] | [[Hp [H1 [H2 [H3 [H4 H5]]]]] | [Hp _]]]]; try (rewrite P in Hp; discriminate).
    cbn [fst mem]. rewrite !abs_ov. cbn [hot snap files]. cbn [log_get].
    destruct (lg (hot (mem d)) k t); cbn; [reflexivity|].
    destruct (lg (snap (mem d)) k t) eqn:E; cbn; [|reflexivity].
    apply H5. rewrite <- (H2 k t). exact E.
  - unfold dstep. destruct (N.eqb (phase d) 3); reflexivity.
  - destruct Hs.
  - unfold dstep. destruct (step (mem d) (Compact i n)) as [s' ok] eqn:E. cbn [fst with_mem mem].
    replace s' with (fst (step (mem d) (Compact i n))) by (rewrite E; reflexivity). apply step_compact_abs.
  - cbn [dstep fst]. apply durable. exact HI.
  - cbn [dstep fst]. apply durable. exact HI.
Qed.

Theorem drun_refines h : forall d L,
  Inv d -> (forall k t, abs (mem d) k t = log_get L k t) -> dsafe h d ->
  Inv (drun h d) /\ forall k t, abs (mem (drun h d)) k t = log_get (dspec_log h L) k t.
Proof.
  induction h as [|o h IH]; intros d L HI HA HS; [split; assumption|].
  destruct HS as [Ho HS]. unfold drun. cbn [fold_left]. fold (drun h (fst (dstep d o))).
  pose proof (inv_step d o HI Ho) as HI'.
  assert (HA' : forall k t, abs (mem (fst (dstep d o))) k t =
          log_get (match o with DWrite b => L ++ b | DDelete ks lo hi => log_delete L ks lo hi | _ => L end) k t).
  { intros k t. rewrite (dstep_abs d o k t HI Ho). destruct o; try apply HA.
    - unfold overlay. rewrite log_get_app, HA. reflexivity.
    - rewrite log_delete_get, HA. reflexivity. }
  destruct o; cbn [dspec_log]; apply IH; assumption.
Qed.

Theorem ack_durable h :
  dsafe h dinit -> forall k t, abs (mem (drun h dinit)) k t = log_get (dspec_log h []) k t.
Proof. intros HS. apply (drun_refines h dinit [] inv_init (fun _ _ => eq_refl) HS). Qed.

Theorem ack_durable_read h k lo hi asc :
  dsafe h dinit -> read (mem (drun h dinit)) k lo hi asc = spec_read (dspec_log h []) k lo hi asc.
Proof. intros HS. apply read_eq_spec. intros t. apply ack_durable. exact HS. Qed.

(** Histories of writes and crashes of either kind only are always safe: in particular the
    shape of the repaired finding (write; torn-tail crash; write; crash). *)
Lemma dsafe_writes_crashes h : forall d,
  Forall (fun o => match o with DWrite _ | DCrash | DCrashTorn => True | _ => False end) h -> dsafe h d.
Proof.
  induction h as [|o h IH]; intros d HF; [exact I|].
  inversion HF as [|? ? Ho HF']; subst. split; [|apply IH; exact HF'].
  destruct o; try destruct Ho; exact I.
Qed.

(** ** The two ways the full statement fails (both confirmed on the real engine). *)
Definition lost_write_witness : list dop :=
  [DWrite [(1%N, 1%Z, 10%Z)]; DSnapBegin; DSnapFail; DWrite [(1%N, 2%Z, 20%Z)];
   DSnapBegin; DCommitReplace; DCommitClear; DCommitWalRemove; DCrash].

Lemma lost_write :
  abs (mem (drun lost_write_witness dinit)) 1%N 2%Z = None /\
  log_get (dspec_log lost_write_witness []) 1%N 2%Z = Some 20%Z.
Proof. vm_compute. split; reflexivity. Qed.

Definition lost_delete_witness : list dop :=
  [DWrite [(1%N, 5%Z, 7%Z)]; DSnapBegin; DDelete [1%N] 0%Z 10%Z;
   DCommitReplace; DCommitClear; DCommitWalRemove; DCrash].

Lemma lost_delete :
  abs (mem (drun lost_delete_witness dinit)) 1%N 5%Z = Some 7%Z /\
  log_get (dspec_log lost_delete_witness []) 1%N 5%Z = None.
Proof. vm_compute. split; reflexivity. Qed.
